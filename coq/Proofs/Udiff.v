(* Proofs/Udiff.v — property C05: rendered unified diffs are well-formed and
   apply exactly.
     1. render_udiff (Model/TextDiff.v) = print_udiff of the hunk records
        model_hunks (Spec/UdiffHunks.v)                       [any op list]
     2. the hunk records pass check_patch (Spec/Patch.v): documented shape and
        strict application old |-> new                         [OpsExact, Alternating]
     3. empty output, file header, missing-newline marker, writer bytes. *)
From Coq Require Import NArith.
From Similar Require Import Model.Base Model.Iter Model.Capture Model.Utf8 Model.Tokenize
     Model.TextDiff Spec.Script Spec.Group Spec.Patch Spec.UdiffHunks
     Proofs.Utils Proofs.CheckScript Proofs.Iter Proofs.Group.

Arguments N.add : simpl never.
Arguments N.sub : simpl never.
Arguments N.mul : simpl never.
Arguments N.eqb : simpl never.
Arguments N.ltb : simpl never.
Arguments N.leb : simpl never.

(* ------------------------------------------------------------------ *)
(* 0. bytes_eqb decides equality                                        *)
(* ------------------------------------------------------------------ *)

Lemma bytes_eqb_refl a : bytes_eqb a a = true.
Proof.
  induction a as [|x a IH]; cbn [bytes_eqb]; [reflexivity|].
  rewrite N.eqb_refl, IH. reflexivity.
Qed.

Lemma bytes_eqb_eq a : forall b, bytes_eqb a b = true -> a = b.
Proof.
  induction a as [|x a IH]; intros [|y b] H; cbn [bytes_eqb] in H;
    try discriminate H; [reflexivity|].
  apply andb_true_iff in H. destruct H as [Hxy Hab].
  apply N.eqb_eq in Hxy. subst y. f_equal. apply IH. exact Hab.
Qed.

Theorem bytes_eqb_iff a b : bytes_eqb a b = true <-> a = b.
Proof. split; [apply bytes_eqb_eq|intros ->; apply bytes_eqb_refl]. Qed.

Lemma lines_eqb_refl l : lines_eqb l l = true.
Proof.
  unfold lines_eqb. rewrite Nat.eqb_refl. cbn [andb].
  induction l as [|a l IH]; cbn [combine forallb fst snd]; [reflexivity|].
  rewrite bytes_eqb_refl, IH. reflexivity.
Qed.

Lemma lines_eqb_eq a : forall b, lines_eqb a b = true -> a = b.
Proof.
  unfold lines_eqb.
  induction a as [|x a IH]; intros [|y b] H; cbn [length combine forallb fst snd] in H;
    try reflexivity; try discriminate H.
  apply andb_true_iff in H. destruct H as [Hlen H].
  apply andb_true_iff in H. destruct H as [Hxy H].
  apply bytes_eqb_eq in Hxy. subst y. f_equal. apply IH.
  apply andb_true_iff. split; [|exact H].
  apply Nat.eqb_eq in Hlen. apply Nat.eqb_eq. cbn [length] in Hlen. lia.
Qed.

Theorem lines_eqb_iff a b : lines_eqb a b = true <-> a = b.
Proof. split; [apply lines_eqb_eq|intros ->; apply lines_eqb_refl]. Qed.

(* ------------------------------------------------------------------ *)
(* 1. The renderer's model against the printer of hunk records          *)
(* ------------------------------------------------------------------ *)

Lemma print_range_render s e :
  render_range s e = print_range (shown_start s (e - s)) (e - s).
Proof.
  unfold render_range, print_range, shown_start. cbv zeta.
  destruct (e - s) as [|[|k]]; cbn [Nat.eqb].
  - rewrite Nat.add_sub. reflexivity.
  - reflexivity.
  - reflexivity.
Qed.

Lemma print_item_render hint c :
  render_change true hint false c = print_item hint (item_of_change c).
Proof.
  unfold render_change, print_item, item_of_change, missing_newline_text.
  cbn [fst snd negb andb app].
  destruct (ends_with_newline (ch_val c)); cbn [negb]; [reflexivity|].
  destruct hint; reflexivity.
Qed.

Lemma print_body_render hint cs :
  flat_map (render_change true hint false) cs = print_body hint (map item_of_change cs).
Proof.
  unfold print_body.
  induction cs as [|c cs IH]; cbn [flat_map map]; [reflexivity|].
  rewrite print_item_render, IH. reflexivity.
Qed.

Section RenderEqPrint.
  Variables old new : list (list N).
  Variable hint : bool.

  (* one hunk: same output, same panics *)
  Lemma render_hunk_eq_print g :
    g <> [] ->
    render_hunk old new true hint false g =
    do h <- hunk_of_group old new g; Ok (print_hunk hint h).
  Proof.
    intros Hg. unfold render_hunk. rewrite all_changes_concat.
    destruct g as [|first r]; [contradiction Hg; reflexivity|].
    unfold hunk_of_group, group_body.
    destruct (expand_all (slice_lookup old) (slice_lookup new) (first :: r)) as [cs|];
      cbn [of_option option_map bind]; [|reflexivity].
    destruct cs as [|c cs]; [reflexivity|].
    cbn [render_hunk_header bind]. unfold print_hunk. cbn [h_body h_oshown h_olen h_nshown h_nlen map].
    change (item_of_change c :: map item_of_change cs) with (map item_of_change (c :: cs)).
    rewrite <- (print_body_render hint (c :: cs)).
    rewrite !print_range_render.
    unfold str_hunk_open, str_hunk_mid, str_hunk_close, nl,
      txt_hunk_open, txt_hunk_mid, txt_hunk_close.
    rewrite <- !app_assoc. reflexivity.
  Qed.

  Lemma render_hunks_eq_print gs :
    Forall (fun g => g <> []) gs ->
    render_hunks old new true hint false gs =
    do hs <- hunks_of_groups old new gs; Ok (print_hunks hint hs).
  Proof.
    induction 1 as [|g gs Hg _ IH]; cbn [render_hunks hunks_of_groups]; [reflexivity|].
    rewrite (render_hunk_eq_print g Hg), IH.
    destruct (hunk_of_group old new g) as [h| |]; cbn [bind]; try reflexivity.
    destruct (hunks_of_groups old new gs) as [hs| |]; cbn [bind]; reflexivity.
  Qed.

  Lemma hunks_of_groups_length gs hs :
    hunks_of_groups old new gs = Ok hs -> length hs = length gs.
  Proof.
    revert hs. induction gs as [|g gs IH]; intros hs H; cbn [hunks_of_groups] in H.
    - injection H as <-. reflexivity.
    - destruct (hunk_of_group old new g) as [h| |]; cbn [bind] in H; try discriminate H.
      destruct (hunks_of_groups old new gs) as [hs'| |]; cbn [bind] in H; try discriminate H.
      injection H as <-. cbn [length]. f_equal. apply IH. reflexivity.
  Qed.

  Lemma filter_nonempty gs : Forall (fun g : list op => g <> []) (filter nonempty_group gs).
  Proof.
    apply Forall_forall. intros g Hin. apply filter_In in Hin.
    destruct Hin as [_ Hne]. destruct g; [discriminate Hne|discriminate].
  Qed.

  (* General form: for EVERY op list the rendered text is the print of the
     model hunks, and the renderer panics exactly when the hunks are
     undefined (an op reads out of bounds). *)
  Theorem udiff_render_eq_print_gen ops n header :
    render_udiff old new true hint false ops n header =
    do hs <- model_hunks old new ops n; Ok (print_udiff hint header hs).
  Proof.
    unfold render_udiff, model_hunks.
    change (fun g : list op => match g with [] => false | _ :: _ => true end)
      with nonempty_group.
    set (gs := filter nonempty_group (group_diff_ops ops n)).
    rewrite (render_hunks_eq_print gs (filter_nonempty _)).
    destruct (hunks_of_groups old new gs) as [hs| |] eqn:Ehs; cbn [bind]; try reflexivity.
    apply hunks_of_groups_length in Ehs.
    unfold print_udiff, file_header, nl, txt_old_file, txt_new_file.
    destruct gs as [|g gs'], hs as [|h hs']; cbn [length] in Ehs; try discriminate Ehs.
    - destruct header as [[a b]|]; reflexivity.
    - destruct header as [[a b]|]; [|reflexivity].
      rewrite <- !app_assoc. reflexivity.
  Qed.
End RenderEqPrint.

(* ------------------------------------------------------------------ *)
(* 2. Total form of the hunk records for in-bounds ops                  *)
(* ------------------------------------------------------------------ *)

(* a predicate on ops that is inherited by sub-ranges of Equal ops is
   inherited by every op of every group *)
Section GroupOpsInherit.
  Variable P : op -> Prop.
  Hypothesis Psub : forall o nn l k m,
    P (Equal o nn l) -> k + m <= l -> P (Equal (o + k) (nn + k) m).

  Lemma Psub0 o nn l m : P (Equal o nn l) -> m <= l -> P (Equal o nn m).
  Proof.
    intros HP Hm. pose proof (Psub o nn l 0 m HP ltac:(lia)) as H.
    rewrite !Nat.add_0_r in H. exact H.
  Qed.

  Lemma trim_first_inherit ops n : Forall P ops -> Forall P (trim_first ops n).
  Proof.
    intros H. destruct ops as [|x rest]; [exact H|].
    destruct x as [o nn l| | |]; try exact H. cbn [trim_first].
    inversion H as [|? ? Hx Hrest]; subst. constructor; [|exact Hrest].
    apply (Psub o nn l); [exact Hx|lia].
  Qed.

  Lemma trim_last_inherit n ops : Forall P ops -> Forall P (trim_last ops n).
  Proof.
    induction ops as [|x rest IH]; intros H; [exact H|].
    inversion H as [|? ? Hx Hrest]; subst.
    destruct rest as [|y r].
    - destruct x as [o nn l| | |]; cbn [trim_last]; try exact H.
      constructor; [|constructor]. apply (Psub0 o nn l); [exact Hx|lia].
    - replace (trim_last (x :: y :: r) n) with (x :: trim_last (y :: r) n)
        by (destruct x; reflexivity).
      constructor; [exact Hx|apply IH; exact Hrest].
  Qed.

  Lemma group_loop_inherit n ops : forall pending rv,
    Forall P ops -> Forall P pending -> Forall (Forall P) rv ->
    Forall (Forall P) (group_loop ops n pending rv).
  Proof.
    induction ops as [|x rest IH]; intros pending rv Hops Hp Hrv.
    - assert (Hall : Forall (Forall P) (rev (rev pending :: rv))).
      { apply Forall_rev. constructor; [apply Forall_rev; exact Hp|exact Hrv]. }
      assert (Hrv' : Forall (Forall P) (rev rv)) by (apply Forall_rev; exact Hrv).
      cbn [group_loop].
      destruct pending as [|[o nn l| | |] [|y r]]; assumption.
    - inversion Hops as [|? ? Hx Hrest]; subst.
      assert (Hdef : Forall (Forall P) (group_loop rest n (x :: pending) rv)).
      { apply IH; [exact Hrest|constructor; assumption|exact Hrv]. }
      destruct x as [o nn l| | |]; cbn [group_loop]; try exact Hdef.
      destruct (n * 2 <? l) eqn:El; [|exact Hdef].
      apply Nat.ltb_lt in El.
      apply IH; [exact Hrest| |].
      + constructor; [|constructor]. apply (Psub o nn l); [exact Hx|lia].
      + constructor; [|exact Hrv]. apply Forall_rev. constructor; [|exact Hp].
        apply (Psub0 o nn l); [exact Hx|lia].
  Qed.

  Theorem group_diff_ops_inherit ops n :
    Forall P ops -> Forall (Forall P) (group_diff_ops ops n).
  Proof.
    intros H. unfold group_diff_ops. destruct ops as [|x rest]; [constructor|].
    apply group_loop_inherit; [|constructor|constructor].
    apply trim_last_inherit, trim_first_inherit, H.
  Qed.
End GroupOpsInherit.

Section Total.
  Variables old new : list (list N).

  (* every range an op reads is within the sequences *)
  Definition OpIn (x : op) : Prop :=
    match x with
    | Equal o n l => o + l <= length old /\ n + l <= length new
    | Delete o l _ => o + l <= length old
    | Insert _ n l => n + l <= length new
    | Replace o ol n nl => o + ol <= length old /\ n + nl <= length new
    end.

  Lemma OpIn_sub o nn l k m :
    OpIn (Equal o nn l) -> k + m <= l -> OpIn (Equal (o + k) (nn + k) m).
  Proof. cbn [OpIn]. lia. Qed.

  (* body lines of one op / of a group, read directly off the line lists *)
  Definition obody (x : op) : list (ctag * list N) :=
    match x with
    | Equal o _ l => map (pair ChEqual) (seg old o l)
    | Delete o l _ => map (pair ChDelete) (seg old o l)
    | Insert _ n l => map (pair ChInsert) (seg new n l)
    | Replace o ol n nl =>
        map (pair ChDelete) (seg old o ol) ++ map (pair ChInsert) (seg new n nl)
    end.

  Definition gbody (g : list op) : list (ctag * list N) := flat_map obody g.

  Definition thunk (g : list op) : hunk :=
    match g with
    | [] => {| h_oshown := 0; h_olen := 0; h_nshown := 0; h_nlen := 0; h_body := [] |}
    | first :: _ =>
        let lst := last g first in
        let olen := op_old_end lst - op_old_start first in
        let nlen := op_new_end lst - op_new_start first in
        {| h_oshown := shown_start (op_old_start first) olen; h_olen := olen;
           h_nshown := shown_start (op_new_start first) nlen; h_nlen := nlen;
           h_body := gbody g |}
    end.

  Lemma items_of_changes tg (cs : list (change (list N))) L :
    map ch_val cs = L -> Forall (fun c => ch_tag c = tg) cs ->
    map item_of_change cs = map (pair tg) L.
  Proof.
    intros <- Htag. induction Htag as [|c cs Hc _ IH]; cbn [map]; [reflexivity|].
    rewrite IH. unfold item_of_change at 1. rewrite Hc. reflexivity.
  Qed.

  Lemma expand_op_body x :
    OpIn x ->
    exists cs, expand_op (slice_lookup old) (slice_lookup new) x = Some cs /\
               map item_of_change cs = obody x.
  Proof.
    destruct x as [o n l|o l n|o n l|o ol n nl]; cbn [OpIn expand_op obody]; intros Hin.
    - destruct (expand_old_slice old ChEqual true l o n (proj1 Hin)) as (cs & E & Hv & Ht).
      exists cs. split; [exact E|]. apply items_of_changes; assumption.
    - destruct (expand_old_slice old ChDelete false l o n Hin) as (cs & E & Hv & Ht).
      exists cs. split; [exact E|]. apply items_of_changes; assumption.
    - destruct (expand_new_slice new l n Hin) as (cs & E & Hv & Ht).
      exists cs. split; [exact E|]. apply items_of_changes; assumption.
    - destruct Hin as [Ho Hn].
      destruct (expand_old_slice old ChDelete false ol o n Ho) as (cs1 & E1 & Hv1 & Ht1).
      destruct (expand_new_slice new nl n Hn) as (cs2 & E2 & Hv2 & Ht2).
      exists (cs1 ++ cs2). rewrite E1, E2. split; [reflexivity|].
      rewrite map_app. f_equal; apply items_of_changes; assumption.
  Qed.

  Lemma expand_all_body g :
    Forall OpIn g ->
    exists cs, expand_all (slice_lookup old) (slice_lookup new) g = Some cs /\
               map item_of_change cs = gbody g.
  Proof.
    induction 1 as [|x g Hx _ IH]; cbn [expand_all gbody flat_map].
    - exists []. split; reflexivity.
    - destruct (expand_op_body x Hx) as (cs1 & E1 & B1).
      destruct IH as (cs2 & E2 & B2).
      exists (cs1 ++ cs2). rewrite E1, E2. split; [reflexivity|].
      rewrite map_app, B1, B2. reflexivity.
  Qed.

  Lemma hunk_of_group_total g :
    g <> [] -> Forall OpIn g -> hunk_of_group old new g = Ok (thunk g).
  Proof.
    intros Hg Hin. destruct g as [|first r]; [contradiction Hg; reflexivity|].
    unfold hunk_of_group, group_body, thunk.
    destruct (expand_all_body _ Hin) as (cs & E & B).
    rewrite E. cbn [option_map of_option bind]. rewrite B. reflexivity.
  Qed.

  Lemma hunks_of_groups_total gs :
    Forall (fun g => g <> []) gs -> Forall (Forall OpIn) gs ->
    hunks_of_groups old new gs = Ok (map thunk gs).
  Proof.
    induction 1 as [|g gs Hg _ IH]; intros Hin; cbn [hunks_of_groups map]; [reflexivity|].
    inversion Hin as [|? ? Hg_in Hgs_in]; subst.
    rewrite (hunk_of_group_total g Hg Hg_in), (IH Hgs_in). reflexivity.
  Qed.

  Lemma Forall_filter {A} (P : A -> Prop) f (l : list A) :
    Forall P l -> Forall P (filter f l).
  Proof.
    intros H. apply Forall_forall. intros x Hx. apply filter_In in Hx.
    destruct Hx as [Hx _]. revert x Hx. apply Forall_forall. exact H.
  Qed.

  (* for in-bounds ops the hunk records exist: nothing panics *)
  Theorem model_hunks_total ops n :
    Forall OpIn ops ->
    model_hunks old new ops n = Ok (map thunk (filter nonempty_group (group_diff_ops ops n))).
  Proof.
    intros Hin. unfold model_hunks. apply hunks_of_groups_total.
    - apply filter_nonempty.
    - apply Forall_filter. apply (group_diff_ops_inherit OpIn OpIn_sub). exact Hin.
  Qed.
End Total.

(* ------------------------------------------------------------------ *)
(* 3. Valid op lists are in bounds; udiff_render_eq_print               *)
(* ------------------------------------------------------------------ *)

Section Walk.
  Variables old new : list (list N).
  Let cmp := cmp_of bytes_eqb (slice_lookup old) (slice_lookup new).

  Lemma OpsWalk_bounds exact oe ne ops i j :
    OpsWalk cmp exact oe ne i j ops -> i <= oe /\ j <= ne.
  Proof. induction 1; lia. Qed.

  Lemma OpsWalk_OpIn exact ops i j :
    OpsWalk cmp exact (length old) (length new) i j ops -> Forall (OpIn old new) ops.
  Proof.
    induction 1 as [|i j l r Hs Hw IH|i j l n r He Hb Hw IH|i j o l r He Hb Hw IH
                   |i j ol nl r Hb1 Hb2 Hw IH]; constructor; try exact IH; cbn [OpIn].
    - apply OpsWalk_bounds in Hw. lia.
    - exact Hb.
    - exact Hb.
    - split; assumption.
  Qed.

  (* C05, first half: the rendered text is the print of the hunk records, and
     nothing panics.  Needs only in-bounds-ness (OpsLoose). *)
  Theorem udiff_render_eq_print hint ops n header :
    OpsLoose cmp 0 (length old) 0 (length new) ops ->
    exists hs,
      model_hunks old new ops n = Ok hs /\
      render_udiff old new true hint false ops n header = Ok (print_udiff hint header hs).
  Proof.
    intros Hw. apply OpsWalk_OpIn in Hw.
    eexists. split; [apply model_hunks_total; exact Hw|].
    rewrite udiff_render_eq_print_gen, (model_hunks_total old new ops n Hw). reflexivity.
  Qed.
End Walk.

(* ------------------------------------------------------------------ *)
(* 4. Walking a hunk body                                               *)
(* ------------------------------------------------------------------ *)

Definition ab_cons (pre : list (list N)) (a0 b0 : nat)
           (r : option (nat * list (list N) * nat * nat))
  : option (nat * list (list N) * nat * nat) :=
  match r with
  | Some (c, out, a, b) => Some (c, pre ++ out, a0 + a, b0 + b)
  | None => None
  end.

Lemma ab_cons_nil r : ab_cons [] 0 0 r = r.
Proof. destruct r as [[[[c out] a] b]|]; reflexivity. Qed.

Lemma ab_cons_cons pre1 a1 b1 pre2 a2 b2 r :
  ab_cons pre1 a1 b1 (ab_cons pre2 a2 b2 r) = ab_cons (pre1 ++ pre2) (a1 + a2) (b1 + b2) r.
Proof.
  destruct r as [[[[c out] a] b]|]; [|reflexivity]. cbn [ab_cons].
  rewrite <- app_assoc, !Nat.add_assoc. reflexivity.
Qed.

Lemma seg_0 {A} (l : list A) s : seg l s 0 = [].
Proof. reflexivity. Qed.

Lemma seg_length {A} (l : list A) s len : s + len <= length l -> length (seg l s len) = len.
Proof. intros H. unfold seg. rewrite firstn_length, skipn_length. lia. Qed.

Lemma seg_length_le {A} (l : list A) s len : length (seg l s len) <= len.
Proof. unfold seg. rewrite firstn_length. lia. Qed.

Lemma nth_error_in_bounds {A} (l : list A) i : i < length l -> exists x, nth_error l i = Some x.
Proof.
  intros H. destruct (nth_error l i) as [x|] eqn:E; [exists x; reflexivity|].
  apply nth_error_None in E. lia.
Qed.

Section ApplyBody.
  Variable old : list (list N).

  Lemma apply_body_eq_lines : forall l o b,
    o + l <= length old ->
    apply_body old (map (pair ChEqual) (seg old o l) ++ b) o =
    ab_cons (seg old o l) l l (apply_body old b (o + l)).
  Proof.
    induction l as [|l IH]; intros o b Hle.
    - rewrite seg_0, Nat.add_0_r. cbn [map app]. symmetry. apply ab_cons_nil.
    - destruct (nth_error_in_bounds old o ltac:(lia)) as [x Ex].
      rewrite (seg_S _ _ _ _ Ex). cbn [map app apply_body].
      rewrite Ex, bytes_eqb_refl, (IH (S o) b) by lia.
      replace (S o + l) with (o + S l) by lia.
      destruct (apply_body old b (o + S l)) as [[[[c out] a] bb]|]; reflexivity.
  Qed.

  Lemma apply_body_del_lines : forall l o b,
    o + l <= length old ->
    apply_body old (map (pair ChDelete) (seg old o l) ++ b) o =
    ab_cons [] l 0 (apply_body old b (o + l)).
  Proof.
    induction l as [|l IH]; intros o b Hle.
    - rewrite seg_0, Nat.add_0_r. cbn [map app]. symmetry. apply ab_cons_nil.
    - destruct (nth_error_in_bounds old o ltac:(lia)) as [x Ex].
      rewrite (seg_S _ _ _ _ Ex). cbn [map app apply_body].
      rewrite Ex, bytes_eqb_refl, (IH (S o) b) by lia.
      replace (S o + l) with (o + S l) by lia.
      destruct (apply_body old b (o + S l)) as [[[[c out] a] bb]|]; reflexivity.
  Qed.

  Lemma apply_body_ins_lines : forall (L : list (list N)) cur b,
    apply_body old (map (pair ChInsert) L ++ b) cur =
    ab_cons L 0 (length L) (apply_body old b cur).
  Proof.
    induction L as [|x L IH]; intros cur b.
    - cbn [map app length]. symmetry. apply ab_cons_nil.
    - cbn [map app apply_body length]. rewrite IH.
      destruct (apply_body old b cur) as [[[[c out] a] bb]|]; reflexivity.
  Qed.
End ApplyBody.

(* ------------------------------------------------------------------ *)
(* 5. Contiguous exact op segments ("chains") and their hunks           *)
(* ------------------------------------------------------------------ *)

Definition osum (g : list op) : nat := fold_right (fun x a => op_old_len x + a) 0 g.
Definition nsum (g : list op) : nat := fold_right (fun x a => op_new_len x + a) 0 g.

Lemma osum_app a b : osum (a ++ b) = osum a + osum b.
Proof. induction a as [|x a IH]; cbn [app osum fold_right] in *; [reflexivity|]. fold (osum (a ++ b)). fold (osum a). lia. Qed.

Lemma nsum_app a b : nsum (a ++ b) = nsum a + nsum b.
Proof. induction a as [|x a IH]; cbn [app nsum fold_right] in *; [reflexivity|]. fold (nsum (a ++ b)). fold (nsum a). lia. Qed.

Lemma osum_cons x g : osum (x :: g) = op_old_len x + osum g.
Proof. reflexivity. Qed.
Lemma nsum_cons x g : nsum (x :: g) = op_new_len x + nsum g.
Proof. reflexivity. Qed.

Lemma true_start_shown s len : true_start (shown_start s len) len = Some s.
Proof.
  unfold true_start, shown_start. destruct (len =? 0); [reflexivity|].
  replace (s + 1 =? 0) with false by (symmetry; apply Nat.eqb_neq; lia).
  rewrite Nat.add_sub. reflexivity.
Qed.

Section Chain.
  Variables old new : list (list N).
  Let cmp := cmp_of bytes_eqb (slice_lookup old) (slice_lookup new).

  (* in bounds, and an Equal op really relates equal lines *)
  Definition OpOk (x : op) : Prop :=
    OpIn old new x /\ match x with Equal o n l => SegEq cmp o n l | _ => True end.

  Lemma OpOk_sub o nn l k m :
    OpOk (Equal o nn l) -> k + m <= l -> OpOk (Equal (o + k) (nn + k) m).
  Proof.
    intros [Hin Hs] Hk. split; [apply (OpIn_sub old new o nn l); assumption|].
    apply (SegEq_prefix cmp _ _ (l - k)); [lia|]. apply SegEq_suffix; [lia|exact Hs].
  Qed.

  (* g is a contiguous run of ops from cursor (i, j): every op starts exactly
     at the cursor on both sides (this is exactness) and is OpOk *)
  Fixpoint Chain (i j : nat) (g : list op) : Prop :=
    match g with
    | [] => i <= length old /\ j <= length new
    | x :: r =>
        op_old_start x = i /\ op_new_start x = j /\ OpOk x /\
        Chain (i + op_old_len x) (j + op_new_len x) r
    end.

  Lemma Chain_bounds g : forall i j,
    Chain i j g -> i + osum g <= length old /\ j + nsum g <= length new.
  Proof.
    induction g as [|x g IH]; intros i j H; cbn [Chain] in H.
    - cbn. lia.
    - destruct H as (_ & _ & _ & Hr). apply IH in Hr. rewrite osum_cons, nsum_cons. lia.
  Qed.

  Lemma Chain_app a : forall i j b,
    Chain i j (a ++ b) <-> Chain i j a /\ Chain (i + osum a) (j + nsum a) b.
  Proof.
    induction a as [|x a IH]; intros i j b; cbn [app].
    - cbn [osum nsum fold_right]. rewrite !Nat.add_0_r. split.
      + intros H. split; [|exact H]. apply Chain_bounds in H. cbn [Chain]. lia.
      + intros [_ H]. exact H.
    - cbn [Chain]. rewrite osum_cons, nsum_cons, !Nat.add_assoc, IH. tauto.
  Qed.

  Lemma Chain_OpOk g : forall i j, Chain i j g -> Forall OpOk g.
  Proof.
    induction g as [|x g IH]; intros i j H; [constructor|].
    cbn [Chain] in H. destruct H as (_ & _ & Hx & Hr). constructor; [exact Hx|].
    apply (IH _ _ Hr).
  Qed.

  Lemma OpOk_OpIn x : OpOk x -> OpIn old new x.
  Proof. intros [H _]. exact H. Qed.

  Lemma Chain_OpIn g i j : Chain i j g -> Forall (OpIn old new) g.
  Proof.
    intros H. apply Chain_OpOk in H. revert H. apply Forall_impl. apply OpOk_OpIn.
  Qed.

  Lemma Chain_last g : forall i j d,
    Chain i j g -> g <> [] ->
    op_old_end (last g d) = i + osum g /\ op_new_end (last g d) = j + nsum g.
  Proof.
    induction g as [|x g IH]; intros i j d H Hne; [contradiction Hne; reflexivity|].
    cbn [Chain] in H. destruct H as (Ho & Hn & _ & Hr).
    destruct g as [|y g'].
    - cbn [last osum nsum fold_right]. unfold op_old_end, op_new_end. lia.
    - change (last (x :: y :: g') d) with (last (y :: g') d).
      destruct (IH _ _ d Hr ltac:(discriminate)) as [E1 E2].
      rewrite E1, E2, (osum_cons x), (nsum_cons x). lia.
  Qed.

  Lemma thunk_chain g s ns :
    Chain s ns g -> g <> [] ->
    thunk old new g =
    {| h_oshown := shown_start s (osum g); h_olen := osum g;
       h_nshown := shown_start ns (nsum g); h_nlen := nsum g;
       h_body := gbody old new g |}.
  Proof.
    intros H Hne. destruct g as [|f r]; [contradiction Hne; reflexivity|].
    destruct (Chain_last _ _ _ f H Hne) as [E1 E2].
    cbn [Chain] in H. destruct H as (Ho & Hn & _).
    unfold thunk. cbv zeta. rewrite E1, E2, Ho, Hn.
    replace (s + osum (f :: r) - s) with (osum (f :: r)) by lia.
    replace (ns + nsum (f :: r) - ns) with (nsum (f :: r)) by lia.
    reflexivity.
  Qed.

  (* walking the body of a chain: consumes exactly its old lines, produces
     exactly its new lines *)
  Lemma apply_body_chain g : forall i j b,
    Chain i j g ->
    apply_body old (gbody old new g ++ b) i =
    ab_cons (seg new j (nsum g)) (osum g) (nsum g) (apply_body old b (i + osum g)).
  Proof.
    induction g as [|x g IH]; intros i j b H.
    - cbn [gbody flat_map app osum nsum fold_right]. rewrite seg_0, Nat.add_0_r.
      symmetry. apply ab_cons_nil.
    - cbn [Chain] in H. destruct H as (Ho & Hn & [Hin Hseg] & Hr).
      unfold gbody. cbn [flat_map]. fold (gbody old new g). rewrite <- app_assoc.
      rewrite osum_cons, nsum_cons, Nat.add_assoc.
      destruct x as [o n l|o l n|o n l|o ol n nl];
        cbn [op_old_start op_new_start op_old_len op_new_len obody OpIn] in *; subst.
      + rewrite apply_body_eq_lines by lia.
        rewrite (IH _ _ b Hr), ab_cons_cons.
        rewrite (SegEq_seg bytes_eqb bytes_eqb_eq old new l i j Hseg), <- seg_add.
        reflexivity.
      + rewrite apply_body_del_lines by lia.
        rewrite (IH _ _ b Hr), ab_cons_cons. rewrite Nat.add_0_r. reflexivity.
      + rewrite apply_body_ins_lines, seg_length by lia.
        rewrite Nat.add_0_r in *.
        rewrite (IH _ _ b Hr), ab_cons_cons, <- seg_add. reflexivity.
      + rewrite <- app_assoc, apply_body_del_lines by lia.
        rewrite apply_body_ins_lines, seg_length by lia.
        rewrite (IH _ _ b Hr), !ab_cons_cons. cbn [app Nat.add].
        rewrite <- seg_add, Nat.add_0_r. reflexivity.
  Qed.

  Lemma apply_body_chain_nil g i j :
    Chain i j g ->
    apply_body old (gbody old new g) i = Some (i + osum g, seg new j (nsum g), osum g, nsum g).
  Proof.
    intros H. pose proof (apply_body_chain g i j [] H) as E.
    rewrite app_nil_r in E. rewrite E. cbn [apply_body ab_cons].
    rewrite app_nil_r, !Nat.add_0_r. reflexivity.
  Qed.

  (* one hunk of the strict applier *)
  Lemma apply_hunks_cons g hs pos out s ns :
    g <> [] -> Chain s ns g -> pos <= s ->
    length (out ++ seg old pos (s - pos)) = ns ->
    apply_hunks old (thunk old new g :: hs) pos out =
    apply_hunks old hs (s + osum g) ((out ++ seg old pos (s - pos)) ++ seg new ns (nsum g)).
  Proof.
    intros Hne Hc Hpos Hlen.
    rewrite (thunk_chain g s ns Hc Hne).
    cbn [apply_hunks h_oshown h_olen h_nshown h_nlen h_body].
    rewrite !true_start_shown.
    pose proof (Chain_bounds _ _ _ Hc) as [Hb1 Hb2].
    replace (pos <=? s) with true by (symmetry; apply Nat.leb_le; exact Hpos).
    replace (s <=? length old) with true by (symmetry; apply Nat.leb_le; lia).
    cbn [andb]. fold (seg old pos (s - pos)).
    replace (length (out ++ seg old pos (s - pos)) =? ns) with true
      by (symmetry; apply Nat.eqb_eq; exact Hlen).
    rewrite (apply_body_chain_nil g s ns Hc), !Nat.eqb_refl. reflexivity.
  Qed.
End Chain.

(* ------------------------------------------------------------------ *)
(* 6. Sequences of hunks that apply: [Hunks]                            *)
(* ------------------------------------------------------------------ *)

Section HunksApply.
  Variables old new : list (list N).
  Let cmp := cmp_of bytes_eqb (slice_lookup old) (slice_lookup new).

  (* From cursor (pos, jpos): d equal lines are skipped, then a chain g is one
     hunk, and so on; after the last hunk the remaining lines are equal. *)
  Inductive Hunks : nat -> nat -> list (list op) -> Prop :=
  | HK_nil pos jpos :
      pos <= length old -> jpos <= length new ->
      length old - pos = length new - jpos ->
      SegEq cmp pos jpos (length old - pos) ->
      Hunks pos jpos []
  | HK_cons pos jpos d g gs :
      g <> [] -> SegEq cmp pos jpos d ->
      Chain old new (pos + d) (jpos + d) g ->
      Hunks (pos + d + osum g) (jpos + d + nsum g) gs ->
      Hunks pos jpos (g :: gs).

  Lemma Hunks_eq a b a' b' gs : Hunks a b gs -> a = a' -> b = b' -> Hunks a' b' gs.
  Proof. intros H -> ->. exact H. Qed.

  Lemma Hunks_end : Hunks (length old) (length new) [].
  Proof.
    apply HK_nil; try lia. rewrite Nat.sub_diag. apply SegEq_0.
  Qed.

  Lemma seg_to_end {A} (l : list A) s : seg l s (length l - s) = skipn s l.
  Proof. unfold seg. apply firstn_all2. rewrite skipn_length. lia. Qed.

  Lemma firstn_seg {A} (l : list A) a b : firstn a l ++ seg l a b = firstn (a + b) l.
  Proof. unfold seg. symmetry. apply firstn_plus. Qed.

  Theorem Hunks_apply pos jpos gs :
    Hunks pos jpos gs ->
    apply_hunks old (map (thunk old new) gs) pos (firstn jpos new) = Some new.
  Proof.
    induction 1 as [pos jpos Hp Hj Hlen Hseg|pos jpos d g gs Hne Hseg Hc Hrest IH];
      cbn [map].
    - cbn [apply_hunks]. f_equal.
      rewrite <- (seg_to_end old pos).
      rewrite (SegEq_seg bytes_eqb bytes_eqb_eq old new _ _ _ Hseg), Hlen, seg_to_end.
      apply firstn_skipn.
    - pose proof (Chain_bounds old new _ _ _ Hc) as [Hb1 Hb2].
      pose proof (SegEq_seg bytes_eqb bytes_eqb_eq old new _ _ _ Hseg) as Hd.
      rewrite (apply_hunks_cons old new g _ pos _ (pos + d) (jpos + d) Hne Hc);
        [|lia|].
      + replace (pos + d - pos) with d by lia.
        rewrite Hd, firstn_seg, firstn_seg. exact IH.
      + replace (pos + d - pos) with d by lia.
        rewrite Hd, firstn_seg, firstn_length. lia.
  Qed.

  Lemma OpOk_prefix o nn l m :
    m <= l -> OpOk old new (Equal o nn l) -> OpOk old new (Equal o nn m).
  Proof.
    intros Hm H. pose proof (OpOk_sub old new o nn l 0 m H ltac:(lia)) as H'.
    rewrite !Nat.add_0_r in H'. exact H'.
  Qed.

  (* a chain ending in an Equal, with that Equal shortened to its first m lines *)
  Lemma Chain_shorten q o nn l m s ns :
    m <= l -> Chain old new s ns (q ++ [Equal o nn l]) ->
    Chain old new s ns (q ++ [Equal o nn m]) /\
    o = s + osum q /\ nn = ns + nsum q /\ OpOk old new (Equal o nn l).
  Proof.
    intros Hm H. apply Chain_app in H. destruct H as [Hq Hx].
    cbn [Chain op_old_start op_new_start op_old_len op_new_len] in Hx.
    destruct Hx as (Ho & Hn & Hok & Hb1 & Hb2).
    split; [|split; [exact Ho|split; [exact Hn|exact Hok]]].
    apply Chain_app. split; [exact Hq|].
    cbn [Chain op_old_start op_new_start op_old_len op_new_len].
    pose proof (OpOk_prefix o nn l m Hm Hok) as Hok'.
    split; [exact Ho|]. split; [exact Hn|]. split; [exact Hok'|]. lia.
  Qed.

  Lemma Chain_cons x r i j :
    op_old_start x = i -> op_new_start x = j -> OpOk old new x ->
    Chain old new (i + op_old_len x) (j + op_new_len x) r -> Chain old new i j (x :: r).
  Proof.
    intros H1 H2 H3 H4. cbn [Chain].
    split; [exact H1|split; [exact H2|split; [exact H3|exact H4]]].
  Qed.

  Lemma Chain_eq a b a' b' g : Chain old new a b g -> a = a' -> b = b' -> Chain old new a' b' g.
  Proof. intros H -> ->. exact H. Qed.

  Lemma tail_hunks n rest G :
    GroupTail n rest G ->
    forall p pos jpos d,
      p <> [] -> SegEq cmp pos jpos d ->
      Chain old new (pos + d) (jpos + d) (p ++ rest) ->
      pos + d + osum (p ++ rest) = length old ->
      jpos + d + nsum (p ++ rest) = length new ->
      Hunks pos jpos (prepend p G).
  Proof.
    induction 1 as [t Ht|t o nn l Ht|t o nn l c rest g gs Ht Hl Hc Hrest IH];
      intros p pos jpos d Hp Hseg Hch Hoe Hne; cbn [prepend].
    - apply (HK_cons pos jpos d); try assumption.
      + intros E. apply app_eq_nil in E. apply Hp, E.
      + rewrite Hoe, Hne. apply Hunks_end.
    - unfold ctx_after. set (m := Nat.min n l).
      rewrite app_assoc in Hch, Hoe, Hne |- *.
      destruct (Chain_shorten (p ++ t) o nn l m _ _ ltac:(lia) Hch) as (Hch' & Ho & Hn & Hok).
      rewrite osum_app in Hoe. rewrite nsum_app in Hne.
      cbn [osum nsum fold_right op_old_len op_new_len] in Hoe, Hne.
      apply (HK_cons pos jpos d); try assumption.
      + intros E. apply app_eq_nil in E. destruct E as [_ E]. discriminate E.
      + rewrite osum_app, nsum_app. cbn [osum nsum fold_right op_old_len op_new_len].
        destruct Hok as [[Hi1 Hi2] Hs]. cbn [OpIn] in Hi1, Hi2.
        apply HK_nil; try lia.
        replace (length old - (pos + d + (osum (p ++ t) + (m + 0)))) with (l - m) by lia.
        replace (pos + d + (osum (p ++ t) + (m + 0))) with (o + m) by lia.
        replace (jpos + d + (nsum (p ++ t) + (m + 0))) with (nn + m) by lia.
        apply SegEq_suffix; [lia|exact Hs].
    - unfold ctx_after, ctx_before. set (m := Nat.min n l).
      assert (Hm : m = n) by lia.
      rewrite app_assoc in Hch, Hoe, Hne |- *.
      change (Equal o nn l :: c :: rest) with ([Equal o nn l] ++ (c :: rest)) in Hch, Hoe, Hne.
      rewrite app_assoc in Hch, Hoe, Hne.
      apply Chain_app in Hch. destruct Hch as [Hch1 Hch2].
      destruct (Chain_shorten (p ++ t) o nn l m _ _ ltac:(lia) Hch1) as (Hch' & Ho & Hn & Hok).
      rewrite !osum_app in Hoe, Hch2. rewrite !nsum_app in Hne, Hch2.
      cbn [osum nsum fold_right op_old_len op_new_len] in Hoe, Hne, Hch2.
      fold (osum rest) in Hoe. fold (nsum rest) in Hne.
      apply (HK_cons pos jpos d); try assumption.
      + intros E. apply app_eq_nil in E. destruct E as [_ E]. discriminate E.
      + rewrite osum_app, nsum_app. cbn [osum nsum fold_right op_old_len op_new_len].
        pose proof Hok as [[Hi1 Hi2] Hs]. cbn [OpIn] in Hi1, Hi2.
        apply (Hunks_eq (o + m) (nn + m)); [|lia|lia].
        apply (IH [Equal (o + (l - m)) (nn + (l - m)) m; c] (o + m) (nn + m) (l - m - m)).
        * discriminate.
        * apply (SegEq_prefix cmp _ _ (l - m)); [lia|]. apply SegEq_suffix; [lia|exact Hs].
        * cbn [app]. apply Chain_cons; cbn [op_old_start op_new_start op_old_len op_new_len].
          -- lia.
          -- lia.
          -- apply (OpOk_sub old new o nn l); [exact Hok|lia].
          -- apply (Chain_eq _ _ _ _ _ Hch2); rewrite ?osum_app, ?nsum_app in *; lia.
        * cbn [app]. rewrite !osum_cons. cbn [op_old_len]. rewrite ?osum_app in *. lia.
        * cbn [app]. rewrite !nsum_cons. cbn [op_new_len]. rewrite ?nsum_app in *. lia.
  Qed.
End HunksApply.

(* ------------------------------------------------------------------ *)
(* 7. Exact op lists are chains; the groups of a chain are [Hunks]      *)
(* ------------------------------------------------------------------ *)

Section SpecHunks.
  Variables old new : list (list N).
  Let cmp := cmp_of bytes_eqb (slice_lookup old) (slice_lookup new).

  Lemma Chain_tail x r i j :
    Chain old new i j (x :: r) -> Chain old new (i + op_old_len x) (j + op_new_len x) r.
  Proof. intros (_ & _ & _ & H). exact H. Qed.

  Lemma OpsExact_Chain ops : forall i j,
    OpsWalk cmp true (length old) (length new) i j ops ->
    Chain old new i j ops /\ i + osum ops = length old /\ j + nsum ops = length new.
  Proof.
    induction 1 as [|i j l r Hs Hw IH|i j l n r He Hb Hw IH|i j o l r He Hb Hw IH
                   |i j ol nl r Hb1 Hb2 Hw IH].
    - cbn. lia.
    - destruct IH as (Hc & Ho & Hn). rewrite osum_cons, nsum_cons. cbn [op_old_len op_new_len].
      split; [|lia]. apply Chain_cons; try reflexivity; [|exact Hc].
      split; [cbn [OpIn]; lia|exact Hs].
    - destruct IH as (Hc & Ho & Hn). rewrite osum_cons, nsum_cons. cbn [op_old_len op_new_len].
      split; [|lia]. rewrite (He eq_refl).
      apply Chain_cons; try reflexivity; cbn [op_old_len op_new_len].
      + split; [exact Hb|exact I].
      + rewrite Nat.add_0_r. exact Hc.
    - destruct IH as (Hc & Ho & Hn). rewrite osum_cons, nsum_cons. cbn [op_old_len op_new_len].
      split; [|lia]. rewrite (He eq_refl).
      apply Chain_cons; try reflexivity; cbn [op_old_len op_new_len].
      + split; [exact Hb|exact I].
      + rewrite Nat.add_0_r. exact Hc.
    - destruct IH as (Hc & Ho & Hn). rewrite osum_cons, nsum_cons. cbn [op_old_len op_new_len].
      split; [|lia].
      apply Chain_cons; try reflexivity; cbn [op_old_len op_new_len]; [|exact Hc].
      split; [split; assumption|exact I].
  Qed.

  Theorem spec_hunks n ops gs :
    GroupSpec n ops gs ->
    OpsExact cmp 0 (length old) 0 (length new) ops ->
    Hunks old new 0 0 gs.
  Proof.
    intros HG Hex. apply OpsExact_Chain in Hex. destruct Hex as (Hc & Ho & Hn).
    destruct HG as [|o nn l|o nn l c rest g gs Hcc HT|c rest g gs Hcc HT].
    - cbn in Ho, Hn. apply (Hunks_eq old new (length old) (length new)); [|lia|lia].
      apply Hunks_end.
    - cbn [Chain op_old_start op_new_start] in Hc. destruct Hc as (-> & -> & [_ Hs] & _).
      cbn in Ho, Hn. apply HK_nil; try lia.
      replace (length old - 0) with l by lia. exact Hs.
    - pose proof Hc as Hc0. cbn [Chain op_old_start op_new_start] in Hc0.
      destruct Hc0 as (-> & -> & Hok & _).
      set (m := Nat.min n l).
      apply (tail_hunks old new n rest (g :: gs) HT [ctx_before n 0 0 l; c] 0 0 (l - m)).
      + discriminate.
      + destruct Hok as [_ Hs]. apply (SegEq_prefix _ _ _ l); [lia|exact Hs].
      + cbn [app]. unfold ctx_before. fold m.
        apply Chain_cons; cbn [op_old_start op_new_start op_old_len op_new_len]; try lia.
        * apply (OpOk_sub old new 0 0 l); [exact Hok|lia].
        * apply Chain_tail in Hc. cbn [op_old_len op_new_len] in Hc.
          apply (Chain_eq _ _ _ _ _ _ _ Hc); lia.
      + cbn [app]. unfold ctx_before. fold m. rewrite !osum_cons in *.
        cbn [op_old_len] in *. lia.
      + cbn [app]. unfold ctx_before. fold m. rewrite !nsum_cons in *.
        cbn [op_new_len] in *. lia.
    - apply (tail_hunks old new n rest (g :: gs) HT [c] 0 0 0).
      + discriminate.
      + apply SegEq_0.
      + exact Hc.
      + cbn [app]. lia.
      + cbn [app]. lia.
  Qed.
End SpecHunks.

(* ------------------------------------------------------------------ *)
(* 8. Form of the groups: [context] ++ core ++ [context]                *)
(* ------------------------------------------------------------------ *)

Lemma Alternating_tail x r : Alternating (x :: r) -> Alternating r.
Proof. intros H. inversion H; subst; [constructor|assumption]. Qed.

Lemma Alternating_head x r : Alternating (x :: r) -> NonEmptyOp x.
Proof. intros H. inversion H; subst; assumption. Qed.

Lemma Alternating_app_r a : forall b, Alternating (a ++ b) -> Alternating b.
Proof.
  induction a as [|x a IH]; intros b H; [exact H|].
  apply IH. apply (Alternating_tail x). exact H.
Qed.

Lemma Alternating_app_l a : forall b, Alternating (a ++ b) -> Alternating a.
Proof.
  induction a as [|x a IH]; intros b H; [constructor|].
  destruct a as [|y a'].
  - constructor. apply (Alternating_head _ _ H).
  - cbn [app] in H. inversion H as [| |x' y' r' Hx Hxy Hr]; subst.
    apply Alt_cons; [exact Hx|exact Hxy|]. apply (IH b). exact Hr.
Qed.

Lemma Alternating_NonEmpty g : Alternating g -> Forall NonEmptyOp g.
Proof.
  induction 1 as [|x Hx|x y r Hx Hxy Hr IH]; [constructor| |constructor; assumption].
  constructor; [exact Hx|constructor].
Qed.

Definition CtxOk (n : nat) (p : list op) : Prop :=
  p = [] \/ exists o nn l, p = [Equal o nn l] /\ l <= n.

Definition CoreOk (core : list op) : Prop :=
  Alternating core /\
  (exists c r, core = c :: r /\ is_eq c = false) /\
  (exists r c, core = r ++ [c] /\ is_eq c = false).

(* at most n context lines, a core that starts and ends with a change and
   alternates, at most n context lines *)
Definition GroupForm (n : nat) (g : list op) : Prop :=
  exists pre core post, g = pre ++ core ++ post /\ CtxOk n pre /\ CoreOk core /\ CtxOk n post.

Lemma CoreTail_last n t :
  CoreTail n t -> forall c, is_eq c = false ->
  exists r c', c :: t = r ++ [c'] /\ is_eq c' = false.
Proof.
  induction 1 as [|c1 t Hc1 Ht IH|o nn l c1 t Hl Hc1 Ht IH]; intros c Hc.
  - exists [], c. split; [reflexivity|exact Hc].
  - destruct (IH c1 Hc1) as (r & c' & E & Hc'). exists (c :: r), c'.
    split; [cbn [app]; rewrite <- E; reflexivity|exact Hc'].
  - destruct (IH c1 Hc1) as (r & c' & E & Hc'). exists (c :: Equal o nn l :: r), c'.
    split; [cbn [app]; rewrite <- E; reflexivity|exact Hc'].
Qed.

Lemma ctx_after_ok n o nn l : CtxOk n [ctx_after n o nn l].
Proof. right. unfold ctx_after. eexists _, _, _. split; [reflexivity|lia]. Qed.

Lemma ctx_before_ok n o nn l : CtxOk n [ctx_before n o nn l].
Proof. right. unfold ctx_before. eexists _, _, _. split; [reflexivity|lia]. Qed.

Lemma tail_form n rest G :
  GroupTail n rest G ->
  forall c, is_eq c = false -> Alternating (c :: rest) ->
  exists g gs, G = g :: gs /\
    (exists core post, c :: g = core ++ post /\ CoreOk core /\ CtxOk n post) /\
    Forall (GroupForm n) gs.
Proof.
  induction 1 as [t Ht|t o nn l Ht|t o nn l c' rest g gs Ht Hl Hc' Hrest IH];
    intros c Hc Halt.
  - exists t, []. split; [reflexivity|]. split; [|constructor].
    exists (c :: t), []. rewrite app_nil_r. split; [reflexivity|]. split; [|left; reflexivity].
    split; [exact Halt|]. split; [exists c, t; split; [reflexivity|exact Hc]|].
    apply (CoreTail_last n t Ht c Hc).
  - eexists _, []. split; [reflexivity|]. split; [|constructor].
    exists (c :: t), [ctx_after n o nn l]. split; [reflexivity|]. split; [|apply ctx_after_ok].
    change (c :: t ++ [Equal o nn l]) with ((c :: t) ++ [Equal o nn l]) in Halt.
    split; [apply (Alternating_app_l _ _ Halt)|].
    split; [exists c, t; split; [reflexivity|exact Hc]|].
    apply (CoreTail_last n t Ht c Hc).
  - change (c :: t ++ Equal o nn l :: c' :: rest)
      with ((c :: t) ++ Equal o nn l :: c' :: rest) in Halt.
    pose proof (Alternating_app_l _ _ Halt) as Halt1.
    pose proof (Alternating_tail _ _ (Alternating_app_r _ _ Halt)) as Halt2.
    destruct (IH c' Hc' Halt2) as (g' & gs' & E & (core & post & Ecore & Hcore & Hpost) & Hgs).
    injection E as <- <-.
    eexists _, _. split; [reflexivity|]. split.
    + exists (c :: t), [ctx_after n o nn l]. split; [reflexivity|]. split; [|apply ctx_after_ok].
      split; [exact Halt1|]. split; [exists c, t; split; [reflexivity|exact Hc]|].
      apply (CoreTail_last n t Ht c Hc).
    + constructor; [|exact Hgs].
      exists [ctx_before n o nn l], core, post. rewrite <- Ecore.
      split; [reflexivity|]. split; [apply ctx_before_ok|]. split; assumption.
Qed.

Theorem spec_form n ops gs :
  GroupSpec n ops gs -> Alternating ops -> Forall (GroupForm n) gs.
Proof.
  intros HG Halt.
  destruct HG as [|o nn l|o nn l c rest g gs Hc HT|c rest g gs Hc HT];
    [constructor|constructor| |].
  - apply Alternating_tail in Halt.
    destruct (tail_form n rest _ HT c Hc Halt) as (g' & gs' & E & (core & post & Ecore & Hcore & Hpost) & Hgs).
    injection E as <- <-. constructor; [|exact Hgs].
    exists [ctx_before n o nn l], core, post. rewrite <- Ecore.
    split; [reflexivity|]. split; [apply ctx_before_ok|]. split; assumption.
  - destruct (tail_form n rest _ HT c Hc Halt) as (g' & gs' & E & (core & post & Ecore & Hcore & Hpost) & Hgs).
    injection E as <- <-. constructor; [|exact Hgs].
    exists [], core, post. rewrite <- Ecore.
    split; [reflexivity|]. split; [left; reflexivity|]. split; assumption.
Qed.

Lemma GroupForm_nonempty n g : GroupForm n g -> g <> [].
Proof.
  intros (pre & core & post & -> & _ & (_ & (c & r & -> & _) & _) & _) E.
  apply app_eq_nil in E. destruct E as [_ E]. discriminate E.
Qed.

(* ------------------------------------------------------------------ *)
(* 9. The documented shape of every hunk                                *)
(* ------------------------------------------------------------------ *)

Definition AllCtx (b : list (ctag * list N)) : Prop := Forall (fun x => is_ctx x = true) b.

Lemma AllCtx_eq_lines L : AllCtx (map (pair ChEqual) L).
Proof. induction L; constructor; [reflexivity|assumption]. Qed.

Lemma AllCtx_lines b : AllCtx b -> b = map (pair ChEqual) (map snd b).
Proof.
  induction 1 as [|[t z] b Hz _ IH]; [reflexivity|].
  cbn [map snd]. rewrite <- IH. destruct t; try discriminate Hz. reflexivity.
Qed.

Lemma leading_ctx_app eqs x r :
  AllCtx eqs -> is_ctx x = false -> leading_ctx (eqs ++ x :: r) = length eqs.
Proof.
  induction 1 as [|y eqs Hy _ IH]; intros Hx; cbn [app leading_ctx length].
  - rewrite Hx. reflexivity.
  - rewrite Hy, (IH Hx). reflexivity.
Qed.

Lemma existsb_nonctx a x r :
  is_ctx x = false -> existsb (fun x => negb (is_ctx x)) (a ++ x :: r) = true.
Proof.
  intros Hx. rewrite existsb_app. cbn [existsb]. rewrite Hx. cbn [negb orb].
  apply orb_true_r.
Qed.

Lemma dai_all_ctx b : AllCtx b -> forall s, del_after_ins b s = false.
Proof.
  induction 1 as [|[t y] b Hx _ IH]; intros s; cbn [del_after_ins]; [reflexivity|].
  destruct t; try discriminate Hx. apply IH.
Qed.

Lemma dai_eq_lines L b s :
  L <> [] -> del_after_ins (map (pair ChEqual) L ++ b) s = del_after_ins b false.
Proof.
  intros HL. destruct L as [|y L]; [contradiction HL; reflexivity|]. clear HL.
  cbn [map app del_after_ins]. induction L as [|z L IH]; cbn [map app del_after_ins];
    [reflexivity|exact IH].
Qed.

Lemma dai_del_lines L b :
  del_after_ins (map (pair ChDelete) L ++ b) false = del_after_ins b false.
Proof. induction L as [|y L IH]; cbn [map app del_after_ins orb]; [reflexivity|exact IH]. Qed.

Lemma dai_ins_lines L b s :
  L <> [] -> del_after_ins (map (pair ChInsert) L ++ b) s = del_after_ins b true.
Proof.
  intros HL. destruct L as [|y L]; [contradiction HL; reflexivity|]. clear HL.
  cbn [map app del_after_ins]. induction L as [|z L IH]; cbn [map app del_after_ins];
    [reflexivity|exact IH].
Qed.

Lemma seg_nonempty {A} (L : list A) s len : 0 < len -> s + len <= length L -> seg L s len <> [].
Proof.
  intros Hpos Hle E. apply (f_equal (@length _)) in E.
  rewrite seg_length in E by exact Hle. cbn [length] in E. lia.
Qed.

Lemma map_pair_last (t : ctag) (L : list (list N)) :
  L <> [] -> exists r y, map (pair t) L = r ++ [(t, y)].
Proof.
  intros HL. destruct (exists_last HL) as (L' & y & ->).
  exists (map (pair t) L'), y. rewrite map_app. reflexivity.
Qed.

Section Shape.
  Variables old new : list (list N).

  Lemma gbody_app a b : gbody old new (a ++ b) = gbody old new a ++ gbody old new b.
  Proof. unfold gbody. apply flat_map_app. Qed.

  Lemma gbody_cons x g : gbody old new (x :: g) = obody old new x ++ gbody old new g.
  Proof. reflexivity. Qed.

  Lemma ctx_body n p :
    CtxOk n p -> AllCtx (gbody old new p) /\ length (gbody old new p) <= n.
  Proof.
    intros [->|(o & nn & l & -> & Hl)].
    - split; [constructor|cbn; lia].
    - rewrite gbody_cons. cbn [gbody flat_map obody]. rewrite app_nil_r. split.
      + apply AllCtx_eq_lines.
      + rewrite map_length. pose proof (seg_length_le old o l). lia.
  Qed.

  (* a non-empty in-bounds change op starts and ends with a '-' or '+' line *)
  Lemma obody_chg_head c :
    is_eq c = false -> NonEmptyOp c -> OpIn old new c ->
    exists x r, obody old new c = x :: r /\ is_ctx x = false.
  Proof.
    destruct c as [o n l|o l n|o n l|o ol n nl]; cbn [is_eq NonEmptyOp OpIn obody];
      intros Hc Hne Hin; try discriminate Hc.
    - pose proof (seg_nonempty old o l Hne Hin) as HL.
      destruct (seg old o l) as [|y L]; [contradiction HL; reflexivity|].
      eexists _, _. split; reflexivity.
    - pose proof (seg_nonempty new n l Hne Hin) as HL.
      destruct (seg new n l) as [|y L]; [contradiction HL; reflexivity|].
      eexists _, _. split; reflexivity.
    - pose proof (seg_nonempty old o ol (proj1 Hne) (proj1 Hin)) as HL.
      destruct (seg old o ol) as [|y L]; [contradiction HL; reflexivity|].
      eexists _, _. split; reflexivity.
  Qed.

  Lemma obody_chg_last c :
    is_eq c = false -> NonEmptyOp c -> OpIn old new c ->
    exists r x, obody old new c = r ++ [x] /\ is_ctx x = false.
  Proof.
    destruct c as [o n l|o l n|o n l|o ol n nl]; cbn [is_eq NonEmptyOp OpIn obody];
      intros Hc Hne Hin; try discriminate Hc.
    - destruct (map_pair_last ChDelete _ (seg_nonempty old o l Hne Hin)) as (r & y & E).
      exists r, (ChDelete, y). split; [exact E|reflexivity].
    - destruct (map_pair_last ChInsert _ (seg_nonempty new n l Hne Hin)) as (r & y & E).
      exists r, (ChInsert, y). split; [exact E|reflexivity].
    - destruct (map_pair_last ChInsert _ (seg_nonempty new n nl (proj2 Hne) (proj2 Hin)))
        as (r & y & E).
      exists (map (pair ChDelete) (seg old o ol) ++ r), (ChInsert, y).
      split; [rewrite E, app_assoc; reflexivity|reflexivity].
  Qed.

  (* inside an alternating run no '-' line follows a '+' line *)
  Lemma dai_alternating tl :
    (forall s, del_after_ins tl s = false) ->
    forall g, Alternating g -> Forall (OpIn old new) g ->
    del_after_ins (gbody old new g ++ tl) false = false /\
    (match g with [] => True | x :: _ => is_eq x = true end ->
     forall s, del_after_ins (gbody old new g ++ tl) s = false).
  Proof.
    intros Htl.
    assert (Hstep : forall x rest,
      NonEmptyOp x -> OpIn old new x ->
      (del_after_ins (gbody old new rest ++ tl) false = false) ->
      (is_eq x = false -> forall s, del_after_ins (gbody old new rest ++ tl) s = false) ->
      del_after_ins (gbody old new (x :: rest) ++ tl) false = false /\
      (is_eq x = true -> forall s, del_after_ins (gbody old new (x :: rest) ++ tl) s = false)).
    { intros x rest Hne Hin Ha Hb. rewrite gbody_cons, <- app_assoc.
      destruct x as [o n l|o l n|o n l|o ol n nl]; cbn [is_eq NonEmptyOp OpIn obody] in *.
      - pose proof (seg_nonempty old o l Hne (proj1 Hin)) as HL.
        split; [|intros _ s]; rewrite dai_eq_lines by exact HL; exact Ha.
      - split; [|discriminate]. rewrite dai_del_lines. exact Ha.
      - pose proof (seg_nonempty new n l Hne Hin) as HL.
        split; [|discriminate]. rewrite dai_ins_lines by exact HL. apply Hb. reflexivity.
      - pose proof (seg_nonempty new n nl (proj2 Hne) (proj2 Hin)) as HL.
        split; [|discriminate]. rewrite <- app_assoc, dai_del_lines.
        rewrite dai_ins_lines by exact HL. apply Hb. reflexivity. }
    induction 1 as [|x Hx|x y r Hx Hxy Hr IH]; intros Hin.
    - cbn [gbody flat_map app]. split; [apply Htl|intros _; apply Htl].
    - inversion Hin as [|? ? Hix _]; subst.
      apply (Hstep x [] Hx Hix); cbn [gbody flat_map app]; [apply Htl|intros _; apply Htl].
    - inversion Hin as [|? ? Hix Hir]; subst.
      destruct (IH Hir) as [Ha Hb].
      apply (Hstep x (y :: r) Hx Hix Ha).
      intros Hxe. apply Hb.
      destruct (is_eq y) eqn:Ey; [reflexivity|].
      exfalso. apply is_eq_false_iff in Ey. apply is_eq_false_iff in Hxe.
      apply Hxe. apply Hxy. exact Ey.
  Qed.

  Theorem group_shape_ok n g :
    GroupForm n g -> Forall (OpIn old new) g -> hunk_shape_ok n (thunk old new g) = true.
  Proof.
    intros (pre & core & post & -> & Hpre & (Halt & (c & r & Ec & Hc) & (r' & c' & Ec' & Hc')) & Hpost) Hin.
    apply Forall_app in Hin. destruct Hin as [_ Hin].
    apply Forall_app in Hin. destruct Hin as [Hin _].
    destruct (ctx_body n pre Hpre) as [Hpre1 Hpre2].
    destruct (ctx_body n post Hpost) as [Hpost1 Hpost2].
    pose proof (Alternating_NonEmpty _ Halt) as Hne.
    (* first body line of the core *)
    assert (Hhead : exists x b, gbody old new core = x :: b /\ is_ctx x = false).
    { subst core. inversion Hne as [|? ? Hnc _]; subst. inversion Hin as [|? ? Hic _]; subst.
      destruct (obody_chg_head c Hc Hnc Hic) as (x & b & E & Hx).
      exists x, (b ++ gbody old new r). rewrite gbody_cons, E. split; [reflexivity|exact Hx]. }
    assert (Hlast : exists b x, gbody old new core = b ++ [x] /\ is_ctx x = false).
    { rewrite Ec' in Hne, Hin |- *.
      apply Forall_app in Hne. destruct Hne as [_ Hnc]. inversion Hnc as [|? ? Hnc' _]; subst.
      apply Forall_app in Hin. destruct Hin as [_ Hic]. inversion Hic as [|? ? Hic' _]; subst.
      destruct (obody_chg_last c' Hc' Hnc' Hic') as (b & x & E & Hx).
      exists (gbody old new r' ++ b), x. rewrite gbody_app, gbody_cons, E.
      cbn [gbody flat_map]. rewrite app_nil_r, app_assoc. split; [reflexivity|exact Hx]. }
    destruct Hhead as (x1 & b1 & E1 & Hx1). destruct Hlast as (b2 & x2 & E2 & Hx2).
    assert (Hbody : h_body (thunk old new (pre ++ core ++ post)) =
                    gbody old new pre ++ gbody old new core ++ gbody old new post).
    { rewrite <- !gbody_app. unfold thunk.
      destruct (pre ++ core ++ post) as [|f q] eqn:E; [|reflexivity].
      apply app_eq_nil in E. destruct E as [_ E]. apply app_eq_nil in E. destruct E as [E _].
      rewrite Ec in E. discriminate E. }
    unfold hunk_shape_ok. cbv zeta. rewrite Hbody.
    apply andb_true_iff. split; [apply andb_true_iff; split; [apply andb_true_iff; split|]|].
    - rewrite E1. cbn [app]. apply existsb_nonctx. exact Hx1.
    - rewrite E1. cbn [app]. rewrite (leading_ctx_app _ _ _ Hpre1 Hx1). apply Nat.leb_le. exact Hpre2.
    - rewrite E2, !rev_app_distr. cbn [rev app]. rewrite <- app_assoc. cbn [app].
      rewrite leading_ctx_app; [|apply Forall_rev; exact Hpost1|exact Hx2].
      rewrite rev_length. apply Nat.leb_le. exact Hpost2.
    - apply negb_true_iff.
      destruct (gbody old new pre) as [|y ys].
      + cbn [app]. apply (proj1 (dai_alternating _ (dai_all_ctx _ Hpost1) core Halt Hin)).
      + rewrite (AllCtx_lines _ Hpre1), dai_eq_lines by (cbn [map]; discriminate).
        apply (proj1 (dai_alternating _ (dai_all_ctx _ Hpost1) core Halt Hin)).
  Qed.
End Shape.

(* ------------------------------------------------------------------ *)
(* 10. C05: the hunk records apply exactly and have the documented shape *)
(* ------------------------------------------------------------------ *)

Lemma filter_all {A} (f : A -> bool) (l : list A) :
  Forall (fun x => f x = true) l -> filter f l = l.
Proof.
  induction 1 as [|x l Hx _ IH]; cbn [filter]; [reflexivity|]. rewrite Hx, IH. reflexivity.
Qed.

Section Main.
  Variables old new : list (list N).
  Let cmp := cmp_of bytes_eqb (slice_lookup old) (slice_lookup new).

  (* everything known about the groups of an exact alternating op list *)
  Lemma groups_facts ops n :
    OpsExact cmp 0 (length old) 0 (length new) ops -> Alternating ops ->
    let gs := group_diff_ops ops n in
    Hunks old new 0 0 gs /\
    Forall (GroupForm n) gs /\
    Forall (Forall (OpIn old new)) gs /\
    model_hunks old new ops n = Ok (map (thunk old new) gs).
  Proof.
    intros Hex Halt gs.
    pose proof (group_diff_ops_spec ops n Halt) as HG. fold gs in HG.
    pose proof (spec_form n ops gs HG Halt) as Hform.
    pose proof (OpsWalk_OpIn old new true ops 0 0 Hex) as Hin.
    split; [exact (spec_hunks old new n ops gs HG Hex)|].
    split; [exact Hform|].
    split; [apply (group_diff_ops_inherit _ (OpIn_sub old new)); exact Hin|].
    rewrite (model_hunks_total old new ops n Hin). fold gs.
    rewrite filter_all; [reflexivity|].
    revert Hform. apply Forall_impl. intros g Hg. apply GroupForm_nonempty in Hg.
    destruct g; [contradiction Hg; reflexivity|reflexivity].
  Qed.

  (* C05, second half *)
  Theorem udiff_applies ops n :
    OpsExact cmp 0 (length old) 0 (length new) ops -> Alternating ops ->
    exists hs,
      model_hunks old new ops n = Ok hs /\
      check_patch n hs old new = true.
  Proof.
    intros Hex Halt.
    destruct (groups_facts ops n Hex Halt) as (Hh & Hform & Hin & Hm).
    eexists. split; [exact Hm|].
    unfold check_patch, apply_strict.
    pose proof (Hunks_apply old new 0 0 _ Hh) as Happ. cbn [firstn] in Happ.
    rewrite Happ, lines_eqb_refl, andb_true_r.
    apply forallb_forall. intros h Hh_in. apply in_map_iff in Hh_in.
    destruct Hh_in as (g & <- & Hg).
    apply group_shape_ok.
    - revert g Hg. apply Forall_forall. exact Hform.
    - revert g Hg. apply Forall_forall. exact Hin.
  Qed.

  (* the two halves of check_patch, separately *)
  Corollary udiff_applies_strict ops n :
    OpsExact cmp 0 (length old) 0 (length new) ops -> Alternating ops ->
    exists hs,
      model_hunks old new ops n = Ok hs /\
      apply_strict hs old = Some new /\
      Forall (fun h => hunk_shape_ok n h = true) hs.
  Proof.
    intros Hex Halt. destruct (udiff_applies ops n Hex Halt) as (hs & Hm & Hchk).
    exists hs. split; [exact Hm|].
    unfold check_patch in Hchk. apply andb_true_iff in Hchk. destruct Hchk as [Hshape Happ].
    split.
    - destruct (apply_strict hs old) as [out|]; [|discriminate Happ].
      apply lines_eqb_eq in Happ. subst out. reflexivity.
    - apply Forall_forall. apply forallb_forall. exact Hshape.
  Qed.

  (* both halves together, for the rendered text *)
  Theorem udiff_render_applies hint ops n header :
    OpsExact cmp 0 (length old) 0 (length new) ops -> Alternating ops ->
    exists hs,
      render_udiff old new true hint false ops n header = Ok (print_udiff hint header hs) /\
      check_patch n hs old new = true.
  Proof.
    intros Hex Halt. destruct (udiff_applies ops n Hex Halt) as (hs & Hm & Hchk).
    exists hs. split; [|exact Hchk].
    rewrite udiff_render_eq_print_gen, Hm. reflexivity.
  Qed.
End Main.

(* ------------------------------------------------------------------ *)
(* 11. Printer facts: marker, header, emptiness, writer bytes           *)
(* ------------------------------------------------------------------ *)

Lemma ends_with_newline_spec l :
  ends_with_newline l = true <-> exists l' c, l = l' ++ [c] /\ (c = 13%N \/ c = 10%N).
Proof.
  unfold ends_with_newline. split.
  - destruct (rev l) as [|c r] eqn:E; [discriminate|]. intros H.
    exists (rev r), c. split.
    + rewrite <- (rev_involutive l), E. reflexivity.
    + apply orb_true_iff in H. destruct H as [H|H]; apply N.eqb_eq in H; auto.
  - intros (l' & c & -> & Hc). rewrite rev_app_distr. cbn [rev app].
    apply orb_true_iff. destruct Hc as [->| ->]; [left|right]; reflexivity.
Qed.

Lemma print_body_cons hint it b :
  print_body hint (it :: b) = print_item hint it ++ print_body hint b.
Proof. reflexivity. Qed.

Lemma print_body_app hint a b :
  print_body hint (a ++ b) = print_body hint a ++ print_body hint b.
Proof. unfold print_body. apply flat_map_app. Qed.

(* the marker text follows a body line exactly when the line does not end
   with CR or LF *)
Theorem marker_exactly t l :
  (print_item true (t, l) = tag_char t :: l ++ txt_no_newline_marker
   <-> ends_with_newline l = false) /\
  (print_item true (t, l) = tag_char t :: l <-> ends_with_newline l = true) /\
  (print_item false (t, l) = tag_char t :: l ++ [10%N] <-> ends_with_newline l = false).
Proof.
  unfold print_item, missing_newline_text. cbn [fst snd].
  destruct (ends_with_newline l).
  - rewrite app_nil_r. split; [|split].
    + split; [|discriminate]. intros H. injection H as H.
      rewrite <- (app_nil_r l) in H at 1. apply app_inv_head in H. discriminate H.
    + split; reflexivity.
    + split; [|discriminate]. intros H. injection H as H.
      rewrite <- (app_nil_r l) in H at 1. apply app_inv_head in H. discriminate H.
  - split; [|split].
    + split; reflexivity.
    + split; [|discriminate]. intros H. injection H as H.
      rewrite <- (app_nil_r l) in H at 2. apply app_inv_head in H. discriminate H.
    + split; reflexivity.
Qed.

Theorem marker_exactly_body hint t l b :
  print_body hint ((t, l) :: b) =
  tag_char t :: l ++
  (if ends_with_newline l then [] else missing_newline_text hint) ++ print_body hint b.
Proof.
  rewrite print_body_cons. unfold print_item. cbn [fst snd app].
  rewrite <- app_assoc. reflexivity.
Qed.

Lemma print_hunk_head hint h :
  h_body h <> [] -> exists rest, print_hunk hint h = 64%N :: rest.
Proof.
  intros Hb. unfold print_hunk. destruct (h_body h) as [|x b]; [contradiction Hb; reflexivity|].
  unfold txt_hunk_open. cbn [app]. eexists. reflexivity.
Qed.

Lemma print_hunks_head hint hs :
  Forall (fun h => h_body h <> []) hs -> hs <> [] ->
  exists rest, print_hunks hint hs = 64%N :: rest.
Proof.
  intros Hall Hne. destruct hs as [|h hs]; [contradiction Hne; reflexivity|].
  inversion Hall as [|? ? Hh _]; subst.
  destruct (print_hunk_head hint h Hh) as [rest E].
  unfold print_hunks. cbn [flat_map]. rewrite E. cbn [app]. eexists. reflexivity.
Qed.

Lemma shape_body_nonempty n h : hunk_shape_ok n h = true -> h_body h <> [].
Proof.
  unfold hunk_shape_ok. cbv zeta. intros H E. rewrite E in H. cbn in H. discriminate H.
Qed.

Lemma print_udiff_nil hint header : print_udiff hint header [] = [].
Proof. destruct header as [[a b]|]; reflexivity. Qed.

Lemma print_udiff_some hint a b hs :
  hs <> [] -> print_udiff hint (Some (a, b)) hs = file_header a b ++ print_hunks hint hs.
Proof. destruct hs; [intros H; contradiction H; reflexivity|reflexivity]. Qed.

Lemma print_udiff_none hint hs : print_udiff hint None hs = print_hunks hint hs.
Proof. destruct hs; reflexivity. Qed.

(* the first byte is '-' exactly when a header was requested and there is a
   hunk; otherwise the text is empty or starts with '@' *)
Lemma print_udiff_first_byte hint header hs :
  Forall (fun h => h_body h <> []) hs ->
  (hd_error (print_udiff hint header hs) = Some 45%N <->
   (exists a b, header = Some (a, b)) /\ hs <> []).
Proof.
  intros Hall. destruct hs as [|h hs'].
  - rewrite print_udiff_nil. split; [discriminate|]. intros [_ H]. contradiction H. reflexivity.
  - destruct (print_hunks_head hint (h :: hs') Hall ltac:(discriminate)) as [rest E].
    destruct header as [[a b]|].
    + rewrite print_udiff_some by discriminate. split.
      * intros _. split; [exists a, b; reflexivity|discriminate].
      * intros _. reflexivity.
    + rewrite print_udiff_none, E. split; [discriminate|]. intros [(a & b & H) _]. discriminate H.
Qed.

Lemma print_udiff_empty_inv hint header hs :
  Forall (fun h => h_body h <> []) hs -> print_udiff hint header hs = [] -> hs = [].
Proof.
  intros Hall H. destruct hs as [|h hs']; [reflexivity|]. exfalso.
  destruct (print_hunks_head hint (h :: hs') Hall ltac:(discriminate)) as [rest E].
  destruct header as [[a b]|].
  - rewrite print_udiff_some in H by discriminate. discriminate H.
  - rewrite print_udiff_none, E in H. discriminate H.
Qed.

Lemma changes_nil_all_eq ops : changes ops = [] -> forall x, In x ops -> IsEqualOp x.
Proof.
  induction ops as [|y ops IH]; intros H x Hin; [contradiction Hin|].
  rewrite changes_cons in H. destruct (is_eq y) eqn:Ey; [|discriminate H].
  destruct Hin as [<-|Hin]; [apply is_eq_true_iff; exact Ey|apply IH; assumption].
Qed.

Lemma In_firstn {A} (x : A) : forall k L, In x (firstn k L) -> In x L.
Proof.
  induction k as [|k IH]; intros [|y L] H; cbn [firstn] in H; try contradiction H.
  destruct H as [H|H]; [left; exact H|right; apply IH; exact H].
Qed.

Lemma In_seg {A} (L : list A) s len x : In x (seg L s len) -> In x L.
Proof.
  unfold seg. intros H. apply In_firstn in H.
  rewrite <- (firstn_skipn s L). apply in_or_app. right. exact H.
Qed.

Section Results.
  Variables old new : list (list N).
  Let cmp := cmp_of bytes_eqb (slice_lookup old) (slice_lookup new).

  (* every body line of a hunk is a line of old (' ' and '-') or of new ('+') *)
  Lemma gbody_lines g t l :
    In (t, l) (gbody old new g) ->
    In l (match t with ChInsert => new | _ => old end).
  Proof.
    unfold gbody. intros H. apply in_flat_map in H. destruct H as (x & _ & H).
    destruct x as [o n k|o k n|o n k|o ok n nk]; cbn [obody] in H;
      try apply in_app_or in H;
      repeat match goal with
        | H : _ \/ _ |- _ => destruct H as [H|H]
        | H : In _ (map _ _) |- _ =>
            apply in_map_iff in H; destruct H as (y & E & H); injection E as <- <-;
            apply In_seg in H; exact H
        end.
  Qed.

  Section Setting.
    Variables (ops : list op) (n : nat) (hint : bool) (header : option (list N * list N)).
    Hypothesis Hex : OpsExact cmp 0 (length old) 0 (length new) ops.
    Hypothesis Halt : Alternating ops.

    Lemma hunks_setting :
      exists hs,
        model_hunks old new ops n = Ok hs /\
        render_udiff old new true hint false ops n header = Ok (print_udiff hint header hs) /\
        hs = map (thunk old new) (group_diff_ops ops n) /\
        Forall (fun h => h_body h <> []) hs /\
        apply_strict hs old = Some new.
    Proof.
      destruct (udiff_applies_strict old new ops n Hex Halt) as (hs & Hm & Happ & Hshape).
      exists hs. split; [exact Hm|]. split; [rewrite udiff_render_eq_print_gen, Hm; reflexivity|].
      split.
      - destruct (groups_facts old new ops n Hex Halt) as (_ & _ & _ & Hm').
        rewrite Hm in Hm'. injection Hm' as ->. reflexivity.
      - split; [|exact Happ]. revert Hshape. apply Forall_impl. intros h. apply shape_body_nonempty.
    Qed.

    (* The output is empty exactly when the op list contains no change; then
       old = new and no file header is written. *)
    Theorem udiff_empty_iff_no_change :
      render_udiff old new true hint false ops n header = Ok []
      <-> (forall x, In x ops -> IsEqualOp x).
    Proof.
      destruct hunks_setting as (hs & Hm & Hr & Ehs & Hbody & Happ). split.
      - intros H. rewrite Hr in H. injection H as H.
        apply print_udiff_empty_inv in H; [|exact Hbody]. rewrite H in Ehs.
        symmetry in Ehs. apply map_eq_nil in Ehs.
        rewrite (group_diff_ops_eq_ref ops n Halt) in Ehs.
        apply changes_nil_all_eq. rewrite <- (group_ref_G2 ops n), Ehs. reflexivity.
      - intros Hall. rewrite Hr, Ehs, (group_diff_ops_eq_ref ops n Halt).
        rewrite (group_ref_G0 ops n Halt Hall). cbn [map]. rewrite print_udiff_nil. reflexivity.
    Qed.

    Theorem udiff_empty_equal :
      render_udiff old new true hint false ops n header = Ok [] -> old = new.
    Proof.
      destruct hunks_setting as (hs & Hm & Hr & Ehs & Hbody & Happ).
      intros H. rewrite Hr in H. injection H as H.
      apply print_udiff_empty_inv in H; [|exact Hbody]. rewrite H in Happ.
      cbn in Happ. injection Happ as Happ. exact Happ.
    Qed.

    (* file header: first, once, and only when there is a hunk *)
    Theorem udiff_header_once :
      exists hs,
        model_hunks old new ops n = Ok hs /\
        forall out, render_udiff old new true hint false ops n header = Ok out ->
          (hs = [] -> out = []) /\
          (hs <> [] -> out = match header with
                             | Some (a, b) => file_header a b ++ print_hunks hint hs
                             | None => print_hunks hint hs
                             end) /\
          (hs <> [] -> exists rest, print_hunks hint hs = 64%N :: rest) /\
          (hd_error out = Some 45%N <-> (exists a b, header = Some (a, b)) /\ hs <> []).
    Proof.
      destruct hunks_setting as (hs & Hm & Hr & Ehs & Hbody & Happ).
      exists hs. split; [exact Hm|]. intros out Hout. rewrite Hr in Hout. injection Hout as <-.
      split; [intros ->; apply print_udiff_nil|].
      split; [|split].
      - intros Hne. destruct header as [[a b]|];
          [apply print_udiff_some; exact Hne|apply print_udiff_none].
      - apply print_hunks_head. exact Hbody.
      - apply print_udiff_first_byte. exact Hbody.
    Qed.
  End Setting.

  (* writer: with lossy_values = false every body line's bytes appear
     unchanged in the output, after its tag character; and every body line
     is a line of old or new.  Only in-bounds-ness is needed. *)
  Theorem writer_bytes hint ops n header :
    OpsLoose cmp 0 (length old) 0 (length new) ops ->
    exists hs out,
      model_hunks old new ops n = Ok hs /\
      render_udiff old new true hint false ops n header = Ok out /\
      forall h t l, In h hs -> In (t, l) (h_body h) ->
        In l (match t with ChInsert => new | _ => old end) /\
        exists pre post, out = pre ++ tag_char t :: l ++ post.
  Proof.
    intros Hw. apply (OpsWalk_OpIn old new) in Hw.
    pose proof (model_hunks_total old new ops n Hw) as Hm.
    eexists _, _. split; [exact Hm|].
    split; [rewrite udiff_render_eq_print_gen, Hm; reflexivity|].
    intros h t l Hh Hit. split.
    - apply in_map_iff in Hh. destruct Hh as (g & <- & _).
      destruct g as [|f r]; [contradiction Hit|]. apply (gbody_lines _ _ _ Hit).
    - set (hs := map (thunk old new) _) in *.
      apply in_split in Hh. destruct Hh as (hs1 & hs2 & Ehs).
      pose proof Hit as Hit'. apply in_split in Hit'. destruct Hit' as (b1 & b2 & Eb).
      assert (Eh : exists p1 p2, print_hunk hint h = p1 ++ tag_char t :: l ++ p2).
      { unfold print_hunk. rewrite Eb.
        destruct (b1 ++ (t, l) :: b2) as [|x0 b0] eqn:E0;
          [apply app_eq_nil in E0; destruct E0 as [_ E0]; discriminate E0|].
        rewrite <- E0, print_body_app, marker_exactly_body.
        exists (txt_hunk_open ++ print_range (h_oshown h) (h_olen h) ++ txt_hunk_mid ++
                print_range (h_nshown h) (h_nlen h) ++ txt_hunk_close ++ print_body hint b1),
               ((if ends_with_newline l then [] else missing_newline_text hint) ++
                print_body hint b2).
        rewrite <- !app_assoc. reflexivity. }
      destruct Eh as (p1 & p2 & Eh).
      assert (Ehunks : exists q1 q2, print_hunks hint hs = q1 ++ tag_char t :: l ++ q2).
      { rewrite Ehs. unfold print_hunks. rewrite flat_map_app. cbn [flat_map]. rewrite Eh.
        exists (flat_map (print_hunk hint) hs1 ++ p1), (p2 ++ flat_map (print_hunk hint) hs2).
        rewrite <- !app_assoc. cbn [app]. rewrite <- !app_assoc. reflexivity. }
      destruct Ehunks as (q1 & q2 & Ehunks).
      unfold print_udiff. destruct hs as [|h0 hs0]; [destruct hs1; discriminate Ehs|].
      destruct header as [[a b]|].
      + rewrite Ehunks. exists (file_header a b ++ q1), q2. rewrite <- app_assoc. reflexivity.
      + rewrite Ehunks. exists q1, q2. reflexivity.
  Qed.
End Results.

(* ------------------------------------------------------------------ *)
(* 12. old = new gives an empty diff — for LCS-optimal op lists          *)
(* ------------------------------------------------------------------ *)

(* OpsExact + Alternating alone do not make the diff of two equal texts
   empty: [Replace 0 1 0 1] is an exact alternating script between ["a"] and
   ["a"] (see Props/C05.v).  What is needed is that the script keeps a longest
   common subsequence. *)

Lemma osum_split ops : osum ops = equal_total ops + deleted ops.
Proof.
  induction ops as [|x ops IH]; [reflexivity|].
  rewrite osum_cons. unfold equal_total, deleted in *. cbn [fold_right].
  destruct x; cbn [op_old_len]; lia.
Qed.

Lemma nsum_split ops : nsum ops = equal_total ops + inserted ops.
Proof.
  induction ops as [|x ops IH]; [reflexivity|].
  rewrite nsum_cons. unfold equal_total, inserted in *. cbn [fold_right].
  destruct x; cbn [op_new_len]; lia.
Qed.

Lemma no_cost_all_eq ops :
  deleted ops = 0 -> inserted ops = 0 -> Forall NonEmptyOp ops ->
  forall x, In x ops -> IsEqualOp x.
Proof.
  induction ops as [|y ops IH]; intros Hd Hi Hne x Hin; [contradiction Hin|].
  inversion Hne as [|? ? Hy Hne']; subst.
  unfold deleted, inserted in Hd, Hi. cbn [fold_right] in Hd, Hi.
  destruct Hin as [<-|Hin].
  - destruct y; cbn [NonEmptyOp op_old_len op_new_len IsEqualOp] in *; try exact I; lia.
  - apply IH; try assumption; unfold deleted, inserted; lia.
Qed.

Section EqualTexts.
  Variable old : list (list N).
  Let cmp := cmp_of bytes_eqb (slice_lookup old) (slice_lookup old).

  Lemma diag_common : forall k i,
    i + k = length old ->
    CommonSub cmp (length old) (length old) i i (map (fun t => (t, t)) (seq i k)).
  Proof.
    induction k as [|k IH]; intros i Hi; cbn [seq map]; [constructor|].
    destruct (nth_error_in_bounds old i ltac:(lia)) as [x Ex].
    constructor; try lia.
    - unfold cmp, cmp_of, slice_lookup. rewrite Ex, bytes_eqb_refl. reflexivity.
    - apply IH. lia.
  Qed.

  Lemma lcs_equal_texts L : IsLcsLen cmp 0 (length old) 0 (length old) L -> length old <= L.
  Proof.
    intros [_ Hmax]. specialize (Hmax _ (diag_common (length old) 0 eq_refl)).
    rewrite map_length, seq_length in Hmax. exact Hmax.
  Qed.
End EqualTexts.

Section EqualIff.
  Variables old new : list (list N).
  Let cmp := cmp_of bytes_eqb (slice_lookup old) (slice_lookup new).

  Theorem udiff_empty_iff_equal hint ops n header :
    OpsExact cmp 0 (length old) 0 (length new) ops -> Alternating ops ->
    IsLcsLen cmp 0 (length old) 0 (length new) (equal_total ops) ->
    (render_udiff old new true hint false ops n header = Ok [] <-> old = new).
  Proof.
    intros Hex Halt Hlcs. split; [apply (udiff_empty_equal old new ops n hint header Hex Halt)|].
    intros E. apply (udiff_empty_iff_no_change old new ops n hint header Hex Halt).
    destruct (OpsExact_Chain old new ops 0 0 Hex) as (_ & Ho & Hn).
    unfold cmp in Hlcs. subst new.
    apply lcs_equal_texts in Hlcs.
    rewrite osum_split in Ho. rewrite nsum_split in Hn.
    apply no_cost_all_eq; [lia|lia|apply Alternating_NonEmpty; exact Halt].
  Qed.
End EqualIff.

(* ------------------------------------------------------------------ *)
(* 13. Display (lossy) output = lossy of the writer's output            *)
(* ------------------------------------------------------------------ *)

Definition Ascii (s : list N) : Prop := Forall (fun x => (x < 128)%N) s.
(* empty, or starts with an ASCII byte *)
Definition Sep (s : list N) : Prop := match s with [] => True | x :: _ => (x < 128)%N end.

Lemma is_cont_low c : (c < 128)%N -> is_cont c = false.
Proof.
  intros H. unfold is_cont, in_rng.
  replace (128 <=? c)%N with false by (symmetry; apply N.leb_gt; exact H). reflexivity.
Qed.

Lemma in_rng_low c lo hi : (c < 128)%N -> (128 <= lo)%N -> in_rng c lo hi = false.
Proof.
  intros H Hlo. unfold in_rng.
  replace (lo <=? c)%N with false by (symmetry; apply N.leb_gt; lia). reflexivity.
Qed.

Ltac split_ifs :=
  repeat match goal with
    | |- context [if ?x then _ else _] => destruct x eqn:?
    end.

(* a decoding step never looks past an ASCII byte *)
Lemma decode_step_app_sep a b :
  a <> [] -> Sep b -> decode_step (a ++ b) = decode_step a.
Proof.
  intros Ha Hb. destruct b as [|c b']; [rewrite app_nil_r; reflexivity|].
  cbn [Sep] in Hb.
  destruct a as [|b0 [|b1 [|b2 [|b3 a4]]]]; [contradiction Ha; reflexivity| | | |];
    cbn [app]; unfold decode_step; cbv beta iota zeta;
    rewrite ?(is_cont_low c Hb);
    repeat match goal with
      | |- context [in_rng c ?lo ?hi] =>
          rewrite (in_rng_low c lo hi Hb) by (split_ifs; lia)
      end;
    split_ifs; reflexivity.
Qed.

Lemma decode_step_len bs r k :
  decode_step bs = (r, k) -> bs <> [] -> 1 <= k <= length bs.
Proof.
  intros H Hne.
  destruct bs as [|b0 [|b1 [|b2 [|b3 a4]]]]; [contradiction Hne; reflexivity| | | |];
    unfold decode_step in H; cbv beta iota zeta in H;
    repeat match type of H with
      | context [if ?x then _ else _] => destruct x
      end;
    injection H as _ <-; cbn [length]; lia.
Qed.

Definition fffd : list N := [239; 191; 189]%N.

Fixpoint lossy_from (fuel : nat) (bs : list N) : list N :=
  match fuel with
  | O => []
  | S f =>
      match bs with
      | [] => []
      | _ :: _ =>
          let '(r, k) := decode_step bs in
          let k' := match k with O => 1 | _ => k end in
          (match r with Some _ => firstn k' bs | None => fffd end) ++ lossy_from f (skipn k' bs)
      end
  end.

Lemma lossy_from_decode : forall fuel whole pos bs,
  skipn pos whole = bs ->
  flat_map (fun c => if dc_valid c
                     then firstn (dc_end c - dc_start c) (skipn (dc_start c) whole)
                     else [239; 191; 189]%N)
           (decode_from fuel pos bs) = lossy_from fuel bs.
Proof.
  induction fuel as [|fuel IH]; intros whole pos bs Hs; [reflexivity|].
  cbn [decode_from lossy_from]. destruct bs as [|b0 r]; [reflexivity|].
  destruct (decode_step (b0 :: r)) as [res k].
  set (k' := match k with O => 1 | _ => k end).
  cbn [flat_map dc_valid dc_start dc_end]. f_equal.
  - destruct res; [|reflexivity]. replace (pos + k' - pos) with k' by lia.
    rewrite Hs. reflexivity.
  - apply IH. rewrite <- Hs. symmetry. apply skipn_plus.
Qed.

Lemma lossy_eq bs : lossy bs = lossy_from (length bs) bs.
Proof. unfold lossy, decode. apply lossy_from_decode. reflexivity. Qed.

Lemma lossy_from_fuel : forall f1 f2 bs,
  length bs <= f1 -> length bs <= f2 -> lossy_from f1 bs = lossy_from f2 bs.
Proof.
  induction f1 as [|f1 IH]; intros f2 bs H1 H2.
  - destruct bs; [|cbn [length] in H1; lia]. destruct f2; reflexivity.
  - destruct bs as [|b0 r]; [destruct f2; reflexivity|].
    destruct f2 as [|f2]; [cbn [length] in H2; lia|].
    cbn [lossy_from]. destruct (decode_step (b0 :: r)) as [res k] eqn:E.
    pose proof (decode_step_len _ _ _ E ltac:(discriminate)) as Hk.
    f_equal. apply IH; rewrite skipn_length; destruct k; cbn [length] in *; lia.
Qed.

Lemma lossy_nil : lossy [] = [].
Proof. reflexivity. Qed.

(* fuel-free unfolding of lossy *)
Lemma lossy_unfold b0 r res k :
  decode_step (b0 :: r) = (res, k) ->
  lossy (b0 :: r) =
  (match res with Some _ => firstn k (b0 :: r) | None => fffd end) ++ lossy (skipn k (b0 :: r)).
Proof.
  intros E. pose proof (decode_step_len _ _ _ E ltac:(discriminate)) as Hk.
  rewrite !lossy_eq. cbn [length lossy_from]. rewrite E.
  destruct k as [|k]; [lia|]. f_equal.
  apply lossy_from_fuel; rewrite skipn_length; cbn [length] in *; lia.
Qed.

Lemma lossy_cons_ascii x rest : (x < 128)%N -> lossy (x :: rest) = x :: lossy rest.
Proof.
  intros Hx.
  assert (E : decode_step (x :: rest) = (Some x, 1)).
  { unfold decode_step. replace (x <? 128)%N with true by (symmetry; apply N.ltb_lt; exact Hx).
    reflexivity. }
  rewrite (lossy_unfold _ _ _ _ E). reflexivity.
Qed.

Lemma lossy_ascii_app a b : Ascii a -> lossy (a ++ b) = a ++ lossy b.
Proof.
  induction 1 as [|x a Hx _ IH]; [reflexivity|].
  cbn [app]. rewrite lossy_cons_ascii by exact Hx. rewrite IH. reflexivity.
Qed.

Theorem lossy_ascii a : Ascii a -> lossy a = a.
Proof.
  intros H. rewrite <- (app_nil_r a) at 1. rewrite lossy_ascii_app by exact H.
  rewrite lossy_nil, app_nil_r. reflexivity.
Qed.

(* lossy distributes over a split whose right part is empty or starts with
   an ASCII byte *)
Theorem lossy_app_sep b : Sep b -> forall a, lossy (a ++ b) = lossy a ++ lossy b.
Proof.
  intros Hb.
  assert (H : forall m a, length a <= m -> lossy (a ++ b) = lossy a ++ lossy b).
  { induction m as [|m IH]; intros a Hlen.
    - destruct a; [reflexivity|cbn [length] in Hlen; lia].
    - destruct a as [|a0 a']; [reflexivity|].
      destruct (decode_step (a0 :: a')) as [res k] eqn:E.
      pose proof (decode_step_len _ _ _ E ltac:(discriminate)) as Hk.
      pose proof (decode_step_app_sep (a0 :: a') b ltac:(discriminate) Hb) as E'.
      rewrite E in E'. cbn [app] in E'.
      rewrite (lossy_unfold _ _ _ _ E).
      change ((a0 :: a') ++ b) with (a0 :: a' ++ b). rewrite (lossy_unfold _ _ _ _ E').
      change (a0 :: a' ++ b) with ((a0 :: a') ++ b).
      rewrite firstn_app, skipn_app.
      replace (k - length (a0 :: a')) with 0 by lia.
      cbn [firstn skipn]. rewrite app_nil_r, IH.
      + rewrite app_assoc. reflexivity.
      + rewrite skipn_length. cbn [length] in *. lia. }
  intros a. apply (H (length a)). apply le_n.
Qed.

(* ---- ASCII-ness of everything the renderer writes around the values ---- *)

Lemma Ascii_app a b : Ascii a -> Ascii b -> Ascii (a ++ b).
Proof. intros Ha Hb. apply Forall_app. split; assumption. Qed.

Lemma dec_digits_ascii : forall fuel n acc, Ascii acc -> Ascii (dec_digits fuel n acc).
Proof.
  induction fuel as [|fuel IH]; intros n acc Hacc; cbn [dec_digits]; [exact Hacc|].
  assert (Hd : (N.of_nat (n mod 10) + 48 < 128)%N).
  { pose proof (Nat.mod_upper_bound n 10 ltac:(lia)). lia. }
  destruct (n <? 10); [constructor; assumption|]. apply IH. constructor; assumption.
Qed.

Lemma dec_ascii n : Ascii (dec n).
Proof. apply dec_digits_ascii. constructor. Qed.

Lemma tag_char_ascii t : (tag_char t < 128)%N.
Proof. destruct t; reflexivity. Qed.

Ltac ascii_const :=
  cbv [str_hunk_open str_hunk_mid str_hunk_close nl str_no_newline app];
  repeat (constructor; try reflexivity).

Lemma render_range_ascii s e : Ascii (render_range s e).
Proof.
  unfold render_range. cbv zeta. destruct (e - s =? 1); [apply dec_ascii|].
  apply Ascii_app; [apply dec_ascii|]. apply Ascii_app; [ascii_const|apply dec_ascii].
Qed.

Lemma hunk_header_ascii g h : render_hunk_header g = Ok h -> Ascii h.
Proof.
  unfold render_hunk_header. destruct g as [|f r]; [discriminate|]. intros H. injection H as <-.
  cbv [str_hunk_open str_hunk_mid str_hunk_close]. unfold Ascii.
  repeat first [ apply Forall_nil | apply Forall_cons; [reflexivity|]
               | apply render_range_ascii | apply Ascii_app ].
Qed.

(* ---- pieces of output: writer piece [o] against Display piece [o'] ---- *)

Definition LR (o o' : list N) : Prop :=
  forall R, Sep R -> lossy (o ++ R) = o' ++ lossy R /\ Sep (o ++ R).

Lemma LR_nil : LR [] [].
Proof. intros R HR. split; [reflexivity|exact HR]. Qed.

Lemma Sep_ascii_app a R : Ascii a -> Sep R -> Sep (a ++ R).
Proof. intros Ha HR. destruct Ha as [|x a Hx _]; [exact HR|exact Hx]. Qed.

Lemma LR_ascii a : Ascii a -> LR a a.
Proof.
  intros Ha R HR. split; [apply lossy_ascii_app; exact Ha|apply Sep_ascii_app; assumption].
Qed.

Lemma LR_app a a' b b' : LR a a' -> LR b b' -> LR (a ++ b) (a' ++ b').
Proof.
  intros Ha Hb R HR. destruct (Hb R HR) as [Eb Sb]. destruct (Ha (b ++ R) Sb) as [Ea Sa].
  rewrite <- !app_assoc. rewrite Ea, Eb. split; [reflexivity|exact Sa].
Qed.

(* ASCII prefix, an arbitrary value, then a piece *)
Lemma LR_mid p v s s' :
  Ascii p -> p <> [] -> LR s s' -> LR (p ++ v ++ s) (p ++ lossy v ++ s').
Proof.
  intros Hp Hne Hs R HR. destruct (Hs R HR) as [Es Ss].
  rewrite <- !app_assoc. split.
  - rewrite lossy_ascii_app by exact Hp. rewrite lossy_app_sep by exact Ss.
    rewrite Es. reflexivity.
  - destruct Hp as [|x p Hx _]; [contradiction Hne; reflexivity|exact Hx].
Qed.

Definition RR (x y : res (list N)) : Prop :=
  match x, y with
  | Ok o, Ok o' => LR o o'
  | Panic, Panic => True
  | OutOfFuel, OutOfFuel => True
  | _, _ => False
  end.

Section Display.
  Variables old new : list (list N).
  Variable hint : bool.

  Lemma render_change_LR c :
    LR (render_change true hint false c) (render_change true hint true c).
  Proof.
    unfold render_change. cbn [negb andb]. cbv zeta.
    apply LR_mid; [ascii_const; apply tag_char_ascii|discriminate|].
    cbn [app]. apply LR_ascii.
    destruct (ends_with_newline (ch_val c)); cbn [negb]; [constructor|].
    destruct hint; ascii_const.
  Qed.

  Lemma render_changes_LR cs :
    LR (flat_map (render_change true hint false) cs) (flat_map (render_change true hint true) cs).
  Proof.
    induction cs as [|c cs IH]; cbn [flat_map]; [apply LR_nil|].
    apply LR_app; [apply render_change_LR|exact IH].
  Qed.

  Lemma render_hunk_RR g :
    RR (render_hunk old new true hint false g) (render_hunk old new true hint true g).
  Proof.
    unfold render_hunk.
    destruct (iter_all_changes (slice_lookup old) (slice_lookup new) g) as [cs| |];
      cbn [bind RR]; try exact I.
    destruct cs as [|c cs]; [apply LR_nil|].
    destruct (render_hunk_header g) as [h| |] eqn:Eh; cbn [bind RR]; try exact I.
    apply LR_app; [apply LR_ascii, (hunk_header_ascii g h Eh)|].
    apply LR_app; [apply LR_ascii; ascii_const|apply render_changes_LR].
  Qed.

  Lemma render_hunks_RR gs :
    RR (render_hunks old new true hint false gs) (render_hunks old new true hint true gs).
  Proof.
    induction gs as [|g gs IH]; cbn [render_hunks]; [apply LR_nil|].
    pose proof (render_hunk_RR g) as Hg.
    destruct (render_hunk old new true hint false g) as [a| |],
             (render_hunk old new true hint true g) as [a'| |];
      cbn [RR bind] in *; try exact I; try contradiction Hg.
    destruct (render_hunks old new true hint false gs) as [b| |],
             (render_hunks old new true hint true gs) as [b'| |];
      cbn [RR bind] in *; try exact I; try contradiction IH.
    apply LR_app; assumption.
  Qed.

  Definition header_fixed (header : option (list N * list N)) : Prop :=
    match header with
    | Some (a, b) => lossy a = a /\ lossy b = b
    | None => True
    end.

  Lemma render_udiff_RR ops n header :
    header_fixed header ->
    RR (render_udiff old new true hint false ops n header)
       (render_udiff old new true hint true ops n header).
  Proof.
    intros Hh. unfold render_udiff. cbv zeta.
    set (gs := filter _ (group_diff_ops ops n)).
    pose proof (render_hunks_RR gs) as Hgs.
    destruct (render_hunks old new true hint false gs) as [b0| |],
             (render_hunks old new true hint true gs) as [b0'| |];
      cbn [RR bind] in *; try exact I; try contradiction Hgs.
    destruct gs as [|g gs']; [exact Hgs|].
    destruct header as [[a b]|]; [|exact Hgs].
    cbn [header_fixed] in Hh. destruct Hh as [Ea Eb]. cbn [RR].
    rewrite <- Ea at 2. rewrite <- Eb at 2.
    apply LR_mid; [ascii_const|discriminate|].
    apply LR_app; [apply LR_ascii; ascii_const|].
    apply LR_mid; [ascii_const|discriminate|].
    apply LR_app; [apply LR_ascii; ascii_const|exact Hgs].
  Qed.

  (* Display output = from_utf8_lossy of the writer's output, for every op
     list (same panics); the header strings must be valid UTF-8 in the sense
     that lossy leaves them unchanged (e.g. ASCII, see [lossy_ascii]) *)
  Theorem display_eq_lossy_writer ops n header :
    header_fixed header ->
    render_udiff old new true hint true ops n header =
    do out <- render_udiff old new true hint false ops n header; Ok (lossy out).
  Proof.
    intros Hh. pose proof (render_udiff_RR ops n header Hh) as H.
    destruct (render_udiff old new true hint false ops n header) as [o| |],
             (render_udiff old new true hint true ops n header) as [o'| |];
      cbn [RR bind] in *; try reflexivity; try contradiction H.
    destruct (H [] I) as [E _]. rewrite app_nil_r, lossy_nil, app_nil_r in E.
    rewrite E. reflexivity.
  Qed.
End Display.
