(* Proofs/EditGraphSplit.v — Part 3: general paths, concatenation, splitting,
   reversal, the lower bound f P + g P >= D, and the relation between the
   minimal cost of (n,m) and the LCS length. *)
From Similar Require Import Model.Base Spec.EditGraph Spec.Script Proofs.EditGraph.

Local Open Scope nat_scope.

(* [Path dg x y c x' y']: a path from (x,y) to (x',y') with exactly c
   non-diagonal edges (same edges as [Reach], arbitrary start) *)
Inductive Path (dg : nat -> nat -> bool) (x y : nat) : nat -> nat -> nat -> Prop :=
| P_refl : Path dg x y 0 x y
| P_diag c x' y' : Path dg x y c x' y' -> dg x' y' = true -> Path dg x y c (S x') (S y')
| P_right c x' y' : Path dg x y c x' y' -> Path dg x y (S c) (S x') y'
| P_down c x' y' : Path dg x y c x' y' -> Path dg x y (S c) x' (S y').

Definition PathLe (dg : nat -> nat -> bool) (x y c x' y' : nat) : Prop :=
  exists c', c' <= c /\ Path dg x y c' x' y'.

Section Paths.
  Variable dg : nat -> nat -> bool.

  (* ---------------------------------------------------------------- 3b *)
  Lemma Reach_Path : forall c x y, Reach dg c x y -> Path dg 0 0 c x y.
  Proof.
    intros c x y H. induction H.
    - apply P_refl.
    - apply P_diag; assumption.
    - apply P_right; assumption.
    - apply P_down; assumption.
  Qed.

  Lemma Path_Reach : forall c x y, Path dg 0 0 c x y -> Reach dg c x y.
  Proof.
    intros c x y H. induction H.
    - apply R_start.
    - apply R_diag; assumption.
    - apply R_right; assumption.
    - apply R_down; assumption.
  Qed.

  Theorem Reach_iff_Path : forall c x y, Reach dg c x y <-> Path dg 0 0 c x y.
  Proof. intros c x y. split; [apply Reach_Path|apply Path_Reach]. Qed.

  (* concatenation adds costs *)
  Theorem Path_trans : forall x y c1 x1 y1 c2 x2 y2,
    Path dg x y c1 x1 y1 -> Path dg x1 y1 c2 x2 y2 -> Path dg x y (c1 + c2) x2 y2.
  Proof.
    intros x y c1 x1 y1 c2 x2 y2 H1 H2. induction H2.
    - replace (c1 + 0) with c1 by lia. exact H1.
    - apply P_diag; assumption.
    - replace (c1 + S c) with (S (c1 + c)) by lia. apply P_right; assumption.
    - replace (c1 + S c) with (S (c1 + c)) by lia. apply P_down; assumption.
  Qed.

  Lemma Reach_Path_trans : forall c1 x y c2 x' y',
    Reach dg c1 x y -> Path dg x y c2 x' y' -> Reach dg (c1 + c2) x' y'.
  Proof.
    intros c1 x y c2 x' y' H1 H2. apply Path_Reach.
    apply (Path_trans 0 0 c1 x y c2 x' y'); [apply Reach_Path; exact H1|exact H2].
  Qed.

  (* coordinates are monotone along a path *)
  Lemma Path_mono : forall x y c x' y', Path dg x y c x' y' -> x <= x' /\ y <= y'.
  Proof. intros x y c x' y' H. induction H; lia. Qed.

  Lemma Path_cost_le : forall x y c x' y', Path dg x y c x' y' ->
    c <= (x' - x) + (y' - y).
  Proof.
    intros x y c x' y' H. induction H; [lia| | |];
      pose proof (Path_mono _ _ _ _ _ H); lia.
  Qed.

  (* single edges and straight paths *)
  Lemma Path_edge_diag : forall x y, dg x y = true -> Path dg x y 0 (S x) (S y).
  Proof. intros x y H. apply P_diag; [apply P_refl|exact H]. Qed.

  Lemma Path_edge_right : forall x y, Path dg x y 1 (S x) y.
  Proof. intros x y. apply P_right. apply P_refl. Qed.

  Lemma Path_edge_down : forall x y, Path dg x y 1 x (S y).
  Proof. intros x y. apply P_down. apply P_refl. Qed.

  Lemma Path_rights : forall x y a, Path dg x y a (x + a) y.
  Proof.
    intros x y a. induction a as [|a IH].
    - replace (x + 0) with x by lia. apply P_refl.
    - replace (x + S a) with (S (x + a)) by lia. apply P_right. exact IH.
  Qed.

  Lemma Path_downs : forall x y b, Path dg x y b x (y + b).
  Proof.
    intros x y b. induction b as [|b IH].
    - replace (y + 0) with y by lia. apply P_refl.
    - replace (y + S b) with (S (y + b)) by lia. apply P_down. exact IH.
  Qed.

  Lemma Path_straight : forall x y a b, Path dg x y (a + b) (x + a) (y + b).
  Proof.
    intros x y a b.
    apply (Path_trans x y a (x + a) y b); [apply Path_rights|apply Path_downs].
  Qed.

  (* front extension *)
  Lemma Path_cons_diag : forall x y c x' y', dg x y = true ->
    Path dg (S x) (S y) c x' y' -> Path dg x y c x' y'.
  Proof.
    intros x y c x' y' Hd H.
    apply (Path_trans x y 0 (S x) (S y) c x' y'); [apply Path_edge_diag; exact Hd|exact H].
  Qed.

  Lemma Path_cons_right : forall x y c x' y',
    Path dg (S x) y c x' y' -> Path dg x y (S c) x' y'.
  Proof.
    intros x y c x' y' H.
    apply (Path_trans x y 1 (S x) y c x' y'); [apply Path_edge_right|exact H].
  Qed.

  Lemma Path_cons_down : forall x y c x' y',
    Path dg x (S y) c x' y' -> Path dg x y (S c) x' y'.
  Proof.
    intros x y c x' y' H.
    apply (Path_trans x y 1 x (S y) c x' y'); [apply Path_edge_down|exact H].
  Qed.

  (* a path of cost c can be cut after exactly j non-diagonal edges *)
  Theorem Path_split : forall x y c x' y', Path dg x y c x' y' ->
    forall j, j <= c ->
    exists px py, Path dg x y j px py /\ Path dg px py (c - j) x' y'.
  Proof.
    intros x y c x' y' H.
    induction H as [|c x' y' H IH Hd|c x' y' H IH|c x' y' H IH]; intros j Hj.
    - exists x, y. replace j with 0 by lia. split; apply P_refl.
    - destruct (IH j Hj) as [px [py [H1 H2]]]. exists px, py.
      split; [exact H1|apply P_diag; assumption].
    - destruct (Nat.eq_dec j (S c)) as [->|Hne].
      + exists (S x'), y'. split; [apply P_right; exact H|].
        replace (S c - S c) with 0 by lia. apply P_refl.
      + destruct (IH j ltac:(lia)) as [px [py [H1 H2]]]. exists px, py.
        split; [exact H1|]. replace (S c - j) with (S (c - j)) by lia.
        apply P_right. exact H2.
    - destruct (Nat.eq_dec j (S c)) as [->|Hne].
      + exists x', (S y'). split; [apply P_down; exact H|].
        replace (S c - S c) with 0 by lia. apply P_refl.
      + destruct (IH j ltac:(lia)) as [px [py [H1 H2]]]. exists px, py.
        split; [exact H1|]. replace (S c - j) with (S (c - j)) by lia.
        apply P_down. exact H2.
  Qed.

  (* split existence, exact form *)
  Theorem Reach_split_exact : forall c x y, Reach dg c x y -> forall j, j <= c ->
    exists px py, px <= x /\ py <= y /\
      Reach dg j px py /\ Path dg px py (c - j) x y.
  Proof.
    intros c x y H j Hj.
    destruct (Path_split 0 0 c x y (Reach_Path _ _ _ H) j Hj) as [px [py [H1 H2]]].
    exists px, py. pose proof (Path_mono _ _ _ _ _ H2).
    split; [lia|]. split; [lia|]. split; [apply Path_Reach; exact H1|exact H2].
  Qed.

  (* split existence as stated in the design ("cost at most") *)
  Theorem Reach_split : forall c x y, Reach dg c x y -> forall j, j <= c ->
    exists px py, px <= x /\ py <= y /\
      (exists c1, c1 <= j /\ Reach dg c1 px py) /\
      (exists c2, c2 <= c - j /\ Path dg px py c2 x y).
  Proof.
    intros c x y H j Hj.
    destruct (Reach_split_exact c x y H j Hj) as [px [py [Hx [Hy [H1 H2]]]]].
    exists px, py. split; [exact Hx|]. split; [exact Hy|]. split.
    - exists j. split; [lia|exact H1].
    - exists (c - j). split; [lia|exact H2].
  Qed.

  (* paths only depend on the diagonal predicate extensionally *)
  Lemma Path_ext : forall dg', (forall x y, dg x y = dg' x y) ->
    forall x y c x' y', Path dg x y c x' y' -> Path dg' x y c x' y'.
  Proof.
    intros dg' Hext x y c x' y' H. induction H.
    - apply P_refl.
    - apply P_diag; [assumption|]. rewrite <- Hext. assumption.
    - apply P_right; assumption.
    - apply P_down; assumption.
  Qed.
End Paths.

(* ------------------------------------------------------------------ 3c *)
Section Reversal.
  Variables n m : nat.

  Lemma dg_rev_box : forall dg, DgBox n m (dg_rev n m dg).
  Proof.
    intros dg x y H. unfold dg_rev in H.
    destruct (Nat.ltb_spec x n); destruct (Nat.ltb_spec y m); simpl in H;
      try discriminate. lia.
  Qed.

  Lemma dg_rev_in : forall dg x y, x < n -> y < m ->
    dg_rev n m dg x y = dg (n - 1 - x) (m - 1 - y).
  Proof.
    intros dg x y Hx Hy. unfold dg_rev.
    destruct (Nat.ltb_spec x n); destruct (Nat.ltb_spec y m); try lia. reflexivity.
  Qed.

  Lemma dg_rev_out : forall dg x y, n <= x \/ m <= y -> dg_rev n m dg x y = false.
  Proof.
    intros dg x y H. unfold dg_rev.
    destruct (Nat.ltb_spec x n); destruct (Nat.ltb_spec y m); try lia; reflexivity.
  Qed.

  Lemma dg_rev_involutive : forall dg, DgBox n m dg ->
    forall x y, dg_rev n m (dg_rev n m dg) x y = dg x y.
  Proof.
    intros dg Hbox x y.
    destruct (le_lt_dec n x) as [Hx|Hx].
    { rewrite dg_rev_out by lia. symmetry. apply (dg_false_out n m dg Hbox). lia. }
    destruct (le_lt_dec m y) as [Hy|Hy].
    { rewrite dg_rev_out by lia. symmetry. apply (dg_false_out n m dg Hbox). lia. }
    rewrite dg_rev_in by lia. rewrite dg_rev_in by lia.
    f_equal; lia.
  Qed.

  (* reversing a path that ends inside the box *)
  Lemma Path_rev : forall dg x y c x' y', Path dg x y c x' y' -> x' <= n -> y' <= m ->
    Path (dg_rev n m dg) (n - x') (m - y') c (n - x) (m - y).
  Proof.
    intros dg x y c x' y' H.
    induction H as [|c x' y' H IH Hd|c x' y' H IH|c x' y' H IH]; intros Hx Hy.
    - apply P_refl.
    - apply Path_cons_diag.
      + rewrite dg_rev_in by lia.
        replace (n - 1 - (n - S x')) with x' by lia.
        replace (m - 1 - (m - S y')) with y' by lia. exact Hd.
      + replace (S (n - S x')) with (n - x') by lia.
        replace (S (m - S y')) with (m - y') by lia. apply IH; lia.
    - apply Path_cons_right.
      replace (S (n - S x')) with (n - x') by lia. apply IH; lia.
    - apply Path_cons_down.
      replace (S (m - S y')) with (m - y') by lia. apply IH; lia.
  Qed.

  Theorem Path_rev_iff : forall dg, DgBox n m dg ->
    forall x y c x' y', x <= n -> y <= m -> x' <= n -> y' <= m ->
    (Path dg x y c x' y' <->
     Path (dg_rev n m dg) (n - x') (m - y') c (n - x) (m - y)).
  Proof.
    intros dg Hbox x y c x' y' Hx Hy Hx' Hy'. split.
    - intros H. apply Path_rev; assumption.
    - intros H.
      pose proof (Path_rev _ _ _ _ _ _ H ltac:(lia) ltac:(lia)) as H'.
      replace (n - (n - x)) with x in H' by lia.
      replace (m - (m - y)) with y in H' by lia.
      replace (n - (n - x')) with x' in H' by lia.
      replace (m - (m - y')) with y' in H' by lia.
      apply (Path_ext _ _ (dg_rev_involutive dg Hbox)). exact H'.
  Qed.

  (* 3c: the remaining part of a path to (n,m) is a path from the origin in the
     reversed graph *)
  Theorem Path_to_corner_rev : forall dg, DgBox n m dg ->
    forall x y c, x <= n -> y <= m ->
    (Path dg x y c n m <-> Reach (dg_rev n m dg) c (n - x) (m - y)).
  Proof.
    intros dg Hbox x y c Hx Hy.
    rewrite (Path_rev_iff dg Hbox x y c n m Hx Hy (le_n n) (le_n m)).
    replace (n - n) with 0 by lia. replace (m - m) with 0 by lia.
    symmetry. apply Reach_iff_Path.
  Qed.

  (* the corner has the same costs in both graphs *)
  Corollary Reach_corner_rev : forall dg, DgBox n m dg ->
    forall c, Reach dg c n m <-> Reach (dg_rev n m dg) c n m.
  Proof.
    intros dg Hbox c. rewrite Reach_iff_Path.
    rewrite (Path_to_corner_rev dg Hbox 0 0 c (Nat.le_0_l n) (Nat.le_0_l m)).
    replace (n - 0) with n by lia. replace (m - 0) with m by lia. reflexivity.
  Qed.

  Corollary MinCost_corner_rev : forall dg, DgBox n m dg ->
    forall D, MinCost dg n m D <-> MinCost (dg_rev n m dg) n m D.
  Proof.
    intros dg Hbox D. unfold MinCost. split; intros [H1 H2]; split.
    - apply (Reach_corner_rev dg Hbox). exact H1.
    - intros c' Hc'. apply H2. apply (Reach_corner_rev dg Hbox). exact Hc'.
    - apply (Reach_corner_rev dg Hbox). exact H1.
    - intros c' Hc'. apply H2. apply (Reach_corner_rev dg Hbox). exact Hc'.
  Qed.

  (* ---------------------------------------------------------------- 3d *)
  Theorem forward_backward_lower : forall dg, DgBox n m dg ->
    forall x y cf cb D, x <= n -> y <= m ->
    Reach dg cf x y -> Reach (dg_rev n m dg) cb (n - x) (m - y) ->
    MinCost dg n m D -> D <= cf + cb.
  Proof.
    intros dg Hbox x y cf cb D Hx Hy Hf Hb [_ Hmin].
    apply Hmin. apply (Reach_Path_trans dg cf x y cb n m Hf).
    apply (Path_to_corner_rev dg Hbox x y cb Hx Hy). exact Hb.
  Qed.

  Corollary MinCost_forward_backward_lower : forall dg, DgBox n m dg ->
    forall x y cf cb D, x <= n -> y <= m ->
    MinCost dg x y cf -> MinCost (dg_rev n m dg) (n - x) (m - y) cb ->
    MinCost dg n m D -> D <= cf + cb.
  Proof.
    intros dg Hbox x y cf cb D Hx Hy [Hf _] [Hb _] HD.
    apply (forward_backward_lower dg Hbox x y cf cb D Hx Hy Hf Hb HD).
  Qed.

  (* split existence in terms of the two sweeps (design item 5, first half) *)
  Theorem Reach_split_rev : forall dg, DgBox n m dg ->
    forall c, Reach dg c n m -> forall j, j <= c ->
    exists px py, px <= n /\ py <= m /\
      Reach dg j px py /\ Reach (dg_rev n m dg) (c - j) (n - px) (m - py).
  Proof.
    intros dg Hbox c H j Hj.
    destruct (Reach_split_exact dg c n m H j Hj) as [px [py [Hx [Hy [H1 H2]]]]].
    exists px, py. split; [exact Hx|]. split; [exact Hy|]. split; [exact H1|].
    apply (Path_to_corner_rev dg Hbox px py (c - j) Hx Hy). exact H2.
  Qed.

  (* design item 5, second half: on an optimal path every j <= D is realised by
     an in-box point with f = j and g = D - j exactly *)
  Theorem MinCost_split : forall dg, DgBox n m dg ->
    forall D, MinCost dg n m D -> forall j, j <= D ->
    exists px py, px <= n /\ py <= m /\
      MinCost dg px py j /\ MinCost (dg_rev n m dg) (n - px) (m - py) (D - j).
  Proof.
    intros dg Hbox D HD j Hj. pose proof HD as [HDr HDmin].
    destruct (Reach_split_rev dg Hbox D HDr j Hj) as [px [py [Hx [Hy [H1 H2]]]]].
    exists px, py. split; [exact Hx|]. split; [exact Hy|].
    destruct (MinCost_exists n m dg Hbox px py) as [cf Hcf].
    destruct (MinCost_exists n m _ (dg_rev_box dg) (n - px) (m - py)) as [cb Hcb].
    pose proof (MinCost_forward_backward_lower dg Hbox px py cf cb D Hx Hy Hcf Hcb HD) as Hlow.
    pose proof (proj2 Hcf _ H1) as Hle1. pose proof (proj2 Hcb _ H2) as Hle2.
    assert (cf = j) by lia. assert (cb = D - j) by lia. subst cf cb.
    split; assumption.
  Qed.
End Reversal.

(* ------------------------------------------------------------------ 3a *)
Section Lcs.
  Variable cmp : cmpf.
  Variables os oe ns ne : nat.
  Let n := oe - os.
  Let m := ne - ns.
  Let dg := dg_of cmp os oe ns ne.

  Lemma dg_of_true : forall x y, dg x y = true <->
    x < n /\ y < m /\ cmp (os + x) (ns + y) = Ok true.
  Proof.
    intros x y. unfold dg, dg_of, n, m.
    destruct (Nat.ltb_spec x (oe - os)); destruct (Nat.ltb_spec y (ne - ns)); simpl.
    - destruct (cmp (os + x) (ns + y)) as [[|]| |]; split;
        try discriminate; try (intros [_ [_ H1]]; discriminate).
      + intros _. auto.
      + intros _. reflexivity.
    - split; [discriminate|lia].
    - split; [discriminate|lia].
    - split; [discriminate|lia].
  Qed.

  Lemma dg_of_box : DgBox n m dg.
  Proof. intros x y H. apply dg_of_true in H. lia. Qed.

  (* CommonSub: the first two arguments are upper bounds on all indices *)
  Lemma CommonSub_weaken : forall ue un ue' un' s t M,
    ue <= ue' -> un <= un' -> CommonSub cmp ue un s t M -> CommonSub cmp ue' un' s t M.
  Proof.
    intros ue un ue' un' s t M He Hn H. induction H.
    - apply CSub_nil.
    - apply CSub_cons; try assumption; lia.
  Qed.

  Lemma CommonSub_snoc : forall i j s t M,
    CommonSub cmp i j s t M -> s <= i -> t <= j -> cmp i j = Ok true ->
    CommonSub cmp (S i) (S j) s t (M ++ [(i, j)]).
  Proof.
    intros i j s t M H. induction H as [s t|s t i0 j0 M' H1 H2 H3 H4 H5 H6 IH]; intros Hs Ht Hc.
    - simpl. apply CSub_cons; try lia; try assumption. apply CSub_nil.
    - simpl. apply CSub_cons; try lia; try assumption. apply IH; try lia. exact Hc.
  Qed.

  (* the diagonal edges of a path form a common subsequence *)
  Lemma Reach_CommonSub : forall c x y, Reach dg c x y ->
    exists M, CommonSub cmp (os + x) (ns + y) os ns M /\ c + 2 * length M = x + y.
  Proof.
    intros c x y H. induction H as [|c x y H IH Hd|c x y H IH|c x y H IH].
    - exists []. split; [apply CSub_nil|reflexivity].
    - destruct IH as [M [HM Hlen]]. apply dg_of_true in Hd. destruct Hd as [Hx [Hy Hc]].
      exists (M ++ [(os + x, ns + y)]). split.
      + replace (os + S x) with (S (os + x)) by lia.
        replace (ns + S y) with (S (ns + y)) by lia.
        apply CommonSub_snoc; try assumption; lia.
      + rewrite app_length. simpl. lia.
    - destruct IH as [M [HM Hlen]]. exists M. split; [|lia].
      apply (CommonSub_weaken (os + x) (ns + y)); try lia. exact HM.
    - destruct IH as [M [HM Hlen]]. exists M. split; [|lia].
      apply (CommonSub_weaken (os + x) (ns + y)); try lia. exact HM.
  Qed.

  Lemma Reach_corner_CommonSub : forall c, Reach dg c n m ->
    exists M, CommonSub cmp oe ne os ns M /\ c + 2 * length M = n + m.
  Proof.
    intros c H.
    destruct (le_lt_dec os oe) as [Ho|Ho]; [destruct (le_lt_dec ns ne) as [Hn|Hn]|].
    - destruct (Reach_CommonSub _ _ _ H) as [M [HM Hlen]]. exists M. split; [|exact Hlen].
      replace (os + n) with oe in HM by (unfold n; lia).
      replace (ns + m) with ne in HM by (unfold m; lia). exact HM.
    - destruct (Reach_decomp n m dg dg_of_box _ _ _ H) as [r [dn [q Hq]]].
      exists []. split; [apply CSub_nil|]. simpl. unfold m in *. lia.
    - destruct (Reach_decomp n m dg dg_of_box _ _ _ H) as [r [dn [q Hq]]].
      exists []. split; [apply CSub_nil|]. simpl. unfold n in *. lia.
  Qed.

  (* a common subsequence gives a path through its matched pairs *)
  Lemma CommonSub_Path : forall s t M, CommonSub cmp oe ne s t M ->
    os <= s -> ns <= t -> s <= oe -> t <= ne ->
    exists c, c + 2 * length M = (oe - s) + (ne - t) /\
              Path dg (s - os) (t - ns) c n m.
  Proof.
    intros s t M H.
    induction H as [s t|s t i j M' H1 H2 H3 H4 H5 H6 IH]; intros Hs Ht Hse Hte.
    - exists ((oe - s) + (ne - t)). split; [simpl; lia|].
      replace n with ((s - os) + (oe - s)) by (unfold n; lia).
      replace m with ((t - ns) + (ne - t)) by (unfold m; lia).
      apply Path_straight.
    - destruct (IH ltac:(lia) ltac:(lia) ltac:(lia) ltac:(lia)) as [c' [Hlen HP]].
      exists (((i - s) + (j - t)) + (0 + c')). split; [simpl; lia|].
      apply (Path_trans dg _ _ _ (i - os) (j - ns)).
      + replace (i - os) with ((s - os) + (i - s)) by lia.
        replace (j - ns) with ((t - ns) + (j - t)) by lia.
        apply Path_straight.
      + apply (Path_trans dg _ _ 0 (S (i - os)) (S (j - ns))).
        * apply Path_edge_diag. apply dg_of_true. unfold n, m.
          replace (os + (i - os)) with i by lia. replace (ns + (j - ns)) with j by lia.
          split; [lia|]. split; [lia|exact H5].
        * replace (S (i - os)) with (S i - os) by lia.
          replace (S (j - ns)) with (S j - ns) by lia. exact HP.
  Qed.

  Lemma CommonSub_Reach : forall M, CommonSub cmp oe ne os ns M ->
    exists c, c + 2 * length M = n + m /\ Reach dg c n m.
  Proof.
    intros M H. destruct M as [|[i j] M'].
    - exists (n + m). split; [simpl; lia|apply Reach_straight].
    - assert (Hb : os <= oe /\ ns <= ne) by (inversion H; subst; lia).
      destruct (CommonSub_Path _ _ _ H ltac:(lia) ltac:(lia) ltac:(lia) ltac:(lia))
        as [c [Hlen HP]].
      exists c. split; [unfold n, m; lia|].
      apply Path_Reach. replace (os - os) with 0 in HP by lia.
      replace (ns - ns) with 0 in HP by lia. exact HP.
  Qed.

  (* every path to the corner costs at least n + m - 2 L *)
  Lemma Reach_corner_lower : forall c L, Reach dg c n m ->
    IsLcsLen cmp os oe ns ne L -> n + m <= c + 2 * L.
  Proof.
    intros c L H [_ Hmax].
    destruct (Reach_corner_CommonSub c H) as [M [HM Hlen]].
    specialize (Hmax M HM). lia.
  Qed.

  Theorem MinCost_LCS : forall D L,
    MinCost dg n m D -> IsLcsLen cmp os oe ns ne L -> D + 2 * L = n + m.
  Proof.
    intros D L [HD Hmin] HL.
    pose proof (Reach_corner_lower D L HD HL) as Hlow.
    destruct HL as [[M [HM HlenM]] _].
    destruct (CommonSub_Reach M HM) as [c [Hlen Hc]].
    specialize (Hmin c Hc). lia.
  Qed.

  (* converse packaging: the minimal cost determines the LCS length *)
  Theorem MinCost_gives_LCS : forall D, MinCost dg n m D ->
    exists L, IsLcsLen cmp os oe ns ne L /\ D + 2 * L = n + m.
  Proof.
    intros D [HD Hmin].
    destruct (Reach_corner_CommonSub D HD) as [M [HM Hlen]].
    exists (length M). split; [|exact Hlen]. split.
    - exists M. auto.
    - intros M' HM'. destruct (CommonSub_Reach M' HM') as [c [Hlen' Hc]].
      specialize (Hmin c Hc). lia.
  Qed.
End Lcs.

Print Assumptions Path_trans.
Print Assumptions Reach_split.
Print Assumptions Path_rev_iff.
Print Assumptions Path_to_corner_rev.
Print Assumptions MinCost_forward_backward_lower.
Print Assumptions MinCost_split.
Print Assumptions MinCost_LCS.
Print Assumptions MinCost_gives_LCS.
