(* Proofs/WorldInv.v — a Hoare-style invariant rule for Myers' [conquer] that
   holds for ANY world (hook + clock), assuming the specification [SnakeSpec]
   of the middle-snake search; termination / absence of panics; and the
   instantiation for the recording hook ([plain_world], [no_finish]):
   the raw call sequence emitted by [myers_diff] is a [RawStrong] walk. *)
From Similar Require Import Model.Base Model.Utils Model.Myers Model.Hooks
  Spec.Script Spec.EditGraph Spec.SnakeSpec Proofs.Utils.

Local Open Scope nat_scope.

(* ------------------------------------------------------------------ misc *)
Lemma max_d_mono a b a' b' : a <= a' -> b <= b' -> max_d a b <= max_d a' b'.
Proof.
  intros Ha Hb. unfold max_d. apply Nat.add_le_mono_r.
  apply Nat.div_le_mono; [discriminate|lia].
Qed.

Lemma bind_Ok_inv {A B} (m : res A) (f : A -> res B) b :
  bind m f = Ok b -> exists a, m = Ok a /\ f a = Ok b.
Proof. destruct m as [a| |]; cbn [bind]; intros H; try discriminate. now exists a. Qed.

Lemma sub_chk_Ok a b c : sub_chk a b = Ok c -> b <= a /\ c = a - b.
Proof.
  unfold sub_chk. destruct (b <=? a) eqn:E; intros H; [|discriminate].
  apply Nat.leb_le in E. inversion H. auto.
Qed.

Lemma sub_chk_le a b : b <= a -> sub_chk a b = Ok (a - b).
Proof. intros H. unfold sub_chk. apply Nat.leb_le in H. now rewrite H. Qed.

Lemma VOk_v_new md : VOk md (v_new md).
Proof. split; reflexivity. Qed.

Lemma CmpTotal_sub cmp os oe ns ne os' oe' ns' ne' :
  CmpTotal cmp os oe ns ne -> os <= os' -> oe' <= oe -> ns <= ns' -> ne' <= ne ->
  CmpTotal cmp os' oe' ns' ne'.
Proof. intros H H1 H2 H3 H4 i j Hi Hj. apply H; lia. Qed.

Lemma pair_neq (a b c d : nat) : (a, b) <> (c, d) -> a <> c \/ b <> d.
Proof.
  intros H. destruct (Nat.eq_dec a c) as [->|Ha]; [|now left].
  destruct (Nat.eq_dec b d) as [->|Hb]; [|now right]. now destruct H.
Qed.

(* what the two scans establish about the box handed to the snake search *)
Lemma strip_facts cmp os oe ns ne p s :
  os <= oe -> ns <= ne ->
  common_prefix_len cmp os oe ns ne = Ok p ->
  common_suffix_len cmp (os + p) oe (ns + p) ne = Ok s ->
  p <= oe - os /\ p <= ne - ns /\ SegEq cmp os ns p /\
  s <= oe - (os + p) /\ s <= ne - (ns + p) /\ SegEq cmp (oe - s) (ne - s) s /\
  (os + p < oe - s -> ns + p < ne - s -> Stripped cmp (os + p) (oe - s) (ns + p) (ne - s)).
Proof.
  intros Ho Hn Hp Hs.
  apply common_prefix_len_spec in Hp. destruct Hp as (Hp1 & Hp2 & Hp3 & Hp4).
  apply common_suffix_len_spec in Hs. destruct Hs as (Hs1 & Hs2 & Hs3 & Hs4).
  do 6 (split; [assumption|]).
  intros Hlt1 Hlt2. unfold Stripped.
  split; [exact Hlt1|]. split; [exact Hlt2|]. split.
  - apply Hp4; lia.
  - apply Hs4; lia.
Qed.

(* ------------------------------------------------------------ any world *)
Section Generic.
  Context {W : Type}.
  Variable wd : world W.
  Variable cmp : cmpf.

  (* ---- the body of [conquer], cut into named pieces ---- *)
  Definition emit_eq_opt (o n l : nat) (w : W) : res W :=
    if 0 <? l then emit wd (CEq o n l) w else Ok w.

  Definition conquer_mid (f : nat) (os oe' ns ne' : nat) (vf vb : V) (w : W)
    : res (V * V * W) :=
    if empty_range os oe' && empty_range ns ne' then Ok (vf, vb, w)
    else if empty_range ns ne' then
      do w <- emit wd (CDel os (oe' - os) ns) w; Ok (vf, vb, w)
    else if empty_range os oe' then
      do w <- emit wd (CIns os ns (ne' - ns)) w; Ok (vf, vb, w)
    else
      do '(r, vf, vb, w) <- find_middle_snake wd cmp os oe' ns ne' vf vb w;
      match r with
      | Some (x, y) =>
          do '(vf, vb, w) <- conquer wd cmp f os x ns y vf vb w;
          conquer wd cmp f x oe' y ne' vf vb w
      | None =>
          do w <- emit wd (CDel os (oe' - os) ns) w;
          do w <- emit wd (CIns os ns (ne' - ns)) w;
          Ok (vf, vb, w)
      end.

  Lemma conquer_S f os oe ns ne vf vb w :
    conquer wd cmp (S f) os oe ns ne vf vb w =
    (do p <- common_prefix_len cmp os oe ns ne;
     do w1 <- emit_eq_opt os ns p (tick wd (scan_cmps os oe ns ne p) w);
     do s <- common_suffix_len cmp (os + p) oe (ns + p) ne;
     do oe' <- sub_chk oe s;
     do ne' <- sub_chk ne s;
     do '(vf1, vb1, w3) <-
        conquer_mid f (os + p) oe' (ns + p) ne' vf vb
          (tick wd (scan_cmps (os + p) oe (ns + p) ne s) w1);
     do w4 <- emit_eq_opt oe' ne' s w3;
     Ok (vf1, vb1, w4)).
  Proof. reflexivity. Qed.

  (* relational reading of the middle part *)
  Inductive MidRun (f os oe ns ne : nat) (vf vb : V) (w : W) : V -> V -> W -> Prop :=
  | MR_empty : oe <= os -> ne <= ns -> MidRun f os oe ns ne vf vb w vf vb w
  | MR_del w' : os < oe -> ne <= ns ->
      emit wd (CDel os (oe - os) ns) w = Ok w' ->
      MidRun f os oe ns ne vf vb w vf vb w'
  | MR_ins w' : oe <= os -> ns < ne ->
      emit wd (CIns os ns (ne - ns)) w = Ok w' ->
      MidRun f os oe ns ne vf vb w vf vb w'
  | MR_split x y vf1 vb1 w1 vf2 vb2 w2 vf3 vb3 w3 : os < oe -> ns < ne ->
      find_middle_snake wd cmp os oe ns ne vf vb w = Ok (Some (x, y), vf1, vb1, w1) ->
      conquer wd cmp f os x ns y vf1 vb1 w1 = Ok (vf2, vb2, w2) ->
      conquer wd cmp f x oe y ne vf2 vb2 w2 = Ok (vf3, vb3, w3) ->
      MidRun f os oe ns ne vf vb w vf3 vb3 w3
  | MR_fallback vf1 vb1 w1 w2 w3 : os < oe -> ns < ne ->
      find_middle_snake wd cmp os oe ns ne vf vb w = Ok (None, vf1, vb1, w1) ->
      emit wd (CDel os (oe - os) ns) w1 = Ok w2 ->
      emit wd (CIns os ns (ne - ns)) w2 = Ok w3 ->
      MidRun f os oe ns ne vf vb w vf1 vb1 w3.

  Lemma conquer_mid_iff f os oe ns ne vf vb w vf' vb' w' :
    conquer_mid f os oe ns ne vf vb w = Ok (vf', vb', w') <->
    MidRun f os oe ns ne vf vb w vf' vb' w'.
  Proof.
    unfold conquer_mid, empty_range. split.
    - intros H.
      destruct (oe <=? os) eqn:Eo; destruct (ne <=? ns) eqn:En; cbn [andb] in H.
      + apply Nat.leb_le in Eo. apply Nat.leb_le in En.
        inversion H; subst. now apply MR_empty.
      + apply Nat.leb_le in Eo. apply Nat.leb_gt in En.
        apply bind_Ok_inv in H. destruct H as (w1 & He & H). inversion H; subst.
        now apply MR_ins.
      + apply Nat.leb_gt in Eo. apply Nat.leb_le in En.
        apply bind_Ok_inv in H. destruct H as (w1 & He & H). inversion H; subst.
        now apply MR_del.
      + apply Nat.leb_gt in Eo. apply Nat.leb_gt in En.
        apply bind_Ok_inv in H. destruct H as ([[[r vf1] vb1] w1] & Ef & H).
        destruct r as [[x y]|].
        * apply bind_Ok_inv in H. destruct H as ([[vf2 vb2] w2] & E1 & E2).
          eapply MR_split; eassumption.
        * apply bind_Ok_inv in H. destruct H as (w2 & E1 & H).
          apply bind_Ok_inv in H. destruct H as (w3 & E2 & H). inversion H; subst.
          eapply MR_fallback; eassumption.
    - intros H.
      destruct H as [Ho Hn|w1 Ho Hn He|w1 Ho Hn He
                     |x y vf1 vb1 w1 vf2 vb2 w2 vf3 vb3 w3 Ho Hn Ef E1 E2
                     |vf1 vb1 w1 w2 w3 Ho Hn Ef E1 E2].
      + apply Nat.leb_le in Ho. apply Nat.leb_le in Hn. rewrite Ho, Hn. reflexivity.
      + apply Nat.leb_gt in Ho. apply Nat.leb_le in Hn. rewrite Ho, Hn. cbn [andb].
        rewrite He. reflexivity.
      + apply Nat.leb_le in Ho. apply Nat.leb_gt in Hn. rewrite Ho, Hn. cbn [andb].
        rewrite He. reflexivity.
      + apply Nat.leb_gt in Ho. apply Nat.leb_gt in Hn. rewrite Ho, Hn. cbn [andb].
        rewrite Ef. cbn [bind]. rewrite E1. cbn [bind]. exact E2.
      + apply Nat.leb_gt in Ho. apply Nat.leb_gt in Hn. rewrite Ho, Hn. cbn [andb].
        rewrite Ef. cbn [bind]. rewrite E1. cbn [bind]. rewrite E2. reflexivity.
  Qed.

  (* relational reading of one level of [conquer] *)
  Inductive Run1 (f os oe ns ne : nat) (vf vb : V) (w : W) : V -> V -> W -> Prop :=
  | Run1_intro p w1 s vf' vb' w3 w4 :
      common_prefix_len cmp os oe ns ne = Ok p ->
      emit_eq_opt os ns p (tick wd (scan_cmps os oe ns ne p) w) = Ok w1 ->
      common_suffix_len cmp (os + p) oe (ns + p) ne = Ok s ->
      s <= oe -> s <= ne ->
      MidRun f (os + p) (oe - s) (ns + p) (ne - s) vf vb
             (tick wd (scan_cmps (os + p) oe (ns + p) ne s) w1) vf' vb' w3 ->
      emit_eq_opt (oe - s) (ne - s) s w3 = Ok w4 ->
      Run1 f os oe ns ne vf vb w vf' vb' w4.

  Lemma conquer_S_iff f os oe ns ne vf vb w vf' vb' w' :
    conquer wd cmp (S f) os oe ns ne vf vb w = Ok (vf', vb', w') <->
    Run1 f os oe ns ne vf vb w vf' vb' w'.
  Proof.
    rewrite conquer_S. split.
    - intros H.
      apply bind_Ok_inv in H. destruct H as (p & Hp & H).
      apply bind_Ok_inv in H. destruct H as (w1 & Hw1 & H).
      apply bind_Ok_inv in H. destruct H as (s & Hs & H).
      apply bind_Ok_inv in H. destruct H as (oe' & Hoe & H).
      apply bind_Ok_inv in H. destruct H as (ne' & Hne & H).
      apply bind_Ok_inv in H. destruct H as ([[vf1 vb1] w3] & Hm & H).
      apply bind_Ok_inv in H. destruct H as (w4 & Hw4 & H).
      inversion H; subst vf' vb' w'.
      apply sub_chk_Ok in Hoe. destruct Hoe as [Hso ->].
      apply sub_chk_Ok in Hne. destruct Hne as [Hsn ->].
      apply conquer_mid_iff in Hm.
      eapply Run1_intro; eassumption.
    - intros H. destruct H as [p w1 s vf1 vb1 w3 w4 Hp Hw1 Hs Hso Hsn Hm Hw4].
      rewrite Hp. cbn [bind]. rewrite Hw1. cbn [bind]. rewrite Hs. cbn [bind].
      rewrite (sub_chk_le _ _ Hso). cbn [bind]. rewrite (sub_chk_le _ _ Hsn). cbn [bind].
      apply conquer_mid_iff in Hm. rewrite Hm. cbn [bind]. rewrite Hw4. reflexivity.
  Qed.

  (* ---------------------------------------------------------- invariants *)
  (* [I i j i0 w]: old cursor i, new cursor j, start i0 of the current run of
     changes *)
  Record Respects (I : nat -> nat -> nat -> W -> Prop) : Prop := {
    rs_probe : forall i j i0 w b w',
        I i j i0 w -> probe wd w = (b, w') -> I i j i0 w';
    rs_tick : forall i j i0 w k, I i j i0 w -> I i j i0 (tick wd k w);
    rs_eq : forall i j i0 w l w',
        I i j i0 w -> 0 < l -> SegEq cmp i j l ->
        emit wd (CEq i j l) w = Ok w' -> I (i + l) (j + l) (i + l) w';
    rs_del : forall i j i0 w l w',
        I i j i0 w -> 0 < l ->
        emit wd (CDel i l j) w = Ok w' -> I (i + l) j i0 w';
    rs_ins : forall i j i0 w o l w',
        I i j i0 w -> 0 < l -> i0 <= o -> o <= i ->
        emit wd (CIns o j l) w = Ok w' -> I i (j + l) i0 w'
  }.

  Lemma Respects_PT I : Respects I ->
    forall i j i0 w w', PT wd w w' -> I i j i0 w -> I i j i0 w'.
  Proof.
    intros HR i j i0 w w' Hpt. induction Hpt as [w|w w1 b w2 Hpt IH Hp|w w1 k Hpt IH]; intros HI.
    - exact HI.
    - eapply rs_probe; [exact HR|apply IH; exact HI|exact Hp].
    - apply rs_tick; [exact HR|apply IH; exact HI].
  Qed.

  Lemma Respects_True : Respects (fun _ _ _ _ => True).
  Proof. split; auto. Qed.

  Section Inv.
    Variable I : nat -> nat -> nat -> W -> Prop.
    Hypothesis HR : Respects I.
    Hypothesis HS : SnakeSpec wd cmp.
    Variable md : nat.

    Definition InvAt (f : nat) : Prop :=
      forall os oe ns ne vf vb w i0 vf' vb' w',
        os <= oe -> ns <= ne -> CmpTotal cmp os oe ns ne ->
        VOk md vf -> VOk md vb -> max_d (oe - os) (ne - ns) <= md ->
        i0 <= os -> I os ns i0 w ->
        conquer wd cmp f os oe ns ne vf vb w = Ok (vf', vb', w') ->
        exists i0', i0' <= oe /\ I oe ne i0' w' /\ VOk md vf' /\ VOk md vb'.

    Lemma emit_eq_opt_inv i j i0 l w w' :
      I i j i0 w -> SegEq cmp i j l -> i0 <= i ->
      emit_eq_opt i j l w = Ok w' ->
      exists i1, i1 <= i + l /\ I (i + l) (j + l) i1 w'.
    Proof.
      unfold emit_eq_opt. intros HI Hseg Hi0 H. destruct (0 <? l) eqn:E.
      - apply Nat.ltb_lt in E. exists (i + l). split; [lia|].
        eapply rs_eq; [exact HR|exact HI|exact E|exact Hseg|exact H].
      - apply Nat.ltb_ge in E. assert (l = 0) by lia. subst l.
        inversion H; subst w'. exists i0. rewrite !Nat.add_0_r. split; [lia|exact HI].
    Qed.

    Lemma mid_inv f : InvAt f ->
      forall os oe ns ne vf vb w i0 vf' vb' w',
        os <= oe -> ns <= ne -> CmpTotal cmp os oe ns ne ->
        (os < oe -> ns < ne -> Stripped cmp os oe ns ne) ->
        VOk md vf -> VOk md vb -> max_d (oe - os) (ne - ns) <= md ->
        i0 <= os -> I os ns i0 w ->
        MidRun f os oe ns ne vf vb w vf' vb' w' ->
        exists i0', i0' <= oe /\ I oe ne i0' w' /\ VOk md vf' /\ VOk md vb'.
    Proof.
      intros IH os oe ns ne vf vb w i0 vf' vb' w' Hoe Hne Htot Hstr Hvf Hvb Hmd Hi0 HI HM.
      destruct HM as [Ho Hn|w1 Ho Hn He|w1 Ho Hn He
                     |x y vf1 vb1 w1 vf2 vb2 w2 vf3 vb3 w3 Ho Hn Ef E1 E2
                     |vf1 vb1 w1 w2 w3 Ho Hn Ef E1 E2].
      - assert (oe = os) by lia. assert (ne = ns) by lia. subst oe ne.
        exists i0. auto.
      - assert (ne = ns) by lia. subst ne. exists i0. split; [lia|]. split; [|auto].
        replace oe with (os + (oe - os)) at 1 by lia.
        eapply rs_del; [exact HR|exact HI|lia|exact He].
      - assert (oe = os) by lia. subst oe. exists i0. split; [lia|]. split; [|auto].
        replace ne with (ns + (ne - ns)) at 1 by lia.
        eapply rs_ins; [exact HR|exact HI|lia|exact Hi0|lia|exact He].
      - destruct (HS os oe ns ne md vf vb w (Hstr Ho Hn) Htot Hmd Hvf Hvb)
          as (r & vf1' & vb1' & w1' & Hf & Hvf1 & Hvb1 & Hpt & Hr).
        rewrite Ef in Hf. inversion Hf; subst r vf1' vb1' w1'. clear Hf.
        cbn beta iota in Hr. destruct Hr as (Hx & Hy & _ & _ & _).
        assert (HI1 : I os ns i0 w1) by (eapply Respects_PT; eassumption).
        destruct (IH os x ns y vf1 vb1 w1 i0 vf2 vb2 w2) as (i1 & Hi1 & HI2 & Hvf2 & Hvb2);
          try assumption; try lia.
        { eapply CmpTotal_sub; [exact Htot|lia..]. }
        { eapply Nat.le_trans; [apply max_d_mono|exact Hmd]; lia. }
        destruct (IH x oe y ne vf2 vb2 w2 i1 vf3 vb3 w3) as (i2 & Hi2 & HI3 & Hvf3 & Hvb3);
          try assumption; try lia.
        { eapply CmpTotal_sub; [exact Htot|lia..]. }
        { eapply Nat.le_trans; [apply max_d_mono|exact Hmd]; lia. }
        exists i2. auto.
      - destruct (HS os oe ns ne md vf vb w (Hstr Ho Hn) Htot Hmd Hvf Hvb)
          as (r & vf1' & vb1' & w1' & Hf & Hvf1 & Hvb1 & Hpt & Hr).
        rewrite Ef in Hf. inversion Hf; subst r vf1' vb1' w1'. clear Hf.
        assert (HI1 : I os ns i0 w1) by (eapply Respects_PT; eassumption).
        assert (HI2 : I (os + (oe - os)) ns i0 w2).
        { eapply rs_del; [exact HR|exact HI1|lia|exact E1]. }
        assert (HI3 : I (os + (oe - os)) (ns + (ne - ns)) i0 w3).
        { eapply rs_ins; [exact HR|exact HI2|lia|exact Hi0|lia|exact E2]. }
        replace (os + (oe - os)) with oe in HI3 by lia.
        replace (ns + (ne - ns)) with ne in HI3 by lia.
        exists i0. split; [lia|]. auto.
    Qed.

    Theorem conquer_inv_at f : InvAt f.
    Proof.
      induction f as [|f IH];
        intros os oe ns ne vf vb w i0 vf' vb' w' Hoe Hne Htot Hvf Hvb Hmd Hi0 HI H.
      - cbn [conquer] in H. discriminate.
      - apply conquer_S_iff in H.
        destruct H as [p w1 s vf1 vb1 w3 w4 Hp Hw1 Hs Hso Hsn Hm Hw4].
        destruct (strip_facts cmp os oe ns ne p s Hoe Hne Hp Hs)
          as (Hp1 & Hp2 & Hseg1 & Hs1 & Hs2 & Hseg2 & Hstr).
        assert (HI0 : I os ns i0 (tick wd (scan_cmps os oe ns ne p) w))
          by (apply rs_tick; [exact HR|exact HI]).
        destruct (emit_eq_opt_inv _ _ _ _ _ _ HI0 Hseg1 Hi0 Hw1) as (i1 & Hi1 & HI1).
        assert (HI1' : I (os + p) (ns + p) i1
                         (tick wd (scan_cmps (os + p) oe (ns + p) ne s) w1))
          by (apply rs_tick; [exact HR|exact HI1]).
        destruct (mid_inv f IH (os + p) (oe - s) (ns + p) (ne - s) vf vb
                    (tick wd (scan_cmps (os + p) oe (ns + p) ne s) w1) i1 vf1 vb1 w3)
          as (i2 & Hi2 & HI2 & Hvf1 & Hvb1); try assumption; try lia.
        { eapply CmpTotal_sub; [exact Htot|lia..]. }
        { eapply Nat.le_trans; [apply max_d_mono|exact Hmd]; lia. }
        destruct (emit_eq_opt_inv _ _ _ _ _ _ HI2 Hseg2 Hi2 Hw4) as (i3 & Hi3 & HI3).
        replace (oe - s + s) with oe in * by lia.
        replace (ne - s + s) with ne in * by lia.
        exists i3. auto.
    Qed.
  End Inv.

  (* PART 1, main rule *)
  Theorem conquer_inv I md fuel os oe ns ne vf vb w i0 vf' vb' w' :
    Respects I -> SnakeSpec wd cmp ->
    os <= oe -> ns <= ne -> CmpTotal cmp os oe ns ne ->
    VOk md vf -> VOk md vb -> max_d (oe - os) (ne - ns) <= md ->
    i0 <= os -> I os ns i0 w ->
    conquer wd cmp fuel os oe ns ne vf vb w = Ok (vf', vb', w') ->
    exists i0', i0' <= oe /\ I oe ne i0' w' /\ VOk md vf' /\ VOk md vb'.
  Proof. intros HR HS. apply (conquer_inv_at I HR HS md fuel). Qed.

  (* the V arrays keep their shape *)
  Corollary conquer_VOk md fuel os oe ns ne vf vb w vf' vb' w' :
    SnakeSpec wd cmp ->
    os <= oe -> ns <= ne -> CmpTotal cmp os oe ns ne ->
    VOk md vf -> VOk md vb -> max_d (oe - os) (ne - ns) <= md ->
    conquer wd cmp fuel os oe ns ne vf vb w = Ok (vf', vb', w') ->
    VOk md vf' /\ VOk md vb'.
  Proof.
    intros HS Hoe Hne Htot Hvf Hvb Hmd H.
    destruct (conquer_inv (fun _ _ _ _ => True) md fuel os oe ns ne vf vb w os vf' vb' w'
                Respects_True HS Hoe Hne Htot Hvf Hvb Hmd (le_n _) Logic.I H)
      as (_ & _ & _ & H1 & H2).
    auto.
  Qed.

  (* ------------------------------------------------ termination, no panic *)
  Definition EmitTotal : Prop := forall c w, exists w', emit wd c w = Ok w'.

  Section Total.
    Hypothesis HE : EmitTotal.
    Hypothesis HS : SnakeSpec wd cmp.
    Variable md : nat.

    Definition TotalAt (f : nat) : Prop :=
      forall os oe ns ne vf vb w,
        os <= oe -> ns <= ne -> CmpTotal cmp os oe ns ne ->
        VOk md vf -> VOk md vb -> max_d (oe - os) (ne - ns) <= md ->
        (oe - os) + (ne - ns) < f ->
        exists vf' vb' w', conquer wd cmp f os oe ns ne vf vb w = Ok (vf', vb', w').

    Lemma emit_eq_opt_total o n l w : exists w', emit_eq_opt o n l w = Ok w'.
    Proof. unfold emit_eq_opt. destruct (0 <? l); [apply HE|now exists w]. Qed.

    Lemma mid_total f : TotalAt f ->
      forall os oe ns ne vf vb w,
        os <= oe -> ns <= ne -> CmpTotal cmp os oe ns ne ->
        (os < oe -> ns < ne -> Stripped cmp os oe ns ne) ->
        VOk md vf -> VOk md vb -> max_d (oe - os) (ne - ns) <= md ->
        (oe - os) + (ne - ns) <= f ->
        exists vf' vb' w', MidRun f os oe ns ne vf vb w vf' vb' w'.
    Proof.
      intros IH os oe ns ne vf vb w Hoe Hne Htot Hstr Hvf Hvb Hmd Hf.
      destruct (le_lt_dec oe os) as [Ho|Ho]; destruct (le_lt_dec ne ns) as [Hn|Hn].
      - exists vf, vb, w. now apply MR_empty.
      - destruct (HE (CIns os ns (ne - ns)) w) as [w1 He].
        exists vf, vb, w1. now apply MR_ins.
      - destruct (HE (CDel os (oe - os) ns) w) as [w1 He].
        exists vf, vb, w1. now apply MR_del.
      - destruct (HS os oe ns ne md vf vb w (Hstr Ho Hn) Htot Hmd Hvf Hvb)
          as (r & vf1 & vb1 & w1 & Hfm & Hvf1 & Hvb1 & Hpt & Hr).
        destruct r as [[x y]|].
        + destruct Hr as (Hx & Hy & Hne1 & Hne2 & _).
          apply pair_neq in Hne1. apply pair_neq in Hne2.
          assert (Ht1 : CmpTotal cmp os x ns y) by (eapply CmpTotal_sub; [exact Htot|lia..]).
          assert (Ht2 : CmpTotal cmp x oe y ne) by (eapply CmpTotal_sub; [exact Htot|lia..]).
          assert (Hm1 : max_d (x - os) (y - ns) <= md)
            by (eapply Nat.le_trans; [apply max_d_mono|exact Hmd]; lia).
          assert (Hm2 : max_d (oe - x) (ne - y) <= md)
            by (eapply Nat.le_trans; [apply max_d_mono|exact Hmd]; lia).
          destruct (IH os x ns y vf1 vb1 w1) as (vf2 & vb2 & w2 & E1);
            try assumption; try lia.
          destruct (conquer_VOk md f os x ns y vf1 vb1 w1 vf2 vb2 w2 HS) as [Hvf2 Hvb2];
            try assumption; try lia.
          destruct (IH x oe y ne vf2 vb2 w2) as (vf3 & vb3 & w3 & E2);
            try assumption; try lia.
          exists vf3, vb3, w3. eapply MR_split; eassumption.
        + destruct (HE (CDel os (oe - os) ns) w1) as [w2 E1].
          destruct (HE (CIns os ns (ne - ns)) w2) as [w3 E2].
          exists vf1, vb1, w3. eapply MR_fallback; eassumption.
    Qed.

    Theorem conquer_total_at f : TotalAt f.
    Proof.
      induction f as [|f IH]; intros os oe ns ne vf vb w Hoe Hne Htot Hvf Hvb Hmd Hf.
      - lia.
      - destruct (common_prefix_len_total cmp os oe ns ne Htot) as [p Hp].
        destruct (emit_eq_opt_total os ns p (tick wd (scan_cmps os oe ns ne p) w)) as [w1 Hw1].
        pose proof (common_prefix_len_spec _ _ _ _ _ _ Hp) as (Hp1 & Hp2 & _).
        assert (Htot1 : CmpTotal cmp (os + p) oe (ns + p) ne)
          by (eapply CmpTotal_sub; [exact Htot|lia..]).
        destruct (common_suffix_len_total cmp (os + p) oe (ns + p) ne Htot1) as [s Hs].
        destruct (strip_facts cmp os oe ns ne p s Hoe Hne Hp Hs)
          as (_ & _ & Hseg1 & Hs1 & Hs2 & Hseg2 & Hstr).
        destruct (mid_total f IH (os + p) (oe - s) (ns + p) (ne - s) vf vb
                    (tick wd (scan_cmps (os + p) oe (ns + p) ne s) w1))
          as (vf1 & vb1 & w3 & Hm); try assumption; try lia.
        { eapply CmpTotal_sub; [exact Htot|lia..]. }
        { eapply Nat.le_trans; [apply max_d_mono|exact Hmd]; lia. }
        destruct (emit_eq_opt_total (oe - s) (ne - s) s w3) as [w4 Hw4].
        exists vf1, vb1, w4. apply conquer_S_iff.
        eapply Run1_intro; try eassumption; lia.
    Qed.
  End Total.

  (* PART 1, termination and absence of panics *)
  Theorem conquer_total md fuel os oe ns ne vf vb w :
    EmitTotal -> SnakeSpec wd cmp ->
    os <= oe -> ns <= ne -> CmpTotal cmp os oe ns ne ->
    VOk md vf -> VOk md vb -> max_d (oe - os) (ne - ns) <= md ->
    (oe - os) + (ne - ns) + 1 <= fuel ->
    exists vf' vb' w', conquer wd cmp fuel os oe ns ne vf vb w = Ok (vf', vb', w').
  Proof.
    intros HE HS Hoe Hne Htot Hvf Hvb Hmd Hf.
    apply (conquer_total_at HE HS md fuel); try assumption. lia.
  Qed.

  (* ------------------------------------------------------------ myers_diff *)
  Lemma myers_diff_inv os oe ns ne w w' :
    myers_diff wd cmp os oe ns ne w = Ok w' ->
    exists vf' vb' w'',
      conquer wd cmp (myers_fuel os oe ns ne) os oe ns ne
              (v_new (max_d (oe - os) (ne - ns))) (v_new (max_d (oe - os) (ne - ns))) w
      = Ok (vf', vb', w'') /\
      emit wd CFin w'' = Ok w'.
  Proof.
    unfold myers_diff. intros H. apply bind_Ok_inv in H.
    destruct H as ([[vf' vb'] w''] & Hc & He). exists vf', vb', w''. auto.
  Qed.

  (* myers_diff respects any Respects-invariant *)
  Theorem myers_respects I os oe ns ne w w' :
    Respects I -> SnakeSpec wd cmp ->
    os <= oe -> ns <= ne -> CmpTotal cmp os oe ns ne ->
    I os ns os w ->
    myers_diff wd cmp os oe ns ne w = Ok w' ->
    exists w'' i0', i0' <= oe /\ I oe ne i0' w'' /\ emit wd CFin w'' = Ok w'.
  Proof.
    intros HR HS Hoe Hne Htot HI H.
    apply myers_diff_inv in H. destruct H as (vf' & vb' & w'' & Hc & He).
    destruct (conquer_inv I _ _ _ _ _ _ _ _ _ os _ _ _ HR HS Hoe Hne Htot
                (VOk_v_new _) (VOk_v_new _) (le_n _) (le_n _) HI Hc)
      as (i0' & Hi0' & HI' & _ & _).
    exists w'', i0'. auto.
  Qed.

  Theorem myers_total os oe ns ne w :
    EmitTotal -> SnakeSpec wd cmp ->
    os <= oe -> ns <= ne -> CmpTotal cmp os oe ns ne ->
    exists w', myers_diff wd cmp os oe ns ne w = Ok w'.
  Proof.
    intros HE HS Hoe Hne Htot. unfold myers_diff.
    destruct (conquer_total (max_d (oe - os) (ne - ns)) (myers_fuel os oe ns ne)
                os oe ns ne (v_new _) (v_new _) w HE HS Hoe Hne Htot
                (VOk_v_new _) (VOk_v_new _) (le_n _))
      as (vf' & vb' & w'' & Hc).
    { unfold myers_fuel. lia. }
    rewrite Hc. cbn [bind]. apply HE.
  Qed.
End Generic.

(* ------------------------------------------------- prefix walks (snoc style) *)
(* [RawPre cmp is js i0s i j i0 cs]: the calls [cs] walk the cursor from
   (is, js) with run start i0s to (i, j) with run start i0.  It fixes the
   START; [RawWalk] is cons-style and fixes the END. *)
Inductive RawPre (cmp : cmpf) (is js i0s : nat) : nat -> nat -> nat -> list call -> Prop :=
| RP_nil : RawPre cmp is js i0s is js i0s []
| RP_eq i j i0 l cs :
    0 < l -> SegEq cmp i j l -> RawPre cmp is js i0s i j i0 cs ->
    RawPre cmp is js i0s (i + l) (j + l) (i + l) (cs ++ [CEq i j l])
| RP_del i j i0 l cs :
    0 < l -> RawPre cmp is js i0s i j i0 cs ->
    RawPre cmp is js i0s (i + l) j i0 (cs ++ [CDel i l j])
| RP_ins i j i0 o l cs :
    0 < l -> i0 <= o -> o <= i -> RawPre cmp is js i0s i j i0 cs ->
    RawPre cmp is js i0s i (j + l) i0 (cs ++ [CIns o j l]).

Lemma RawPre_app_walk cmp oe ne is js i0s i j i0 cs :
  RawPre cmp is js i0s i j i0 cs ->
  forall rest, RawWalk cmp oe ne i j i0 rest -> RawWalk cmp oe ne is js i0s (cs ++ rest).
Proof.
  intros H. induction H as [|i j i0 l cs Hl Hseg H IH|i j i0 l cs Hl H IH|i j i0 o l cs Hl Ho1 Ho2 H IH];
    intros rest Hr.
  - exact Hr.
  - rewrite <- app_assoc. cbn [app]. apply IH. now apply RW_eq.
  - rewrite <- app_assoc. cbn [app]. apply IH. now apply RW_del.
  - rewrite <- app_assoc. cbn [app]. apply IH. now apply RW_ins.
Qed.

Lemma RawPre_walk cmp oe ne is js i0s i0 cs :
  RawPre cmp is js i0s oe ne i0 cs -> RawWalk cmp oe ne is js i0s cs.
Proof.
  intros H. rewrite <- (app_nil_r cs).
  eapply RawPre_app_walk; [exact H|apply RW_nil].
Qed.

(* ------------------------------------------------------ the recording hook *)
(* a world over [plain] whose probes and ticks leave the log alone and whose
   non-finish calls are appended to it *)
Record Logging (wd : world plain) : Prop := {
  lg_probe : forall w b w', probe wd w = (b, w') -> p_log w' = p_log w;
  lg_tick : forall k w, p_log (tick wd k w) = p_log w;
  lg_emit : forall c w w', c <> CFin -> emit wd c w = Ok w' -> p_log w' = c :: p_log w
}.

Lemma Logging_plain dl : Logging (plain_world dl).
Proof.
  split.
  - intros w b w' H. cbn [probe plain_world] in H.
    destruct (deadline_exceeded dl (p_ctr w)) as [b' c]. inversion H. reflexivity.
  - reflexivity.
  - intros c w w' _ H. cbn [emit plain_world] in H. inversion H. reflexivity.
Qed.

Lemma Logging_no_finish dl : Logging (no_finish (plain_world dl)).
Proof.
  split.
  - intros w b w' H. cbn [probe no_finish plain_world] in H.
    destruct (deadline_exceeded dl (p_ctr w)) as [b' c]. inversion H. reflexivity.
  - reflexivity.
  - intros c w w' Hc H. cbn [emit no_finish] in H.
    destruct c; try (cbn [emit plain_world] in H; inversion H; reflexivity).
    now destruct Hc.
Qed.

Lemma EmitTotal_plain dl : EmitTotal (plain_world dl).
Proof. intros c w. cbn [emit plain_world]. eauto. Qed.

Lemma EmitTotal_no_finish dl : EmitTotal (no_finish (plain_world dl)).
Proof. intros c w. cbn [emit no_finish]. destruct c; cbn [emit plain_world]; eauto. Qed.

Definition PlainInv (cmp : cmpf) (os ns : nat) (w0 : plain) (i j i0 : nat) (w : plain) : Prop :=
  exists body, plain_calls w = plain_calls w0 ++ body /\ RawPre cmp os ns os i j i0 body.

Lemma plain_calls_emit wd c w w' :
  Logging wd -> c <> CFin -> emit wd c w = Ok w' -> plain_calls w' = plain_calls w ++ [c].
Proof.
  intros HL Hc H. unfold plain_calls. rewrite (lg_emit wd HL c w w' Hc H). reflexivity.
Qed.

Lemma Respects_plain wd cmp os ns w0 :
  Logging wd -> Respects wd cmp (PlainInv cmp os ns w0).
Proof.
  intros HL. split.
  - intros i j i0 w b w' (body & Hb & Hp) H. exists body. split; [|exact Hp].
    unfold plain_calls in *. now rewrite (lg_probe wd HL w b w' H).
  - intros i j i0 w k (body & Hb & Hp). exists body. split; [|exact Hp].
    unfold plain_calls in *. now rewrite (lg_tick wd HL k w).
  - intros i j i0 w l w' (body & Hb & Hp) Hl Hseg H.
    exists (body ++ [CEq i j l]). split.
    + assert (Hc : CEq i j l <> CFin) by discriminate.
      rewrite (plain_calls_emit wd _ w w' HL Hc H), Hb. now rewrite app_assoc.
    + now apply RP_eq with (i0 := i0).
  - intros i j i0 w l w' (body & Hb & Hp) Hl H.
    exists (body ++ [CDel i l j]). split.
    + assert (Hc : CDel i l j <> CFin) by discriminate.
      rewrite (plain_calls_emit wd _ w w' HL Hc H), Hb. now rewrite app_assoc.
    + now apply RP_del.
  - intros i j i0 w o l w' (body & Hb & Hp) Hl Ho1 Ho2 H.
    exists (body ++ [CIns o j l]). split.
    + assert (Hc : CIns o j l <> CFin) by discriminate.
      rewrite (plain_calls_emit wd _ w w' HL Hc H), Hb. now rewrite app_assoc.
    + now apply RP_ins.
Qed.

Lemma PlainInv_init cmp os ns w0 : PlainInv cmp os ns w0 os ns os w0.
Proof. exists []. split; [now rewrite app_nil_r|apply RP_nil]. Qed.

(* any logging world: the calls made by conquer form a RawWalk of the box *)
Theorem myers_body_valid wd cmp os oe ns ne w0 w1 :
  Logging wd -> SnakeSpec wd cmp ->
  os <= oe -> ns <= ne -> CmpTotal cmp os oe ns ne ->
  myers_diff wd cmp os oe ns ne w0 = Ok w1 ->
  exists w' body,
    plain_calls w' = plain_calls w0 ++ body /\ RawWalk cmp oe ne os ns os body /\
    emit wd CFin w' = Ok w1.
Proof.
  intros HL HS Hoe Hne Htot H.
  destruct (myers_respects wd cmp (PlainInv cmp os ns w0) os oe ns ne w0 w1
              (Respects_plain wd cmp os ns w0 HL) HS Hoe Hne Htot
              (PlainInv_init cmp os ns w0) H)
    as (w' & i0' & _ & (body & Hb & Hp) & He).
  exists w', body. split; [exact Hb|]. split; [|exact He].
  eapply RawPre_walk. exact Hp.
Qed.

(* PART 1, the recording hook: validity of the raw call sequence, for every
   clock [dl] *)
Theorem myers_valid dl cmp os oe ns ne w0 w1 :
  SnakeSpec (plain_world dl) cmp ->
  os <= oe -> ns <= ne -> CmpTotal cmp os oe ns ne ->
  myers_diff (plain_world dl) cmp os oe ns ne w0 = Ok w1 ->
  exists cs, plain_calls w1 = plain_calls w0 ++ cs /\ RawStrong cmp os oe ns ne cs.
Proof.
  intros HS Hoe Hne Htot H.
  destruct (myers_body_valid _ cmp os oe ns ne w0 w1 (Logging_plain dl) HS Hoe Hne Htot H)
    as (w' & body & Hb & Hw & He).
  exists (body ++ [CFin]). split.
  - cbn [emit plain_world] in He. inversion He; subst w1.
    unfold plain_calls in *. cbn [p_log rev]. rewrite Hb. now rewrite app_assoc.
  - exists body. auto.
Qed.

Theorem myers_no_panic dl cmp os oe ns ne w0 :
  SnakeSpec (plain_world dl) cmp ->
  os <= oe -> ns <= ne -> CmpTotal cmp os oe ns ne ->
  exists w1, myers_diff (plain_world dl) cmp os oe ns ne w0 = Ok w1.
Proof. intros HS. apply myers_total; [apply EmitTotal_plain|exact HS]. Qed.

(* the NoFinishHook variant (Patience's inner diffs): same body, no CFin *)
Theorem myers_valid_no_finish dl cmp os oe ns ne w0 w1 :
  SnakeSpec (no_finish (plain_world dl)) cmp ->
  os <= oe -> ns <= ne -> CmpTotal cmp os oe ns ne ->
  myers_diff (no_finish (plain_world dl)) cmp os oe ns ne w0 = Ok w1 ->
  exists body, plain_calls w1 = plain_calls w0 ++ body /\ RawWalk cmp oe ne os ns os body.
Proof.
  intros HS Hoe Hne Htot H.
  destruct (myers_body_valid _ cmp os oe ns ne w0 w1 (Logging_no_finish dl) HS Hoe Hne Htot H)
    as (w' & body & Hb & Hw & He).
  cbn [emit no_finish] in He. inversion He; subst w1.
  exists body. auto.
Qed.

Theorem myers_no_panic_no_finish dl cmp os oe ns ne w0 :
  SnakeSpec (no_finish (plain_world dl)) cmp ->
  os <= oe -> ns <= ne -> CmpTotal cmp os oe ns ne ->
  exists w1, myers_diff (no_finish (plain_world dl)) cmp os oe ns ne w0 = Ok w1.
Proof. intros HS. apply myers_total; [apply EmitTotal_no_finish|exact HS]. Qed.

Print Assumptions conquer_inv.
Print Assumptions conquer_total.
Print Assumptions myers_respects.
Print Assumptions myers_total.
Print Assumptions myers_valid.
Print Assumptions myers_no_panic.
Print Assumptions myers_valid_no_finish.
Print Assumptions myers_no_panic_no_finish.
