(* Proofs/PatienceGen.v — two generic-world facts about Myers' [conquer] that
   Proofs/WorldInv.v does not state in the form the Patience proofs need:

   - [myers_respects_gen]: [myers_respects] with an arbitrary run start
     i0 <= os in the initial invariant (the inner diffs of Patience start in
     the middle of a walk whose current run of changes may have begun earlier);
   - [conquer_total_inv] / [myers_total_inv]: termination and absence of panics
     for a world whose [emit] is only known to succeed on states satisfying a
     [Respects]-invariant ([EmitTotal] asks for success on ALL states, which
     is false for Replace<Patience<..>>: debug assertions, anchor indexing). *)
From Similar Require Import Model.Base Model.Utils Model.Myers Model.Hooks
  Spec.Script Spec.EditGraph Spec.SnakeSpec Proofs.Utils Proofs.WorldInv.

Local Open Scope nat_scope.

Section Gen.
  Context {W : Type}.
  Variable wd : world W.
  Variable cmp : cmpf.
  Variable I : nat -> nat -> nat -> W -> Prop.
  Hypothesis HR : Respects wd cmp I.
  Hypothesis HS : SnakeSpec wd cmp.

  Theorem myers_respects_gen os oe ns ne i0 w w' :
    os <= oe -> ns <= ne -> CmpTotal cmp os oe ns ne ->
    i0 <= os -> I os ns i0 w ->
    myers_diff wd cmp os oe ns ne w = Ok w' ->
    exists w'' i0', i0' <= oe /\ I oe ne i0' w'' /\ emit wd CFin w'' = Ok w'.
  Proof.
    intros Hoe Hne Htot Hi0 HI H.
    apply myers_diff_inv in H. destruct H as (vf' & vb' & w'' & Hc & He).
    destruct (conquer_inv wd cmp I _ _ _ _ _ _ _ _ _ i0 _ _ _ HR HS Hoe Hne Htot
                (VOk_v_new _) (VOk_v_new _) (le_n _) Hi0 HI Hc)
      as (i0' & Hi0' & HI' & _ & _).
    exists w'', i0'. auto.
  Qed.

  (* every call a valid walk can make from an invariant state succeeds *)
  Record EmitsUnder : Prop := {
    eu_eq : forall i j i0 w l,
        I i j i0 w -> 0 < l -> SegEq cmp i j l -> exists w', emit wd (CEq i j l) w = Ok w';
    eu_del : forall i j i0 w l,
        I i j i0 w -> 0 < l -> exists w', emit wd (CDel i l j) w = Ok w';
    eu_ins : forall i j i0 w o l,
        I i j i0 w -> 0 < l -> i0 <= o -> o <= i -> exists w', emit wd (CIns o j l) w = Ok w'
  }.
  Hypothesis HE : EmitsUnder.
  Variable md : nat.

  Definition TotalInvAt (f : nat) : Prop :=
    forall os oe ns ne vf vb w i0,
      os <= oe -> ns <= ne -> CmpTotal cmp os oe ns ne ->
      VOk md vf -> VOk md vb -> max_d (oe - os) (ne - ns) <= md ->
      (oe - os) + (ne - ns) < f ->
      i0 <= os -> I os ns i0 w ->
      exists vf' vb' w', conquer wd cmp f os oe ns ne vf vb w = Ok (vf', vb', w').

  Lemma emit_eq_opt_total_inv i j i0 l w :
    I i j i0 w -> SegEq cmp i j l -> exists w', emit_eq_opt wd i j l w = Ok w'.
  Proof.
    intros HI Hseg. unfold emit_eq_opt. destruct (0 <? l) eqn:E.
    - apply Nat.ltb_lt in E. eapply eu_eq; eassumption.
    - now exists w.
  Qed.

  Lemma mid_total_inv f : TotalInvAt f ->
    forall os oe ns ne vf vb w i0,
      os <= oe -> ns <= ne -> CmpTotal cmp os oe ns ne ->
      (os < oe -> ns < ne -> Stripped cmp os oe ns ne) ->
      VOk md vf -> VOk md vb -> max_d (oe - os) (ne - ns) <= md ->
      (oe - os) + (ne - ns) <= f ->
      i0 <= os -> I os ns i0 w ->
      exists vf' vb' w', MidRun wd cmp f os oe ns ne vf vb w vf' vb' w'.
  Proof.
    intros IH os oe ns ne vf vb w i0 Hoe Hne Htot Hstr Hvf Hvb Hmd Hf Hi0 HI.
    destruct (le_lt_dec oe os) as [Ho|Ho]; destruct (le_lt_dec ne ns) as [Hn|Hn].
    - exists vf, vb, w. now apply MR_empty.
    - destruct (eu_ins HE os ns i0 w os (ne - ns) HI ltac:(lia) Hi0 (le_n _)) as [w1 He].
      exists vf, vb, w1. now apply MR_ins.
    - destruct (eu_del HE os ns i0 w (oe - os) HI ltac:(lia)) as [w1 He].
      exists vf, vb, w1. now apply MR_del.
    - destruct (HS os oe ns ne md vf vb w (Hstr Ho Hn) Htot Hmd Hvf Hvb)
        as (r & vf1 & vb1 & w1 & Hfm & Hvf1 & Hvb1 & Hpt & Hr).
      assert (HI1 : I os ns i0 w1) by (eapply (Respects_PT wd cmp I HR); eassumption).
      destruct r as [[x y]|].
      + destruct Hr as (Hx & Hy & Hne1 & Hne2 & _).
        apply pair_neq in Hne1. apply pair_neq in Hne2.
        assert (Ht1 : CmpTotal cmp os x ns y) by (eapply CmpTotal_sub; [exact Htot|lia..]).
        assert (Ht2 : CmpTotal cmp x oe y ne) by (eapply CmpTotal_sub; [exact Htot|lia..]).
        assert (Hm1 : max_d (x - os) (y - ns) <= md)
          by (eapply Nat.le_trans; [apply max_d_mono|exact Hmd]; lia).
        assert (Hm2 : max_d (oe - x) (ne - y) <= md)
          by (eapply Nat.le_trans; [apply max_d_mono|exact Hmd]; lia).
        destruct (IH os x ns y vf1 vb1 w1 i0) as (vf2 & vb2 & w2 & E1);
          try assumption; try lia.
        destruct (conquer_inv wd cmp I md f os x ns y vf1 vb1 w1 i0 vf2 vb2 w2 HR HS)
          as (i1 & Hi1 & HI2 & Hvf2 & Hvb2); try assumption; try lia.
        destruct (IH x oe y ne vf2 vb2 w2 i1) as (vf3 & vb3 & w3 & E2);
          try assumption; try lia.
        exists vf3, vb3, w3. eapply MR_split; eassumption.
      + destruct (eu_del HE os ns i0 w1 (oe - os) HI1 ltac:(lia)) as [w2 E1].
        assert (HI2 : I (os + (oe - os)) ns i0 w2).
        { eapply (rs_del wd cmp I HR); [exact HI1|lia|exact E1]. }
        destruct (eu_ins HE (os + (oe - os)) ns i0 w2 os (ne - ns) HI2 ltac:(lia) Hi0 ltac:(lia))
          as [w3 E2].
        exists vf1, vb1, w3. eapply MR_fallback; eassumption.
  Qed.

  Theorem conquer_total_inv_at f : TotalInvAt f.
  Proof.
    induction f as [|f IH]; intros os oe ns ne vf vb w i0 Hoe Hne Htot Hvf Hvb Hmd Hf Hi0 HI.
    - lia.
    - destruct (common_prefix_len_total cmp os oe ns ne Htot) as [p Hp].
      assert (HI0 : I os ns i0 (tick wd (scan_cmps os oe ns ne p) w))
        by (apply (rs_tick wd cmp I HR); exact HI).
      pose proof (common_prefix_len_spec _ _ _ _ _ _ Hp) as (Hp1 & Hp2 & Hsegp & _).
      destruct (emit_eq_opt_total_inv os ns i0 p _ HI0 Hsegp) as [w1 Hw1].
      destruct (emit_eq_opt_inv wd cmp I HR _ _ _ _ _ _ HI0 Hsegp Hi0 Hw1) as (i1 & Hi1 & HI1).
      assert (Htot1 : CmpTotal cmp (os + p) oe (ns + p) ne)
        by (eapply CmpTotal_sub; [exact Htot|lia..]).
      destruct (common_suffix_len_total cmp (os + p) oe (ns + p) ne Htot1) as [s Hs].
      destruct (strip_facts cmp os oe ns ne p s Hoe Hne Hp Hs)
        as (_ & _ & Hseg1 & Hs1 & Hs2 & Hseg2 & Hstr).
      assert (HI1' : I (os + p) (ns + p) i1
                       (tick wd (scan_cmps (os + p) oe (ns + p) ne s) w1))
        by (apply (rs_tick wd cmp I HR); exact HI1).
      assert (Htot2 : CmpTotal cmp (os + p) (oe - s) (ns + p) (ne - s))
        by (eapply CmpTotal_sub; [exact Htot|lia..]).
      assert (Hmd2 : max_d (oe - s - (os + p)) (ne - s - (ns + p)) <= md)
        by (eapply Nat.le_trans; [apply max_d_mono|exact Hmd]; lia).
      destruct (mid_total_inv f IH (os + p) (oe - s) (ns + p) (ne - s) vf vb
                  (tick wd (scan_cmps (os + p) oe (ns + p) ne s) w1) i1)
        as (vf1 & vb1 & w3 & Hm); try assumption; try lia.
      destruct (mid_inv wd cmp I HR HS md f (conquer_inv_at wd cmp I HR HS md f)
                  (os + p) (oe - s) (ns + p) (ne - s) vf vb
                  (tick wd (scan_cmps (os + p) oe (ns + p) ne s) w1) i1 vf1 vb1 w3)
        as (i2 & Hi2 & HI2 & _ & _); try assumption; try lia.
      destruct (emit_eq_opt_total_inv (oe - s) (ne - s) i2 s w3 HI2 Hseg2) as [w4 Hw4].
      exists vf1, vb1, w4. apply conquer_S_iff.
      eapply Run1_intro; try eassumption; lia.
  Qed.
End Gen.

Theorem conquer_total_inv {W} (wd : world W) cmp I md fuel os oe ns ne vf vb w i0 :
  Respects wd cmp I -> SnakeSpec wd cmp -> EmitsUnder wd cmp I ->
  os <= oe -> ns <= ne -> CmpTotal cmp os oe ns ne ->
  VOk md vf -> VOk md vb -> max_d (oe - os) (ne - ns) <= md ->
  (oe - os) + (ne - ns) + 1 <= fuel ->
  i0 <= os -> I os ns i0 w ->
  exists vf' vb' w', conquer wd cmp fuel os oe ns ne vf vb w = Ok (vf', vb', w').
Proof.
  intros HR HS HE Hoe Hne Htot Hvf Hvb Hmd Hf Hi0 HI.
  apply (conquer_total_inv_at wd cmp I HR HS HE md fuel) with (i0 := i0); try assumption. lia.
Qed.

(* the conquer part of myers_diff succeeds and re-establishes the invariant;
   what is left is the final emit CFin *)
Theorem myers_total_inv {W} (wd : world W) cmp I os oe ns ne w i0 :
  Respects wd cmp I -> SnakeSpec wd cmp -> EmitsUnder wd cmp I ->
  os <= oe -> ns <= ne -> CmpTotal cmp os oe ns ne ->
  i0 <= os -> I os ns i0 w ->
  exists w'' i0', i0' <= oe /\ I oe ne i0' w'' /\
                  myers_diff wd cmp os oe ns ne w = emit wd CFin w''.
Proof.
  intros HR HS HE Hoe Hne Htot Hi0 HI. unfold myers_diff.
  destruct (conquer_total_inv wd cmp I (max_d (oe - os) (ne - ns)) (myers_fuel os oe ns ne)
              os oe ns ne (v_new _) (v_new _) w i0 HR HS HE Hoe Hne Htot
              (VOk_v_new _) (VOk_v_new _) (le_n _))
    as (vf' & vb' & w'' & Hc); try assumption.
  { unfold myers_fuel. lia. }
  destruct (conquer_inv wd cmp I _ _ _ _ _ _ _ _ _ i0 _ _ _ HR HS Hoe Hne Htot
              (VOk_v_new _) (VOk_v_new _) (le_n _) Hi0 HI Hc)
    as (i0' & Hi0' & HI' & _ & _).
  exists w'', i0'. split; [exact Hi0'|]. split; [exact HI'|].
  rewrite Hc. reflexivity.
Qed.

Print Assumptions myers_respects_gen.
Print Assumptions conquer_total_inv.
Print Assumptions myers_total_inv.
