(* Proofs/CompactEvents.v -- C08, Compact under replace events.

   Compact<D> does not override DiffHook::replace, so a replace event that reaches it (the adapters nested the
   other way round, Replace::new(Compact::new(hook, ..)), or Replace ops replayed into a Compact with
   DiffOp::apply_to_hook) is taken apart by the trait's default body into delete followed by insert, both of
   which are only buffered.  Hence, whatever mixture of equal / delete / insert / replace events arrives:
   nothing reaches the wrapped hook before finish, and at finish it receives the cleaned-up ops followed by
   exactly one finish.  [compact_hook_spec] states that for bodies without replace events; here it is
   extended to every body without a finish, and composed with Replace on the outside. *)
From Coq Require Import List Arith Lia.
Import ListNotations.
From Similar Require Import Model.Base Model.Utils Model.Myers Model.Hooks Model.Compact
  Spec.Script Proofs.Replace Proofs.Compact.

Section CompactEvents.
  Context {W : Type}.
  Variable wd : world W.
  Variable cmp : cmpf.
  Variable repair : bool.

  (* a replace event is the same, to Compact, as a delete event followed by an insert event *)
  Lemma compact_emit_all_expand cs : forall sw,
    (~ In CFin cs) ->
    emit_all (compact_world wd cmp repair) cs sw
    = emit_all (compact_world wd cmp repair) (expand_rep cs) sw.
  Proof.
    induction cs as [|c cs IH]; intros [buf w] Hnf; [reflexivity|].
    assert (Hnf' : ~ In CFin cs) by (intros H; apply Hnf; right; exact H).
    destruct c as [o n l|o l n|o n l|o ol n nl|].
    - cbn [emit_all expand_rep compact_world emit compact_emit bind]. apply IH, Hnf'.
    - cbn [emit_all expand_rep compact_world emit compact_emit bind]. apply IH, Hnf'.
    - cbn [emit_all expand_rep compact_world emit compact_emit bind]. apply IH, Hnf'.
    - cbn [emit_all expand_rep compact_world emit compact_emit bind]. apply IH, Hnf'.
    - exfalso. apply Hnf. left. reflexivity.
  Qed.

  Lemma expand_rep_edit cs : ~ In CFin cs -> Forall edit_call (expand_rep cs).
  Proof.
    induction cs as [|c cs IH]; intros Hnf; [constructor|].
    assert (Hnf' : ~ In CFin cs) by (intros H; apply Hnf; right; exact H).
    destruct c as [o n l|o l n|o n l|o ol n nl|]; cbn [expand_rep].
    - constructor; [exact I|apply IH, Hnf'].
    - constructor; [exact I|apply IH, Hnf'].
    - constructor; [exact I|apply IH, Hnf'].
    - constructor; [exact I|]. constructor; [exact I|apply IH, Hnf'].
    - exfalso. apply Hnf. left. reflexivity.
  Qed.

  Lemma expand_rep_app a b : expand_rep (a ++ b) = expand_rep a ++ expand_rep b.
  Proof.
    induction a as [|c a IH]; [reflexivity|].
    destruct c; cbn [app expand_rep]; rewrite IH; reflexivity.
  Qed.

  (* the hook protocol of Compact for ANY body of events without a finish: the wrapped hook sees nothing until
     finish, then the cleaned-up ops of the body (replace events counted as delete + insert) and one finish *)
  Theorem compact_hook_events body w :
    ~ In CFin body ->
    emit_all (compact_world wd cmp repair) (body ++ [CFin]) ([], w) =
    match cleanup_diff_ops cmp repair (capture_calls (expand_rep body)) with
    | Ok ops' =>
        match emit_all wd (map op_to_call ops' ++ [CFin]) w with
        | Ok w' => Ok (rev ops', w')
        | Panic => Panic
        | OutOfFuel => OutOfFuel
        end
    | Panic => Panic
    | OutOfFuel => OutOfFuel
    end.
  Proof.
    intros Hnf.
    rewrite emit_all_app.
    rewrite (compact_emit_all_expand body ([], w) Hnf).
    rewrite <- (compact_hook_spec wd cmp repair (expand_rep body) w (expand_rep_edit body Hnf)).
    rewrite emit_all_app. reflexivity.
  Qed.
End CompactEvents.

(* Replace on the outside of Compact (the stack `replace_compact` of the harness): what Compact receives is
   exactly the trace of the Replace transducer, and the wrapped hook then sees what [compact_hook_events] says *)
Theorem replace_over_compact {W} (wd : world W) cmp repair dbg cs s buf w s' buf' w' :
  emit_all (replace_world (compact_world wd cmp repair) dbg) cs (s, (buf, w)) = Ok (s', (buf', w')) ->
  exists out, replace_trace dbg cs s = (out, Some s')
              /\ emit_all (compact_world wd cmp repair) out (buf, w) = Ok (buf', w').
Proof. apply replace_acts_by_emitting. Qed.

(* non-vacuity: a substitution through both nestings of the adapters ends in one replace-free script and a
   single finish (old = [1;2;3], new = [1;9;3] under the equality oracle on positions 0 and 2) *)
Example compact_events_instance :
  let cmp := fun i j => Ok (Nat.eqb i j && negb (Nat.eqb i 1)) in
  emit_all (compact_world (plain_world None) cmp false)
           [CEq 0 0 1; CRep 1 1 1 1; CEq 2 2 1; CFin] ([], plain0)
  = emit_all (compact_world (plain_world None) cmp false)
           [CEq 0 0 1; CDel 1 1 1; CIns 1 1 1; CEq 2 2 1; CFin] ([], plain0).
Proof. vm_compute. reflexivity. Qed.

Print Assumptions compact_hook_events.
Print Assumptions replace_over_compact.
