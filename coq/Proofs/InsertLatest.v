(* Proofs/InsertLatest.v — property C09, clause "a pure insertion that is
   followed by equal items sits at its latest position".

   1. Compact.  The Insert pass of cleanup_diff_ops establishes a STRONGER
      fact than the clause: in its output every Insert is either the last op
      or is directly followed by an Equal whose first old item differs from the
      first inserted item ([StrongLatest]).  In particular no Insert is
      directly followed by a Delete or by another Insert.
      Invariant of the pass (zipper (bef, this, aft), bef = reversed prefix):
        - between iterations the processed prefix INCLUDING [this] satisfies
          the property ([RSL (this :: bef)]);
        - while an Insert slides up, only the prefix strictly before it is
          constrained ([RSL bef]); every up step either pops ops from bef or
          shortens the Equal on top of it from its END, so the property (which
          only looks at the START of an Equal) is kept;
        - the way up stops at the list start or behind an Equal, and on the way
          down the op on top of bef is never an Insert ([NotInsHead]): the ops
          pushed are grown/new Equals and swapped Deletes;
        - the way down stops only at the end of the list or in front of a
          non-empty Equal for which common_prefix_len returned 0, i.e. the
          comparison of the first items answered Ok false.
      No totality assumption on cmp is needed: the result Ok ops' already
      says that every comparison the code made succeeded.
   2. Replace.  On a StrongLatest list every run of changes is D* I?, so an
      Insert call leaves Replace only for a run that is exactly one Insert,
      unchanged, and the Equal emitted after it starts where the Equal after
      that Insert started (Replace merges adjacent Equals to the right only).
   3. capture_diff = pipeline_ops of a raw walk (Pipeline.CaptureRaw, proved
      for all three algorithms in PatienceCapture.CaptureRaw_all). *)
From Similar Require Import Model.Base Model.Utils Model.Myers Model.Hooks Model.Compact Model.Capture
  Spec.Script Spec.SnakeSpec Check.Script Proofs.Utils Proofs.CheckScript Proofs.Replace Proofs.ReplaceLoose
  Proofs.Compact Proofs.Pipeline Proofs.PatienceCapture.

Local Open Scope nat_scope.

(* ====================================================================== *)
(* 0. The strong form of the clause                                        *)
(* ====================================================================== *)
Section Strong.
  Variable cmp : cmpf.

  (* x directly followed by y *)
  Definition pairOK (x y : op) : Prop :=
    match x with
    | Insert _ n _ =>
        match y with
        | Equal eo _ _ => cmp eo n = Ok false
        | _ => False
        end
    | _ => True
    end.

  Definition headOK (x : op) (l : list op) : Prop :=
    match l with [] => True | y :: _ => pairOK x y end.

  (* every Insert is last, or directly followed by an Equal whose first old
     item differs from the first inserted item *)
  Fixpoint StrongLatest (l : list op) : Prop :=
    match l with
    | [] => True
    | x :: r => headOK x r /\ StrongLatest r
    end.

  (* the same on a reversed prefix (head = most recent op) *)
  Definition tailOK (bef : list op) (y : op) : Prop :=
    match bef with [] => True | x :: _ => pairOK x y end.

  Fixpoint RSL (bef : list op) : Prop :=
    match bef with
    | [] => True
    | y :: r => tailOK r y /\ RSL r
    end.

  Definition NotInsHead (bef : list op) : Prop :=
    match bef with Insert _ _ _ :: _ => False | _ => True end.

  Lemma pairOK_notins x y : op_tag x <> TInsert -> pairOK x y.
  Proof. destruct x; cbn [pairOK op_tag]; intros H; try exact I. exfalso; apply H; reflexivity. Qed.

  Lemma tailOK_notins bef y : NotInsHead bef -> tailOK bef y.
  Proof.
    destruct bef as [|x r]; cbn [tailOK NotInsHead]; [intros _; exact I|].
    intros H. apply pairOK_notins. destruct x; cbn [op_tag]; try discriminate. contradiction.
  Qed.

  Lemma tailOK_equal bef o n l n' l' : tailOK bef (Equal o n l) -> tailOK bef (Equal o n' l').
  Proof. destruct bef as [|x r]; cbn [tailOK]; [auto|]. destruct x; cbn [pairOK]; auto. Qed.

  Lemma RSL_tail x r : RSL (x :: r) -> RSL r.
  Proof. cbn [RSL]. tauto. Qed.

  Lemma RSL_equal o n l n' l' r : RSL (Equal o n l :: r) -> RSL (Equal o n' l' :: r).
  Proof. cbn [RSL]. intros [H1 H2]. split; [eapply tailOK_equal; exact H1|exact H2]. Qed.

  Lemma RSL_push_ne_equal o n l l' r : RSL (Equal o n l :: r) -> RSL (push_ne (Equal o n l') r).
  Proof.
    intros H. unfold push_ne. destruct (op_is_empty (Equal o n l')).
    - eapply RSL_tail; exact H.
    - eapply RSL_equal; exact H.
  Qed.

  Lemma RSL_push_notins x r : NotInsHead r -> RSL r -> RSL (x :: r).
  Proof. intros H1 H2. cbn [RSL]. split; [apply tailOK_notins; exact H1|exact H2]. Qed.

  (* back to the forward list *)
  Lemma RSL_StrongLatest bef : forall aft,
    RSL bef -> StrongLatest aft ->
    match bef with x :: _ => headOK x aft | [] => True end ->
    StrongLatest (rev bef ++ aft).
  Proof.
    induction bef as [|y r IH]; intros aft Hb Ha Hh; cbn [rev app]; [exact Ha|].
    rewrite <- app_assoc. cbn [app]. cbn [RSL] in Hb. destruct Hb as [Ht Hr].
    apply IH; [exact Hr| |].
    - cbn [StrongLatest]. split; assumption.
    - destruct r as [|x r']; [exact I|]. cbn [headOK tailOK] in *. exact Ht.
  Qed.

  Lemma StrongLatest_InsertLatest l : StrongLatest l -> InsertLatest cmp l.
  Proof.
    induction l as [|x r IH]; intros H; [constructor|].
    cbn [StrongLatest] in H. destruct H as [Hh Hr].
    destruct r as [|y r']; [constructor|].
    constructor; [|apply IH; exact Hr].
    intros o n l eo en el -> ->. cbn [headOK pairOK] in Hh. exact Hh.
  Qed.

  (* ==================================================================== *)
  (* 1. Compact: the Insert pass                                           *)
  (* ==================================================================== *)
  Variable repair : bool.

  (* ---- the way up ---- *)
  Lemma up_step_RSL z r :
    up_step cmp repair z = Ok r -> RSL (zbef z) -> RSL (zbef (zof r)).
  Proof.
    intros Hstep Hb. destruct z as [[bef this] aft]. cbn [zbef] in Hb.
    destruct bef as [|prev bef']; [cbn [up_step] in Hstep; injection Hstep as <-; exact Hb|].
    assert (Hb' : RSL bef') by (eapply RSL_tail; exact Hb).
    destruct this as [to tn tl|to tl tn|to tn tl|to tol tn tnl];
      try (cbn [up_step op_tag] in Hstep; discriminate);
      (destruct prev as [po pn pl|po pl pn|po pn pl|po pol pn pnl];
       try (cbn [up_step op_tag] in Hstep; discriminate)).
    - rewrite up_step_del_eq in Hstep.
      destruct (op_is_empty (Equal po pn pl)); injection Hstep as <-; cbn [zof zbef]; assumption.
    - cbn [up_step op_tag] in Hstep. injection Hstep as <-. exact Hb'.
    - cbn [up_step op_tag] in Hstep. fold (swap_pair repair (Delete to tl tn) (Insert po pn pl)) in Hstep.
      destruct (swap_pair repair (Delete to tl tn) (Insert po pn pl)) as [this1 prev1].
      injection Hstep as <-. exact Hb'.
    - rewrite up_step_ins_eq in Hstep.
      apply bind_ok_inv in Hstep. destruct Hstep as (s & _ & Hstep).
      destruct (0 <? s).
      + apply bind_ok_inv in Hstep. destruct Hstep as (aft1 & _ & Hstep).
        apply bind_ok_inv in Hstep. destruct Hstep as (io' & _ & Hstep).
        apply bind_ok_inv in Hstep. destruct Hstep as (inn' & _ & Hstep).
        apply bind_ok_inv in Hstep. destruct Hstep as (l' & _ & Hstep).
        injection Hstep as <-. cbn [zof zbef]. eapply RSL_push_ne_equal; exact Hb.
      + destruct (op_is_empty (Equal po pn pl)); injection Hstep as <-; cbn [zof zbef]; assumption.
    - cbn [up_step op_tag] in Hstep. fold (swap_pair repair (Insert to tn tl) (Delete po pl pn)) in Hstep.
      destruct (swap_pair repair (Insert to tn tl) (Delete po pl pn)) as [this1 prev1].
      injection Hstep as <-. exact Hb'.
    - cbn [up_step op_tag] in Hstep. injection Hstep as <-. exact Hb'.
  Qed.

  (* the way up stops at the start of the list or behind an Equal *)
  Lemma up_step_break_ins z z' :
    op_tag (zthis z) = TInsert -> up_step cmp repair z = Ok (Break z') ->
    z' = z /\ NotInsHead (zbef z).
  Proof.
    intros Ht Hstep. destruct z as [[bef this] aft]. cbn [zthis zbef] in *.
    destruct bef as [|prev bef']; [cbn [up_step] in Hstep; injection Hstep as <-; split; [reflexivity|exact I]|].
    destruct this as [to tn tl|to tl tn|to tn tl|to tol tn tnl]; try discriminate.
    destruct prev as [po pn pl|po pl pn|po pn pl|po pol pn pnl];
      try (cbn [up_step op_tag] in Hstep; discriminate).
    - rewrite up_step_ins_eq in Hstep.
      apply bind_ok_inv in Hstep. destruct Hstep as (s & _ & Hstep).
      destruct (0 <? s).
      + apply bind_ok_inv in Hstep. destruct Hstep as (aft1 & _ & Hstep).
        apply bind_ok_inv in Hstep. destruct Hstep as (io' & _ & Hstep).
        apply bind_ok_inv in Hstep. destruct Hstep as (inn' & _ & Hstep).
        apply bind_ok_inv in Hstep. destruct Hstep as (l' & _ & Hstep).
        discriminate.
      + destruct (op_is_empty (Equal po pn pl)); [discriminate|].
        injection Hstep as <-. split; [reflexivity|exact I].
    - cbn [up_step op_tag] in Hstep. fold (swap_pair repair (Insert to tn tl) (Delete po pl pn)) in Hstep.
      destruct (swap_pair repair (Insert to tn tl) (Delete po pl pn)) as [this1 prev1]. discriminate.
  Qed.

  (* ---- the way down ---- *)
  Lemma down_step_RSL z r :
    op_tag (zthis z) = TInsert -> down_step cmp repair z = Ok r ->
    RSL (zbef z) /\ NotInsHead (zbef z) ->
    RSL (zbef (zof r)) /\ NotInsHead (zbef (zof r)).
  Proof.
    intros Ht Hstep [Hb Hn]. destruct z as [[bef this] aft]. cbn [zthis zbef] in *.
    destruct aft as [|next aft']; [cbn [down_step] in Hstep; injection Hstep as <-; split; assumption|].
    destruct this as [to tn tl|to tl tn|to tn tl|to tol tn tnl]; try discriminate.
    destruct next as [xo xn xl|xo xl xn|xo xn xl|xo xol xn xnl];
      try (cbn [down_step op_tag] in Hstep; discriminate).
    - rewrite down_step_ins_eq in Hstep.
      apply bind_ok_inv in Hstep. destruct Hstep as (p & _ & Hstep).
      destruct (0 <? p).
      + apply bind_ok_inv in Hstep. destruct Hstep as (l' & _ & Hstep).
        injection Hstep as <-. cbn [zof zbef].
        destruct (down_bef1_cases xo tn p bef) as [(po & pn & pl & bef' & -> & ->)| ->].
        * split; [eapply RSL_equal; exact Hb|exact I].
        * split; [apply RSL_push_notins; assumption|exact I].
      + destruct (op_is_empty (Equal xo xn xl)); injection Hstep as <-; cbn [zof zbef]; split; assumption.
    - cbn [down_step op_tag] in Hstep. fold (swap_pair repair (Delete xo xl xn) (Insert to tn tl)) in Hstep.
      destruct (swap_pair_DI_shape repair to tn tl xo xl xn) as (io' & dn' & Esw). rewrite Esw in Hstep.
      injection Hstep as <-. cbn [zof zbef]. split; [apply RSL_push_notins; assumption|exact I].
    - cbn [down_step op_tag] in Hstep. injection Hstep as <-. cbn [zof zbef]. split; assumption.
  Qed.

  (* the way down stops at the end of the list, or in front of an Equal whose
     first old item differs from the first inserted item *)
  Lemma down_step_break_ins bef io inn il aft z' :
    0 < il -> down_step cmp repair (bef, Insert io inn il, aft) = Ok (Break z') ->
    z' = (bef, Insert io inn il, aft) /\ headOK (Insert io inn il) aft.
  Proof.
    intros Hil Hstep.
    destruct aft as [|next aft']; [cbn [down_step] in Hstep; injection Hstep as <-; split; [reflexivity|exact I]|].
    destruct next as [xo xn xl|xo xl xn|xo xn xl|xo xol xn xnl];
      try (cbn [down_step op_tag] in Hstep; discriminate).
    - rewrite down_step_ins_eq in Hstep.
      apply bind_ok_inv in Hstep. destruct Hstep as (p & Hp & Hstep).
      apply common_prefix_len_spec in Hp. destruct Hp as (_ & _ & _ & Hstop).
      destruct (0 <? p) eqn:E0.
      + apply bind_ok_inv in Hstep. destruct Hstep as (l' & _ & Hstep). discriminate.
      + apply Nat.ltb_ge in E0. assert (p = 0) by lia. subst p.
        destruct (op_is_empty (Equal xo xn xl)) eqn:Ee; [discriminate|].
        injection Hstep as <-. split; [reflexivity|].
        apply empty_op_false in Ee; [|discriminate]. cbn [NonEmptyOp] in Ee.
        cbn [headOK pairOK]. rewrite !Nat.add_0_r in Hstop. apply Hstop; lia.
    - cbn [down_step op_tag] in Hstep. fold (swap_pair repair (Delete xo xl xn) (Insert io inn il)) in Hstep.
      destruct (swap_pair repair (Delete xo xl xn) (Insert io inn il)) as [next1 this1]. discriminate.
  Qed.

  (* ---- one shift_up ; shift_down round on an Insert ---- *)
  Variables os oe ns ne b : nat.
  Variables Dt It : nat.
  Notation ZI := (ZInv cmp os oe ns ne b Loose Dt It).

  Lemma ZInv_this_nonempty bef this aft : ZI (bef, this, aft) -> NonEmptyOp this.
  Proof. intros H. apply ZInv_iff in H. apply H. Qed.

  Lemma shift_round_RSL z zu zd :
    ZI z -> op_tag (zthis z) = TInsert -> RSL (zbef z) ->
    shift_up cmp repair z = Ok zu -> shift_down cmp repair zu = Ok zd ->
    ZI zd /\ RSL (zthis zd :: zbef zd) /\ headOK (zthis zd) (zaft zd).
  Proof.
    intros Hz Ht Hb Hu Hd.
    (* up *)
    unfold shift_up in Hu.
    destruct (run_steps_exit (fun z0 => ZI z0 /\ op_tag (zthis z0) = TInsert /\ RSL (zbef z0))
                (up_step cmp repair)) with (fuel := inner_fuel z) (z := z) (z' := zu)
      as (z0 & (Hz0 & Ht0 & Hb0) & Hbrk); [| |exact Hu|].
    { intros z1 r (Hz1 & Ht1 & Hb1) Hr. split; [|split].
      - eapply up_step_inv; [apply compat_loose|exact Hz1|exact Hr].
      - rewrite (up_step_tag _ _ _ _ Hr). exact Ht1.
      - eapply up_step_RSL; eassumption. }
    { split; [exact Hz|split; assumption]. }
    destruct (up_step_break_ins _ _ Ht0 Hbrk) as [-> Hn0].
    (* down *)
    unfold shift_down in Hd.
    destruct (run_steps_exit (fun z1 => ZI z1 /\ op_tag (zthis z1) = TInsert /\
                                         (RSL (zbef z1) /\ NotInsHead (zbef z1)))
                (down_step cmp repair)) with (fuel := inner_fuel z0) (z := z0) (z' := zd)
      as (z1 & (Hz1 & Ht1 & Hb1 & Hn1) & Hbrk1); [| |exact Hd|].
    { intros z1 r (Hz1 & Ht1 & Hb1) Hr. split; [|split].
      - eapply down_step_inv; [apply compat_loose|exact Hz1|exact Hr].
      - rewrite (down_step_tag _ _ _ _ Hr). exact Ht1.
      - eapply down_step_RSL; eassumption. }
    { split; [exact Hz0|split; [exact Ht0|split; assumption]]. }
    destruct z1 as [[b1 t1] a1]. cbn [zthis zbef] in *.
    destruct t1 as [to tn tl|to tl tn|to tn tl|to tol tn tnl]; try discriminate.
    assert (Hne := ZInv_this_nonempty _ _ _ Hz1). cbn [NonEmptyOp] in Hne.
    destruct (down_step_break_ins _ _ _ _ _ _ Hne Hbrk1) as [-> Hh].
    cbn [zthis zbef zaft]. split; [exact Hz1|split; [|exact Hh]].
    apply RSL_push_notins; assumption.
  Qed.

  (* ---- the Insert pass ---- *)
  Lemma tag_match_insert x : tag_match TInsert x = true -> op_tag x = TInsert.
  Proof. unfold tag_match. destruct x; cbn [op_tag]; intros H; try discriminate; reflexivity. Qed.
  Lemma tag_match_not_insert x : tag_match TInsert x = false -> op_tag x <> TInsert.
  Proof. unfold tag_match. destruct x; cbn [op_tag]; intros H; try discriminate. Qed.

  Lemma pass_insert_strong : forall fuel z l',
    ZI z -> RSL (zthis z :: zbef z) ->
    pass cmp repair TInsert fuel z = Ok l' -> StrongLatest l'.
  Proof.
    induction fuel as [|fuel IH]; intros z l' Hz Hr H; [discriminate|].
    destruct z as [[bef this] aft]. cbn [zthis zbef] in Hr. rewrite pass_unfold in H.
    apply bind_ok_inv in H. destruct H as (z1 & Hz1 & H).
    assert (Hinv : ZI z1 /\ RSL (zthis z1 :: zbef z1) /\ headOK (zthis z1) (zaft z1)).
    { destruct (tag_match TInsert this) eqn:Et.
      - apply bind_ok_inv in Hz1. destruct Hz1 as (zu & Hu & Hd).
        apply (shift_round_RSL (bef, this, aft) zu z1); try assumption.
        + apply tag_match_insert. exact Et.
        + eapply RSL_tail. exact Hr.
      - injection Hz1 as <-. cbn [zthis zbef zaft]. split; [exact Hz|split; [exact Hr|]].
        destruct aft as [|nx aft']; [exact I|]. cbn [headOK].
        apply pairOK_notins. apply tag_match_not_insert. exact Et. }
    destruct Hinv as (Hz1' & Hr1 & Hh1).
    destruct z1 as [[b1 t1] a1]. cbn [zaft zthis zbef] in *.
    destruct a1 as [|nx a1'].
    - injection H as <-.
      assert (Hs := RSL_StrongLatest (t1 :: b1) [] Hr1 I I).
      rewrite app_nil_r in Hs. exact Hs.
    - eapply IH; [|  |exact H].
      + unfold ZInv. rewrite zlist_advance. exact Hz1'.
      + cbn [zthis zbef]. change (RSL (nx :: t1 :: b1)) with (tailOK (t1 :: b1) nx /\ RSL (t1 :: b1)).
        split; [exact Hh1|exact Hr1].
  Qed.

  Lemma run_pass_insert_strong l l' :
    Proofs.Compact.LInv cmp os oe ns ne b Loose Dt It l ->
    run_pass cmp repair TInsert l = Ok l' -> StrongLatest l'.
  Proof.
    intros Hl H. destruct l as [|x r]; cbn [run_pass] in H.
    - injection H as <-. exact I.
    - eapply pass_insert_strong; [|  |exact H].
      + exact Hl.
      + cbn [zthis zbef RSL tailOK]. tauto.
  Qed.

  Lemma cleanup_strong_inv l l' :
    Proofs.Compact.LInv cmp os oe ns ne b Loose Dt It l ->
    cleanup_diff_ops cmp repair l = Ok l' -> StrongLatest l'.
  Proof.
    intros Hl H. unfold cleanup_diff_ops in H.
    apply bind_ok_inv in H. destruct H as (l1 & H1 & H2).
    eapply run_pass_insert_strong; [|exact H2].
    eapply run_pass_inv; [apply compat_loose|exact Hl|exact H1].
  Qed.
End Strong.

(* ---- goal 1 ---- *)
Theorem cleanup_strong_latest cmp repair os oe ns ne ops ops' :
  OpsLoose cmp os oe ns ne ops ->
  Forall NonEmptyOp ops ->
  Forall (fun x => op_tag x <> TReplace) ops ->
  cleanup_diff_ops cmp repair ops = Ok ops' ->
  StrongLatest cmp ops'.
Proof.
  intros Hw Hne Hnr Hc.
  assert (Hl : Proofs.Compact.LInv cmp os oe ns ne 0 Loose (dtot ops) (itot ops) ops).
  { eapply LInv_of_walk; try eassumption; discriminate. }
  eapply cleanup_strong_inv; eassumption.
Qed.

Theorem cleanup_insert_latest cmp repair os oe ns ne ops ops' :
  OpsLoose cmp os oe ns ne ops ->
  Forall NonEmptyOp ops ->
  Forall (fun x => op_tag x <> TReplace) ops ->
  cleanup_diff_ops cmp repair ops = Ok ops' ->
  InsertLatest cmp ops'.
Proof.
  intros Hw Hne Hnr Hc. apply StrongLatest_InsertLatest.
  eapply cleanup_strong_latest; eassumption.
Qed.

(* the non-emptiness premise cannot be dropped: an empty Insert never slides *)
Definition il_cx_cmp : cmpf := fun i j => if (i <? 1) && (j <? 1) then Ok true else Panic.
Lemma cleanup_insert_latest_needs_nonempty :
  OpsLoose il_cx_cmp 0 1 0 1 [Insert 0 0 0; Equal 0 0 1] /\
  cleanup_diff_ops il_cx_cmp false [Insert 0 0 0; Equal 0 0 1] = Ok [Insert 0 0 0; Equal 0 0 1] /\
  ~ InsertLatest il_cx_cmp [Insert 0 0 0; Equal 0 0 1].
Proof.
  split; [|split].
  - apply (OW_ins il_cx_cmp false 1 1 0 0 0 0); [discriminate|lia|].
    apply (OW_eq il_cx_cmp false 1 1 0 0 1).
    + intros t Ht. assert (t = 0) by lia. subst t. reflexivity.
    + apply OW_nil.
  - vm_compute. reflexivity.
  - intros H. inversion H as [| |x y r Hxy _]; subst.
    specialize (Hxy _ _ _ _ _ _ eq_refl eq_refl). vm_compute in Hxy. discriminate.
Qed.

(* ====================================================================== *)
(* 2. Replace                                                              *)
(* ====================================================================== *)
Section ReplaceStrong.
  Variable cmp : cmpf.

  Lemma cc_app a c : capture_calls (a ++ c) = capture_calls a ++ capture_calls c.
  Proof.
    induction a as [|x a IH]; [reflexivity|]. cbn [app capture_calls].
    destruct (call_to_op x); cbn [app]; rewrite IH; reflexivity.
  Qed.

  (* the ops captured behind Replace when it is fed [ops] then finish,
     starting in pending state [s] *)
  Definition rout (s : rstate) (ops : list op) : list op :=
    capture_calls (fst (replace_trace false (map op_to_call ops ++ [CFin]) s)).

  Lemma rout_start ops : rout rstate0 ops = capture_calls (replace_ops_out ops).
  Proof. reflexivity. Qed.

  Lemma rout_cons s x r o1 s1 :
    replace_step false (op_to_call x) s = (o1, Some s1) ->
    rout s (x :: r) = capture_calls o1 ++ rout s1 r.
  Proof.
    intros H. unfold rout. cbn [map app replace_trace]. rewrite H.
    destruct (replace_trace false (map op_to_call r ++ [CFin]) s1) as [o2 rr]. cbn [fst].
    apply cc_app.
  Qed.

  Lemma rout_nil s o1 s1 :
    replace_step false CFin s = (o1, Some s1) -> rout s [] = capture_calls o1.
  Proof.
    intros H. unfold rout. cbn [map app replace_trace]. rewrite H. cbn [fst].
    rewrite app_nil_r. reflexivity.
  Qed.

  Ltac rstep :=
    match goal with
    | |- context [rout ?s (?x :: ?r)] =>
        rewrite (rout_cons s x r _ _ eq_refl); cbn [capture_calls call_to_op app r_del r_ins r_eq]
    | |- context [rout ?s []] =>
        rewrite (rout_nil s _ _ eq_refl); cbn [capture_calls call_to_op app r_del r_ins r_eq]
    end.

  (* a pending Equal comes out first, possibly longer *)
  Lemma rout_pending_eq ops : forall eo en el,
    exists l' r, rout (Build_rstate None None (Some (eo, en, el))) ops = Equal eo en l' :: r.
  Proof.
    induction ops as [|x r IH]; intros eo en el.
    - rstep. eexists; eexists; reflexivity.
    - destruct x as [o n l|o l n|o n l|o ol n nl]; rstep.
      + apply IH.
      + eexists; eexists; reflexivity.
      + eexists; eexists; reflexivity.
      + eexists; eexists; reflexivity.
  Qed.

  Lemma IL_cons_notins x l :
    (forall o n k, x <> Insert o n k) -> InsertLatest cmp l -> InsertLatest cmp (x :: l).
  Proof.
    intros Hx Hl. destruct l as [|y r]; [constructor|].
    constructor; [|exact Hl]. intros o n k eo en el E. exfalso. exact (Hx _ _ _ E).
  Qed.

  (* pending states that occur while Replace reads a StrongLatest list whose
     remaining part is [ops] *)
  Inductive St (ops : list op) : rstate -> Prop :=
  | St_none : St ops (Build_rstate None None None)
  | St_eq e : St ops (Build_rstate None None (Some e))
  | St_del d : St ops (Build_rstate (Some d) None None)
  | St_ins io inn il :
      headOK cmp (Insert io inn il) ops ->
      St ops (Build_rstate None (Some (io, inn, il)) None)
  | St_both d i : St ops (Build_rstate (Some d) (Some i) None).

  Lemma rout_insert_latest : forall ops,
    StrongLatest cmp ops -> Forall NoRepOp ops ->
    forall s, St ops s -> InsertLatest cmp (rout s ops).
  Proof.
    induction ops as [|x r IH]; intros Hsl Hnr s Hst.
    - destruct Hst as [|[[eo en] el]|[[dO dl] dn]|io inn il Hh|[[dO dl] dn] [[io inn] il]];
        rstep; constructor.
    - cbn [StrongLatest] in Hsl. destruct Hsl as [Hh Hsl].
      apply Forall_cons_iff in Hnr. destruct Hnr as [Hx Hnr].
      specialize (IH Hsl Hnr).
      destruct x as [o n l|o l n|o n l|o ol n nl]; [| | |exfalso; apply Hx; reflexivity].
      + (* Equal arrives *)
        destruct Hst as [|[[eo en] el]|[[dO dl] dn]|io inn il Hi|[[dO dl] dn] [[io inn] il]]; rstep.
        * apply IH. constructor.
        * apply IH. constructor.
        * apply IL_cons_notins; [discriminate|]. apply IH. constructor.
        * cbn [headOK pairOK] in Hi.
          assert (Hrest := IH _ (St_eq r (o, n, l))).
          destruct (rout_pending_eq r o n l) as (l' & r' & E). rewrite E in *.
          constructor; [|exact Hrest].
          intros o0 n0 k0 eo en el E1 E2. injection E1 as _ <- _. injection E2 as <- _ _. exact Hi.
        * apply IL_cons_notins; [discriminate|]. apply IH. constructor.
      + (* Delete arrives *)
        destruct Hst as [|[[eo en] el]|[[dO dl] dn]|io inn il Hi|[[dO dl] dn] [[io inn] il]];
          try (cbn [headOK pairOK] in Hi; contradiction); rstep.
        * apply IH. constructor.
        * apply IL_cons_notins; [discriminate|]. apply IH. constructor.
        * apply IH. constructor.
        * apply IH. constructor.
      + (* Insert arrives: what follows it is the end or a differing Equal *)
        destruct Hst as [|[[eo en] el]|[[dO dl] dn]|io inn il Hi|[[dO dl] dn] [[io inn] il]];
          try (cbn [headOK pairOK] in Hi; contradiction); rstep.
        * apply IH. constructor. exact Hh.
        * apply IL_cons_notins; [discriminate|]. apply IH. constructor. exact Hh.
        * apply IH. constructor.
        * apply IH. constructor.
  Qed.

  Theorem replace_strong_insert_latest ops :
    StrongLatest cmp ops -> Forall NoRepOp ops ->
    InsertLatest cmp (capture_calls (replace_ops_out ops)).
  Proof.
    intros Hsl Hnr. rewrite <- rout_start. apply rout_insert_latest; try assumption. constructor.
  Qed.
End ReplaceStrong.

(* ====================================================================== *)
(* 3. Compact + Replace on an arbitrary valid script                       *)
(* ====================================================================== *)

(* pure form: Replace's output on Compact's output *)
Theorem compact_replace_normal_form cmp repair os oe ns ne ops ops' :
  OpsLoose cmp os oe ns ne ops ->
  Forall NonEmptyOp ops ->
  Forall (fun x => op_tag x <> TReplace) ops ->
  cleanup_diff_ops cmp repair ops = Ok ops' ->
  OpsLoose cmp os oe ns ne (capture_calls (replace_ops_out ops')) /\
  NormalForm cmp (capture_calls (replace_ops_out ops')).
Proof.
  intros Hw Hne Hnr Hc.
  destruct (compact_preserves_loose cmp repair os oe ns ne _ _ Hw Hne Hnr Hc)
    as (Hw' & Hne' & Hnr' & _).
  destruct (replace_loose cmp os oe ns ne ops' Hw' Hne' Hnr') as (_ & _ & H3 & H4 & _).
  split; [exact H3|]. split; [exact H4|].
  apply replace_strong_insert_latest; [|exact Hnr'].
  exact (cleanup_strong_latest cmp repair os oe ns ne ops ops' Hw Hne Hnr Hc).
Qed.

(* pipeline_ops (Proofs/Pipeline.v) of a raw walk *)
Theorem pipeline_ops_normal_form cmp repair os oe ns ne body ops :
  RawWalk cmp oe ne os ns os body ->
  pipeline_ops cmp repair body = Ok ops ->
  OpsLoose cmp os oe ns ne ops /\ NormalForm cmp ops.
Proof.
  intros Hraw H. unfold pipeline_ops in H.
  apply bind_ok_inv in H. destruct H as (ops' & Hc & H). injection H as <-.
  destruct (raw_ops cmp oe ne os ns os body Hraw) as (Hw & Hne & Hnr).
  eapply compact_replace_normal_form; eassumption.
Qed.

(* the hook stack Compact(Replace(recording hook)) fed with ANY loosely valid
   script (equal/delete/insert calls, no empty call) followed by finish: if
   the run succeeds, Compact's buffer holds the cleaned ops, Replace is fully
   flushed, and the calls that reached the recording hook are, in order, a
   loosely valid script in normal form -- alternating, and every Insert that
   is followed by an Equal sits at its latest position *)
Theorem pipeline_insert_latest cmp repair dl dbg os oe ns ne body w0 st :
  Forall edit_call body ->
  OpsLoose cmp os oe ns ne (capture_calls body) ->
  Forall NonEmptyOp (capture_calls body) ->
  emit_all (compact_world (replace_world (plain_world dl) dbg) cmp repair)
           (body ++ [CFin]) ([], (rstate0, w0)) = Ok st ->
  exists ops' out,
    cleanup_diff_ops cmp repair (capture_calls body) = Ok ops' /\
    out = replace_ops_out ops' /\
    st = (rev ops', (rstate0, {| p_ctr := p_ctr w0; p_log := rev out ++ p_log w0 |})) /\
    plain_calls (snd (snd st)) = plain_calls w0 ++ out /\
    FinishLast out /\
    OpsLoose cmp os oe ns ne (capture_calls out) /\
    Alternating (capture_calls out) /\
    InsertLatest cmp (capture_calls out) /\
    StrongLatest cmp ops'.
Proof.
  intros Hb Hw Hne Hrun.
  assert (Hnr : Forall NoRepOp (capture_calls body)).
  { apply edit_calls_norep. revert Hb. apply Forall_impl. intros c. destruct c; exact (fun H => H). }
  rewrite (compact_hook_spec (replace_world (plain_world dl) dbg) cmp repair body (rstate0, w0) Hb) in Hrun.
  destruct (cleanup_diff_ops cmp repair (capture_calls body)) as [ops'| |] eqn:Hc; try discriminate.
  destruct (compact_preserves_loose cmp repair os oe ns ne _ _ Hw Hne Hnr Hc)
    as (Hw' & Hne' & Hnr' & _).
  rewrite (replace_loose_plain cmp false os oe ns ne ops' Hw' Hne' Hnr' dl dbg w0) in Hrun.
  injection Hrun as <-.
  destruct (replace_loose cmp os oe ns ne ops' Hw' Hne' Hnr') as (_ & H2 & H3 & H4 & _).
  assert (Hsl : StrongLatest cmp ops')
    by exact (cleanup_strong_latest cmp repair os oe ns ne _ ops' Hw Hne Hnr Hc).
  exists ops', (replace_ops_out ops'). repeat split; try assumption.
  - cbn [snd]. unfold plain_calls. cbn [p_log]. rewrite rev_app_distr, rev_involutive. reflexivity.
  - apply replace_strong_insert_latest; assumption.
Qed.

(* ====================================================================== *)
(* 4. capture_diff: every algorithm, every clock, both builds, both        *)
(*    settings of the repair switch                                        *)
(* ====================================================================== *)
Theorem capture_insert_latest alg dl dbg repair orc os oe ns ne ops c :
  capture_diff alg dl dbg repair orc os oe ns ne = Ok (ops, c) ->
  os <= oe -> ns <= ne -> CmpTotal (o_on orc) os oe ns ne ->
  InsertLatest (o_on orc) ops.
Proof.
  intros H Ho Hn Htot.
  destruct (CaptureRaw_all alg dl dbg repair orc os oe ns ne ops c Ho Hn Htot H) as (body & Hwalk & Hp).
  exact (proj2 (proj2 (pipeline_ops_normal_form _ _ _ _ _ _ _ _ Hwalk Hp))).
Qed.

Theorem capture_normal_form alg dl dbg repair orc os oe ns ne ops c :
  capture_diff alg dl dbg repair orc os oe ns ne = Ok (ops, c) ->
  os <= oe -> ns <= ne -> CmpTotal (o_on orc) os oe ns ne ->
  NormalForm (o_on orc) ops.
Proof.
  intros H Ho Hn Htot.
  destruct (CaptureRaw_all alg dl dbg repair orc os oe ns ne ops c Ho Hn Htot H) as (body & Hwalk & Hp).
  exact (proj2 (pipeline_ops_normal_form _ _ _ _ _ _ _ _ Hwalk Hp)).
Qed.

(* the extracted checker accepts every captured op list *)
Corollary capture_check_normal alg dl dbg repair orc os oe ns ne ops c :
  capture_diff alg dl dbg repair orc os oe ns ne = Ok (ops, c) ->
  os <= oe -> ns <= ne -> CmpTotal (o_on orc) os oe ns ne ->
  check_normal (o_on orc) ops = true.
Proof. intros H Ho Hn Htot. apply check_normal_spec. eapply capture_normal_form; eassumption. Qed.

Print Assumptions cleanup_strong_latest.
Print Assumptions cleanup_insert_latest.
Print Assumptions replace_strong_insert_latest.
Print Assumptions compact_replace_normal_form.
Print Assumptions pipeline_ops_normal_form.
Print Assumptions pipeline_insert_latest.
Print Assumptions capture_insert_latest.
Print Assumptions capture_normal_form.
