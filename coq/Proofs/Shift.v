(* Proofs/Shift.v -- C01, "all reported indices are absolute positions in the
   caller's sequences": diffing a sub-range equals diffing the extracted
   slices, shifted by the range starts.

   Main theorems (every algorithm, every clock, both build modes, with and
   without the repair switch; equal Ok / Panic / OutOfFuel outcomes, equal
   calls / ops, equal counters):
     raw_shift       raw_trace on os..oe / ns..ne  =  raw_trace with the shifted
                     oracles on 0..oe-os / 0..ne-ns, calls mapped by shift_call
     capture_shift   the same for capture_diff, ops mapped by shift_op
     raw_shift_ext / capture_shift_ext   any box (a,b) x (c,d) shifted by
                     (os,ns), any two oracle triples related pointwise by the
                     shift ([OrcShift]; no functional extensionality)
     raw_shift_slices / capture_shift_slices   instance for item lists: the
                     caller's lists versus their tails skipn os / skipn ns.

   Part 1 (sections ScanShift, ShiftHom, UniqueShift, PatienceShift,
   PatienceDiffShift, DiffShift).  A homomorphism g from the states of a
   "local" world wdL into those of an "absolute" world wdA that turns a local
   call c into the absolute call [shift_call os0 ns0 c], together with
   comparison functions related by [cmpA (i + os0) (j + ns0) = cmpL i j],
   commutes with everything Myers, LCS and Patience do: running on the box
   shifted by (os0, ns0) in the absolute world = running on the box in the
   local world.  Nothing in the model depends on absolute positions: the V
   arrays hold box-relative x, fuels and max_d are computed from lengths, the
   LCS table is indexed relatively; [unique] returns absolute indices (the
   local run returns them shifted), and the checked subtractions [sub_chk oe s]
   in conquer / lcs_diff are safe on both sides because s is bounded by the
   scanned range.  Instance: the recording hook, g = map shift_call over the
   log ([raw_shift]).

   Part 2 (capture_diff).  See the comment at [tot_cmp]: Compact's cleanup
   does NOT commute with shifting on arbitrary op lists (checked subtractions
   on absolute indices); it does on the op lists the algorithms produce.
   Sections Mono / PatienceMono (a successful run is also a run under the
   totalised oracle), KM / CompactKM (three-way comparison of cleanup runs),
   ReplaceShift, then [capture_shift]. *)
From Similar Require Import Model.Base Model.Utils Model.Myers Model.Lcs Model.Hooks
  Model.Patience Model.Compact Model.Capture Model.TextDiff
  Spec.Script Spec.EditGraph Spec.SnakeSpec
  Proofs.Utils Proofs.Lcs Proofs.MyersSnake Proofs.WorldInv Proofs.MyersConquer Proofs.Replace
  Proofs.Patience Proofs.Pipeline Proofs.PatienceCapture.

Local Open Scope nat_scope.

(* ====================================================================== *)
(* Definitions                                                             *)
(* ====================================================================== *)

(* o_on compares an old index with a new index, o_oo two old indices, o_nn
   two new indices (Model/Capture.v) *)
Definition shift_cmp (cmp : cmpf) (a b : nat) : cmpf := fun i j => cmp (i + a) (j + b).

Definition shift_orc (orc : oracles) (os ns : nat) : oracles :=
  {| o_on := shift_cmp (o_on orc) os ns;
     o_oo := shift_cmp (o_oo orc) os os;
     o_nn := shift_cmp (o_nn orc) ns ns |}.

Definition shift_call (os ns : nat) (c : call) : call :=
  match c with
  | CEq o n l => CEq (o + os) (n + ns) l
  | CDel o l n => CDel (o + os) l (n + ns)
  | CIns o n l => CIns (o + os) (n + ns) l
  | CRep o ol n nl => CRep (o + os) ol (n + ns) nl
  | CFin => CFin
  end.

Definition shift_op (os ns : nat) (x : op) : op :=
  match x with
  | Equal o n l => Equal (o + os) (n + ns) l
  | Delete o l n => Delete (o + os) l (n + ns)
  | Insert o n l => Insert (o + os) (n + ns) l
  | Replace o ol n nl => Replace (o + os) ol (n + ns) nl
  end.

(* ====================================================================== *)
(* Arithmetic of shifted ranges                                            *)
(* ====================================================================== *)

Lemma sub_shift a b k : (b + k) - (a + k) = b - a.
Proof. lia. Qed.

Lemma leb_shift a b k : (b + k <=? a + k) = (b <=? a).
Proof.
  destruct (b <=? a) eqn:E.
  - apply Nat.leb_le in E. apply Nat.leb_le. lia.
  - apply Nat.leb_gt in E. apply Nat.leb_gt. lia.
Qed.

Lemma empty_range_shift a b k : empty_range (a + k) (b + k) = empty_range a b.
Proof. unfold empty_range. apply leb_shift. Qed.

Lemma add_swap a k x : a + k + x = a + x + k.
Proof. lia. Qed.

Lemma scan_cmps_shift a b c d k1 k2 len :
  scan_cmps (a + k1) (b + k1) (c + k2) (d + k2) len = scan_cmps a b c d len.
Proof. unfold scan_cmps. now rewrite !empty_range_shift, !sub_shift. Qed.

Lemma rmap_id {A} (r : res A) : rmap (fun x => x) r = r.
Proof. destruct r; reflexivity. Qed.

(* ====================================================================== *)
(* Scans                                                                   *)
(* ====================================================================== *)
Section ScanShift.
  Variables cmpA cmpL : cmpf.
  Variables os0 ns0 : nat.
  Hypothesis Hcmp : forall i j, cmpA (i + os0) (j + ns0) = cmpL i j.

  Lemma prefix_from_shift k : forall i j,
    prefix_from cmpA (i + os0) (j + ns0) k = prefix_from cmpL i j k.
  Proof.
    induction k as [|k IH]; intros i j; cbn [prefix_from]; [reflexivity|].
    rewrite Hcmp. destruct (cmpL i j) as [b| |]; cbn [bind]; try reflexivity.
    destruct b; [|reflexivity].
    change (S (i + os0)) with (S i + os0). change (S (j + ns0)) with (S j + ns0).
    now rewrite IH.
  Qed.

  Lemma common_prefix_len_shift a b c d :
    common_prefix_len cmpA (a + os0) (b + os0) (c + ns0) (d + ns0) =
    common_prefix_len cmpL a b c d.
  Proof.
    unfold common_prefix_len. rewrite !empty_range_shift, !sub_shift.
    destruct (empty_range a b || empty_range c d); [reflexivity|apply prefix_from_shift].
  Qed.

  Lemma suffix_from_shift k : forall oe ne, k <= oe -> k <= ne ->
    suffix_from cmpA (oe + os0) (ne + ns0) k = suffix_from cmpL oe ne k.
  Proof.
    induction k as [|k IH]; intros oe ne Ho Hn; cbn [suffix_from]; [reflexivity|].
    replace (oe + os0 - 1) with (oe - 1 + os0) by lia.
    replace (ne + ns0 - 1) with (ne - 1 + ns0) by lia.
    rewrite Hcmp. destruct (cmpL (oe - 1) (ne - 1)) as [b| |]; cbn [bind]; try reflexivity.
    destruct b; [|reflexivity]. rewrite IH by lia. reflexivity.
  Qed.

  Lemma common_suffix_len_shift a b c d :
    common_suffix_len cmpA (a + os0) (b + os0) (c + ns0) (d + ns0) =
    common_suffix_len cmpL a b c d.
  Proof.
    unfold common_suffix_len. rewrite !empty_range_shift, !sub_shift.
    destruct (empty_range a b || empty_range c d); [reflexivity|].
    apply suffix_from_shift.
    - etransitivity; [apply Nat.le_min_l|lia].
    - etransitivity; [apply Nat.le_min_r|lia].
  Qed.
End ScanShift.

(* ====================================================================== *)
(* The generic homomorphism                                                *)
(* ====================================================================== *)
Section ShiftHom.
  Context {WA WL : Type}.
  Variable wdA : world WA.
  Variable wdL : world WL.
  Variable g : WL -> WA.
  Variables os0 ns0 : nat.
  Variables cmpA cmpL : cmpf.
  Hypothesis g_tick : forall k w, tick wdA k (g w) = g (tick wdL k w).
  Hypothesis g_probe : forall w, probe wdA (g w) = (fst (probe wdL w), g (snd (probe wdL w))).
  Hypothesis g_emit : forall c w, emit wdA (shift_call os0 ns0 c) (g w) = rmap g (emit wdL c w).
  Hypothesis Hcmp : forall i j, cmpA (i + os0) (j + ns0) = cmpL i j.

  Definition shift_pt (p : nat * nat) : nat * nat := (fst p + os0, snd p + ns0).

  (* result maps *)
  Definition lift_pt {X} (p : option (nat * nat) * X * WL) : option (nat * nat) * X * WA :=
    (option_map shift_pt (fst (fst p)), snd (fst p), g (snd p)).

  Ltac pure1 :=
    match goal with
    | |- context [pick ?a ?b ?c] => destruct (pick a b c) as [?| |]
    | |- context [z_to_usize ?a] => destruct (z_to_usize a) as [?| |]
    | |- context [v_set ?a ?b ?c] => destruct (v_set a b c) as [?| |]
    | |- context [v_get ?a ?b] => destruct (v_get a b) as [?| |]
    | |- context [sub_chk ?a ?b] => destruct (sub_chk a b) as [?| |]
    | |- context [if ?b then _ else _] => destruct b
    end.

  Ltac hom_simpl := cbn [bind rmap lift lift_pt option_map fst snd]; rewrite ?g_tick.

  Lemma fwd_step_shift os oe ns ne d k vf vb w :
    fwd_step wdA cmpA (os + os0) (oe + os0) (ns + ns0) (ne + ns0) d k vf vb (g w) =
    rmap lift_pt (fwd_step wdL cmpL os oe ns ne d k vf vb w).
  Proof.
    unfold fwd_step. cbv zeta. rewrite !sub_shift.
    destruct (pick vf k d) as [x| |]; hom_simpl; try reflexivity.
    destruct (z_to_usize (Z.of_nat x - k)) as [y| |]; hom_simpl; try reflexivity.
    rewrite (add_swap os os0 x), (add_swap ns ns0 y).
    rewrite (common_prefix_len_shift cmpA cmpL os0 ns0 Hcmp).
    assert (Hpt : (x + (os + os0), y + (ns + ns0)) = shift_pt (x + os, y + ns)).
    { unfold shift_pt. cbn [fst snd]. f_equal; lia. }
    rewrite Hpt. clear Hpt.
    destruct ((x <? oe - os) && (y <? ne - ns)).
    - destruct (common_prefix_len cmpL (os + x) oe (ns + y) ne) as [adv| |]; hom_simpl; try reflexivity.
      rewrite scan_cmps_shift.
      repeat (hom_simpl; try reflexivity; pure1).
    - repeat (hom_simpl; try reflexivity; pure1).
  Qed.
  Lemma bwd_step_shift os oe ns ne d k vf vb w :
    bwd_step wdA cmpA (os + os0) (oe + os0) (ns + ns0) (ne + ns0) d k vf vb (g w) =
    rmap lift_pt (bwd_step wdL cmpL os oe ns ne d k vf vb w).
  Proof.
    unfold bwd_step. cbv zeta. rewrite !sub_shift.
    destruct (pick vb k d) as [x| |]; hom_simpl; try reflexivity.
    destruct (z_to_usize (Z.of_nat x - k)) as [y| |]; hom_simpl; try reflexivity.
    assert (Hpt : forall xr yr, (xr + (os + os0), yr + (ns + ns0)) = shift_pt (xr + os, yr + ns)).
    { intros xr yr. unfold shift_pt. cbn [fst snd]. f_equal; lia. }
    destruct ((x <? oe - os) && (y <? ne - ns)) eqn:E.
    - apply Bool.andb_true_iff in E. destruct E as [E1 E2].
      apply Nat.ltb_lt in E1. apply Nat.ltb_lt in E2.
      replace (os + os0 + (oe - os) - x) with (os + (oe - os) - x + os0) by lia.
      replace (ns + ns0 + (ne - ns) - y) with (ns + (ne - ns) - y + ns0) by lia.
      rewrite (common_suffix_len_shift cmpA cmpL os0 ns0 Hcmp).
      destruct (common_suffix_len cmpL os (os + (oe - os) - x) ns (ns + (ne - ns) - y))
        as [adv| |]; hom_simpl; try reflexivity.
      rewrite scan_cmps_shift.
      repeat (hom_simpl; rewrite ?Hpt; try reflexivity; pure1).
    - repeat (hom_simpl; rewrite ?Hpt; try reflexivity; pure1).
  Qed.

  Lemma fwd_loop_shift os oe ns ne cnt : forall d k vf vb w,
    fwd_loop wdA cmpA (os + os0) (oe + os0) (ns + ns0) (ne + ns0) cnt d k vf vb (g w) =
    rmap lift_pt (fwd_loop wdL cmpL os oe ns ne cnt d k vf vb w).
  Proof.
    induction cnt as [|cnt IH]; intros d k vf vb w; cbn [fwd_loop]; [reflexivity|].
    rewrite fwd_step_shift.
    destruct (fwd_step wdL cmpL os oe ns ne d k vf vb w) as [[[r vf1] w1]| |]; hom_simpl;
      try reflexivity.
    destruct r as [pt|]; [reflexivity|apply IH].
  Qed.

  Lemma bwd_loop_shift os oe ns ne cnt : forall d k vf vb w,
    bwd_loop wdA cmpA (os + os0) (oe + os0) (ns + ns0) (ne + ns0) cnt d k vf vb (g w) =
    rmap lift_pt (bwd_loop wdL cmpL os oe ns ne cnt d k vf vb w).
  Proof.
    induction cnt as [|cnt IH]; intros d k vf vb w; cbn [bwd_loop]; [reflexivity|].
    rewrite bwd_step_shift.
    destruct (bwd_step wdL cmpL os oe ns ne d k vf vb w) as [[[r vb1] w1]| |]; hom_simpl;
      try reflexivity.
    destruct r as [pt|]; [reflexivity|apply IH].
  Qed.

  Definition lift_pt2 (p : option (nat * nat) * V * V * WL) : option (nat * nat) * V * V * WA :=
    (option_map shift_pt (fst (fst (fst p))), snd (fst (fst p)), snd (fst p), g (snd p)).

  Lemma round_loop_shift os oe ns ne rounds : forall d vf vb w,
    round_loop wdA cmpA (os + os0) (oe + os0) (ns + ns0) (ne + ns0) rounds d vf vb (g w) =
    rmap lift_pt2 (round_loop wdL cmpL os oe ns ne rounds d vf vb w).
  Proof.
    induction rounds as [|rounds IH]; intros d vf vb w; cbn [round_loop]; [reflexivity|].
    rewrite g_probe. destruct (probe wdL w) as [ex w0]. cbn [fst snd].
    destruct ex; [reflexivity|].
    rewrite fwd_loop_shift.
    destruct (fwd_loop wdL cmpL os oe ns ne (S d) (Z.of_nat d) (Z.of_nat d) vf vb w0)
      as [[[r vf1] w1]| |]; hom_simpl; try reflexivity.
    destruct r as [pt|]; [reflexivity|].
    rewrite bwd_loop_shift.
    destruct (bwd_loop wdL cmpL os oe ns ne (S d) (Z.of_nat d) (Z.of_nat d) vf1 vb w1)
      as [[[r2 vb1] w2]| |]; hom_simpl; try reflexivity.
    destruct r2 as [pt|]; [reflexivity|apply IH].
  Qed.

  Lemma find_middle_snake_shift os oe ns ne vf vb w :
    find_middle_snake wdA cmpA (os + os0) (oe + os0) (ns + ns0) (ne + ns0) vf vb (g w) =
    rmap lift_pt2 (find_middle_snake wdL cmpL os oe ns ne vf vb w).
  Proof.
    unfold find_middle_snake. rewrite !sub_shift.
    destruct (v_set vf 1%Z 0) as [vf0| |]; hom_simpl; try reflexivity.
    destruct (v_set vb 1%Z 0) as [vb0| |]; hom_simpl; try reflexivity.
    destruct ((vlen vf0 <? max_d (oe - os) (ne - ns)) || (vlen vb0 <? max_d (oe - os) (ne - ns)));
      [reflexivity|apply round_loop_shift].
  Qed.
  (* ---- hook calls ---- *)
  Lemma g_emit_eq o n l w :
    emit wdA (CEq (o + os0) (n + ns0) l) (g w) = rmap g (emit wdL (CEq o n l) w).
  Proof. apply (g_emit (CEq o n l)). Qed.
  Lemma g_emit_del o l n w :
    emit wdA (CDel (o + os0) l (n + ns0)) (g w) = rmap g (emit wdL (CDel o l n) w).
  Proof. apply (g_emit (CDel o l n)). Qed.
  Lemma g_emit_ins o n l w :
    emit wdA (CIns (o + os0) (n + ns0) l) (g w) = rmap g (emit wdL (CIns o n l) w).
  Proof. apply (g_emit (CIns o n l)). Qed.
  Lemma g_emit_fin w : emit wdA CFin (g w) = rmap g (emit wdL CFin w).
  Proof. apply (g_emit CFin). Qed.

  Ltac emit1 :=
    match goal with
    | |- context [emit wdA (CEq (?o + os0) (?n + ns0) ?l) (g ?w)] =>
        rewrite (g_emit_eq o n l w); destruct (emit wdL (CEq o n l) w) as [?| |]
    | |- context [emit wdA (CDel (?o + os0) ?l (?n + ns0)) (g ?w)] =>
        rewrite (g_emit_del o l n w); destruct (emit wdL (CDel o l n) w) as [?| |]
    | |- context [emit wdA (CIns (?o + os0) (?n + ns0) ?l) (g ?w)] =>
        rewrite (g_emit_ins o n l w); destruct (emit wdL (CIns o n l) w) as [?| |]
    | |- context [emit wdA CFin (g ?w)] =>
        rewrite (g_emit_fin w); destruct (emit wdL CFin w) as [?| |]
    end.

  Definition lift3 {X} (p : X * WL) : X * WA := (fst p, g (snd p)).

  Ltac hs := cbn [bind rmap lift3 lift_pt2 option_map fst snd]; rewrite ?g_tick.

  Lemma conquer_shift fuel : forall os oe ns ne vf vb w,
    conquer wdA cmpA fuel (os + os0) (oe + os0) (ns + ns0) (ne + ns0) vf vb (g w) =
    rmap lift3 (conquer wdL cmpL fuel os oe ns ne vf vb w).
  Proof.
    induction fuel as [|fuel IH]; intros os oe ns ne vf vb w; cbn [conquer]; [reflexivity|].
    rewrite (common_prefix_len_shift cmpA cmpL os0 ns0 Hcmp).
    destruct (common_prefix_len cmpL os oe ns ne) as [p| |]; hs; try reflexivity.
    rewrite scan_cmps_shift.
    set (w0 := tick wdL (scan_cmps os oe ns ne p) w).
    assert (HP : (if 0 <? p then emit wdA (CEq (os + os0) (ns + ns0) p) (g w0) else Ok (g w0)) =
                 rmap g (if 0 <? p then emit wdL (CEq os ns p) w0 else Ok w0)).
    { destruct (0 <? p); [apply g_emit_eq|reflexivity]. }
    rewrite HP. clear HP.
    destruct (if 0 <? p then emit wdL (CEq os ns p) w0 else Ok w0) as [w1| |]; hs; try reflexivity.
    rewrite (add_swap os os0 p), (add_swap ns ns0 p).
    rewrite (common_suffix_len_shift cmpA cmpL os0 ns0 Hcmp).
    destruct (common_suffix_len cmpL (os + p) oe (ns + p) ne) as [s| |] eqn:Es; hs; try reflexivity.
    destruct (common_suffix_len_spec cmpL _ _ _ _ _ Es) as (Hs1 & Hs2 & _ & _).
    rewrite scan_cmps_shift.
    rewrite (sub_chk_le (oe + os0) s), (sub_chk_le oe s), (sub_chk_le (ne + ns0) s),
      (sub_chk_le ne s) by lia.
    hs.
    replace (oe + os0 - s) with (oe - s + os0) by lia.
    replace (ne + ns0 - s) with (ne - s + ns0) by lia.
    set (w2 := tick wdL (scan_cmps (os + p) oe (ns + p) ne s) w1).
    rewrite !empty_range_shift, !sub_shift.
    match goal with
    | |- bind ?m1 ?k1 = rmap _ (bind ?m2 ?k2) =>
        assert (HM : m1 = rmap lift3 m2)
    end.
    { destruct (empty_range (os + p) (oe - s) && empty_range (ns + p) (ne - s)); [reflexivity|].
      destruct (empty_range (ns + p) (ne - s)).
      { emit1; reflexivity. }
      destruct (empty_range (os + p) (oe - s)).
      { emit1; reflexivity. }
      rewrite find_middle_snake_shift.
      destruct (find_middle_snake wdL cmpL (os + p) (oe - s) (ns + p) (ne - s) vf vb w2)
        as [[[[r vf1] vb1] w3]| |]; hs; try reflexivity.
      destruct r as [[x y]|]; hs.
      - unfold shift_pt. cbn [fst snd]. rewrite IH.
        destruct (conquer wdL cmpL fuel (os + p) x (ns + p) y vf1 vb1 w3)
          as [[[vf2 vb2] w4]| |]; hs; try reflexivity.
        apply IH.
      - emit1; hs; try reflexivity. emit1; reflexivity. }
    rewrite HM. clear HM.
    match goal with
    | |- bind (rmap _ ?m2) _ = _ => destruct m2 as [[[vf1 vb1] w3]| |]
    end; hs; try reflexivity.
    destruct (0 <? s); [emit1; reflexivity|reflexivity].
  Qed.

  Lemma myers_diff_shift os oe ns ne w :
    myers_diff wdA cmpA (os + os0) (oe + os0) (ns + ns0) (ne + ns0) (g w) =
    rmap g (myers_diff wdL cmpL os oe ns ne w).
  Proof.
    unfold myers_diff, myers_fuel. rewrite !sub_shift, conquer_shift.
    match goal with |- context [conquer wdL ?a ?b ?c ?d ?e ?f ?x ?y ?z] =>
      destruct (conquer wdL a b c d e f x y z) as [[[vf vb] w1]| |] end; hs; try reflexivity.
    apply g_emit_fin.
  Qed.
  (* ---- LCS ---- *)
  Lemma table_row_shift ob nb i len : forall j nxt,
    table_row cmpA (ob + os0) (nb + ns0) i j len nxt = table_row cmpL ob nb i j len nxt.
  Proof.
    induction len as [|len IH]; intros j nxt; cbn [table_row]; [reflexivity|].
    rewrite IH. rewrite (add_swap ob os0 j), (add_swap nb ns0 i), Hcmp. reflexivity.
  Qed.

  Lemma table_rows_shift ob nb old_len cnt : forall i w,
    table_rows wdA cmpA (ob + os0) (nb + ns0) old_len i cnt (g w) =
    rmap lift3 (table_rows wdL cmpL ob nb old_len i cnt w).
  Proof.
    induction cnt as [|cnt IH]; intros i w; cbn [table_rows]; [reflexivity|].
    rewrite IH. destruct (table_rows wdL cmpL ob nb old_len (S i) cnt w) as [[r w1]| |];
      hs; try reflexivity.
    destruct r as [rest|]; [|reflexivity].
    rewrite g_probe. destruct (probe wdL w1) as [ex w2]. cbn [fst snd].
    destruct ex; [reflexivity|].
    rewrite table_row_shift.
    destruct (table_row cmpL ob nb i 0 old_len (hd [] rest)) as [rw| |]; hs; reflexivity.
  Qed.

  Lemma walk_shift t ob nb old_len new_len fuel : forall oi ni w,
    walk wdA cmpA fuel t (ob + os0) (nb + ns0) old_len new_len oi ni (g w) =
    rmap lift3 (walk wdL cmpL fuel t ob nb old_len new_len oi ni w).
  Proof.
    induction fuel as [|fuel IH]; intros oi ni w; cbn [walk]; [reflexivity|].
    destruct ((ni <? new_len) && (oi <? old_len)); [|reflexivity].
    rewrite (add_swap ob os0 oi), (add_swap nb ns0 ni), Hcmp.
    destruct (cmpL (ob + oi) (nb + ni)) as [b| |]; hs; try reflexivity.
    destruct b; [|destruct (tget t (S ni) oi <=? tget t ni (S oi))];
      emit1; hs; try reflexivity; apply IH.
  Qed.

  Lemma lcs_tail_shift os ns p s old_len new_len oi ni w :
    lcs_tail wdA (os + os0) (ns + ns0) p s old_len new_len oi ni (g w) =
    rmap g (lcs_tail wdL os ns p s old_len new_len oi ni w).
  Proof.
    unfold lcs_tail.
    rewrite (add_swap os os0 p), (add_swap ns ns0 p).
    rewrite (add_swap (os + p) os0 oi), (add_swap (ns + p) ns0 ni).
    rewrite (add_swap os os0 old_len), (add_swap (os + old_len) os0 p).
    rewrite (add_swap ns ns0 new_len), (add_swap (ns + new_len) ns0 p).
    destruct (oi <? old_len); [emit1|]; hs; try reflexivity.
    all: rewrite ?(add_swap (os + p) os0).
    all: destruct (ni <? new_len); [emit1|]; hs; try reflexivity.
    all: destruct (0 <? s); [emit1; hs; try reflexivity|]; apply g_emit_fin.
  Qed.

  Lemma lcs_diff_shift os oe ns ne w :
    lcs_diff wdA cmpA (os + os0) (oe + os0) (ns + ns0) (ne + ns0) (g w) =
    rmap g (lcs_diff wdL cmpL os oe ns ne w).
  Proof.
    rewrite !lcs_diff_unfold. rewrite !empty_range_shift, !sub_shift.
    destruct (empty_range ns ne).
    { destruct (empty_range os oe); [apply g_emit_fin|].
      emit1; hs; try reflexivity. apply g_emit_fin. }
    destruct (empty_range os oe).
    { emit1; hs; try reflexivity. apply g_emit_fin. }
    rewrite (common_prefix_len_shift cmpA cmpL os0 ns0 Hcmp).
    destruct (common_prefix_len cmpL os oe ns ne) as [p| |] eqn:Ep; hs; try reflexivity.
    destruct (common_prefix_len_spec cmpL _ _ _ _ _ Ep) as (Hp1 & Hp2 & _ & _).
    rewrite (add_swap os os0 p), (add_swap ns ns0 p).
    rewrite (common_suffix_len_shift cmpA cmpL os0 ns0 Hcmp).
    destruct (common_suffix_len cmpL (os + p) oe (ns + p) ne) as [s| |] eqn:Es; hs; try reflexivity.
    destruct (common_suffix_len_spec cmpL _ _ _ _ _ Es) as (Hs1 & Hs2 & _ & _).
    cbv zeta. rewrite !scan_cmps_shift, ?g_tick.
    destruct ((p =? oe - os) && (oe - os =? ne - ns)).
    { emit1; hs; try reflexivity. apply g_emit_fin. }
    unfold lcs_main.
    rewrite (sub_chk_le (oe + os0) s), (sub_chk_le oe s), (sub_chk_le (ne + ns0) s),
      (sub_chk_le ne s) by lia.
    hs.
    replace (oe + os0 - s) with (oe - s + os0) by lia.
    replace (ne + ns0 - s) with (ne - s + ns0) by lia.
    unfold make_table. rewrite (add_swap os os0 p), (add_swap ns ns0 p), !sub_shift, table_rows_shift.
    match goal with |- context [table_rows wdL ?a ?b ?c ?d ?e ?f ?x] =>
      destruct (table_rows wdL a b c d e f x) as [[mt w1]| |] end; hs; try reflexivity.
    destruct (sub_chk (ne - ns) p) as [nl0| |]; hs; try reflexivity.
    destruct (sub_chk nl0 s) as [new_len| |]; hs; try reflexivity.
    destruct (sub_chk (oe - os) p) as [ol0| |]; hs; try reflexivity.
    destruct (sub_chk ol0 s) as [old_len| |]; hs; try reflexivity.
    unfold lcs_emit. rewrite (add_swap os os0 p), (add_swap ns ns0 p).
    assert (HW : forall w2,
      (do '(old_idx, new_idx, w3) <- walk_or_not wdA cmpA mt (os + p + os0) (ns + p + ns0) old_len new_len (g w2);
       lcs_tail wdA (os + os0) (ns + ns0) p s old_len new_len old_idx new_idx w3) =
      rmap g (do '(old_idx, new_idx, w3) <- walk_or_not wdL cmpL mt (os + p) (ns + p) old_len new_len w2;
              lcs_tail wdL os ns p s old_len new_len old_idx new_idx w3)).
    { intros w2. unfold walk_or_not. destruct mt as [t|].
      - rewrite walk_shift.
        match goal with |- context [walk wdL ?a ?b ?c ?d ?e ?f ?x ?y ?z ?u] =>
          destruct (walk wdL a b c d e f x y z u) as [[[oi ni] w3]| |] end; hs; try reflexivity.
        apply lcs_tail_shift.
      - hs. apply lcs_tail_shift. }
    destruct (0 <? p); [emit1|]; hs; try reflexivity; apply HW.
  Qed.
End ShiftHom.

(* ====================================================================== *)
(* unique                                                                  *)
(* ====================================================================== *)
Lemma ltb_shift a b k : (a + k <? b + k) = (a <? b).
Proof. unfold Nat.ltb. change (S (a + k)) with (S a + k). apply leb_shift. Qed.

Section UniqueShift.
  Variables sameA sameL : cmpf.
  Variable k : nat.
  Hypothesis Hsame : forall i j, sameA (i + k) (j + k) = sameL i j.

  Lemma count_eq_shift len : forall i s,
    count_eq sameA (i + k) (s + k) len = count_eq sameL i s len.
  Proof.
    induction len as [|len IH]; intros i s; cbn [count_eq]; [reflexivity|].
    rewrite Hsame. change (S (s + k)) with (S s + k). rewrite IH. reflexivity.
  Qed.

  Lemma unique_from_shift s e len : forall i,
    unique_from sameA (s + k) (e + k) (i + k) len =
    rmap (map (fun x => x + k)) (unique_from sameL s e i len).
  Proof.
    induction len as [|len IH]; intros i; cbn [unique_from]; [reflexivity|].
    rewrite sub_shift, count_eq_shift.
    destruct (count_eq sameL i s (e - s)) as [c| |]; cbn [bind rmap]; try reflexivity.
    change (S (i + k)) with (S i + k). rewrite IH.
    destruct (unique_from sameL s e (S i) len) as [rest| |]; cbn [bind rmap]; try reflexivity.
    destruct (c =? 1); reflexivity.
  Qed.

  Lemma unique_shift s e :
    unique sameA (s + k) (e + k) = rmap (map (fun x => x + k)) (unique sameL s e).
  Proof. unfold unique. rewrite sub_shift. apply unique_from_shift. Qed.
End UniqueShift.

Lemma shift_call_0 c : shift_call 0 0 c = c.
Proof. destruct c; cbn [shift_call]; rewrite ?Nat.add_0_r; reflexivity. Qed.

(* ====================================================================== *)
(* Patience                                                                *)
(* ====================================================================== *)
Section PatienceShift.
  Context {WA WL : Type}.
  Variable wdA : world WA.
  Variable wdL : world WL.
  Variable g : WL -> WA.
  Variables os0 ns0 : nat.
  Variables cmpA cmpL : cmpf.
  Hypothesis g_tick : forall k w, tick wdA k (g w) = g (tick wdL k w).
  Hypothesis g_probe : forall w, probe wdA (g w) = (fst (probe wdL w), g (snd (probe wdL w))).
  Hypothesis g_emit : forall c w, emit wdA (shift_call os0 ns0 c) (g w) = rmap g (emit wdL c w).
  Hypothesis Hcmp : forall i j, cmpA (i + os0) (j + ns0) = cmpL i j.

  (* ---- NoFinishHook ---- *)
  Lemma nf_emit_shift c w :
    emit (no_finish wdA) (shift_call os0 ns0 c) (g w) = rmap g (emit (no_finish wdL) c w).
  Proof. destruct c; try exact (g_emit _ w). reflexivity. Qed.

  Lemma myers_nf_shift os oe ns ne w :
    myers_diff (no_finish wdA) cmpA (os + os0) (oe + os0) (ns + ns0) (ne + ns0) (g w) =
    rmap g (myers_diff (no_finish wdL) cmpL os oe ns ne w).
  Proof.
    apply (myers_diff_shift (no_finish wdA) (no_finish wdL) g os0 ns0 cmpA cmpL
             g_tick g_probe nf_emit_shift Hcmp).
  Qed.

  (* ---- Patience::equal ---- *)
  Definition lift_adv (r : nat * nat * WL) : nat * nat * WA :=
    (fst (fst r) + os0, snd (fst r) + ns0, g (snd r)).

  Lemma advance_shift fuel : forall oi ni oc nc w,
    advance wdA cmpA fuel (oi + os0) (ni + ns0) (oc + os0) (nc + ns0) (g w) =
    rmap lift_adv (advance wdL cmpL fuel oi ni oc nc w).
  Proof.
    induction fuel as [|fuel IH]; intros oi ni oc nc w; cbn [advance]; [reflexivity|].
    rewrite !ltb_shift.
    destruct ((oc <? oi) && (nc <? ni)); [|reflexivity].
    rewrite Hcmp. destruct (cmpL oc nc) as [b| |]; cbn [bind rmap]; try reflexivity.
    rewrite g_tick. destruct b; [|reflexivity].
    change (S (oc + os0)) with (S oc + os0). change (S (nc + ns0)) with (S nc + ns0). apply IH.
  Qed.

  Variables uo un : list nat.      (* the local unique lists *)
  Variables oe ne : nat.           (* the local range ends *)
  Let uoA := map (fun x => x + os0) uo.
  Let unA := map (fun x => x + ns0) un.
  Let PWA := patience_world wdA cmpA uoA unA (oe + os0) (ne + ns0).
  Let PWL := patience_world wdL cmpL uo un oe ne.

  Definition shift_ps (s : pstate) : pstate :=
    {| old_current := old_current s + os0; new_current := new_current s + ns0 |}.
  Definition gp (sw : pstate * WL) : pstate * WA := (shift_ps (fst sw), g (snd sw)).

  Lemma anchor_step_shift o n (sw : pstate * WL) :
    anchor_step wdA cmpA uoA unA o n (gp sw) = rmap gp (anchor_step wdL cmpL uo un o n sw).
  Proof.
    destruct sw as [s w]. unfold gp, shift_ps. cbn [fst snd]. unfold anchor_step.
    cbn [old_current new_current]. unfold uoA, unA. rewrite !nth_error_map.
    destruct (nth_error uo o) as [oi|]; cbn [option_map of_option bind rmap]; [|reflexivity].
    destruct (nth_error un n) as [ni|]; cbn [option_map of_option bind rmap]; [|reflexivity].
    rewrite sub_shift, advance_shift.
    destruct (advance wdL cmpL (oi - old_current s) oi ni (old_current s) (new_current s) w)
      as [[[oc nc] w1]| |]; cbn [rmap bind lift_adv fst snd]; try reflexivity.
    rewrite ltb_shift, sub_shift.
    assert (HE : (if old_current s <? oc
                  then emit wdA (CEq (old_current s + os0) (new_current s + ns0) (oc - old_current s)) (g w1)
                  else Ok (g w1)) =
                 rmap g (if old_current s <? oc
                         then emit wdL (CEq (old_current s) (new_current s) (oc - old_current s)) w1
                         else Ok w1)).
    { destruct (old_current s <? oc); [apply (g_emit (CEq _ _ _))|reflexivity]. }
    rewrite HE. clear HE.
    destruct (if old_current s <? oc
              then emit wdL (CEq (old_current s) (new_current s) (oc - old_current s)) w1
              else Ok w1) as [w2| |]; cbn [rmap bind]; try reflexivity.
    rewrite myers_nf_shift.
    destruct (myers_diff (no_finish wdL) cmpL oc oi nc ni w2) as [w3| |]; reflexivity.
  Qed.

  Lemma anchor_loop_shift len : forall o n (sw : pstate * WL),
    anchor_loop wdA cmpA uoA unA len o n (gp sw) =
    rmap gp (anchor_loop wdL cmpL uo un len o n sw).
  Proof.
    induction len as [|len IH]; intros o n sw; cbn [anchor_loop]; [reflexivity|].
    rewrite anchor_step_shift.
    destruct (anchor_step wdL cmpL uo un o n sw) as [sw1| |]; cbn [rmap bind]; try reflexivity.
    apply IH.
  Qed.

  (* the Patience hook: calls carry positions in the unique lists, which are
     the same on both sides *)
  Lemma PW_tick_shift k (sw : pstate * WL) : tick PWA k (gp sw) = gp (tick PWL k sw).
  Proof.
    destruct sw as [s w]. unfold gp, PWA, PWL.
    cbn [tick patience_world fst snd]. unfold lift_tick. cbn [fst snd]. now rewrite g_tick.
  Qed.

  Lemma PW_probe_shift (sw : pstate * WL) :
    probe PWA (gp sw) = (fst (probe PWL sw), gp (snd (probe PWL sw))).
  Proof.
    destruct sw as [s w]. unfold gp, PWA, PWL. cbn [probe patience_world fst snd]. unfold lift_probe. cbn [fst snd].
    rewrite g_probe. destruct (probe wdL w) as [b w']. reflexivity.
  Qed.

  Lemma PW_emit_shift c (sw : pstate * WL) :
    emit PWA c (gp sw) = rmap gp (emit PWL c sw).
  Proof.
    unfold PWA, PWL.
    destruct c as [o n l|o l n|o n l|o ol n nl|];
      cbn [emit patience_world patience_emit]; try reflexivity.
    - apply anchor_loop_shift.
    - destruct sw as [s w]. unfold gp, shift_ps. cbn [fst snd old_current new_current].
      rewrite (myers_diff_shift wdA wdL g os0 ns0 cmpA cmpL g_tick g_probe g_emit Hcmp).
      destruct (myers_diff wdL cmpL (old_current s) oe (new_current s) ne w) as [w1| |];
        reflexivity.
  Qed.

  (* ---- Replace<Patience<D>> ---- *)
  Variable dbg : bool.
  Let RWA := replace_world PWA dbg.
  Let RWL := replace_world PWL dbg.
  Let G : rstate * (pstate * WL) -> rstate * (pstate * WA) := lift gp.

  Lemma RW_tick_shift k x : tick RWA k (G x) = G (tick RWL k x).
  Proof. apply (lift_tick_hom PWA PWL gp PW_tick_shift). Qed.

  Lemma RW_probe_shift x : probe RWA (G x) = (fst (probe RWL x), G (snd (probe RWL x))).
  Proof. apply (lift_probe_hom PWA PWL gp PW_probe_shift). Qed.

  Lemma RW_emit_shift c x : emit RWA (shift_call 0 0 c) (G x) = rmap G (emit RWL c x).
  Proof.
    rewrite shift_call_0.
    assert (HPW : forall c0 w, NotFin c0 -> emit PWA c0 (gp w) = rmap gp (emit PWL c0 w)).
    { intros c0 w _. apply PW_emit_shift. }
    destruct c as [o n l|o l n|o n l|o ol n nl|];
      try (apply (replace_emit_hom PWA PWL gp HPW); discriminate).
    destruct x as [rs sw]. unfold G, lift. cbn [fst snd]. unfold RWA, RWL.
    rewrite !replace_fin_eq.
    rewrite (emit_all_hom PWA PWL gp HPW _ _ (fin_pre_NotFin rs)).
    destruct (emit_all PWL (fin_pre rs) sw) as [sw1| |]; cbn [rmap bind]; try reflexivity.
    rewrite PW_emit_shift.
    destruct (emit PWL CFin sw1) as [sw2| |]; reflexivity.
  Qed.
End PatienceShift.

Lemma unique_cmp_shift cmpA cmpL os0 ns0 uo un :
  (forall i j, cmpA (i + os0) (j + ns0) = cmpL i j) ->
  forall i j,
    unique_cmp cmpA (map (fun x => x + os0) uo) (map (fun x => x + ns0) un) (i + 0) (j + 0) =
    unique_cmp cmpL uo un i j.
Proof.
  intros Hcmp i j. rewrite !Nat.add_0_r. unfold unique_cmp. rewrite !nth_error_map.
  destruct (nth_error uo i) as [oi|]; cbn [option_map]; [|reflexivity].
  destruct (nth_error un j) as [nj|]; cbn [option_map]; [|reflexivity].
  apply Hcmp.
Qed.

Section PatienceDiffShift.
  Context {WA WL : Type}.
  Variable wdA : world WA.
  Variable wdL : world WL.
  Variable g : WL -> WA.
  Variables os0 ns0 : nat.
  Variables cmpA cmpL ooA ooL nnA nnL : cmpf.
  Hypothesis g_tick : forall k w, tick wdA k (g w) = g (tick wdL k w).
  Hypothesis g_probe : forall w, probe wdA (g w) = (fst (probe wdL w), g (snd (probe wdL w))).
  Hypothesis g_emit : forall c w, emit wdA (shift_call os0 ns0 c) (g w) = rmap g (emit wdL c w).
  Hypothesis Hcmp : forall i j, cmpA (i + os0) (j + ns0) = cmpL i j.
  Hypothesis Hoo : forall i j, ooA (i + os0) (j + os0) = ooL i j.
  Hypothesis Hnn : forall i j, nnA (i + ns0) (j + ns0) = nnL i j.

  Lemma patience_diff_shift dbg os oe ns ne w :
    patience_diff wdA dbg cmpA ooA nnA (os + os0) (oe + os0) (ns + ns0) (ne + ns0) (g w) =
    rmap g (patience_diff wdL dbg cmpL ooL nnL os oe ns ne w).
  Proof.
    unfold patience_diff.
    rewrite (unique_shift ooA ooL os0 Hoo), (unique_shift nnA nnL ns0 Hnn).
    destruct (unique ooL os oe) as [uo| |]; cbn [rmap bind]; try reflexivity.
    destruct (unique nnL ns ne) as [un| |]; cbn [rmap bind]; try reflexivity.
    cbv zeta. rewrite !map_length.
    pose proof (myers_diff_shift _ _ _ 0 0 _ _
                  (RW_tick_shift wdA wdL g os0 ns0 cmpA cmpL g_tick uo un oe ne dbg)
                  (RW_probe_shift wdA wdL g os0 ns0 cmpA cmpL g_probe uo un oe ne dbg)
                  (RW_emit_shift wdA wdL g os0 ns0 cmpA cmpL g_tick g_probe g_emit Hcmp uo un oe ne dbg)
                  (unique_cmp_shift cmpA cmpL os0 ns0 uo un Hcmp)
                  0 (length uo) 0 (length un)
                  (rstate0, ({| old_current := os; new_current := ns |}, w))) as H.
    cbn [Nat.add] in H. rewrite !Nat.add_0_r in H.
    change (rstate0, ({| old_current := os + os0; new_current := ns + ns0 |}, g w))
      with (lift (gp g os0 ns0) (rstate0, ({| old_current := os; new_current := ns |}, w))).
    rewrite H. clear H.
    match goal with |- context [myers_diff ?rw ?c ?a ?b ?cc ?d ?x] =>
      destruct (myers_diff rw c a b cc d x) as [[rs [ps w1]]| |] end; reflexivity.
  Qed.
End PatienceDiffShift.

(* ====================================================================== *)
(* Oracles related by a shift                                              *)
(* ====================================================================== *)

(* [orcL] looks at the same items as [orcA], re-based by (os, ns): this is
   what "the extracted slices" means at the level of comparison oracles.
   Stated pointwise so that no functional extensionality is needed. *)
Definition OrcShift (orcA orcL : oracles) (os ns : nat) : Prop :=
  (forall i j, o_on orcA (i + os) (j + ns) = o_on orcL i j) /\
  (forall i j, o_oo orcA (i + os) (j + os) = o_oo orcL i j) /\
  (forall i j, o_nn orcA (i + ns) (j + ns) = o_nn orcL i j).

Lemma OrcShift_shift_orc orc os ns : OrcShift orc (shift_orc orc os ns) os ns.
Proof. repeat split. Qed.

(* ====================================================================== *)
(* All three algorithms                                                    *)
(* ====================================================================== *)
Section DiffShift.
  Context {WA WL : Type}.
  Variable wdA : world WA.
  Variable wdL : world WL.
  Variable g : WL -> WA.
  Variables os0 ns0 : nat.
  Hypothesis g_tick : forall k w, tick wdA k (g w) = g (tick wdL k w).
  Hypothesis g_probe : forall w, probe wdA (g w) = (fst (probe wdL w), g (snd (probe wdL w))).
  Hypothesis g_emit : forall c w, emit wdA (shift_call os0 ns0 c) (g w) = rmap g (emit wdL c w).

  Theorem diff_deadline_shift_ext alg dbg orcA orcL os oe ns ne w :
    OrcShift orcA orcL os0 ns0 ->
    diff_deadline alg wdA dbg orcA (os + os0) (oe + os0) (ns + ns0) (ne + ns0) (g w) =
    rmap g (diff_deadline alg wdL dbg orcL os oe ns ne w).
  Proof.
    intros (Hon & Hoo & Hnn). destruct alg; cbn [diff_deadline].
    - apply (myers_diff_shift wdA wdL g os0 ns0 _ _ g_tick g_probe g_emit Hon).
    - apply (patience_diff_shift wdA wdL g os0 ns0 _ _ _ _ _ _ g_tick g_probe g_emit Hon Hoo Hnn).
    - apply (lcs_diff_shift wdA wdL g os0 ns0 _ _ g_tick g_probe g_emit Hon).
  Qed.

  Theorem diff_deadline_shift alg dbg orc os oe ns ne w :
    diff_deadline alg wdA dbg orc (os + os0) (oe + os0) (ns + ns0) (ne + ns0) (g w) =
    rmap g (diff_deadline alg wdL dbg (shift_orc orc os0 ns0) os oe ns ne w).
  Proof. apply diff_deadline_shift_ext, OrcShift_shift_orc. Qed.
End DiffShift.

(* ====================================================================== *)
(* The recording hook: raw_trace                                           *)
(* ====================================================================== *)
Definition shift_plain (os0 ns0 : nat) (w : plain) : plain :=
  {| p_ctr := p_ctr w; p_log := map (shift_call os0 ns0) (p_log w) |}.

Lemma shift_plain_tick dl os0 ns0 k w :
  tick (plain_world dl) k (shift_plain os0 ns0 w) = shift_plain os0 ns0 (tick (plain_world dl) k w).
Proof. reflexivity. Qed.

Lemma shift_plain_probe dl os0 ns0 w :
  probe (plain_world dl) (shift_plain os0 ns0 w) =
  (fst (probe (plain_world dl) w), shift_plain os0 ns0 (snd (probe (plain_world dl) w))).
Proof.
  cbn [probe plain_world shift_plain p_ctr p_log].
  destruct (deadline_exceeded dl (p_ctr w)); reflexivity.
Qed.

Lemma shift_plain_emit dl os0 ns0 c w :
  emit (plain_world dl) (shift_call os0 ns0 c) (shift_plain os0 ns0 w) =
  rmap (shift_plain os0 ns0) (emit (plain_world dl) c w).
Proof. reflexivity. Qed.

Lemma plain_calls_shift os0 ns0 w :
  plain_calls (shift_plain os0 ns0 w) = map (shift_call os0 ns0) (plain_calls w).
Proof. unfold plain_calls, shift_plain. cbn [p_log]. now rewrite map_rev. Qed.

(* the general form: any box (a, b) x (c, d), shifted by (os, ns), any pair of
   oracles related by the shift *)
Theorem raw_shift_ext alg dl dbg orcA orcL os ns a b c d :
  OrcShift orcA orcL os ns ->
  raw_trace alg dl dbg orcA (a + os) (b + os) (c + ns) (d + ns) =
  (do '(calls, k) <- raw_trace alg dl dbg orcL a b c d;
   Ok (map (shift_call os ns) calls, k)).
Proof.
  intros Horc. unfold raw_trace.
  change plain0 with (shift_plain os ns plain0) at 1.
  rewrite (diff_deadline_shift_ext (plain_world dl) (plain_world dl) (shift_plain os ns) os ns
             (shift_plain_tick dl os ns) (shift_plain_probe dl os ns) (shift_plain_emit dl os ns)
             alg dbg orcA orcL a b c d plain0 Horc).
  destruct (diff_deadline alg (plain_world dl) dbg orcL a b c d plain0)
    as [w| |]; cbn [rmap bind]; try reflexivity.
  now rewrite plain_calls_shift.
Qed.

Theorem raw_shift_gen alg dl dbg orc os ns a b c d :
  raw_trace alg dl dbg orc (a + os) (b + os) (c + ns) (d + ns) =
  (do '(calls, k) <- raw_trace alg dl dbg (shift_orc orc os ns) a b c d;
   Ok (map (shift_call os ns) calls, k)).
Proof. apply raw_shift_ext, OrcShift_shift_orc. Qed.

(* C01: diffing the sub-range os..oe / ns..ne of the caller's sequences =
   diffing the extracted slices (positions 0..oe-os / 0..ne-ns, looked up
   through the shifted oracles), with every reported index shifted back by
   the range starts.  Same outcome (Ok / Panic / OutOfFuel), same calls, same
   counters (comparisons, deadline probes), for every clock. *)
Theorem raw_shift alg dl dbg orc os oe ns ne :
  os <= oe -> ns <= ne ->
  raw_trace alg dl dbg orc os oe ns ne =
  (do '(calls, c) <- raw_trace alg dl dbg (shift_orc orc os ns) 0 (oe - os) 0 (ne - ns);
   Ok (map (shift_call os ns) calls, c)).
Proof.
  intros Ho Hn. rewrite <- raw_shift_gen. cbn [Nat.add].
  now replace (oe - os + os) with oe by lia; replace (ne - ns + ns) with ne by lia.
Qed.


(* ====================================================================== *)
(* Part 2: capture_diff.                                                   *)
(*                                                                         *)
(* Compact's cleanup uses checked subtractions on absolute indices         *)
(* (DiffOp::shift_left, grow_left), so on an ARBITRARY op list it does not *)
(* commute with shifting: [Equal 0 0 1; Insert 0 0 1] underflows at base 0 *)
(* and not at base 1.  It does commute on the op lists the algorithms      *)
(* produce.  To know that the local run never underflows without assuming  *)
(* that the oracle is total, the local oracle is compared with its         *)
(* totalisation [tot_cmp]: a run that succeeds never saw a Panic answer,   *)
(* so it is also a run under the total oracle (section Mono), for which    *)
(* the validity and no-panic theorems of Proofs/{WorldInv,Lcs,Patience,    *)
(* Pipeline}.v are available.                                              *)
(* ====================================================================== *)

Definition tot_cmp (cmp : cmpf) : cmpf :=
  fun i j => match cmp i j with Ok b => Ok b | _ => Ok false end.

Lemma tot_cmp_total cmp os oe ns ne : CmpTotal (tot_cmp cmp) os oe ns ne.
Proof. intros i j _ _. unfold tot_cmp. destruct (cmp i j); eexists; reflexivity. Qed.

Lemma tot_cmp_mono cmp i j b : cmp i j = Ok b -> tot_cmp cmp i j = Ok b.
Proof. unfold tot_cmp. now intros ->. Qed.

Section Mono.
  Context {W : Type}.
  Variables wdL wdT : world W.
  Variables cmpL cmpT : cmpf.
  Hypothesis m_tick : forall k w, tick wdT k w = tick wdL k w.
  Hypothesis m_probe : forall w, probe wdT w = probe wdL w.
  Hypothesis m_emit : forall c w w', emit wdL c w = Ok w' -> emit wdT c w = Ok w'.
  Hypothesis m_cmp : forall i j b, cmpL i j = Ok b -> cmpT i j = Ok b.

  Lemma prefix_from_mono k : forall i j p,
    prefix_from cmpL i j k = Ok p -> prefix_from cmpT i j k = Ok p.
  Proof.
    induction k as [|k IH]; intros i j p H; cbn [prefix_from] in *; [exact H|].
    destruct (cmpL i j) as [b| |] eqn:E; cbn [bind] in H; try discriminate.
    rewrite (m_cmp _ _ _ E). cbn [bind]. destruct b; [|exact H].
    destruct (prefix_from cmpL (S i) (S j) k) as [q| |] eqn:E2; cbn [bind] in H; try discriminate.
    rewrite (IH _ _ _ E2). exact H.
  Qed.

  Lemma suffix_from_mono k : forall oe ne p,
    suffix_from cmpL oe ne k = Ok p -> suffix_from cmpT oe ne k = Ok p.
  Proof.
    induction k as [|k IH]; intros oe ne p H; cbn [suffix_from] in *; [exact H|].
    destruct (cmpL (oe - 1) (ne - 1)) as [b| |] eqn:E; cbn [bind] in H; try discriminate.
    rewrite (m_cmp _ _ _ E). cbn [bind]. destruct b; [|exact H].
    destruct (suffix_from cmpL (oe - 1) (ne - 1) k) as [q| |] eqn:E2; cbn [bind] in H;
      try discriminate.
    rewrite (IH _ _ _ E2). exact H.
  Qed.

  Lemma cpl_mono os oe ns ne p :
    common_prefix_len cmpL os oe ns ne = Ok p -> common_prefix_len cmpT os oe ns ne = Ok p.
  Proof.
    unfold common_prefix_len. destruct (empty_range os oe || empty_range ns ne); [auto|].
    apply prefix_from_mono.
  Qed.

  Lemma csl_mono os oe ns ne p :
    common_suffix_len cmpL os oe ns ne = Ok p -> common_suffix_len cmpT os oe ns ne = Ok p.
  Proof.
    unfold common_suffix_len. destruct (empty_range os oe || empty_range ns ne); [auto|].
    apply suffix_from_mono.
  Qed.

  Lemma fwd_step_mono os oe ns ne d k vf vb w r :
    fwd_step wdL cmpL os oe ns ne d k vf vb w = Ok r ->
    fwd_step wdT cmpT os oe ns ne d k vf vb w = Ok r.
  Proof.
    unfold fwd_step. cbv zeta. intros H.
    destruct (pick vf k d) as [x| |]; cbn [bind] in *; try discriminate.
    destruct (z_to_usize (Z.of_nat x - k)) as [y| |]; cbn [bind] in *; try discriminate.
    destruct ((x <? oe - os) && (y <? ne - ns)); [|exact H].
    destruct (common_prefix_len cmpL (os + x) oe (ns + y) ne) as [adv| |] eqn:E;
      cbn [bind] in H; try discriminate.
    rewrite (cpl_mono _ _ _ _ _ E). cbn [bind]. rewrite m_tick. exact H.
  Qed.

  Lemma bwd_step_mono os oe ns ne d k vf vb w r :
    bwd_step wdL cmpL os oe ns ne d k vf vb w = Ok r ->
    bwd_step wdT cmpT os oe ns ne d k vf vb w = Ok r.
  Proof.
    unfold bwd_step. cbv zeta. intros H.
    destruct (pick vb k d) as [x| |]; cbn [bind] in *; try discriminate.
    destruct (z_to_usize (Z.of_nat x - k)) as [y| |]; cbn [bind] in *; try discriminate.
    destruct ((x <? oe - os) && (y <? ne - ns)); [|exact H].
    destruct (common_suffix_len cmpL os (os + (oe - os) - x) ns (ns + (ne - ns) - y))
      as [adv| |] eqn:E; cbn [bind] in H; try discriminate.
    rewrite (csl_mono _ _ _ _ _ E). cbn [bind]. rewrite m_tick. exact H.
  Qed.

  Lemma fwd_loop_mono os oe ns ne cnt : forall d k vf vb w r,
    fwd_loop wdL cmpL os oe ns ne cnt d k vf vb w = Ok r ->
    fwd_loop wdT cmpT os oe ns ne cnt d k vf vb w = Ok r.
  Proof.
    induction cnt as [|cnt IH]; intros d k vf vb w r H; cbn [fwd_loop] in *; [exact H|].
    destruct (fwd_step wdL cmpL os oe ns ne d k vf vb w) as [[[r1 vf1] w1]| |] eqn:E;
      cbn [bind] in H; try discriminate.
    rewrite (fwd_step_mono _ _ _ _ _ _ _ _ _ _ E). cbn [bind].
    destruct r1 as [pt|]; [exact H|apply IH; exact H].
  Qed.

  Lemma bwd_loop_mono os oe ns ne cnt : forall d k vf vb w r,
    bwd_loop wdL cmpL os oe ns ne cnt d k vf vb w = Ok r ->
    bwd_loop wdT cmpT os oe ns ne cnt d k vf vb w = Ok r.
  Proof.
    induction cnt as [|cnt IH]; intros d k vf vb w r H; cbn [bwd_loop] in *; [exact H|].
    destruct (bwd_step wdL cmpL os oe ns ne d k vf vb w) as [[[r1 vb1] w1]| |] eqn:E;
      cbn [bind] in H; try discriminate.
    rewrite (bwd_step_mono _ _ _ _ _ _ _ _ _ _ E). cbn [bind].
    destruct r1 as [pt|]; [exact H|apply IH; exact H].
  Qed.

  Lemma round_loop_mono os oe ns ne rounds : forall d vf vb w r,
    round_loop wdL cmpL os oe ns ne rounds d vf vb w = Ok r ->
    round_loop wdT cmpT os oe ns ne rounds d vf vb w = Ok r.
  Proof.
    induction rounds as [|rounds IH]; intros d vf vb w r H; cbn [round_loop] in *; [exact H|].
    rewrite m_probe. destruct (probe wdL w) as [ex w0]. destruct ex; [exact H|].
    destruct (fwd_loop wdL cmpL os oe ns ne (S d) (Z.of_nat d) (Z.of_nat d) vf vb w0)
      as [[[r1 vf1] w1]| |] eqn:E; cbn [bind] in H; try discriminate.
    rewrite (fwd_loop_mono _ _ _ _ _ _ _ _ _ _ _ E). cbn [bind].
    destruct r1 as [pt|]; [exact H|].
    destruct (bwd_loop wdL cmpL os oe ns ne (S d) (Z.of_nat d) (Z.of_nat d) vf1 vb w1)
      as [[[r2 vb1] w2]| |] eqn:E2; cbn [bind] in H; try discriminate.
    rewrite (bwd_loop_mono _ _ _ _ _ _ _ _ _ _ _ E2). cbn [bind].
    destruct r2 as [pt|]; [exact H|apply IH; exact H].
  Qed.

  Lemma find_middle_snake_mono os oe ns ne vf vb w r :
    find_middle_snake wdL cmpL os oe ns ne vf vb w = Ok r ->
    find_middle_snake wdT cmpT os oe ns ne vf vb w = Ok r.
  Proof.
    unfold find_middle_snake. intros H.
    destruct (v_set vf 1%Z 0) as [vf0| |]; cbn [bind] in *; try discriminate.
    destruct (v_set vb 1%Z 0) as [vb0| |]; cbn [bind] in *; try discriminate.
    destruct ((vlen vf0 <? max_d (oe - os) (ne - ns)) || (vlen vb0 <? max_d (oe - os) (ne - ns)));
      [exact H|apply round_loop_mono; exact H].
  Qed.

  Lemma emit_eq_opt_mono o n l w w' :
    emit_eq_opt wdL o n l w = Ok w' -> emit_eq_opt wdT o n l w = Ok w'.
  Proof. unfold emit_eq_opt. destruct (0 <? l); [apply m_emit|auto]. Qed.

  Lemma conquer_mono fuel : forall os oe ns ne vf vb w r,
    conquer wdL cmpL fuel os oe ns ne vf vb w = Ok r ->
    conquer wdT cmpT fuel os oe ns ne vf vb w = Ok r.
  Proof.
    induction fuel as [|fuel IH]; intros os oe ns ne vf vb w [[vf' vb'] w'] H; [discriminate H|].
    apply conquer_S_iff in H. apply conquer_S_iff.
    destruct H as [p w1 s vf1 vb1 w3 w4 Hp Hw1 Hs Hso Hsn Hm Hw4].
    assert (Hm' : MidRun wdT cmpT fuel (os + p) (oe - s) (ns + p) (ne - s) vf vb
                    (tick wdT (scan_cmps (os + p) oe (ns + p) ne s) w1) vf1 vb1 w3).
    { rewrite m_tick.
      destruct Hm as [Ho Hn|w5 Ho Hn He|w5 Ho Hn He
                     |x y vf2 vb2 w5 vf3 vb3 w6 vf4 vb4 w7 Ho Hn Ef E1 E2
                     |vf2 vb2 w5 w6 w7 Ho Hn Ef E1 E2].
      + apply MR_empty; assumption.
      + apply MR_del; try assumption. apply m_emit. exact He.
      + apply MR_ins; try assumption. apply m_emit. exact He.
      + eapply MR_split; try eassumption.
        * apply find_middle_snake_mono. exact Ef.
        * apply IH. exact E1.
        * apply IH. exact E2.
      + eapply MR_fallback; try eassumption.
        * apply find_middle_snake_mono. exact Ef.
        * apply m_emit. exact E1.
        * apply m_emit. exact E2. }
    eapply Run1_intro.
    - apply cpl_mono. exact Hp.
    - rewrite m_tick. apply emit_eq_opt_mono. exact Hw1.
    - apply csl_mono. exact Hs.
    - exact Hso.
    - exact Hsn.
    - exact Hm'.
    - apply emit_eq_opt_mono. exact Hw4.
  Qed.

  Lemma myers_diff_mono os oe ns ne w w' :
    myers_diff wdL cmpL os oe ns ne w = Ok w' -> myers_diff wdT cmpT os oe ns ne w = Ok w'.
  Proof.
    unfold myers_diff. intros H.
    match type of H with context [conquer wdL ?a ?b ?c ?d ?e ?f ?x ?y ?z] =>
      destruct (conquer wdL a b c d e f x y z) as [[[vf vb] w1]| |] eqn:E end;
      cbn [bind] in H; try discriminate.
    rewrite (conquer_mono _ _ _ _ _ _ _ _ _ E). cbn [bind]. apply m_emit. exact H.
  Qed.
End Mono.

Section PatienceMono.
  Context {W : Type}.
  Variable wd : world W.
  Variables cmpL cmpT : cmpf.
  Hypothesis m_cmp : forall i j b, cmpL i j = Ok b -> cmpT i j = Ok b.

  Lemma myers_mono_same {W'} (wd' : world W') os oe ns ne w w' :
    myers_diff wd' cmpL os oe ns ne w = Ok w' -> myers_diff wd' cmpT os oe ns ne w = Ok w'.
  Proof. apply (myers_diff_mono wd' wd' cmpL cmpT); auto. Qed.

  Lemma advance_mono fuel : forall oi ni oc nc w r,
    advance wd cmpL fuel oi ni oc nc w = Ok r -> advance wd cmpT fuel oi ni oc nc w = Ok r.
  Proof.
    induction fuel as [|fuel IH]; intros oi ni oc nc w r H; cbn [advance] in *; [exact H|].
    destruct ((oc <? oi) && (nc <? ni)); [|exact H].
    destruct (cmpL oc nc) as [b| |] eqn:E; cbn [bind] in H; try discriminate.
    rewrite (m_cmp _ _ _ E). cbn [bind]. destruct b; [apply IH; exact H|exact H].
  Qed.

  Variables uo un : list nat.
  Variables oe ne : nat.

  Lemma anchor_step_mono o n sw r :
    anchor_step wd cmpL uo un o n sw = Ok r -> anchor_step wd cmpT uo un o n sw = Ok r.
  Proof.
    destruct sw as [s w]. unfold anchor_step. intros H.
    destruct (of_option (nth_error uo o)) as [oi| |]; cbn [bind] in *; try discriminate.
    destruct (of_option (nth_error un n)) as [ni| |]; cbn [bind] in *; try discriminate.
    destruct (advance wd cmpL (oi - old_current s) oi ni (old_current s) (new_current s) w)
      as [[[oc nc] w1]| |] eqn:E; cbn [bind] in H; try discriminate.
    rewrite (advance_mono _ _ _ _ _ _ _ E). cbn [bind].
    destruct (if old_current s <? oc
              then emit wd (CEq (old_current s) (new_current s) (oc - old_current s)) w1
              else Ok w1) as [w2| |]; cbn [bind] in *; try discriminate.
    destruct (myers_diff (no_finish wd) cmpL oc oi nc ni w2) as [w3| |] eqn:E2; cbn [bind] in H;
      try discriminate.
    rewrite (myers_mono_same _ _ _ _ _ _ _ E2). exact H.
  Qed.

  Lemma anchor_loop_mono len : forall o n sw r,
    anchor_loop wd cmpL uo un len o n sw = Ok r -> anchor_loop wd cmpT uo un len o n sw = Ok r.
  Proof.
    induction len as [|len IH]; intros o n sw r H; cbn [anchor_loop] in *; [exact H|].
    destruct (anchor_step wd cmpL uo un o n sw) as [sw1| |] eqn:E; cbn [bind] in H;
      try discriminate.
    rewrite (anchor_step_mono _ _ _ _ E). cbn [bind]. apply IH. exact H.
  Qed.

  Let PWL := patience_world wd cmpL uo un oe ne.
  Let PWT := patience_world wd cmpT uo un oe ne.

  Lemma PW_emit_mono c sw sw' : emit PWL c sw = Ok sw' -> emit PWT c sw = Ok sw'.
  Proof.
    unfold PWL, PWT. destruct c as [o n l|o l n|o n l|o ol n nl|];
      cbn [emit patience_world patience_emit].
    - apply anchor_loop_mono.
    - exact (fun H => H).
    - exact (fun H => H).
    - exact (fun H => H).
    - destruct sw as [s w]. intros H.
      destruct (myers_diff wd cmpL (old_current s) oe (new_current s) ne w) as [w1| |] eqn:E;
        cbn [bind] in H; try discriminate.
      rewrite (myers_mono_same _ _ _ _ _ _ _ E). exact H.
  Qed.

  Lemma emit_all_mono {W'} (w1 w2 : world W') :
    (forall c w w', emit w1 c w = Ok w' -> emit w2 c w = Ok w') ->
    forall cs w w', emit_all w1 cs w = Ok w' -> emit_all w2 cs w = Ok w'.
  Proof.
    intros Hm cs. induction cs as [|c cs IH]; intros w w' H; cbn [emit_all] in *; [exact H|].
    destruct (emit w1 c w) as [wx| |] eqn:E; cbn [bind] in H; try discriminate.
    rewrite (Hm _ _ _ E). cbn [bind]. apply IH. exact H.
  Qed.

  Variable dbg : bool.

  Lemma RW_emit_mono c x x' :
    emit (replace_world PWL dbg) c x = Ok x' -> emit (replace_world PWT dbg) c x = Ok x'.
  Proof.
    destruct x as [rs sw]. cbn [emit replace_world]. rewrite !replace_emit_step.
    unfold run_trace. intros H.
    destruct (emit_all PWL (fst (replace_step dbg c rs)) sw) as [sw1| |] eqn:E; cbn [bind] in H;
      try discriminate.
    rewrite (emit_all_mono PWL PWT PW_emit_mono _ _ _ E). exact H.
  Qed.
End PatienceMono.

Lemma unique_cmp_mono cmpL cmpT uo un :
  (forall i j b, cmpL i j = Ok b -> cmpT i j = Ok b) ->
  forall i j b, unique_cmp cmpL uo un i j = Ok b -> unique_cmp cmpT uo un i j = Ok b.
Proof.
  intros Hm i j b. unfold unique_cmp.
  destruct (nth_error uo i); [|discriminate]. destruct (nth_error un j); [|discriminate].
  apply Hm.
Qed.

Lemma patience_diff_mono {W} (wd : world W) dbg cmpL cmpT oo nn os oe ns ne w w' :
  (forall i j b, cmpL i j = Ok b -> cmpT i j = Ok b) ->
  patience_diff wd dbg cmpL oo nn os oe ns ne w = Ok w' ->
  patience_diff wd dbg cmpT oo nn os oe ns ne w = Ok w'.
Proof.
  intros Hm. unfold patience_diff. intros H.
  destruct (unique oo os oe) as [uo| |]; cbn [bind] in *; try discriminate.
  destruct (unique nn ns ne) as [un| |]; cbn [bind] in *; try discriminate.
  cbv zeta in *.
  match type of H with context [myers_diff ?rw ?c ?a ?b ?cc ?d ?x] =>
    destruct (myers_diff rw c a b cc d x) as [r| |] eqn:E end; cbn [bind] in H; try discriminate.
  assert (Ht : forall k x, tick (replace_world (patience_world wd cmpT uo un oe ne) dbg) k x =
                           tick (replace_world (patience_world wd cmpL uo un oe ne) dbg) k x).
  { intros k x. cbn [tick replace_world]. unfold lift_tick. cbn [tick patience_world].
    unfold lift_tick. reflexivity. }
  assert (Hp : forall x, probe (replace_world (patience_world wd cmpT uo un oe ne) dbg) x =
                         probe (replace_world (patience_world wd cmpL uo un oe ne) dbg) x).
  { intros x. cbn [probe replace_world]. unfold lift_probe. cbn [probe patience_world].
    unfold lift_probe. reflexivity. }
  rewrite (myers_diff_mono (replace_world (patience_world wd cmpL uo un oe ne) dbg)
             (replace_world (patience_world wd cmpT uo un oe ne) dbg)
             (unique_cmp cmpL uo un) (unique_cmp cmpT uo un) Ht Hp
             (RW_emit_mono wd cmpL cmpT Hm uo un oe ne dbg)
             (unique_cmp_mono cmpL cmpT uo un Hm) _ _ _ _ _ _ E).
  exact H.
Qed.

Lemma diff_deadline_mono {W} alg (wd : world W) dbg orc cmpT os oe ns ne w w' :
  (forall i j b, o_on orc i j = Ok b -> cmpT i j = Ok b) ->
  alg <> Lcs ->
  diff_deadline alg wd dbg orc os oe ns ne w = Ok w' ->
  diff_deadline alg wd dbg {| o_on := cmpT; o_oo := o_oo orc; o_nn := o_nn orc |} os oe ns ne w
    = Ok w'.
Proof.
  intros Hm Ha. destruct alg; cbn [diff_deadline o_on o_oo o_nn].
  - apply myers_mono_same. exact Hm.
  - apply patience_diff_mono. exact Hm.
  - now destruct Ha.
Qed.

(* ====================================================================== *)
(* Three-way comparison of runs: absolute / local / local-totalised        *)
(* ====================================================================== *)

(* [KM f a l t]: whenever the totalised local run [t] succeeds, the
   absolute run [a] is the image of the local run [l] (whatever its outcome)
   and the local run, if it succeeds, agrees with the totalised one *)
Definition KM {X Y} (f : X -> Y) (a : res Y) (l t : res X) : Prop :=
  forall rT, t = Ok rT -> a = rmap f l /\ (forall r, l = Ok r -> r = rT).

Lemma KM_bind {X Y X2 Y2} (f : X -> Y) (h : X2 -> Y2) mA mL mT kA kL kT :
  KM f mA mL mT -> (forall x, KM h (kA (f x)) (kL x) (kT x)) ->
  KM h (bind mA kA) (bind mL kL) (bind mT kT).
Proof.
  intros Hm Hk rT HT. apply bind_Ok_inv in HT. destruct HT as (x0 & HmT & HkT).
  destruct (Hm x0 HmT) as [HA HL]. rewrite HA.
  destruct mL as [x| |]; cbn [rmap bind]; [|split; [reflexivity|discriminate]..].
  rewrite (HL x eq_refl). exact (Hk x0 rT HkT).
Qed.

Lemma KM_same {X Y} (f : X -> Y) a l :
  (forall r, l = Ok r -> a = Ok (f r)) -> KM f a l l.
Proof.
  intros H rT HT. split.
  - rewrite (H rT HT), HT. reflexivity.
  - intros r Hr. rewrite HT in Hr. now injection Hr as <-.
Qed.

Lemma KM_ok {X Y} (f : X -> Y) x : KM f (Ok (f x)) (Ok x) (Ok x).
Proof. apply KM_same. intros r H. now injection H as <-. Qed.

(* ====================================================================== *)
(* Compact                                                                 *)
(* ====================================================================== *)
Section OpShift.
  Variables os0 ns0 : nat.
  Let sh := shift_op os0 ns0.

  Lemma op_tag_shift x : op_tag (sh x) = op_tag x.
  Proof. destruct x; reflexivity. Qed.
  Lemma op_old_start_shift x : op_old_start (sh x) = op_old_start x + os0.
  Proof. destruct x; reflexivity. Qed.
  Lemma op_new_start_shift x : op_new_start (sh x) = op_new_start x + ns0.
  Proof. destruct x; reflexivity. Qed.
  Lemma op_old_len_shift x : op_old_len (sh x) = op_old_len x.
  Proof. destruct x; reflexivity. Qed.
  Lemma op_new_len_shift x : op_new_len (sh x) = op_new_len x.
  Proof. destruct x; reflexivity. Qed.
  Lemma op_old_end_shift x : op_old_end (sh x) = op_old_end x + os0.
  Proof. unfold op_old_end. rewrite op_old_start_shift, op_old_len_shift. lia. Qed.
  Lemma op_new_end_shift x : op_new_end (sh x) = op_new_end x + ns0.
  Proof. unfold op_new_end. rewrite op_new_start_shift, op_new_len_shift. lia. Qed.
  Lemma op_is_empty_shift x : op_is_empty (sh x) = op_is_empty x.
  Proof. unfold op_is_empty. now rewrite op_old_len_shift, op_new_len_shift. Qed.
  Lemma is_equal_op_shift x : is_equal_op (sh x) = is_equal_op x.
  Proof. destruct x; reflexivity. Qed.

  Lemma sub_chk_shift_ok a s r k : sub_chk a s = Ok r -> sub_chk (a + k) s = Ok (r + k).
  Proof.
    intros H. apply sub_chk_Ok in H. destruct H as [Hle ->].
    rewrite WorldInv.sub_chk_le by lia. f_equal. lia.
  Qed.

  Ltac two_sub H :=
    let o' := fresh "o'" in let n' := fresh "n'" in
    let E1 := fresh "E" in let E2 := fresh "E" in
    match type of H with
    | context [sub_chk ?o ?a] =>
        destruct (sub_chk o a) as [o'| |] eqn:E1; cbn [bind] in H; try discriminate H
    end;
    match type of H with
    | context [sub_chk ?n ?a] =>
        destruct (sub_chk n a) as [n'| |] eqn:E2; cbn [bind] in H; try discriminate H
    end;
    injection H as <-;
    rewrite (sub_chk_shift_ok _ _ _ os0 E1); cbn [bind];
    rewrite (sub_chk_shift_ok _ _ _ ns0 E2); cbn [bind]; reflexivity.

  Lemma shift_left_ok x a x' : shift_left x a = Ok x' -> shift_left (sh x) a = Ok (sh x').
  Proof. destruct x; cbn [shift_left sh shift_op]; intros H; two_sub H. Qed.

  Lemma grow_left_ok x a x' : grow_left x a = Ok x' -> grow_left (sh x) a = Ok (sh x').
  Proof. destruct x; cbn [grow_left sh shift_op]; intros H; two_sub H. Qed.

  Lemma shrink_left_ok x a x' : shrink_left x a = Ok x' -> shrink_left (sh x) a = Ok (sh x').
  Proof.
    destruct x; cbn [shrink_left sh shift_op]; intros H.
    1-3: match type of H with context [sub_chk ?l ?a] =>
           destruct (sub_chk l a) as [l'| |]; cbn [bind] in *; try discriminate H end;
         injection H as <-; reflexivity.
    destruct (sub_chk ol a) as [l1| |]; cbn [bind] in *; try discriminate H.
    destruct (sub_chk nl a) as [l2| |]; cbn [bind] in *; try discriminate H.
    injection H as <-. reflexivity.
  Qed.

  Lemma shrink_right_ok x a x' : shrink_right x a = Ok x' -> shrink_right (sh x) a = Ok (sh x').
  Proof.
    destruct x; cbn [shrink_right sh shift_op]; intros H.
    1-3: match type of H with context [sub_chk ?l ?a] =>
           destruct (sub_chk l a) as [l'| |]; cbn [bind] in *; try discriminate H end;
         injection H as <-; cbn [shift_op]; rewrite (add_swap _ os0 a), (add_swap _ ns0 a);
         reflexivity.
    destruct (sub_chk ol a) as [l1| |]; cbn [bind] in *; try discriminate H.
    destruct (sub_chk nl a) as [l2| |]; cbn [bind] in *; try discriminate H.
    injection H as <-. cbn [shift_op]. rewrite (add_swap _ os0 a), (add_swap _ ns0 a).
    reflexivity.
  Qed.

  Lemma shift_right_shift x a : shift_right (sh x) a = sh (shift_right x a).
  Proof.
    destruct x; cbn [shift_right sh shift_op]; rewrite (add_swap _ os0 a), (add_swap _ ns0 a);
      reflexivity.
  Qed.

  Lemma grow_right_shift x a : grow_right (sh x) a = sh (grow_right x a).
  Proof. destruct x; reflexivity. Qed.

  Lemma repair_pair_shift a b :
    repair_pair (sh a) (sh b) = (sh (fst (repair_pair a b)), sh (snd (repair_pair a b))).
  Proof.
    destruct a, b; cbn [repair_pair sh shift_op fst snd]; try reflexivity.
    - now rewrite (add_swap _ os0 ol).
    - now rewrite (add_swap _ ns0 nl).
  Qed.

  Definition shift_z (z : zipper) : zipper :=
    let '(bef, this, aft) := z in (map sh bef, sh this, map sh aft).

  Definition shift_sr (r : step_result) : step_result :=
    match r with Continue z => Continue (shift_z z) | Break z => Break (shift_z z) end.

  Lemma ops_weight_shift l : ops_weight (map sh l) = ops_weight l.
  Proof.
    induction l as [|x l IH]; [reflexivity|]. unfold ops_weight in *. cbn [map fold_right].
    now rewrite op_old_len_shift, op_new_len_shift, IH.
  Qed.

  Lemma inner_fuel_shift z : inner_fuel (shift_z z) = inner_fuel z.
  Proof.
    destruct z as [[bef this] aft]. unfold inner_fuel, zipper_weight, shift_z.
    change [sh this] with (map sh [this]). now rewrite !ops_weight_shift.
  Qed.

  Lemma outer_fuel_shift l : outer_fuel (map sh l) = outer_fuel l.
  Proof. unfold outer_fuel. now rewrite ops_weight_shift. Qed.
End OpShift.

Section CompactKM.
  Variables os0 ns0 : nat.
  Variables cmpA cmpL cmpT : cmpf.
  Hypothesis Hcmp : forall i j, cmpA (i + os0) (j + ns0) = cmpL i j.
  Hypothesis m_cmp : forall i j b, cmpL i j = Ok b -> cmpT i j = Ok b.
  Variable repair : bool.
  Local Notation sh := (shift_op os0 ns0).
  Local Notation shz := (shift_z os0 ns0).
  Local Notation shr := (shift_sr os0 ns0).

  Lemma KM_csl a b c d :
    KM (fun s : nat => s) (common_suffix_len cmpA (a + os0) (b + os0) (c + ns0) (d + ns0))
       (common_suffix_len cmpL a b c d) (common_suffix_len cmpT a b c d).
  Proof.
    intros sT HT. rewrite (common_suffix_len_shift cmpA cmpL os0 ns0 Hcmp), rmap_id.
    split; [reflexivity|]. intros s Hs.
    rewrite (csl_mono cmpL cmpT m_cmp _ _ _ _ _ Hs) in HT. now injection HT as <-.
  Qed.

  Lemma KM_cpl a b c d :
    KM (fun s : nat => s) (common_prefix_len cmpA (a + os0) (b + os0) (c + ns0) (d + ns0))
       (common_prefix_len cmpL a b c d) (common_prefix_len cmpT a b c d).
  Proof.
    intros sT HT. rewrite (common_prefix_len_shift cmpA cmpL os0 ns0 Hcmp), rmap_id.
    split; [reflexivity|]. intros s Hs.
    rewrite (cpl_mono cmpL cmpT m_cmp _ _ _ _ _ Hs) in HT. now injection HT as <-.
  Qed.

  (* the Equal op inserted after the slid Insert / Delete *)
  Lemma new_eq_ok (prev this : op) s l (tl : list op) r :
    (do eo <- sub_chk (op_old_end prev) s;
     do en <- sub_chk (op_new_end this) s; Ok (Equal eo en l :: tl)) = Ok r ->
    (do eo <- sub_chk (op_old_end prev + os0) s;
     do en <- sub_chk (op_new_end this + ns0) s; Ok (Equal eo en l :: map sh tl)) = Ok (map sh r).
  Proof.
    intros H.
    destruct (sub_chk (op_old_end prev) s) as [eo| |] eqn:E1; cbn [bind] in H; try discriminate.
    destruct (sub_chk (op_new_end this) s) as [en| |] eqn:E2; cbn [bind] in H; try discriminate.
    injection H as <-.
    rewrite (sub_chk_shift_ok _ _ _ os0 E1), (sub_chk_shift_ok _ _ _ ns0 E2). reflexivity.
  Qed.

  Lemma up_step_KM z :
    KM shr (up_step cmpA repair (shz z)) (up_step cmpL repair z) (up_step cmpT repair z).
  Proof.
    destruct z as [[bef this] aft]. destruct bef as [|prev bef'].
    { apply (KM_ok shr (Break ([], this, aft))). }
    unfold shift_z. cbn [map]. unfold up_step.
    rewrite !op_tag_shift, !op_old_start_shift, !op_old_end_shift, !op_new_start_shift,
      !op_new_end_shift.
    destruct (op_tag this) eqn:Et; destruct (op_tag prev) eqn:Ep;
      try (apply KM_same; intros r H; discriminate H).
    - (* Delete, Equal *)
      apply (KM_bind (fun s : nat => s) shr); [apply KM_csl|]. intros s. apply KM_same. intros r H.
      destruct (negb (s =? 0)).
      + match type of H with bind ?m _ = _ => destruct m as [aft1| |] eqn:E1 end;
          cbn [bind] in H; try discriminate.
        assert (E1' : match map sh aft with
                      | [] => do eo <- sub_chk (op_old_end prev + os0) s;
                              do en <- sub_chk (op_new_end this + ns0) s;
                              do el <- sub_chk (op_old_len (sh prev)) s; Ok [Equal eo en el]
                      | nx :: aft' =>
                          if is_equal_op nx then do nx' <- grow_left nx s; Ok (nx' :: aft')
                          else do eo <- sub_chk (op_old_end prev + os0) s;
                               do en <- sub_chk (op_new_end this + ns0) s;
                               do el <- sub_chk (op_old_len (sh prev)) s;
                               Ok (Equal eo en el :: map sh aft)
                      end = Ok (map sh aft1)).
        { rewrite op_old_len_shift. destruct aft as [|nx aft']; cbn [map].
          - destruct (sub_chk (op_old_end prev) s) as [eo| |] eqn:F1; cbn [bind] in E1; try discriminate.
            destruct (sub_chk (op_new_end this) s) as [en| |] eqn:F2; cbn [bind] in E1; try discriminate.
            destruct (sub_chk (op_old_len prev) s) as [el| |] eqn:F3; cbn [bind] in E1; try discriminate.
            injection E1 as <-.
            rewrite (sub_chk_shift_ok _ _ _ os0 F1), (sub_chk_shift_ok _ _ _ ns0 F2). reflexivity.
          - rewrite is_equal_op_shift. destruct (is_equal_op nx).
            + destruct (grow_left nx s) as [nx'| |] eqn:F; cbn [bind] in E1; try discriminate.
              injection E1 as <-. rewrite (grow_left_ok os0 ns0 _ _ _ F). reflexivity.
            + destruct (sub_chk (op_old_end prev) s) as [eo| |] eqn:F1; cbn [bind] in E1; try discriminate.
              destruct (sub_chk (op_new_end this) s) as [en| |] eqn:F2; cbn [bind] in E1; try discriminate.
              destruct (sub_chk (op_old_len prev) s) as [el| |] eqn:F3; cbn [bind] in E1; try discriminate.
              injection E1 as <-.
              rewrite (sub_chk_shift_ok _ _ _ os0 F1), (sub_chk_shift_ok _ _ _ ns0 F2). reflexivity. }
        rewrite E1'. cbn [bind].
        destruct (shift_left this s) as [this1| |] eqn:E2; cbn [bind] in H; try discriminate.
        rewrite (shift_left_ok os0 ns0 _ _ _ E2). cbn [bind].
        destruct (shrink_left prev s) as [prev1| |] eqn:E3; cbn [bind] in H; try discriminate.
        rewrite (shrink_left_ok os0 ns0 _ _ _ E3). cbn [bind].
        rewrite op_is_empty_shift. destruct (op_is_empty prev1); injection H as <-; reflexivity.
      + rewrite op_is_empty_shift.
        destruct (op_is_empty prev); injection H as <-; reflexivity.
    - (* Delete, Delete *)
      apply KM_same. intros r H. injection H as <-.
      rewrite op_old_len_shift, grow_right_shift. reflexivity.
    - (* Delete, Insert *)
      apply KM_same. intros r H. rewrite repair_pair_shift.
      destruct repair; [destruct (repair_pair this prev) as [a b]|]; injection H as <-; reflexivity.
    - (* Insert, Equal *)
      apply (KM_bind (fun s : nat => s) shr); [apply KM_csl|]. intros s. apply KM_same. intros r H.
      destruct (0 <? s).
      + match type of H with bind ?m _ = _ => destruct m as [aft1| |] eqn:E1 end;
          cbn [bind] in H; try discriminate.
        assert (E1' : match map sh aft with
                      | [] => do eo <- sub_chk (op_old_end prev + os0) s;
                              do en <- sub_chk (op_new_end this + ns0) s; Ok [Equal eo en s]
                      | nx :: aft' =>
                          if is_equal_op nx then do nx' <- grow_left nx s; Ok (nx' :: aft')
                          else do eo <- sub_chk (op_old_end prev + os0) s;
                               do en <- sub_chk (op_new_end this + ns0) s;
                               Ok (Equal eo en s :: map sh aft)
                      end = Ok (map sh aft1)).
        { destruct aft as [|nx aft']; cbn [map].
          - apply (new_eq_ok prev this s s [] aft1). exact E1.
          - rewrite is_equal_op_shift. destruct (is_equal_op nx).
            + destruct (grow_left nx s) as [nx'| |] eqn:F; cbn [bind] in E1; try discriminate.
              injection E1 as <-. rewrite (grow_left_ok os0 ns0 _ _ _ F). reflexivity.
            + apply (new_eq_ok prev this s s (nx :: aft') aft1). exact E1. }
        rewrite E1'. cbn [bind].
        destruct (shift_left this s) as [this1| |] eqn:E2; cbn [bind] in H; try discriminate.
        rewrite (shift_left_ok os0 ns0 _ _ _ E2). cbn [bind].
        destruct (shrink_left prev s) as [prev1| |] eqn:E3; cbn [bind] in H; try discriminate.
        rewrite (shrink_left_ok os0 ns0 _ _ _ E3). cbn [bind].
        rewrite op_is_empty_shift. destruct (op_is_empty prev1); injection H as <-; reflexivity.
      + rewrite op_is_empty_shift.
        destruct (op_is_empty prev); injection H as <-; reflexivity.
    - (* Insert, Delete *)
      apply KM_same. intros r H. rewrite repair_pair_shift.
      destruct repair; [destruct (repair_pair this prev) as [a b]|]; injection H as <-; reflexivity.
    - (* Insert, Insert *)
      apply KM_same. intros r H. injection H as <-.
      rewrite op_new_len_shift, grow_right_shift. reflexivity.
  Qed.
  Lemma down_step_KM z :
    KM shr (down_step cmpA repair (shz z)) (down_step cmpL repair z) (down_step cmpT repair z).
  Proof.
    destruct z as [[bef this] aft]. destruct aft as [|next aft'].
    { apply (KM_ok shr (Break (bef, this, []))). }
    unfold shift_z. cbn [map]. unfold down_step.
    rewrite !op_tag_shift, !op_old_start_shift, !op_old_end_shift, !op_new_start_shift,
      !op_new_end_shift.
    assert (Hscan : forall r,
      (do p <- common_prefix_len cmpL (op_old_start next) (op_old_end next) (op_new_start this) (op_new_end this);
       if 0 <? p then
         let bef1 := match bef with
                     | [] => [Equal (op_old_start next) (op_new_start this) p]
                     | pv :: bef' => if is_equal_op pv then grow_right pv p :: bef'
                                     else Equal (op_old_start next) (op_new_start this) p :: bef
                     end in
         let this1 := shift_right this p in
         do next1 <- shrink_right next p;
         if op_is_empty next1 then Ok (Continue (bef1, this1, aft'))
         else Ok (Continue (bef1, this1, next1 :: aft'))
       else if op_is_empty next then Ok (Continue (bef, this, aft'))
            else Ok (Break (bef, this, next :: aft'))) = r ->
      KM shr
        (do p <- common_prefix_len cmpA (op_old_start next + os0) (op_old_end next + os0)
                   (op_new_start this + ns0) (op_new_end this + ns0);
         if 0 <? p then
           let bef1 := match map sh bef with
                       | [] => [Equal (op_old_start next + os0) (op_new_start this + ns0) p]
                       | pv :: bef' => if is_equal_op pv then grow_right pv p :: bef'
                                       else Equal (op_old_start next + os0) (op_new_start this + ns0) p
                                              :: map sh bef
                       end in
           let this1 := shift_right (sh this) p in
           do next1 <- shrink_right (sh next) p;
           if op_is_empty next1 then Ok (Continue (bef1, this1, map sh aft'))
           else Ok (Continue (bef1, this1, next1 :: map sh aft'))
         else if op_is_empty (sh next) then Ok (Continue (map sh bef, sh this, map sh aft'))
              else Ok (Break (map sh bef, sh this, sh next :: map sh aft')))
        r
        (do p <- common_prefix_len cmpT (op_old_start next) (op_old_end next) (op_new_start this) (op_new_end this);
         if 0 <? p then
           let bef1 := match bef with
                       | [] => [Equal (op_old_start next) (op_new_start this) p]
                       | pv :: bef' => if is_equal_op pv then grow_right pv p :: bef'
                                       else Equal (op_old_start next) (op_new_start this) p :: bef
                       end in
           let this1 := shift_right this p in
           do next1 <- shrink_right next p;
           if op_is_empty next1 then Ok (Continue (bef1, this1, aft'))
           else Ok (Continue (bef1, this1, next1 :: aft'))
         else if op_is_empty next then Ok (Continue (bef, this, aft'))
              else Ok (Break (bef, this, next :: aft')))).
    { intros r0 <-.
      apply (KM_bind (fun s : nat => s) shr); [apply KM_cpl|]. intros p. apply KM_same. intros r H.
      cbv zeta in *. destruct (0 <? p).
      - destruct (shrink_right next p) as [next1| |] eqn:E3; cbn [bind] in H; try discriminate.
        rewrite (shrink_right_ok os0 ns0 _ _ _ E3). cbn [bind].
        rewrite op_is_empty_shift, shift_right_shift.
        assert (Hb : match map sh bef with
                     | [] => [Equal (op_old_start next + os0) (op_new_start this + ns0) p]
                     | pv :: bef' => if is_equal_op pv then grow_right pv p :: bef'
                                     else Equal (op_old_start next + os0) (op_new_start this + ns0) p
                                            :: map sh bef
                     end =
                     map sh match bef with
                            | [] => [Equal (op_old_start next) (op_new_start this) p]
                            | pv :: bef' => if is_equal_op pv then grow_right pv p :: bef'
                                            else Equal (op_old_start next) (op_new_start this) p :: bef
                            end).
        { destruct bef as [|pv bef']; [reflexivity|]. cbn [map]. rewrite is_equal_op_shift.
          destruct (is_equal_op pv); [|reflexivity]. cbn [map]. now rewrite grow_right_shift. }
        rewrite Hb. destruct (op_is_empty next1); injection H as <-; reflexivity.
      - rewrite op_is_empty_shift. destruct (op_is_empty next); injection H as <-; reflexivity. }
    destruct (op_tag this) eqn:Et; destruct (op_tag next) eqn:Ep;
      try (apply KM_same; intros r H; discriminate H); try (apply Hscan; reflexivity).
    - (* Delete, Delete *)
      apply KM_same. intros r H. injection H as <-.
      rewrite op_old_len_shift, grow_right_shift. reflexivity.
    - (* Delete, Insert *)
      apply KM_same. intros r H. rewrite repair_pair_shift.
      destruct repair; [destruct (repair_pair next this) as [a b]|]; injection H as <-; reflexivity.
    - (* Insert, Delete *)
      apply KM_same. intros r H. rewrite repair_pair_shift.
      destruct repair; [destruct (repair_pair next this) as [a b]|]; injection H as <-; reflexivity.
    - (* Insert, Insert *)
      apply KM_same. intros r H. injection H as <-.
      rewrite op_new_len_shift, grow_right_shift. reflexivity.
  Qed.
  Lemma run_steps_KM (stA stL stT : zipper -> res step_result) :
    (forall z, KM shr (stA (shz z)) (stL z) (stT z)) ->
    forall fuel z, KM shz (run_steps stA fuel (shz z)) (run_steps stL fuel z) (run_steps stT fuel z).
  Proof.
    intros Hst fuel. induction fuel as [|fuel IH]; intros z; cbn [run_steps].
    { intros rT HT. discriminate HT. }
    apply (KM_bind shr shz); [apply Hst|]. intros r.
    destruct r as [z'|z']; cbn [shift_sr]; [apply IH|apply (KM_ok shz z')].
  Qed.

  Lemma shift_up_KM z :
    KM shz (shift_up cmpA repair (shz z)) (shift_up cmpL repair z) (shift_up cmpT repair z).
  Proof. unfold shift_up. rewrite inner_fuel_shift. apply run_steps_KM. apply up_step_KM. Qed.

  Lemma shift_down_KM z :
    KM shz (shift_down cmpA repair (shz z)) (shift_down cmpL repair z) (shift_down cmpT repair z).
  Proof. unfold shift_down. rewrite inner_fuel_shift. apply run_steps_KM. apply down_step_KM. Qed.

  Lemma rev_shift l : rev (map sh l) = map sh (rev l).
  Proof. symmetry. apply map_rev. Qed.

  Lemma pass_KM t fuel : forall z,
    KM (map sh) (pass cmpA repair t fuel (shz z)) (pass cmpL repair t fuel z)
       (pass cmpT repair t fuel z).
  Proof.
    induction fuel as [|fuel IH]; intros z; cbn [pass].
    { intros rT HT. discriminate HT. }
    apply (KM_bind shz (map sh)).
    - destruct z as [[bef this] aft]. cbn [shift_z]. rewrite op_tag_shift.
      change (map sh bef, sh this, map sh aft) with (shz (bef, this, aft)).
      destruct (match t with
                | TDelete => match op_tag this with TDelete => true | _ => false end
                | TInsert => match op_tag this with TInsert => true | _ => false end
                | _ => false
                end).
      + apply (KM_bind shz shz); [apply shift_up_KM|]. intros zu. apply shift_down_KM.
      + apply (KM_ok shz (bef, this, aft)).
    - intros [[bef this] aft]. cbn [shift_z].
      destruct aft as [|nx aft']; cbn [map].
      + change (sh this :: map sh bef) with (map sh (this :: bef)). rewrite rev_shift.
        apply (KM_ok (map sh)).
      + apply (IH (this :: bef, nx, aft')).
  Qed.

  Lemma run_pass_KM t l :
    KM (map sh) (run_pass cmpA repair t (map sh l)) (run_pass cmpL repair t l)
       (run_pass cmpT repair t l).
  Proof.
    destruct l as [|x l']; cbn [map run_pass]; [apply (KM_ok (map sh) [])|].
    change (sh x :: map sh l') with (map sh (x :: l')). rewrite outer_fuel_shift.
    apply (pass_KM t _ ([], x, l')).
  Qed.

  Lemma cleanup_KM l :
    KM (map sh) (cleanup_diff_ops cmpA repair (map sh l)) (cleanup_diff_ops cmpL repair l)
       (cleanup_diff_ops cmpT repair l).
  Proof.
    unfold cleanup_diff_ops. apply (KM_bind (map sh) (map sh)); [apply run_pass_KM|].
    intros l1. apply run_pass_KM.
  Qed.

  (* the form used below *)
  Theorem cleanup_shift l opsT :
    cleanup_diff_ops cmpT repair l = Ok opsT ->
    cleanup_diff_ops cmpA repair (map sh l) = rmap (map sh) (cleanup_diff_ops cmpL repair l).
  Proof. intros HT. exact (proj1 (cleanup_KM l opsT HT)). Qed.
End CompactKM.

(* ====================================================================== *)
(* Replace commutes with shifting (no checked subtraction there)           *)
(* ====================================================================== *)
Lemma eqb_shift1 o dO dl k : (o + k =? dO + k + dl) = (o =? dO + dl).
Proof.
  destruct (o =? dO + dl) eqn:E.
  - apply Nat.eqb_eq in E. apply Nat.eqb_eq. lia.
  - apply Nat.eqb_neq in E. apply Nat.eqb_neq. lia.
Qed.

Lemma eqb_shift2 inn il n k : (inn + k + il =? n + k) = (inn + il =? n).
Proof.
  destruct (inn + il =? n) eqn:E.
  - apply Nat.eqb_eq in E. apply Nat.eqb_eq. lia.
  - apply Nat.eqb_neq in E. apply Nat.eqb_neq. lia.
Qed.

Section ReplaceShift.
  Variables os0 ns0 : nat.

  Definition shift_del (t : nat * nat * nat) : nat * nat * nat :=
    let '(o, l, n) := t in (o + os0, l, n + ns0).
  Definition shift_ine (t : nat * nat * nat) : nat * nat * nat :=
    let '(o, n, l) := t in (o + os0, n + ns0, l).
  Definition shift_rs (s : rstate) : rstate :=
    {| r_del := option_map shift_del (r_del s);
       r_ins := option_map shift_ine (r_ins s);
       r_eq := option_map shift_ine (r_eq s) |}.

  Lemma replace_step_shift dbg c s :
    replace_step dbg (shift_call os0 ns0 c) (shift_rs s) =
    (map (shift_call os0 ns0) (fst (replace_step dbg c s)),
     option_map shift_rs (snd (replace_step dbg c s))).
  Proof.
    destruct s as [d i e].
    destruct d as [[[dO dl] dn]|]; destruct i as [[[io inn] il]|]; destruct e as [[[eo en] el]|];
      destruct c as [o n l|o l n|o n l|o ol n nl|];
      cbn [replace_step shift_call shift_rs tr_flush_eq tr_flush_del_ins r_del r_ins r_eq
           option_map shift_del shift_ine fst snd map app];
      rewrite ?eqb_shift1, ?eqb_shift2; try reflexivity;
      match goal with |- context [dbg && ?b] => destruct (dbg && b) end; reflexivity.
  Qed.

  Context {WA WL : Type}.
  Variable wdA : world WA.
  Variable wdL : world WL.
  Variable g : WL -> WA.
  Hypothesis g_emit : forall c w, emit wdA (shift_call os0 ns0 c) (g w) = rmap g (emit wdL c w).

  Lemma emit_all_shift cs : forall w,
    emit_all wdA (map (shift_call os0 ns0) cs) (g w) = rmap g (emit_all wdL cs w).
  Proof.
    induction cs as [|c cs IH]; intros w; cbn [map emit_all]; [reflexivity|].
    rewrite g_emit. destruct (emit wdL c w) as [w1| |]; cbn [rmap bind]; try reflexivity.
    apply IH.
  Qed.

  Definition grs (x : rstate * WL) : rstate * WA := (shift_rs (fst x), g (snd x)).

  Lemma replace_emit_shift dbg c x :
    emit (replace_world wdA dbg) (shift_call os0 ns0 c) (grs x) =
    rmap grs (emit (replace_world wdL dbg) c x).
  Proof.
    destruct x as [rs w]. unfold grs. cbn [fst snd emit replace_world].
    rewrite !replace_emit_step, replace_step_shift. unfold run_trace. cbn [fst snd].
    rewrite emit_all_shift.
    destruct (emit_all wdL (fst (replace_step dbg c rs)) w) as [w1| |]; cbn [rmap bind];
      try reflexivity.
    destruct (snd (replace_step dbg c rs)); reflexivity.
  Qed.
End ReplaceShift.

(* ====================================================================== *)
(* A successful run is a walk for the totalised oracle                     *)
(* ====================================================================== *)
Lemma RawWalk_mono cmp1 cmp2 oe ne i j i0 cs :
  (forall a b, cmp1 a b = Ok true -> cmp2 a b = Ok true) ->
  RawWalk cmp1 oe ne i j i0 cs -> RawWalk cmp2 oe ne i j i0 cs.
Proof.
  intros Hm H. induction H as [i0|i j i0 l cs Hl Hseg Hw IH|i j i0 l cs Hl Hw IH
                              |i j i0 o l cs Hl Hlo Hhi Hw IH].
  - apply RW_nil.
  - apply RW_eq; [exact Hl| |exact IH]. intros t Ht. apply Hm, Hseg, Ht.
  - apply RW_del; assumption.
  - apply RW_ins; assumption.
Qed.

Lemma run_walk_tot alg dl dbg orc os oe ns ne w1 :
  os <= oe -> ns <= ne ->
  diff_deadline alg (plain_world dl) dbg orc os oe ns ne plain0 = Ok w1 ->
  exists body, plain_calls w1 = body ++ [CFin] /\ RawWalk (tot_cmp (o_on orc)) oe ne os ns os body.
Proof.
  intros Ho Hn H.
  assert (HS : exists cs, plain_calls w1 = plain_calls plain0 ++ cs /\ RawStrong (tot_cmp (o_on orc)) os oe ns ne cs).
  { destruct alg.
    - apply (diff_deadline_mono Myers _ dbg orc (tot_cmp (o_on orc))) in H;
        [|apply tot_cmp_mono|discriminate].
      cbn [diff_deadline o_on] in H.
      exact (myers_valid dl _ os oe ns ne plain0 w1 (snake_spec _ _ _) Ho Hn
               (tot_cmp_total _ _ _ _ _) H).
    - apply (diff_deadline_mono Patience _ dbg orc (tot_cmp (o_on orc))) in H;
        [|apply tot_cmp_mono|discriminate].
      cbn [diff_deadline o_on o_oo o_nn] in H.
      exact (patience_valid dl dbg _ _ _ os oe ns ne plain0 w1 Ho Hn
               (tot_cmp_total _ _ _ _ _) H).
    - cbn [diff_deadline] in H.
      destruct (lcs_valid _ dl os oe ns ne plain0 w1 Ho Hn H) as (cs & Hcs & body & -> & Hw).
      exists (body ++ [CFin]). split; [exact Hcs|]. exists body. split; [reflexivity|].
      eapply RawWalk_mono; [|exact Hw]. intros a b. apply tot_cmp_mono. }
  destruct HS as (cs & Hcs & body & -> & Hw).
  exists body. split; [exact Hcs|exact Hw].
Qed.

Lemma cleanup_tot_ok cmp repair os oe ns ne body :
  CmpTotal cmp os oe ns ne -> RawWalk cmp oe ne os ns os body ->
  exists ops', cleanup_diff_ops cmp repair (capture_calls body) = Ok ops'.
Proof.
  intros Htot Hw.
  assert (Hp : exists ops, pipeline_ops cmp repair body = Ok ops).
  { destruct repair.
    - destruct (pipeline_repair cmp os oe ns ne body Htot Hw) as (ops & Hp & _). eauto.
    - exact (pipeline_total_norepair cmp os oe ns ne body Hw Htot). }
  destruct Hp as [ops Hp]. unfold pipeline_ops in Hp.
  apply bind_Ok_inv in Hp. destruct Hp as (ops' & Hc & _). eauto.
Qed.

(* ====================================================================== *)
(* capture_diff as "run, then finish"                                      *)
(* ====================================================================== *)

(* what capture_diff does once the algorithm is done: Compact::finish on the
   buffered calls (cleanup, replay through Replace into Capture) *)
Definition fin_capture (dl : deadline) (dbg repair : bool) (orc : oracles) (w' : plain)
  : res (list op * ctr) :=
  do '(_, (_, w)) <- emit (capture_world dl dbg repair orc) CFin (cgs w');
  Ok (capture_calls (plain_calls w), p_ctr w).

Lemma diff_deadline_finsim alg dl dbg repair orc os oe ns ne :
  FinSim (capture_world dl dbg repair orc) (plain_world dl) cgs
    (diff_deadline alg (capture_world dl dbg repair orc) dbg orc os oe ns ne (cgs plain0))
    (diff_deadline alg (plain_world dl) dbg orc os oe ns ne plain0).
Proof.
  destruct alg; cbn [diff_deadline].
  - apply myers_diff_finsim; [apply cgs_tick|apply cgs_probe|apply cgs_emit].
  - apply patience_diff_finsim; [apply cgs_tick|apply cgs_probe|apply cgs_emit].
  - apply lcs_diff_finsim; [apply cgs_tick|apply cgs_probe|apply cgs_emit].
Qed.

Lemma capture_diff_split alg dl dbg repair orc os oe ns ne :
  exists r : res plain,
    diff_deadline alg (plain_world dl) dbg orc os oe ns ne plain0
      = bind r (emit (plain_world dl) CFin) /\ capture_diff alg dl dbg repair orc os oe ns ne = bind r (fin_capture dl dbg repair orc).
Proof.
  destruct (diff_deadline_finsim alg dl dbg repair orc os oe ns ne) as (r & H2 & H1).
  exists r. split; [exact H2|]. unfold capture_diff. rewrite <- cgs_plain0, H1.
  destruct r as [w'| |]; reflexivity.
Qed.

Lemma fin_inj dl os0 ns0 (rA rL : res plain) :
  bind rA (emit (plain_world dl) CFin) =
  rmap (shift_plain os0 ns0) (bind rL (emit (plain_world dl) CFin)) ->
  rA = rmap (shift_plain os0 ns0) rL.
Proof.
  destruct rA as [a| |]; destruct rL as [l| |]; cbn [bind rmap emit plain_world];
    intros H; try discriminate H; try reflexivity.
  destruct a as [ca la]. unfold shift_plain in *. cbn [p_ctr p_log map shift_call] in *.
  injection H as -> ->. reflexivity.
Qed.

(* ====================================================================== *)
(* Finish commutes with shifting on the states the algorithms reach        *)
(* ====================================================================== *)
Lemma capture_calls_shift os0 ns0 cs :
  capture_calls (map (shift_call os0 ns0) cs) = map (shift_op os0 ns0) (capture_calls cs).
Proof.
  induction cs as [|c cs IH]; [reflexivity|]. cbn [map capture_calls].
  destruct c; cbn [shift_call call_to_op map]; rewrite IH; reflexivity.
Qed.

Lemma op_to_call_shift os0 ns0 ops :
  map op_to_call (map (shift_op os0 ns0) ops) ++ [CFin] =
  map (shift_call os0 ns0) (map op_to_call ops ++ [CFin]).
Proof.
  rewrite map_app. cbn [map shift_call]. f_equal. rewrite !map_map. apply map_ext.
  intros x. destruct x; reflexivity.
Qed.

Lemma fin_capture_shift dl dbg repair orcA orcL os0 ns0 w' opsT :
  (forall i j, o_on orcA (i + os0) (j + ns0) = o_on orcL i j) ->
  cleanup_diff_ops (tot_cmp (o_on orcL)) repair (capture_calls (plain_calls w')) = Ok opsT ->
  fin_capture dl dbg repair orcA (shift_plain os0 ns0 w') =
  (do '(ops, c) <- fin_capture dl dbg repair orcL w';
   Ok (map (shift_op os0 ns0) ops, c)).
Proof.
  intros Hon HT. unfold fin_capture, capture_world, cgs. rewrite !compact_fin_eq.
  cbn [shift_plain p_log p_ctr].
  rewrite <- !capture_calls_rev. fold (plain_calls w').
  rewrite <- map_rev. fold (plain_calls w'). rewrite capture_calls_shift.
  rewrite (cleanup_shift os0 ns0 (o_on orcA) (o_on orcL) (tot_cmp (o_on orcL)) Hon
             (tot_cmp_mono _) repair _ opsT HT).
  destruct (cleanup_diff_ops (o_on orcL) repair (capture_calls (plain_calls w')))
    as [ops'| |]; cbn [rmap bind]; try reflexivity.
  rewrite op_to_call_shift.
  change (rstate0, {| p_ctr := p_ctr w'; p_log := [] |})
    with (grs os0 ns0 (shift_plain os0 ns0) (rstate0, {| p_ctr := p_ctr w'; p_log := [] |})) at 1.
  rewrite (emit_all_shift os0 ns0 (replace_world (plain_world dl) dbg)
             (replace_world (plain_world dl) dbg) (grs os0 ns0 (shift_plain os0 ns0))
             (replace_emit_shift os0 ns0 (plain_world dl) (plain_world dl) (shift_plain os0 ns0)
                (shift_plain_emit dl os0 ns0) dbg)).
  destruct (emit_all (replace_world (plain_world dl) dbg) (map op_to_call ops' ++ [CFin])
              (rstate0, {| p_ctr := p_ctr w'; p_log := [] |})) as [[rs w]| |];
    cbn [rmap bind grs fst snd]; try reflexivity.
  rewrite plain_calls_shift, capture_calls_shift. reflexivity.
Qed.

(* ====================================================================== *)
(* C01 for capture_diff                                                    *)
(* ====================================================================== *)
Theorem capture_shift_ext alg dl dbg repair orcA orcL os ns a b c d :
  OrcShift orcA orcL os ns ->
  a <= b -> c <= d ->
  capture_diff alg dl dbg repair orcA (a + os) (b + os) (c + ns) (d + ns) =
  (do '(ops, k) <- capture_diff alg dl dbg repair orcL a b c d;
   Ok (map (shift_op os ns) ops, k)).
Proof.
  intros Horc Hab Hcd.
  destruct (capture_diff_split alg dl dbg repair orcA (a + os) (b + os) (c + ns) (d + ns))
    as (rA & HpA & ->).
  destruct (capture_diff_split alg dl dbg repair orcL a b c d) as (rL & HpL & ->).
  change plain0 with (shift_plain os ns plain0) in HpA at 1.
  rewrite (diff_deadline_shift_ext (plain_world dl) (plain_world dl) (shift_plain os ns) os ns
             (shift_plain_tick dl os ns) (shift_plain_probe dl os ns) (shift_plain_emit dl os ns)
             alg dbg orcA orcL a b c d plain0 Horc) in HpA.
  rewrite HpL in HpA. symmetry in HpA. apply fin_inj in HpA. subst rA.
  destruct rL as [w'| |]; cbn [rmap bind]; try reflexivity.
  cbn [bind] in HpL.
  destruct (run_walk_tot alg dl dbg orcL a b c d _ Hab Hcd HpL) as (body & Hbody & Hwalk).
  cbn [emit plain_world] in Hbody. unfold plain_calls in Hbody. cbn [p_log rev] in Hbody.
  apply app_inj_tail in Hbody. destruct Hbody as [Hbody _].
  destruct (cleanup_tot_ok _ repair a b c d body (tot_cmp_total _ _ _ _ _) Hwalk) as [opsT HT].
  apply (fin_capture_shift dl dbg repair orcA orcL os ns w' opsT (proj1 Horc)).
  unfold plain_calls. rewrite Hbody. exact HT.
Qed.

Theorem capture_shift_gen alg dl dbg repair orc os ns a b c d :
  a <= b -> c <= d ->
  capture_diff alg dl dbg repair orc (a + os) (b + os) (c + ns) (d + ns) =
  (do '(ops, k) <- capture_diff alg dl dbg repair (shift_orc orc os ns) a b c d;
   Ok (map (shift_op os ns) ops, k)).
Proof. apply capture_shift_ext, OrcShift_shift_orc. Qed.

Theorem capture_shift alg dl dbg repair orc os oe ns ne :
  os <= oe -> ns <= ne ->
  capture_diff alg dl dbg repair orc os oe ns ne =
  (do '(ops, c) <- capture_diff alg dl dbg repair (shift_orc orc os ns) 0 (oe - os) 0 (ne - ns);
   Ok (map (shift_op os ns) ops, c)).
Proof.
  intros Ho Hn. rewrite <- capture_shift_gen by lia. cbn [Nat.add].
  now replace (oe - os + os) with oe by lia; replace (ne - ns + ns) with ne by lia.
Qed.

(* ====================================================================== *)
(* The oracles of extracted slices                                         *)
(* ====================================================================== *)

(* utils::OffsetLookup (how the library itself re-bases a slice): items xs / ys
   looked up at absolute positions os.. / ns.. versus the bare slices *)
Lemma OrcShift_offset {A} (eqb : A -> A -> bool) (xs ys : list A) os ns :
  OrcShift (oracles_of_items eqb (offset_lookup os xs) (offset_lookup ns ys))
           (oracles_of_items eqb (slice_lookup xs) (slice_lookup ys)) os ns.
Proof.
  assert (H : forall (l : list A) k i, offset_lookup k l (i + k) = slice_lookup l i).
  { intros l k i. unfold offset_lookup, slice_lookup.
    replace (i + k <? k) with false by (symmetry; apply Nat.ltb_ge; lia).
    now replace (i + k - k) with i by lia. }
  repeat split; intros i j; cbn [oracles_of_items o_on o_oo o_nn]; unfold cmp_of, cmp_same;
    rewrite !H; reflexivity.
Qed.

Lemma nth_error_skipn_add {A} (l : list A) : forall k i,
  nth_error (skipn k l) i = nth_error l (i + k).
Proof.
  induction l as [|x l IH]; intros k i.
  - rewrite skipn_nil. transitivity (@None A); [now destruct i|now destruct (i + k)].
  - destruct k as [|k]; cbn [skipn].
    + now rewrite Nat.add_0_r.
    + rewrite IH. replace (i + S k) with (S (i + k)) by lia. reflexivity.
Qed.

(* the caller's whole sequences versus their tails from the range starts *)
Lemma OrcShift_skipn {A} (eqb : A -> A -> bool) (old new : list A) os ns :
  OrcShift (oracles_of_items eqb (slice_lookup old) (slice_lookup new))
           (oracles_of_items eqb (slice_lookup (skipn os old)) (slice_lookup (skipn ns new)))
           os ns.
Proof.
  repeat split; intros i j; cbn [oracles_of_items o_on o_oo o_nn]; unfold cmp_of, cmp_same,
    slice_lookup; rewrite !nth_error_skipn_add; reflexivity.
Qed.

(* diffing old[os..oe) against new[ns..ne) = diffing the tails old[os..],
   new[ns..] on 0..oe-os / 0..ne-ns, indices shifted back *)
Corollary raw_shift_slices {A} (eqb : A -> A -> bool) (old new : list A) alg dl dbg os oe ns ne :
  os <= oe -> ns <= ne ->
  raw_trace alg dl dbg (oracles_of_items eqb (slice_lookup old) (slice_lookup new)) os oe ns ne =
  (do '(calls, c) <-
      raw_trace alg dl dbg
        (oracles_of_items eqb (slice_lookup (skipn os old)) (slice_lookup (skipn ns new)))
        0 (oe - os) 0 (ne - ns);
   Ok (map (shift_call os ns) calls, c)).
Proof.
  intros Ho Hn. rewrite <- (raw_shift_ext alg dl dbg _ _ os ns 0 (oe - os) 0 (ne - ns)
                              (OrcShift_skipn eqb old new os ns)).
  cbn [Nat.add].
  now replace (oe - os + os) with oe by lia; replace (ne - ns + ns) with ne by lia.
Qed.

Corollary capture_shift_slices {A} (eqb : A -> A -> bool) (old new : list A)
    alg dl dbg repair os oe ns ne :
  os <= oe -> ns <= ne ->
  capture_diff alg dl dbg repair
    (oracles_of_items eqb (slice_lookup old) (slice_lookup new)) os oe ns ne =
  (do '(ops, c) <-
      capture_diff alg dl dbg repair
        (oracles_of_items eqb (slice_lookup (skipn os old)) (slice_lookup (skipn ns new)))
        0 (oe - os) 0 (ne - ns);
   Ok (map (shift_op os ns) ops, c)).
Proof.
  intros Ho Hn. rewrite <- (capture_shift_ext alg dl dbg repair _ _ os ns 0 (oe - os) 0 (ne - ns)
                              (OrcShift_skipn eqb old new os ns)) by lia.
  cbn [Nat.add].
  now replace (oe - os + os) with oe by lia; replace (ne - ns + ns) with ne by lia.
Qed.

Print Assumptions raw_shift_ext.
Print Assumptions capture_shift_ext.
Print Assumptions raw_shift_slices.
Print Assumptions capture_shift_slices.
Print Assumptions raw_shift_gen.
Print Assumptions raw_shift.
Print Assumptions capture_shift_gen.
Print Assumptions capture_shift.
