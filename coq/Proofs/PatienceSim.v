(* Proofs/PatienceSim.v — Myers' diff is parametric in its world: a forward
   simulation between two worlds is preserved by [find_middle_snake],
   [conquer] and [myers_diff] (the algorithm looks at the world only through
   probe answers).  Instances:
   - [log_world wd]: wd plus a ghost log of the calls it receives;
     [myers_log_lift]: every Ok run over wd is the projection of a run over
     [log_world wd];
   - [myers_log_plain]: when wd's deadline never fires, the ghost log of a run
     over [log_world wd] is the call sequence of the stand-alone run over
     [plain_world None]. *)
From Similar Require Import Model.Base Model.Utils Model.Myers Model.Hooks
  Spec.Script Spec.EditGraph Spec.SnakeSpec Proofs.Utils Proofs.WorldInv.

Local Open Scope nat_scope.

(* destruct, in hypothesis H and in the goal at once, the next world-free
   computation H's left-hand side is stuck on *)
Ltac sim_step H w :=
  match type of H with
  | context [bind ?m _] =>
      lazymatch m with
      | context [w] => fail
      | _ => destruct m; cbn [bind] in *; try discriminate
      end
  | context [if ?b then _ else _] => destruct b; cbn [bind] in *; try discriminate
  end.

Section Sim.
  Context {W1 W2 : Type}.
  Variable wd1 : world W1.
  Variable wd2 : world W2.
  Variable R : W1 -> W2 -> Prop.
  Hypothesis Rprobe : forall w1 w2 b w1',
      R w1 w2 -> probe wd1 w1 = (b, w1') -> exists w2', probe wd2 w2 = (b, w2') /\ R w1' w2'.
  Hypothesis Rtick : forall k w1 w2, R w1 w2 -> R (tick wd1 k w1) (tick wd2 k w2).
  Hypothesis Remit : forall c w1 w2 w1',
      R w1 w2 -> emit wd1 c w1 = Ok w1' -> exists w2', emit wd2 c w2 = Ok w2' /\ R w1' w2'.
  Variable cmp : cmpf.

  Lemma fwd_step_sim os oe ns ne d k vf vb w1 w2 r vf' w1' :
    R w1 w2 -> fwd_step wd1 cmp os oe ns ne d k vf vb w1 = Ok (r, vf', w1') ->
    exists w2', fwd_step wd2 cmp os oe ns ne d k vf vb w2 = Ok (r, vf', w2') /\ R w1' w2'.
  Proof.
    intros HR H. unfold fwd_step in *.
    repeat sim_step H w1;
      inversion H; subst; eexists; (split; [reflexivity|]); try apply Rtick; exact HR.
  Qed.

  Lemma bwd_step_sim os oe ns ne d k vf vb w1 w2 r vb' w1' :
    R w1 w2 -> bwd_step wd1 cmp os oe ns ne d k vf vb w1 = Ok (r, vb', w1') ->
    exists w2', bwd_step wd2 cmp os oe ns ne d k vf vb w2 = Ok (r, vb', w2') /\ R w1' w2'.
  Proof.
    intros HR H. unfold bwd_step in *.
    repeat sim_step H w1;
      inversion H; subst; eexists; (split; [reflexivity|]); try apply Rtick; exact HR.
  Qed.

  Lemma fwd_loop_sim os oe ns ne d : forall cnt k vf vb w1 w2 r vf' w1',
    R w1 w2 -> fwd_loop wd1 cmp os oe ns ne cnt d k vf vb w1 = Ok (r, vf', w1') ->
    exists w2', fwd_loop wd2 cmp os oe ns ne cnt d k vf vb w2 = Ok (r, vf', w2') /\ R w1' w2'.
  Proof.
    induction cnt as [|cnt IH]; intros k vf vb w1 w2 r vf' w1' HR H; cbn [fwd_loop] in *.
    - inversion H; subst. eexists. split; [reflexivity|exact HR].
    - apply bind_Ok_inv in H. destruct H as ([[r0 vf1] w1a] & Hs & H).
      destruct (fwd_step_sim _ _ _ _ _ _ _ _ _ _ _ _ _ HR Hs) as (w2a & Hs2 & HRa).
      rewrite Hs2. cbn [bind]. destruct r0 as [p|].
      + inversion H; subst. eexists. split; [reflexivity|exact HRa].
      + eapply IH; eassumption.
  Qed.

  Lemma bwd_loop_sim os oe ns ne d : forall cnt k vf vb w1 w2 r vb' w1',
    R w1 w2 -> bwd_loop wd1 cmp os oe ns ne cnt d k vf vb w1 = Ok (r, vb', w1') ->
    exists w2', bwd_loop wd2 cmp os oe ns ne cnt d k vf vb w2 = Ok (r, vb', w2') /\ R w1' w2'.
  Proof.
    induction cnt as [|cnt IH]; intros k vf vb w1 w2 r vb' w1' HR H; cbn [bwd_loop] in *.
    - inversion H; subst. eexists. split; [reflexivity|exact HR].
    - apply bind_Ok_inv in H. destruct H as ([[r0 vb1] w1a] & Hs & H).
      destruct (bwd_step_sim _ _ _ _ _ _ _ _ _ _ _ _ _ HR Hs) as (w2a & Hs2 & HRa).
      rewrite Hs2. cbn [bind]. destruct r0 as [p|].
      + inversion H; subst. eexists. split; [reflexivity|exact HRa].
      + eapply IH; eassumption.
  Qed.

  Lemma round_loop_sim os oe ns ne : forall rounds d vf vb w1 w2 r vf' vb' w1',
    R w1 w2 -> round_loop wd1 cmp os oe ns ne rounds d vf vb w1 = Ok (r, vf', vb', w1') ->
    exists w2', round_loop wd2 cmp os oe ns ne rounds d vf vb w2 = Ok (r, vf', vb', w2') /\
                R w1' w2'.
  Proof.
    induction rounds as [|rounds IH]; intros d vf vb w1 w2 r vf' vb' w1' HR H;
      cbn [round_loop] in *.
    - inversion H; subst. eexists. split; [reflexivity|exact HR].
    - destruct (probe wd1 w1) as [ex w1a] eqn:Ep.
      destruct (Rprobe _ _ _ _ HR Ep) as (w2a & Ep2 & HRa). rewrite Ep2.
      destruct ex.
      + inversion H; subst. eexists. split; [reflexivity|exact HRa].
      + apply bind_Ok_inv in H. destruct H as ([[r0 vf1] w1b] & Hf & H).
        destruct (fwd_loop_sim _ _ _ _ _ _ _ _ _ _ _ _ _ _ HRa Hf) as (w2b & Hf2 & HRb).
        rewrite Hf2. cbn [bind]. destruct r0 as [p|].
        * inversion H; subst. eexists. split; [reflexivity|exact HRb].
        * apply bind_Ok_inv in H. destruct H as ([[r1 vb1] w1c] & Hb & H).
          destruct (bwd_loop_sim _ _ _ _ _ _ _ _ _ _ _ _ _ _ HRb Hb) as (w2c & Hb2 & HRc).
          rewrite Hb2. cbn [bind]. destruct r1 as [p|].
          -- inversion H; subst. eexists. split; [reflexivity|exact HRc].
          -- eapply IH; eassumption.
  Qed.

  Lemma find_middle_snake_sim os oe ns ne vf vb w1 w2 r vf' vb' w1' :
    R w1 w2 -> find_middle_snake wd1 cmp os oe ns ne vf vb w1 = Ok (r, vf', vb', w1') ->
    exists w2', find_middle_snake wd2 cmp os oe ns ne vf vb w2 = Ok (r, vf', vb', w2') /\
                R w1' w2'.
  Proof.
    intros HR H. unfold find_middle_snake in *.
    destruct (v_set vf 1 0) as [vf0| |]; cbn [bind] in *; try discriminate.
    destruct (v_set vb 1 0) as [vb0| |]; cbn [bind] in *; try discriminate.
    destruct ((vlen vf0 <? max_d (oe - os) (ne - ns)) || (vlen vb0 <? max_d (oe - os) (ne - ns)));
      [discriminate|].
    eapply round_loop_sim; eassumption.
  Qed.

  Lemma emit_eq_opt_sim o n l w1 w2 w1' :
    R w1 w2 -> emit_eq_opt wd1 o n l w1 = Ok w1' ->
    exists w2', emit_eq_opt wd2 o n l w2 = Ok w2' /\ R w1' w2'.
  Proof.
    unfold emit_eq_opt. intros HR H. destruct (0 <? l).
    - eapply Remit; eassumption.
    - inversion H; subst. eauto.
  Qed.

  Definition SimAt (f : nat) : Prop :=
    forall os oe ns ne vf vb w1 w2 vf' vb' w1',
      R w1 w2 -> conquer wd1 cmp f os oe ns ne vf vb w1 = Ok (vf', vb', w1') ->
      exists w2', conquer wd2 cmp f os oe ns ne vf vb w2 = Ok (vf', vb', w2') /\ R w1' w2'.

  Lemma mid_sim f : SimAt f ->
    forall os oe ns ne vf vb w1 w2 vf' vb' w1',
      R w1 w2 -> MidRun wd1 cmp f os oe ns ne vf vb w1 vf' vb' w1' ->
      exists w2', MidRun wd2 cmp f os oe ns ne vf vb w2 vf' vb' w2' /\ R w1' w2'.
  Proof.
    intros IH os oe ns ne vf vb w1 w2 vf' vb' w1' HR HM.
    destruct HM as [Ho Hn|w1a Ho Hn He|w1a Ho Hn He
                   |x y vf1 vb1 w1a vf2 vb2 w1b vf3 vb3 w1c Ho Hn Ef E1 E2
                   |vf1 vb1 w1a w1b w1c Ho Hn Ef E1 E2].
    - exists w2. split; [now apply MR_empty|exact HR].
    - destruct (Remit _ _ _ _ HR He) as (w2a & He2 & HRa).
      exists w2a. split; [now apply MR_del|exact HRa].
    - destruct (Remit _ _ _ _ HR He) as (w2a & He2 & HRa).
      exists w2a. split; [now apply MR_ins|exact HRa].
    - destruct (find_middle_snake_sim _ _ _ _ _ _ _ _ _ _ _ _ HR Ef) as (w2a & Ef2 & HRa).
      destruct (IH _ _ _ _ _ _ _ _ _ _ _ HRa E1) as (w2b & E12 & HRb).
      destruct (IH _ _ _ _ _ _ _ _ _ _ _ HRb E2) as (w2c & E22 & HRc).
      exists w2c. split; [eapply MR_split; eassumption|exact HRc].
    - destruct (find_middle_snake_sim _ _ _ _ _ _ _ _ _ _ _ _ HR Ef) as (w2a & Ef2 & HRa).
      destruct (Remit _ _ _ _ HRa E1) as (w2b & E12 & HRb).
      destruct (Remit _ _ _ _ HRb E2) as (w2c & E22 & HRc).
      exists w2c. split; [eapply MR_fallback; eassumption|exact HRc].
  Qed.

  Theorem conquer_sim f : SimAt f.
  Proof.
    induction f as [|f IH]; intros os oe ns ne vf vb w1 w2 vf' vb' w1' HR H.
    - cbn [conquer] in H. discriminate.
    - apply conquer_S_iff in H.
      destruct H as [p w1a s vf1 vb1 w1c w1d Hp Hw1 Hs Hso Hsn Hm Hw4].
      destruct (emit_eq_opt_sim _ _ _ _ _ _ (Rtick (scan_cmps os oe ns ne p) _ _ HR) Hw1)
        as (w2a & Hw12 & HRa).
      destruct (mid_sim f IH _ _ _ _ _ _ _ _ _ _ _
                  (Rtick (scan_cmps (os + p) oe (ns + p) ne s) _ _ HRa) Hm)
        as (w2c & Hm2 & HRc).
      destruct (emit_eq_opt_sim _ _ _ _ _ _ HRc Hw4) as (w2d & Hw42 & HRd).
      exists w2d. split; [|exact HRd]. apply conquer_S_iff.
      eapply Run1_intro; eassumption.
  Qed.

  Theorem myers_diff_sim os oe ns ne w1 w2 w1' :
    R w1 w2 -> myers_diff wd1 cmp os oe ns ne w1 = Ok w1' ->
    exists w2', myers_diff wd2 cmp os oe ns ne w2 = Ok w2' /\ R w1' w2'.
  Proof.
    intros HR H. apply myers_diff_inv in H. destruct H as (vf' & vb' & w1a & Hc & He).
    destruct (conquer_sim _ _ _ _ _ _ _ _ _ _ _ _ HR Hc) as (w2a & Hc2 & HRa).
    destruct (Remit _ _ _ _ HRa He) as (w2' & He2 & HR').
    exists w2'. split; [|exact HR']. unfold myers_diff. rewrite Hc2. exact He2.
  Qed.
End Sim.

(* --------------------------------------------------------- the ghost log *)
(* [wd] plus the list of calls received so far, most recent first *)
Definition log_world {W} (wd : world W) : world (list call * W) := {|
  emit := fun c tw => do w' <- emit wd c (snd tw); Ok (c :: fst tw, w');
  probe := lift_probe wd;
  tick := lift_tick wd
|}.

Lemma log_emit_inv {W} (wd : world W) c T w T' w' :
  emit (log_world wd) c (T, w) = Ok (T', w') -> T' = c :: T /\ emit wd c w = Ok w'.
Proof.
  cbn [emit log_world fst snd]. intros H. apply bind_Ok_inv in H.
  destruct H as (w1 & He & H). inversion H; subst. auto.
Qed.

Lemma log_emit {W} (wd : world W) c T w w' :
  emit wd c w = Ok w' -> emit (log_world wd) c (T, w) = Ok (c :: T, w').
Proof. intros H. cbn [emit log_world fst snd]. rewrite H. reflexivity. Qed.

Lemma log_probe {W} (wd : world W) T w :
  probe (log_world wd) (T, w) = (fst (probe wd w), (T, snd (probe wd w))).
Proof.
  unfold log_world, lift_probe. cbn [probe fst snd]. destruct (probe wd w). reflexivity.
Qed.

(* every Ok run is the projection of a run with the ghost log *)
Theorem myers_log_lift {W} (wd : world W) cmp os oe ns ne w w' T :
  myers_diff wd cmp os oe ns ne w = Ok w' ->
  exists T', myers_diff (log_world wd) cmp os oe ns ne (T, w) = Ok (T', w').
Proof.
  intros H.
  destruct (myers_diff_sim wd (log_world wd) (fun w1 tw => snd tw = w1)) with
    (cmp := cmp) (os := os) (oe := oe) (ns := ns) (ne := ne) (w1 := w) (w2 := (T, w)) (w1' := w')
    as ([T' w2'] & Hm & HR); try assumption; try reflexivity.
  - intros w1 [T1 w2] b w1' HR Hp. cbn [snd] in HR. subst w2.
    exists (T1, w1'). rewrite log_probe, Hp. split; reflexivity.
  - intros k w1 [T1 w2] HR. cbn [snd] in *. subst w2. reflexivity.
  - intros c w1 [T1 w2] w1' HR He. cbn [snd] in HR. subst w2.
    exists (c :: T1, w1'). split; [now apply log_emit|reflexivity].
  - cbn [snd] in HR. subst w2'. exists T'. exact Hm.
Qed.

(* without a deadline the ghost log is the stand-alone run's call sequence *)
Theorem myers_log_plain {W} (wd : world W) cmp os oe ns ne T w T' w' pl :
  (forall x, fst (probe wd x) = false) ->
  myers_diff (log_world wd) cmp os oe ns ne (T, w) = Ok (T', w') ->
  p_log pl = T ->
  exists pl', myers_diff (plain_world None) cmp os oe ns ne pl = Ok pl' /\ p_log pl' = T'.
Proof.
  intros Hnd H Hpl.
  destruct (myers_diff_sim (log_world wd) (plain_world None) (fun tw p => p_log p = fst tw))
    with (cmp := cmp) (os := os) (oe := oe) (ns := ns) (ne := ne)
         (w1 := (T, w)) (w2 := pl) (w1' := (T', w'))
    as (pl' & Hm & HR); try assumption.
  - intros [T1 w1] p b [T1' w1'] HR Hp. rewrite log_probe in Hp. inversion Hp; subst.
    rewrite Hnd. eexists. split; [cbn [probe plain_world deadline_exceeded]; reflexivity|].
    cbn [p_log]. exact HR.
  - intros k [T1 w1] p HR. exact HR.
  - intros c [T1 w1] p [T1' w1'] HR He. apply log_emit_inv in He. destruct He as [-> He].
    cbn [fst] in *. eexists. split; [reflexivity|]. cbn [p_log]. now rewrite HR.
  - exists pl'. split; [exact Hm|exact HR].
Qed.

Print Assumptions myers_diff_sim.
Print Assumptions myers_log_lift.
Print Assumptions myers_log_plain.
