(* Proofs/Main.v — compositions of the component theorems into the statements
   pinned in Props/C01, C03, C07, C08, C10. *)
From Similar Require Import Model.Base Model.Utils Model.Myers Model.Lcs Model.Hooks Model.Compact Model.Capture
  Spec.Script Spec.EditGraph Spec.SnakeSpec Check.Script
  Proofs.Utils Proofs.CheckScript Proofs.Replace Proofs.LcsLen Proofs.Lcs Proofs.Compact
  Proofs.MyersSnake Proofs.WorldInv Proofs.MyersConquer.

Section Raw.
  Variable cmp : cmpf.

  (* a strong raw walk, read as ops, is an exact-enough loose op walk *)
  Lemma RawWalk_ops oe ne i j i0 body :
    RawWalk cmp oe ne i j i0 body -> OpsWalk cmp false oe ne i j (capture_calls body).
  Proof.
    intros H. induction H as [i0|i j i0 l cs Hl Hs Hw IH|i j i0 l cs Hl Hw IH|i j i0 o l cs Hl Ho1 Ho2 Hw IH];
      cbn [capture_calls call_to_op].
    - constructor.
    - now constructor.
    - pose proof (RawWalk_bounds _ _ _ _ _ _ _ Hw) as [Hb _].
      constructor; [discriminate|exact Hb|exact IH].
    - pose proof (RawWalk_bounds _ _ _ _ _ _ _ Hw) as [_ Hb].
      constructor; [discriminate|exact Hb|exact IH].
  Qed.

  Lemma capture_calls_app a b : capture_calls (a ++ b) = capture_calls a ++ capture_calls b.
  Proof.
    induction a as [|c a IH]; [reflexivity|]. cbn [app capture_calls].
    destruct (call_to_op c); cbn [app]; now rewrite IH.
  Qed.

  Lemma RawStrong_ops os oe ns ne cs :
    RawStrong cmp os oe ns ne cs -> OpsLoose cmp os oe ns ne (capture_calls cs).
  Proof.
    intros (body & -> & Hw). rewrite capture_calls_app. cbn [capture_calls call_to_op].
    rewrite app_nil_r. eapply RawWalk_ops; eauto.
  Qed.

  (* ---------------- Myers ---------------- *)
  Theorem myers_raw_valid dl os oe ns ne w0 w1 :
    os <= oe -> ns <= ne -> CmpTotal cmp os oe ns ne ->
    myers_diff (plain_world dl) cmp os oe ns ne w0 = Ok w1 ->
    exists cs, plain_calls w1 = plain_calls w0 ++ cs /\
               RawStrong cmp os oe ns ne cs /\ RawValid cmp os oe ns ne cs /\ FinishLast cs.
  Proof.
    intros Ho Hn Ht Hr.
    destruct (myers_valid dl cmp os oe ns ne w0 w1 (snake_spec _ _ _) Ho Hn Ht Hr) as (cs & Hl & Hs).
    exists cs. repeat split; auto.
    - now apply RawStrong_valid.
    - eapply RawStrong_finish_last; eauto.
  Qed.

  Theorem myers_raw_no_panic dl os oe ns ne w0 :
    os <= oe -> ns <= ne -> CmpTotal cmp os oe ns ne ->
    exists w1, myers_diff (plain_world dl) cmp os oe ns ne w0 = Ok w1.
  Proof. intros. apply myers_no_panic; auto. apply snake_spec. Qed.

  Theorem myers_raw_minimal os oe ns ne w0 w1 cs L :
    os <= oe -> ns <= ne -> CmpTotal cmp os oe ns ne ->
    myers_diff (plain_world None) cmp os oe ns ne w0 = Ok w1 ->
    plain_calls w1 = plain_calls w0 ++ cs ->
    IsLcsLen cmp os oe ns ne L ->
    deleted (capture_calls cs) + inserted (capture_calls cs) + 2 * L = (oe - os) + (ne - ns).
  Proof. intros. eapply myers_minimal_lcs; eauto. apply snake_spec. Qed.

  (* ---------------- LCS ---------------- *)
  Theorem lcs_raw_valid dl os oe ns ne w0 w1 :
    os <= oe -> ns <= ne ->
    lcs_diff (plain_world dl) cmp os oe ns ne w0 = Ok w1 ->
    exists cs, plain_calls w1 = plain_calls w0 ++ cs /\
               RawStrong cmp os oe ns ne cs /\ RawValid cmp os oe ns ne cs /\ FinishLast cs.
  Proof.
    intros Ho Hn Hr. destruct (lcs_valid cmp dl os oe ns ne w0 w1 Ho Hn Hr) as (cs & Hl & Hs).
    exists cs. repeat split; auto.
    - now apply RawStrong_valid.
    - eapply RawStrong_finish_last; eauto.
  Qed.

  Theorem lcs_raw_minimal os oe ns ne w0 w1 cs L :
    os <= oe -> ns <= ne ->
    lcs_diff (plain_world None) cmp os oe ns ne w0 = Ok w1 ->
    plain_calls w1 = plain_calls w0 ++ cs ->
    IsLcsLen cmp os oe ns ne L ->
    deleted (capture_calls cs) + inserted (capture_calls cs) + 2 * L = (oe - os) + (ne - ns).
  Proof.
    intros Ho Hn Hr Hl HL.
    pose proof (lcs_minimal cmp os oe ns ne w0 w1 cs Ho Hn Hr Hl) as Hm.
    pose proof (IsLcsLen_unique cmp os oe ns ne _ _ HL (lcs_len_correct cmp os oe ns ne)) as ->.
    exact Hm.
  Qed.

  (* every valid script costs at least N + M - 2L *)
  Theorem raw_cost_lower os oe ns ne cs L :
    RawStrong cmp os oe ns ne cs -> IsLcsLen cmp os oe ns ne L ->
    (oe - os) + (ne - ns) <= deleted (capture_calls cs) + inserted (capture_calls cs) + 2 * L.
  Proof.
    intros Hs HL. apply RawStrong_ops in Hs.
    destruct (valid_cost_lower cmp os oe ns ne _ L Hs HL) as (_ & _ & _ & H). exact H.
  Qed.
End Raw.

(* replaying a valid raw script on the old range reproduces the new range *)
Section Replay.
  Context {A : Type}.
  Variable eqb : A -> A -> bool.
  Hypothesis eqb_eq : forall x y, eqb x y = true -> x = y.
  Variables old new : list A.
  Let cmp := cmp_of eqb (slice_lookup old) (slice_lookup new).

  Theorem raw_replay os oe ns ne cs :
    ns <= ne -> RawStrong cmp os oe ns ne cs ->
    apply_ops old new (capture_calls cs) = seg new ns (ne - ns).
  Proof.
    intros Hn Hs. apply RawStrong_ops in Hs.
    eapply (apply_ops_correct eqb eqb_eq old new false oe ne); eauto.
  Qed.
End Replay.

(* ---------------- hook protocol (C08) ---------------- *)
Lemma no_finish_spec {W} (wd : world W) (c : call) (w : W) :
  emit (no_finish wd) c w = match c with CFin => Ok w | _ => emit wd c w end.
Proof. destruct c; reflexivity. Qed.

Lemma default_replace_spec {W} (wd : world W) (c : call) (w : W) :
  emit (default_replace wd) c w =
  match c with
  | CRep o ol n nl => do w1 <- emit wd (CDel o ol n) w; emit wd (CIns o n nl) w1
  | _ => emit wd c w
  end.
Proof. destruct c; reflexivity. Qed.

Theorem myers_finish_last (cmp : cmpf) dl os oe ns ne w0 w1 :
  os <= oe -> ns <= ne -> CmpTotal cmp os oe ns ne ->
  myers_diff (plain_world dl) cmp os oe ns ne w0 = Ok w1 ->
  exists cs, plain_calls w1 = plain_calls w0 ++ cs /\ FinishLast cs.
Proof.
  intros Ho Hn Ht Hr. destruct (myers_raw_valid cmp dl os oe ns ne w0 w1 Ho Hn Ht Hr) as (cs & Hl & _ & _ & Hf).
  exists cs; auto.
Qed.

Theorem lcs_finish_last (cmp : cmpf) dl os oe ns ne w0 w1 :
  os <= oe -> ns <= ne ->
  lcs_diff (plain_world dl) cmp os oe ns ne w0 = Ok w1 ->
  exists cs, plain_calls w1 = plain_calls w0 ++ cs /\ FinishLast cs.
Proof.
  intros Ho Hn Hr. destruct (lcs_raw_valid cmp dl os oe ns ne w0 w1 Ho Hn Hr) as (cs & Hl & _ & _ & Hf).
  exists cs; auto.
Qed.

Theorem myers_no_finish_body (cmp : cmpf) dl os oe ns ne w0 w1 :
  os <= oe -> ns <= ne -> CmpTotal cmp os oe ns ne ->
  myers_diff (no_finish (plain_world dl)) cmp os oe ns ne w0 = Ok w1 ->
  exists body, plain_calls w1 = plain_calls w0 ++ body /\ RawWalk cmp oe ne os ns os body /\ ~ In CFin body.
Proof.
  intros Ho Hn Ht Hr.
  destruct (myers_valid_no_finish dl cmp os oe ns ne w0 w1 (snake_spec _ _ _) Ho Hn Ht Hr) as (body & Hl & Hw).
  exists body. repeat split; auto. eapply RawWalk_no_fin; eauto.
Qed.
