(* Proofs/Utils.v — specifications of common_prefix_len / common_suffix_len. *)
From Similar Require Import Model.Base Model.Utils Spec.Script.

Section Utils.
  Variable cmp : cmpf.

  Lemma SegEq_0 o n : SegEq cmp o n 0.
  Proof. intros t Ht; lia. Qed.

  Lemma SegEq_S o n l :
    cmp o n = Ok true -> SegEq cmp (S o) (S n) l -> SegEq cmp o n (S l).
  Proof.
    intros H0 H t Ht. destruct t as [|t].
    - now rewrite !Nat.add_0_r.
    - replace (o + S t) with (S o + t) by lia. replace (n + S t) with (S n + t) by lia.
      apply H; lia.
  Qed.

  Lemma SegEq_app o n l1 l2 :
    SegEq cmp o n l1 -> SegEq cmp (o + l1) (n + l1) l2 -> SegEq cmp o n (l1 + l2).
  Proof.
    intros H1 H2 t Ht. destruct (Nat.lt_ge_cases t l1) as [Hlt|Hge].
    - now apply H1.
    - replace (o + t) with (o + l1 + (t - l1)) by lia.
      replace (n + t) with (n + l1 + (t - l1)) by lia. apply H2; lia.
  Qed.

  Lemma SegEq_snoc o n l :
    SegEq cmp o n l -> cmp (o + l) (n + l) = Ok true -> SegEq cmp o n (S l).
  Proof.
    intros H1 H2. replace (S l) with (l + 1) by lia. apply SegEq_app; [exact H1|].
    intros t Ht. assert (t = 0) by lia; subst. now rewrite !Nat.add_0_r.
  Qed.

  Lemma SegEq_prefix o n l l' : l' <= l -> SegEq cmp o n l -> SegEq cmp o n l'.
  Proof. intros Hle H t Ht. apply H; lia. Qed.

  Lemma SegEq_suffix o n l k : k <= l -> SegEq cmp o n l -> SegEq cmp (o + k) (n + k) (l - k).
  Proof.
    intros Hle H t Ht. replace (o + k + t) with (o + (k + t)) by lia.
    replace (n + k + t) with (n + (k + t)) by lia. apply H; lia.
  Qed.

  (* ---- prefix ---- *)
  Lemma prefix_from_spec k : forall i j p,
    prefix_from cmp i j k = Ok p ->
    p <= k /\ SegEq cmp i j p /\ (p < k -> cmp (i + p) (j + p) = Ok false).
  Proof.
    induction k as [|k IH]; intros i j p H; cbn [prefix_from] in H.
    - inversion H; subst. split; [lia|]. split; [apply SegEq_0|lia].
    - destruct (cmp i j) as [b| |] eqn:E; cbn [bind] in H; try discriminate.
      destruct b.
      + destruct (prefix_from cmp (S i) (S j) k) as [q| |] eqn:Eq; cbn [bind] in H; try discriminate.
        inversion H; subst p. destruct (IH _ _ _ Eq) as (Hle & Hseg & Hstop).
        split; [lia|]. split; [now apply SegEq_S|].
        intros Hlt. replace (i + S q) with (S i + q) by lia. replace (j + S q) with (S j + q) by lia.
        apply Hstop; lia.
      + inversion H; subst p. split; [lia|]. split; [apply SegEq_0|].
        intros _. now rewrite !Nat.add_0_r.
  Qed.

  Lemma prefix_from_total k : forall i j,
    (forall t, t < k -> exists b, cmp (i + t) (j + t) = Ok b) ->
    exists p, prefix_from cmp i j k = Ok p.
  Proof.
    induction k as [|k IH]; intros i j Htot; cbn [prefix_from].
    - now exists 0.
    - destruct (Htot 0 ltac:(lia)) as [b Hb]. rewrite !Nat.add_0_r in Hb. rewrite Hb. cbn [bind].
      destruct b; [|now exists 0].
      destruct (IH (S i) (S j)) as [q Hq].
      + intros t Ht. destruct (Htot (S t) ltac:(lia)) as [b' Hb'].
        exists b'. now replace (S i + t) with (i + S t) by lia; replace (S j + t) with (j + S t) by lia.
      + rewrite Hq. cbn [bind]. now exists (S q).
  Qed.

  Lemma common_prefix_len_spec os oe ns ne p :
    common_prefix_len cmp os oe ns ne = Ok p ->
    p <= oe - os /\ p <= ne - ns /\ SegEq cmp os ns p /\
    (p < oe - os -> p < ne - ns -> cmp (os + p) (ns + p) = Ok false).
  Proof.
    unfold common_prefix_len, empty_range. intros H.
    destruct ((oe <=? os) || (ne <=? ns)) eqn:E.
    - inversion H; subst. repeat split; try lia. apply SegEq_0.
      apply Bool.orb_true_iff in E. destruct E as [E|E]; apply Nat.leb_le in E; lia.
    - apply prefix_from_spec in H. destruct H as (Hle & Hseg & Hstop).
      repeat split; try lia; auto. intros; apply Hstop; lia.
  Qed.

  Lemma common_prefix_len_total os oe ns ne :
    (forall i j, os <= i < oe -> ns <= j < ne -> exists b, cmp i j = Ok b) ->
    exists p, common_prefix_len cmp os oe ns ne = Ok p.
  Proof.
    intros Htot. unfold common_prefix_len.
    destruct (empty_range os oe || empty_range ns ne); [now exists 0|].
    apply prefix_from_total. intros t Ht.
    assert (t < oe - os) by (eapply Nat.lt_le_trans; [exact Ht|apply Nat.le_min_l]).
    assert (t < ne - ns) by (eapply Nat.lt_le_trans; [exact Ht|apply Nat.le_min_r]).
    apply Htot; lia.
  Qed.

  (* ---- suffix ---- *)
  Lemma suffix_from_spec k : forall oe ne s,
    k <= oe -> k <= ne ->
    suffix_from cmp oe ne k = Ok s ->
    s <= k /\ SegEq cmp (oe - s) (ne - s) s /\
    (s < k -> cmp (oe - s - 1) (ne - s - 1) = Ok false).
  Proof.
    induction k as [|k IH]; intros oe ne s Ho Hn H; cbn [suffix_from] in H.
    - inversion H; subst. split; [lia|]. split; [apply SegEq_0|lia].
    - destruct (cmp (oe - 1) (ne - 1)) as [b| |] eqn:E; cbn [bind] in H; try discriminate.
      destruct b.
      + destruct (suffix_from cmp (oe - 1) (ne - 1) k) as [q| |] eqn:Eq; cbn [bind] in H; try discriminate.
        inversion H; subst s.
        destruct (IH (oe - 1) (ne - 1) q ltac:(lia) ltac:(lia) Eq) as (Hle & Hseg & Hstop).
        split; [lia|]. split.
        * replace (oe - S q) with (oe - 1 - q) by lia. replace (ne - S q) with (ne - 1 - q) by lia.
          apply SegEq_snoc; [exact Hseg|].
          replace (oe - 1 - q + q) with (oe - 1) by lia. replace (ne - 1 - q + q) with (ne - 1) by lia.
          exact E.
        * intros Hlt. replace (oe - S q - 1) with (oe - 1 - q - 1) by lia.
          replace (ne - S q - 1) with (ne - 1 - q - 1) by lia. apply Hstop; lia.
      + inversion H; subst s. split; [lia|]. split; [apply SegEq_0|].
        intros _. now rewrite !Nat.sub_0_r.
  Qed.

  Lemma suffix_from_total k : forall oe ne,
    k <= oe -> k <= ne ->
    (forall t, t < k -> exists b, cmp (oe - 1 - t) (ne - 1 - t) = Ok b) ->
    exists s, suffix_from cmp oe ne k = Ok s.
  Proof.
    induction k as [|k IH]; intros oe ne Ho Hn Htot; cbn [suffix_from].
    - now exists 0.
    - destruct (Htot 0 ltac:(lia)) as [b Hb]. rewrite !Nat.sub_0_r in Hb. rewrite Hb. cbn [bind].
      destruct b; [|now exists 0].
      destruct (IH (oe - 1) (ne - 1) ltac:(lia) ltac:(lia)) as [q Hq].
      + intros t Ht. destruct (Htot (S t) ltac:(lia)) as [b' Hb'].
        exists b'. now replace (oe - 1 - 1 - t) with (oe - 1 - S t) by lia;
          replace (ne - 1 - 1 - t) with (ne - 1 - S t) by lia.
      + rewrite Hq. cbn [bind]. now exists (S q).
  Qed.

  Lemma common_suffix_len_spec os oe ns ne s :
    common_suffix_len cmp os oe ns ne = Ok s ->
    s <= oe - os /\ s <= ne - ns /\ SegEq cmp (oe - s) (ne - s) s /\
    (s < oe - os -> s < ne - ns -> cmp (oe - s - 1) (ne - s - 1) = Ok false).
  Proof.
    unfold common_suffix_len, empty_range. intros H.
    destruct ((oe <=? os) || (ne <=? ns)) eqn:E.
    - inversion H; subst. repeat split; try lia. apply SegEq_0.
      apply Bool.orb_true_iff in E. destruct E as [E|E]; apply Nat.leb_le in E; lia.
    - apply Bool.orb_false_iff in E. destruct E as [E1 E2].
      apply Nat.leb_gt in E1. apply Nat.leb_gt in E2.
      apply suffix_from_spec in H; [|lia|lia]. destruct H as (Hle & Hseg & Hstop).
      repeat split; try lia; auto. intros; apply Hstop; lia.
  Qed.

  Lemma common_suffix_len_total os oe ns ne :
    (forall i j, os <= i < oe -> ns <= j < ne -> exists b, cmp i j = Ok b) ->
    exists s, common_suffix_len cmp os oe ns ne = Ok s.
  Proof.
    intros Htot. unfold common_suffix_len, empty_range.
    destruct ((oe <=? os) || (ne <=? ns)) eqn:E; [now exists 0|].
    apply Bool.orb_false_iff in E. destruct E as [E1 E2].
    apply Nat.leb_gt in E1. apply Nat.leb_gt in E2.
    apply suffix_from_total; try lia. intros t Ht.
    assert (t < oe - os) by (eapply Nat.lt_le_trans; [exact Ht|apply Nat.le_min_l]).
    assert (t < ne - ns) by (eapply Nat.lt_le_trans; [exact Ht|apply Nat.le_min_r]).
    apply Htot; lia.
  Qed.
End Utils.
