(* Proofs/CloseFlocq.v — C18 with IEEE-754 binary32 in place of the abstract
   rounding (Flocq 4.1).

   F := R (the value of a finite binary32 number), leF := Rle_bool,
   rd := round-to-nearest-even to the binary32 format (radix 2, precision 24,
   emin = -149; no overflow can occur here: all quantities are below 2^65).

   Two instances of the evaluation of a ratio:
   - [rnd32]: one rounding of the exact rational 2k/n (what f32 computes
     while k, n < 2^24);
   - [ev32]: the expression as written, `2.0 * k as f32 / n as f32`, with its
     four roundings (two casts, the product, the quotient), for operands of
     any size.
   Both are monotone, which is all the theorems of Proofs/Close.v ask for.
   [key32] is `(ratio * u32::MAX as f32) as u32` (saturating cast).

   This file depends on the axioms of the standard library's real numbers
   (see the Print Assumptions output at the end); Proofs/Close.v and
   Props/C18.v do not. *)
From Coq Require Import Reals ZArith QArith Qreals Lra Lia Sorted Permutation.
From Flocq Require Import Core.
From Similar Require Import Model.Base Model.Close Proofs.Close.
Local Close Scope Q_scope.
Local Open Scope R_scope.

Definition fexp32 : Z -> Z := FLT_exp (-149) 24.

Global Instance prec24_gt_0 : Prec_gt_0 24.
Proof. reflexivity. Qed.

Global Instance fexp32_valid : Valid_exp fexp32.
Proof. apply FLT_exp_valid. exact prec24_gt_0. Qed.

Definition rd (x : R) : R := round radix2 fexp32 ZnearestE x.

Lemma rd_le x y : x <= y -> rd x <= rd y.
Proof. apply round_le; [exact fexp32_valid|apply valid_rnd_N]. Qed.

Lemma rd_0 : rd 0 = 0.
Proof. apply round_0. apply valid_rnd_N. Qed.

Lemma rd_1 : rd 1 = 1.
Proof.
  apply round_generic; [apply valid_rnd_N|].
  apply generic_format_FLT_1; [exact prec24_gt_0|lia].
Qed.

Lemma rd_nonneg x : 0 <= x -> 0 <= rd x.
Proof. intros H. rewrite <- rd_0. apply rd_le, H. Qed.

Lemma Rle_bool_iff a b : Rle_bool a b = true <-> a <= b.
Proof.
  destruct (Rle_bool_spec a b) as [H|H]; split; intros H'; try reflexivity; try assumption.
  - discriminate.
  - lra.
Qed.

Lemma Rle_bool_trans a b c : Rle_bool a b = true -> Rle_bool b c = true -> Rle_bool a c = true.
Proof. rewrite !Rle_bool_iff. apply Rle_trans. Qed.

(* ---------------------------------------------------------------------- *)
(* one rounding of the exact rational                                       *)
(* ---------------------------------------------------------------------- *)
Definition rnd32 (q : Q) : R := rd (Q2R q).

Lemma rnd32_mono q1 q2 : (q1 <= q2)%Q -> Rle_bool (rnd32 q1) (rnd32 q2) = true.
Proof. intros H. apply Rle_bool_iff, rd_le, Qle_Rle, H. Qed.

(* rnd 1 is the literal 1.0 *)
Lemma rnd32_one : rnd32 1 = 1.
Proof.
  unfold rnd32. replace (Q2R 1) with 1; [apply rd_1|].
  unfold Q2R. cbn [Qnum Qden]. lra.
Qed.

(* ---------------------------------------------------------------------- *)
(* the expression as written                                                *)
(* ---------------------------------------------------------------------- *)
Definition ev32 (x : frac) : R :=
  match x with
  | None => 1
  | Some (k, n) => rd (rd (2 * rd (INR k)) / rd (INR n))
  end.

Lemma cast_pos n : (0 < n)%nat -> 1 <= rd (INR n).
Proof.
  intros Hn. rewrite <- rd_1. apply rd_le.
  change 1 with (INR 1). apply le_INR. lia.
Qed.

Lemma ev32_mono x y : frac_le x y -> Rle_bool (ev32 x) (ev32 y) = true.
Proof.
  destruct x as [[k1 n1]|], y as [[k2 n2]|]; cbn [frac_le]; intros H; try contradiction.
  - destruct H as (Hk & Hn & Hp). apply Rle_bool_iff. cbn [ev32]. apply rd_le.
    set (X1 := rd (2 * rd (INR k1))). set (X2 := rd (2 * rd (INR k2))).
    set (D1 := rd (INR n1)). set (D2 := rd (INR n2)).
    assert (HX : X1 <= X2).
    { apply rd_le. assert (rd (INR k1) <= rd (INR k2)) by (apply rd_le, le_INR, Hk). lra. }
    assert (HX0 : 0 <= X1).
    { apply rd_nonneg. assert (0 <= rd (INR k1)) by (apply rd_nonneg, pos_INR). lra. }
    assert (HD2 : 1 <= D2) by (apply cast_pos, Hp).
    assert (HD : D2 <= D1) by (apply rd_le, le_INR, Hn).
    unfold Rdiv. apply Rle_trans with (X1 * / D2).
    + apply Rmult_le_compat_l; [exact HX0|]. apply Rinv_le_contravar; lra.
    + apply Rmult_le_compat_r; [|exact HX]. left. apply Rinv_0_lt_compat. lra.
  - apply Rle_bool_iff. apply Rle_refl.
Qed.

(* ---------------------------------------------------------------------- *)
(* the heap key                                                             *)
(* ---------------------------------------------------------------------- *)
Definition u32_max : Z := 4294967295.

(* (ratio * u32::MAX as f32) as u32: the cast truncates and saturates *)
Definition key32 (x : R) : nat :=
  Z.to_nat (Z.min (Ztrunc (rd (x * rd (IZR u32_max)))) u32_max).

Lemma key32_mono a b : Rle_bool a b = true -> (key32 a <= key32 b)%nat.
Proof.
  rewrite Rle_bool_iff. intros H. unfold key32.
  assert (Hc : 0 <= rd (IZR u32_max)).
  { apply rd_nonneg. apply IZR_le. unfold u32_max. lia. }
  assert (Hz : (Ztrunc (rd (a * rd (IZR u32_max))) <= Ztrunc (rd (b * rd (IZR u32_max))))%Z).
  { apply Ztrunc_le, rd_le. apply Rmult_le_compat_r; assumption. }
  lia.
Qed.

(* ---------------------------------------------------------------------- *)
(* C18 for binary32                                                         *)
(* ---------------------------------------------------------------------- *)
Section Binary32.
  Context {A C : Type}.
  Variable eqb : A -> A -> bool.
  Hypothesis eqb_spec : forall x y, eqb x y = true <-> x = y.
  Variable chars : C -> list A.
  Variable leC : C -> C -> bool.
  Hypothesis leC_trans : forall a b c, leC a b = true -> leC b c = true -> leC a c = true.
  Hypothesis leC_total : forall a b, leC a b = true \/ leC b a = true.
  Hypothesis leC_antisym : forall a b, leC a b = true -> leC b a = true -> a = b.

  Variable cutoff : R.
  Variable word : C.

  (* one rounding *)
  Theorem filters_sound_rnd32 c :
    Rle_bool cutoff (rnd32 (ratio_q eqb (chars word) (chars c))) = true ->
    Rle_bool cutoff (rnd32 (upper_q (length (chars word)) (length (chars c)))) = true /\
    Rle_bool cutoff (rnd32 (quick_q eqb (chars word) (chars c))) = true.
  Proof.
    exact (filters_sound eqb eqb_spec chars rnd32 Rle_bool Rle_bool_trans rnd32_mono cutoff word c).
  Qed.

  Theorem close_matches_rnd32 cands n ranked :
    let ratio := fun c : C => rnd32 (ratio_q eqb (chars word) (chars c)) in
    Permutation ranked (filter (fun c => Rle_bool cutoff (ratio c)) cands) ->
    StronglySorted
      (fun a b => (key32 (ratio b) < key32 (ratio a))%nat \/
                  (key32 (ratio a) = key32 (ratio b) /\ leC a b = true)) ranked ->
    close_matches eqb chars rnd32 Rle_bool key32 leC cutoff word cands n = firstn n ranked.
  Proof.
    exact (close_matches_ranked eqb eqb_spec chars rnd32 Rle_bool key32 leC Rle_bool_trans
             rnd32_mono leC_trans leC_total leC_antisym cutoff word cands n ranked).
  Qed.

  (* the expression as written, operands of any size *)
  Theorem filters_sound_ev32 c :
    Rle_bool cutoff (ev32 (ratio_nd eqb (chars word) (chars c))) = true ->
    Rle_bool cutoff (ev32 (upper_nd (length (chars word)) (length (chars c)))) = true /\
    Rle_bool cutoff (ev32 (quick_nd eqb (chars word) (chars c))) = true.
  Proof.
    exact (filters_sound_gen eqb eqb_spec chars ev32 Rle_bool Rle_bool_trans ev32_mono cutoff word c).
  Qed.

  Theorem close_matches_ev32 cands n ranked :
    let ratio := fun c : C => ev32 (ratio_nd eqb (chars word) (chars c)) in
    Permutation ranked (filter (fun c => Rle_bool cutoff (ratio c)) cands) ->
    StronglySorted
      (fun a b => (key32 (ratio b) < key32 (ratio a))%nat \/
                  (key32 (ratio a) = key32 (ratio b) /\ leC a b = true)) ranked ->
    close_matches_gen eqb chars ev32 Rle_bool key32 leC cutoff word cands n = firstn n ranked.
  Proof.
    exact (close_matches_ranked_gen eqb eqb_spec chars ev32 Rle_bool key32 leC Rle_bool_trans
             ev32_mono leC_trans leC_total leC_antisym cutoff word cands n ranked).
  Qed.
End Binary32.

Print Assumptions rnd32_mono.
Print Assumptions rnd32_one.
Print Assumptions ev32_mono.
Print Assumptions key32_mono.
Print Assumptions filters_sound_rnd32.
Print Assumptions close_matches_rnd32.
Print Assumptions filters_sound_ev32.
Print Assumptions close_matches_ev32.
