(* Proofs/InlineMain.v — C16 without premises about the second-level diff and the
   lines-and-newlines tokenizer: both are discharged by the pipeline theorem for
   Patience (every clock) and the tokenizer theorem (byte mode, arbitrary bytes). *)
From Coq Require Import NArith.
From Similar Require Import Model.Base Model.Utf8 Model.Tokenize Model.TextDiff Model.Inline Model.Capture
  Check.Tokens Spec.Script Spec.SnakeSpec Proofs.Inline Proofs.Tokenize Proofs.PatienceCapture.

Lemma items_cmp_total {A} (eqb : A -> A -> bool) (a b : list A) :
  CmpTotal (o_on (oracles_of_items eqb (slice_lookup a) (slice_lookup b))) 0 (length a) 0 (length b).
Proof.
  intros i j [_ Hi] [_ Hj]. cbn [o_on oracles_of_items]. unfold cmp_of, slice_lookup.
  destruct (nth_error b j) as [y|] eqn:Eb; [|apply nth_error_None in Eb; lia].
  destruct (nth_error a i) as [x|] eqn:Ea; [|apply nth_error_None in Ea; lia].
  eexists; reflexivity.
Qed.

Theorem inline_replace_bytes :
  forall (words : list N -> list token),
    (forall s, check_partition (words s) 0 (length s) = true) ->
  forall (dl : deadline) (dbg repair : bool) (old new : list (list N)) (o ol n nl : nat),
    o + ol <= length old -> n + nl <= length new ->
    Forall (fun l => l <> []) old -> Forall (fun l => l <> []) new ->
  forall ics, inline_changes words true dl dbg repair old new (Replace o ol n nl) = Ok ics ->
    inline_post old new o ol n nl ics.
Proof.
  intros words Hwords dl dbg repair old new o ol n nl Ho Hn Hoe Hne ics Hrun.
  eapply (inline_replace_spec_all words Hwords true (tok_bytes_ok TkLinesNewlines)); eauto.
  intros ops2 c Hc.
  eapply capture_valid_all in Hc; [exact (proj1 Hc)|lia|lia|].
  unfold inline_orc. apply items_cmp_total.
Qed.
Print Assumptions inline_replace_bytes.
