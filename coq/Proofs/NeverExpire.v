(* Proofs/NeverExpire.v — C07, clause "a deadline that never expires gives
   exactly the result of no deadline".

   Part 1: a generic parametricity theorem.  [rrel R] relates two [res] values
   with the same constructor (Ok/Panic/OutOfFuel) and R-related payloads;
   [WSim R wd1 wd2] says that two worlds are in lock-step simulation (emit
   gives rrel-related results, probe gives the same answer, tick preserves R).
   Every model function that is generic in its world maps WSim-related worlds
   and R-related states to rrel-related results ([myers_par], [lcs_par],
   [patience_par], [alg_parametric]), and every world transformer preserves
   WSim ([WSim_no_finish], [WSim_default_replace], [WSim_replace],
   [WSim_compact], [WSim_patience]).  No premise on ranges or oracles: the two
   runs are step-for-step identical, including Panic and OutOfFuel outcomes.

   Part 2: the instance.  [WSim_plain_never]: two plain worlds whose deadlines
   never answer true ([dl_never]: None, or Some clk with clk i = false for all
   i) simulate each other under "same log, same cmps, expired = false on both
   sides, same post_cmps".  Consequences: [never_expire_raw],
   [never_expire_capture], [never_expire_textdiff] and their relational /
   projected forms. *)
From Similar Require Import Model.Base Model.Utils Model.Myers Model.Lcs Model.Hooks
  Model.Patience Model.Compact Model.Capture Model.TextDiff.

Local Open Scope nat_scope.

(* ------------------------------------------------------------------ rrel *)
Inductive rrel {A B : Type} (R : A -> B -> Prop) : res A -> res B -> Prop :=
| rr_ok (a : A) (b : B) : R a b -> rrel R (Ok a) (Ok b)
| rr_panic : rrel R Panic Panic
| rr_fuel : rrel R OutOfFuel OutOfFuel.

Lemma rrel_bind {A1 A2 B1 B2 : Type} (R : A1 -> A2 -> Prop) (S : B1 -> B2 -> Prop)
      (m1 : res A1) (m2 : res A2) (f1 : A1 -> res B1) (f2 : A2 -> res B2) :
  rrel R m1 m2 ->
  (forall a1 a2, R a1 a2 -> rrel S (f1 a1) (f2 a2)) ->
  rrel S (bind m1 f1) (bind m2 f2).
Proof.
  intros Hm Hf. destruct Hm as [a b Hab| |]; cbn [bind].
  - apply Hf. exact Hab.
  - constructor.
  - constructor.
Qed.

Lemma rrel_mono {A B : Type} (R S : A -> B -> Prop) (r1 : res A) (r2 : res B) :
  (forall a b, R a b -> S a b) -> rrel R r1 r2 -> rrel S r1 r2.
Proof.
  intros HRS H. destruct H as [a b Hab| |]; constructor. apply HRS. exact Hab.
Qed.

Lemma rrel_eq_iff {A : Type} (r1 r2 : res A) : rrel eq r1 r2 <-> r1 = r2.
Proof.
  split.
  - intros H. destruct H as [a b Hab| |]; [now subst|reflexivity|reflexivity].
  - intros <-. destruct r1; constructor. reflexivity.
Qed.

Lemma rrel_refl {A : Type} (R : A -> A -> Prop) (r : res A) :
  (forall a, R a a) -> rrel R r r.
Proof. intros H. destruct r; constructor. apply H. Qed.

(* the outcome constructor is the same on both sides *)
Definition res_shape {A : Type} (r : res A) : res unit :=
  match r with Ok _ => Ok tt | Panic => Panic | OutOfFuel => OutOfFuel end.

Lemma rrel_shape {A B : Type} (R : A -> B -> Prop) (r1 : res A) (r2 : res B) :
  rrel R r1 r2 -> res_shape r1 = res_shape r2.
Proof. intros H. destruct H; reflexivity. Qed.

Lemma rrel_Ok_l {A B : Type} (R : A -> B -> Prop) (a : A) (r2 : res B) :
  rrel R (Ok a) r2 -> exists b, r2 = Ok b /\ R a b.
Proof. intros H. inversion H; subst. eauto. Qed.

Lemma rrel_Ok_r {A B : Type} (R : A -> B -> Prop) (r1 : res A) (b : B) :
  rrel R r1 (Ok b) -> exists a, r1 = Ok a /\ R a b.
Proof. intros H. inversion H; subst. eauto. Qed.

(* same visible component, R-related worlds *)
Definition prel {X W1 W2 : Type} (R : W1 -> W2 -> Prop) (a : X * W1) (b : X * W2) : Prop :=
  fst a = fst b /\ R (snd a) (snd b).

Lemma prel_intro {X W1 W2 : Type} (R : W1 -> W2 -> Prop) (x : X) (w1 : W1) (w2 : W2) :
  R w1 w2 -> prel R (x, w1) (x, w2).
Proof. intros H. split; [reflexivity|exact H]. Qed.

Lemma prel_inv {X W1 W2 : Type} (R : W1 -> W2 -> Prop) (x1 x2 : X) (w1 : W1) (w2 : W2) :
  prel R (x1, w1) (x2, w2) -> x1 = x2 /\ R w1 w2.
Proof. intros H. exact H. Qed.

(* ------------------------------------------------------------------ WSim *)
Record WSim {W1 W2 : Type} (R : W1 -> W2 -> Prop) (wd1 : world W1) (wd2 : world W2) : Prop := {
  ws_emit : forall c w1 w2, R w1 w2 -> rrel R (emit wd1 c w1) (emit wd2 c w2);
  ws_probe : forall w1 w2, R w1 w2 ->
      fst (probe wd1 w1) = fst (probe wd2 w2) /\ R (snd (probe wd1 w1)) (snd (probe wd2 w2));
  ws_tick : forall k w1 w2, R w1 w2 -> R (tick wd1 k w1) (tick wd2 k w2)
}.

(* ---------------------------------------------------------------- tactics *)
(* the world-free computation both sides are stuck on, if it is the same *)
Ltac scrut_b m :=
  lazymatch m with
  | bind ?m' _ => scrut_b m'
  | Ok _ => fail
  | Panic => fail
  | OutOfFuel => fail
  | (if _ then _ else _) => fail
  | (match _ with Some _ => _ | None => _ end) => fail
  | _ => m
  end.
Ltac scrut t :=
  lazymatch t with
  | bind ?m _ => scrut_b m
  | (if ?b then _ else _) => b
  | Ok _ => fail
  | Panic => fail
  | OutOfFuel => fail
  end.
(* variant that also enters an [if] in bind position *)
Ltac scrut_deep t :=
  lazymatch t with
  | bind ?m _ => scrut_deep m
  | (if ?b then _ else _) => b
  | Ok _ => fail
  | Panic => fail
  | OutOfFuel => fail
  | _ => t
  end.

Ltac par_pure :=
  cbn [bind];
  lazymatch goal with
  | |- rrel _ ?l ?r => let s := scrut l in let s' := scrut r in constr_eq s s'; destruct s
  end.
Ltac par_pure_deep :=
  cbn [bind];
  lazymatch goal with
  | |- rrel _ ?l ?r => let s := scrut_deep l in let s' := scrut_deep r in constr_eq s s'; destruct s
  end.
(* run the common world-free prefix, close the Panic/OutOfFuel branches *)
Ltac par := repeat par_pure; cbn [bind]; try (constructor; fail).
Ltac par_deep := repeat par_pure_deep; cbn [bind]; try (constructor; fail).

(* split a hypothesis [prel R a b] *)
Ltac prel_destr a b x H HR :=
  destruct a as [x a];
  let x' := fresh x in
  destruct b as [x' b]; destruct H as [H HR]; cbn [fst snd] in H, HR; subst x'.

(* =================================================================== Myers *)
Section MyersPar.
  Context {W1 W2 : Type}.
  Variable R : W1 -> W2 -> Prop.
  Variable wd1 : world W1.
  Variable wd2 : world W2.
  Hypothesis HS : WSim R wd1 wd2.
  Variable cmp : cmpf.

  Lemma par_tick k w1 w2 : R w1 w2 -> R (tick wd1 k w1) (tick wd2 k w2).
  Proof. apply (ws_tick R wd1 wd2 HS). Qed.

  Lemma par_emit c w1 w2 : R w1 w2 -> rrel R (emit wd1 c w1) (emit wd2 c w2).
  Proof. apply (ws_emit R wd1 wd2 HS). Qed.

  Lemma par_ok_pair {X : Type} (x : X) w1 w2 :
    R w1 w2 -> rrel (prel R) (Ok (x, w1)) (Ok (x, w2)).
  Proof. intros H. constructor. apply prel_intro. exact H. Qed.

  Lemma par_emit_if (b : bool) c w1 w2 :
    R w1 w2 ->
    rrel R (if b then emit wd1 c w1 else Ok w1) (if b then emit wd2 c w2 else Ok w2).
  Proof. intros H. destruct b; [apply par_emit; exact H|constructor; exact H]. Qed.

  Lemma fwd_step_par os oe ns ne d k vf vb w1 w2 :
    R w1 w2 ->
    rrel (prel R) (fwd_step wd1 cmp os oe ns ne d k vf vb w1)
                  (fwd_step wd2 cmp os oe ns ne d k vf vb w2).
  Proof.
    intros HR. unfold fwd_step. par_deep; apply par_ok_pair; try apply par_tick; exact HR.
  Qed.

  Lemma bwd_step_par os oe ns ne d k vf vb w1 w2 :
    R w1 w2 ->
    rrel (prel R) (bwd_step wd1 cmp os oe ns ne d k vf vb w1)
                  (bwd_step wd2 cmp os oe ns ne d k vf vb w2).
  Proof.
    intros HR. unfold bwd_step. par_deep; apply par_ok_pair; try apply par_tick; exact HR.
  Qed.

  Lemma fwd_loop_par os oe ns ne d : forall cnt k vf vb w1 w2,
    R w1 w2 ->
    rrel (prel R) (fwd_loop wd1 cmp os oe ns ne cnt d k vf vb w1)
                  (fwd_loop wd2 cmp os oe ns ne cnt d k vf vb w2).
  Proof.
    induction cnt as [|cnt IH]; intros k vf vb w1 w2 HR; cbn [fwd_loop].
    - apply par_ok_pair. exact HR.
    - eapply rrel_bind; [apply fwd_step_par; exact HR|].
      intros a b Hab. prel_destr a b p Hab HRa.
      destruct p as [r vf1]. destruct r as [pt|].
      + apply par_ok_pair. exact HRa.
      + apply IH. exact HRa.
  Qed.

  Lemma bwd_loop_par os oe ns ne d : forall cnt k vf vb w1 w2,
    R w1 w2 ->
    rrel (prel R) (bwd_loop wd1 cmp os oe ns ne cnt d k vf vb w1)
                  (bwd_loop wd2 cmp os oe ns ne cnt d k vf vb w2).
  Proof.
    induction cnt as [|cnt IH]; intros k vf vb w1 w2 HR; cbn [bwd_loop].
    - apply par_ok_pair. exact HR.
    - eapply rrel_bind; [apply bwd_step_par; exact HR|].
      intros a b Hab. prel_destr a b p Hab HRa.
      destruct p as [r vb1]. destruct r as [pt|].
      + apply par_ok_pair. exact HRa.
      + apply IH. exact HRa.
  Qed.

  Lemma round_loop_par os oe ns ne : forall rounds d vf vb w1 w2,
    R w1 w2 ->
    rrel (prel R) (round_loop wd1 cmp os oe ns ne rounds d vf vb w1)
                  (round_loop wd2 cmp os oe ns ne rounds d vf vb w2).
  Proof.
    induction rounds as [|rounds IH]; intros d vf vb w1 w2 HR; cbn [round_loop].
    - apply par_ok_pair. exact HR.
    - destruct (ws_probe R wd1 wd2 HS w1 w2 HR) as [Hb HRp].
      destruct (probe wd1 w1) as [ex w1a]. destruct (probe wd2 w2) as [ex2 w2a].
      cbn [fst snd] in Hb, HRp. subst ex2. destruct ex.
      + apply par_ok_pair. exact HRp.
      + eapply rrel_bind; [apply fwd_loop_par; exact HRp|].
        intros a b Hab. prel_destr a b p Hab HRa.
        destruct p as [r vf1]. destruct r as [pt|].
        * apply par_ok_pair. exact HRa.
        * eapply rrel_bind; [apply bwd_loop_par; exact HRa|].
          intros a' b' Hab'. prel_destr a' b' p Hab' HRb.
          destruct p as [r vb1]. destruct r as [pt|].
          -- apply par_ok_pair. exact HRb.
          -- apply IH. exact HRb.
  Qed.

  Lemma find_middle_snake_par os oe ns ne vf vb w1 w2 :
    R w1 w2 ->
    rrel (prel R) (find_middle_snake wd1 cmp os oe ns ne vf vb w1)
                  (find_middle_snake wd2 cmp os oe ns ne vf vb w2).
  Proof.
    intros HR. unfold find_middle_snake. par. apply round_loop_par. exact HR.
  Qed.

  Lemma emit_all_par : forall cs w1 w2,
    R w1 w2 -> rrel R (emit_all wd1 cs w1) (emit_all wd2 cs w2).
  Proof.
    induction cs as [|c cs IH]; intros w1 w2 HR; cbn [emit_all].
    - constructor. exact HR.
    - eapply rrel_bind; [apply par_emit; exact HR|]. intros a b Hab. apply IH. exact Hab.
  Qed.

  Lemma conquer_par : forall fuel os oe ns ne vf vb w1 w2,
    R w1 w2 ->
    rrel (prel R) (conquer wd1 cmp fuel os oe ns ne vf vb w1)
                  (conquer wd2 cmp fuel os oe ns ne vf vb w2).
  Proof.
    induction fuel as [|fuel IH]; intros os oe ns ne vf vb w1 w2 HR; cbn [conquer].
    - constructor.
    - par.
      eapply rrel_bind; [apply par_emit_if; apply par_tick; exact HR|].
      intros wa wb HRa. par.
      eapply rrel_bind with (R := prel R).
      + par.
        * apply par_ok_pair. apply par_tick. exact HRa.
        * eapply rrel_bind; [apply par_emit; apply par_tick; exact HRa|].
          intros wc wd HRc. apply par_ok_pair. exact HRc.
        * eapply rrel_bind; [apply par_emit; apply par_tick; exact HRa|].
          intros wc wd HRc. apply par_ok_pair. exact HRc.
        * eapply rrel_bind; [apply find_middle_snake_par; apply par_tick; exact HRa|].
          intros x y Hxy. prel_destr x y p Hxy HRc.
          destruct p as [[r vf1] vb1]. destruct r as [[px py]|].
          -- eapply rrel_bind; [apply IH; exact HRc|].
             intros x' y' Hxy'. prel_destr x' y' p Hxy' HRd.
             destruct p as [vf2 vb2]. apply IH. exact HRd.
          -- eapply rrel_bind; [apply par_emit; exact HRc|]. intros wc wd HRd.
             eapply rrel_bind; [apply par_emit; exact HRd|]. intros we wf HRe.
             apply par_ok_pair. exact HRe.
      + intros x y Hxy. prel_destr x y p Hxy HRc. destruct p as [vf1 vb1].
        eapply rrel_bind; [apply par_emit_if; exact HRc|].
        intros wc wd HRd. apply par_ok_pair. exact HRd.
  Qed.

  Theorem myers_par os oe ns ne w1 w2 :
    R w1 w2 -> rrel R (myers_diff wd1 cmp os oe ns ne w1) (myers_diff wd2 cmp os oe ns ne w2).
  Proof.
    intros HR. unfold myers_diff.
    eapply rrel_bind; [apply conquer_par; exact HR|].
    intros x y Hxy. prel_destr x y p Hxy HRa. destruct p as [vf vb].
    apply par_emit. exact HRa.
  Qed.
End MyersPar.

(* ====================================================== world transformers *)
Section Transformers.
  Context {W1 W2 : Type}.
  Variable R : W1 -> W2 -> Prop.
  Variable wd1 : world W1.
  Variable wd2 : world W2.
  Hypothesis HS : WSim R wd1 wd2.

  Lemma WSim_no_finish : WSim R (no_finish wd1) (no_finish wd2).
  Proof.
    split.
    - intros c w1 w2 HR. cbn [emit no_finish].
      destruct c; try (apply (ws_emit R wd1 wd2 HS); exact HR). constructor. exact HR.
    - intros w1 w2 HR. cbn [probe no_finish]. apply (ws_probe R wd1 wd2 HS). exact HR.
    - intros k w1 w2 HR. cbn [tick no_finish]. apply (ws_tick R wd1 wd2 HS). exact HR.
  Qed.

  Lemma WSim_default_replace : WSim R (default_replace wd1) (default_replace wd2).
  Proof.
    split.
    - intros c w1 w2 HR. cbn [emit default_replace].
      destruct c; try (apply (ws_emit R wd1 wd2 HS); exact HR).
      eapply rrel_bind; [apply (ws_emit R wd1 wd2 HS); exact HR|].
      intros a b Hab. apply (ws_emit R wd1 wd2 HS). exact Hab.
    - intros w1 w2 HR. cbn [probe default_replace]. apply (ws_probe R wd1 wd2 HS). exact HR.
    - intros k w1 w2 HR. cbn [tick default_replace]. apply (ws_tick R wd1 wd2 HS). exact HR.
  Qed.

  (* lifting under extra hook state *)
  Lemma lift_probe_par {S : Type} (a : S * W1) (b : S * W2) :
    prel R a b ->
    fst (lift_probe wd1 a) = fst (lift_probe wd2 b) /\
    prel R (snd (lift_probe wd1 a)) (snd (lift_probe wd2 b)).
  Proof.
    intros Hab. prel_destr a b s Hab HR. unfold lift_probe. cbn [fst snd].
    destruct (ws_probe R wd1 wd2 HS a b HR) as [Hb HRp].
    destruct (probe wd1 a) as [ex1 wa]. destruct (probe wd2 b) as [ex2 wb].
    cbn [fst snd] in *. split; [exact Hb|]. apply prel_intro. exact HRp.
  Qed.

  Lemma lift_tick_par {S : Type} k (a : S * W1) (b : S * W2) :
    prel R a b -> prel R (lift_tick wd1 k a) (lift_tick wd2 k b).
  Proof.
    intros Hab. prel_destr a b s Hab HR. unfold lift_tick. cbn [fst snd].
    apply prel_intro. apply (ws_tick R wd1 wd2 HS). exact HR.
  Qed.

  (* ---- Replace ---- *)
  Lemma flush_eq_par (a : rstate * W1) (b : rstate * W2) :
    prel R a b -> rrel (prel R) (flush_eq wd1 a) (flush_eq wd2 b).
  Proof.
    intros Hab. prel_destr a b s Hab HR. unfold flush_eq.
    destruct (r_eq s) as [[[o n] l]|].
    - eapply rrel_bind; [apply (ws_emit R wd1 wd2 HS); exact HR|].
      intros wa wb HRa. apply par_ok_pair. exact HRa.
    - apply par_ok_pair. exact HR.
  Qed.

  Lemma flush_del_ins_par (a : rstate * W1) (b : rstate * W2) :
    prel R a b -> rrel (prel R) (flush_del_ins wd1 a) (flush_del_ins wd2 b).
  Proof.
    intros Hab. prel_destr a b s Hab HR. unfold flush_del_ins.
    destruct (r_del s) as [[[dO dl] dn]|]; destruct (r_ins s) as [[[io inn] il]|];
      try (apply par_ok_pair; exact HR);
      (eapply rrel_bind; [apply (ws_emit R wd1 wd2 HS); exact HR|]);
      intros wa wb HRa; apply par_ok_pair; exact HRa.
  Qed.

  Lemma replace_emit_par dbg c (a : rstate * W1) (b : rstate * W2) :
    prel R a b -> rrel (prel R) (replace_emit wd1 dbg c a) (replace_emit wd2 dbg c b).
  Proof.
    intros Hab. unfold replace_emit. destruct c as [o n l|o l n|o n l|o ol n nl|].
    - eapply rrel_bind; [apply flush_del_ins_par; exact Hab|].
      intros x y Hxy. prel_destr x y s Hxy HR. apply par_ok_pair. exact HR.
    - eapply rrel_bind; [apply flush_eq_par; exact Hab|].
      intros x y Hxy. prel_destr x y s Hxy HR.
      destruct (r_del s) as [[[dO dl] dn]|].
      + destruct (dbg && negb (o =? dO + dl)); [constructor|apply par_ok_pair; exact HR].
      + apply par_ok_pair. exact HR.
    - eapply rrel_bind; [apply flush_eq_par; exact Hab|].
      intros x y Hxy. prel_destr x y s Hxy HR.
      destruct (r_ins s) as [[[io inn] il]|].
      + destruct (dbg && negb (inn + il =? n)); [constructor|apply par_ok_pair; exact HR].
      + apply par_ok_pair. exact HR.
    - eapply rrel_bind; [apply flush_eq_par; exact Hab|].
      intros x y Hxy. prel_destr x y s Hxy HR.
      eapply rrel_bind; [apply (ws_emit R wd1 wd2 HS); exact HR|].
      intros wa wb HRa. apply par_ok_pair. exact HRa.
    - eapply rrel_bind; [apply flush_eq_par; exact Hab|].
      intros x y Hxy.
      eapply rrel_bind; [apply flush_del_ins_par; exact Hxy|].
      intros x' y' Hxy'. prel_destr x' y' s Hxy' HR.
      eapply rrel_bind; [apply (ws_emit R wd1 wd2 HS); exact HR|].
      intros wa wb HRa. apply par_ok_pair. exact HRa.
  Qed.

  Theorem WSim_replace dbg : WSim (prel R) (replace_world wd1 dbg) (replace_world wd2 dbg).
  Proof.
    split.
    - intros c a b Hab. cbn [emit replace_world]. apply replace_emit_par. exact Hab.
    - intros a b Hab. cbn [probe replace_world]. apply lift_probe_par. exact Hab.
    - intros k a b Hab. cbn [tick replace_world]. apply lift_tick_par. exact Hab.
  Qed.

  (* ---- Compact ---- *)
  Lemma compact_emit_par cmp repair c (a : list op * W1) (b : list op * W2) :
    prel R a b -> rrel (prel R) (compact_emit wd1 cmp repair c a) (compact_emit wd2 cmp repair c b).
  Proof.
    intros Hab. prel_destr a b buf Hab HR. unfold compact_emit.
    destruct c as [o n l|o l n|o n l|o ol n nl|]; try (apply par_ok_pair; exact HR).
    par.
    eapply rrel_bind; [apply emit_all_par; [exact HS|exact HR]|].
    intros wa wb HRa.
    eapply rrel_bind; [apply (ws_emit R wd1 wd2 HS); exact HRa|].
    intros wc wd HRc. apply par_ok_pair. exact HRc.
  Qed.

  Theorem WSim_compact cmp repair :
    WSim (prel R) (compact_world wd1 cmp repair) (compact_world wd2 cmp repair).
  Proof.
    split.
    - intros c a b Hab. cbn [emit compact_world]. apply compact_emit_par. exact Hab.
    - intros a b Hab. cbn [probe compact_world]. apply lift_probe_par. exact Hab.
    - intros k a b Hab. cbn [tick compact_world]. apply lift_tick_par. exact Hab.
  Qed.
End Transformers.

(* ===================================================================== LCS *)
Section LcsPar.
  Context {W1 W2 : Type}.
  Variable R : W1 -> W2 -> Prop.
  Variable wd1 : world W1.
  Variable wd2 : world W2.
  Hypothesis HS : WSim R wd1 wd2.
  Variable cmp : cmpf.

  Lemma table_rows_par ob nb old_len : forall cnt i w1 w2,
    R w1 w2 ->
    rrel (prel R) (table_rows wd1 cmp ob nb old_len i cnt w1)
                  (table_rows wd2 cmp ob nb old_len i cnt w2).
  Proof.
    induction cnt as [|cnt IH]; intros i w1 w2 HR; cbn [table_rows].
    - apply par_ok_pair. exact HR.
    - eapply rrel_bind; [apply IH; exact HR|].
      intros a b Hab. prel_destr a b r Hab HRa. destruct r as [rest|].
      + destruct (ws_probe R wd1 wd2 HS a b HRa) as [Hb HRp].
        destruct (probe wd1 a) as [ex w1a]. destruct (probe wd2 b) as [ex2 w2a].
        cbn [fst snd] in Hb, HRp. subst ex2. destruct ex.
        * apply par_ok_pair. exact HRp.
        * par. apply par_ok_pair. apply (ws_tick R wd1 wd2 HS). exact HRp.
      + apply par_ok_pair. exact HRa.
  Qed.

  Lemma walk_par t ob nb old_len new_len : forall fuel old_idx new_idx w1 w2,
    R w1 w2 ->
    rrel (prel R) (walk wd1 cmp fuel t ob nb old_len new_len old_idx new_idx w1)
                  (walk wd2 cmp fuel t ob nb old_len new_len old_idx new_idx w2).
  Proof.
    induction fuel as [|fuel IH]; intros old_idx new_idx w1 w2 HR; cbn [walk].
    - constructor.
    - destruct ((new_idx <? new_len) && (old_idx <? old_len)).
      + par.
        * eapply rrel_bind;
            [apply (ws_emit R wd1 wd2 HS); apply (ws_tick R wd1 wd2 HS); exact HR|].
          intros wa wb HRa. apply IH. exact HRa.
        * eapply rrel_bind;
            [apply (ws_emit R wd1 wd2 HS); apply (ws_tick R wd1 wd2 HS); exact HR|].
          intros wa wb HRa. apply IH. exact HRa.
        * eapply rrel_bind;
            [apply (ws_emit R wd1 wd2 HS); apply (ws_tick R wd1 wd2 HS); exact HR|].
          intros wa wb HRa. apply IH. exact HRa.
      + apply par_ok_pair. exact HR.
  Qed.

  Theorem lcs_par os oe ns ne w1 w2 :
    R w1 w2 -> rrel R (lcs_diff wd1 cmp os oe ns ne w1) (lcs_diff wd2 cmp os oe ns ne w2).
  Proof.
    intros HR. unfold lcs_diff.
    destruct (empty_range ns ne).
    { eapply rrel_bind with (R := R).
      - destruct (empty_range os oe); [constructor; exact HR|].
        apply (ws_emit R wd1 wd2 HS). exact HR.
      - intros wa wb HRa. apply (ws_emit R wd1 wd2 HS). exact HRa. }
    destruct (empty_range os oe).
    { eapply rrel_bind; [apply (ws_emit R wd1 wd2 HS); exact HR|].
      intros wa wb HRa. apply (ws_emit R wd1 wd2 HS). exact HRa. }
    par.
    { eapply rrel_bind;
        [apply (ws_emit R wd1 wd2 HS); do 2 apply (ws_tick R wd1 wd2 HS); exact HR|].
      intros wa wb HRa. apply (ws_emit R wd1 wd2 HS). exact HRa. }
    eapply rrel_bind;
      [apply table_rows_par; do 2 apply (ws_tick R wd1 wd2 HS); exact HR|].
    intros sa sb Hab. prel_destr sa sb mt Hab HRa. par.
    eapply rrel_bind; [apply (par_emit_if R wd1 wd2 HS); exact HRa|].
    intros wa wb HRb.
    eapply rrel_bind with (R := prel R).
    { destruct mt as [t|]; [apply walk_par; exact HRb|apply par_ok_pair; exact HRb]. }
    intros x y Hxy. prel_destr x y p Hxy HRc. destruct p as [old_idx new_idx].
    eapply rrel_bind with (R := prel R).
    { destruct (old_idx <? _).
      - eapply rrel_bind; [apply (ws_emit R wd1 wd2 HS); exact HRc|].
        intros wc wd HRd. apply par_ok_pair. exact HRd.
      - apply par_ok_pair. exact HRc. }
    intros x' y' Hxy'. prel_destr x' y' old_idx' Hxy' HRd.
    eapply rrel_bind with (R := R).
    { destruct (new_idx <? _); [apply (ws_emit R wd1 wd2 HS); exact HRd|constructor; exact HRd]. }
    intros wc wd HRe.
    eapply rrel_bind; [apply (par_emit_if R wd1 wd2 HS); exact HRe|].
    intros we wf HRf. apply (ws_emit R wd1 wd2 HS). exact HRf.
  Qed.
End LcsPar.

(* ================================================================ Patience *)
Section PatiencePar.
  Context {W1 W2 : Type}.
  Variable R : W1 -> W2 -> Prop.
  Variable wd1 : world W1.
  Variable wd2 : world W2.
  Hypothesis HS : WSim R wd1 wd2.
  Variable cmp : cmpf.
  Variables uo un : list nat.
  Variables old_end new_end : nat.

  Lemma advance_par oi ni : forall fuel oc nc w1 w2,
    R w1 w2 ->
    rrel (prel R) (advance wd1 cmp fuel oi ni oc nc w1) (advance wd2 cmp fuel oi ni oc nc w2).
  Proof.
    induction fuel as [|fuel IH]; intros oc nc w1 w2 HR; cbn [advance].
    - apply par_ok_pair. exact HR.
    - destruct ((oc <? oi) && (nc <? ni)).
      + par.
        * apply IH. apply (ws_tick R wd1 wd2 HS). exact HR.
        * apply par_ok_pair. apply (ws_tick R wd1 wd2 HS). exact HR.
      + apply par_ok_pair. exact HR.
  Qed.

  Lemma anchor_step_par o n (a : pstate * W1) (b : pstate * W2) :
    prel R a b ->
    rrel (prel R) (anchor_step wd1 cmp uo un o n a) (anchor_step wd2 cmp uo un o n b).
  Proof.
    intros Hab. prel_destr a b s Hab HR. unfold anchor_step. par.
    eapply rrel_bind; [apply advance_par; exact HR|].
    intros x y Hxy. prel_destr x y p Hxy HRa. destruct p as [oc nc].
    eapply rrel_bind; [apply (par_emit_if R wd1 wd2 HS); exact HRa|].
    intros wa wb HRb.
    eapply rrel_bind;
      [apply (myers_par R (no_finish wd1) (no_finish wd2) (WSim_no_finish R wd1 wd2 HS));
       exact HRb|].
    intros wc wd HRc. apply par_ok_pair. exact HRc.
  Qed.

  Lemma anchor_loop_par : forall len o n (a : pstate * W1) (b : pstate * W2),
    prel R a b ->
    rrel (prel R) (anchor_loop wd1 cmp uo un len o n a) (anchor_loop wd2 cmp uo un len o n b).
  Proof.
    induction len as [|len IH]; intros o n a b Hab; cbn [anchor_loop].
    - constructor. exact Hab.
    - eapply rrel_bind; [apply anchor_step_par; exact Hab|].
      intros x y Hxy. apply IH. exact Hxy.
  Qed.

  Lemma patience_emit_par c (a : pstate * W1) (b : pstate * W2) :
    prel R a b ->
    rrel (prel R) (patience_emit wd1 cmp uo un old_end new_end c a)
                  (patience_emit wd2 cmp uo un old_end new_end c b).
  Proof.
    intros Hab. unfold patience_emit. destruct c as [o n l|o l n|o n l|o ol n nl|];
      try (constructor; exact Hab).
    - apply anchor_loop_par. exact Hab.
    - prel_destr a b s Hab HR.
      eapply rrel_bind; [apply (myers_par R wd1 wd2 HS); exact HR|].
      intros wa wb HRa. apply par_ok_pair. exact HRa.
  Qed.

  Theorem WSim_patience :
    WSim (prel R) (patience_world wd1 cmp uo un old_end new_end)
                  (patience_world wd2 cmp uo un old_end new_end).
  Proof.
    split.
    - intros c a b Hab. cbn [emit patience_world]. apply patience_emit_par. exact Hab.
    - intros a b Hab. cbn [probe patience_world]. apply (lift_probe_par R wd1 wd2 HS). exact Hab.
    - intros k a b Hab. cbn [tick patience_world]. apply (lift_tick_par R wd1 wd2 HS). exact Hab.
  Qed.
End PatiencePar.

Theorem patience_par {W1 W2 : Type} (R : W1 -> W2 -> Prop) (wd1 : world W1) (wd2 : world W2)
        (dbg : bool) (cmp oo nn : cmpf) (os oe ns ne : nat) (w1 : W1) (w2 : W2) :
  WSim R wd1 wd2 -> R w1 w2 ->
  rrel R (patience_diff wd1 dbg cmp oo nn os oe ns ne w1)
         (patience_diff wd2 dbg cmp oo nn os oe ns ne w2).
Proof.
  intros HS HR. unfold patience_diff. par.
  eapply rrel_bind with (R := prel (prel R)).
  - apply myers_par.
    + apply WSim_replace. apply WSim_patience. exact HS.
    + apply prel_intro. apply prel_intro. exact HR.
  - intros x y Hxy. prel_destr x y s Hxy Hxy'. prel_destr x y s' Hxy' HRa.
    constructor. exact HRa.
Qed.

(* ======================================================== the generic lemma *)
(* algorithms::diff_deadline is parametric in its world: WSim-related worlds
   and R-related initial states give the same outcome constructor and
   R-related final states.  No premise on the ranges or the oracles. *)
Theorem alg_parametric {W1 W2 : Type} (R : W1 -> W2 -> Prop) (wd1 : world W1) (wd2 : world W2)
        (alg : algorithm) (dbg : bool) (orc : oracles) (os oe ns ne : nat) (w1 : W1) (w2 : W2) :
  WSim R wd1 wd2 -> R w1 w2 ->
  rrel R (diff_deadline alg wd1 dbg orc os oe ns ne w1)
         (diff_deadline alg wd2 dbg orc os oe ns ne w2).
Proof.
  intros HS HR. destruct alg; cbn [diff_deadline].
  - apply myers_par; assumption.
  - apply patience_par; assumption.
  - apply lcs_par; assumption.
Qed.

(* the capture pipeline Compact(Replace(.)) on top of WSim-related worlds *)
Theorem capture_parametric {W1 W2 : Type} (R : W1 -> W2 -> Prop) (wd1 : world W1) (wd2 : world W2)
        (alg : algorithm) (dbg repair : bool) (orc : oracles) (os oe ns ne : nat)
        (a : list op * (rstate * W1)) (b : list op * (rstate * W2)) :
  WSim R wd1 wd2 -> prel (prel R) a b ->
  rrel (prel (prel R))
       (diff_deadline alg (compact_world (replace_world wd1 dbg) (o_on orc) repair) dbg orc
                      os oe ns ne a)
       (diff_deadline alg (compact_world (replace_world wd2 dbg) (o_on orc) repair) dbg orc
                      os oe ns ne b).
Proof.
  intros HS Hab. apply alg_parametric; [|exact Hab].
  apply WSim_compact. apply WSim_replace. exact HS.
Qed.

(* ============================================ instance: never-true deadlines *)
Definition dl_never (dl : deadline) : Prop :=
  match dl with
  | None => True
  | Some clk => forall i, clk i = false
  end.

(* a counter without its probe count *)
Definition ctr_nocount (c : ctr) : nat * bool * nat := (cmps c, expired c, post_cmps c).

Definition set_probes (k : nat) (c : ctr) : ctr :=
  {| probes := k; cmps := cmps c; expired := expired c; post_cmps := post_cmps c |}.

Lemma ctr_nocount_set_probes (c1 c2 : ctr) :
  ctr_nocount c1 = ctr_nocount c2 -> c1 = set_probes (probes c1) c2.
Proof.
  destruct c1 as [p1 m1 e1 q1], c2 as [p2 m2 e2 q2]. unfold ctr_nocount, set_probes.
  cbn [probes cmps expired post_cmps]. intros H. inversion H; subst. reflexivity.
Qed.

(* same log, same comparison count, nothing expired, nothing counted after
   expiry; the probe counts are unrelated *)
Definition PR (w1 w2 : plain) : Prop :=
  p_log w1 = p_log w2 /\
  cmps (p_ctr w1) = cmps (p_ctr w2) /\
  expired (p_ctr w1) = false /\ expired (p_ctr w2) = false /\
  post_cmps (p_ctr w1) = 0 /\ post_cmps (p_ctr w2) = 0.

Lemma PR_plain0 : PR plain0 plain0.
Proof. unfold PR, plain0, ctr0. cbn. repeat split; reflexivity. Qed.

Lemma PR_nocount w1 w2 : PR w1 w2 -> ctr_nocount (p_ctr w1) = ctr_nocount (p_ctr w2).
Proof.
  intros (_ & Hc & He1 & He2 & Hp1 & Hp2). unfold ctr_nocount.
  rewrite Hc, He1, He2, Hp1, Hp2. reflexivity.
Qed.

Lemma deadline_never_probe dl c :
  dl_never dl ->
  fst (deadline_exceeded dl c) = false /\
  cmps (snd (deadline_exceeded dl c)) = cmps c /\
  expired (snd (deadline_exceeded dl c)) = expired c /\
  post_cmps (snd (deadline_exceeded dl c)) = post_cmps c.
Proof.
  intros Hn. destruct dl as [clk|]; cbn [deadline_exceeded fst snd cmps expired post_cmps].
  - cbn [dl_never] in Hn. rewrite Hn. rewrite orb_false_r. repeat split; reflexivity.
  - repeat split; reflexivity.
Qed.

Theorem WSim_plain_never dl1 dl2 :
  dl_never dl1 -> dl_never dl2 -> WSim PR (plain_world dl1) (plain_world dl2).
Proof.
  intros Hn1 Hn2. split.
  - intros c w1 w2 (Hl & Hc & He1 & He2 & Hp1 & Hp2). cbn [emit plain_world].
    constructor. unfold PR. cbn [p_ctr p_log]. rewrite Hl. repeat split; assumption.
  - intros w1 w2 (Hl & Hc & He1 & He2 & Hp1 & Hp2). cbn [probe plain_world].
    destruct (deadline_never_probe dl1 (p_ctr w1) Hn1) as (Hb1 & Hc1 & Hx1 & Hq1).
    destruct (deadline_never_probe dl2 (p_ctr w2) Hn2) as (Hb2 & Hc2 & Hx2 & Hq2).
    destruct (deadline_exceeded dl1 (p_ctr w1)) as [b1 c1].
    destruct (deadline_exceeded dl2 (p_ctr w2)) as [b2 c2].
    cbn [fst snd] in *. split; [congruence|].
    unfold PR. cbn [p_ctr p_log]. repeat split; congruence.
  - intros k w1 w2 (Hl & Hc & He1 & He2 & Hp1 & Hp2). cbn [tick plain_world].
    unfold PR, add_cmps. cbn [p_ctr p_log probes cmps expired post_cmps].
    rewrite He1, He2. repeat split; try assumption. rewrite Hc. reflexivity.
Qed.

(* relation between two results (visible part, counters) *)
Definition same_but_probes {X : Type} (a b : X * ctr) : Prop :=
  fst a = fst b /\ ctr_nocount (snd a) = ctr_nocount (snd b) /\
  expired (snd a) = false /\ post_cmps (snd a) = 0.

(* ---------------------------------------------------------------- raw_trace *)
Theorem never_expire_raw_rel alg dl1 dl2 dbg orc os oe ns ne :
  dl_never dl1 -> dl_never dl2 ->
  rrel same_but_probes (raw_trace alg dl1 dbg orc os oe ns ne)
                       (raw_trace alg dl2 dbg orc os oe ns ne).
Proof.
  intros Hn1 Hn2. unfold raw_trace.
  eapply rrel_bind.
  - apply alg_parametric; [apply WSim_plain_never; assumption|apply PR_plain0].
  - intros w1 w2 HR. constructor. unfold same_but_probes. cbn [fst snd].
    pose proof (PR_nocount w1 w2 HR) as Hnc.
    destruct HR as (Hl & Hc & He1 & He2 & Hp1 & Hp2).
    unfold plain_calls. rewrite Hl. repeat split; assumption.
Qed.

Lemma same_but_probes_eq {X : Type} (r1 r2 : res (X * ctr)) :
  rrel same_but_probes r1 r2 ->
  exists k, r1 = (do '(x, c) <- r2; Ok (x, set_probes k c)).
Proof.
  intros H. destruct H as [[x1 c1] [x2 c2] (Hx & Hc & _)| |]; cbn [bind fst snd] in *.
  - exists (probes c1). subst x2. rewrite <- (ctr_nocount_set_probes c1 c2 Hc). reflexivity.
  - exists 0. reflexivity.
  - exists 0. reflexivity.
Qed.

(* a clock that never answers true gives exactly the calls and comparison
   count of no deadline; only the probe count differs; Panic and OutOfFuel
   outcomes coincide *)
Theorem never_expire_raw alg clk dbg orc os oe ns ne :
  (forall i, clk i = false) ->
  exists k,
    raw_trace alg (Some clk) dbg orc os oe ns ne =
    (do '(calls, c) <- raw_trace alg None dbg orc os oe ns ne; Ok (calls, set_probes k c)).
Proof.
  intros Hclk. apply same_but_probes_eq. apply never_expire_raw_rel; [exact Hclk|exact I].
Qed.

(* what the counters of a never-expiring run look like *)
Theorem never_expire_raw_ctr alg dl dbg orc os oe ns ne calls c :
  dl_never dl ->
  raw_trace alg dl dbg orc os oe ns ne = Ok (calls, c) ->
  expired c = false /\ post_cmps c = 0.
Proof.
  intros Hn Hr. pose proof (never_expire_raw_rel alg dl dl dbg orc os oe ns ne Hn Hn) as H.
  rewrite Hr in H. inversion H as [a b (_ & _ & He & Hp)| |]; subst. cbn [snd] in *. auto.
Qed.

(* projected form: an equation between the two runs *)
Definition res_map {A B : Type} (f : A -> B) (r : res A) : res B :=
  match r with Ok a => Ok (f a) | Panic => Panic | OutOfFuel => OutOfFuel end.

Lemma same_but_probes_map {X : Type} (r1 r2 : res (X * ctr)) :
  rrel same_but_probes r1 r2 ->
  res_map (fun xc => (fst xc, ctr_nocount (snd xc))) r1 =
  res_map (fun xc => (fst xc, ctr_nocount (snd xc))) r2.
Proof.
  intros H. destruct H as [a b (Hx & Hc & _)| |]; cbn [res_map]; [|reflexivity|reflexivity].
  rewrite Hx, Hc. reflexivity.
Qed.

Theorem never_expire_raw_proj alg clk dbg orc os oe ns ne :
  (forall i, clk i = false) ->
  res_map (fun xc => (fst xc, ctr_nocount (snd xc))) (raw_trace alg (Some clk) dbg orc os oe ns ne) =
  res_map (fun xc => (fst xc, ctr_nocount (snd xc))) (raw_trace alg None dbg orc os oe ns ne).
Proof.
  intros Hclk. apply same_but_probes_map. apply never_expire_raw_rel; [exact Hclk|exact I].
Qed.

(* ------------------------------------------------------------- capture_diff *)
Theorem never_expire_capture_rel alg dl1 dl2 dbg repair orc os oe ns ne :
  dl_never dl1 -> dl_never dl2 ->
  rrel same_but_probes (capture_diff alg dl1 dbg repair orc os oe ns ne)
                       (capture_diff alg dl2 dbg repair orc os oe ns ne).
Proof.
  intros Hn1 Hn2. unfold capture_diff, capture_world.
  eapply rrel_bind.
  - apply capture_parametric; [apply WSim_plain_never; assumption|].
    apply prel_intro. apply prel_intro. apply PR_plain0.
  - intros x y Hxy. prel_destr x y buf Hxy Hxy'. prel_destr x y s Hxy' HR.
    constructor. unfold same_but_probes. cbn [fst snd].
    pose proof (PR_nocount x y HR) as Hnc.
    destruct HR as (Hl & Hc & He1 & He2 & Hp1 & Hp2).
    unfold plain_calls. rewrite Hl. repeat split; assumption.
Qed.

Theorem never_expire_capture alg clk dbg repair orc os oe ns ne :
  (forall i, clk i = false) ->
  exists k,
    capture_diff alg (Some clk) dbg repair orc os oe ns ne =
    (do '(ops, c) <- capture_diff alg None dbg repair orc os oe ns ne; Ok (ops, set_probes k c)).
Proof.
  intros Hclk. apply same_but_probes_eq. apply never_expire_capture_rel; [exact Hclk|exact I].
Qed.

Theorem never_expire_capture_proj alg clk dbg repair orc os oe ns ne :
  (forall i, clk i = false) ->
  res_map (fun xc => (fst xc, ctr_nocount (snd xc)))
          (capture_diff alg (Some clk) dbg repair orc os oe ns ne) =
  res_map (fun xc => (fst xc, ctr_nocount (snd xc)))
          (capture_diff alg None dbg repair orc os oe ns ne).
Proof.
  intros Hclk. apply same_but_probes_map. apply never_expire_capture_rel; [exact Hclk|exact I].
Qed.

(* ------------------------------------------------------------- textdiff_ops *)
Theorem never_expire_textdiff_rel alg dl1 dl2 dbg repair orc olen nlen :
  dl_never dl1 -> dl_never dl2 ->
  rrel same_but_probes (textdiff_ops alg dl1 dbg repair orc olen nlen)
                       (textdiff_ops alg dl2 dbg repair orc olen nlen).
Proof.
  intros Hn1 Hn2. unfold textdiff_ops.
  destruct ((100 <? olen) || (100 <? nlen)).
  - destruct (identify_distinct (o_oo orc) (o_nn orc) (o_on orc) 0 olen 0 nlen)
      as [[oids nids]| |]; cbn [bind]; [|constructor|constructor].
    apply never_expire_capture_rel; assumption.
  - apply never_expire_capture_rel; assumption.
Qed.

Theorem never_expire_textdiff alg clk dbg repair orc olen nlen :
  (forall i, clk i = false) ->
  exists k,
    textdiff_ops alg (Some clk) dbg repair orc olen nlen =
    (do '(ops, c) <- textdiff_ops alg None dbg repair orc olen nlen; Ok (ops, set_probes k c)).
Proof.
  intros Hclk. apply same_but_probes_eq. apply never_expire_textdiff_rel; [exact Hclk|exact I].
Qed.

(* ------------------------------------------------ no deadline: never probed *)
(* the no-deadline run makes no probe at all: a unary invariant is a
   simulation of a world with itself *)
Definition NoProbe (w1 w2 : plain) : Prop := probes (p_ctr w1) = 0 /\ probes (p_ctr w2) = 0.

Lemma WSim_NoProbe : WSim NoProbe (plain_world None) (plain_world None).
Proof.
  split.
  - intros c w1 w2 H. cbn [emit plain_world]. constructor. exact H.
  - intros w1 w2 H. cbn [probe plain_world deadline_exceeded fst snd]. split; [reflexivity|exact H].
  - intros k w1 w2 H. cbn [tick plain_world]. exact H.
Qed.

Theorem raw_none_no_probe alg dbg orc os oe ns ne calls c :
  raw_trace alg None dbg orc os oe ns ne = Ok (calls, c) -> probes c = 0.
Proof.
  unfold raw_trace. intros H.
  pose proof (alg_parametric NoProbe (plain_world None) (plain_world None) alg dbg orc
                os oe ns ne plain0 plain0 WSim_NoProbe (conj eq_refl eq_refl)) as Hp.
  destruct Hp as [w1 w2 [_ Hw]| |]; cbn [bind] in H; try discriminate.
  inversion H; subst. exact Hw.
Qed.

Theorem capture_none_no_probe alg dbg repair orc os oe ns ne ops c :
  capture_diff alg None dbg repair orc os oe ns ne = Ok (ops, c) -> probes c = 0.
Proof.
  unfold capture_diff, capture_world. intros H.
  pose proof (capture_parametric NoProbe (plain_world None) (plain_world None) alg dbg repair orc
                os oe ns ne ([], (rstate0, plain0)) ([], (rstate0, plain0)) WSim_NoProbe) as Hp.
  assert (Hinit : prel (prel NoProbe) ([] : list op, (rstate0, plain0)) ([], (rstate0, plain0))).
  { apply prel_intro. apply prel_intro. split; reflexivity. }
  specialize (Hp Hinit).
  destruct Hp as [x y Hxy| |]; cbn [bind] in H; try discriminate.
  prel_destr x y buf Hxy Hxy'. prel_destr x y s Hxy' Hw. destruct Hw as [_ Hw].
  inversion H; subst. exact Hw.
Qed.

(* sanity instance (the clock is consulted three times, never fires) *)
Example never_expire_instance :
  let orc := oracles_of_items Nat.eqb (slice_lookup [0; 1; 2]) (slice_lookup [2; 1; 0]) in
  raw_trace Myers (Some (fun _ => false)) true orc 0 3 0 3 =
    Ok ([CIns 0 0 2; CEq 0 2 1; CDel 1 2 3; CFin],
        {| probes := 3; cmps := 14; expired := false; post_cmps := 0 |}) /\
  raw_trace Myers None true orc 0 3 0 3 =
    Ok ([CIns 0 0 2; CEq 0 2 1; CDel 1 2 3; CFin],
        {| probes := 0; cmps := 14; expired := false; post_cmps := 0 |}).
Proof. vm_compute. split; reflexivity. Qed.

Print Assumptions alg_parametric.
Print Assumptions capture_parametric.
Print Assumptions WSim_plain_never.
Print Assumptions never_expire_raw_rel.
Print Assumptions never_expire_raw.
Print Assumptions never_expire_raw_ctr.
Print Assumptions never_expire_raw_proj.
Print Assumptions never_expire_capture_rel.
Print Assumptions never_expire_capture.
Print Assumptions never_expire_capture_proj.
Print Assumptions never_expire_textdiff_rel.
Print Assumptions never_expire_textdiff.
Print Assumptions raw_none_no_probe.
Print Assumptions capture_none_no_probe.
