(* Proofs/MyersSweep.v — the forward and backward loops of find_middle_snake
   compute furthest-reaching values (design Appendix A items 3-4).

   Part A1: V get/set lemmas.  Part A2: the prefix/suffix scans are [slide] in
   the forward / reversed edit graph.  Part A3/A4: one iteration and one whole
   inner loop of the forward and of the backward sweep. *)
From Coq Require Import FMapPositive.
From Similar Require Import Model.Base Model.Utils Model.Myers
  Spec.Script Spec.EditGraph Spec.SnakeSpec
  Proofs.Utils Proofs.EditGraph Proofs.EditGraphFR Proofs.EditGraphSplit.

Local Open Scope nat_scope.

(* ------------------------------------------------------------------ A1: V *)
Definition InR (md : nat) (k : Z) : Prop := (- Z.of_nat md <= k < Z.of_nat md)%Z.

Lemma v_key_inj : forall i j, (0 <= i)%Z -> (0 <= j)%Z -> v_key i = v_key j -> i = j.
Proof.
  intros i j Hi Hj H. unfold v_key in H.
  apply Z2Pos.inj in H; lia.
Qed.

Lemma v_get_ok : forall md v k, VOk md v -> InR md k -> exists x, v_get v k = Ok x.
Proof.
  intros md v k [Hl Ho] Hk. unfold InR in Hk. unfold v_get. rewrite Hl, Ho.
  destruct (Z.leb_spec 0 (k + Z.of_nat md)) as [H1|H1]; [|lia].
  destruct (Z.ltb_spec (k + Z.of_nat md) (Z.of_nat (2 * md))) as [H2|H2]; [|lia].
  cbn [andb]. eexists. reflexivity.
Qed.

Lemma v_set_ok : forall md v k x, VOk md v -> InR md k ->
  exists v', v_set v k x = Ok v' /\ VOk md v' /\ v_get v' k = Ok x /\
             forall j, j <> k -> v_get v' j = v_get v j.
Proof.
  intros md v k x [Hl Ho] Hk. unfold InR in Hk. unfold v_set. rewrite Hl, Ho.
  destruct (Z.leb_spec 0 (k + Z.of_nat md)) as [H1|H1]; [|lia].
  destruct (Z.ltb_spec (k + Z.of_nat md) (Z.of_nat (2 * md))) as [H2|H2]; [|lia].
  cbn [andb]. eexists. split; [reflexivity|]. split; [split; reflexivity|]. split.
  - unfold v_get. cbn [voff vlen vcells].
    destruct (Z.leb_spec 0 (k + Z.of_nat md)); [|lia].
    destruct (Z.ltb_spec (k + Z.of_nat md) (Z.of_nat (2 * md))); [|lia].
    cbn [andb]. rewrite PositiveMap.gss. reflexivity.
  - intros j Hj. unfold v_get. cbn [voff vlen vcells]. rewrite Hl, Ho.
    destruct (Z.leb_spec 0 (j + Z.of_nat md)) as [H3|H3]; [|reflexivity].
    destruct (Z.ltb_spec (j + Z.of_nat md) (Z.of_nat (2 * md))) as [H4|H4]; [|reflexivity].
    cbn [andb]. rewrite PositiveMap.gso; [reflexivity|].
    intros E. apply v_key_inj in E; lia.
Qed.

(* ------------------------------------------------------------------ PT *)
Lemma PT_trans : forall W (wd : world W) w1 w2 w3,
  PT wd w1 w2 -> PT wd w2 w3 -> PT wd w1 w3.
Proof.
  intros W wd w1 w2 w3 H12 H23. induction H23.
  - exact H12.
  - eapply PT_probe; [apply IHPT; exact H12|eassumption].
  - apply PT_tick. apply IHPT. exact H12.
Qed.

(* ------------------------------------------------- A2: scans are slides *)
Section Scans.
  Variable cmp : cmpf.
  Variables os oe ns ne : nat.
  Notation n := (oe - os).
  Notation m := (ne - ns).
  Notation G := (dg_of cmp os oe ns ne).
  Notation Gr := (dg_rev (oe - os) (ne - ns) (dg_of cmp os oe ns ne)).
  Hypothesis Htot : CmpTotal cmp os oe ns ne.

  Lemma prefix_scan : forall x y, x < n -> y < m ->
    common_prefix_len cmp (os + x) oe (ns + y) ne =
    Ok (slide G (Nat.min (n - x) (m - y)) x y).
  Proof.
    intros x y Hx Hy.
    destruct (common_prefix_len_total cmp (os + x) oe (ns + y) ne) as [p Hp].
    { intros i j Hi Hj. apply Htot; lia. }
    rewrite Hp. f_equal. unfold common_prefix_len, empty_range in Hp.
    destruct (Nat.leb_spec oe (os + x)) as [H1|H1]; [lia|].
    destruct (Nat.leb_spec ne (ns + y)) as [H2|H2]; [lia|].
    cbn [orb] in Hp.
    apply (prefix_from_slide cmp os oe ns ne) in Hp; [|lia].
    rewrite Hp. f_equal. lia.
  Qed.

  Lemma suffix_from_slide : forall k x y a,
    k <= Nat.min (n - x) (m - y) ->
    suffix_from cmp (os + n - x) (ns + m - y) k = Ok a ->
    a = slide Gr k x y.
  Proof.
    induction k as [|k IH]; intros x y a Hk H; cbn [suffix_from slide] in *.
    - injection H as <-. reflexivity.
    - assert (Hx : x < n) by lia. assert (Hy : y < m) by lia.
      rewrite (dg_rev_in n m G x y Hx Hy). unfold dg_of at 1.
      destruct (Nat.ltb_spec (n - 1 - x) n) as [_|Hc]; [|lia].
      destruct (Nat.ltb_spec (m - 1 - y) m) as [_|Hc]; [|lia]. cbn [andb].
      replace (os + (n - 1 - x)) with (os + n - x - 1) by lia.
      replace (ns + (m - 1 - y)) with (ns + m - y - 1) by lia.
      destruct (cmp (os + n - x - 1) (ns + m - y - 1)) as [[|]| |];
        cbn [bind] in H; try discriminate.
      + destruct (suffix_from cmp (os + n - x - 1) (ns + m - y - 1) k) as [a'| |] eqn:E;
          cbn [bind] in H; try discriminate.
        injection H as <-. f_equal. apply IH; [lia|].
        replace (os + n - S x) with (os + n - x - 1) by lia.
        replace (ns + m - S y) with (ns + m - y - 1) by lia. exact E.
      + injection H as <-. reflexivity.
  Qed.

  Lemma suffix_scan : forall x y, x < n -> y < m ->
    common_suffix_len cmp os (os + n - x) ns (ns + m - y) =
    Ok (slide Gr (Nat.min (n - x) (m - y)) x y).
  Proof.
    intros x y Hx Hy.
    destruct (common_suffix_len_total cmp os (os + n - x) ns (ns + m - y)) as [p Hp].
    { intros i j Hi Hj. apply Htot; lia. }
    rewrite Hp. f_equal. unfold common_suffix_len, empty_range in Hp.
    destruct (Nat.leb_spec (os + n - x) os) as [H1|H1]; [lia|].
    destruct (Nat.leb_spec (ns + m - y) ns) as [H2|H2]; [lia|].
    cbn [orb] in Hp.
    apply suffix_from_slide in Hp; [|lia].
    rewrite Hp. f_equal. lia.
  Qed.
End Scans.

(* ------------------------------------- A3: the sweep recurrence, generic *)
(* diagonal k is visited in round d *)
Definition Par (d : nat) (k : Z) : Prop :=
  (- Z.of_nat d <= k <= Z.of_nat d)%Z /\ exists t : Z, k = (Z.of_nat d - 2 * t)%Z.

Section Sweep.
  Variables n m : nat.
  Variable dg : nat -> nat -> bool.
  Hypothesis Hbox : DgBox n m dg.

  (* cell k holds the furthest reaching x of round d *)
  Definition Cell (d : nat) (v : V) (k : Z) : Prop :=
    exists x, v_get v k = Ok x /\ FR dg d k x.

  (* what a round needs from the array: the previous round's values (or, for
     round 0, the initial v[1] = 0).  Nothing else is ever read. *)
  Definition PrevOk (d : nat) (v : V) : Prop :=
    match d with
    | 0 => v_get v 1%Z = Ok 0
    | S d' => forall k, Par d' k -> Cell d' v k
    end.

  (* the diagonals above k have been processed in round d *)
  Definition Done (d : nat) (v : V) (k : Z) : Prop :=
    forall j, Par d j -> (k < j)%Z -> Cell d v j.

  Lemma sweep_pick : forall d k v, PrevOk d v -> Par d k ->
    exists x0, pick v k (Z.of_nat d) = Ok x0 /\ (k <= Z.of_nat x0)%Z /\
      Reach dg d x0 (Z.to_nat (Z.of_nat x0 - k)) /\
      forall f, Nat.min (n - x0) (m - Z.to_nat (Z.of_nat x0 - k)) <= f ->
        FR dg d k (x0 + slide dg f x0 (Z.to_nat (Z.of_nat x0 - k))).
  Proof.
    intros d k v Hprev [Hrange [t Ht]]. destruct d as [|d].
    - assert (Hk0 : k = 0%Z) by lia. clear Ht Hrange. subst k. exists 0. unfold pick.
      cbn [Z.of_nat Z.opp Z.eqb Z.add].
      cbn [PrevOk] in Hprev. split; [exact Hprev|]. split; [lia|].
      cbn [Z.of_nat Z.sub Z.opp Z.add Z.to_nat]. split; [apply R_start|].
      intros f Hf. cbn [Nat.add]. apply (FR_0_fuel n m dg Hbox). lia.
    - cbn [PrevOk] in Hprev.
      assert (Hlo : exists lo, ((- Z.of_nat (S d) < k)%Z ->
                     v_get v (k - 1)%Z = Ok lo /\ FR dg d (k - 1) lo)).
      { destruct (Z_lt_le_dec (- Z.of_nat (S d)) k) as [Hin|Hout].
        - destruct (Hprev (k - 1)%Z) as [lo Hlo].
          + split; [lia|]. exists t. lia.
          + exists lo. intros _. exact Hlo.
        - exists 0. intros Hc. lia. }
      assert (Hhi : exists hi, ((k < Z.of_nat (S d))%Z ->
                     v_get v (k + 1)%Z = Ok hi /\ FR dg d (k + 1) hi)).
      { destruct (Z_lt_le_dec k (Z.of_nat (S d))) as [Hin|Hout].
        - destruct (Hprev (k + 1)%Z) as [hi Hhi].
          + split; [lia|]. exists (t - 1)%Z. lia.
          + exists hi. intros _. exact Hhi.
        - exists 0. intros Hc. lia. }
      destruct Hlo as [lo Hlo]. destruct Hhi as [hi Hhi].
      assert (Hlo' : (- Z.of_nat (S d) < k)%Z -> FR dg d (k - 1) lo) by (intros H; apply Hlo; exact H).
      assert (Hhi' : (k < Z.of_nat (S d))%Z -> FR dg d (k + 1) hi) by (intros H; apply Hhi; exact H).
      exists (pick_spec (S d) k lo hi).
      destruct (FR_step_S n m dg Hbox d k lo hi Hrange Hlo' Hhi') as [Hy HFR].
      destruct (pick_spec_origin n m dg Hbox d k lo hi Hrange Hlo' Hhi') as [_ [Hr _]].
      split; [|split; [exact Hy|split; [exact Hr|exact HFR]]].
      unfold pick, pick_spec.
      destruct (Z.eqb_spec k (- Z.of_nat (S d))) as [E1|N1].
      + apply Hhi. lia.
      + destruct (Z.eqb_spec k (Z.of_nat (S d))) as [E2|N2].
        * destruct (Hlo ltac:(lia)) as [-> _]. reflexivity.
        * destruct (Hlo ltac:(lia)) as [-> _]. destruct (Hhi ltac:(lia)) as [-> _].
          cbn [bind]. destruct (lo <? hi); reflexivity.
  Qed.

  (* writing cell k keeps what the round still needs and extends [Done] *)
  Lemma after_set : forall d k v v' x,
    v_get v' k = Ok x -> (forall j, j <> k -> v_get v' j = v_get v j) ->
    Par d k -> FR dg d k x -> PrevOk d v -> Done d v k ->
    PrevOk d v' /\ Done d v' (k - 2).
  Proof.
    intros d k v v' x Hget Hframe [Hrange [t Ht]] HFR Hprev Hdone. split.
    - destruct d as [|d]; cbn [PrevOk] in *.
      + rewrite Hframe; [exact Hprev|lia].
      + intros j [Hrj [tj Htj]]. destruct (Hprev j) as [xj [Hxj HFRj]].
        { split; [exact Hrj|]. exists tj. exact Htj. }
        exists xj. split; [|exact HFRj]. rewrite Hframe; [exact Hxj|lia].
    - intros j [Hrj [tj Htj]] Hlt. destruct (Z.eq_dec j k) as [->|Hne].
      + exists x. split; assumption.
      + destruct (Hdone j) as [xj [Hxj HFRj]].
        { split; [exact Hrj|]. exists tj. exact Htj. }
        { lia. }
        exists xj. split; [|exact HFRj]. rewrite Hframe; [exact Hxj|exact Hne].
  Qed.

  Lemma Done_start : forall d v, Done d v (Z.of_nat d).
  Proof. intros d v j [Hr _] Hlt. lia. Qed.

  Lemma Done_end : forall d v k, (k < - Z.of_nat d)%Z -> Done d v k -> PrevOk (S d) v.
  Proof. intros d v k Hk Hdone. cbn [PrevOk]. intros j Hj. apply Hdone; [exact Hj|]. destruct Hj as [Hr _]. lia. Qed.
End Sweep.

(* --------------------------------------- A3/A4: the loops of the model *)
Section Loops.
  Context {W : Type}.
  Variable wd : world W.
  Variable cmp : cmpf.
  Variables os oe ns ne : nat.
  Variable md : nat.
  Notation n := (oe - os).
  Notation m := (ne - ns).
  Notation delta := (Z.of_nat (oe - os) - Z.of_nat (ne - ns))%Z.
  Notation G := (dg_of cmp os oe ns ne).
  Notation Gr := (dg_rev (oe - os) (ne - ns) (dg_of cmp os oe ns ne)).
  Hypothesis Htot : CmpTotal cmp os oe ns ne.

  Let HboxG : DgBox n m G := dg_of_box cmp os oe ns ne.
  Let HboxGr : DgBox n m Gr := dg_rev_box n m G.

  (* the forward overlap test passes on diagonal k in round d *)
  Definition FwdHit (d : nat) (k : Z) : Prop :=
    Z.odd delta = true /\ (Z.abs (k - delta) <= Z.of_nat d - 1)%Z /\
    exists xf ub, FR G d k xf /\ FR Gr (d - 1) (delta - k) ub /\ n <= xf + ub.

  (* the backward overlap test passes on (backward) diagonal k in round d *)
  Definition BwdHit (d : nat) (k : Z) : Prop :=
    Z.odd delta = false /\ (Z.abs (k - delta) <= Z.of_nat d)%Z /\
    exists ub xf, FR Gr d k ub /\ FR G d (delta - k) xf /\ n <= ub + xf.

  (* the scan part of one iteration, forward *)
  Lemma fwd_scan : forall x0 y0 (w : W),
    exists w1,
      (if (x0 <? n) && (y0 <? m) then
         do adv <- common_prefix_len cmp (os + x0) oe (ns + y0) ne;
         Ok (x0 + adv, tick wd (scan_cmps (os + x0) oe (ns + y0) ne adv) w)
       else Ok (x0, w)) =
      Ok (x0 + slide G (Nat.min (n - x0) (m - y0)) x0 y0, w1) /\ PT wd w w1.
  Proof.
    intros x0 y0 w.
    destruct (Nat.ltb_spec x0 n) as [Hx|Hx]; [destruct (Nat.ltb_spec y0 m) as [Hy|Hy]|];
      cbn [andb].
    - rewrite (prefix_scan cmp os oe ns ne Htot x0 y0 Hx Hy). cbn [bind].
      eexists. split; [reflexivity|]. apply PT_tick. apply PT_refl.
    - rewrite (slide_out n m G HboxG _ x0 y0) by lia. rewrite Nat.add_0_r.
      exists w. split; [reflexivity|apply PT_refl].
    - rewrite (slide_out n m G HboxG _ x0 y0) by lia. rewrite Nat.add_0_r.
      exists w. split; [reflexivity|apply PT_refl].
  Qed.

  Lemma bwd_scan : forall x0 y0 (w : W),
    exists w1,
      (if (x0 <? n) && (y0 <? m) then
         do adv <- common_suffix_len cmp os (os + n - x0) ns (ns + m - y0);
         Ok (x0 + adv, y0 + adv,
             tick wd (scan_cmps os (os + n - x0) ns (ns + m - y0) adv) w)
       else Ok (x0, y0, w)) =
      Ok (x0 + slide Gr (Nat.min (n - x0) (m - y0)) x0 y0,
          y0 + slide Gr (Nat.min (n - x0) (m - y0)) x0 y0, w1) /\ PT wd w w1.
  Proof.
    intros x0 y0 w.
    destruct (Nat.ltb_spec x0 n) as [Hx|Hx]; [destruct (Nat.ltb_spec y0 m) as [Hy|Hy]|];
      cbn [andb].
    - rewrite (suffix_scan cmp os oe ns ne Htot x0 y0 Hx Hy). cbn [bind].
      eexists. split; [reflexivity|]. apply PT_tick. apply PT_refl.
    - rewrite (slide_out n m Gr HboxGr _ x0 y0) by lia. rewrite !Nat.add_0_r.
      exists w. split; [reflexivity|apply PT_refl].
    - rewrite (slide_out n m Gr HboxGr _ x0 y0) by lia. rewrite !Nat.add_0_r.
      exists w. split; [reflexivity|apply PT_refl].
  Qed.

  Lemma z_to_usize_ok : forall x k, (k <= Z.of_nat x)%Z ->
    z_to_usize (Z.of_nat x - k) = Ok (Z.to_nat (Z.of_nat x - k)).
  Proof.
    intros x k H. unfold z_to_usize.
    destruct (Z.ltb_spec (Z.of_nat x - k) 0); [lia|reflexivity].
  Qed.

  (* parity of the partner diagonal *)
  Lemma Par_partner_odd : forall d k, Par d k -> Z.odd delta = true ->
    (Z.abs (k - delta) <= Z.of_nat d - 1)%Z -> Par (d - 1) (delta - k).
  Proof.
    intros d k [Hr [t Ht]] Hodd Habs. apply Z.odd_spec in Hodd. destruct Hodd as [q Hq].
    split; [lia|]. exists (Z.of_nat d - 1 - q - t)%Z. lia.
  Qed.

  Lemma Par_partner_even : forall d k, Par d k -> Z.odd delta = false ->
    (Z.abs (k - delta) <= Z.of_nat d)%Z -> Par d (delta - k).
  Proof.
    intros d k [Hr [t Ht]] Hodd Habs.
    assert (He : Z.even delta = true) by (rewrite <- Z.negb_odd, Hodd; reflexivity).
    apply Z.even_spec in He. destruct He as [q Hq].
    split; [lia|]. exists (Z.of_nat d - q - t)%Z. lia.
  Qed.

  (* ---------------------------------------------- one forward iteration *)
  Lemma fwd_step_spec : forall d k vf vb w,
    S d <= md -> Par d k -> VOk md vf -> VOk md vb ->
    PrevOk G d vf -> PrevOk Gr d vb ->
    exists r vf1 w1 x0 s,
      fwd_step wd cmp os oe ns ne (Z.of_nat d) k vf vb w = Ok (r, vf1, w1) /\
      VOk md vf1 /\ PT wd w w1 /\
      (k <= Z.of_nat x0)%Z /\
      Reach G d x0 (Z.to_nat (Z.of_nat x0 - k)) /\
      DiagRun G s x0 (Z.to_nat (Z.of_nat x0 - k)) /\
      FR G d k (x0 + s) /\
      v_get vf1 k = Ok (x0 + s) /\
      (forall j, j <> k -> v_get vf1 j = v_get vf j) /\
      ((r = Some (x0 + os, Z.to_nat (Z.of_nat x0 - k) + ns) /\ FwdHit d k) \/
       (r = None /\ ~ FwdHit d k)).
  Proof.
    intros d k vf vb w Hd Hpar Hvf Hvb Hpf Hpb.
    destruct (sweep_pick n m G HboxG d k vf Hpf Hpar) as [x0 [Hpick [Hy [Hr HFR]]]].
    set (y0 := Z.to_nat (Z.of_nat x0 - k)) in *.
    set (s := slide G (Nat.min (n - x0) (m - y0)) x0 y0).
    specialize (HFR _ (Nat.le_refl _)). fold s in HFR.
    destruct (fwd_scan x0 y0 w) as [w1 [Hscan HPT]]. fold s in Hscan.
    assert (Hk : InR md k) by (destruct Hpar as [Hrange _]; unfold InR; lia).
    destruct (v_set_ok md vf k (x0 + s) Hvf Hk) as [vf1 [Hset [Hvf1 [Hget Hframe]]]].
    assert (Hprefix : fwd_step wd cmp os oe ns ne (Z.of_nat d) k vf vb w =
      if Z.odd delta && (Z.abs (k - delta) <=? Z.of_nat d - 1)%Z then
        do a <- v_get vf1 k;
        do b <- v_get vb (- (k - delta))%Z;
        if n <=? a + b then Ok (Some (x0 + os, y0 + ns), vf1, w1)
        else Ok (None, vf1, w1)
      else Ok (None, vf1, w1)).
    { unfold fwd_step. rewrite Hpick. cbn [bind]. rewrite (z_to_usize_ok x0 k Hy). cbn [bind].
      fold y0. rewrite Hscan. cbn [bind]. rewrite Hset. cbn [bind]. reflexivity. }
    assert (Hcommon : forall r,
      ((r = Some (x0 + os, y0 + ns) /\ FwdHit d k) \/ (r = None /\ ~ FwdHit d k)) ->
      fwd_step wd cmp os oe ns ne (Z.of_nat d) k vf vb w = Ok (r, vf1, w1) ->
      exists r vf1 w1 x0 s,
      fwd_step wd cmp os oe ns ne (Z.of_nat d) k vf vb w = Ok (r, vf1, w1) /\
      VOk md vf1 /\ PT wd w w1 /\
      (k <= Z.of_nat x0)%Z /\
      Reach G d x0 (Z.to_nat (Z.of_nat x0 - k)) /\
      DiagRun G s x0 (Z.to_nat (Z.of_nat x0 - k)) /\
      FR G d k (x0 + s) /\
      v_get vf1 k = Ok (x0 + s) /\
      (forall j, j <> k -> v_get vf1 j = v_get vf j) /\
      ((r = Some (x0 + os, Z.to_nat (Z.of_nat x0 - k) + ns) /\ FwdHit d k) \/
       (r = None /\ ~ FwdHit d k))).
    { intros r Hres Heq. exists r, vf1, w1, x0, s. fold y0.
      repeat (split; [assumption|]).
      split; [apply slide_run|]. repeat (split; [assumption|]). exact Hres. }
    destruct (Z.odd delta) eqn:Hodd; cbn [andb] in Hprefix.
    2:{ apply (Hcommon None); [|exact Hprefix]. right. split; [reflexivity|].
        intros [Ho _]. congruence. }
    destruct (Z.leb_spec (Z.abs (k - delta)) (Z.of_nat d - 1)) as [Habs|Habs].
    2:{ apply (Hcommon None); [|exact Hprefix]. right. split; [reflexivity|].
        intros [_ [Ha _]]. lia. }
    pose proof (Par_partner_odd d k Hpar Hodd Habs) as Hpp.
    assert (Hcell : Cell Gr (d - 1) vb (delta - k)).
    { destruct d as [|d']; [lia|]. cbn [PrevOk] in Hpb.
      replace (S d' - 1) with d' in * by lia. apply Hpb. exact Hpp. }
    destruct Hcell as [ub [Hgb HFRb]].
    rewrite Hget in Hprefix. cbn [bind] in Hprefix.
    replace (- (k - delta))%Z with (delta - k)%Z in Hprefix by lia.
    rewrite Hgb in Hprefix. cbn [bind] in Hprefix.
    destruct (Nat.leb_spec n (x0 + s + ub)) as [Hge|Hlt].
    - apply (Hcommon (Some (x0 + os, y0 + ns))); [|exact Hprefix]. left.
      split; [reflexivity|]. split; [exact Hodd|]. split; [exact Habs|].
      exists (x0 + s), ub. auto.
    - apply (Hcommon None); [|exact Hprefix]. right. split; [reflexivity|].
      intros [_ [_ [xf [ub' [H1 [H2 H3]]]]]].
      rewrite (FR_unique G _ _ _ _ H1 HFR) in H3.
      rewrite (FR_unique Gr _ _ _ _ H2 HFRb) in H3. lia.
  Qed.

  (* ---------------------------------------------- the forward inner loop *)
  (* what is known when the forward loop returns a point *)
  Definition FwdRes (d : nat) (p : nat * nat) : Prop :=
    exists k x0 s, Par d k /\ (k <= Z.of_nat x0)%Z /\
      p = (x0 + os, Z.to_nat (Z.of_nat x0 - k) + ns) /\
      Reach G d x0 (Z.to_nat (Z.of_nat x0 - k)) /\
      DiagRun G s x0 (Z.to_nat (Z.of_nat x0 - k)) /\
      FR G d k (x0 + s) /\ FwdHit d k.

  Lemma fwd_loop_spec : forall d cnt k vf vb w,
    S d <= md -> (k = - Z.of_nat d + 2 * Z.of_nat cnt - 2)%Z -> cnt <= S d ->
    VOk md vf -> VOk md vb -> PrevOk G d vf -> PrevOk Gr d vb ->
    Done G d vf k -> (forall j, Par d j -> (k < j)%Z -> ~ FwdHit d j) ->
    exists r vf1 w1,
      fwd_loop wd cmp os oe ns ne cnt (Z.of_nat d) k vf vb w = Ok (r, vf1, w1) /\
      VOk md vf1 /\ PT wd w w1 /\
      match r with
      | Some p => FwdRes d p
      | None => PrevOk G (S d) vf1 /\ forall j, Par d j -> ~ FwdHit d j
      end.
  Proof.
    intros d cnt. induction cnt as [|cnt IH]; intros k vf vb w Hd Hk Hcnt Hvf Hvb Hpf Hpb Hdone Hnohit.
    - exists None, vf, w. cbn [fwd_loop]. split; [reflexivity|]. split; [exact Hvf|].
      split; [apply PT_refl|]. split.
      + apply (Done_end G d vf k); [lia|exact Hdone].
      + intros j Hj. apply Hnohit; [exact Hj|]. destruct Hj as [Hr _]. lia.
    - assert (Hpar : Par d k).
      { split; [lia|]. exists (Z.of_nat d - Z.of_nat cnt)%Z. lia. }
      destruct (fwd_step_spec d k vf vb w Hd Hpar Hvf Hvb Hpf Hpb)
        as [r [vf1 [w1 [x0 [s [Hstep [Hvf1 [HPT [Hy [Hr [Hrun [HFR [Hget [Hframe Hres]]]]]]]]]]]]]].
      cbn [fwd_loop]. rewrite Hstep. cbn [bind].
      destruct Hres as [[-> Hhit]|[-> Hnh]].
      + exists (Some (x0 + os, Z.to_nat (Z.of_nat x0 - k) + ns)), vf1, w1.
        split; [reflexivity|]. split; [exact Hvf1|]. split; [exact HPT|].
        exists k, x0, s. repeat (split; [assumption || reflexivity|]). exact Hhit.
      + destruct (after_set G d k vf vf1 (x0 + s) Hget Hframe Hpar HFR Hpf Hdone) as [Hpf1 Hdone1].
        destruct (IH (k - 2)%Z vf1 vb w1 Hd ltac:(lia) ltac:(lia) Hvf1 Hvb Hpf1 Hpb Hdone1)
          as [r [vf2 [w2 [Hloop [Hvf2 [HPT2 Hres2]]]]]].
        { intros j Hj Hlt. destruct (Z.eq_dec j k) as [->|Hne]; [exact Hnh|].
          apply Hnohit; [exact Hj|]. destruct Hj as [_ [tj Htj]]. destruct Hpar as [_ [t Ht]]. lia. }
        exists r, vf2, w2. split; [exact Hloop|]. split; [exact Hvf2|].
        split; [exact (PT_trans _ wd _ _ _ HPT HPT2)|exact Hres2].
  Qed.

  (* --------------------------------------------- one backward iteration *)
  (* the end of the backward snake on a tested diagonal lies in the box; this
     is a fact about the graph and the optimal cost (Proofs/MyersSnake.v), the
     loop only needs it for the two checked subtractions *)
  Definition BwdBox (d : nat) (k : Z) : Prop :=
    Z.odd delta = false -> (Z.abs (k - delta) <= Z.of_nat d)%Z ->
    forall u v, OnDiag k u v -> Reach Gr d u v -> u <= n /\ v <= m.

  Lemma bwd_step_spec : forall d k vf vb w,
    S d <= md -> Par d k -> VOk md vf -> VOk md vb ->
    PrevOk G (S d) vf -> PrevOk Gr d vb -> BwdBox d k ->
    exists r vb1 w1 u1 v1,
      bwd_step wd cmp os oe ns ne (Z.of_nat d) k vf vb w = Ok (r, vb1, w1) /\
      VOk md vb1 /\ PT wd w w1 /\
      OnDiag k u1 v1 /\
      FR Gr d k u1 /\
      v_get vb1 k = Ok u1 /\
      (forall j, j <> k -> v_get vb1 j = v_get vb j) /\
      ((r = Some (n - u1 + os, m - v1 + ns) /\ u1 <= n /\ v1 <= m /\ BwdHit d k) \/
       (r = None /\ ~ BwdHit d k)).
  Proof.
    intros d k vf vb w Hd Hpar Hvf Hvb Hpf Hpb Hbb.
    destruct (sweep_pick n m Gr HboxGr d k vb Hpb Hpar) as [x0 [Hpick [Hy [Hr HFR]]]].
    set (y0 := Z.to_nat (Z.of_nat x0 - k)) in *.
    set (s := slide Gr (Nat.min (n - x0) (m - y0)) x0 y0).
    specialize (HFR _ (Nat.le_refl _)). fold s in HFR.
    destruct (bwd_scan x0 y0 w) as [w1 [Hscan HPT]]. fold s in Hscan.
    assert (Hk : InR md k) by (destruct Hpar as [Hrange _]; unfold InR; lia).
    destruct (v_set_ok md vb k (x0 + s) Hvb Hk) as [vb1 [Hset [Hvb1 [Hget Hframe]]]].
    assert (Hdiag : OnDiag k (x0 + s) (y0 + s)) by (unfold OnDiag; lia).
    assert (Hr1 : Reach Gr d (x0 + s) (y0 + s)).
    { apply Reach_run; [exact Hr|apply slide_run]. }
    assert (Hprefix : bwd_step wd cmp os oe ns ne (Z.of_nat d) k vf vb w =
      if negb (Z.odd delta) && (Z.abs (k - delta) <=? Z.of_nat d)%Z then
        do a <- v_get vb1 k;
        do b <- v_get vf (- (k - delta))%Z;
        if n <=? a + b then
          do xr <- sub_chk n (x0 + s);
          do yr <- sub_chk m (y0 + s);
          Ok (Some (xr + os, yr + ns), vb1, w1)
        else Ok (None, vb1, w1)
      else Ok (None, vb1, w1)).
    { unfold bwd_step. rewrite Hpick. cbn [bind]. rewrite (z_to_usize_ok x0 k Hy). cbn [bind].
      fold y0. rewrite Hscan. cbn [bind]. rewrite Hset. cbn [bind]. reflexivity. }
    assert (Hcommon : forall r,
      ((r = Some (n - (x0 + s) + os, m - (y0 + s) + ns) /\ x0 + s <= n /\ y0 + s <= m /\ BwdHit d k) \/
       (r = None /\ ~ BwdHit d k)) ->
      bwd_step wd cmp os oe ns ne (Z.of_nat d) k vf vb w = Ok (r, vb1, w1) ->
      exists r vb1 w1 u1 v1,
      bwd_step wd cmp os oe ns ne (Z.of_nat d) k vf vb w = Ok (r, vb1, w1) /\
      VOk md vb1 /\ PT wd w w1 /\
      OnDiag k u1 v1 /\
      FR Gr d k u1 /\
      v_get vb1 k = Ok u1 /\
      (forall j, j <> k -> v_get vb1 j = v_get vb j) /\
      ((r = Some (n - u1 + os, m - v1 + ns) /\ u1 <= n /\ v1 <= m /\ BwdHit d k) \/
       (r = None /\ ~ BwdHit d k))).
    { intros r Hres Heq. exists r, vb1, w1, (x0 + s), (y0 + s).
      repeat (split; [assumption|]). exact Hres. }
    destruct (Z.odd delta) eqn:Hodd; cbn [andb negb] in Hprefix.
    { apply (Hcommon None); [|exact Hprefix]. right. split; [reflexivity|].
      intros [Ho _]. congruence. }
    destruct (Z.leb_spec (Z.abs (k - delta)) (Z.of_nat d)) as [Habs|Habs].
    2:{ apply (Hcommon None); [|exact Hprefix]. right. split; [reflexivity|].
        intros [_ [Ha _]]. lia. }
    pose proof (Par_partner_even d k Hpar Hodd Habs) as Hpp.
    cbn [PrevOk] in Hpf. destruct (Hpf _ Hpp) as [xf [Hgf HFRf]].
    rewrite Hget in Hprefix. cbn [bind] in Hprefix.
    replace (- (k - delta))%Z with (delta - k)%Z in Hprefix by lia.
    rewrite Hgf in Hprefix. cbn [bind] in Hprefix.
    destruct (Nat.leb_spec n (x0 + s + xf)) as [Hge|Hlt].
    - destruct (Hbb Hodd Habs _ _ Hdiag Hr1) as [Hu Hv].
      unfold sub_chk in Hprefix.
      destruct (Nat.leb_spec (x0 + s) n) as [_|Hc]; [|lia].
      destruct (Nat.leb_spec (y0 + s) m) as [_|Hc]; [|lia].
      cbn [bind] in Hprefix.
      apply (Hcommon (Some (n - (x0 + s) + os, m - (y0 + s) + ns))); [|exact Hprefix]. left.
      split; [reflexivity|]. split; [exact Hu|]. split; [exact Hv|].
      split; [exact Hodd|]. split; [exact Habs|].
      exists (x0 + s), xf. auto.
    - apply (Hcommon None); [|exact Hprefix]. right. split; [reflexivity|].
      intros [_ [_ [ub [xf' [H1 [H2 H3]]]]]].
      rewrite (FR_unique Gr _ _ _ _ H1 HFR) in H3.
      rewrite (FR_unique G _ _ _ _ H2 HFRf) in H3. lia.
  Qed.

  (* --------------------------------------------- the backward inner loop *)
  Definition BwdRes (d : nat) (p : nat * nat) : Prop :=
    exists k u1 v1, Par d k /\ OnDiag k u1 v1 /\ u1 <= n /\ v1 <= m /\
      p = (n - u1 + os, m - v1 + ns) /\ FR Gr d k u1 /\ BwdHit d k.

  Lemma bwd_loop_spec : forall d cnt k vf vb w,
    S d <= md -> (k = - Z.of_nat d + 2 * Z.of_nat cnt - 2)%Z -> cnt <= S d ->
    VOk md vf -> VOk md vb -> PrevOk G (S d) vf -> PrevOk Gr d vb ->
    (forall j, BwdBox d j) ->
    Done Gr d vb k -> (forall j, Par d j -> (k < j)%Z -> ~ BwdHit d j) ->
    exists r vb1 w1,
      bwd_loop wd cmp os oe ns ne cnt (Z.of_nat d) k vf vb w = Ok (r, vb1, w1) /\
      VOk md vb1 /\ PT wd w w1 /\
      match r with
      | Some p => BwdRes d p
      | None => PrevOk Gr (S d) vb1 /\ forall j, Par d j -> ~ BwdHit d j
      end.
  Proof.
    intros d cnt. induction cnt as [|cnt IH];
      intros k vf vb w Hd Hk Hcnt Hvf Hvb Hpf Hpb Hbb Hdone Hnohit.
    - exists None, vb, w. cbn [bwd_loop]. split; [reflexivity|]. split; [exact Hvb|].
      split; [apply PT_refl|]. split.
      + apply (Done_end Gr d vb k); [lia|exact Hdone].
      + intros j Hj. apply Hnohit; [exact Hj|]. destruct Hj as [Hr _]. lia.
    - assert (Hpar : Par d k).
      { split; [lia|]. exists (Z.of_nat d - Z.of_nat cnt)%Z. lia. }
      destruct (bwd_step_spec d k vf vb w Hd Hpar Hvf Hvb Hpf Hpb (Hbb k))
        as [r [vb1 [w1 [u1 [v1 [Hstep [Hvb1 [HPT [Hdiag [HFR [Hget [Hframe Hres]]]]]]]]]]]].
      cbn [bwd_loop]. rewrite Hstep. cbn [bind].
      destruct Hres as [[-> [Hu [Hv Hhit]]]|[-> Hnh]].
      + exists (Some (n - u1 + os, m - v1 + ns)), vb1, w1.
        split; [reflexivity|]. split; [exact Hvb1|]. split; [exact HPT|].
        exists k, u1, v1. repeat (split; [assumption || reflexivity|]). exact Hhit.
      + destruct (after_set Gr d k vb vb1 u1 Hget Hframe Hpar HFR Hpb Hdone) as [Hpb1 Hdone1].
        destruct (IH (k - 2)%Z vf vb1 w1 Hd ltac:(lia) ltac:(lia) Hvf Hvb1 Hpf Hpb1 Hbb Hdone1)
          as [r [vb2 [w2 [Hloop [Hvb2 [HPT2 Hres2]]]]]].
        { intros j Hj Hlt. destruct (Z.eq_dec j k) as [->|Hne]; [exact Hnh|].
          apply Hnohit; [exact Hj|]. destruct Hj as [_ [tj Htj]]. destruct Hpar as [_ [t Ht]]. lia. }
        exists r, vb2, w2. split; [exact Hloop|]. split; [exact Hvb2|].
        split; [exact (PT_trans _ wd _ _ _ HPT HPT2)|exact Hres2].
  Qed.
End Loops.

Print Assumptions fwd_loop_spec.
Print Assumptions bwd_loop_spec.
