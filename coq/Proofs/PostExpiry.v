(* Proofs/PostExpiry.v — C07, clause "after expiry it performs only a small
   constant multiple of N+M further element comparisons".

   The clock is MONOTONE ([DlMono]: once a probe has answered true every later
   probe answers true — real time does not go back).

   Part 1  [PostResp]: a world with an "expired" observation [exp], a count
           [cnt] that [tick k] increases by k exactly when [exp] holds, and an
           invariant [Inv] under which an expired world answers true to every
           probe.  [Stable]: predicates preserved by probe / tick / emit, and
           the fact that every loop of the Myers model preserves them.
   Part 2  Myers, any such world:  a middle-snake search started after expiry
           returns None without comparing, one started before expiry never
           adds to [cnt]; [conquer_post]: a conquer call on an n x m box adds
           at most n + m to [cnt], whenever the clock expires.
   Part 3  the recording world [plain_world dl]; [myers_post_expiry].
   Part 4  LCS: nothing is compared after expiry ([lcs_post_expiry]).
   Part 5  Patience: the outer Myers run over the unique lists, run in a world
           with a ghost counter of its own post-expiry comparisons
           ([ghost_world]), and a potential argument for the comparisons made
           inside the Patience hook (anchor extension, the inner Myers runs on
           the gaps, the tail run): at most 2 * (N + M) + 1.
   Part 6  [post_expiry_bound] for [raw_trace]. *)
From Coq Require Import FMapPositive.
From Similar Require Import Model.Base Model.Utils Model.Myers Model.Lcs Model.Hooks
  Model.Patience Model.Capture
  Spec.Script Spec.EditGraph Spec.SnakeSpec
  Proofs.Utils Proofs.WorldInv Proofs.Replace Proofs.MyersSweep Proofs.MyersSnake
  Proofs.MyersWork Proofs.Lcs Proofs.Unique Proofs.PatienceGen Proofs.PatienceSim Proofs.Patience.

Local Open Scope nat_scope.

(* ================================================================ Part 1 *)
Record PostResp {W} (wd : world W) (Inv : W -> Prop) (exp : W -> bool) (cnt : W -> nat)
  : Prop := {
  po_probe : forall w b w', Inv w -> probe wd w = (b, w') ->
      Inv w' /\ cnt w' = cnt w /\ exp w' = exp w || b /\ (exp w = true -> b = true);
  po_tick : forall k w, Inv w ->
      Inv (tick wd k w) /\ exp (tick wd k w) = exp w /\
      cnt (tick wd k w) = cnt w + (if exp w then k else 0);
  po_emit : forall c w w', Inv w -> emit wd c w = Ok w' ->
      Inv w' /\ cnt w' = cnt w /\ (exp w = true -> exp w' = true)
}.

(* predicates on world states that no action of the world destroys *)
Record Stable {W} (wd : world W) (P : W -> Prop) : Prop := {
  st_probe : forall w b w', P w -> probe wd w = (b, w') -> P w';
  st_tick : forall k w, P w -> P (tick wd k w);
  st_emit : forall c w w', P w -> emit wd c w = Ok w' -> P w'
}.

Section Loops.
  Context {W : Type}.
  Variable wd : world W.
  Variable cmp : cmpf.
  Variable P : W -> Prop.
  Hypothesis Ptick : forall k w, P w -> P (tick wd k w).

  Lemma fwd_step_keeps os oe ns ne d k vf vb w r vf' w' :
    fwd_step wd cmp os oe ns ne d k vf vb w = Ok (r, vf', w') -> P w -> P w'.
  Proof.
    intros H HP. unfold fwd_step in H.
    repeat sim_step H w; inversion H; subst; try apply Ptick; exact HP.
  Qed.

  Lemma bwd_step_keeps os oe ns ne d k vf vb w r vb' w' :
    bwd_step wd cmp os oe ns ne d k vf vb w = Ok (r, vb', w') -> P w -> P w'.
  Proof.
    intros H HP. unfold bwd_step in H.
    repeat sim_step H w; inversion H; subst; try apply Ptick; exact HP.
  Qed.

  Lemma fwd_loop_keeps os oe ns ne d : forall c k vf vb w r vf' w',
    fwd_loop wd cmp os oe ns ne c d k vf vb w = Ok (r, vf', w') -> P w -> P w'.
  Proof.
    induction c as [|c IH]; intros k vf vb w r vf' w' H HP; cbn [fwd_loop] in H.
    - inversion H; subst. exact HP.
    - apply bind_Ok_inv in H. destruct H as ([[r0 vf1] w1] & Hs & H).
      pose proof (fwd_step_keeps _ _ _ _ _ _ _ _ _ _ _ _ Hs HP) as HP1.
      destruct r0 as [p|].
      + inversion H; subst. exact HP1.
      + eapply IH; eassumption.
  Qed.

  Lemma bwd_loop_keeps os oe ns ne d : forall c k vf vb w r vb' w',
    bwd_loop wd cmp os oe ns ne c d k vf vb w = Ok (r, vb', w') -> P w -> P w'.
  Proof.
    induction c as [|c IH]; intros k vf vb w r vb' w' H HP; cbn [bwd_loop] in H.
    - inversion H; subst. exact HP.
    - apply bind_Ok_inv in H. destruct H as ([[r0 vb1] w1] & Hs & H).
      pose proof (bwd_step_keeps _ _ _ _ _ _ _ _ _ _ _ _ Hs HP) as HP1.
      destruct r0 as [p|].
      + inversion H; subst. exact HP1.
      + eapply IH; eassumption.
  Qed.
End Loops.

(* one round of the search, relationally *)
Lemma round_loop_S {W} (wd : world W) cmp os oe ns ne rounds d vf vb w res :
  round_loop wd cmp os oe ns ne (S rounds) d vf vb w = Ok res ->
  exists ex w0, probe wd w = (ex, w0) /\
    ((ex = true /\ res = (None, vf, vb, w0)) \/
     (ex = false /\
      exists r vf1 w1,
        fwd_loop wd cmp os oe ns ne (S d) (Z.of_nat d) (Z.of_nat d) vf vb w0 = Ok (r, vf1, w1) /\
        ((exists p, r = Some p /\ res = (Some p, vf1, vb, w1)) \/
         (r = None /\
          exists r2 vb1 w2,
            bwd_loop wd cmp os oe ns ne (S d) (Z.of_nat d) (Z.of_nat d) vf1 vb w1
            = Ok (r2, vb1, w2) /\
            ((exists p, r2 = Some p /\ res = (Some p, vf1, vb1, w2)) \/
             (r2 = None /\
              round_loop wd cmp os oe ns ne rounds (S d) vf1 vb1 w2 = Ok res)))))).
Proof.
  intros H. cbn [round_loop] in H.
  destruct (probe wd w) as [ex w0] eqn:Ep. exists ex, w0. split; [reflexivity|].
  destruct ex.
  - left. inversion H; subst. auto.
  - right. split; [reflexivity|].
    apply bind_Ok_inv in H. destruct H as ([[r vf1] w1] & Hf & H).
    exists r, vf1, w1. split; [exact Hf|].
    destruct r as [p|].
    + left. exists p. inversion H; subst. auto.
    + right. split; [reflexivity|].
      apply bind_Ok_inv in H. destruct H as ([[r2 vb1] w2] & Hb & H).
      exists r2, vb1, w2. split; [exact Hb|].
      destruct r2 as [p|].
      * left. exists p. inversion H; subst. auto.
      * right. auto.
Qed.

Lemma find_middle_snake_round {W} (wd : world W) cmp os oe ns ne vf vb w res :
  find_middle_snake wd cmp os oe ns ne vf vb w = Ok res ->
  exists vf0 vb0, round_loop wd cmp os oe ns ne (max_d (oe - os) (ne - ns)) 0 vf0 vb0 w = Ok res.
Proof.
  unfold find_middle_snake. intros H.
  apply bind_Ok_inv in H. destruct H as (vf0 & _ & H).
  apply bind_Ok_inv in H. destruct H as (vb0 & _ & H).
  destruct ((vlen vf0 <? max_d (oe - os) (ne - ns)) || (vlen vb0 <? max_d (oe - os) (ne - ns)));
    [discriminate|].
  exists vf0, vb0. exact H.
Qed.

Section StableRuns.
  Context {W : Type}.
  Variable wd : world W.
  Variable cmp : cmpf.
  Variable P : W -> Prop.
  Hypothesis HP : Stable wd P.

  Lemma round_loop_stable os oe ns ne : forall rounds d vf vb w r vf' vb' w',
    round_loop wd cmp os oe ns ne rounds d vf vb w = Ok (r, vf', vb', w') -> P w -> P w'.
  Proof.
    induction rounds as [|rounds IH]; intros d vf vb w r vf' vb' w' H Hw.
    - cbn [round_loop] in H. inversion H; subst. exact Hw.
    - apply round_loop_S in H. destruct H as (ex & w0 & Ep & H).
      pose proof (st_probe wd P HP _ _ _ Hw Ep) as Hw0.
      destruct H as [[_ H]|[_ (r1 & vf1 & w1 & Hf & H)]].
      + inversion H; subst. exact Hw0.
      + pose proof (fwd_loop_keeps wd cmp P (st_tick wd P HP) _ _ _ _ _ _ _ _ _ _ _ _ _ Hf Hw0)
          as Hw1.
        destruct H as [(p & _ & H)|[_ (r2 & vb1 & w2 & Hb & H)]].
        * inversion H; subst. exact Hw1.
        * pose proof (bwd_loop_keeps wd cmp P (st_tick wd P HP) _ _ _ _ _ _ _ _ _ _ _ _ _ Hb Hw1)
            as Hw2.
          destruct H as [(p & _ & H)|[_ H]].
          -- inversion H; subst. exact Hw2.
          -- eapply IH; eassumption.
  Qed.

  Lemma snake_stable os oe ns ne vf vb w r vf' vb' w' :
    find_middle_snake wd cmp os oe ns ne vf vb w = Ok (r, vf', vb', w') -> P w -> P w'.
  Proof.
    intros H. apply find_middle_snake_round in H. destruct H as (vf0 & vb0 & H).
    eapply round_loop_stable; exact H.
  Qed.

  Lemma emit_eq_opt_stable o n l w w' : emit_eq_opt wd o n l w = Ok w' -> P w -> P w'.
  Proof.
    unfold emit_eq_opt. destruct (0 <? l); intros H Hw.
    - eapply st_emit; eassumption.
    - inversion H; subst. exact Hw.
  Qed.

  Lemma conquer_stable : forall f os oe ns ne vf vb w vf' vb' w',
    conquer wd cmp f os oe ns ne vf vb w = Ok (vf', vb', w') -> P w -> P w'.
  Proof.
    induction f as [|f IH]; intros os oe ns ne vf vb w vf' vb' w' H Hw.
    - cbn [conquer] in H. discriminate.
    - apply conquer_S_iff in H.
      destruct H as [p w1 s vf1 vb1 w3 w4 Hp Hw1 Hs Hso Hsn Hm Hw4].
      pose proof (emit_eq_opt_stable _ _ _ _ _ Hw1 (st_tick wd P HP _ _ Hw)) as H1.
      pose proof (st_tick wd P HP (scan_cmps (os + p) oe (ns + p) ne s) _ H1) as H2.
      apply (emit_eq_opt_stable _ _ _ _ _ Hw4).
      destruct Hm as [Ho Hn|w1' Ho Hn He|w1' Ho Hn He
                     |x y vf1' vb1' w1' vf2 vb2 w2 vf3 vb3 w3 Ho Hn Ef E1 E2
                     |vf1' vb1' w1' w2 w3 Ho Hn Ef E1 E2].
      + exact H2.
      + eapply st_emit; eassumption.
      + eapply st_emit; eassumption.
      + pose proof (snake_stable _ _ _ _ _ _ _ _ _ _ _ Ef H2) as H3.
        eapply IH; [exact E2|]. eapply IH; [exact E1|exact H3].
      + pose proof (snake_stable _ _ _ _ _ _ _ _ _ _ _ Ef H2) as H3.
        eapply st_emit; [exact HP| |exact E2]. eapply st_emit; [exact HP|exact H3|exact E1].
  Qed.

  Lemma myers_diff_stable os oe ns ne w w' :
    myers_diff wd cmp os oe ns ne w = Ok w' -> P w -> P w'.
  Proof.
    intros H Hw. apply myers_diff_inv in H. destruct H as (vf' & vb' & w'' & Hc & He).
    eapply st_emit; [exact HP| |exact He]. eapply conquer_stable; eassumption.
  Qed.
End StableRuns.

Lemma Stable_no_finish {W} (wd : world W) P : Stable wd P -> Stable (no_finish wd) P.
Proof.
  intros H. split.
  - exact (st_probe wd P H).
  - exact (st_tick wd P H).
  - intros c w w' Hw He. cbn [emit no_finish] in He.
    destruct c; try (eapply st_emit; eassumption). inversion He; subst. exact Hw.
Qed.

(* ================================================================ Part 2 *)
(* the two scans of one conquer frame together cost at most n + m *)
Lemma scans_le cmp os oe ns ne p s :
  common_prefix_len cmp os oe ns ne = Ok p ->
  common_suffix_len cmp (os + p) oe (ns + p) ne = Ok s ->
  scan_cmps os oe ns ne p + scan_cmps (os + p) oe (ns + p) ne s <= (oe - os) + (ne - ns).
Proof.
  intros Hp Hs.
  apply prefix_scan_cost in Hp. apply suffix_scan_cost in Hs.
  destruct Hp as [Hp1 Hp2]. destruct Hs as [Hs1 Hs2].
  revert Hp1 Hp2 Hs1 Hs2. unfold scan_cmps, empty_range.
  destruct (Nat.leb_spec oe os); destruct (Nat.leb_spec ne ns);
    destruct (Nat.leb_spec oe (os + p)); destruct (Nat.leb_spec ne (ns + p));
    cbn [orb]; try lia;
    destruct (Nat.ltb_spec p (Nat.min (oe - os) (ne - ns)));
    try destruct (Nat.ltb_spec s (Nat.min (oe - (os + p)) (ne - (ns + p)))); lia.
Qed.

Section MyersPost.
  Context {W : Type}.
  Variable wd : world W.
  Variable Inv : W -> Prop.
  Variable exp : W -> bool.
  Variable cnt : W -> nat.
  Hypothesis HP : PostResp wd Inv exp cnt.
  Variable cmp : cmpf.

  (* what every piece of the run preserves, relative to a start state w0 *)
  Definition Keeps (w0 w : W) : Prop := Inv w /\ (exp w0 = true -> exp w = true).

  Lemma Keeps_refl w : Inv w -> Keeps w w.
  Proof. intros H. split; auto. Qed.

  Lemma Keeps_trans w0 w1 w2 : Keeps w0 w1 -> Keeps w1 w2 -> Keeps w0 w2.
  Proof. intros [_ H1] [H2 H3]. split; auto. Qed.

  Lemma Keeps_tick w k : Inv w -> Keeps w (tick wd k w).
  Proof.
    intros H. destruct (po_tick wd Inv exp cnt HP k w H) as (H1 & H2 & _).
    split; [exact H1|]. now rewrite H2.
  Qed.

  Lemma Keeps_emit c w w' : Inv w -> emit wd c w = Ok w' -> Keeps w w'.
  Proof.
    intros H He. destruct (po_emit wd Inv exp cnt HP c w w' H He) as (H1 & _ & H2).
    split; assumption.
  Qed.

  Lemma emit_eq_opt_post o n l w w' :
    Inv w -> emit_eq_opt wd o n l w = Ok w' -> Keeps w w' /\ cnt w' = cnt w.
  Proof.
    unfold emit_eq_opt. intros H He. destruct (0 <? l).
    - split; [eapply Keeps_emit; eassumption|].
      exact (proj1 (proj2 (po_emit wd Inv exp cnt HP _ _ _ H He))).
    - inversion He; subst. split; [now apply Keeps_refl|reflexivity].
  Qed.

  (* ticks made while not expired are free *)
  Definition Free (c0 : nat) (w : W) : Prop := Inv w /\ exp w = false /\ cnt w = c0.

  Lemma Free_tick c0 k w : Free c0 w -> Free c0 (tick wd k w).
  Proof.
    intros (H1 & H2 & H3). destruct (po_tick wd Inv exp cnt HP k w H1) as (H4 & H5 & H6).
    split; [exact H4|]. split; [congruence|]. rewrite H6, H2. lia.
  Qed.

  (* the search: never adds to the count; started after expiry it gives up at
     its first probe *)
  Lemma round_loop_post os oe ns ne : forall rounds d vf vb w r vf' vb' w',
    round_loop wd cmp os oe ns ne rounds d vf vb w = Ok (r, vf', vb', w') -> Inv w ->
    Keeps w w' /\ cnt w' = cnt w /\ (exp w = true -> 0 < rounds -> r = None).
  Proof.
    induction rounds as [|rounds IH]; intros d vf vb w r vf' vb' w' H Hw.
    - cbn [round_loop] in H. inversion H; subst.
      split; [now apply Keeps_refl|]. split; [reflexivity|lia].
    - apply round_loop_S in H. destruct H as (ex & w0 & Ep & H).
      destruct (po_probe wd Inv exp cnt HP _ _ _ Hw Ep) as (Hw0 & Hc0 & He0 & Hb).
      destruct H as [[-> H]|[-> (r1 & vf1 & w1 & Hf & H)]].
      + inversion H; subst. split; [|split; [exact Hc0|reflexivity]].
        split; [exact Hw0|]. intros _. rewrite He0. apply Bool.orb_true_r.
      + assert (Hex : exp w = false).
        { destruct (exp w); [|reflexivity]. now specialize (Hb eq_refl). }
        assert (F0 : Free (cnt w) w0).
        { split; [exact Hw0|]. split; [|exact Hc0]. rewrite He0, Hex. reflexivity. }
        pose proof (fwd_loop_keeps wd cmp (Free (cnt w)) (Free_tick (cnt w))
                      _ _ _ _ _ _ _ _ _ _ _ _ _ Hf F0) as F1.
        destruct H as [(p & _ & H)|[_ (r2 & vb1 & w2 & Hbw & H)]].
        * inversion H; subst. destruct F1 as (G1 & G2 & G3).
          split; [split; [exact G1|congruence]|]. split; [exact G3|congruence].
        * pose proof (bwd_loop_keeps wd cmp (Free (cnt w)) (Free_tick (cnt w))
                        _ _ _ _ _ _ _ _ _ _ _ _ _ Hbw F1) as F2.
          destruct H as [(p & _ & H)|[_ H]].
          -- inversion H; subst. destruct F2 as (G1 & G2 & G3).
             split; [split; [exact G1|congruence]|]. split; [exact G3|congruence].
          -- destruct F2 as (G1 & G2 & G3).
             destruct (IH _ _ _ _ _ _ _ _ H G1) as ([K1 _] & K2 & _).
             split; [split; [exact K1|congruence]|]. split; [lia|congruence].
  Qed.

  Lemma snake_post os oe ns ne vf vb w r vf' vb' w' :
    find_middle_snake wd cmp os oe ns ne vf vb w = Ok (r, vf', vb', w') -> Inv w ->
    Keeps w w' /\ cnt w' = cnt w /\ (exp w = true -> r = None).
  Proof.
    intros H Hw. apply find_middle_snake_round in H. destruct H as (vf0 & vb0 & H).
    destruct (round_loop_post _ _ _ _ _ _ _ _ _ _ _ _ _ H Hw) as (H1 & H2 & H3).
    split; [exact H1|]. split; [exact H2|]. intros He. apply H3; [exact He|].
    unfold max_d. lia.
  Qed.

  Variable md : nat.
  Let HS : SnakeSpec wd cmp := snake_spec W wd cmp.

  Definition PostAt (f : nat) : Prop :=
    forall os oe ns ne vf vb w vf' vb' w',
      os <= oe -> ns <= ne -> CmpTotal cmp os oe ns ne ->
      VOk md vf -> VOk md vb -> max_d (oe - os) (ne - ns) <= md ->
      Inv w ->
      conquer wd cmp f os oe ns ne vf vb w = Ok (vf', vb', w') ->
      Keeps w w' /\ cnt w' <= cnt w + ((oe - os) + (ne - ns)).

  Lemma mid_post f : PostAt f ->
    forall os oe ns ne vf vb w vf' vb' w',
      os <= oe -> ns <= ne -> CmpTotal cmp os oe ns ne ->
      (os < oe -> ns < ne -> Stripped cmp os oe ns ne) ->
      VOk md vf -> VOk md vb -> max_d (oe - os) (ne - ns) <= md ->
      Inv w ->
      MidRun wd cmp f os oe ns ne vf vb w vf' vb' w' ->
      Keeps w w' /\
      cnt w' <= cnt w + (if exp w then 0 else (oe - os) + (ne - ns)).
  Proof.
    intros IH os oe ns ne vf vb w vf' vb' w' Hoe Hne Htot Hstr Hvf Hvb Hmd Hw HM.
    assert (Hz : forall c, c <= c + (if exp w then 0 else (oe - os) + (ne - ns))) by (intros; lia).
    destruct HM as [Ho Hn|w1 Ho Hn He|w1 Ho Hn He
                   |x y vf1 vb1 w1 vf2 vb2 w2 vf3 vb3 w3 Ho Hn Ef E1 E2
                   |vf1 vb1 w1 w2 w3 Ho Hn Ef E1 E2].
    - split; [now apply Keeps_refl|apply Hz].
    - split; [eapply Keeps_emit; eassumption|].
      rewrite (proj1 (proj2 (po_emit wd Inv exp cnt HP _ _ _ Hw He))). apply Hz.
    - split; [eapply Keeps_emit; eassumption|].
      rewrite (proj1 (proj2 (po_emit wd Inv exp cnt HP _ _ _ Hw He))). apply Hz.
    - destruct (snake_post _ _ _ _ _ _ _ _ _ _ _ Ef Hw) as (K1 & C1 & N1).
      assert (Hex : exp w = false).
      { destruct (exp w); [|reflexivity]. specialize (N1 eq_refl). discriminate. }
      destruct (HS os oe ns ne md vf vb w (Hstr Ho Hn) Htot Hmd Hvf Hvb)
        as (r & vf1' & vb1' & w1' & Hf & Hvf1 & Hvb1 & _ & Hr).
      rewrite Ef in Hf. inversion Hf; subst r vf1' vb1' w1'. clear Hf.
      cbn beta iota in Hr. destruct Hr as (Hx & Hy & _).
      assert (Ht1 : CmpTotal cmp os x ns y) by (eapply CmpTotal_sub; [exact Htot|lia..]).
      assert (Ht2 : CmpTotal cmp x oe y ne) by (eapply CmpTotal_sub; [exact Htot|lia..]).
      assert (Hm1 : max_d (x - os) (y - ns) <= md)
        by (eapply Nat.le_trans; [apply max_d_mono|exact Hmd]; lia).
      assert (Hm2 : max_d (oe - x) (ne - y) <= md)
        by (eapply Nat.le_trans; [apply max_d_mono|exact Hmd]; lia).
      destruct (conquer_VOk wd cmp md f os x ns y vf1 vb1 w1 vf2 vb2 w2 HS) as [Hvf2 Hvb2];
        try assumption; try lia.
      destruct (IH os x ns y vf1 vb1 w1 vf2 vb2 w2 ltac:(lia) ltac:(lia)
                  Ht1 Hvf1 Hvb1 Hm1 (proj1 K1) E1) as [K2 C2].
      destruct (IH x oe y ne vf2 vb2 w2 vf3 vb3 w3 ltac:(lia) ltac:(lia)
                  Ht2 Hvf2 Hvb2 Hm2 (proj1 K2) E2) as [K3 C3].
      split; [eapply Keeps_trans; [exact K1|]; eapply Keeps_trans; eassumption|].
      rewrite Hex. lia.
    - destruct (snake_post _ _ _ _ _ _ _ _ _ _ _ Ef Hw) as (K1 & C1 & _).
      pose proof (Keeps_emit _ _ _ (proj1 K1) E1) as K2.
      pose proof (Keeps_emit _ _ _ (proj1 K2) E2) as K3.
      split; [eapply Keeps_trans; [exact K1|]; eapply Keeps_trans; eassumption|].
      rewrite (proj1 (proj2 (po_emit wd Inv exp cnt HP _ _ _ (proj1 K2) E2))).
      rewrite (proj1 (proj2 (po_emit wd Inv exp cnt HP _ _ _ (proj1 K1) E1))).
      rewrite C1. apply Hz.
  Qed.

  Theorem conquer_post_at f : PostAt f.
  Proof.
    induction f as [|f IH];
      intros os oe ns ne vf vb w vf' vb' w' Hoe Hne Htot Hvf Hvb Hmd Hw H.
    - cbn [conquer] in H. discriminate.
    - apply conquer_S_iff in H.
      destruct H as [p w1 s vf1 vb1 w3 w4 Hp Hw1 Hs Hso Hsn Hm Hw4].
      destruct (strip_facts cmp os oe ns ne p s Hoe Hne Hp Hs)
        as (Hp1 & Hp2 & Hseg1 & Hs1 & Hs2 & Hseg2 & Hstr).
      pose proof (scans_le cmp os oe ns ne p s Hp Hs) as Hsc.
      set (c1 := scan_cmps os oe ns ne p) in *.
      set (c2 := scan_cmps (os + p) oe (ns + p) ne s) in *.
      destruct (po_tick wd Inv exp cnt HP c1 w Hw) as (Ia & Ea & Ca).
      destruct (emit_eq_opt_post _ _ _ _ _ Ia Hw1) as [[I1 S1] C1].
      destruct (po_tick wd Inv exp cnt HP c2 w1 I1) as (Ib & Eb & Cb).
      destruct (mid_post f IH (os + p) (oe - s) (ns + p) (ne - s) vf vb (tick wd c2 w1)
                  vf1 vb1 w3 ltac:(lia) ltac:(lia)
                  ltac:(eapply CmpTotal_sub; [exact Htot|lia..]) Hstr Hvf Hvb
                  ltac:(eapply Nat.le_trans; [apply max_d_mono|exact Hmd]; lia) Ib Hm)
        as [[I3 S3] C3].
      destruct (emit_eq_opt_post _ _ _ _ _ I3 Hw4) as [[I4 S4] C4].
      split.
      + split; [exact I4|]. intros He. apply S4, S3. rewrite Eb. apply S1. now rewrite Ea.
      + rewrite C4. rewrite Eb in C3. rewrite Cb, C1, Ca in C3.
        destruct (exp w1) eqn:E1.
        * destruct (exp w); lia.
        * assert (Ew : exp w = false).
          { destruct (exp w) eqn:Ew; [|reflexivity].
            rewrite Ea in S1. specialize (S1 eq_refl). congruence. }
          rewrite Ew in C3. lia.
  Qed.
End MyersPost.

(* the recursion, whenever the clock expires *)
Theorem conquer_post {W} (wd : world W) Inv exp cnt cmp md fuel os oe ns ne vf vb w vf' vb' w' :
  PostResp wd Inv exp cnt ->
  os <= oe -> ns <= ne -> CmpTotal cmp os oe ns ne ->
  VOk md vf -> VOk md vb -> max_d (oe - os) (ne - ns) <= md ->
  Inv w ->
  conquer wd cmp fuel os oe ns ne vf vb w = Ok (vf', vb', w') ->
  Inv w' /\ (exp w = true -> exp w' = true) /\ cnt w' <= cnt w + ((oe - os) + (ne - ns)).
Proof.
  intros HP Hoe Hne Htot Hvf Hvb Hmd Hw H.
  destruct (conquer_post_at wd Inv exp cnt HP cmp md fuel os oe ns ne vf vb w vf' vb' w'
              Hoe Hne Htot Hvf Hvb Hmd Hw H) as [[H1 H2] H3].
  auto.
Qed.

Theorem myers_post {W} (wd : world W) Inv exp cnt cmp os oe ns ne w w' :
  PostResp wd Inv exp cnt ->
  os <= oe -> ns <= ne -> CmpTotal cmp os oe ns ne ->
  Inv w ->
  myers_diff wd cmp os oe ns ne w = Ok w' ->
  Inv w' /\ (exp w = true -> exp w' = true) /\ cnt w' <= cnt w + ((oe - os) + (ne - ns)).
Proof.
  intros HP Hoe Hne Htot Hw H.
  apply myers_diff_inv in H. destruct H as (vf' & vb' & w'' & Hc & He).
  destruct (conquer_post wd Inv exp cnt cmp _ _ os oe ns ne _ _ w vf' vb' w'' HP Hoe Hne Htot
              (VOk_v_new _) (VOk_v_new _) (le_n _) Hw Hc) as (H1 & H2 & H3).
  destruct (po_emit wd Inv exp cnt HP _ _ _ H1 He) as (H4 & H5 & H6).
  split; [exact H4|]. split; [auto|]. now rewrite H5.
Qed.

(* ================================================================ Part 3 *)
(* real time does not go back *)
Definition DlMono (dl : deadline) : Prop :=
  match dl with
  | None => True
  | Some clk => forall i j, i <= j -> clk i = true -> clk j = true
  end.

(* once a probe has answered true, the next probe answers true *)
Definition ClkInv (dl : deadline) (c : ctr) : Prop :=
  expired c = true ->
  match dl with Some clk => clk (probes c) = true | None => False end.

Definition PInv (dl : deadline) (w : plain) : Prop := ClkInv dl (p_ctr w).
Definition pexp (w : plain) : bool := expired (p_ctr w).
Definition ppost (w : plain) : nat := post_cmps (p_ctr w).

Lemma ClkInv_ctr0 dl : ClkInv dl ctr0.
Proof. intros H. discriminate. Qed.

Lemma PInv_plain0 dl : PInv dl plain0.
Proof. apply ClkInv_ctr0. Qed.

Lemma deadline_exceeded_post dl c b c' :
  DlMono dl -> ClkInv dl c -> deadline_exceeded dl c = (b, c') ->
  ClkInv dl c' /\ post_cmps c' = post_cmps c /\ expired c' = expired c || b /\
  (expired c = true -> b = true).
Proof.
  intros Hm Hc H. unfold deadline_exceeded in H. destruct dl as [clk|].
  - inversion H; subst b c'. clear H. cbn [post_cmps expired probes].
    split; [|split; [reflexivity|split; [reflexivity|exact Hc]]].
    intros He. cbn [expired probes] in *. apply (Hm (probes c)); [lia|].
    destruct (expired c) eqn:E; [now apply Hc|exact He].
  - inversion H; subst b c'. split; [exact Hc|]. split; [reflexivity|].
    split; [now rewrite Bool.orb_false_r|]. intros He. destruct (Hc He).
Qed.

Lemma PostResp_plain dl : DlMono dl -> PostResp (plain_world dl) (PInv dl) pexp ppost.
Proof.
  intros Hm. split.
  - intros w b w' Hw H. cbn [probe plain_world] in H.
    destruct (deadline_exceeded dl (p_ctr w)) as [b0 c] eqn:E. inversion H; subst b0 w'.
    exact (deadline_exceeded_post dl _ _ _ Hm Hw E).
  - intros k w Hw. unfold PInv, pexp, ppost. cbn [tick plain_world p_ctr add_cmps expired post_cmps].
    split; [exact Hw|]. split; [reflexivity|]. destruct (expired (p_ctr w)); lia.
  - intros c w w' Hw H. cbn [emit plain_world] in H. inversion H; subst w'.
    unfold PInv, pexp, ppost. cbn [p_ctr]. auto.
Qed.

Lemma PostResp_no_finish {W} (wd : world W) Inv exp cnt :
  PostResp wd Inv exp cnt -> PostResp (no_finish wd) Inv exp cnt.
Proof.
  intros H. split.
  - exact (po_probe wd Inv exp cnt H).
  - exact (po_tick wd Inv exp cnt H).
  - intros c w w' Hw He. cbn [emit no_finish] in He.
    destruct c; try (eapply po_emit; eassumption). inversion He; subst. auto.
Qed.

(* C07 for Myers: at most N + M comparisons after expiry *)
Theorem myers_post_expiry dl cmp os oe ns ne w0 w1 :
  DlMono dl ->
  os <= oe -> ns <= ne -> CmpTotal cmp os oe ns ne ->
  ClkInv dl (p_ctr w0) ->
  myers_diff (plain_world dl) cmp os oe ns ne w0 = Ok w1 ->
  post_cmps (p_ctr w1) <= post_cmps (p_ctr w0) + ((oe - os) + (ne - ns)).
Proof.
  intros Hm Hoe Hne Htot Hw H.
  exact (proj2 (proj2 (myers_post (plain_world dl) (PInv dl) pexp ppost cmp os oe ns ne w0 w1
                         (PostResp_plain dl Hm) Hoe Hne Htot Hw H))).
Qed.

(* ================================================================ Part 4 *)
(* LCS: the prefix / suffix scans come before the first probe, a table row is
   filled only after a probe that answered false, and the walk over the table
   is made only when every probe answered false: no comparison is ever made
   after expiry.  (For worlds whose hook calls do not touch the clock.) *)
Section LcsPost.
  Context {W : Type}.
  Variable wd : world W.
  Variable Inv : W -> Prop.
  Variable exp : W -> bool.
  Variable cnt : W -> nat.
  Hypothesis HP : PostResp wd Inv exp cnt.
  Hypothesis HE : forall c w w', emit wd c w = Ok w' -> exp w' = exp w.
  Variable cmp : cmpf.
  Variable c0 : nat.

  Let F := Free Inv exp cnt c0.
  Definition Quiet (w : W) : Prop := Inv w /\ cnt w = c0.

  Lemma F_Quiet w : F w -> Quiet w.
  Proof. intros (H1 & _ & H3). split; assumption. Qed.

  Lemma F_tick k w : F w -> F (tick wd k w).
  Proof. apply (Free_tick wd Inv exp cnt HP). Qed.

  Lemma F_emit c w w' : F w -> emit wd c w = Ok w' -> F w'.
  Proof.
    intros (H1 & H2 & H3) He. destruct (po_emit wd Inv exp cnt HP _ _ _ H1 He) as (H4 & H5 & _).
    split; [exact H4|]. split; [rewrite (HE _ _ _ He); exact H2|congruence].
  Qed.

  Lemma Quiet_emit c w w' : Quiet w -> emit wd c w = Ok w' -> Quiet w'.
  Proof.
    intros (H1 & H3) He. destruct (po_emit wd Inv exp cnt HP _ _ _ H1 He) as (H4 & H5 & _).
    split; [exact H4|congruence].
  Qed.

  Lemma Quiet_emit_if (b : bool) c w w' :
    Quiet w -> (if b then emit wd c w else Ok w) = Ok w' -> Quiet w'.
  Proof.
    intros HQ H. destruct b; [eapply Quiet_emit; eassumption|]. inversion H; subst. exact HQ.
  Qed.

  Lemma table_rows_post ob nb old_len : forall n i w r w',
    table_rows wd cmp ob nb old_len i n w = Ok (r, w') -> F w ->
    Quiet w' /\ (r <> None -> F w').
  Proof.
    induction n as [|n IH]; intros i w r w' H HF; cbn [table_rows] in H.
    - inversion H; subst. split; [now apply F_Quiet|auto].
    - apply bind_Ok_inv in H. destruct H as ([r0 wa] & Hr & H).
      destruct (IH _ _ _ _ Hr HF) as [Qa Fa].
      destruct r0 as [rest|].
      + specialize (Fa ltac:(discriminate)).
        destruct (probe wd wa) as [ex wb] eqn:Ep.
        destruct Fa as (A1 & A2 & A3).
        destruct (po_probe wd Inv exp cnt HP _ _ _ A1 Ep) as (B1 & B2 & B3 & _).
        destruct ex.
        * inversion H; subst. split; [split; [exact B1|congruence]|]. intros Hn. now destruct Hn.
        * apply bind_Ok_inv in H. destruct H as (rw & _ & H). inversion H; subst.
          assert (Fb : F wb).
          { split; [exact B1|]. split; [rewrite B3, A2; reflexivity|congruence]. }
          split; [apply F_Quiet|intros _]; now apply F_tick.
      + inversion H; subst. split; [exact Qa|]. intros Hn. now destruct Hn.
  Qed.

  Lemma walk_post t ob nb old_len new_len : forall fuel oi ni w oi' ni' w',
    walk wd cmp fuel t ob nb old_len new_len oi ni w = Ok (oi', ni', w') -> F w -> F w'.
  Proof.
    induction fuel as [|fuel IH]; intros oi ni w oi' ni' w' H HF; cbn [walk] in H.
    - discriminate.
    - destruct ((ni <? new_len) && (oi <? old_len)).
      + apply bind_Ok_inv in H. destruct H as (b & _ & H).
        pose proof (F_tick 1 w HF) as F1.
        destruct b.
        * apply bind_Ok_inv in H. destruct H as (w1 & He & H).
          eapply IH; [exact H|]. eapply F_emit; eassumption.
        * destruct (tget t (S ni) oi <=? tget t ni (S oi)).
          -- apply bind_Ok_inv in H. destruct H as (w1 & He & H).
             eapply IH; [exact H|]. eapply F_emit; eassumption.
          -- apply bind_Ok_inv in H. destruct H as (w1 & He & H).
             eapply IH; [exact H|]. eapply F_emit; eassumption.
      + inversion H; subst. exact HF.
  Qed.

  Lemma lcs_tail_post os ns p s old_len new_len oi ni w w' :
    lcs_tail wd os ns p s old_len new_len oi ni w = Ok w' -> Quiet w -> Quiet w'.
  Proof.
    unfold lcs_tail. intros H HQ.
    apply bind_Ok_inv in H. destruct H as ([oi1 w1] & H1 & H).
    assert (Q1 : Quiet w1).
    { destruct (oi <? old_len).
      - apply bind_Ok_inv in H1. destruct H1 as (wa & He & H1). inversion H1; subst.
        eapply Quiet_emit; eassumption.
      - inversion H1; subst. exact HQ. }
    apply bind_Ok_inv in H. destruct H as (w2 & H2 & H).
    pose proof (Quiet_emit_if _ _ _ _ Q1 H2) as Q2.
    apply bind_Ok_inv in H. destruct H as (w3 & H3 & H).
    pose proof (Quiet_emit_if _ _ _ _ Q2 H3) as Q3.
    eapply Quiet_emit; eassumption.
  Qed.

  Lemma lcs_emit_post os ns p s old_len new_len mt w w' :
    lcs_emit wd cmp os ns p s old_len new_len mt w = Ok w' ->
    Quiet w -> (mt <> None -> F w) -> Quiet w'.
  Proof.
    unfold lcs_emit. intros H HQ HF.
    apply bind_Ok_inv in H. destruct H as (w1 & H1 & H).
    pose proof (Quiet_emit_if _ _ _ _ HQ H1) as Q1.
    apply bind_Ok_inv in H. destruct H as ([[oi ni] w2] & H2 & H).
    eapply lcs_tail_post; [exact H|].
    destruct mt as [t|]; cbn [walk_or_not] in H2.
    - apply F_Quiet. eapply walk_post; [exact H2|].
      specialize (HF ltac:(discriminate)).
      destruct (0 <? p); [eapply F_emit; eassumption|]. inversion H1; subst. exact HF.
    - inversion H2; subst. exact Q1.
  Qed.

  Theorem lcs_post os oe ns ne w w' :
    Inv w -> exp w = false -> cnt w = c0 ->
    lcs_diff wd cmp os oe ns ne w = Ok w' -> Inv w' /\ cnt w' = c0.
  Proof.
    intros H1 H2 H3 H. assert (HF : F w) by (split; [exact H1|split; assumption]).
    change (Quiet w'). rewrite lcs_diff_unfold in H.
    destruct (empty_range ns ne).
    { apply bind_Ok_inv in H. destruct H as (w1 & Ha & H).
      eapply Quiet_emit; [|exact H].
      destruct (empty_range os oe).
      - inversion Ha; subst. now apply F_Quiet.
      - eapply Quiet_emit; [apply F_Quiet; exact HF|exact Ha]. }
    destruct (empty_range os oe).
    { apply bind_Ok_inv in H. destruct H as (w1 & Ha & H).
      eapply Quiet_emit; [|exact H]. eapply Quiet_emit; [apply F_Quiet; exact HF|exact Ha]. }
    apply bind_Ok_inv in H. destruct H as (p & _ & H).
    apply bind_Ok_inv in H. destruct H as (s & _ & H).
    pose proof (F_tick (scan_cmps (os + p) oe (ns + p) ne s) _
                  (F_tick (scan_cmps os oe ns ne p) _ HF)) as F2.
    cbv zeta in H.
    destruct ((p =? oe - os) && (oe - os =? ne - ns)).
    { apply bind_Ok_inv in H. destruct H as (w1 & Ha & H).
      eapply Quiet_emit; [|exact H]. eapply Quiet_emit; [apply F_Quiet; exact F2|exact Ha]. }
    unfold lcs_main in H.
    apply bind_Ok_inv in H. destruct H as (oe' & _ & H).
    apply bind_Ok_inv in H. destruct H as (ne' & _ & H).
    apply bind_Ok_inv in H. destruct H as ([mt wt] & Ht & H).
    apply bind_Ok_inv in H. destruct H as (nl0 & _ & H).
    apply bind_Ok_inv in H. destruct H as (new_len & _ & H).
    apply bind_Ok_inv in H. destruct H as (ol0 & _ & H).
    apply bind_Ok_inv in H. destruct H as (old_len & _ & H).
    unfold make_table in Ht.
    destruct (table_rows_post _ _ _ _ _ _ _ _ Ht F2) as [Qt Ft].
    eapply lcs_emit_post; eassumption.
  Qed.
End LcsPost.

(* C07 for LCS: no comparison at all after expiry *)
Theorem lcs_post_expiry dl cmp os oe ns ne w0 w1 :
  DlMono dl -> ClkInv dl (p_ctr w0) -> expired (p_ctr w0) = false ->
  lcs_diff (plain_world dl) cmp os oe ns ne w0 = Ok w1 ->
  post_cmps (p_ctr w1) = post_cmps (p_ctr w0).
Proof.
  intros Hm Hw He H.
  refine (proj2 (lcs_post (plain_world dl) (PInv dl) pexp ppost (PostResp_plain dl Hm) _ cmp
                   (ppost w0) os oe ns ne w0 w1 Hw He eq_refl H)).
  intros c w w' Hc. cbn [emit plain_world] in Hc. inversion Hc. reflexivity.
Qed.

(* ================================================================ Part 5 *)
(* ---- stable predicates through the Patience and Replace hooks ---- *)
Lemma advance_stable {W} (wd : world W) cmp P : Stable wd P ->
  forall fuel oi ni oc nc w oc' nc' w',
    advance wd cmp fuel oi ni oc nc w = Ok (oc', nc', w') -> P w -> P w'.
Proof.
  intros HP. induction fuel as [|fuel IH]; intros oi ni oc nc w oc' nc' w' H Hw; cbn [advance] in H.
  - inversion H; subst. exact Hw.
  - destruct ((oc <? oi) && (nc <? ni)).
    + apply bind_Ok_inv in H. destruct H as (b & _ & H).
      pose proof (st_tick wd P HP 1 w Hw) as H1.
      destruct b; [eapply IH; eassumption|]. inversion H; subst. exact H1.
    + inversion H; subst. exact Hw.
Qed.

Lemma emit_all_stable {W} (wd : world W) P : Stable wd P ->
  forall cs w w', emit_all wd cs w = Ok w' -> P w -> P w'.
Proof.
  intros HP. induction cs as [|c cs IH]; intros w w' H Hw; cbn [emit_all] in H.
  - inversion H; subst. exact Hw.
  - apply bind_Ok_inv in H. destruct H as (w1 & He & H).
    eapply IH; [exact H|]. eapply st_emit; eassumption.
Qed.

Lemma anchor_step_stable {W} (wd : world W) cmp uo un P : Stable wd P ->
  forall o n sw sw', anchor_step wd cmp uo un o n sw = Ok sw' -> P (snd sw) -> P (snd sw').
Proof.
  intros HP o n [s w] sw' H Hw. cbn [snd] in Hw. unfold anchor_step in H.
  apply bind_Ok_inv in H. destruct H as (oi & _ & H).
  apply bind_Ok_inv in H. destruct H as (ni & _ & H).
  apply bind_Ok_inv in H. destruct H as ([[oc nc] w1] & Ha & H).
  apply bind_Ok_inv in H. destruct H as (w2 & He & H).
  apply bind_Ok_inv in H. destruct H as (w3 & Hm & H).
  inversion H; subst sw'. cbn [snd].
  pose proof (advance_stable wd cmp P HP _ _ _ _ _ _ _ _ _ Ha Hw) as H1.
  assert (H2 : P w2).
  { destruct (old_current s <? oc); [eapply st_emit; eassumption|].
    inversion He; subst. exact H1. }
  exact (myers_diff_stable (no_finish wd) cmp P (Stable_no_finish wd P HP) _ _ _ _ _ _ Hm H2).
Qed.

Lemma anchor_loop_stable {W} (wd : world W) cmp uo un P : Stable wd P ->
  forall len o n sw sw', anchor_loop wd cmp uo un len o n sw = Ok sw' -> P (snd sw) -> P (snd sw').
Proof.
  intros HP. induction len as [|len IH]; intros o n sw sw' H Hw; cbn [anchor_loop] in H.
  - inversion H; subst. exact Hw.
  - apply bind_Ok_inv in H. destruct H as (sw1 & Hs & H).
    apply (IH _ _ _ _ H). exact (anchor_step_stable wd cmp uo un P HP _ _ _ _ Hs Hw).
Qed.

Lemma Stable_patience {W} (wd : world W) cmp uo un oe ne P :
  Stable wd P -> Stable (patience_world wd cmp uo un oe ne) (fun sw => P (snd sw)).
Proof.
  intros HP. split.
  - intros [s w] b sw' Hw H. cbn [probe patience_world] in H. unfold lift_probe in H.
    cbn [fst snd] in *. destruct (probe wd w) as [b0 w1] eqn:Ep. inversion H; subst.
    cbn [snd]. eapply st_probe; eassumption.
  - intros k [s w] Hw. cbn [tick patience_world lift_tick fst snd] in *.
    now apply (st_tick wd P HP).
  - intros c [s w] sw' Hw H. cbn [emit patience_world patience_emit] in H.
    destruct c as [o n len|o l n|o n l|o ol n nl|].
    + exact (anchor_loop_stable wd cmp uo un P HP _ _ _ _ _ H Hw).
    + inversion H; subst. exact Hw.
    + inversion H; subst. exact Hw.
    + inversion H; subst. exact Hw.
    + apply bind_Ok_inv in H. destruct H as (w1 & Hm & H). inversion H; subst. cbn [snd] in *.
      exact (myers_diff_stable wd cmp P HP _ _ _ _ _ _ Hm Hw).
Qed.

Lemma Stable_replace {W} (wd : world W) dbg P :
  Stable wd P -> Stable (replace_world wd dbg) (fun sw => P (snd sw)).
Proof.
  intros HP. split.
  - intros [s w] b sw' Hw H. cbn [probe replace_world] in H. unfold lift_probe in H.
    cbn [fst snd] in *. destruct (probe wd w) as [b0 w1] eqn:Ep. inversion H; subst.
    cbn [snd]. eapply st_probe; eassumption.
  - intros k [s w] Hw. cbn [tick replace_world lift_tick fst snd] in *.
    now apply (st_tick wd P HP).
  - intros c [s w] sw' Hw H. cbn [emit replace_world] in H.
    rewrite replace_emit_step in H. unfold run_trace in H.
    apply bind_Ok_inv in H. destruct H as (w1 & He & H).
    destruct (snd (replace_step dbg c s)); [|discriminate]. inversion H; subst. cbn [snd] in *.
    exact (emit_all_stable wd P HP _ _ _ He Hw).
Qed.

(* ---- cost of the while loop of Patience::equal ---- *)
Lemma advance_post {W} (wd : world W) Inv exp cnt cmp : PostResp wd Inv exp cnt ->
  forall fuel oi ni oc nc w oc' nc' w',
    advance wd cmp fuel oi ni oc nc w = Ok (oc', nc', w') -> Inv w ->
    Inv w' /\ oc <= oc' /\ cnt w' <= cnt w + (oc' - oc) + 1.
Proof.
  intros HP. induction fuel as [|fuel IH]; intros oi ni oc nc w oc' nc' w' H Hw; cbn [advance] in H.
  - inversion H; subst. split; [exact Hw|lia].
  - destruct ((oc <? oi) && (nc <? ni)).
    + apply bind_Ok_inv in H. destruct H as (b & _ & H).
      destruct (po_tick wd Inv exp cnt HP 1 w Hw) as (H1 & _ & H3).
      assert (H3' : cnt (tick wd 1 w) <= cnt w + 1) by (rewrite H3; destruct (exp w); lia).
      destruct b.
      * destruct (IH _ _ _ _ _ _ _ _ H H1) as (K1 & K2 & K3). split; [exact K1|lia].
      * inversion H; subst. split; [exact H1|lia].
    + inversion H; subst. split; [exact Hw|lia].
Qed.

(* ---- a world with a ghost counter of its own post-expiry comparisons ---- *)
Definition ghost_world {W} (wd : world W) (exp : W -> bool) : world (nat * W) := {|
  emit := fun c gw => do w' <- emit wd c (snd gw); Ok (fst gw, w');
  probe := lift_probe wd;
  tick := fun k gw => (fst gw + (if exp (snd gw) then k else 0), tick wd k (snd gw))
|}.

Lemma ghost_probe {W} (wd : world W) exp g w :
  probe (ghost_world wd exp) (g, w) = (fst (probe wd w), (g, snd (probe wd w))).
Proof.
  unfold ghost_world, lift_probe. cbn [probe fst snd]. destruct (probe wd w). reflexivity.
Qed.

Lemma ghost_emit_inv {W} (wd : world W) exp c g w g' w' :
  emit (ghost_world wd exp) c (g, w) = Ok (g', w') -> g' = g /\ emit wd c w = Ok w'.
Proof.
  cbn [emit ghost_world fst snd]. intros H. apply bind_Ok_inv in H.
  destruct H as (w1 & He & H). inversion H; subst. auto.
Qed.

(* every Ok run is the projection of a run with the ghost counter *)
Theorem myers_ghost_lift {W} (wd : world W) exp cmp os oe ns ne w w' g :
  myers_diff wd cmp os oe ns ne w = Ok w' ->
  exists g', myers_diff (ghost_world wd exp) cmp os oe ns ne (g, w) = Ok (g', w').
Proof.
  intros H.
  destruct (myers_diff_sim wd (ghost_world wd exp) (fun w1 gw => snd gw = w1)) with
    (cmp := cmp) (os := os) (oe := oe) (ns := ns) (ne := ne) (w1 := w) (w2 := (g, w)) (w1' := w')
    as ([g' w2'] & Hm & HR); try assumption; try reflexivity.
  - intros w1 [g1 w2] b w1' HR Hp. cbn [snd] in HR. subst w2.
    exists (g1, w1'). rewrite ghost_probe, Hp. split; reflexivity.
  - intros k w1 [g1 w2] HR. cbn [snd] in *. subst w2. reflexivity.
  - intros c w1 [g1 w2] w1' HR He. cbn [snd] in HR. subst w2.
    exists (g1, w1'). split; [|reflexivity]. cbn [emit ghost_world fst snd]. now rewrite He.
  - cbn [snd] in HR. subst w2'. exists g'. exact Hm.
Qed.

Record ClockResp {W} (wd : world W) (Inv : W -> Prop) (exp : W -> bool) : Prop := {
  ck_probe : forall w b w', Inv w -> probe wd w = (b, w') ->
      Inv w' /\ exp w' = exp w || b /\ (exp w = true -> b = true);
  ck_tick : forall k w, Inv w -> Inv (tick wd k w) /\ exp (tick wd k w) = exp w;
  ck_emit : forall c w w', Inv w -> emit wd c w = Ok w' ->
      Inv w' /\ (exp w = true -> exp w' = true)
}.

Lemma PostResp_ghost {W} (wd : world W) Inv exp :
  ClockResp wd Inv exp ->
  PostResp (ghost_world wd exp) (fun gw => Inv (snd gw)) (fun gw => exp (snd gw)) fst.
Proof.
  intros HC. split.
  - intros [g w] b gw' Hw H. rewrite ghost_probe in H. inversion H; subst. cbn [fst snd] in *.
    destruct (ck_probe wd Inv exp HC w _ _ Hw (surjective_pairing _)) as (H1 & H2 & H3). auto.
  - intros k [g w] Hw. cbn [tick ghost_world fst snd] in *.
    destruct (ck_tick wd Inv exp HC k w Hw) as (H1 & H2). auto.
  - intros c [g w] [g' w'] Hw H. apply ghost_emit_inv in H. destruct H as [-> He].
    cbn [fst snd] in *. destruct (ck_emit wd Inv exp HC c w w' Hw He) as (H1 & H2). auto.
Qed.

(* the recording world: Inv + "expired stays expired" is stable *)
Lemma Stable_plain dl e0 : DlMono dl ->
  Stable (plain_world dl) (fun w => PInv dl w /\ (e0 = true -> pexp w = true)).
Proof.
  intros Hm. pose proof (PostResp_plain dl Hm) as HP. split.
  - intros w b w' [H1 H2] Hp.
    destruct (po_probe _ _ _ _ HP _ _ _ H1 Hp) as (K1 & _ & K3 & _).
    split; [exact K1|]. intros He. rewrite K3, (H2 He). reflexivity.
  - intros k w [H1 H2]. destruct (po_tick _ _ _ _ HP k w H1) as (K1 & K2 & _).
    split; [exact K1|]. intros He. rewrite K2. auto.
  - intros c w w' [H1 H2] He0. destruct (po_emit _ _ _ _ HP _ _ _ H1 He0) as (K1 & _ & K3).
    split; [exact K1|]. auto.
Qed.

Lemma plain_emit_if_ctr dl (b : bool) c w w' :
  (if b then emit (plain_world dl) c w else Ok w) = Ok w' -> p_ctr w' = p_ctr w.
Proof.
  destruct b; cbn [emit plain_world]; intros H; inversion H; reflexivity.
Qed.

(* a strictly ascending list inside [s, e) has at most e - s items *)
Lemma Asc_length l s e :
  Asc l -> (forall a x, nth_error l a = Some x -> s <= x < e) -> length l <= e - s.
Proof.
  intros Ha Hr.
  assert (Hlow : forall a x, nth_error l a = Some x -> s + a <= x).
  { induction a as [|a IH]; intros x Hx.
    - apply Hr in Hx. lia.
    - destruct (nth_error l a) as [y|] eqn:Ey.
      + pose proof (Ha a (S a) y x ltac:(lia) Ey Hx). specialize (IH y eq_refl). lia.
      + apply nth_error_None in Ey. assert (Hs : nth_error l (S a) <> None) by congruence.
        apply nth_error_Some in Hs. lia. }
  destruct (length l) as [|n] eqn:El; [lia|].
  destruct (nth_error l n) as [x|] eqn:Ex.
  - pose proof (Hlow n x Ex). apply Hr in Ex. lia.
  - apply nth_error_None in Ex. lia.
Qed.

Section PatiencePost.
  Variable dl : deadline.
  Hypothesis Hmono : DlMono dl.
  Variable dbg : bool.
  Variable cmp : cmpf.
  Variables uo un : list nat.
  Variables os oe ns ne : nat.
  Variable w0 : plain.
  Hypothesis Hoe : os <= oe.
  Hypothesis Hne : ns <= ne.
  Hypothesis Htot : CmpTotal cmp os oe ns ne.
  Hypothesis Huo : Asc uo.
  Hypothesis Hun : Asc un.
  Hypothesis Huo_r : forall a x, nth_error uo a = Some x -> os <= x < oe.
  Hypothesis Hun_r : forall a x, nth_error un a = Some x -> ns <= x < ne.

  Local Notation PWl := (PW dl cmp uo un oe ne).
  Local Notation RWl := (RW dl dbg cmp uo un oe ne).
  Local Notation uc := (ucmp cmp uo un).
  Local Notation Pl := (P cmp uo un os ns w0).
  Local Notation HPp := (PostResp_plain dl Hmono).

  Definition rexp (w : rstate * (pstate * plain)) : bool := pexp (snd (snd w)).
  Definition rinv (w : rstate * (pstate * plain)) : Prop := PInv dl (snd (snd w)).

  Lemma RW_probe_ctr rs ps pl b w' :
    probe RWl (rs, (ps, pl)) = (b, w') ->
    exists pl', w' = (rs, (ps, pl')) /\ probe (plain_world dl) pl = (b, pl').
  Proof.
    assert (E0 : probe RWl (rs, (ps, pl)) =
                 (fst (probe (plain_world dl) pl), (rs, (ps, snd (probe (plain_world dl) pl))))).
    { unfold RW, PW, replace_world, patience_world, lift_probe. cbn [probe fst snd].
      destruct (probe (plain_world dl) pl); reflexivity. }
    rewrite E0. intros H. inversion H; subst.
    exists (snd (probe (plain_world dl) pl)). split; [reflexivity|apply surjective_pairing].
  Qed.

  Lemma ClockResp_RW : ClockResp RWl rinv rexp.
  Proof.
    split.
    - intros [rs [ps pl]] b w' Hw Hp. apply RW_probe_ctr in Hp.
      destruct Hp as (pl' & -> & Hp). unfold rinv, rexp in *. cbn [snd] in *.
      destruct (po_probe _ _ _ _ HPp _ _ _ Hw Hp) as (K1 & _ & K3 & K4). auto.
    - intros k [rs [ps pl]] Hw. unfold rinv, rexp in *.
      cbn [tick RW replace_world lift_tick PW patience_world fst snd] in *.
      destruct (po_tick _ _ _ _ HPp k pl Hw) as (K1 & K2 & _). auto.
    - intros c w w' Hw He.
      pose proof (Stable_replace PWl dbg _
                    (Stable_patience (plain_world dl) cmp uo un oe ne _
                       (Stable_plain dl (rexp w) Hmono))) as HS.
      exact (st_emit _ _ HS c w w' (conj Hw (fun H => H)) He).
  Qed.

  (* budget left for the Patience hook: the part of the two ranges beyond the
     cursor, plus one for the very first extension loop (later ones start on
     a matching anchor pair, so their failing comparison is paid by the
     advance over that pair) *)
  Definition pot (A : list (nat * nat)) (ps : pstate) : nat :=
    (oe - old_current ps) + (ne - new_current ps) + (match A with [] => 1 | _ => 0 end).

  Definition Q (B : nat) (A : list (nat * nat)) (k l : nat) (sw : pstate * plain) : Prop :=
    Pl A k l sw /\ PInv dl (snd sw) /\ ppost (snd sw) + pot A (fst sw) <= B.

  Lemma Q_mono B A k l k' l' sw : k <= k' -> l <= l' -> Q B A k l sw -> Q B A k' l' sw.
  Proof.
    intros Hk Hl (H1 & H2 & H3). split; [|auto].
    exact (P_mono cmp uo un os oe ns ne w0 Hoe Hne A k l k' l' sw Hk Hl H1).
  Qed.

  Lemma pot_snoc A a ps : pot (A ++ [a]) ps = (oe - old_current ps) + (ne - new_current ps).
  Proof. unfold pot. destruct A; cbn [app]; lia. Qed.

  Lemma anchor_step_Q B A k l ps pl oi ni :
    Q B A k l (ps, pl) -> nth_error uo k = Some oi -> nth_error un l = Some ni ->
    cmp oi ni = Ok true ->
    exists ps' pl',
      anchor_step (plain_world dl) cmp uo un k l (ps, pl) = Ok (ps', pl') /\
      Q B (A ++ [(k, l)]) (S k) (S l) (ps', pl').
  Proof.
    intros (HPl & HI & HB) Hk Hl Hmatch. cbn [fst snd] in *.
    destruct (anchor_step_spec dl cmp uo un os oe ns ne w0 Hoe Hne Htot Huo Hun Huo_r Hun_r
                A k l ps pl oi ni HPl Hk Hl Hmatch) as (ps' & pl' & Hs & HP').
    exists ps', pl'. split; [exact Hs|]. split; [exact HP'|]. cbn [fst snd].
    destruct HPl as (body & c0 & Hlog & Hpre & Hc0 & Hcur). cbn [fst snd] in *.
    set (oc := old_current ps) in *. set (nc := new_current ps) in *.
    pose proof (CurA_AtCursor _ _ _ _ _ _ _ _ _ _ _ Hcur) as Hat.
    destruct (AtCursor_bounds uo un os oe ns ne Hoe Hne Huo_r Hun_r _ _ _ _ Hat) as [Hoc Hnc].
    destruct (AtCursor_le uo un os oe ns ne Hoe Hne Huo Hun Huo_r Hun_r
                _ _ _ _ k l oi ni Hat (le_n _) (le_n _) Hk Hl) as [Hoi Hni].
    pose proof (Huo_r _ _ Hk) as Hoir. pose proof (Hun_r _ _ Hl) as Hnir.
    unfold anchor_step in Hs. rewrite Hk, Hl in Hs. cbn [of_option bind] in Hs.
    fold oc nc in Hs.
    destruct (advance_spec (plain_world dl) cmp (oi - oc) oi ni oc nc pl (le_n _))
      as (d & w1 & Hadv & _ & Hd1 & Hd2 & _ & Hpos).
    { intros i j Hi Hj. apply Htot; lia. }
    specialize (Hd1 Hoi). specialize (Hd2 Hni).
    rewrite Hadv in Hs. cbn [bind] in Hs.
    apply bind_Ok_inv in Hs. destruct Hs as (w2 & He & Hs).
    apply bind_Ok_inv in Hs. destruct Hs as (w3 & Hm & Hs).
    inversion Hs; subst ps' pl'. clear Hs. cbn [old_current new_current].
    destruct (advance_post (plain_world dl) _ _ _ cmp HPp _ _ _ _ _ _ _ _ _ Hadv HI)
      as (I1 & _ & C1).
    apply plain_emit_if_ctr in He.
    assert (I2 : PInv dl w2) by (unfold PInv; rewrite He; exact I1).
    destruct (myers_post (no_finish (plain_world dl)) _ _ _ cmp (oc + d) oi (nc + d) ni w2 w3
                (PostResp_no_finish _ _ _ _ HPp) Hd1 Hd2
                ltac:(eapply CmpTotal_sub; [exact Htot|lia..]) I2 Hm) as (I3 & _ & C3).
    split; [exact I3|]. rewrite pot_snoc. cbn [old_current new_current].
    unfold ppost in *. rewrite He in C3. unfold pot in HB. fold oc nc in HB.
    destruct Hcur as [(-> & _ & _)|(A' & k0 & l0 & -> & Hk0 & Hl0 & Hx0 & Hy0 & Hc & _)].
    - lia.
    - pose proof (Huo k0 k oc oi Hk0 Hx0 Hk) as Hlt1.
      pose proof (Hun l0 l nc ni Hl0 Hy0 Hl) as Hlt2.
      specialize (Hpos Hlt1 Hlt2 Hc).
      destruct (A' ++ [(k0, l0)]) eqn:EA; [now destruct A'|]. lia.
  Qed.

  Lemma anchor_loop_Q B : forall len A k l sw,
    Q B A k l sw -> SegEq uc k l len ->
    exists sw',
      anchor_loop (plain_world dl) cmp uo un len k l sw = Ok sw' /\
      Q B (A ++ upairs k l len) (k + len) (l + len) sw'.
  Proof.
    induction len as [|len IH]; intros A k l sw HQ Hseg; cbn [anchor_loop upairs].
    - exists sw. rewrite !Nat.add_0_r, app_nil_r. auto.
    - destruct sw as [ps pl].
      destruct (ucmp_true_inv cmp uo un k l) as (oi & ni & Hk & Hl & Hmatch).
      { specialize (Hseg 0 ltac:(lia)). now rewrite !Nat.add_0_r in Hseg. }
      destruct (anchor_step_Q B A k l ps pl oi ni HQ Hk Hl Hmatch) as (ps' & pl' & Hs & HQ').
      rewrite Hs. cbn [bind].
      destruct (IH (A ++ [(k, l)]) (S k) (S l) (ps', pl') HQ') as (sw' & Hl' & HQ'').
      { intros t Ht. replace (S k + t) with (k + S t) by lia.
        replace (S l + t) with (l + S t) by lia. apply Hseg. lia. }
      exists sw'. split; [exact Hl'|].
      replace (k + S len) with (S k + len) by lia.
      replace (l + S len) with (S l + len) by lia.
      rewrite <- app_assoc in HQ''. exact HQ''.
  Qed.

  Lemma PW_flush_Q B A u v u0 rs sw :
    Inv uc u v u0 rs -> Q B A (ek rs u) (el rs v) sw ->
    exists sw', emit_all PWl (fst (tr_flush_eq rs)) sw = Ok sw' /\ Q B (A ++ pend rs) u v sw'.
  Proof.
    intros HI HQ.
    destruct HI as [Hi0|eo en el0 Hel Heo Hen Hpseg Hi0|dl0 Hdl Hdo|inn il Hil Hi0 Hinn
                   |dl0 dn io inn il Hdl Hil Hdo Hinn];
      cbn [tr_flush_eq r_eq fst ek el pend emit_all] in *;
      try (exists sw; rewrite app_nil_r; auto; fail).
    destruct (anchor_loop_Q B el0 A eo en sw HQ Hpseg) as (sw' & Hl & HQ').
    exists sw'. cbn [emit PW patience_world patience_emit]. rewrite Hl. cbn [bind].
    split; [reflexivity|]. now rewrite Heo, Hen in HQ'.
  Qed.

  Lemma PW_finish_Q B A k l ps pl pl' :
    Q B A k l (ps, pl) -> emit PWl CFin (ps, pl) = Ok (ps, pl') -> ppost pl' <= B.
  Proof.
    intros (HPl & HI & HB) H. cbn [fst snd] in *.
    destruct HPl as (body & c0 & Hlog & Hpre & Hc0 & Hcur). cbn [fst snd] in *.
    pose proof (CurA_AtCursor _ _ _ _ _ _ _ _ _ _ _ Hcur) as Hat.
    destruct (AtCursor_bounds uo un os oe ns ne Hoe Hne Huo_r Hun_r _ _ _ _ Hat) as [Hoc Hnc].
    cbn [emit PW patience_world patience_emit] in H.
    apply bind_Ok_inv in H. destruct H as (w1 & Hm & H). inversion H; subst pl'. clear H.
    destruct (myers_post (plain_world dl) _ _ _ cmp (old_current ps) oe (new_current ps) ne
                pl w1 HPp ltac:(lia) ltac:(lia)
                ltac:(eapply CmpTotal_sub; [exact Htot|lia..]) HI Hm) as (_ & _ & C).
    unfold pot in HB. lia.
  Qed.

  (* ---- the compound world ---- *)
  Definition JQ (B : nat) (A : list (nat * nat)) (u v u0 : nat)
             (w : rstate * (pstate * plain)) : Prop :=
    Inv uc u v u0 (fst w) /\ Q B A (ek (fst w) u) (el (fst w) v) (snd w).

  Lemma JQ_eq B A u v u0 w l w' :
    JQ B A u v u0 w -> 0 < l -> SegEq uc u v l ->
    emit RWl (CEq u v l) w = Ok w' -> JQ B A (u + l) (v + l) (u + l) w'.
  Proof.
    destruct w as [rs sw]. intros [HI HQ] Hl Hseg He. cbn [fst snd] in *.
    destruct (step_eq uc (u + l) (v + l) u v u0 l rs HI Hl Hseg (le_n _) (le_n _))
      as (o1 & s1 & Hstep & HI1 & _ & _).
    destruct (step_eq_shape dbg _ _ _ _ _ _ (Hstep dbg)) as [Hch Hreq].
    rewrite RW_emit, (Hstep dbg) in He. unfold run_trace in He. cbn [fst snd] in He.
    rewrite (PW_changes _ _ _ _ _ _ _ _ Hch) in He. cbn [bind] in He. inversion He; subst w'.
    split; cbn [fst snd]; [exact HI1|].
    unfold ek, el in *. rewrite Hreq. destruct (r_eq rs) as [[[eo en] el0]|]; exact HQ.
  Qed.

  Lemma JQ_del B A u v u0 w l w' :
    JQ B A u v u0 w -> 0 < l ->
    emit RWl (CDel u l v) w = Ok w' -> JQ B (A ++ pend (fst w)) (u + l) v u0 w'.
  Proof.
    destruct w as [rs sw]. intros [HI HQ] Hl He. cbn [fst snd] in *.
    destruct (step_del uc 0 0 u v u0 l rs HI Hl) as (o1 & s1 & Hstep & HI1 & _ & _).
    destruct (step_del_shape dbg _ _ _ _ _ _ (Hstep dbg)) as [Ho1 Hreq]. subst o1.
    destruct (PW_flush_Q B A u v u0 rs sw HI HQ) as (sw' & Hfl & HQ').
    rewrite RW_emit, (Hstep dbg) in He. unfold run_trace in He. cbn [fst snd] in He.
    rewrite Hfl in He. cbn [bind] in He. inversion He; subst w'.
    split; cbn [fst snd]; [exact HI1|]. unfold ek, el. rewrite Hreq.
    eapply Q_mono; [| |exact HQ']; lia.
  Qed.

  Lemma JQ_ins B A u v u0 w o l w' :
    JQ B A u v u0 w -> 0 < l -> u0 <= o -> o <= u ->
    emit RWl (CIns o v l) w = Ok w' -> JQ B (A ++ pend (fst w)) u (v + l) u0 w'.
  Proof.
    destruct w as [rs sw]. intros [HI HQ] Hl Ho1 Ho2 He. cbn [fst snd] in *.
    destruct (step_ins uc 0 0 u v u0 o l rs HI Hl Ho1 Ho2) as (o1 & s1 & Hstep & HI1 & _ & _).
    destruct (step_ins_shape dbg _ _ _ _ _ _ (Hstep dbg)) as [Ho Hreq]. subst o1.
    destruct (PW_flush_Q B A u v u0 rs sw HI HQ) as (sw' & Hfl & HQ').
    rewrite RW_emit, (Hstep dbg) in He. unfold run_trace in He. cbn [fst snd] in He.
    rewrite Hfl in He. cbn [bind] in He. inversion He; subst w'.
    split; cbn [fst snd]; [exact HI1|]. unfold ek, el. rewrite Hreq.
    eapply Q_mono; [| |exact HQ']; lia.
  Qed.

  Lemma JQ_fin B A u v u0 w w' :
    JQ B A u v u0 w -> emit RWl CFin w = Ok w' -> ppost (snd (snd w')) <= B.
  Proof.
    destruct w as [rs sw]. intros [HI HQ] He. cbn [fst snd] in *.
    destruct (step_fin uc u v u0 rs HI) as (out & Hstep & _).
    destruct (step_fin_shape dbg _ _ _ (Hstep dbg)) as (o2 & Hout & Hch). subst out.
    destruct (PW_flush_Q B A u v u0 rs sw HI HQ) as ([ps' pl1] & Hfl & HQ').
    destruct (PW_finish dl cmp uo un os oe ns ne w0 Hoe Hne Htot Huo_r Hun_r
                _ u v ps' pl1 (proj1 HQ')) as (pl' & body & Hfin & _).
    rewrite RW_emit, (Hstep dbg) in He. unfold run_trace in He. cbn [fst snd] in He.
    rewrite emit_all_app, Hfl in He. cbn [bind] in He.
    rewrite emit_all_app, (PW_changes _ _ _ _ _ _ _ _ Hch) in He. cbn [bind emit_all] in He.
    rewrite Hfin in He. cbn [bind] in He. inversion He; subst w'. cbn [snd].
    eapply PW_finish_Q; eassumption.
  Qed.

  (* ---- the outer run with the ghost counter ---- *)
  Definition GW : world (nat * (rstate * (pstate * plain))) := ghost_world RWl rexp.

  Definition JG (C0 : nat) (u v u0 : nat) (gw : nat * (rstate * (pstate * plain))) : Prop :=
    exists A, JQ (C0 + fst gw) A u v u0 (snd gw).

  Lemma Respects_JG C0 : Respects GW uc (JG C0).
  Proof.
    split.
    - intros u v u0 [g [rs [ps pl]]] b gw' (A & HI & HPl & HIn & HB) Hp. cbn [fst snd] in *.
      unfold GW in Hp. rewrite ghost_probe in Hp.
      destruct (probe RWl (rs, (ps, pl))) as [b1 w1] eqn:Ep.
      destruct (RW_probe_ctr rs ps pl _ _ Ep) as (pl' & E & Hp').
      cbn [fst snd] in Hp. inversion Hp; subst b gw' w1. clear Hp. rename Hp' into Hp.
      exists A. cbn [fst snd].
      destruct (po_probe _ _ _ _ HPp _ _ _ HIn Hp) as (K1 & K2 & _).
      split; [exact HI|]. split; [|split; [exact K1|]].
      + eapply P_log; [|exact HPl]. exact (lg_probe _ (Logging_plain dl) _ _ _ Hp).
      + cbn [fst snd]. rewrite K2. exact HB.
    - intros u v u0 [g [rs [ps pl]]] k (A & HI & HPl & HIn & HB). cbn [fst snd] in *.
      exists A.
      change (tick GW k (g, (rs, (ps, pl)))) with
        (g + (if pexp pl then k else 0), (rs, (ps, tick (plain_world dl) k pl))).
      destruct (po_tick _ _ _ _ HPp k pl HIn) as (K1 & _ & K3).
      split; [exact HI|]. cbn [fst snd]. split; [|split; [exact K1|]].
      + eapply P_log; [|exact HPl]. reflexivity.
      + cbn [fst snd]. rewrite K3. lia.
    - intros u v u0 [g w] l [g' w'] (A & HJ) Hl Hseg He. cbn [fst snd] in *.
      apply ghost_emit_inv in He. destruct He as [-> He].
      exists A. cbn [fst snd]. eapply JQ_eq; eassumption.
    - intros u v u0 [g w] l [g' w'] (A & HJ) Hl He. cbn [fst snd] in *.
      apply ghost_emit_inv in He. destruct He as [-> He].
      eexists. cbn [fst snd]. eapply JQ_del; eassumption.
    - intros u v u0 [g w] o l [g' w'] (A & HJ) Hl Ho1 Ho2 He. cbn [fst snd] in *.
      apply ghost_emit_inv in He. destruct He as [-> He].
      eexists. cbn [fst snd]. eapply JQ_ins; eassumption.
  Qed.

  Lemma outer_post rs' ps' w1 :
    PInv dl w0 ->
    myers_diff RWl uc 0 (length uo) 0 (length un) (start os ns w0) = Ok (rs', (ps', w1)) ->
    ppost w1 <= ppost w0 + ((oe - os) + (ne - ns) + 1) + (length uo + length un).
  Proof.
    intros HI0 H.
    destruct (myers_ghost_lift RWl rexp uc _ _ _ _ _ _ 0 H) as (g' & Hg).
    fold GW in Hg.
    apply myers_diff_inv in Hg. destruct Hg as (vf' & vb' & [g2 w2] & Hc & Hf).
    pose proof (CmpTotal_ucmp cmp uo un os oe ns ne Hoe Hne Htot Huo_r Hun_r) as Htu.
    pose (C0 := ppost w0 + ((oe - os) + (ne - ns) + 1)).
    (* the outer run's own comparisons *)
    destruct (conquer_post GW _ _ _ uc _ _ 0 (length uo) 0 (length un) _ _
                (0, start os ns w0) vf' vb' (g2, w2)
                (PostResp_ghost RWl rinv rexp ClockResp_RW)
                (Nat.le_0_l _) (Nat.le_0_l _) Htu (VOk_v_new _) (VOk_v_new _) (le_n _) HI0 Hc)
      as (_ & _ & Cg).
    cbn [fst] in Cg.
    (* the hook's comparisons *)
    assert (H0 : JG C0 0 0 0 (0, start os ns w0)).
    { exists []. cbn [fst snd]. split; [cbn [fst start]; now apply Inv_none|].
      cbn [fst snd start ek el r_eq rstate0]. split; [|split].
      - exact (P_init cmp uo un os oe ns ne w0 Hoe Hne).
      - exact HI0.
      - unfold pot, C0. cbn [fst snd old_current new_current]. lia. }
    destruct (conquer_inv GW uc (JG C0) _ _ 0 (length uo) 0 (length un) _ _
                (0, start os ns w0) 0 vf' vb' (g2, w2)
                (Respects_JG C0) (snake_spec _ GW uc)
                (Nat.le_0_l _) (Nat.le_0_l _) Htu (VOk_v_new _) (VOk_v_new _) (le_n _) (le_n _)
                H0 Hc) as (u0 & _ & (A & HJ) & _).
    cbn [fst snd] in HJ.
    apply ghost_emit_inv in Hf. destruct Hf as [_ Hf].
    pose proof (JQ_fin _ _ _ _ _ _ _ HJ Hf) as Hfin. cbn [snd] in Hfin.
    unfold C0 in Hfin. lia.
  Qed.
End PatiencePost.

(* C07 for Patience: at most 2 * (N + M) + 1 comparisons after expiry *)
Theorem patience_post_expiry dl dbg cmp oo nn os oe ns ne w0 w1 :
  DlMono dl ->
  os <= oe -> ns <= ne -> CmpTotal cmp os oe ns ne ->
  ClkInv dl (p_ctr w0) ->
  patience_diff (plain_world dl) dbg cmp oo nn os oe ns ne w0 = Ok w1 ->
  post_cmps (p_ctr w1) <= post_cmps (p_ctr w0) + 2 * ((oe - os) + (ne - ns)) + 1.
Proof.
  intros Hm Hoe Hne Htot HI H. unfold patience_diff in H.
  apply bind_Ok_inv in H. destruct H as (uo & Huo & H).
  apply bind_Ok_inv in H. destruct H as (un & Hun & H).
  apply bind_Ok_inv in H. destruct H as ([rs' [ps' w1']] & Hmy & H).
  inversion H; subst w1'. clear H.
  destruct (unique_asc oo os oe uo Huo) as [Ha1 Hr1].
  destruct (unique_asc nn ns ne un Hun) as [Ha2 Hr2].
  pose proof (outer_post dl Hm dbg cmp uo un os oe ns ne w0 Hoe Hne Htot Ha1 Ha2 Hr1 Hr2
                rs' ps' w1 HI Hmy) as Hp.
  pose proof (Asc_length uo os oe Ha1 Hr1). pose proof (Asc_length un ns ne Ha2 Hr2).
  unfold ppost in Hp. lia.
Qed.

(* ================================================================ Part 6 *)
(* the bound proved for each algorithm, as a function of N and M *)
Definition post_bound (alg : algorithm) (n m : nat) : nat :=
  match alg with
  | Myers => n + m
  | Lcs => 0
  | Patience => 2 * (n + m) + 1
  end.

Theorem post_expiry_bound_dl alg dl dbg orc os oe ns ne calls c :
  DlMono dl ->
  os <= oe -> ns <= ne -> CmpTotal (o_on orc) os oe ns ne ->
  raw_trace alg dl dbg orc os oe ns ne = Ok (calls, c) ->
  post_cmps c <= post_bound alg (oe - os) (ne - ns).
Proof.
  intros Hm Hoe Hne Htot H. unfold raw_trace in H.
  apply bind_Ok_inv in H. destruct H as (w & Hd & H). inversion H; subst calls c. clear H.
  destruct alg; cbn [diff_deadline post_bound] in *.
  - exact (myers_post_expiry dl _ os oe ns ne plain0 w Hm Hoe Hne Htot (ClkInv_ctr0 dl) Hd).
  - pose proof (patience_post_expiry dl dbg _ _ _ os oe ns ne plain0 w Hm Hoe Hne Htot
                  (ClkInv_ctr0 dl) Hd) as Hp.
    cbn [plain0 p_ctr ctr0 post_cmps] in Hp. lia.
  - rewrite (lcs_post_expiry dl _ os oe ns ne plain0 w Hm (ClkInv_ctr0 dl) eq_refl Hd).
    reflexivity.
Qed.

(* C07, the clause as stated: a monotone clock, in-bounds ranges, a total
   comparison oracle; K = 2, K' = 1 for every algorithm *)
Theorem post_expiry_bound alg clk dbg orc os oe ns ne calls c :
  (forall i j, i <= j -> clk i = true -> clk j = true) ->
  os <= oe -> ns <= ne -> CmpTotal (o_on orc) os oe ns ne ->
  raw_trace alg (Some clk) dbg orc os oe ns ne = Ok (calls, c) ->
  post_cmps c <= 2 * ((oe - os) + (ne - ns)) + 1.
Proof.
  intros Hm Hoe Hne Htot H.
  pose proof (post_expiry_bound_dl alg (Some clk) dbg orc os oe ns ne calls c Hm Hoe Hne Htot H)
    as Hp.
  destruct alg; cbn [post_bound] in Hp; lia.
Qed.

(* the bound used by the run-time checker *)
Corollary post_expiry_bound_checker alg clk dbg orc os oe ns ne calls c :
  (forall i j, i <= j -> clk i = true -> clk j = true) ->
  os <= oe -> ns <= ne -> CmpTotal (o_on orc) os oe ns ne ->
  raw_trace alg (Some clk) dbg orc os oe ns ne = Ok (calls, c) ->
  post_cmps c <= 8 * ((oe - os) + (ne - ns)) + 8.
Proof.
  intros Hm Hoe Hne Htot H.
  pose proof (post_expiry_bound alg clk dbg orc os oe ns ne calls c Hm Hoe Hne Htot H). lia.
Qed.

(* the harness clock "expires at probe k" is monotone *)
Lemma clock_at_mono k : forall i j, i <= j -> clock_at k i = true -> clock_at k j = true.
Proof.
  unfold clock_at. intros i j Hij H. apply Nat.leb_le in H. apply Nat.leb_le. lia.
Qed.

(* non-vacuity / tightness: comparisons do happen after expiry (the scans of
   the conquer frames still pending), and for Patience N + M is NOT a bound
   (N + M = 6 here, 9 comparisons after the clock expired at probe 3) *)
Definition nat_oracles (old new : list nat) : oracles :=
  {| o_on := cmp_of Nat.eqb (slice_lookup old) (slice_lookup new);
     o_oo := cmp_same Nat.eqb (slice_lookup old);
     o_nn := cmp_same Nat.eqb (slice_lookup new) |}.

Example post_expiry_myers_instance :
  match raw_trace Myers (Some (clock_at 3)) true (nat_oracles [0; 0; 1; 0] [1; 1]) 0 4 0 2 with
  | Ok (_, c) => post_cmps c = 2 /\ expired c = true
  | _ => False
  end.
Proof. vm_compute. split; reflexivity. Qed.

Example post_expiry_patience_instance :
  match raw_trace Patience (Some (clock_at 3)) true (nat_oracles [2; 1; 0] [0; 1; 3]) 0 3 0 3 with
  | Ok (_, c) => post_cmps c = 9 /\ expired c = true
  | _ => False
  end.
Proof. vm_compute. split; reflexivity. Qed.

Print Assumptions conquer_post.
Print Assumptions myers_post_expiry.
Print Assumptions lcs_post_expiry.
Print Assumptions patience_post_expiry.
Print Assumptions post_expiry_bound_dl.
Print Assumptions post_expiry_bound.
Print Assumptions post_expiry_bound_checker.
