(* Proofs/PatienceWork.v — number of element comparisons made by Patience (C19).

   Patience = an OUTER Myers run over the two lists of unique items (hook:
   Replace<Patience<D>>), whose Equal calls make the Patience hook walk the
   anchors: per anchor one extension scan ([advance]) and one INNER Myers run
   on the gap before the anchor, and at [finish] one inner Myers run on the
   tail.  All three kinds of comparisons are ticked into the same counter.

   Part 1  [advance_work]: one extension scan costs (matched items) + 1.
   Part 2  the ghost world [tick_ghost wd]: wd plus a counter of the ticks
           made by the OUTER run only; every run lifts to it.
   Part 3  [Work]: accounting invariant of the Patience hook
             cmps <= cmps0 + g + 6*S*Dc + S + 3*|A|,   2*|A| <= S + 2
           (g = outer ticks, S = items behind the cursor, Dc = deleted +
           inserted items emitted so far, A = anchors processed so far),
           preserved by one anchor ([anchor_step_work]), by an Equal of the
           outer run ([anchor_loop_work], [PW_flush_work]) and closed by the
           tail run ([PW_finish_work]).
   Part 4  the compound world: [K] = J (Proofs/Patience.v) + Work is a
           Respects-invariant of the ghost world over Replace<Patience<..>>;
           [patience_work_split]:
             2*cmps <= 2*cmps0 + 12*T*D + 12*T*Du + 7*T + 14
           for ANY total oracles, T = N + M, D = cost of the emitted script,
           Du = optimal cost of the box of the two unique lists (= what the
           outer Myers run pays for).
   Part 5  Du <= D when the three oracles are consistent (they behave like the
           equality of item values: [Consistent]).  Pure counting: for any
           common subsequence m of old/new, the pairs of m joining two unique
           items form a common subsequence of the unique lists, every other
           unique item is either unmatched or matched to a non-unique item one
           of whose other copies is unmatched ([one_side]).
   Part 6  [patience_work_bound]: cmps <= 12 * (N + M + 1) * (D + 1) for
           consistent oracles; instance for items compared by a boolean
           equivalence ([patience_work_bound_items]).
           The statement is FALSE for oracles that are merely total
           ([patience_work_inconsistent_oracles]): with oo/nn answering so that
           the unique lists are the even old / the odd new positions of two
           identical sequences, the outer run is a diff of two sequences
           without common item (quadratic) while the emitted script has D = 0. *)
From Coq Require Import Sorted.
From Similar Require Import Model.Base Model.Utils Model.Myers Model.Hooks Model.Patience
  Model.Capture
  Spec.Script Spec.EditGraph Spec.SnakeSpec
  Proofs.Utils Proofs.WorldInv Proofs.Replace Proofs.LcsLen Proofs.EditGraphSplit
  Proofs.MyersSweep Proofs.MyersSnake Proofs.MyersConquer Proofs.MyersWork Proofs.Unique
  Proofs.PatienceGen Proofs.PatienceSim Proofs.Patience Proofs.Main.

Local Open Scope nat_scope.

(* ================================================================ Part 1 *)
Lemma advance_work {W} (wd : world W) (cnt : W -> nat) cmp :
  CountResp wd cnt ->
  forall fuel oi ni oc nc w oc' nc' w',
    advance wd cmp fuel oi ni oc nc w = Ok (oc', nc', w') ->
    oc <= oc' /\ cnt w' <= cnt w + (oc' - oc) + 1.
Proof.
  intros HC. induction fuel as [|fuel IH]; intros oi ni oc nc w oc' nc' w' H; cbn [advance] in H.
  - inversion H; subst. lia.
  - destruct ((oc <? oi) && (nc <? ni)) eqn:E.
    + apply bind_Ok_inv in H. destruct H as (b & Hb & H).
      destruct b.
      * apply IH in H. rewrite (cn_tick wd cnt HC) in H. lia.
      * inversion H; subst. rewrite (cn_tick wd cnt HC). lia.
    + inversion H; subst. lia.
Qed.

(* ================================================================ Part 2 *)
(* [wd] plus a counter of the comparisons ticked by the run itself (the hook's
   own comparisons, made inside [emit], are not added to it) *)
Definition tick_ghost {W} (wd : world W) : world (nat * W) := {|
  emit := fun c gw => do w' <- emit wd c (snd gw); Ok (fst gw, w');
  probe := fun gw => (fst (probe wd (snd gw)), (fst gw, snd (probe wd (snd gw))));
  tick := fun k gw => (fst gw + k, tick wd k (snd gw))
|}.

Lemma ghost_emit_inv {W} (wd : world W) c g w g' w' :
  emit (tick_ghost wd) c (g, w) = Ok (g', w') -> g' = g /\ emit wd c w = Ok w'.
Proof.
  cbn [emit tick_ghost fst snd]. intros H. apply bind_Ok_inv in H.
  destruct H as (w1 & He & H). inversion H; subst. auto.
Qed.

Lemma CountResp_ghost {W} (wd : world W) : CountResp (tick_ghost wd) fst.
Proof.
  split.
  - intros [g w] b [g' w'] H. cbn [probe tick_ghost fst snd] in H. inversion H. reflexivity.
  - intros k [g w]. reflexivity.
  - intros c [g w] [g' w'] H. apply ghost_emit_inv in H. cbn [fst]. apply H.
Qed.

Lemma NoDeadline_ghost {W} (wd : world W) :
  (forall x, fst (probe wd x) = false) -> NoDeadline (tick_ghost wd).
Proof. intros H [g w]. cbn [probe tick_ghost fst snd]. apply H. Qed.

(* every Ok run is the projection of a run with the ghost counter *)
Theorem myers_ghost_lift {W} (wd : world W) cmp os oe ns ne w w' g :
  myers_diff wd cmp os oe ns ne w = Ok w' ->
  exists g', myers_diff (tick_ghost wd) cmp os oe ns ne (g, w) = Ok (g', w').
Proof.
  intros H.
  destruct (myers_diff_sim wd (tick_ghost wd) (fun w1 gw => snd gw = w1)) with
    (cmp := cmp) (os := os) (oe := oe) (ns := ns) (ne := ne) (w1 := w) (w2 := (g, w)) (w1' := w')
    as ([g' w2'] & Hm & HR); try assumption; try reflexivity.
  - intros w1 [g1 w2] b w1' HR Hp. cbn [snd] in HR. subst w2.
    exists (g1, w1'). cbn [probe tick_ghost fst snd]. rewrite Hp. split; reflexivity.
  - intros k w1 [g1 w2] HR. cbn [snd] in *. subst w2. reflexivity.
  - intros c w1 [g1 w2] w1' HR He. cbn [snd] in HR. subst w2.
    exists (g1, w1'). cbn [emit tick_ghost fst snd]. rewrite He. split; reflexivity.
  - cbn [snd] in HR. subst w2'. exists g'. exact Hm.
Qed.

(* ================================================================ Part 3 *)
(* the recording hook: cost and count of single calls *)
Lemma plain_cost_emit_eq dl o n l w w' :
  emit (plain_world dl) (CEq o n l) w = Ok w' ->
  plain_cost w' = plain_cost w /\ cmps_of w' = cmps_of w.
Proof.
  intros H. split.
  - exact (cr_eq _ _ (CostResp_logging _ (Logging_plain dl)) _ _ _ _ _ H).
  - exact (cn_emit _ _ (CountResp_plain dl) _ _ _ H).
Qed.

(* one inner Myers run (NoFinishHook), no deadline: work and emitted cost *)
Lemma inner_run_work cmp os oe ns ne w w' :
  os <= oe -> ns <= ne -> CmpTotal cmp os oe ns ne ->
  myers_diff (no_finish (plain_world None)) cmp os oe ns ne w = Ok w' ->
  exists D,
    plain_cost w' = plain_cost w + D /\
    cmps_of w' <= cmps_of w + 6 * ((oe - os) + (ne - ns)) * D + ((oe - os) + (ne - ns)) + 2.
Proof.
  intros Hoe Hne Htot H.
  destruct (BoxCost_exists cmp os oe ns ne) as [D HD]. exists D. split.
  - destruct (myers_cost (no_finish (plain_world None)) cmp plain_cost os oe ns ne w w' D
                (CostResp_logging _ (Logging_no_finish None)) NoDeadline_no_finish
                (snake_spec _ _ _) Hoe Hne Htot HD H) as (w'' & Hc & He).
    cbn [emit no_finish] in He. inversion He; subst w''. exact Hc.
  - exact (myers_work (no_finish (plain_world None)) cmps_of cmp os oe ns ne w w' D
             (CountResp_no_finish None) NoDeadline_no_finish Hoe Hne Htot HD H).
Qed.

(* the tail run (with finish) *)
Lemma tail_run_work cmp os oe ns ne w w' :
  os <= oe -> ns <= ne -> CmpTotal cmp os oe ns ne ->
  myers_diff (plain_world None) cmp os oe ns ne w = Ok w' ->
  exists D,
    plain_cost w' = plain_cost w + D /\
    cmps_of w' <= cmps_of w + 6 * ((oe - os) + (ne - ns)) * D + ((oe - os) + (ne - ns)) + 2.
Proof.
  intros Hoe Hne Htot H.
  destruct (BoxCost_exists cmp os oe ns ne) as [D HD]. exists D. split.
  - destruct (myers_cost (plain_world None) cmp plain_cost os oe ns ne w w' D
                (CostResp_logging _ (Logging_plain None)) NoDeadline_plain
                (snake_spec _ _ _) Hoe Hne Htot HD H) as (w'' & Hc & He).
    cbn [emit plain_world] in He. inversion He; subst w'. rewrite <- Hc.
    unfold plain_cost, plain_calls. cbn [p_log rev]. rewrite calls_cost_app.
    unfold calls_cost at 2. cbn [capture_calls call_to_op deleted inserted fold_right]. lia.
  - exact (myers_work (plain_world None) cmps_of cmp os oe ns ne w w' D
             (CountResp_plain None) NoDeadline_plain Hoe Hne Htot HD H).
Qed.

Section Work.
  Variable dbg : bool.
  Variable cmp : cmpf.
  Variables uo un : list nat.
  Variables os oe ns ne : nat.
  Variable w0 : plain.
  Hypothesis Hoe : os <= oe.
  Hypothesis Hne : ns <= ne.
  Hypothesis Htot : CmpTotal cmp os oe ns ne.
  Hypothesis Huo : Asc uo.
  Hypothesis Hun : Asc un.
  Hypothesis Huo_r : forall a x, nth_error uo a = Some x -> os <= x < oe.
  Hypothesis Hun_r : forall a x, nth_error un a = Some x -> ns <= x < ne.

  Let PWn := PW None cmp uo un oe ne.
  Let RWn := RW None dbg cmp uo un oe ne.
  Let Pn := P cmp uo un os ns w0.
  Let Jn := J cmp uo un os ns w0.
  Let uc := ucmp cmp uo un.

  (* items behind the Patience cursor *)
  Definition Scur (ps : pstate) : nat := (old_current ps - os) + (new_current ps - ns).

  (* [g] = comparisons ticked by the outer run so far, [A] = anchors processed *)
  Definition Work (A : list (nat * nat)) (sw : pstate * plain) (g : nat) : Prop :=
    exists Dc,
      plain_cost (snd sw) = plain_cost w0 + Dc /\
      2 * length A <= Scur (fst sw) + 2 /\
      cmps_of (snd sw) <=
      cmps_of w0 + g + 6 * Scur (fst sw) * Dc + Scur (fst sw) + 3 * length A.

  Lemma Work_init : Work [] ({| old_current := os; new_current := ns |}, w0) 0.
  Proof.
    exists 0. unfold Scur. cbn [fst snd old_current new_current length]. lia.
  Qed.

  Lemma pw_arith S Dc s d :
    6 * S * Dc + 6 * s * d <= 6 * (S + s) * (Dc + d).
  Proof. nia. Qed.

  (* ---------------------------------------------------------- one anchor *)
  Lemma anchor_step_work A k l ps pl oi ni g :
    Pn A k l (ps, pl) -> nth_error uo k = Some oi -> nth_error un l = Some ni ->
    cmp oi ni = Ok true -> Work A (ps, pl) g ->
    exists ps' pl',
      anchor_step (plain_world None) cmp uo un k l (ps, pl) = Ok (ps', pl') /\
      Pn (A ++ [(k, l)]) (S k) (S l) (ps', pl') /\
      Work (A ++ [(k, l)]) (ps', pl') g.
  Proof.
    intros HP Hk Hl Hmatch (Dc & Hcost & Hcnt & Hwork). cbn [fst snd] in *.
    destruct (anchor_step_spec None cmp uo un os oe ns ne w0 Hoe Hne Htot Huo Hun Huo_r Hun_r
                A k l ps pl oi ni HP Hk Hl Hmatch) as (ps' & pl' & Hs & HP').
    exists ps', pl'. split; [exact Hs|]. split; [exact HP'|].
    destruct HP as (body & c0 & Hlog & Hpre & Hc0 & Hcur). cbn [fst snd] in *.
    pose proof (CurA_AtCursor _ _ _ _ _ _ _ _ _ _ _ Hcur) as Hat.
    destruct (AtCursor_bounds uo un os oe ns ne Hoe Hne Huo_r Hun_r _ _ _ _ Hat) as [Hoc Hnc].
    destruct (AtCursor_le uo un os oe ns ne Hoe Hne Huo Hun Huo_r Hun_r _ _ _ _ k l oi ni Hat
                (le_n _) (le_n _) Hk Hl) as [Hoi Hni].
    pose proof (Huo_r _ _ Hk) as Hoir. pose proof (Hun_r _ _ Hl) as Hnir.
    set (oc := old_current ps) in *. set (nc := new_current ps) in *.
    (* strictly beyond the cursor unless no anchor was processed yet *)
    assert (Hstrict : A = [] \/ (oc < oi /\ nc < ni)).
    { destruct Hcur as [(HA & _ & _)|(A' & k0 & l0 & _ & Hk0 & Hl0 & Hx0 & Hy0 & _)];
        [now left|right].
      split; [exact (Huo k0 k oc oi Hk0 Hx0 Hk)|exact (Hun l0 l nc ni Hl0 Hy0 Hl)]. }
    unfold anchor_step in Hs. fold oc nc in Hs. rewrite Hk, Hl in Hs. cbn [of_option bind] in Hs.
    destruct (advance_spec (plain_world None) cmp (oi - oc) oi ni oc nc pl (le_n _))
      as (d & w1 & Hadv & _ & Hd1 & Hd2 & Hpt & _).
    { intros i j Hi Hj. apply Htot; lia. }
    specialize (Hd1 Hoi). specialize (Hd2 Hni).
    destruct (advance_work (plain_world None) cmps_of cmp (CountResp_plain None)
                _ _ _ _ _ _ _ _ _ Hadv) as [_ Hadvw].
    rewrite Hadv in Hs. cbn [bind] in Hs.
    pose proof (PT_plain_log _ _ _ Hpt) as Hlog1.
    assert (Hcost1 : plain_cost w1 = plain_cost pl)
      by (unfold plain_cost, plain_calls; now rewrite Hlog1).
    apply bind_Ok_inv in Hs. destruct Hs as (w2 & He & Hs).
    assert (Hw2 : plain_cost w2 = plain_cost w1 /\ cmps_of w2 = cmps_of w1).
    { destruct (oc <? oc + d).
      - eapply plain_cost_emit_eq. exact He.
      - inversion He. auto. }
    destruct Hw2 as [Hcost2 Hcnt2].
    apply bind_Ok_inv in Hs. destruct Hs as (w3 & Hm & Hs).
    inversion Hs; subst ps' pl'. clear Hs.
    destruct (inner_run_work cmp (oc + d) oi (nc + d) ni w2 w3 Hd1 Hd2) as (D & HcD & HwD).
    { eapply CmpTotal_sub; [exact Htot|lia..]. }
    { exact Hm. }
    exists (Dc + D). unfold Scur in *. cbn [fst snd old_current new_current].
    fold oc nc in Hcnt, Hwork. rewrite app_length. cbn [length].
    set (S0 := (oc - os) + (nc - ns)) in *.
    set (s := (oi - (oc + d)) + (ni - (nc + d))) in *.
    assert (ES : (oi - os) + (ni - ns) = S0 + 2 * d + s) by (unfold S0, s; lia).
    rewrite ES.
    split; [lia|]. split.
    - destruct Hstrict as [HA|[H1 H2]]; [subst A; cbn [length]; lia|].
      assert (2 <= 2 * d + s) by (unfold s; lia). lia.
    - pose proof (pw_arith S0 Dc s D) as Ha.
      assert (Hmono : 6 * (S0 + s) * (Dc + D) <= 6 * (S0 + 2 * d + s) * (Dc + D))
        by (apply Nat.mul_le_mono_r; lia).
      replace (oc + d - oc) with d in Hadvw by lia.
      lia.
  Qed.

  Lemma anchor_loop_work g : forall len A k l sw,
    Pn A k l sw -> SegEq uc k l len -> Work A sw g ->
    exists sw',
      anchor_loop (plain_world None) cmp uo un len k l sw = Ok sw' /\
      Pn (A ++ upairs k l len) (k + len) (l + len) sw' /\
      Work (A ++ upairs k l len) sw' g.
  Proof.
    induction len as [|len IH]; intros A k l sw HP Hseg HW; cbn [anchor_loop upairs].
    - exists sw. rewrite !Nat.add_0_r, app_nil_r. auto.
    - destruct sw as [ps pl].
      destruct (ucmp_true_inv cmp uo un k l) as (oi & ni & Hk & Hl & Hmatch).
      { specialize (Hseg 0 ltac:(lia)). now rewrite !Nat.add_0_r in Hseg. }
      destruct (anchor_step_work A k l ps pl oi ni g HP Hk Hl Hmatch HW)
        as (ps' & pl' & Hs & HP' & HW').
      rewrite Hs. cbn [bind].
      destruct (IH (A ++ [(k, l)]) (S k) (S l) (ps', pl') HP') as (sw' & Hl' & HP'' & HW'').
      { intros t Ht. replace (S k + t) with (k + S t) by lia.
        replace (S l + t) with (l + S t) by lia. apply Hseg. lia. }
      { exact HW'. }
      exists sw'. split; [exact Hl'|].
      replace (k + S len) with (S k + len) by lia.
      replace (l + S len) with (S l + len) by lia.
      rewrite <- app_assoc in HP'', HW''. auto.
  Qed.

  (* handing the pending equal (if any) to the Patience hook *)
  Lemma PW_flush_work A u v u0 rs sw g :
    Inv uc u v u0 rs -> Pn A (ek rs u) (el rs v) sw -> Work A sw g ->
    exists sw', emit_all PWn (fst (tr_flush_eq rs)) sw = Ok sw' /\
                Pn (A ++ pend rs) u v sw' /\ Work (A ++ pend rs) sw' g.
  Proof.
    intros HI HP HW.
    destruct HI as [Hi0|eo en el0 Hel Heo Hen Hpseg Hi0|dl0 Hdl Hdo|inn il Hil Hi0 Hinn
                   |dl0 dn io inn il Hdl Hil Hdo Hinn];
      cbn [tr_flush_eq r_eq fst ek el pend emit_all] in *;
      try (exists sw; rewrite app_nil_r; auto; fail).
    destruct (anchor_loop_work g el0 A eo en sw HP Hpseg HW) as (sw' & Hl & HP' & HW').
    exists sw'. unfold PWn. cbn [emit PW patience_world patience_emit]. rewrite Hl. cbn [bind].
    split; [reflexivity|]. rewrite Heo, Hen in HP'. auto.
  Qed.

  (* Patience::finish from the cursor: the final bound *)
  Lemma PW_finish_work A k l ps pl g :
    Pn A k l (ps, pl) -> Work A (ps, pl) g ->
    exists pl' D,
      emit PWn CFin (ps, pl) = Ok (ps, pl') /\
      plain_cost pl' = plain_cost w0 + D /\
      2 * cmps_of pl' <=
      2 * cmps_of w0 + 2 * g + 12 * ((oe - os) + (ne - ns)) * D + 5 * ((oe - os) + (ne - ns)) + 10.
  Proof.
    intros HP (Dc & Hcost & Hcnt & Hwork). cbn [fst snd] in *.
    destruct (PW_finish None cmp uo un os oe ns ne w0 Hoe Hne Htot Huo_r Hun_r A k l ps pl HP)
      as (pl' & body' & Hfin & _).
    destruct HP as (body & c0 & Hlog & Hpre & Hc0 & Hcur). cbn [fst snd] in *.
    pose proof (CurA_AtCursor _ _ _ _ _ _ _ _ _ _ _ Hcur) as Hat.
    destruct (AtCursor_bounds uo un os oe ns ne Hoe Hne Huo_r Hun_r _ _ _ _ Hat) as [Hoc Hnc].
    set (oc := old_current ps) in *. set (nc := new_current ps) in *.
    pose proof Hfin as Hfin'.
    unfold PWn in Hfin'. cbn [emit PW patience_world patience_emit] in Hfin'. fold oc nc in Hfin'.
    apply bind_Ok_inv in Hfin'. destruct Hfin' as (w3 & Hm & Hw3). inversion Hw3; subst w3.
    destruct (tail_run_work cmp oc oe nc ne pl pl' ltac:(lia) ltac:(lia)) as (D & HcD & HwD).
    { eapply CmpTotal_sub; [exact Htot|lia..]. }
    { exact Hm. }
    exists pl', (Dc + D). split; [exact Hfin|]. split; [lia|].
    unfold Scur in *. fold oc nc in Hcnt, Hwork.
    set (S0 := (oc - os) + (nc - ns)) in *.
    set (s := (oe - oc) + (ne - nc)) in *.
    assert (ES : (oe - os) + (ne - ns) = S0 + s) by (unfold S0, s; lia).
    rewrite ES. pose proof (pw_arith S0 Dc s D) as Ha. lia.
  Qed.

  (* ================================================================ Part 4 *)
  Definition GWn : world (nat * (rstate * (pstate * plain))) := tick_ghost RWn.

  Lemma RWn_probe w : probe RWn w = (false, w).
  Proof. destruct w as [rs [ps [c lg]]]. reflexivity. Qed.

  (* an Equal only reaches Replace's buffer: the Patience hook sees changes, which
     it ignores *)
  Lemma RWn_emit_eq o n l rs sw rs' sw' :
    emit RWn (CEq o n l) (rs, sw) = Ok (rs', sw') -> sw' = sw.
  Proof.
    unfold RWn. rewrite RW_emit. unfold run_trace.
    assert (Hch : Forall IsChange (fst (replace_step dbg (CEq o n l) rs))).
    { destruct rs as [d i e]. destruct d as [[[dO dl] dn]|]; destruct i as [[[io inn] il]|];
        cbn; repeat constructor. }
    rewrite (PW_changes _ _ _ _ _ _ _ _ Hch). cbn [bind].
    destruct (snd (replace_step dbg (CEq o n l) rs)); intros H; inversion H. reflexivity.
  Qed.

  Definition K (u v u0 : nat) (gw : nat * (rstate * (pstate * plain))) : Prop :=
    exists A, Jn A u v u0 (snd gw) /\ Work A (snd (snd gw)) (fst gw).

  Lemma K_init : K 0 0 0 (0, start os ns w0).
  Proof.
    exists []. cbn [fst snd start]. split; [exact (J_init cmp uo un os oe ns ne w0 Hoe Hne)|exact Work_init].
  Qed.

  Lemma K_del A u v u0 w l g :
    Jn A u v u0 w -> Work A (snd w) g -> 0 < l ->
    exists w', emit RWn (CDel u l v) w = Ok w' /\ Jn (A ++ pend (fst w)) (u + l) v u0 w' /\
               Work (A ++ pend (fst w)) (snd w') g.
  Proof.
    destruct w as [rs sw]. intros [HI HP] HW Hl. cbn [fst snd] in *.
    destruct (step_del uc 0 0 u v u0 l rs HI Hl) as (o1 & s1 & Hstep & HI1 & _ & _).
    destruct (step_del_shape dbg _ _ _ _ _ _ (Hstep dbg)) as [Ho1 Hreq]. subst o1.
    destruct (PW_flush_work A u v u0 rs sw g HI HP HW) as (sw' & Hfl & HP' & HW').
    exists (s1, sw'). split; [|split].
    - unfold RWn. rewrite RW_emit, (Hstep dbg). unfold run_trace. cbn [fst snd].
      fold PWn. rewrite Hfl. reflexivity.
    - split; cbn [fst snd]; [exact HI1|]. unfold ek, el. rewrite Hreq.
      eapply P_mono; [exact Hoe|exact Hne| | |exact HP']; lia.
    - exact HW'.
  Qed.

  Lemma K_ins A u v u0 w o l g :
    Jn A u v u0 w -> Work A (snd w) g -> 0 < l -> u0 <= o -> o <= u ->
    exists w', emit RWn (CIns o v l) w = Ok w' /\ Jn (A ++ pend (fst w)) u (v + l) u0 w' /\
               Work (A ++ pend (fst w)) (snd w') g.
  Proof.
    destruct w as [rs sw]. intros [HI HP] HW Hl Ho1 Ho2. cbn [fst snd] in *.
    destruct (step_ins uc 0 0 u v u0 o l rs HI Hl Ho1 Ho2) as (o1 & s1 & Hstep & HI1 & _ & _).
    destruct (step_ins_shape dbg _ _ _ _ _ _ (Hstep dbg)) as [Ho Hreq]. subst o1.
    destruct (PW_flush_work A u v u0 rs sw g HI HP HW) as (sw' & Hfl & HP' & HW').
    exists (s1, sw'). split; [|split].
    - unfold RWn. rewrite RW_emit, (Hstep dbg). unfold run_trace. cbn [fst snd].
      fold PWn. rewrite Hfl. reflexivity.
    - split; cbn [fst snd]; [exact HI1|]. unfold ek, el. rewrite Hreq.
      eapply P_mono; [exact Hoe|exact Hne| | |exact HP']; lia.
    - exact HW'.
  Qed.

  Lemma K_fin A u v u0 w g :
    Jn A u v u0 w -> Work A (snd w) g ->
    exists rs' ps' pl' D,
      emit RWn CFin w = Ok (rs', (ps', pl')) /\
      plain_cost pl' = plain_cost w0 + D /\
      2 * cmps_of pl' <=
      2 * cmps_of w0 + 2 * g + 12 * ((oe - os) + (ne - ns)) * D + 5 * ((oe - os) + (ne - ns)) + 10.
  Proof.
    destruct w as [rs sw]. intros [HI HP] HW. cbn [fst snd] in *.
    destruct (step_fin uc u v u0 rs HI) as (out & Hstep & _).
    destruct (step_fin_shape dbg _ _ _ (Hstep dbg)) as (o2 & Hout & Hch). subst out.
    destruct (PW_flush_work A u v u0 rs sw g HI HP HW) as ([ps' pl1] & Hfl & HP' & HW').
    destruct (PW_finish_work _ u v ps' pl1 g HP' HW') as (pl' & D & Hfin & Hcost & Hwork).
    exists rstate0, ps', pl', D. split; [|auto].
    unfold RWn. rewrite RW_emit, (Hstep dbg). unfold run_trace. cbn [fst snd]. fold PWn.
    rewrite emit_all_app, Hfl. cbn [bind].
    rewrite emit_all_app. unfold PWn at 1. rewrite (PW_changes _ _ _ _ _ _ _ _ Hch).
    cbn [bind emit_all]. fold PWn. rewrite Hfin. reflexivity.
  Qed.

  Lemma Work_tick A ps pl g k :
    Work A (ps, pl) g -> Work A (ps, tick (plain_world None) k pl) (g + k).
  Proof.
    intros (Dc & Hcost & Hcnt & Hwork). exists Dc. cbn [fst snd] in *.
    split; [exact Hcost|]. split; [exact Hcnt|].
    change (cmps_of (tick (plain_world None) k pl)) with (cmps_of pl + k). lia.
  Qed.

  Lemma Respects_K : Respects GWn uc K.
  Proof.
    split.
    - intros u v u0 [g w] b gw' HK Hp. unfold GWn in Hp.
      cbn [probe tick_ghost fst snd] in Hp. rewrite RWn_probe in Hp. cbn [fst snd] in Hp.
      inversion Hp; subst. exact HK.
    - intros u v u0 [g [rs [ps pl]]] k (A & HJ & HW). cbn [fst snd] in *.
      exists A. split.
      + exact (proj1 (J_tick None dbg cmp uo un os oe ns ne w0 A u v u0 _ k HJ)).
      + cbn [fst snd]. apply Work_tick. exact HW.
    - intros u v u0 [g [rs sw]] l [g' [rs' sw']] (A & HJ & HW) Hl Hseg He. cbn [fst snd] in *.
      apply ghost_emit_inv in He. destruct He as [-> He].
      destruct (J_eq None dbg cmp uo un os oe ns ne w0 A u v u0 _ l HJ Hl Hseg)
        as (w'' & He' & HJ' & _).
      fold RWn in He'. rewrite He in He'. inversion He'; subst w''.
      exists A. split; [exact HJ'|]. cbn [fst snd].
      rewrite (RWn_emit_eq _ _ _ _ _ _ _ He). exact HW.
    - intros u v u0 [g w] l [g' w'] (A & HJ & HW) Hl He. cbn [fst snd] in *.
      apply ghost_emit_inv in He. destruct He as [-> He].
      destruct (K_del A u v u0 w l g HJ HW Hl) as (w'' & He' & HJ' & HW').
      rewrite He in He'. inversion He'; subst w''.
      eexists. split; [exact HJ'|exact HW'].
    - intros u v u0 [g w] o l [g' w'] (A & HJ & HW) Hl Ho1 Ho2 He. cbn [fst snd] in *.
      apply ghost_emit_inv in He. destruct He as [-> He].
      destruct (K_ins A u v u0 w o l g HJ HW Hl Ho1 Ho2) as (w'' & He' & HJ' & HW').
      rewrite He in He'. inversion He'; subst w''.
      eexists. split; [exact HJ'|exact HW'].
  Qed.

  Lemma Asc_nth_lower (lst : list nat) s e :
    Asc lst -> (forall a x, nth_error lst a = Some x -> s <= x < e) ->
    forall a x, nth_error lst a = Some x -> s + a <= x.
  Proof.
    intros Ha Hr. induction a as [|a IH]; intros x Hx.
    - specialize (Hr _ _ Hx). lia.
    - destruct (nth_error lst a) as [y|] eqn:Ey.
      + specialize (IH y eq_refl). pose proof (Ha a (S a) y x ltac:(lia) Ey Hx). lia.
      + apply nth_error_None in Ey.
        assert (Hlt : S a < length lst) by (apply nth_error_Some; congruence). lia.
  Qed.

  Lemma Asc_length_le (lst : list nat) s e :
    Asc lst -> (forall a x, nth_error lst a = Some x -> s <= x < e) -> length lst <= e - s.
  Proof.
    intros Ha Hr. destruct (length lst) as [|n] eqn:El; [lia|].
    destruct (nth_error lst n) as [x|] eqn:Ex.
    - pose proof (Asc_nth_lower lst s e Ha Hr n x Ex). specialize (Hr _ _ Ex). lia.
    - apply nth_error_None in Ex. lia.
  Qed.

  (* the whole run, any total oracles: the outer run pays for Du, the optimal
     cost of the box of the two unique lists *)
  Lemma outer_work rs' ps' w1 Du :
    BoxCost uc 0 (length uo) 0 (length un) Du ->
    myers_diff RWn uc 0 (length uo) 0 (length un) (start os ns w0) = Ok (rs', (ps', w1)) ->
    exists D,
      plain_cost w1 = plain_cost w0 + D /\
      2 * cmps_of w1 <=
      2 * cmps_of w0 + 12 * ((oe - os) + (ne - ns)) * D + 12 * ((oe - os) + (ne - ns)) * Du
      + 7 * ((oe - os) + (ne - ns)) + 14.
  Proof.
    intros HDu H.
    destruct (myers_ghost_lift RWn uc 0 (length uo) 0 (length un) _ _ 0 H) as [g' Hg].
    fold GWn in Hg.
    assert (Htu : CmpTotal uc 0 (length uo) 0 (length un))
      by (apply (CmpTotal_ucmp cmp uo un os oe ns ne); assumption).
    pose proof (myers_work GWn fst uc 0 (length uo) 0 (length un) _ _ Du
                  (CountResp_ghost RWn)
                  (NoDeadline_ghost RWn (RW_no_deadline dbg cmp uo un oe ne))
                  (Nat.le_0_l _) (Nat.le_0_l _) Htu HDu Hg) as Hgw.
    cbn [fst] in Hgw.
    destruct (myers_respects GWn uc K 0 (length uo) 0 (length un) _ _ Respects_K
                (snake_spec _ GWn uc) (Nat.le_0_l _) (Nat.le_0_l _) Htu K_init Hg)
      as ([g'' w2] & u0 & _ & (A & HJ & HW) & Hfin).
    cbn [fst snd] in *.
    apply ghost_emit_inv in Hfin. destruct Hfin as [Eg Hfin]. subst g''.
    destruct (K_fin A _ _ u0 w2 g' HJ HW) as (rs2 & ps2 & pl2 & D & Hfin' & Hcost & Hwork).
    rewrite Hfin' in Hfin. inversion Hfin; subst rs2 ps2 pl2.
    exists D. split; [exact Hcost|].
    pose proof (Asc_length_le uo os oe Huo Huo_r) as Hlo.
    pose proof (Asc_length_le un ns ne Hun Hun_r) as Hln.
    rewrite !Nat.sub_0_r in Hgw.
    set (T := (oe - os) + (ne - ns)) in *.
    assert (Hm : 6 * (length uo + length un) * Du <= 6 * T * Du)
      by (apply Nat.mul_le_mono_r; unfold T; lia).
    assert (Hu : length uo + length un <= T) by (unfold T; lia).
    lia.
  Qed.
End Work.

(* any total oracles: [raw_trace] form *)
Theorem patience_work_split dbg orc os oe ns ne calls c uo un Du :
  os <= oe -> ns <= ne -> CmpTotal (o_on orc) os oe ns ne ->
  raw_trace Patience None dbg orc os oe ns ne = Ok (calls, c) ->
  unique (o_oo orc) os oe = Ok uo -> unique (o_nn orc) ns ne = Ok un ->
  BoxCost (unique_cmp (o_on orc) uo un) 0 (length uo) 0 (length un) Du ->
  2 * cmps c <=
  12 * ((oe - os) + (ne - ns)) * calls_cost calls + 12 * ((oe - os) + (ne - ns)) * Du
  + 7 * ((oe - os) + (ne - ns)) + 14.
Proof.
  intros Hoe Hne Htot H Huo Hun HDu. unfold raw_trace in H.
  apply bind_Ok_inv in H. destruct H as (w1 & Hd & H). inversion H; subst calls c. clear H.
  cbn [diff_deadline] in Hd. unfold patience_diff in Hd. rewrite Huo, Hun in Hd.
  cbn [bind] in Hd.
  apply bind_Ok_inv in Hd. destruct Hd as ([rs' [ps' w1']] & Hm & Hd).
  inversion Hd; subst w1'. clear Hd.
  destruct (unique_asc _ os oe uo Huo) as [Ha1 Hr1].
  destruct (unique_asc _ ns ne un Hun) as [Ha2 Hr2].
  destruct (outer_work dbg (o_on orc) uo un os oe ns ne plain0 Hoe Hne Htot Ha1 Ha2 Hr1 Hr2
              rs' ps' w1 Du HDu Hm) as (D & Hcost & Hwork).
  unfold plain_cost in Hcost. cbn [plain_calls plain0 p_log rev] in Hcost.
  change (calls_cost []) with 0 in Hcost. cbn [Nat.add] in Hcost.
  change (cmps_of plain0) with 0 in Hwork. unfold cmps_of in Hwork.
  change (rev (p_log w1)) with (plain_calls w1) in Hcost. rewrite Hcost. lia.
Qed.

(* ================================================================ Part 5 *)
(* ---- lists: counting by injections ---- *)
Definition inb (x : nat) (l : list nat) : bool := existsb (Nat.eqb x) l.

Lemma inb_In x l : inb x l = true <-> In x l.
Proof.
  unfold inb. rewrite existsb_exists. split.
  - intros (y & Hy & E). apply Nat.eqb_eq in E. now subst.
  - intros H. exists x. split; [exact H|apply Nat.eqb_refl].
Qed.

Lemma inb_false x l : inb x l = false <-> ~ In x l.
Proof.
  rewrite <- inb_In. destruct (inb x l); split; intros H; try congruence;
    try (exfalso; apply H; reflexivity).
Qed.

Lemma filter_split_length {A} (f : A -> bool) l :
  length (filter f l) + length (filter (fun x => negb (f x)) l) = length l.
Proof.
  induction l as [|x l IH]; cbn [filter length]; [reflexivity|].
  destruct (f x); cbn [negb length]; lia.
Qed.

Lemma filter_and_length {A} (f g : A -> bool) l :
  length (filter f l) =
  length (filter (fun x => f x && g x) l) + length (filter (fun x => f x && negb (g x)) l).
Proof.
  induction l as [|x l IH]; cbn [filter length]; [reflexivity|].
  destruct (f x), (g x); cbn [andb negb length]; lia.
Qed.

Lemma filter_map_length {A B} (f : B -> bool) (h : A -> B) l :
  length (filter f (map h l)) = length (filter (fun x => f (h x)) l).
Proof.
  induction l as [|x l IH]; cbn [map filter length]; [reflexivity|].
  destruct (f (h x)); cbn [length]; lia.
Qed.

Lemma NoDup_map_on {A B} (f : A -> B) l :
  NoDup l -> (forall x y, In x l -> In y l -> f x = f y -> x = y) -> NoDup (map f l).
Proof.
  induction 1 as [|x l Hnin Hnd IH]; intros Hinj; cbn [map]; constructor.
  - intros Hin. apply in_map_iff in Hin. destruct Hin as (y & Ey & Hy).
    assert (y = x) by (apply Hinj; [now right|now left|exact Ey]). subst y. contradiction.
  - apply IH. intros a b Ha Hb. apply Hinj; now right.
Qed.

Lemma NoDup_app_intro {A} (a b : list A) :
  NoDup a -> NoDup b -> (forall x, In x a -> In x b -> False) -> NoDup (a ++ b).
Proof.
  induction 1 as [|x a Hnin Hnd IH]; intros Hb Hdis; cbn [app]; [exact Hb|].
  constructor.
  - intros Hin. apply in_app_or in Hin. destruct Hin as [Hin|Hin]; [contradiction|].
    apply (Hdis x); [now left|exact Hin].
  - apply IH; [exact Hb|]. intros y Hy. apply Hdis. now right.
Qed.

Lemma NoDup_same_length {A} (a b : list A) :
  NoDup a -> NoDup b -> (forall x, In x a <-> In x b) -> length a = length b.
Proof.
  intros Ha Hb H.
  apply Nat.le_antisymm; apply NoDup_incl_length; try assumption; intros x Hx; apply H; exact Hx.
Qed.

Lemma NoDup_map_filter {A B} (key : A -> B) (f : A -> bool) l :
  NoDup (map key l) -> NoDup (map key (filter f l)).
Proof.
  induction l as [|x l IH]; cbn [map filter]; intros H; [constructor|].
  inversion H as [|? ? Hnin Hnd]; subst.
  destruct (f x); cbn [map]; [|now apply IH].
  constructor; [|now apply IH].
  intros Hin. apply Hnin. apply in_map_iff in Hin. destruct Hin as (y & Ey & Hy).
  apply filter_In in Hy. apply in_map_iff. exists y. split; [exact Ey|apply Hy].
Qed.

(* the elements of l that occur as keys of m, counted on either side *)
Lemma matched_count {A} (key : A -> nat) (l : list nat) (m : list A) :
  NoDup l -> NoDup (map key m) ->
  length (filter (fun p => inb p (map key m)) l) = length (filter (fun x => inb (key x) l) m).
Proof.
  intros Hl Hm.
  rewrite <- (map_length key (filter (fun x => inb (key x) l) m)).
  apply NoDup_same_length.
  - now apply NoDup_filter.
  - now apply NoDup_map_filter.
  - intros p. rewrite filter_In, in_map_iff. split.
    + intros [Hp Hk]. apply inb_In in Hk. apply in_map_iff in Hk. destruct Hk as (x & Ex & Hx).
      exists x. split; [exact Ex|]. apply filter_In. split; [exact Hx|].
      apply inb_In. now rewrite Ex.
    + intros (x & Ex & Hx). apply filter_In in Hx. destruct Hx as [Hx Hk]. apply inb_In in Hk.
      rewrite Ex in Hk. split; [exact Hk|]. apply inb_In. apply in_map_iff. exists x. auto.
Qed.

(* the positions of a range that are not keys *)
Lemma free_count (keys : list nat) s len :
  NoDup keys -> (forall k, In k keys -> s <= k < s + len) ->
  length (filter (fun p => negb (inb p keys)) (seq s len)) + length keys = len.
Proof.
  intros Hnd Hr.
  pose proof (filter_split_length (fun p => inb p keys) (seq s len)) as H.
  rewrite seq_length in H.
  assert (E : length (filter (fun p => inb p keys) (seq s len)) = length keys).
  { apply NoDup_same_length; [apply NoDup_filter; apply seq_NoDup|exact Hnd|].
    intros x. rewrite filter_In, in_seq, inb_In. split; [tauto|].
    intros Hx. split; [apply Hr; exact Hx|exact Hx]. }
  lia.
Qed.

(* ---- one side: unmatched unique new items and pairs (unique old item,
   non-unique new item) inject into the unmatched new positions ---- *)
Definition hitb (same : cmpf) (j k : nat) : bool :=
  match same j k with Ok true => true | _ => false end.

Section OneSide.
  Variables cmp oo nn : cmpf.
  Variables os oe ns ne : nat.
  Variables uo un : list nat.
  Variable m : list (nat * nat).
  Hypothesis Huo : forall p, In p uo ->
      forall p', os <= p' < oe -> oo p p' = Ok true -> p' = p.
  Hypothesis Hun : forall j, In j un <->
      ns <= j < ne /\ forall j', ns <= j' < ne -> nn j j' = Ok true -> j' = j.
  Hypothesis Hun_nd : NoDup un.
  Hypothesis Hm_nd : NoDup m.
  Hypothesis Hm_ok : forall p j, In (p, j) m -> os <= p < oe /\ ns <= j < ne /\ cmp p j = Ok true.
  Hypothesis Hm_fun : forall p j p' j', In (p, j) m -> In (p', j') m -> (p = p' <-> j = j').
  Hypothesis Hc_on_n : forall p j j', os <= p < oe -> ns <= j < ne -> ns <= j' < ne ->
      nn j j' = Ok true -> cmp p j = Ok true -> cmp p j' = Ok true.
  Hypothesis Hc_oo : forall p p' j, os <= p < oe -> os <= p' < oe -> ns <= j < ne ->
      cmp p j = Ok true -> cmp p' j = Ok true -> oo p p' = Ok true.
  Hypothesis Hc_nn : forall p j j', os <= p < oe -> ns <= j < ne -> ns <= j' < ne ->
      cmp p j = Ok true -> cmp p j' = Ok true -> nn j j' = Ok true.

  (* another position of the new range holding the same item as j *)
  Definition other_copy (j : nat) : nat :=
    match find (fun k => negb (k =? j) && hitb nn j k) (seq ns (ne - ns)) with
    | Some k => k
    | None => j
    end.

  Lemma other_copy_spec j :
    ns <= j < ne -> ~ In j un -> ns <= other_copy j < ne /\ other_copy j <> j /\ nn j (other_copy j) = Ok true.
  Proof.
    intros Hj Hnin. unfold other_copy.
    destruct (find (fun k => negb (k =? j) && hitb nn j k) (seq ns (ne - ns))) as [k|] eqn:E.
    - apply find_some in E. destruct E as [Hin Hk]. apply in_seq in Hin.
      apply andb_true_iff in Hk. destruct Hk as [H1 H2].
      apply negb_true_iff, Nat.eqb_neq in H1. unfold hitb in H2.
      split; [lia|]. split; [exact H1|].
      destruct (nn j k) as [[|]| |]; try discriminate. reflexivity.
    - exfalso. apply Hnin. apply Hun. split; [exact Hj|]. intros j' Hj' Hs.
      pose proof (find_none _ _ E j') as Hn. cbn beta in Hn.
      rewrite in_seq in Hn. specialize (Hn ltac:(lia)).
      unfold hitb in Hn. rewrite Hs, andb_true_r in Hn.
      apply negb_false_iff, Nat.eqb_eq in Hn. exact Hn.
  Qed.

  Definition unm (j : nat) : bool := negb (inb j (map snd m)).
  Definition sel_un (pj : nat * nat) : bool := inb (fst pj) uo && negb (inb (snd pj) un).

  Lemma one_side :
    length (filter unm un) + length (filter sel_un m) <=
    length (filter unm (seq ns (ne - ns))).
  Proof.
    assert (Hfacts : forall p j, In (p, j) (filter sel_un m) ->
       os <= p < oe /\ ns <= j < ne /\ ns <= other_copy j < ne /\ other_copy j <> j /\
       cmp p j = Ok true /\ cmp p (other_copy j) = Ok true /\ In p uo /\ In (p, j) m).
    { intros p j H. apply filter_In in H. destruct H as [Hin Hs].
      unfold sel_un in Hs. cbn [fst snd] in Hs.
      apply andb_true_iff in Hs. destruct Hs as [H1 H2]. apply inb_In in H1.
      apply negb_true_iff, inb_false in H2.
      destruct (Hm_ok p j Hin) as (Hpr & Hjr & Hc).
      destruct (other_copy_spec j Hjr H2) as (Hcr & Hne & Hs).
      repeat split; try assumption; try lia.
      exact (Hc_on_n p j (other_copy j) Hpr Hjr Hcr Hs Hc). }
    rewrite <- (map_length (fun pj => other_copy (snd pj)) (filter sel_un m)).
    rewrite <- app_length. apply NoDup_incl_length.
    - apply NoDup_app_intro.
      + apply NoDup_filter. exact Hun_nd.
      + apply NoDup_map_on; [apply NoDup_filter; exact Hm_nd|].
        intros [p1 j1] [p2 j2] H1 H2 E. cbn [snd] in E.
        destruct (Hfacts p1 j1 H1) as (Hp1 & Hj1 & Hc1 & Hn1 & Hm1 & Hk1 & Hu1 & Hi1).
        destruct (Hfacts p2 j2 H2) as (Hp2 & Hj2 & Hc2 & Hn2 & Hm2 & Hk2 & Hu2 & Hi2).
        rewrite <- E in Hk2.
        assert (p2 = p1).
        { apply (Huo p1 Hu1 p2 Hp2). exact (Hc_oo p1 p2 (other_copy j1) Hp1 Hp2 Hc1 Hk1 Hk2). }
        subst p2.
        assert (j1 = j2) by (apply (Hm_fun p1 j1 p1 j2 Hi1 Hi2); reflexivity).
        now subst.
      + intros x Hx1 Hx2. apply filter_In in Hx1. destruct Hx1 as [Hxu _].
        apply in_map_iff in Hx2. destruct Hx2 as ([p j] & Ex & Hpj). cbn [snd] in Ex.
        destruct (Hfacts p j Hpj) as (Hp & Hj & Hc & Hn & Hm1 & Hk & Hu & Hi).
        subst x. apply Hun in Hxu. destruct Hxu as [_ Hxu]. apply Hn. symmetry.
        apply Hxu; [exact Hj|]. exact (Hc_nn p (other_copy j) j Hp Hc Hj Hk Hm1).
    - intros x Hx. apply in_app_or in Hx. apply filter_In. destruct Hx as [Hx|Hx].
      + apply filter_In in Hx. destruct Hx as [Hxu Hxm]. split; [|exact Hxm].
        apply Hun in Hxu. apply in_seq. lia.
      + apply in_map_iff in Hx. destruct Hx as ([p j] & Ex & Hpj). cbn [snd] in Ex.
        destruct (Hfacts p j Hpj) as (Hp & Hj & Hc & Hn & Hm1 & Hk & Hu & Hi). subst x.
        split; [apply in_seq; lia|]. unfold unm. apply negb_true_iff, inb_false. intros Hin.
        apply in_map_iff in Hin. destruct Hin as ([p' k] & Ek & Hpk). cbn [snd] in Ek. subst k.
        destruct (Hm_ok p' (other_copy j) Hpk) as (Hp' & _ & Hc').
        assert (p' = p).
        { apply (Huo p Hu p' Hp'). exact (Hc_oo p p' (other_copy j) Hp Hp' Hc Hk Hc'). }
        subst p'. apply Hn. symmetry. apply (Hm_fun p j p (other_copy j) Hi Hpk). reflexivity.
  Qed.
End OneSide.

Definition swap_pair (pj : nat * nat) : nat * nat := (snd pj, fst pj).

(* ---- both sides ---- *)
Section Count.
  Variables cmp oo nn : cmpf.
  Variables os oe ns ne : nat.
  Variables uo un : list nat.
  Variable m : list (nat * nat).
  Hypothesis Hoe : os <= oe.
  Hypothesis Hne : ns <= ne.
  Hypothesis Huo : forall p, In p uo <->
      os <= p < oe /\ forall p', os <= p' < oe -> oo p p' = Ok true -> p' = p.
  Hypothesis Hun : forall j, In j un <->
      ns <= j < ne /\ forall j', ns <= j' < ne -> nn j j' = Ok true -> j' = j.
  Hypothesis Huo_nd : NoDup uo.
  Hypothesis Hun_nd : NoDup un.
  Hypothesis Hm_nd : NoDup m.
  Hypothesis Hm_ok : forall p j, In (p, j) m -> os <= p < oe /\ ns <= j < ne /\ cmp p j = Ok true.
  Hypothesis Hm_fun : forall p j p' j', In (p, j) m -> In (p', j') m -> (p = p' <-> j = j').
  Hypothesis Hc_on_o : forall p p' j, os <= p < oe -> os <= p' < oe -> ns <= j < ne ->
      oo p p' = Ok true -> cmp p j = Ok true -> cmp p' j = Ok true.
  Hypothesis Hc_on_n : forall p j j', os <= p < oe -> ns <= j < ne -> ns <= j' < ne ->
      nn j j' = Ok true -> cmp p j = Ok true -> cmp p j' = Ok true.
  Hypothesis Hc_oo : forall p p' j, os <= p < oe -> os <= p' < oe -> ns <= j < ne ->
      cmp p j = Ok true -> cmp p' j = Ok true -> oo p p' = Ok true.
  Hypothesis Hc_nn : forall p j j', os <= p < oe -> ns <= j < ne -> ns <= j' < ne ->
      cmp p j = Ok true -> cmp p j' = Ok true -> nn j j' = Ok true.

  (* pairs joining two unique items *)
  Definition sel_uu (pj : nat * nat) : bool := inb (fst pj) uo && inb (snd pj) un.

  Lemma NoDup_fst_m : NoDup (map fst m).
  Proof.
    apply NoDup_map_on; [exact Hm_nd|]. intros [p j] [p' j'] H1 H2 E. cbn [fst] in E. subst p'.
    f_equal. apply (Hm_fun p j p j' H1 H2). reflexivity.
  Qed.

  Lemma NoDup_snd_m : NoDup (map snd m).
  Proof.
    apply NoDup_map_on; [exact Hm_nd|]. intros [p j] [p' j'] H1 H2 E. cbn [snd] in E. subst j'.
    f_equal. apply (Hm_fun p j p' j H1 H2). reflexivity.
  Qed.

  Theorem count_ineq :
    length uo + length un + 2 * length m <=
    (oe - os) + (ne - ns) + 2 * length (filter sel_uu m).
  Proof.
    (* unique items: matched + unmatched *)
    pose proof (filter_split_length (fun p => inb p (map fst m)) uo) as Ho.
    pose proof (filter_split_length (fun j => inb j (map snd m)) un) as Hn.
    (* matched unique items = pairs with a unique item *)
    pose proof (matched_count fst uo m Huo_nd NoDup_fst_m) as Mo.
    pose proof (matched_count snd un m Hun_nd NoDup_snd_m) as Mn.
    pose proof (filter_and_length (fun pj : nat * nat => inb (fst pj) uo)
                  (fun pj => inb (snd pj) un) m) as So.
    pose proof (filter_and_length (fun pj : nat * nat => inb (snd pj) un)
                  (fun pj => inb (fst pj) uo) m) as Sn.
    assert (Euu : length (filter (fun pj : nat * nat => inb (snd pj) un && inb (fst pj) uo) m) =
                  length (filter sel_uu m)).
    { f_equal. apply filter_ext. intros pj. unfold sel_uu. apply andb_comm. }
    (* free positions *)
    pose proof (free_count (map fst m) os (oe - os) NoDup_fst_m) as Fo.
    pose proof (free_count (map snd m) ns (ne - ns) NoDup_snd_m) as Fn.
    rewrite map_length in Fo, Fn.
    assert (Fo' : length (filter (fun p => negb (inb p (map fst m))) (seq os (oe - os))) +
                  length m = oe - os).
    { apply Fo. intros k Hk. apply in_map_iff in Hk. destruct Hk as ([p j] & E & Hin).
      cbn [fst] in E. subst k. destruct (Hm_ok p j Hin) as (H1 & _). lia. }
    assert (Fn' : length (filter (fun p => negb (inb p (map snd m))) (seq ns (ne - ns))) +
                  length m = ne - ns).
    { apply Fn. intros k Hk. apply in_map_iff in Hk. destruct Hk as ([p j] & E & Hin).
      cbn [snd] in E. subst k. destruct (Hm_ok p j Hin) as (_ & H1 & _). lia. }
    (* the two injections *)
    pose proof (one_side cmp oo nn os oe ns ne uo un m
                  (fun p Hp => proj2 (proj1 (Huo p) Hp)) Hun Hun_nd Hm_nd Hm_ok Hm_fun
                  Hc_on_n Hc_oo Hc_nn) as In_.
    assert (Io : length (filter (fun p => negb (inb p (map fst m))) uo) +
                 length (filter (fun pj : nat * nat => inb (snd pj) un && negb (inb (fst pj) uo)) m)
                 <= length (filter (fun p => negb (inb p (map fst m))) (seq os (oe - os)))).
    { pose proof (one_side (fun j p => cmp p j) nn oo ns ne os oe un uo (map swap_pair m)
                    (fun j Hj => proj2 (proj1 (Hun j) Hj)) Huo Huo_nd) as H.
      unfold unm, sel_un in H. rewrite filter_map_length in H.
      rewrite map_map in H. cbn [swap_pair snd fst] in H.
      apply H; clear H.
      - apply NoDup_map_on; [exact Hm_nd|]. intros [p j] [p' j'] _ _ E.
        unfold swap_pair in E. cbn [fst snd] in E. inversion E. reflexivity.
      - intros j p Hin. apply in_map_iff in Hin. destruct Hin as ([p' j'] & E & Hin).
        unfold swap_pair in E. cbn [fst snd] in E. inversion E; subst.
        destruct (Hm_ok p j Hin) as (H1 & H2 & H3). auto.
      - intros j p j' p' H1 H2.
        apply in_map_iff in H1. destruct H1 as ([p1 j1] & E1 & H1).
        apply in_map_iff in H2. destruct H2 as ([p2 j2] & E2 & H2).
        unfold swap_pair in E1, E2. cbn [fst snd] in E1, E2. inversion E1; inversion E2; subst.
        pose proof (Hm_fun p j p' j' H1 H2). tauto.
      - intros j p p' Hj Hp Hp' Hs Hc. exact (Hc_on_o p p' j Hp Hp' Hj Hs Hc).
      - intros j j' p Hj Hj' Hp Hc Hc'. exact (Hc_nn p j j' Hp Hj Hj' Hc Hc').
      - intros j p p' Hj Hp Hp' Hc Hc'. exact (Hc_oo p p' j Hp Hp' Hj Hc Hc'). }
    unfold unm, sel_un in In_. unfold sel_uu in *. cbv beta in Ho, Hn, So, Sn.
    lia.
  Qed.
End Count.

(* ---- position of an item in an ascending list ---- *)
Definition posn (l : list nat) (x : nat) : nat := length (filter (fun y => y <? x) l).

Lemma posn_cons a l x : posn (a :: l) x = (if a <? x then S (posn l x) else posn l x).
Proof. unfold posn. cbn [filter]. destruct (a <? x); reflexivity. Qed.

Lemma posn_mono l x y : x <= y -> posn l x <= posn l y.
Proof.
  intros Hxy. induction l as [|a l IH]; [reflexivity|]. rewrite !posn_cons.
  destruct (a <? x) eqn:E1; destruct (a <? y) eqn:E2; try lia.
  apply Nat.ltb_lt in E1. apply Nat.ltb_ge in E2. lia.
Qed.

Lemma posn_zero l x : (forall y, In y l -> x <= y) -> posn l x = 0.
Proof.
  induction l as [|a l IH]; intros H; [reflexivity|]. rewrite posn_cons.
  destruct (a <? x) eqn:E.
  - apply Nat.ltb_lt in E. specialize (H a (or_introl eq_refl)). lia.
  - apply IH. intros y Hy. apply H. now right.
Qed.

Lemma posn_nth l x : StronglySorted lt l -> In x l -> nth_error l (posn l x) = Some x.
Proof.
  intros Hs. induction Hs as [|a l Hs IH Hall]; intros Hin; [destruct Hin|].
  rewrite Forall_forall in Hall. rewrite posn_cons. destruct Hin as [->|Hin].
  - rewrite Nat.ltb_irrefl. rewrite posn_zero; [reflexivity|].
    intros y Hy. specialize (Hall y Hy). lia.
  - pose proof (Hall x Hin) as Hax. apply Nat.ltb_lt in Hax. rewrite Hax.
    cbn [nth_error]. now apply IH.
Qed.

Lemma posn_S l x : StronglySorted lt l -> In x l -> posn l (S x) = S (posn l x).
Proof.
  intros Hs. induction Hs as [|a l Hs IH Hall]; intros Hin; [destruct Hin|].
  rewrite Forall_forall in Hall. rewrite !posn_cons. destruct Hin as [->|Hin].
  - rewrite Nat.ltb_irrefl. assert (E : x <? S x = true) by (apply Nat.ltb_lt; lia).
    rewrite E. rewrite !posn_zero; [reflexivity| |]; intros y Hy; specialize (Hall y Hy); lia.
  - pose proof (Hall x Hin) as Hax.
    assert (E1 : a <? x = true) by (apply Nat.ltb_lt; lia).
    assert (E2 : a <? S x = true) by (apply Nat.ltb_lt; lia).
    rewrite E1, E2. now rewrite IH.
Qed.

Lemma posn_lt l x : StronglySorted lt l -> In x l -> posn l x < length l.
Proof.
  intros Hs Hin. apply nth_error_Some. rewrite (posn_nth l x Hs Hin). discriminate.
Qed.

Lemma StronglySorted_lt_NoDup l : StronglySorted lt l -> NoDup l.
Proof.
  induction 1 as [|a l Hs IH Hall]; constructor; [|exact IH].
  rewrite Forall_forall in Hall. intros Hin. specialize (Hall a Hin). lia.
Qed.

(* ---- the pairs of a common subsequence joining two unique items form a
   common subsequence of the two unique lists ---- *)
Section UU.
  Variable cmp : cmpf.
  Variables uo un : list nat.
  Variables oe ne : nat.
  Hypothesis Hso : StronglySorted lt uo.
  Hypothesis Hsn : StronglySorted lt un.

  Definition ipair (pj : nat * nat) : nat * nat := (posn uo (fst pj), posn un (snd pj)).

  Lemma uu_common m : forall s t,
    CommonSub cmp oe ne s t m ->
    CommonSub (unique_cmp cmp uo un) (length uo) (length un) (posn uo s) (posn un t)
              (map ipair (filter (sel_uu uo un) m)).
  Proof.
    intros s t H. induction H as [s t|s t i j m' H1 H2 H3 H4 H5 H6 IH]; cbn [filter map].
    - apply CSub_nil.
    - unfold sel_uu at 1. cbn [fst snd].
      destruct (inb i uo) eqn:Ei; destruct (inb j un) eqn:Ej; cbn [andb map];
        try (eapply CommonSub_lower; [exact IH|apply posn_mono; lia|apply posn_mono; lia]).
      apply inb_In in Ei. apply inb_In in Ej.
      unfold ipair at 1. cbn [fst snd]. apply CSub_cons.
      + apply posn_mono. exact H1.
      + now apply posn_lt.
      + apply posn_mono. exact H3.
      + now apply posn_lt.
      + unfold unique_cmp. rewrite (posn_nth uo i Hso Ei), (posn_nth un j Hsn Ej). exact H5.
      + rewrite <- (posn_S uo i Hso Ei), <- (posn_S un j Hsn Ej). exact IH.
  Qed.
End UU.

Lemma CommonSub_facts cmp oe ne m : forall s t,
  CommonSub cmp oe ne s t m ->
  (forall p j, In (p, j) m -> s <= p < oe /\ t <= j < ne /\ cmp p j = Ok true) /\
  NoDup m /\
  (forall p j p' j', In (p, j) m -> In (p', j') m -> (p = p' <-> j = j')).
Proof.
  intros s t H. induction H as [s t|s t i j m' H1 H2 H3 H4 H5 H6 IH].
  - split; [intros p j []|]. split; [constructor|intros p j p' j' []].
  - destruct IH as (Hok & Hnd & Hfun). split; [|split].
    + intros p j0 [E|Hin].
      * inversion E; subst. repeat split; try lia. exact H5.
      * destruct (Hok p j0 Hin) as (Hp & Hj & Hc). repeat split; try lia. exact Hc.
    + constructor; [|exact Hnd]. intros Hin. destruct (Hok i j Hin) as (Hp & _). lia.
    + intros p j0 p' j' [E|Hin] [E'|Hin'].
      * inversion E; inversion E'; subst. split; reflexivity.
      * inversion E; subst. destruct (Hok p' j' Hin') as (Hp & Hj & _). split; intros; lia.
      * inversion E'; subst. destruct (Hok p j0 Hin) as (Hp & Hj & _). split; intros; lia.
      * exact (Hfun p j0 p' j' Hin Hin').
Qed.

(* ---- the three oracles behave like the equality of item values ---- *)
Record Consistent (orc : oracles) (os oe ns ne : nat) : Prop := {
  co_oo_total : SameTotal (o_oo orc) os oe;
  co_nn_total : SameTotal (o_nn orc) ns ne;
  co_oo_refl : forall i, os <= i < oe -> o_oo orc i i = Ok true;
  co_nn_refl : forall j, ns <= j < ne -> o_nn orc j j = Ok true;
  co_on_o : forall i i' j, os <= i < oe -> os <= i' < oe -> ns <= j < ne ->
      o_oo orc i i' = Ok true -> o_on orc i j = Ok true -> o_on orc i' j = Ok true;
  co_on_n : forall i j j', os <= i < oe -> ns <= j < ne -> ns <= j' < ne ->
      o_nn orc j j' = Ok true -> o_on orc i j = Ok true -> o_on orc i j' = Ok true;
  co_oo : forall i i' j, os <= i < oe -> os <= i' < oe -> ns <= j < ne ->
      o_on orc i j = Ok true -> o_on orc i' j = Ok true -> o_oo orc i i' = Ok true;
  co_nn : forall i j j', os <= i < oe -> ns <= j < ne -> ns <= j' < ne ->
      o_on orc i j = Ok true -> o_on orc i j' = Ok true -> o_nn orc j j' = Ok true
}.

(* any common subsequence of old/new against the LCS of the unique lists *)
Theorem unique_lcs_ineq orc os oe ns ne uo un m Lu :
  os <= oe -> ns <= ne -> Consistent orc os oe ns ne ->
  unique (o_oo orc) os oe = Ok uo -> unique (o_nn orc) ns ne = Ok un ->
  CommonSub (o_on orc) oe ne os ns m ->
  IsLcsLen (unique_cmp (o_on orc) uo un) 0 (length uo) 0 (length un) Lu ->
  length uo + length un + 2 * length m <= (oe - os) + (ne - ns) + 2 * Lu.
Proof.
  intros Hoe Hne HC Huo Hun Hm [_ Hmax].
  destruct (unique_spec _ os oe uo Huo) as (Hso & Hro & _).
  destruct (unique_spec _ ns ne un Hun) as (Hsn & Hrn & _).
  pose proof (unique_once _ os oe uo Huo (co_oo_total _ _ _ _ _ HC) (co_oo_refl _ _ _ _ _ HC))
    as Huo'.
  pose proof (unique_once _ ns ne un Hun (co_nn_total _ _ _ _ _ HC) (co_nn_refl _ _ _ _ _ HC))
    as Hun'.
  destruct (CommonSub_facts _ _ _ _ _ _ Hm) as (Hok & Hnd & Hfun).
  pose proof (count_ineq (o_on orc) (o_oo orc) (o_nn orc) os oe ns ne uo un m
                Hoe Hne Huo' Hun' (StronglySorted_lt_NoDup _ Hso) (StronglySorted_lt_NoDup _ Hsn)
                Hnd Hok Hfun
                (co_on_o _ _ _ _ _ HC) (co_on_n _ _ _ _ _ HC)
                (co_oo _ _ _ _ _ HC) (co_nn _ _ _ _ _ HC)) as Hcount.
  pose proof (uu_common (o_on orc) uo un oe ne Hso Hsn m os ns Hm) as Hcs.
  rewrite (posn_zero uo os) in Hcs by (intros y Hy; specialize (Hro y Hy); lia).
  rewrite (posn_zero un ns) in Hcs by (intros y Hy; specialize (Hrn y Hy); lia).
  apply Hmax in Hcs. rewrite map_length in Hcs. lia.
Qed.

(* the optimal cost of the box of the unique lists is at most the cost of any
   valid script for old/new *)
Theorem unique_cost_le_script orc os oe ns ne uo un Du cs :
  os <= oe -> ns <= ne -> Consistent orc os oe ns ne ->
  unique (o_oo orc) os oe = Ok uo -> unique (o_nn orc) ns ne = Ok un ->
  BoxCost (unique_cmp (o_on orc) uo un) 0 (length uo) 0 (length un) Du ->
  RawStrong (o_on orc) os oe ns ne cs ->
  Du <= calls_cost cs.
Proof.
  intros Hoe Hne HC Huo Hun HDu Hcs.
  pose proof (RawStrong_ops _ _ _ _ _ _ Hcs) as Hops. unfold OpsLoose in Hops.
  destruct (OpsWalk_sums _ _ _ _ _ _ _ Hops) as [Hs1 Hs2].
  destruct (OpsWalk_common _ _ _ _ _ _ _ Hops) as (m & Hm & Hlen).
  destruct (MinCost_gives_LCS _ _ _ _ _ _ HDu) as (Lu & HLu & Esum).
  pose proof (unique_lcs_ineq orc os oe ns ne uo un m Lu Hoe Hne HC Huo Hun Hm HLu) as H.
  rewrite !Nat.sub_0_r in Esum. unfold calls_cost. lia.
Qed.

(* ... and at most the optimal cost of old/new *)
Theorem unique_cost_le_opt orc os oe ns ne uo un Du D :
  os <= oe -> ns <= ne -> Consistent orc os oe ns ne ->
  unique (o_oo orc) os oe = Ok uo -> unique (o_nn orc) ns ne = Ok un ->
  BoxCost (unique_cmp (o_on orc) uo un) 0 (length uo) 0 (length un) Du ->
  BoxCost (o_on orc) os oe ns ne D ->
  Du <= D.
Proof.
  intros Hoe Hne HC Huo Hun HDu HD.
  destruct (MinCost_gives_LCS _ _ _ _ _ _ HDu) as (Lu & HLu & Esum).
  destruct (MinCost_gives_LCS _ _ _ _ _ _ HD) as (L & [[m [Hm Hlen]] _] & Esum').
  pose proof (unique_lcs_ineq orc os oe ns ne uo un m Lu Hoe Hne HC Huo Hun Hm HLu) as H.
  rewrite !Nat.sub_0_r in Esum. lia.
Qed.

(* ================================================================ Part 6 *)
Theorem patience_work_bound dbg orc os oe ns ne calls c :
  os <= oe -> ns <= ne -> CmpTotal (o_on orc) os oe ns ne ->
  Consistent orc os oe ns ne ->
  raw_trace Patience None dbg orc os oe ns ne = Ok (calls, c) ->
  cmps c <= 12 * ((oe - os) + (ne - ns) + 1) * (calls_cost calls + 1).
Proof.
  intros Hoe Hne Htot HC H.
  pose proof H as H'. unfold raw_trace in H'.
  apply bind_Ok_inv in H'. destruct H' as (w1 & Hd & H'). inversion H'; subst calls c. clear H'.
  cbn [diff_deadline] in Hd.
  destruct (patience_valid None dbg _ _ _ os oe ns ne plain0 w1 Hoe Hne Htot Hd)
    as (cs & Hcs & Hraw).
  cbn [plain_calls plain0 p_log rev app] in Hcs. fold (plain_calls w1) in Hcs. rewrite Hcs in *.
  unfold patience_diff in Hd.
  apply bind_Ok_inv in Hd. destruct Hd as (uo & Huo & Hd).
  apply bind_Ok_inv in Hd. destruct Hd as (un & Hun & _).
  destruct (BoxCost_exists (unique_cmp (o_on orc) uo un) 0 (length uo) 0 (length un))
    as [Du HDu].
  pose proof (patience_work_split dbg orc os oe ns ne _ _ uo un Du Hoe Hne Htot H Huo Hun HDu)
    as Hsplit.
  pose proof (unique_cost_le_script orc os oe ns ne uo un Du cs Hoe Hne HC Huo Hun HDu Hraw)
    as Hle.
  set (T := (oe - os) + (ne - ns)) in *. set (D := calls_cost cs) in *.
  assert (Hm : 12 * T * Du <= 12 * T * D) by (apply Nat.mul_le_mono_l; exact Hle).
  nia.
Qed.

(* items compared through a boolean equivalence on two lookups
   (= Model.TextDiff.oracles_of_items eqb old new) *)
Lemma Consistent_items {A} (eqb : A -> A -> bool) (old new : lookup A) os oe ns ne :
  (forall x, eqb x x = true) ->
  (forall x y, eqb x y = true -> eqb y x = true) ->
  (forall x y z, eqb x y = true -> eqb y z = true -> eqb x z = true) ->
  (forall i, os <= i < oe -> exists x, old i = Some x) ->
  (forall j, ns <= j < ne -> exists y, new j = Some y) ->
  Consistent {| o_on := cmp_of eqb old new; o_oo := cmp_same eqb old; o_nn := cmp_same eqb new |}
             os oe ns ne.
Proof.
  intros Hrefl Hsym Htrans Hold Hnew. split; cbn [o_on o_oo o_nn].
  - now apply SameTotal_cmp_same.
  - now apply SameTotal_cmp_same.
  - intros i Hi. unfold cmp_same. destruct (Hold i Hi) as [x ->]. now rewrite Hrefl.
  - intros j Hj. unfold cmp_same. destruct (Hnew j Hj) as [y ->]. now rewrite Hrefl.
  - intros i i' j Hi Hi' Hj. unfold cmp_same, cmp_of.
    destruct (Hold i Hi) as [x ->]. destruct (Hold i' Hi') as [x' ->].
    destruct (Hnew j Hj) as [y ->]. intros H1 H2. injection H1 as H1. injection H2 as H2.
    f_equal. eapply Htrans; eassumption.
  - intros i j j' Hi Hj Hj'. unfold cmp_same, cmp_of.
    destruct (Hold i Hi) as [x ->]. destruct (Hnew j Hj) as [y ->].
    destruct (Hnew j' Hj') as [y' ->]. intros H1 H2. injection H1 as H1. injection H2 as H2.
    f_equal. eapply Htrans; [apply Hsym; exact H1|exact H2].
  - intros i i' j Hi Hi' Hj. unfold cmp_same, cmp_of.
    destruct (Hold i Hi) as [x ->]. destruct (Hold i' Hi') as [x' ->].
    destruct (Hnew j Hj) as [y ->]. intros H1 H2. injection H1 as H1. injection H2 as H2.
    f_equal. eapply Htrans; [apply Hsym; exact H1|exact H2].
  - intros i j j' Hi Hj Hj'. unfold cmp_same, cmp_of.
    destruct (Hold i Hi) as [x ->]. destruct (Hnew j Hj) as [y ->].
    destruct (Hnew j' Hj') as [y' ->]. intros H1 H2. injection H1 as H1. injection H2 as H2.
    f_equal. eapply Htrans; [exact H1|apply Hsym; exact H2].
Qed.

Theorem patience_work_bound_items {A} (eqb : A -> A -> bool) (old new : lookup A)
        dbg os oe ns ne calls c :
  (forall x, eqb x x = true) ->
  (forall x y, eqb x y = true -> eqb y x = true) ->
  (forall x y z, eqb x y = true -> eqb y z = true -> eqb x z = true) ->
  os <= oe -> ns <= ne ->
  (forall i, os <= i < oe -> exists x, old i = Some x) ->
  (forall j, ns <= j < ne -> exists y, new j = Some y) ->
  raw_trace Patience None dbg
            {| o_on := cmp_of eqb old new; o_oo := cmp_same eqb old; o_nn := cmp_same eqb new |}
            os oe ns ne = Ok (calls, c) ->
  cmps c <= 12 * ((oe - os) + (ne - ns) + 1) * (calls_cost calls + 1).
Proof.
  intros Hrefl Hsym Htrans Hoe Hne Hold Hnew H.
  eapply (patience_work_bound dbg _ os oe ns ne calls c Hoe Hne); [| |exact H].
  - intros i j Hi Hj. cbn [o_on]. unfold cmp_of.
    destruct (Hold i Hi) as [x ->]. destruct (Hnew j Hj) as [y ->]. eauto.
  - now apply Consistent_items.
Qed.

(* two lists of numbers, whole ranges *)
Corollary patience_work_bound_nat (old new : list nat) dbg calls c :
  raw_trace Patience None dbg
            {| o_on := cmp_of Nat.eqb (slice_lookup old) (slice_lookup new);
               o_oo := cmp_same Nat.eqb (slice_lookup old);
               o_nn := cmp_same Nat.eqb (slice_lookup new) |}
            0 (length old) 0 (length new) = Ok (calls, c) ->
  cmps c <= 12 * (length old + length new + 1) * (calls_cost calls + 1).
Proof.
  intros H.
  pose proof (patience_work_bound_items Nat.eqb (slice_lookup old) (slice_lookup new) dbg
                0 (length old) 0 (length new) calls c Nat.eqb_refl) as Hb.
  rewrite !Nat.sub_0_r in Hb. apply Hb; try lia; try exact H.
  - intros x y E. apply Nat.eqb_eq in E. subst. apply Nat.eqb_refl.
  - intros x y z E1 E2. apply Nat.eqb_eq in E1. now subst.
  - intros i Hi. unfold slice_lookup. destruct (nth_error old i) eqn:E; [eauto|].
    apply nth_error_None in E. lia.
  - intros j Hj. unfold slice_lookup. destruct (nth_error new j) eqn:E; [eauto|].
    apply nth_error_None in E. lia.
Qed.

(* ---- a concrete pair (the one of patience.rs's test_patience): N = M = 11,
   anchors 1, 3 / 5 / 47 are not all common; D = 10, 147 comparisons ---- *)
Example patience_work_instance :
  let old := [11; 1; 2; 2; 3; 4; 4; 4; 5; 47; 19] in
  let new := [10; 1; 2; 2; 8; 9; 4; 4; 7; 47; 18] in
  let orc := {| o_on := cmp_of Nat.eqb (slice_lookup old) (slice_lookup new);
                o_oo := cmp_same Nat.eqb (slice_lookup old);
                o_nn := cmp_same Nat.eqb (slice_lookup new) |} in
  match raw_trace Patience None true orc 0 11 0 11 with
  | Ok (calls, c) =>
      calls_cost calls = 10 /\ cmps c = 147 /\ (147 <=? 12 * (11 + 11 + 1) * (10 + 1)) = true
  | _ => False
  end.
Proof. vm_compute. repeat split. Qed.

(* ---- the bound needs consistent oracles: total but inconsistent oo / nn
   (old = new = 0 1 2 ... 199 under o_on, but oo declares exactly the even
   old positions unique and nn exactly the odd new positions) make the outer
   run diff two lists of 100 items without common item, 10401 comparisons,
   while the emitted script is one Equal (D = 0): 16 * 401 * 1 = 6416 ---- *)
Definition bad_orc : oracles :=
  {| o_on := fun i j => Ok (i =? j);
     o_oo := fun i s => Ok (Nat.even i && (i =? s));
     o_nn := fun j s => Ok (Nat.odd j && (j =? s)) |}.

Example patience_work_inconsistent_oracles :
  CmpTotal (o_on bad_orc) 0 200 0 200 /\
  SameTotal (o_oo bad_orc) 0 200 /\ SameTotal (o_nn bad_orc) 0 200 /\
  exists calls c,
    raw_trace Patience None true bad_orc 0 200 0 200 = Ok (calls, c) /\
    calls_cost calls = 0 /\ cmps c = 10401 /\
    (16 * (200 + 200 + 1) * (calls_cost calls + 1) <? cmps c) = true.
Proof.
  split; [intros i j _ _; eexists; reflexivity|].
  split; [intros i j _ _; eexists; reflexivity|].
  split; [intros i j _ _; eexists; reflexivity|].
  eexists. eexists. split; [vm_compute; reflexivity|].
  vm_compute. repeat split.
Qed.

Print Assumptions advance_work.
Print Assumptions myers_ghost_lift.
Print Assumptions patience_work_split.
Print Assumptions one_side.
Print Assumptions count_ineq.
Print Assumptions unique_lcs_ineq.
Print Assumptions unique_cost_le_script.
Print Assumptions unique_cost_le_opt.
Print Assumptions patience_work_bound.
Print Assumptions patience_work_bound_items.
Print Assumptions patience_work_bound_nat.
Print Assumptions patience_work_inconsistent_oracles.
