(* Proofs/TextReconstruct.v — C04: the changes of a text diff reconstruct both
   inputs.  For any loosely valid op list over the token lists of two texts,
   AllChangesIter (iter_all_changes) never panics; the values of its
   non-Insert changes concatenate to the old text and those of its non-Delete
   changes to the new text; the indices it reports enumerate the tokens of
   each side.
     B1 [text_reconstruct], B2 [change_index_shape] (both from
     [items_reconstruct], over arbitrary item lists): any loosely valid ops.
     B3 [textdiff_reconstruct_partition], [textdiff_reconstruct]: the ops
     returned by textdiff_ops (TextDiffConfig::diff), every algorithm, clock,
     build mode and repair switch; these two go through
     Identify.textdiff_eq_tokens_diff and hence depend on
     functional_extensionality_dep. *)
From Coq Require Import NArith.
From Similar Require Import Model.Base Model.Iter Model.Tokenize Model.Capture Model.TextDiff
     Spec.Script Check.Tokens Proofs.Utils Proofs.CheckScript Proofs.Iter Proofs.Remap.
From Similar Require Import Model.Utf8 Spec.SnakeSpec Proofs.Pipeline Proofs.PatienceCapture.
(* Required only (not imported): Proofs.Utf8 has its own [seg] *)
From Similar Require Proofs.Tokenize Proofs.Identify.

Local Open Scope nat_scope.

(* ------------------------------------------------------------------ *)
(* sides of a change list                                              *)
(* ------------------------------------------------------------------ *)
Definition old_side_ch {A} (c : change A) : bool :=
  match ch_tag c with ChInsert => false | _ => true end.
Definition new_side_ch {A} (c : change A) : bool :=
  match ch_tag c with ChDelete => false | _ => true end.

Lemma filter_all {B} (f : B -> bool) l : Forall (fun x => f x = true) l -> filter f l = l.
Proof.
  induction 1 as [|x l Hx _ IH]; [reflexivity|].
  cbn [filter]. rewrite Hx, IH. reflexivity.
Qed.

Lemma filter_none {B} (f : B -> bool) l : Forall (fun x => f x = false) l -> filter f l = [].
Proof.
  induction 1 as [|x l Hx _ IH]; [reflexivity|].
  cbn [filter]. rewrite Hx, IH. reflexivity.
Qed.

Lemma Forall_tag_old_side {A} tg (cs : list (change A)) :
  Forall (fun c => ch_tag c = tg) cs ->
  filter old_side_ch cs = match tg with ChInsert => [] | _ => cs end.
Proof.
  intros H. destruct tg.
  - apply filter_all. eapply Forall_impl; [|exact H]. intros c Hc. unfold old_side_ch. now rewrite Hc.
  - apply filter_all. eapply Forall_impl; [|exact H]. intros c Hc. unfold old_side_ch. now rewrite Hc.
  - apply filter_none. eapply Forall_impl; [|exact H]. intros c Hc. unfold old_side_ch. now rewrite Hc.
Qed.

Lemma Forall_tag_new_side {A} tg (cs : list (change A)) :
  Forall (fun c => ch_tag c = tg) cs ->
  filter new_side_ch cs = match tg with ChDelete => [] | _ => cs end.
Proof.
  intros H. destruct tg.
  - apply filter_all. eapply Forall_impl; [|exact H]. intros c Hc. unfold new_side_ch. now rewrite Hc.
  - apply filter_none. eapply Forall_impl; [|exact H]. intros c Hc. unfold new_side_ch. now rewrite Hc.
  - apply filter_all. eapply Forall_impl; [|exact H]. intros c Hc. unfold new_side_ch. now rewrite Hc.
Qed.

Lemma seg_seg_all {A} (l : list A) : seg l 0 (length l - 0) = l.
Proof. rewrite Nat.sub_0_r. apply seg_all. Qed.

(* ------------------------------------------------------------------ *)
(* generic item lists                                                  *)
(* ------------------------------------------------------------------ *)
Section Items.
  Context {A : Type}.
  Variable eqb : A -> A -> bool.
  Hypothesis eqb_eq : forall x y, eqb x y = true -> x = y.
  Variables olds news : list A.
  Let old := slice_lookup olds.
  Let new := slice_lookup news.
  Let cmp := cmp_of eqb old new.

  (* every change carries the indices its tag calls for, and its value is
     the item at these indices (for Equal: on both sides) *)
  Definition change_ok (c : change A) : Prop :=
    match ch_tag c with
    | ChEqual => exists i j, ch_old c = Some i /\ ch_new c = Some j /\
                             nth_error olds i = Some (ch_val c) /\
                             nth_error news j = Some (ch_val c)
    | ChDelete => exists i, ch_old c = Some i /\ ch_new c = None /\
                            nth_error olds i = Some (ch_val c)
    | ChInsert => exists j, ch_old c = None /\ ch_new c = Some j /\
                            nth_error news j = Some (ch_val c)
    end.

  (* a run of old-side changes over in-bounds items *)
  Lemma expand_old_run tg wn : forall len o n, o + len <= length olds ->
    exists cs,
      expand_old old tg wn o n len = Some cs /\
      map ch_val cs = seg olds o len /\
      map ch_old cs = map Some (seq o len) /\
      map ch_new cs = (if wn then map Some (seq n len) else repeat None len) /\
      Forall (fun c => ch_tag c = tg) cs.
  Proof.
    induction len as [|len IH]; intros o n Hle.
    - exists []. rewrite expand_old_0. unfold seg. cbn [firstn map seq repeat].
      destruct wn; repeat split; constructor.
    - rewrite expand_old_S. unfold old at 1, slice_lookup at 1.
      destruct (nth_error olds o) as [v|] eqn:Ev.
      + destruct (IH (S o) (if wn then S n else n)) as (cs & Hcs & Hval & Hold & Hnew & Htag); [lia|].
        rewrite Hcs. eexists. split; [reflexivity|].
        unfold seg in *. rewrite (skipn_nth_error_cons olds o v Ev).
        cbn [map ch_val ch_old ch_new firstn seq repeat].
        rewrite Hval, Hold, Hnew.
        repeat split.
        * destruct wn; reflexivity.
        * constructor; [reflexivity|exact Htag].
      + apply nth_error_None in Ev. lia.
  Qed.

  Lemma expand_new_run : forall len n, n + len <= length news ->
    exists cs,
      expand_new new n len = Some cs /\
      map ch_val cs = seg news n len /\
      map ch_new cs = map Some (seq n len) /\
      Forall (fun c => ch_tag c = ChInsert) cs.
  Proof.
    induction len as [|len IH]; intros n Hle.
    - exists []. rewrite expand_new_0. unfold seg. cbn [firstn map seq].
      repeat split; constructor.
    - rewrite expand_new_S. unfold new at 1, slice_lookup at 1.
      destruct (nth_error news n) as [v|] eqn:Ev.
      + destruct (IH (S n)) as (cs & Hcs & Hval & Hnew & Htag); [lia|].
        rewrite Hcs. eexists. split; [reflexivity|].
        unfold seg in *. rewrite (skipn_nth_error_cons news n v Ev).
        cbn [map ch_val ch_new firstn seq].
        rewrite Hval, Hnew.
        repeat split. constructor; [reflexivity|exact Htag].
      + apply nth_error_None in Ev. lia.
  Qed.

  (* pointwise content of the runs *)
  Lemma SegEq_nth o n l t v :
    SegEq cmp o n l -> t < l -> nth_error olds (o + t) = Some v ->
    nth_error news (n + t) = Some v.
  Proof.
    intros Hs Ht Hv. specialize (Hs t Ht).
    unfold cmp, cmp_of, new, old, slice_lookup in Hs. rewrite Hv in Hs.
    destruct (nth_error news (n + t)) as [y|]; [|discriminate Hs].
    injection Hs as Hs. apply eqb_eq in Hs. now subst y.
  Qed.

  Lemma expand_equal_ok o n l cs :
    SegEq cmp o n l -> expand_old old ChEqual true o n l = Some cs -> Forall change_ok cs.
  Proof.
    intros Hs Hx. destruct (expand_old_shape _ _ _ _ _ _ _ Hx) as [_ Hnth].
    apply Forall_forall. intros c Hin. apply In_nth_error in Hin. destruct Hin as [k Hk].
    destruct (Hnth k c Hk) as [Hkl (Ht & Ho & Hn & Hv)].
    unfold change_ok. rewrite Ht. exists (o + k), (n + k).
    repeat split; try assumption.
    eapply SegEq_nth; eauto.
  Qed.

  Lemma expand_delete_ok o n l cs :
    expand_old old ChDelete false o n l = Some cs -> Forall change_ok cs.
  Proof.
    intros Hx. destruct (expand_old_shape _ _ _ _ _ _ _ Hx) as [_ Hnth].
    apply Forall_forall. intros c Hin. apply In_nth_error in Hin. destruct Hin as [k Hk].
    destruct (Hnth k c Hk) as [Hkl (Ht & Ho & Hn & Hv)].
    unfold change_ok. rewrite Ht. exists (o + k). repeat split; assumption.
  Qed.

  Lemma expand_insert_ok n l cs :
    expand_new new n l = Some cs -> Forall change_ok cs.
  Proof.
    intros Hx. destruct (expand_new_shape _ _ _ _ Hx) as [_ Hnth].
    apply Forall_forall. intros c Hin. apply In_nth_error in Hin. destruct Hin as [k Hk].
    destruct (Hnth k c Hk) as [Hkl (Ht & Ho & Hn & Hv)].
    unfold change_ok. rewrite Ht. exists (n + k). repeat split; assumption.
  Qed.

  Lemma OpsWalk_bounds' exact oe ne i j ops : OpsWalk cmp exact oe ne i j ops -> i <= oe /\ j <= ne.
  Proof. intros H. induction H; lia. Qed.

  Lemma seq_split s a c b : a + c = b -> seq s a ++ seq (s + a) c = seq s b.
  Proof. intros H. rewrite <- seq_app. f_equal. exact H. Qed.

  Lemma seg_split {B} (l : list B) s a c b : a + c = b -> seg l s a ++ seg l (s + a) c = seg l s b.
  Proof. intros H. rewrite <- seg_add. f_equal. exact H. Qed.

  (* the walk: the expansion of the remaining ops covers the remaining items
     of both sides *)
  Lemma expand_all_walk oe ne ops : forall i j,
    oe = length olds -> ne = length news ->
    OpsWalk cmp false oe ne i j ops ->
    exists cs,
      expand_all old new ops = Some cs /\
      map ch_val (filter old_side_ch cs) = seg olds i (oe - i) /\
      map ch_val (filter new_side_ch cs) = seg news j (ne - j) /\
      map ch_old (filter old_side_ch cs) = map Some (seq i (oe - i)) /\
      map ch_new (filter new_side_ch cs) = map Some (seq j (ne - j)) /\
      Forall change_ok cs.
  Proof.
    intros i j Eoe Ene H.
    induction H as [|i j l r Hs Hw IH|i j l n r He Hb Hw IH|i j o l r He Hb Hw IH|i j ol nl r Hb1 Hb2 Hw IH].
    - exists []. rewrite !Nat.sub_diag. unfold seg. cbn. repeat split. constructor.
    - destruct IH as (rs & Hrs & Hov & Hnv & Hoi & Hni & Hok).
      destruct (OpsWalk_bounds' _ _ _ _ _ _ Hw) as [Bo Bn].
      destruct (expand_old_run ChEqual true l i j) as (cs & Hcs & Hval & Hold & Hnew & Htag); [lia|].
      exists (cs ++ rs). cbn [expand_all expand_op]. rewrite Hcs, Hrs. cbn [app_opt].
      rewrite !filter_app, !map_app.
      rewrite (Forall_tag_old_side _ _ Htag), (Forall_tag_new_side _ _ Htag).
      rewrite Hov, Hnv, Hoi, Hni, Hval, Hold, Hnew.
      split; [reflexivity|]. repeat split.
      + apply seg_split. lia.
      + rewrite (SegEq_seg eqb eqb_eq olds news l i j Hs). apply seg_split. lia.
      + rewrite <- map_app. f_equal. apply seq_split. lia.
      + rewrite <- map_app. f_equal. apply seq_split. lia.
      + apply Forall_app. split; [|exact Hok]. eapply expand_equal_ok; eauto.
    - destruct IH as (rs & Hrs & Hov & Hnv & Hoi & Hni & Hok).
      destruct (OpsWalk_bounds' _ _ _ _ _ _ Hw) as [Bo Bn].
      destruct (expand_old_run ChDelete false l i n) as (cs & Hcs & Hval & Hold & Hnew & Htag); [lia|].
      exists (cs ++ rs). cbn [expand_all expand_op]. rewrite Hcs, Hrs. cbn [app_opt].
      rewrite !filter_app, !map_app.
      rewrite (Forall_tag_old_side _ _ Htag), (Forall_tag_new_side _ _ Htag).
      rewrite Hov, Hnv, Hoi, Hni, Hval, Hold.
      split; [reflexivity|]. repeat split.
      + apply seg_split. lia.
      + rewrite <- map_app. f_equal. apply seq_split. lia.
      + apply Forall_app. split; [|exact Hok]. eapply expand_delete_ok; eauto.
    - destruct IH as (rs & Hrs & Hov & Hnv & Hoi & Hni & Hok).
      destruct (OpsWalk_bounds' _ _ _ _ _ _ Hw) as [Bo Bn].
      destruct (expand_new_run l j) as (cs & Hcs & Hval & Hnew & Htag); [lia|].
      exists (cs ++ rs). cbn [expand_all expand_op]. rewrite Hcs, Hrs. cbn [app_opt].
      rewrite !filter_app, !map_app.
      rewrite (Forall_tag_old_side _ _ Htag), (Forall_tag_new_side _ _ Htag).
      rewrite Hov, Hnv, Hoi, Hni, Hval, Hnew.
      split; [reflexivity|]. repeat split.
      + apply seg_split. lia.
      + rewrite <- map_app. f_equal. apply seq_split. lia.
      + apply Forall_app. split; [|exact Hok]. eapply expand_insert_ok; eauto.
    - destruct IH as (rs & Hrs & Hov & Hnv & Hoi & Hni & Hok).
      destruct (OpsWalk_bounds' _ _ _ _ _ _ Hw) as [Bo Bn].
      destruct (expand_old_run ChDelete false ol i j) as (ds & Hds & Hdval & Hdold & Hdnew & Hdtag); [lia|].
      destruct (expand_new_run nl j) as (ns & Hns & Hnval & Hnnew & Hntag); [lia|].
      exists ((ds ++ ns) ++ rs). cbn [expand_all expand_op]. rewrite Hds, Hns, Hrs. cbn [app_opt].
      rewrite !filter_app, !map_app.
      rewrite (Forall_tag_old_side _ _ Hdtag), (Forall_tag_new_side _ _ Hdtag).
      rewrite (Forall_tag_old_side _ _ Hntag), (Forall_tag_new_side _ _ Hntag).
      rewrite Hov, Hnv, Hoi, Hni, Hdval, Hdold, Hnval, Hnnew.
      cbn [map app]. rewrite !app_nil_r.
      split; [reflexivity|]. repeat split.
      + apply seg_split. lia.
      + apply seg_split. lia.
      + rewrite <- map_app. f_equal. apply seq_split. lia.
      + rewrite <- map_app. f_equal. apply seq_split. lia.
      + apply Forall_app. split; [|exact Hok]. apply Forall_app. split.
        * eapply expand_delete_ok; eauto.
        * eapply expand_insert_ok; eauto.
  Qed.

  (* B1/B2 over arbitrary item lists *)
  Theorem items_reconstruct (ops : list op) :
    OpsLoose cmp 0 (length olds) 0 (length news) ops ->
    exists cs,
      iter_all_changes old new ops = Ok cs /\
      map ch_val (filter old_side_ch cs) = olds /\
      map ch_val (filter new_side_ch cs) = news /\
      map ch_old (filter old_side_ch cs) = map Some (seq 0 (length olds)) /\
      map ch_new (filter new_side_ch cs) = map Some (seq 0 (length news)) /\
      Forall change_ok cs.
  Proof.
    intros Hw.
    destruct (expand_all_walk _ _ ops 0 0 eq_refl eq_refl Hw) as (cs & Hcs & Hov & Hnv & Hoi & Hni & Hok).
    exists cs. rewrite all_changes_concat, Hcs.
    rewrite seg_seg_all in Hov, Hnv. rewrite Nat.sub_0_r in Hoi, Hni.
    repeat split; assumption.
  Qed.
End Items.

(* ------------------------------------------------------------------ *)
(* B1 / B2: texts                                                      *)
(* ------------------------------------------------------------------ *)
Section Text.
  Variables osrc nsrc : list N.
  Variables otoks ntoks : list token.
  Hypothesis Ho : check_partition otoks 0 (length osrc) = true.
  Hypothesis Hn : check_partition ntoks 0 (length nsrc) = true.
  Let olds := map (tok_bytes osrc) otoks.
  Let news := map (tok_bytes nsrc) ntoks.
  Let cmp := cmp_of bytes_eqb (slice_lookup olds) (slice_lookup news).

  (* B1 *)
  Theorem text_reconstruct (ops : list op) :
    OpsLoose cmp 0 (length olds) 0 (length news) ops ->
    exists cs,
      iter_all_changes (slice_lookup olds) (slice_lookup news) ops = Ok cs /\
      concat (map ch_val (filter old_side_ch cs)) = osrc /\
      concat (map ch_val (filter new_side_ch cs)) = nsrc.
  Proof.
    intros Hw.
    destruct (items_reconstruct bytes_eqb bytes_eqb_eq olds news ops Hw)
      as (cs & Hcs & Hov & Hnv & _).
    exists cs. split; [exact Hcs|]. rewrite Hov, Hnv. unfold olds, news.
    split; apply concat_items; assumption.
  Qed.

  (* B2 *)
  Theorem change_index_shape (ops : list op) (cs : list (change (list N))) :
    OpsLoose cmp 0 (length olds) 0 (length news) ops ->
    iter_all_changes (slice_lookup olds) (slice_lookup news) ops = Ok cs ->
    Forall (change_ok olds news) cs /\
    map ch_old (filter old_side_ch cs) = map Some (seq 0 (length olds)) /\
    map ch_new (filter new_side_ch cs) = map Some (seq 0 (length news)).
  Proof.
    intros Hw Hcs.
    destruct (items_reconstruct bytes_eqb bytes_eqb_eq olds news ops Hw)
      as (cs' & Hcs' & _ & _ & Hoi & Hni & Hok).
    rewrite Hcs in Hcs'. injection Hcs' as <-.
    repeat split; assumption.
  Qed.
End Text.

(* ------------------------------------------------------------------ *)
(* B3: end to end                                                      *)
(* ------------------------------------------------------------------ *)

(* what C04 says about the changes of one op list *)
Definition TextRecon (osrc nsrc : list N) (otoks ntoks : list token) (ops : list op) : Prop :=
  let olds := map (tok_bytes osrc) otoks in
  let news := map (tok_bytes nsrc) ntoks in
  exists cs,
    iter_all_changes (slice_lookup olds) (slice_lookup news) ops = Ok cs /\
    concat (map ch_val (filter old_side_ch cs)) = osrc /\
    concat (map ch_val (filter new_side_ch cs)) = nsrc /\
    Forall (change_ok olds news) cs /\
    map ch_old (filter old_side_ch cs) = map Some (seq 0 (length olds)) /\
    map ch_new (filter new_side_ch cs) = map Some (seq 0 (length news)).

Lemma text_recon_loose osrc nsrc otoks ntoks ops :
  check_partition otoks 0 (length osrc) = true ->
  check_partition ntoks 0 (length nsrc) = true ->
  OpsLoose (cmp_of bytes_eqb (slice_lookup (map (tok_bytes osrc) otoks))
                             (slice_lookup (map (tok_bytes nsrc) ntoks)))
           0 (length (map (tok_bytes osrc) otoks)) 0 (length (map (tok_bytes nsrc) ntoks)) ops ->
  TextRecon osrc nsrc otoks ntoks ops.
Proof.
  intros Ho Hn Hw.
  destruct (text_reconstruct osrc nsrc otoks ntoks Ho Hn ops Hw) as (cs & Hcs & Hov & Hnv).
  destruct (change_index_shape osrc nsrc otoks ntoks ops cs Hw Hcs) as (Hok & Hoi & Hni).
  exists cs. repeat split; assumption.
Qed.

(* any token lists that partition the two texts (this is all that is assumed
   of the unicode-words / graphemes tokenizers, which are not modelled) *)
Theorem textdiff_reconstruct_partition osrc nsrc otoks ntoks alg dl dbg repair ops c :
  check_partition otoks 0 (length osrc) = true ->
  check_partition ntoks 0 (length nsrc) = true ->
  let olds := map (tok_bytes osrc) otoks in
  let news := map (tok_bytes nsrc) ntoks in
  textdiff_ops alg dl dbg repair
    (oracles_of_items bytes_eqb (slice_lookup olds) (slice_lookup news))
    (length olds) (length news) = Ok (ops, c) ->
  (OpsLoose (cmp_of bytes_eqb (slice_lookup olds) (slice_lookup news))
            0 (length olds) 0 (length news) ops /\ Alternating ops) /\
  TextRecon osrc nsrc otoks ntoks ops.
Proof.
  intros Ho Hn olds news H.
  rewrite Proofs.Identify.textdiff_eq_tokens_diff in H. cbv zeta in H.
  assert (Htot : CmpTotal (cmp_of bytes_eqb (slice_lookup olds) (slice_lookup news))
                          0 (length olds) 0 (length news))
    by (apply CmpTotal_cmp_of; apply le_n).
  destruct (capture_valid_all alg dl dbg repair
              (oracles_of_items bytes_eqb (slice_lookup olds) (slice_lookup news))
              0 (length olds) 0 (length news) ops c
              (Nat.le_0_l _) (Nat.le_0_l _) Htot H) as [Hw Halt].
  cbn [o_on oracles_of_items] in Hw.
  split; [split; assumption|]. apply text_recon_loose; assumption.
Qed.

(* the modelled tokenizers: bytes on any input, str on valid UTF-8 *)
Theorem textdiff_reconstruct (bytes_mode : bool) (k : tokenizer) osrc nsrc alg dl dbg repair ops c :
  (bytes_mode = false -> valid_utf8 osrc = true /\ valid_utf8 nsrc = true) ->
  let otoks := tokenize bytes_mode k osrc in
  let ntoks := tokenize bytes_mode k nsrc in
  let olds := map (tok_bytes osrc) otoks in
  let news := map (tok_bytes nsrc) ntoks in
  textdiff_ops alg dl dbg repair
    (oracles_of_items bytes_eqb (slice_lookup olds) (slice_lookup news))
    (length olds) (length news) = Ok (ops, c) ->
  (OpsLoose (cmp_of bytes_eqb (slice_lookup olds) (slice_lookup news))
            0 (length olds) 0 (length news) ops /\ Alternating ops) /\
  TextRecon osrc nsrc otoks ntoks ops.
Proof.
  intros Hv otoks ntoks olds news H.
  assert (Hp : check_partition otoks 0 (length osrc) = true /\
               check_partition ntoks 0 (length nsrc) = true).
  { unfold otoks, ntoks. destruct bytes_mode.
    - pose proof (Proofs.Tokenize.tok_bytes_ok k osrc) as H1.
      pose proof (Proofs.Tokenize.tok_bytes_ok k nsrc) as H2.
      unfold check_tokens in H1, H2.
      apply Bool.andb_true_iff in H1. apply Bool.andb_true_iff in H2. now split.
    - destruct (Hv eq_refl) as [Hvo Hvn].
      pose proof (Proofs.Tokenize.tok_str_ok k osrc Hvo) as H1.
      pose proof (Proofs.Tokenize.tok_str_ok k nsrc Hvn) as H2.
      unfold check_tokens in H1, H2.
      apply Bool.andb_true_iff in H1. apply Bool.andb_true_iff in H2. now split. }
  destruct Hp as [Hpo Hpn].
  exact (textdiff_reconstruct_partition osrc nsrc otoks ntoks alg dl dbg repair ops c Hpo Hpn H).
Qed.

Print Assumptions text_reconstruct.
Print Assumptions change_index_shape.
Print Assumptions items_reconstruct.
Print Assumptions textdiff_reconstruct_partition.
Print Assumptions textdiff_reconstruct.
