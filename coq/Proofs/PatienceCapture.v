(* Proofs/PatienceCapture.v — Patience on the capture pipeline.

   Proofs/Pipeline.v proves the end-to-end theorems about capture_diff for
   Myers and LCS and, for Patience, under the premise [PatienceRaw].  This file
   removes the premise by TRANSPORT: a homomorphism g between two worlds
   (commuting with probe, tick and the equal/delete/insert calls) commutes with
   everything patience_diff does before the caller's finish is called --
   unique, the outer Myers run over Replace<Patience<..>>, the inner Myers
   runs over NoFinishHook, the flushes of Replace::finish and the last Myers
   run of Patience::finish ([patience_diff_finsim]).  Instantiated with the
   embedding [cgs] of the recording world into the capture world, the
   validity / no-panic theorems of Proofs/Patience.v (stated for the recording
   hook) carry over to capture_diff ([patience_sim_at]).

   Results: [capture_diff_eq_patience] (capture_diff Patience = pipeline_ops
   of the raw trace under the same clock), [CaptureRaw_patience_proved],
   [capture_valid_patience'], [capture_exact_repaired_patience'],
   [capture_apply_patience], [capture_ratio_patience'],
   [capture_no_panic_patience] (under SameTotal of the uniqueness oracles),
   [capture_valid_all] etc. for all three algorithms, and the observation
   [AlgSim_patience_false] that Pipeline.AlgSim cannot hold for Patience as
   stated (it has no premise on the uniqueness oracles); [AlgSimAt] is AlgSim
   at one argument tuple and [patience_sim_at] proves it for Patience whenever
   one of the two runs succeeds.

   Independently, section [RecWorld] redoes the validity argument of
   Proofs/Patience.v (invariants P / J without the anchor ghost state, partial
   correctness only) over an arbitrary [Recording] world and proves the
   premise itself: [PatienceRaw_proved : PatienceRaw]. *)
From Similar Require Import Model.Base Model.Utils Model.Myers Model.Lcs Model.Hooks
  Model.Patience Model.Compact Model.Capture
  Spec.Script Spec.EditGraph Spec.SnakeSpec Check.Script
  Proofs.Utils Proofs.CheckScript Proofs.Replace Proofs.ReplaceLoose Proofs.WorldInv
  Proofs.MyersSnake Proofs.MyersConquer Proofs.Unique Proofs.PatienceGen Proofs.Patience
  Proofs.Pipeline.

Local Open Scope nat_scope.

Definition NotFin (c : call) : Prop := c <> CFin.

Lemma edit_NotFin c : edit_callb c -> NotFin c.
Proof. destruct c; cbn [edit_callb]; intros H; try contradiction; discriminate. Qed.

Lemma rmap_bind {A B C} (f : A -> B) (m : res A) (k : B -> res C) :
  bind (rmap f m) k = bind m (fun a => k (f a)).
Proof. destruct m; reflexivity. Qed.

Lemma bind_Ok_r {A} (m : res A) : bind m (fun a => Ok a) = m.
Proof. destruct m; reflexivity. Qed.

(* ====================================================================== *)
(* lifting a homomorphism under extra hook state                           *)
(* ====================================================================== *)
Section LiftHom.
  Context {S WA WB : Type}.
  Variable wdA : world WA.
  Variable wdB : world WB.
  Variable h : WB -> WA.
  Hypothesis h_tick : forall k w, tick wdA k (h w) = h (tick wdB k w).
  Hypothesis h_probe : forall w, probe wdA (h w) = (fst (probe wdB w), h (snd (probe wdB w))).

  Lemma lift_tick_hom k (sw : S * WB) :
    lift_tick wdA k (lift h sw) = lift h (lift_tick wdB k sw).
  Proof. destruct sw as [s w]. unfold lift_tick, lift. cbn [fst snd]. now rewrite h_tick. Qed.

  Lemma lift_probe_hom (sw : S * WB) :
    lift_probe wdA (lift h sw) = (fst (lift_probe wdB sw), lift h (snd (lift_probe wdB sw))).
  Proof.
    destruct sw as [s w]. unfold lift_probe, lift. cbn [fst snd]. rewrite h_probe.
    destruct (probe wdB w) as [b w']. reflexivity.
  Qed.
End LiftHom.

(* ====================================================================== *)
(* Replace<D> commutes with a homomorphism of the inner hooks              *)
(* ====================================================================== *)
Section ReplaceHom.
  Context {WA WB : Type}.
  Variable wdA : world WA.
  Variable wdB : world WB.
  Variable h : WB -> WA.
  Hypothesis h_emit : forall c w, NotFin c -> emit wdA c (h w) = rmap h (emit wdB c w).

  Lemma emit_all_hom cs : forall w, Forall NotFin cs ->
    emit_all wdA cs (h w) = rmap h (emit_all wdB cs w).
  Proof.
    induction cs as [|c cs IH]; intros w Hall; cbn [emit_all]; [reflexivity|].
    inversion Hall as [|c0 cs0 Hc Hcs]; subst c0 cs0.
    rewrite (h_emit c w Hc). destruct (emit wdB c w) as [w1| |]; cbn [rmap bind]; try reflexivity.
    apply IH. exact Hcs.
  Qed.

  Lemma flush_eq_NotFin rs : Forall NotFin (fst (tr_flush_eq rs)).
  Proof.
    unfold tr_flush_eq. destruct (r_eq rs) as [[[o n] l]|]; cbn [fst]; repeat constructor.
    discriminate.
  Qed.

  Lemma flush_del_ins_NotFin rs : Forall NotFin (fst (tr_flush_del_ins rs)).
  Proof.
    unfold tr_flush_del_ins.
    destruct (r_del rs) as [[[dO dl] dn]|]; destruct (r_ins rs) as [[[io inn] il]|];
      cbn [fst]; repeat constructor; discriminate.
  Qed.

  Lemma replace_step_NotFin dbg c rs : NotFin c -> Forall NotFin (fst (replace_step dbg c rs)).
  Proof.
    intros Hc. destruct c as [o n l|o l n|o n l|o ol n nl|]; cbn [replace_step].
    - pose proof (flush_del_ins_NotFin rs) as H.
      destruct (tr_flush_del_ins rs) as [out s1]. exact H.
    - pose proof (flush_eq_NotFin rs) as H.
      destruct (tr_flush_eq rs) as [out s1]. cbn [fst] in H.
      destruct (r_del s1) as [[[dO dl] dn]|]; [destruct (dbg && negb (o =? dO + dl))|]; exact H.
    - pose proof (flush_eq_NotFin rs) as H.
      destruct (tr_flush_eq rs) as [out s1]. cbn [fst] in H.
      destruct (r_ins s1) as [[[io inn] il]|]; [destruct (dbg && negb (inn + il =? n))|]; exact H.
    - pose proof (flush_eq_NotFin rs) as H.
      destruct (tr_flush_eq rs) as [out s1]. cbn [fst] in *.
      apply Forall_app. split; [exact H|]. repeat constructor. discriminate.
    - now destruct Hc.
  Qed.

  Lemma run_trace_hom p w : Forall NotFin (fst p) ->
    run_trace wdA p (h w) = rmap (lift h) (run_trace wdB p w).
  Proof.
    intros Hp. unfold run_trace. rewrite (emit_all_hom _ _ Hp).
    destruct (emit_all wdB (fst p) w) as [w1| |]; cbn [rmap bind]; try reflexivity.
    destruct (snd p); reflexivity.
  Qed.

  Lemma replace_emit_hom dbg c (x : rstate * WB) : NotFin c ->
    emit (replace_world wdA dbg) c (lift h x) = rmap (lift h) (emit (replace_world wdB dbg) c x).
  Proof.
    intros Hc. destruct x as [rs w]. unfold lift. cbn [fst snd emit replace_world].
    rewrite !replace_emit_step. apply run_trace_hom. apply replace_step_NotFin. exact Hc.
  Qed.

  (* Replace::finish: flush what is pending, then the inner finish *)
  Definition fin_pre (rs : rstate) : list call :=
    fst (tr_flush_eq rs) ++ fst (tr_flush_del_ins (snd (tr_flush_eq rs))).
  Definition fin_state (rs : rstate) : rstate :=
    snd (tr_flush_del_ins (snd (tr_flush_eq rs))).

  Lemma fin_pre_NotFin rs : Forall NotFin (fin_pre rs).
  Proof. apply Forall_app. split; [apply flush_eq_NotFin|apply flush_del_ins_NotFin]. Qed.
End ReplaceHom.

Lemma replace_fin_eq {W} (wd : world W) dbg rs (w : W) :
  emit (replace_world wd dbg) CFin (rs, w) =
  (do w1 <- emit_all wd (fin_pre rs) w; do w2 <- emit wd CFin w1; Ok (fin_state rs, w2)).
Proof.
  cbn [emit replace_world]. rewrite replace_emit_step.
  unfold run_trace, fin_pre, fin_state. cbn [replace_step].
  destruct (tr_flush_eq rs) as [o1 s1]. cbn [fst snd].
  destruct (tr_flush_del_ins s1) as [o2 s2]. cbn [fst snd].
  rewrite app_assoc, emit_all_app.
  destruct (emit_all wd (o1 ++ o2) w) as [w1| |]; cbn [bind emit_all]; try reflexivity.
  destruct (emit wd CFin w1) as [w2| |]; reflexivity.
Qed.

(* ====================================================================== *)
(* Patience commutes with a homomorphism of the caller's hooks             *)
(* ====================================================================== *)
Section PatienceHom.
  Context {W1 W2 : Type}.
  Variable wd1 : world W1.
  Variable wd2 : world W2.
  Variable g : W2 -> W1.
  Hypothesis g_tick : forall k w, tick wd1 k (g w) = g (tick wd2 k w).
  Hypothesis g_probe : forall w, probe wd1 (g w) = (fst (probe wd2 w), g (snd (probe wd2 w))).
  Hypothesis g_emit : forall c w, edit_callb c -> emit wd1 c (g w) = rmap g (emit wd2 c w).
  Variable cmp : cmpf.

  (* ---- NoFinishHook ---- *)
  Lemma nf_emit c w : edit_callb c ->
    emit (no_finish wd1) c (g w) = rmap g (emit (no_finish wd2) c w).
  Proof.
    intros Hc. destruct c; cbn [edit_callb] in Hc; try contradiction;
      cbn [emit no_finish]; apply g_emit; exact I.
  Qed.

  Lemma myers_nf_hom os oe ns ne w :
    myers_diff (no_finish wd1) cmp os oe ns ne (g w) =
    rmap g (myers_diff (no_finish wd2) cmp os oe ns ne w).
  Proof.
    unfold myers_diff.
    rewrite (conquer_hom (no_finish wd1) (no_finish wd2) g g_tick g_probe nf_emit).
    match goal with |- context [conquer (no_finish wd2) ?a ?b ?c ?d ?e ?f ?x ?y ?z] =>
      destruct (conquer (no_finish wd2) a b c d e f x y z) as [[[vf vb] w1]| |] end;
      reflexivity.
  Qed.

  (* ---- Patience::equal ---- *)
  Lemma advance_hom fuel : forall oi ni oc nc w,
    advance wd1 cmp fuel oi ni oc nc (g w) =
    rmap (lift g) (advance wd2 cmp fuel oi ni oc nc w).
  Proof.
    induction fuel as [|fuel IH]; intros oi ni oc nc w; cbn [advance]; [reflexivity|].
    destruct ((oc <? oi) && (nc <? ni)); [|reflexivity].
    destruct (cmp oc nc) as [b| |]; cbn [bind rmap]; try reflexivity.
    destruct b; [|now rewrite g_tick]. rewrite g_tick. apply IH.
  Qed.

  Variables uo un : list nat.
  Variables oe ne : nat.
  Let PW1 := patience_world wd1 cmp uo un oe ne.
  Let PW2 := patience_world wd2 cmp uo un oe ne.

  Lemma anchor_step_hom o n (sw : pstate * W2) :
    anchor_step wd1 cmp uo un o n (lift g sw) =
    rmap (lift g) (anchor_step wd2 cmp uo un o n sw).
  Proof.
    destruct sw as [s w]. unfold lift. cbn [fst snd]. unfold anchor_step.
    destruct (nth_error uo o) as [oi|]; cbn [of_option bind rmap]; [|reflexivity].
    destruct (nth_error un n) as [ni|]; cbn [of_option bind rmap]; [|reflexivity].
    rewrite advance_hom.
    destruct (advance wd2 cmp (oi - old_current s) oi ni (old_current s) (new_current s) w)
      as [[[oc nc] w1]| |]; cbn [rmap bind lift fst snd]; try reflexivity.
    assert (HE : (if old_current s <? oc
                  then emit wd1 (CEq (old_current s) (new_current s) (oc - old_current s)) (g w1)
                  else Ok (g w1)) =
                 rmap g (if old_current s <? oc
                         then emit wd2 (CEq (old_current s) (new_current s) (oc - old_current s)) w1
                         else Ok w1)).
    { destruct (old_current s <? oc); [apply g_emit; exact I|reflexivity]. }
    rewrite HE. clear HE.
    destruct (if old_current s <? oc
              then emit wd2 (CEq (old_current s) (new_current s) (oc - old_current s)) w1
              else Ok w1) as [w2| |]; cbn [rmap bind]; try reflexivity.
    rewrite myers_nf_hom.
    destruct (myers_diff (no_finish wd2) cmp oc oi nc ni w2) as [w3| |]; reflexivity.
  Qed.

  Lemma anchor_loop_hom len : forall o n (sw : pstate * W2),
    anchor_loop wd1 cmp uo un len o n (lift g sw) =
    rmap (lift g) (anchor_loop wd2 cmp uo un len o n sw).
  Proof.
    induction len as [|len IH]; intros o n sw; cbn [anchor_loop]; [reflexivity|].
    rewrite anchor_step_hom.
    destruct (anchor_step wd2 cmp uo un o n sw) as [sw1| |]; cbn [rmap bind]; try reflexivity.
    apply IH.
  Qed.

  (* the Patience hook *)
  Lemma PW_tick k (sw : pstate * W2) : tick PW1 k (lift g sw) = lift g (tick PW2 k sw).
  Proof. apply (lift_tick_hom wd1 wd2 g g_tick). Qed.

  Lemma PW_probe (sw : pstate * W2) :
    probe PW1 (lift g sw) = (fst (probe PW2 sw), lift g (snd (probe PW2 sw))).
  Proof. apply (lift_probe_hom wd1 wd2 g g_probe). Qed.

  Lemma PW_emit c (sw : pstate * W2) : NotFin c ->
    emit PW1 c (lift g sw) = rmap (lift g) (emit PW2 c sw).
  Proof.
    intros Hc. destruct c as [o n l|o l n|o n l|o ol n nl|];
      cbn [emit PW1 PW2 patience_world patience_emit]; try reflexivity.
    - apply anchor_loop_hom.
    - now destruct Hc.
  Qed.

  (* ---- Replace<Patience<D>> ---- *)
  Variable dbg : bool.
  Let RW1 := replace_world PW1 dbg.
  Let RW2 := replace_world PW2 dbg.
  Let G : rstate * (pstate * W2) -> rstate * (pstate * W1) := lift (lift g).

  Lemma RW_tick k x : tick RW1 k (G x) = G (tick RW2 k x).
  Proof. apply (lift_tick_hom PW1 PW2 (lift g) PW_tick). Qed.

  Lemma RW_probe x : probe RW1 (G x) = (fst (probe RW2 x), G (snd (probe RW2 x))).
  Proof. apply (lift_probe_hom PW1 PW2 (lift g) PW_probe). Qed.

  Lemma RW_emit c x : edit_callb c -> emit RW1 c (G x) = rmap G (emit RW2 c x).
  Proof.
    intros Hc. apply (replace_emit_hom PW1 PW2 (lift g) PW_emit). apply edit_NotFin. exact Hc.
  Qed.

  (* ---- everything patience_diff does before the caller's finish ---- *)
  Variables oo nn : cmpf.
  Variables os ns : nat.

  Definition before_fin {W} (wd : world W) (w : W) : res W :=
    do uo' <- unique oo os oe;
    do un' <- unique nn ns ne;
    let pw := patience_world wd cmp uo' un' oe ne in
    let rw := replace_world pw dbg in
    let md := max_d (length uo' - 0) (length un' - 0) in
    do '(_, _, (rs, sw)) <-
       conquer rw (unique_cmp cmp uo' un') (myers_fuel 0 (length uo') 0 (length un'))
               0 (length uo') 0 (length un') (v_new md) (v_new md)
               (rstate0, ({| old_current := os; new_current := ns |}, w));
    do '(ps, w1) <- emit_all pw (fin_pre rs) sw;
    let md2 := max_d (oe - old_current ps) (ne - new_current ps) in
    do '(_, _, w2) <-
       conquer wd cmp (myers_fuel (old_current ps) oe (new_current ps) ne)
               (old_current ps) oe (new_current ps) ne (v_new md2) (v_new md2) w1;
    Ok w2.
End PatienceHom.

Lemma patience_diff_split {W} (wd : world W) dbg cmp oo nn os oe ns ne (w : W) :
  patience_diff wd dbg cmp oo nn os oe ns ne w =
  bind (before_fin cmp oe ne dbg oo nn os ns wd w) (emit wd CFin).
Proof.
  unfold patience_diff, before_fin.
  destruct (unique oo os oe) as [uo| |]; cbn [bind]; try reflexivity.
  destruct (unique nn ns ne) as [un| |]; cbn [bind]; try reflexivity.
  cbv zeta. unfold myers_diff at 1.
  match goal with |- context [conquer ?rw ?c ?f ?a ?b ?cc ?d ?vf ?vb ?x] =>
    destruct (conquer rw c f a b cc d vf vb x) as [[[vf' vb'] [rs [ps w1]]]| |] end;
    cbn [bind]; try reflexivity.
  rewrite replace_fin_eq.
  match goal with |- context [emit_all ?pw ?cs ?x] =>
    destruct (emit_all pw cs x) as [[ps2 w2]| |] end; cbn [bind]; try reflexivity.
  cbn [emit patience_world patience_emit]. unfold myers_diff.
  match goal with |- context [conquer wd ?c ?f ?a ?b ?cc ?d ?vf ?vb ?x] =>
    destruct (conquer wd c f a b cc d vf vb x) as [[[vf2 vb2] w3]| |] end;
    cbn [bind]; try reflexivity.
  destruct (emit wd CFin w3) as [w4| |]; reflexivity.
Qed.

Section PatienceFinSim.
  Context {W1 W2 : Type}.
  Variable wd1 : world W1.
  Variable wd2 : world W2.
  Variable g : W2 -> W1.
  Hypothesis g_tick : forall k w, tick wd1 k (g w) = g (tick wd2 k w).
  Hypothesis g_probe : forall w, probe wd1 (g w) = (fst (probe wd2 w), g (snd (probe wd2 w))).
  Hypothesis g_emit : forall c w, edit_callb c -> emit wd1 c (g w) = rmap g (emit wd2 c w).

  Lemma before_fin_hom dbg cmp oo nn os oe ns ne w :
    before_fin cmp oe ne dbg oo nn os ns wd1 (g w) =
    rmap g (before_fin cmp oe ne dbg oo nn os ns wd2 w).
  Proof.
    unfold before_fin.
    destruct (unique oo os oe) as [uo| |]; cbn [bind rmap]; try reflexivity.
    destruct (unique nn ns ne) as [un| |]; cbn [bind rmap]; try reflexivity.
    cbv zeta.
    change (rstate0, ({| old_current := os; new_current := ns |}, g w))
      with (lift (lift g) (rstate0, ({| old_current := os; new_current := ns |}, w))).
    rewrite (conquer_hom _ _ (lift (lift g))
               (RW_tick wd1 wd2 g g_tick cmp uo un oe ne dbg)
               (RW_probe wd1 wd2 g g_probe cmp uo un oe ne dbg)
               (RW_emit wd1 wd2 g g_tick g_probe g_emit cmp uo un oe ne dbg)).
    match goal with |- context [conquer ?rw ?c ?f ?a ?b ?cc ?d ?vf ?vb ?x] =>
      destruct (conquer rw c f a b cc d vf vb x) as [[[vf' vb'] [rs sw]]| |] end;
      cbn [rmap bind lift fst snd]; try reflexivity.
    change (fst sw, g (snd sw)) with (lift g sw).
    rewrite (emit_all_hom _ _ (lift g) (PW_emit wd1 wd2 g g_tick g_probe g_emit cmp uo un oe ne)
               _ _ (fin_pre_NotFin rs)).
    match goal with |- context [emit_all ?pw ?cs ?x] =>
      destruct (emit_all pw cs x) as [[ps2 w2]| |] end; cbn [rmap bind lift fst snd]; try reflexivity.
    rewrite (conquer_hom wd1 wd2 g g_tick g_probe g_emit).
    match goal with |- context [conquer wd2 ?c ?f ?a ?b ?cc ?d ?vf ?vb ?x] =>
      destruct (conquer wd2 c f a b cc d vf vb x) as [[[vf2 vb2] w3]| |] end; reflexivity.
  Qed.

  (* the two runs of patience_diff agree up to the final finish call *)
  Theorem patience_diff_finsim dbg cmp oo nn os oe ns ne w :
    FinSim wd1 wd2 g (patience_diff wd1 dbg cmp oo nn os oe ns ne (g w))
                     (patience_diff wd2 dbg cmp oo nn os oe ns ne w).
  Proof.
    exists (before_fin cmp oe ne dbg oo nn os ns wd2 w). split.
    - apply patience_diff_split.
    - rewrite patience_diff_split, before_fin_hom. apply rmap_bind.
  Qed.
End PatienceFinSim.

(* ====================================================================== *)
(* Patience on the capture world                                           *)
(* ====================================================================== *)

(* [Pipeline.AlgSim] has no premise on the uniqueness oracles, so it cannot
   hold for Patience: [unique] panics when they do. *)
Theorem AlgSim_patience_false : ~ AlgSim Patience.
Proof.
  intros H.
  pose (orc := {| o_on := fun _ _ => Ok true; o_oo := fun _ _ => Panic; o_nn := fun _ _ => Panic |}).
  destruct (H None false false orc 0 1 0 0 (Nat.le_0_l _) (le_n _)) as (w' & Hp & _).
  { intros i j _ Hj. lia. }
  cbn in Hp. discriminate Hp.
Qed.

(* what AlgSim says at one argument tuple *)
Definition AlgSimAt (alg : algorithm) dl dbg repair orc os oe ns ne : Prop :=
  exists w',
    diff_deadline alg (plain_world dl) dbg orc os oe ns ne plain0
      = emit (plain_world dl) CFin w' /\
    diff_deadline alg (capture_world dl dbg repair orc) dbg orc os oe ns ne
                  ([], (rstate0, plain0))
      = emit (capture_world dl dbg repair orc) CFin (cgs w') /\
    RawWalk (o_on orc) oe ne os ns os (plain_calls w').

Lemma AlgSim_at alg : AlgSim alg -> forall dl dbg repair orc os oe ns ne,
  os <= oe -> ns <= ne -> CmpTotal (o_on orc) os oe ns ne ->
  AlgSimAt alg dl dbg repair orc os oe ns ne.
Proof. intros H dl dbg repair orc os oe ns ne. apply H. Qed.

(* the proof of Pipeline.capture_diff_eq, at one argument tuple *)
Lemma capture_diff_eq_at alg dl dbg repair orc os oe ns ne :
  AlgSimAt alg dl dbg repair orc os oe ns ne ->
  exists body c,
    raw_trace alg dl dbg orc os oe ns ne = Ok (body ++ [CFin], c) /\
    RawWalk (o_on orc) oe ne os ns os body /\
    capture_diff alg dl dbg repair orc os oe ns ne =
      (do ops <- pipeline_ops (o_on orc) repair body; Ok (ops, c)).
Proof.
  intros (w' & Hp & Hc & Hwalk).
  exists (plain_calls w'), (p_ctr w'). split; [|split; [exact Hwalk|]].
  - unfold raw_trace. rewrite Hp. reflexivity.
  - unfold capture_diff. rewrite Hc. unfold cgs.
    destruct (raw_ops _ _ _ _ _ _ _ Hwalk) as (Hw & Hne & Hnr).
    assert (Hrev : rev (capture_calls (p_log w')) = capture_calls (plain_calls w')).
    { unfold plain_calls. now rewrite capture_calls_rev. }
    rewrite (capture_fin_ops dl dbg repair orc os oe ns ne); rewrite Hrev; try assumption.
    unfold pipeline_ops.
    destruct (cleanup_diff_ops (o_on orc) repair (capture_calls (plain_calls w'))) as [ops'| |];
      cbn [bind]; try reflexivity.
    unfold plain_calls. cbn [p_log p_ctr]. now rewrite app_nil_r, rev_involutive.
Qed.

Section PatienceAt.
  Variable dl : deadline.
  Variables dbg repair : bool.
  Variable orc : oracles.
  Variables os oe ns ne : nat.
  Hypothesis Ho : os <= oe.
  Hypothesis Hn : ns <= ne.
  Hypothesis Htot : CmpTotal (o_on orc) os oe ns ne.

  Let cw := capture_world dl dbg repair orc.
  Let pw := plain_world dl.
  Let run_c := patience_diff cw dbg (o_on orc) (o_oo orc) (o_nn orc) os oe ns ne
                             ([], (rstate0, plain0)).
  Let run_p := patience_diff pw dbg (o_on orc) (o_oo orc) (o_nn orc) os oe ns ne plain0.

  Lemma patience_runs_finsim : FinSim cw pw cgs run_c run_p.
  Proof.
    unfold run_c, run_p. rewrite <- cgs_plain0.
    apply patience_diff_finsim.
    - apply cgs_tick.
    - apply cgs_probe.
    - apply cgs_emit.
  Qed.

  (* one run succeeds iff the other reaches the caller's finish *)
  Lemma patience_capture_ok_plain_ok s : run_c = Ok s -> exists w1, run_p = Ok w1.
  Proof.
    intros Hs. destruct patience_runs_finsim as (r & H2 & H1).
    destruct r as [w'| |]; cbn [bind] in H1, H2; try (rewrite H1 in Hs; discriminate).
    rewrite H2. cbn [emit pw plain_world]. eauto.
  Qed.

  Theorem patience_sim_at :
    (exists s, run_c = Ok s) \/ (exists w1, run_p = Ok w1) ->
    AlgSimAt Patience dl dbg repair orc os oe ns ne.
  Proof.
    intros Hok.
    assert (Hp : exists w1, run_p = Ok w1).
    { destruct Hok as [[s Hs]|Hp]; [eapply patience_capture_ok_plain_ok; exact Hs|exact Hp]. }
    destruct Hp as [w1 Hrun].
    destruct (patience_valid dl dbg (o_on orc) (o_oo orc) (o_nn orc) os oe ns ne plain0 w1
                Ho Hn Htot Hrun) as (cs & Hcs & Hstrong).
    unfold AlgSimAt. cbn [diff_deadline].
    eapply finsim_algsim; [exact patience_runs_finsim|exact Hrun|exact Hcs|exact Hstrong].
  Qed.

  (* the structure theorem for Patience: capture_diff = pipeline_ops of the
     raw calls the recording hook sees under the same clock *)
  Theorem capture_diff_eq_patience :
    (exists s, run_c = Ok s) \/ (exists w1, run_p = Ok w1) ->
    exists body c,
      raw_trace Patience dl dbg orc os oe ns ne = Ok (body ++ [CFin], c) /\
      RawWalk (o_on orc) oe ne os ns os body /\
      capture_diff Patience dl dbg repair orc os oe ns ne =
        (do ops <- pipeline_ops (o_on orc) repair body; Ok (ops, c)).
  Proof. intros Hok. apply capture_diff_eq_at. apply patience_sim_at. exact Hok. Qed.

  Lemma capture_ok_run_ok ops c :
    capture_diff Patience dl dbg repair orc os oe ns ne = Ok (ops, c) -> exists s, run_c = Ok s.
  Proof.
    unfold capture_diff. cbn [diff_deadline]. fold cw. fold run_c.
    destruct run_c as [s| |]; cbn [bind]; intros H; try discriminate. eauto.
  Qed.

  (* no Panic, no OutOfFuel: every clock, debug and release builds, with and
     without the repair switch -- provided the uniqueness oracles are total *)
  Theorem capture_no_panic_patience :
    SameTotal (o_oo orc) os oe -> SameTotal (o_nn orc) ns ne ->
    exists ops c, capture_diff Patience dl dbg repair orc os oe ns ne = Ok (ops, c).
  Proof.
    intros Hoo Hnn.
    destruct (patience_no_panic dl dbg (o_on orc) (o_oo orc) (o_nn orc) os oe ns ne plain0
                Ho Hn Htot Hoo Hnn) as [w1 Hrun].
    destruct (capture_diff_eq_patience (or_intror (ex_intro _ w1 Hrun)))
      as (body & c & _ & Hwalk & Heq).
    assert (Hp : exists ops, pipeline_ops (o_on orc) repair body = Ok ops).
    { destruct repair.
      - destruct (pipeline_repair (o_on orc) os oe ns ne body Htot Hwalk) as (ops & Hp & _). eauto.
      - exact (pipeline_total_norepair (o_on orc) os oe ns ne body Hwalk Htot). }
    destruct Hp as [ops Hp]. exists ops, c. rewrite Heq, Hp. reflexivity.
  Qed.

  (* capture_diff succeeds exactly when the recording run does *)
  Theorem capture_ok_iff_raw_ok :
    (exists ops c, capture_diff Patience dl dbg repair orc os oe ns ne = Ok (ops, c)) <->
    (exists cs c, raw_trace Patience dl dbg orc os oe ns ne = Ok (cs, c)).
  Proof.
    split.
    - intros (ops & c & H). destruct (capture_ok_run_ok ops c H) as [s Hs].
      destruct (capture_diff_eq_patience (or_introl (ex_intro _ s Hs))) as (body & c' & Hr & _).
      eauto.
    - intros (cs & c & H). unfold raw_trace in H. cbn [diff_deadline] in H. fold pw in H.
      fold run_p in H. destruct run_p as [w1| |] eqn:Hrun; cbn [bind] in H; try discriminate.
      destruct (capture_diff_eq_patience (or_intror (ex_intro _ w1 Hrun)))
        as (body & c' & _ & Hwalk & Heq).
      assert (Hp : exists ops, pipeline_ops (o_on orc) repair body = Ok ops).
      { destruct repair.
        - destruct (pipeline_repair (o_on orc) os oe ns ne body Htot Hwalk) as (ops & Hp & _). eauto.
        - exact (pipeline_total_norepair (o_on orc) os oe ns ne body Hwalk Htot). }
      destruct Hp as [ops Hp]. exists ops, c'. rewrite Heq, Hp. reflexivity.
  Qed.
End PatienceAt.

(* the partial-correctness interface of Pipeline.v, premise-free *)
Theorem CaptureRaw_patience_proved : CaptureRaw Patience.
Proof.
  intros dl dbg repair orc os oe ns ne ops c Ho Hn Htot H.
  destruct (capture_ok_run_ok dl dbg repair orc os oe ns ne ops c H) as [s Hs].
  destruct (capture_diff_eq_patience dl dbg repair orc os oe ns ne Ho Hn Htot
              (or_introl (ex_intro _ s Hs))) as (body & c' & _ & Hwalk & Heq).
  exists body. split; [exact Hwalk|].
  rewrite Heq in H. destruct (pipeline_ops (o_on orc) repair body) as [ops0| |]; cbn [bind] in H;
    try discriminate.
  now injection H as -> _.
Qed.

Theorem CaptureRaw_all alg : CaptureRaw alg.
Proof.
  destruct alg.
  - apply AlgSim_CaptureRaw, AlgSim_myers.
  - apply CaptureRaw_patience_proved.
  - apply AlgSim_CaptureRaw, AlgSim_lcs.
Qed.

(* ---------------------------------------------------------------------- *)
(* premise-free corollaries for Patience                                   *)
(* ---------------------------------------------------------------------- *)
(* C02 + C09 *)
Theorem capture_valid_patience' dl dbg repair orc os oe ns ne ops c :
  os <= oe -> ns <= ne -> CmpTotal (o_on orc) os oe ns ne ->
  capture_diff Patience dl dbg repair orc os oe ns ne = Ok (ops, c) ->
  OpsLoose (o_on orc) os oe ns ne ops /\ Alternating ops.
Proof.
  intros Ho Hn Htot. apply capture_valid_gen; try assumption. apply CaptureRaw_patience_proved.
Qed.

(* C11 with the repair switch *)
Theorem capture_exact_repaired_patience' dl dbg orc os oe ns ne ops c :
  os <= oe -> ns <= ne -> CmpTotal (o_on orc) os oe ns ne ->
  capture_diff Patience dl dbg true orc os oe ns ne = Ok (ops, c) ->
  OpsExact (o_on orc) os oe ns ne ops.
Proof. apply capture_exact_repaired_gen. apply CaptureRaw_patience_proved. Qed.

(* C03 *)
Theorem capture_apply_patience {A} (eqb : A -> A -> bool)
        (eqb_spec : forall x y, eqb x y = true <-> x = y) (old new : list A)
        dl dbg repair orc os oe ns ne ops c :
  o_on orc = cmp_of eqb (slice_lookup old) (slice_lookup new) ->
  os <= oe -> ns <= ne -> oe <= length old -> ne <= length new ->
  capture_diff Patience dl dbg repair orc os oe ns ne = Ok (ops, c) ->
  apply_ops old new ops = seg new ns (ne - ns) /\
  apply_ops new old (map invert_op ops) = seg old os (oe - os).
Proof. apply (capture_apply eqb eqb_spec). apply CaptureRaw_patience_proved. Qed.

(* ratio <= 1, and = 1 only for identical ranges *)
Theorem capture_ratio_patience' dl dbg repair orc os oe ns ne ops c :
  os <= oe -> ns <= ne -> CmpTotal (o_on orc) os oe ns ne ->
  capture_diff Patience dl dbg repair orc os oe ns ne = Ok (ops, c) ->
  matches ops = equal_total ops /\
  equal_total ops <= Nat.min (oe - os) (ne - ns) /\
  2 * matches ops <= (oe - os) + (ne - ns) /\
  (2 * matches ops = (oe - os) + (ne - ns) ->
   SegEq (o_on orc) os ns (oe - os) /\ oe - os = ne - ns).
Proof.
  intros Ho Hn Htot H.
  destruct (capture_valid_patience' dl dbg repair orc os oe ns ne ops c Ho Hn Htot H) as [Hw Halt].
  split; [reflexivity|]. split; [eapply equal_total_le; exact Hw|].
  split; [eapply ratio_le_one; exact Hw|]. eapply ratio_one_identical; eassumption.
Qed.

(* ---------------------------------------------------------------------- *)
(* all three algorithms                                                    *)
(* ---------------------------------------------------------------------- *)
Theorem capture_valid_all alg dl dbg repair orc os oe ns ne ops c :
  os <= oe -> ns <= ne -> CmpTotal (o_on orc) os oe ns ne ->
  capture_diff alg dl dbg repair orc os oe ns ne = Ok (ops, c) ->
  OpsLoose (o_on orc) os oe ns ne ops /\ Alternating ops.
Proof. intros Ho Hn Htot. apply capture_valid_gen; try assumption. apply CaptureRaw_all. Qed.

Theorem capture_exact_repaired_all alg dl dbg orc os oe ns ne ops c :
  os <= oe -> ns <= ne -> CmpTotal (o_on orc) os oe ns ne ->
  capture_diff alg dl dbg true orc os oe ns ne = Ok (ops, c) ->
  OpsExact (o_on orc) os oe ns ne ops.
Proof. apply capture_exact_repaired_gen. apply CaptureRaw_all. Qed.

Theorem capture_apply_all {A} (eqb : A -> A -> bool)
        (eqb_spec : forall x y, eqb x y = true <-> x = y) (old new : list A)
        alg dl dbg repair orc os oe ns ne ops c :
  o_on orc = cmp_of eqb (slice_lookup old) (slice_lookup new) ->
  os <= oe -> ns <= ne -> oe <= length old -> ne <= length new ->
  capture_diff alg dl dbg repair orc os oe ns ne = Ok (ops, c) ->
  apply_ops old new ops = seg new ns (ne - ns) /\
  apply_ops new old (map invert_op ops) = seg old os (oe - os).
Proof. apply (capture_apply eqb eqb_spec). apply CaptureRaw_all. Qed.

Theorem capture_no_panic_all alg dl dbg repair orc os oe ns ne :
  os <= oe -> ns <= ne -> CmpTotal (o_on orc) os oe ns ne ->
  (alg = Patience -> SameTotal (o_oo orc) os oe /\ SameTotal (o_nn orc) ns ne) ->
  exists ops c, capture_diff alg dl dbg repair orc os oe ns ne = Ok (ops, c).
Proof.
  intros Ho Hn Htot Hs. destruct alg.
  - apply capture_no_panic; [discriminate|assumption..].
  - destruct (Hs eq_refl) as [Hoo Hnn]. apply capture_no_panic_patience; assumption.
  - apply capture_no_panic; [discriminate|assumption..].
Qed.

(* ====================================================================== *)
(* PatienceRaw: the validity argument of Proofs/Patience.v on ANY          *)
(* recording world (partial correctness; no assumption that emit succeeds) *)
(* ====================================================================== *)
Lemma Respects_no_finish {W} (wd : world W) cmp I :
  Respects wd cmp I -> Respects (no_finish wd) cmp I.
Proof.
  intros HR. split.
  - exact (rs_probe wd cmp I HR).
  - exact (rs_tick wd cmp I HR).
  - exact (rs_eq wd cmp I HR).
  - exact (rs_del wd cmp I HR).
  - exact (rs_ins wd cmp I HR).
Qed.

Lemma flush_del_ins_changes rs : Forall IsChange (fst (tr_flush_del_ins rs)).
Proof.
  unfold tr_flush_del_ins.
  destruct (r_del rs) as [[[dO dl] dn]|]; destruct (r_ins rs) as [[[io inn] il]|];
    cbn [fst]; repeat constructor.
Qed.

Section RecWorld.
  Context {W : Type}.
  Variable wd : world W.
  Variable calls : W -> list call.
  Variable Pf : W -> Prop.
  Hypothesis HRec : Recording wd calls Pf.
  Variable cmp : cmpf.

  (* the frame holds and the recorded calls grew by a prefix walk *)
  Definition PreG (is js i0s : nat) (wS : W) (i j i0 : nat) (w : W) : Prop :=
    Pf w /\ exists ext, calls w = calls wS ++ ext /\ RawPre cmp is js i0s i j i0 ext.

  Lemma PreG_init is js i0s wS : Pf wS -> PreG is js i0s wS is js i0s wS.
  Proof. intros HP. split; [exact HP|]. exists []. split; [now rewrite app_nil_r|apply RP_nil]. Qed.

  Lemma Respects_preG is js i0s wS : Respects wd cmp (PreG is js i0s wS).
  Proof.
    split.
    - intros i j i0 w b w' (HP & ext & Hc & Hp) H.
      destruct (rc_probe wd calls Pf HRec w b w' HP H) as [HP' Hc'].
      split; [exact HP'|]. exists ext. rewrite Hc'. auto.
    - intros i j i0 w k (HP & ext & Hc & Hp).
      destruct (rc_tick wd calls Pf HRec k w HP) as [HP' Hc'].
      split; [exact HP'|]. exists ext. rewrite Hc'. auto.
    - intros i j i0 w l w' (HP & ext & Hc & Hp) Hl Hseg H.
      destruct (rc_emit wd calls Pf HRec (CEq i j l) w w' I HP H) as [HP' Hc'].
      split; [exact HP'|]. exists (ext ++ [CEq i j l]). split.
      + rewrite Hc', Hc. now rewrite app_assoc.
      + now apply RP_eq with (i0 := i0).
    - intros i j i0 w l w' (HP & ext & Hc & Hp) Hl H.
      destruct (rc_emit wd calls Pf HRec (CDel i l j) w w' I HP H) as [HP' Hc'].
      split; [exact HP'|]. exists (ext ++ [CDel i l j]). split.
      + rewrite Hc', Hc. now rewrite app_assoc.
      + now apply RP_del.
    - intros i j i0 w o l w' (HP & ext & Hc & Hp) Hl Ho1 Ho2 H.
      destruct (rc_emit wd calls Pf HRec (CIns o j l) w w' I HP H) as [HP' Hc'].
      split; [exact HP'|]. exists (ext ++ [CIns o j l]). split.
      + rewrite Hc', Hc. now rewrite app_assoc.
      + now apply RP_ins.
  Qed.

  Lemma PT_rec w w' : PT wd w w' -> Pf w -> Pf w' /\ calls w' = calls w.
  Proof.
    intros Hpt HP. induction Hpt as [w|w w1 b w2 Hpt IH Hp|w w1 k Hpt IH].
    - auto.
    - destruct (IH HP) as [HP1 Hc1].
      destruct (rc_probe wd calls Pf HRec w1 b w2 HP1 Hp) as [HP2 Hc2].
      split; [exact HP2|congruence].
    - destruct (IH HP) as [HP1 Hc1].
      destruct (rc_tick wd calls Pf HRec k w1 HP1) as [HP2 Hc2].
      split; [exact HP2|congruence].
  Qed.

  Variables uo un : list nat.
  Variables os oe ns ne : nat.
  Variable w0 : W.
  Hypothesis Hoe : os <= oe.
  Hypothesis Hne : ns <= ne.
  Hypothesis Htot : CmpTotal cmp os oe ns ne.
  Hypothesis Huo : Asc uo.
  Hypothesis Hun : Asc un.
  Hypothesis Huo_r : forall a x, nth_error uo a = Some x -> os <= x < oe.
  Hypothesis Hun_r : forall a x, nth_error un a = Some x -> ns <= x < ne.

  Let PWg : world (pstate * W) := patience_world wd cmp uo un oe ne.
  Let ucmpg : cmpf := unique_cmp cmp uo un.

  (* a Myers run (with or without the finish call) continues a prefix walk *)
  Lemma myers_from (wd' : world W) a b i0 oe' ne' w w' body :
    (forall is js i0s wS, Respects wd' cmp (PreG is js i0s wS)) ->
    Pf w -> calls w = calls w0 ++ body -> RawPre cmp os ns os a b i0 body ->
    i0 <= a -> a <= oe' -> b <= ne' -> CmpTotal cmp a oe' b ne' ->
    myers_diff wd' cmp a oe' b ne' w = Ok w' ->
    exists w'' i0' body',
      i0' <= oe' /\ Pf w'' /\ calls w'' = calls w0 ++ body' /\
      RawPre cmp os ns os oe' ne' i0' body' /\ emit wd' CFin w'' = Ok w'.
  Proof.
    intros HR HP Hc Hpre Hi0 Ha Hb Htot' Hm.
    destruct (myers_respects_gen wd' cmp (PreG a b i0 w) (HR a b i0 w) (snake_spec _ wd' cmp)
                a oe' b ne' i0 w w' Ha Hb Htot' Hi0 (PreG_init a b i0 w HP) Hm)
      as (w'' & i0' & Hi0' & (HP' & ext & Hc' & Hpre') & Hfin).
    exists w'', i0', (body ++ ext). split; [exact Hi0'|]. split; [exact HP'|].
    split; [rewrite Hc', Hc; now rewrite app_assoc|]. split; [|exact Hfin].
    eapply RawPre_trans; eassumption.
  Qed.

  (* Patience-level invariant (Proofs/Patience.v's P without the anchor ghost) *)
  Definition PG (k l : nat) (sw : pstate * W) : Prop :=
    Pf (snd sw) /\
    exists body c0,
      calls (snd sw) = calls w0 ++ body /\
      RawPre cmp os ns os (old_current (fst sw)) (new_current (fst sw)) c0 body /\
      c0 <= old_current (fst sw) /\
      AtCursor uo un os ns k l (old_current (fst sw)) (new_current (fst sw)).

  Lemma PG_mono k l k' l' sw : k <= k' -> l <= l' -> PG k l sw -> PG k' l' sw.
  Proof.
    intros Hk Hl (HP & body & c0 & H1 & H2 & H3 & H4). split; [exact HP|]. exists body, c0.
    repeat split; try assumption.
    destruct H4 as [H4|(k0 & l0 & Hk0 & Hl0 & H4)]; [now left|].
    right. exists k0, l0. split; [lia|]. split; [lia|exact H4].
  Qed.

  Lemma PG_init : Pf w0 -> PG 0 0 ({| old_current := os; new_current := ns |}, w0).
  Proof.
    intros HP. split; [exact HP|]. exists [], os. cbn [fst snd old_current new_current].
    split; [now rewrite app_nil_r|]. split; [apply RP_nil|]. split; [lia|]. now left.
  Qed.

  Lemma anchor_step_G k l ps w oi ni ps' w' :
    PG k l (ps, w) -> nth_error uo k = Some oi -> nth_error un l = Some ni ->
    anchor_step wd cmp uo un k l (ps, w) = Ok (ps', w') ->
    PG (S k) (S l) (ps', w').
  Proof.
    intros (HP & body & c0 & Hlog & Hpre & Hc0 & Hat) Hk Hl H. cbn [fst snd] in *.
    unfold anchor_step in H. rewrite Hk, Hl in H. cbn [of_option bind] in H.
    set (oc := old_current ps) in *. set (nc := new_current ps) in *.
    destruct (AtCursor_bounds uo un os oe ns ne Hoe Hne Huo_r Hun_r _ _ _ _ Hat) as [Hoc Hnc].
    destruct (AtCursor_le uo un os oe ns ne Hoe Hne Huo Hun Huo_r Hun_r _ _ _ _ k l oi ni Hat
                (le_n _) (le_n _) Hk Hl) as [Hoi Hni].
    pose proof (Huo_r _ _ Hk) as Hoir. pose proof (Hun_r _ _ Hl) as Hnir.
    destruct (advance_spec wd cmp (oi - oc) oi ni oc nc w (le_n _))
      as (d & w1 & Hadv & Hseg & Hd1 & Hd2 & Hpt & _).
    { intros i j Hi Hj. apply Htot; lia. }
    specialize (Hd1 Hoi). specialize (Hd2 Hni).
    rewrite Hadv in H. cbn [bind] in H.
    destruct (PT_rec _ _ Hpt HP) as [HP1 Hc1].
    apply bind_Ok_inv in H. destruct H as (w2 & He & H).
    apply bind_Ok_inv in H. destruct H as (w3 & Hm & H).
    injection H as <- <-.
    assert (H2 : Pf w2 /\ exists body1 i1,
                   calls w2 = calls w0 ++ body1 /\
                   RawPre cmp os ns os (oc + d) (nc + d) i1 body1 /\ i1 <= oc + d).
    { destruct (oc <? oc + d) eqn:E.
      - apply Nat.ltb_lt in E. replace (oc + d - oc) with d in He by lia.
        destruct (rc_emit wd calls Pf HRec (CEq oc nc d) w1 w2 I HP1 He) as [HP2 Hc2].
        split; [exact HP2|]. exists (body ++ [CEq oc nc d]), (oc + d).
        split; [rewrite Hc2, Hc1, Hlog; now rewrite app_assoc|]. split; [|lia].
        eapply RP_eq; [lia|exact Hseg|exact Hpre].
      - apply Nat.ltb_ge in E. assert (d = 0) by lia. subst d.
        injection He as <-. split; [exact HP1|]. exists body, c0. rewrite !Nat.add_0_r.
        split; [now rewrite Hc1|]. split; [exact Hpre|lia]. }
    destruct H2 as (HP2 & body1 & i1 & Hc2 & Hpre2 & Hi1).
    destruct (myers_from (no_finish wd) (oc + d) (nc + d) i1 oi ni w2 w3 body1) as
      (w'' & i0' & body' & Hi0' & HP'' & Hc'' & Hpre'' & Hfin); try assumption.
    { intros is js i0s wS. apply Respects_no_finish, Respects_preG. }
    { eapply CmpTotal_sub; [exact Htot|lia..]. }
    cbn [emit no_finish] in Hfin. injection Hfin as <-.
    split; [exact HP''|]. exists body', i0'. cbn [fst snd old_current new_current].
    split; [exact Hc''|]. split; [exact Hpre''|]. split; [exact Hi0'|].
    right. exists k, l. repeat split; try assumption; lia.
  Qed.

  Lemma anchor_loop_G : forall len k l sw sw',
    PG k l sw -> SegEq ucmpg k l len ->
    anchor_loop wd cmp uo un len k l sw = Ok sw' ->
    PG (k + len) (l + len) sw'.
  Proof.
    induction len as [|len IH]; intros k l sw sw' HP Hseg H; cbn [anchor_loop] in H.
    - injection H as <-. now rewrite !Nat.add_0_r.
    - apply bind_Ok_inv in H. destruct H as ([ps1 w1] & Hs & H). destruct sw as [ps w].
      destruct (ucmp_true_inv cmp uo un k l) as (oi & ni & Hk & Hl & _).
      { specialize (Hseg 0 ltac:(lia)). now rewrite !Nat.add_0_r in Hseg. }
      pose proof (anchor_step_G k l ps w oi ni ps1 w1 HP Hk Hl Hs) as HP1.
      replace (k + S len) with (S k + len) by lia.
      replace (l + S len) with (S l + len) by lia.
      apply (IH (S k) (S l) (ps1, w1) sw' HP1); [|exact H].
      intros t Ht. replace (S k + t) with (k + S t) by lia.
      replace (S l + t) with (l + S t) by lia. apply Hseg. lia.
  Qed.

  Lemma PW_changes_G o sw : Forall IsChange o -> emit_all PWg o sw = Ok sw.
  Proof.
    induction 1 as [|c o Hc Ho IH]; cbn [emit_all]; [reflexivity|].
    destruct c; try contradiction; cbn [emit PWg patience_world patience_emit bind]; exact IH.
  Qed.

  Lemma PW_flush_G u v u0 rs sw sw' :
    Inv ucmpg u v u0 rs -> PG (ek rs u) (el rs v) sw ->
    emit_all PWg (fst (tr_flush_eq rs)) sw = Ok sw' -> PG u v sw'.
  Proof.
    intros HI HP H.
    destruct HI as [Hi0|eo en el0 Hel Heo Hen Hpseg Hi0|dl0 Hdl Hdo|inn il Hil Hi0 Hinn
                   |dl0 dn io inn il Hdl Hil Hdo Hinn];
      cbn [tr_flush_eq r_eq fst ek el emit_all] in *;
      try (injection H as <-; exact HP).
    cbn [emit PWg patience_world patience_emit] in H.
    apply bind_Ok_inv in H. destruct H as (sw1 & Hl & H). injection H as <-.
    pose proof (anchor_loop_G el0 eo en sw sw1 HP Hpseg Hl) as HP'.
    now rewrite Heo, Hen in HP'.
  Qed.

  Lemma PW_finish_G k l ps w ps' w' :
    PG k l (ps, w) -> emit PWg CFin (ps, w) = Ok (ps', w') ->
    exists w'' body,
      Pf w'' /\ calls w'' = calls w0 ++ body /\ RawWalk cmp oe ne os ns os body /\
      emit wd CFin w'' = Ok w'.
  Proof.
    intros (HP & body & c0 & Hlog & Hpre & Hc0 & Hat) H. cbn [fst snd] in *.
    cbn [emit PWg patience_world patience_emit] in H.
    apply bind_Ok_inv in H. destruct H as (w3 & Hm & H). injection H as _ <-.
    destruct (AtCursor_bounds uo un os oe ns ne Hoe Hne Huo_r Hun_r _ _ _ _ Hat) as [Hoc Hnc].
    destruct (myers_from wd (old_current ps) (new_current ps) c0 oe ne w w3 body) as
      (w'' & i0' & body' & Hi0' & HP'' & Hc'' & Hpre'' & Hfin); try assumption; try lia.
    { intros is js i0s wS. apply Respects_preG. }
    { eapply CmpTotal_sub; [exact Htot|lia..]. }
    exists w'', body'. split; [exact HP''|]. split; [exact Hc''|]. split; [|exact Hfin].
    eapply RawPre_walk. exact Hpre''.
  Qed.

  (* ---- the compound world Replace<Patience<wd>> ---- *)
  Variable dbg : bool.
  Let RWg : world (rstate * (pstate * W)) := replace_world PWg dbg.

  Definition JG (u v u0 : nat) (x : rstate * (pstate * W)) : Prop :=
    Inv ucmpg u v u0 (fst x) /\ PG (ek (fst x) u) (el (fst x) v) (snd x).

  Lemma PG_frame k l ps w w1 : Pf w1 -> calls w1 = calls w -> PG k l (ps, w) -> PG k l (ps, w1).
  Proof.
    intros HP1 Hc1 (HP & body & c0 & H1 & H2). split; [exact HP1|]. exists body, c0.
    cbn [fst snd] in *. split; [now rewrite Hc1|exact H2].
  Qed.

  Lemma Respects_JG : Respects RWg ucmpg JG.
  Proof.
    split.
    - intros u v u0 [rs [ps w]] b x' [HI HP] Hp. cbn [fst snd] in *.
      unfold RWg, PWg, replace_world, patience_world, lift_probe in Hp. cbn [probe fst snd] in Hp.
      destruct (probe wd w) as [b' w1] eqn:Ep. injection Hp as _ <-.
      destruct (rc_probe wd calls Pf HRec w b' w1 (proj1 HP) Ep) as [HP1 Hc1].
      split; cbn [fst snd]; [exact HI|]. eapply PG_frame; eassumption.
    - intros u v u0 [rs [ps w]] k [HI HP]. cbn [fst snd] in *.
      destruct (rc_tick wd calls Pf HRec k w (proj1 HP)) as [HP1 Hc1].
      split; cbn [fst snd tick RWg replace_world lift_tick PWg patience_world]; [exact HI|].
      eapply PG_frame; eassumption.
    - intros u v u0 [rs sw] l x' [HI HP] Hl Hseg He. cbn [fst snd] in *.
      destruct (step_eq ucmpg (u + l) (v + l) u v u0 l rs HI Hl Hseg (le_n _) (le_n _))
        as (o1 & s1 & Hstep & HI1 & _ & _).
      destruct (step_eq_shape dbg _ _ _ _ _ _ (Hstep dbg)) as [Hch Hreq].
      cbn [emit RWg replace_world] in He. rewrite replace_emit_step, (Hstep dbg) in He.
      unfold run_trace in He. cbn [fst snd] in He. rewrite (PW_changes_G _ _ Hch) in He.
      cbn [bind] in He. injection He as <-.
      split; cbn [fst snd]; [exact HI1|].
      unfold ek, el in *. rewrite Hreq. destruct (r_eq rs) as [[[eo en] el0]|]; exact HP.
    - intros u v u0 [rs sw] l x' [HI HP] Hl He. cbn [fst snd] in *.
      destruct (step_del ucmpg 0 0 u v u0 l rs HI Hl) as (o1 & s1 & Hstep & HI1 & _ & _).
      destruct (step_del_shape dbg _ _ _ _ _ _ (Hstep dbg)) as [Ho1 Hreq]. subst o1.
      cbn [emit RWg replace_world] in He. rewrite replace_emit_step, (Hstep dbg) in He.
      unfold run_trace in He. cbn [fst snd] in He.
      apply bind_Ok_inv in He. destruct He as (sw' & Hfl & He). injection He as <-.
      pose proof (PW_flush_G u v u0 rs sw sw' HI HP Hfl) as HP'.
      split; cbn [fst snd]; [exact HI1|]. unfold ek, el. rewrite Hreq.
      eapply PG_mono; [| |exact HP']; lia.
    - intros u v u0 [rs sw] o l x' [HI HP] Hl Ho1 Ho2 He. cbn [fst snd] in *.
      destruct (step_ins ucmpg 0 0 u v u0 o l rs HI Hl Ho1 Ho2) as (o1 & s1 & Hstep & HI1 & _ & _).
      destruct (step_ins_shape dbg _ _ _ _ _ _ (Hstep dbg)) as [Ho Hreq]. subst o1.
      cbn [emit RWg replace_world] in He. rewrite replace_emit_step, (Hstep dbg) in He.
      unfold run_trace in He. cbn [fst snd] in He.
      apply bind_Ok_inv in He. destruct He as (sw' & Hfl & He). injection He as <-.
      pose proof (PW_flush_G u v u0 rs sw sw' HI HP Hfl) as HP'.
      split; cbn [fst snd]; [exact HI1|]. unfold ek, el. rewrite Hreq.
      eapply PG_mono; [| |exact HP']; lia.
  Qed.

  Lemma J_fin_G u v u0 x rs' ps' w' :
    JG u v u0 x -> emit RWg CFin x = Ok (rs', (ps', w')) ->
    exists w'' body,
      Pf w'' /\ calls w'' = calls w0 ++ body /\ RawWalk cmp oe ne os ns os body /\
      emit wd CFin w'' = Ok w'.
  Proof.
    destruct x as [rs sw]. intros [HI HP] H. cbn [fst snd] in *.
    unfold RWg in H. rewrite replace_fin_eq in H.
    apply bind_Ok_inv in H. destruct H as (sw1 & Hpre & H).
    apply bind_Ok_inv in H. destruct H as ([ps2 w2] & Hfin & H). injection H as _ <- <-.
    unfold fin_pre in Hpre. rewrite emit_all_app in Hpre.
    apply bind_Ok_inv in Hpre. destruct Hpre as (sw0 & Hfl & Hch).
    rewrite (PW_changes_G _ _ (flush_del_ins_changes _)) in Hch. injection Hch as <-.
    pose proof (PW_flush_G u v u0 rs sw sw0 HI HP Hfl) as HP'. destruct sw0 as [ps0 w1].
    eapply PW_finish_G; eassumption.
  Qed.

  Lemma outer_valid_G rs' ps' w' :
    Pf w0 ->
    myers_diff RWg ucmpg 0 (length uo) 0 (length un)
               (rstate0, ({| old_current := os; new_current := ns |}, w0)) = Ok (rs', (ps', w')) ->
    exists w'' body,
      Pf w'' /\ calls w'' = calls w0 ++ body /\ RawWalk cmp oe ne os ns os body /\
      emit wd CFin w'' = Ok w'.
  Proof.
    intros HP0 H.
    assert (HJ0 : JG 0 0 0 (rstate0, ({| old_current := os; new_current := ns |}, w0))).
    { split; cbn [fst snd]; [now apply Inv_none|exact (PG_init HP0)]. }
    destruct (myers_respects RWg ucmpg JG 0 (length uo) 0 (length un) _ _
                Respects_JG (snake_spec _ RWg ucmpg) (Nat.le_0_l _) (Nat.le_0_l _)
                (CmpTotal_ucmp cmp uo un os oe ns ne Hoe Hne Htot Huo_r Hun_r) HJ0 H)
      as (x'' & u0 & _ & HJ & Hfin).
    eapply J_fin_G; eassumption.
  Qed.
End RecWorld.

(* the premise of Pipeline.v's Patience theorems *)
Theorem PatienceRaw_proved : PatienceRaw.
Proof.
  intros W wd calls Pf dbg orc os oe ns ne w w' HRec Ho Hn Htot HPw H.
  unfold patience_diff in H.
  apply bind_Ok_inv in H. destruct H as (uo & Huo & H).
  apply bind_Ok_inv in H. destruct H as (un & Hun & H).
  apply bind_Ok_inv in H. destruct H as ([rs' [ps' w1]] & Hm & H).
  injection H as <-.
  destruct (unique_asc (o_oo orc) os oe uo Huo) as [Ha1 Hr1].
  destruct (unique_asc (o_nn orc) ns ne un Hun) as [Ha2 Hr2].
  destruct (outer_valid_G wd calls Pf HRec (o_on orc) uo un os oe ns ne w Ho Hn Htot
              Ha1 Ha2 Hr1 Hr2 dbg rs' ps' w1 HPw Hm) as (w'' & body & HP'' & Hc & Hwalk & Hfin).
  exists w'', body. auto.
Qed.

Print Assumptions patience_diff_finsim.
Print Assumptions PatienceRaw_proved.
Print Assumptions AlgSim_patience_false.
Print Assumptions capture_diff_eq_patience.
Print Assumptions CaptureRaw_patience_proved.
Print Assumptions capture_valid_patience'.
Print Assumptions capture_exact_repaired_patience'.
Print Assumptions capture_apply_patience.
Print Assumptions capture_ratio_patience'.
Print Assumptions capture_no_panic_patience.
Print Assumptions capture_ok_iff_raw_ok.
Print Assumptions capture_valid_all.
Print Assumptions capture_exact_repaired_all.
Print Assumptions capture_apply_all.
Print Assumptions capture_no_panic_all.
