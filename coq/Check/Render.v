(* Check/Render.v — renders results of the model as strings INSIDE Coq, in the
   format of the OCaml driver, so that a sample of every run's cases can be
   evaluated with vm_compute and compared with the extracted model + driver
   glue (cross-check of the extraction and of the driver's parsing/printing;
   see tools/incoq.py).  Definitions only. *)
From Coq Require Import String DecimalString List Arith.
From Similar Require Import Model.Base Model.Utils Model.Myers Model.Hooks Model.Capture Model.TextDiff.
Import ListNotations.
Local Open Scope string_scope.

Definition nat_s (n : nat) : string := NilEmpty.string_of_uint (Nat.to_uint n).

Definition call_s (c : call) : string :=
  match c with
  | CEq a b l => "E:" ++ nat_s a ++ ":" ++ nat_s b ++ ":" ++ nat_s l
  | CDel a l b => "D:" ++ nat_s a ++ ":" ++ nat_s l ++ ":" ++ nat_s b
  | CIns a b l => "I:" ++ nat_s a ++ ":" ++ nat_s b ++ ":" ++ nat_s l
  | CRep a al b bl => "R:" ++ nat_s a ++ ":" ++ nat_s al ++ ":" ++ nat_s b ++ ":" ++ nat_s bl
  | CFin => "F"
  end.

Fixpoint join_s (l : list string) : string :=
  match l with
  | [] => ""
  | [x] => x
  | x :: r => x ++ "," ++ join_s r
  end.

Definition calls_s (cs : list call) : string :=
  match cs with [] => "-" | _ => join_s (map call_s cs) end.

Definition orc_of (old new : list nat) : oracles :=
  oracles_of_items Nat.eqb (slice_lookup old) (slice_lookup new).

(* deadline: None, or expiry at probe k *)
Definition dl_of (o : option nat) : deadline :=
  match o with None => None | Some k => Some (clock_at k) end.

Definition render_raw (alg : algorithm) (dlo : option nat) (dbg : bool) (old new : list nat)
           (os oe ns ne : nat) : string :=
  match raw_trace alg (dl_of dlo) dbg (orc_of old new) os oe ns ne with
  | Ok (cs, c) =>
      "calls=" ++ calls_s cs ++ " err=0 probes=" ++
      nat_s (match dlo with None => 0 | Some _ => probes c end) ++
      " cmps=" ++ nat_s (cmps c) ++ " post=" ++ nat_s (post_cmps c) ++ " ss=1"
  | Panic => "PANIC"
  | OutOfFuel => "OUTOFFUEL"
  end.

(* the ratio bits are computed by the driver in floating point; here only ops and probes *)
Definition render_capture (alg : algorithm) (dlo : option nat) (dbg repair : bool) (old new : list nat)
           (os oe ns ne : nat) : string :=
  match capture_diff alg (dl_of dlo) dbg repair (orc_of old new) os oe ns ne with
  | Ok (ops, c) =>
      "ops=" ++ calls_s (map op_to_call ops) ++ " probes=" ++
      nat_s (match dlo with None => 0 | Some _ => probes c end)
  | Panic => "PANIC"
  | OutOfFuel => "OUTOFFUEL"
  end.

(* ---- text layer: token boundaries of the four modelled tokenizers ---- *)
From Coq Require Import NArith.
From Similar Require Import Model.Tokenize.

Definition toks_s (ts : list token) : string :=
  match ts with
  | [] => "toks=-"
  | _ => "toks=" ++ join_s (map (fun t : token => nat_s (fst t) ++ ":" ++ nat_s (snd t)) ts)
  end.

Definition render_tok (bytes_mode : bool) (k : tokenizer) (bs : list N) : string :=
  toks_s (tokenize bytes_mode k bs).
