(* Check/Tokens.v — boolean checkers for tokenizations (C06): lossless
   partition, documented token shape.  Executable; reflection lemmas against
   Prop specs are in Proofs/Tokenize.v. *)
From Coq Require Import NArith.
From Similar Require Import Model.Base Model.Utf8 Model.Tokenize.

(* tokens are non-empty, consecutive, and cover [pos, total) *)
Fixpoint check_partition (toks : list token) (pos total : nat) : bool :=
  match toks with
  | [] => pos =? total
  | (s, e) :: r => (s =? pos) && (s <? e) && (e <=? total) && check_partition r e total
  end.

Definition is_cr (b : N) : bool := N.eqb b 13.
Definition is_lf (b : N) : bool := N.eqb b 10.
Definition not_nl (b : N) : bool := negb (is_cr b || is_lf b).

(* one line token: no line break inside; ends with exactly one terminator
   LF, CRLF or lone CR (a CR directly followed by an LF in the input is not a
   terminator by itself); only the last token may lack a terminator *)
Definition line_shape (t : list N) (next_is_lf : bool) (is_last : bool) : bool :=
  match rev t with
  | [] => false
  | b1 :: r1 =>
      if is_lf b1 then
        match r1 with
        | b2 :: r2 => if is_cr b2 then forallb not_nl r2 else forallb not_nl r1
        | [] => true
        end
      else if is_cr b1 then negb next_is_lf && forallb not_nl r1
      else is_last && forallb not_nl t
  end.

Fixpoint check_lines_shape (bs : list N) (toks : list token) : bool :=
  match toks with
  | [] => true
  | t :: r =>
      let next_is_lf :=
        match r with
        | t2 :: _ => match tok_bytes bs t2 with b :: _ => is_lf b | [] => false end
        | [] => false
        end in
      line_shape (tok_bytes bs t) next_is_lf (match r with [] => true | _ => false end) &&
      check_lines_shape bs r
  end.

(* consume the decoded chars that lie inside a token ending at e: they must be
   aligned with the token end and all of class k; returns the remaining chars *)
Fixpoint take_class (cls : N -> bool) (k : bool) (cs : list dchar) (e : nat) : option (list dchar) :=
  match cs with
  | [] => None
  | c :: r =>
      if Bool.eqb (cls (dc_cp c)) k then
        if dc_end c =? e then Some r
        else if dc_end c <? e then take_class cls k r e
        else None
      else None
  end.

(* maximal runs of chars of one class: every token is a non-empty run of one
   class, aligned with char boundaries, and the next token starts with the
   other class *)
Fixpoint check_runs_shape (cls : N -> bool) (cs : list dchar) (toks : list token) : bool :=
  match toks with
  | [] => match cs with [] => true | _ => false end
  | (s, e) :: r =>
      match cs with
      | [] => false
      | c :: _ =>
          (dc_start c =? s) &&
          let k := cls (dc_cp c) in
          match take_class cls k cs e with
          | Some rest =>
              match rest with
              | c2 :: _ => negb (Bool.eqb (cls (dc_cp c2)) k) && check_runs_shape cls rest r
              | [] => check_runs_shape cls rest r
              end
          | None => false
          end
      end
  end.

Definition check_words_shape (bs : list N) (toks : list token) : bool :=
  check_runs_shape is_whitespace (decode bs) toks.
Definition check_lnl_shape (bs : list N) (toks : list token) : bool :=
  check_runs_shape is_newline_cp (decode bs) toks.

(* each token is exactly one decoded char (a scalar value, or in byte mode one
   maximal invalid subpart) *)
Fixpoint check_chars_shape_from (cs : list dchar) (toks : list token) : bool :=
  match cs, toks with
  | [], [] => true
  | c :: r, (s, e) :: tr => (dc_start c =? s) && (dc_end c =? e) && check_chars_shape_from r tr
  | _, _ => false
  end.
Definition check_chars_shape (bs : list N) (toks : list token) : bool :=
  check_chars_shape_from (decode bs) toks.

Definition check_tokens (k : tokenizer) (bs : list N) (toks : list token) : bool :=
  check_partition toks 0 (length bs) &&
  match k with
  | TkLines => check_lines_shape bs toks
  | TkLinesNewlines => check_lnl_shape bs toks
  | TkWords => check_words_shape bs toks
  | TkChars => check_chars_shape bs toks
  end.
