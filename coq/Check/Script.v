(* Check/Script.v — boolean checkers for edit scripts (executable; reflection
   lemmas against Spec/Script.v are in Proofs/CheckScript.v). *)
From Similar Require Import Model.Base Spec.Script.

Section Checkers.
  Variable cmp : cmpf.   (* new[j] == old[i]; Panic = out of bounds *)

  (* old[o..o+l) and new[n..n+l) are element-wise equal (and in bounds) *)
  Fixpoint seg_eq (o n l : nat) : bool :=
    match l with
    | 0 => true
    | S l' => match cmp o n with
              | Ok true => seg_eq (S o) (S n) l'
              | _ => false
              end
    end.

  (* C01: raw call sequence.  (i0,j0) = cursor at the start of the current run
     of changes (= the cursor itself outside a run). *)
  Fixpoint check_raw_walk (oe ne : nat) (i j i0 j0 : nat) (cs : list call) : bool :=
    match cs with
    | [] => false
    | [CFin] => (i =? oe) && (j =? ne)
    | CEq o n l :: r =>
        (0 <? l) && (o =? i) && (n =? j) && seg_eq i j l &&
        check_raw_walk oe ne (i + l) (j + l) (i + l) (j + l) r
    | CDel o l n :: r =>
        let '(i1, j1) := run_ends i j cs in
        (0 <? l) && (o =? i) && (j0 <=? n) && (n <=? j1) && (i + l <=? oe) &&
        check_raw_walk oe ne (i + l) j i0 j0 r
    | CIns o n l :: r =>
        let '(i1, j1) := run_ends i j cs in
        (0 <? l) && (n =? j) && (i0 <=? o) && (o <=? i1) && (j + l <=? ne) &&
        check_raw_walk oe ne i (j + l) i0 j0 r
    | CRep _ _ _ _ :: _ => false
    | CFin :: _ => false
    end.

  Definition check_raw (os oe ns ne : nat) (cs : list call) : bool :=
    check_raw_walk oe ne os ns os ns cs.

  (* finish exactly once and last *)
  Fixpoint check_finish_last (cs : list call) : bool :=
    match cs with
    | [] => false
    | [CFin] => true
    | CFin :: _ => false
    | _ :: r => check_finish_last r
    end.

  (* C02: op list consumes both ranges left to right; carried indices ignored.
     [exact] = true additionally demands every index equal the cursor (C11). *)
  Fixpoint check_ops_walk (exact : bool) (oe ne : nat) (i j : nat) (ops : list op) : bool :=
    match ops with
    | [] => (i =? oe) && (j =? ne)
    | Equal o n l :: r =>
        (o =? i) && (n =? j) && seg_eq i j l && check_ops_walk exact oe ne (i + l) (j + l) r
    | Delete o l n :: r =>
        (o =? i) && (negb exact || (n =? j)) && (i + l <=? oe) &&
        check_ops_walk exact oe ne (i + l) j r
    | Insert o n l :: r =>
        (n =? j) && (negb exact || (o =? i)) && (j + l <=? ne) &&
        check_ops_walk exact oe ne i (j + l) r
    | Replace o ol n nl :: r =>
        (o =? i) && (n =? j) && (i + ol <=? oe) && (j + nl <=? ne) &&
        check_ops_walk exact oe ne (i + ol) (j + nl) r
    end.

  Definition check_ops_loose (os oe ns ne : nat) (ops : list op) : bool :=
    check_ops_walk false oe ne os ns ops.
  Definition check_ops_exact (os oe ns ne : nat) (ops : list op) : bool :=
    check_ops_walk true oe ne os ns ops.

  (* C09: normal form *)
  Definition op_nonempty (x : op) : bool :=
    match x with
    | Equal _ _ l => 0 <? l
    | Delete _ l _ => 0 <? l
    | Insert _ _ l => 0 <? l
    | Replace _ ol _ nl => (0 <? ol) && (0 <? nl)
    end.

  Definition is_equal (x : op) : bool := match x with Equal _ _ _ => true | _ => false end.

  Fixpoint check_alternating (ops : list op) : bool :=
    match ops with
    | [] => true
    | x :: r =>
        op_nonempty x &&
        match r with
        | [] => true
        | y :: _ => negb (Bool.eqb (is_equal x) (is_equal y)) && check_alternating r
        end
    end.

  (* an Insert followed by an Equal sits at its latest position *)
  Fixpoint check_insert_latest (ops : list op) : bool :=
    match ops with
    | [] => true
    | x :: r =>
        match x, r with
        | Insert _ n _, Equal eo _ _ :: _ =>
            match cmp eo n with Ok false => check_insert_latest r | _ => false end
        | _, _ => check_insert_latest r
        end
    end.

  Definition check_normal (ops : list op) : bool :=
    check_alternating ops && check_insert_latest ops.

  (* length of a longest common subsequence of old[os..oe) and new[ns..ne):
     row-by-row dynamic programme, independent of the model's make_table.
     row = L(i, j..ne) for the current i, as a list over j (plus trailing 0) *)
  Fixpoint lcs_row (i : nat) (j len : nat) (below : list nat) : list nat :=
    match len with
    | 0 => [0]
    | S len' =>
        let r := lcs_row i (S j) len' (tl below) in
        let v := match cmp i j with
                 | Ok true => S (hd 0 (tl below))
                 | _ => Nat.max (hd 0 below) (hd 0 r)
                 end in
        v :: r
    end.

  Fixpoint lcs_rows (i cnt : nat) (ns nlen : nat) : list nat :=
    match cnt with
    | 0 => repeat 0 (S nlen)
    | S cnt' => lcs_row i ns nlen (lcs_rows (S i) cnt' ns nlen)
    end.

  Definition lcs_len (os oe ns ne : nat) : nat :=
    hd 0 (lcs_rows os (oe - os) ns (ne - ns)).

  Definition check_minimal (os oe ns ne : nat) (ops : list op) : bool :=
    deleted ops + inserted ops + 2 * lcs_len os oe ns ne =? (oe - os) + (ne - ns).
End Checkers.
