(* Spec/Group.v — declarative reference for group_diff_ops (property C12).
   Definitions only (no proofs); everything here is executable or a plain
   inductive predicate.  Independent of Model/Capture.v: only the datatypes of
   Model/Base.v are used.

   Reading of the property.  Let ops be an alternating op list and n a radius.
   A "change" is a non-Equal op.  Changes separated by an Equal of length
   L <= 2n belong to the same group and that Equal is kept whole; an Equal of
   length L > 2n between two changes separates two groups.  A group is
     ctx_before(E1) ++ core ++ ctx_after(E2)
   where core runs from the first to the last change of the group, E1 is the
   Equal op immediately before core in ops (if any) and E2 the Equal op
   immediately after core in ops (if any);
     ctx_before (Equal o nn L) = Equal (o + (L - min n L)) (nn + (L - min n L)) (min n L)
     ctx_after  (Equal o nn L) = Equal o nn (min n L).
   No change => no group. *)
From Similar Require Import Model.Base.

Definition is_eq (x : op) : bool :=
  match x with Equal _ _ _ => true | _ => false end.

(* the changes of an op list, in order *)
Definition changes (ops : list op) : list op := filter (fun x => negb (is_eq x)) ops.

(* last min(n,l) items of Equal o nn l *)
Definition ctx_before (n o nn l : nat) : op :=
  Equal (o + (l - Nat.min n l)) (nn + (l - Nat.min n l)) (Nat.min n l).

(* first min(n,l) items of Equal o nn l *)
Definition ctx_after (n o nn l : nat) : op := Equal o nn (Nat.min n l).

(* put x at the front of the first group *)
Definition cons_head (x : op) (gs : list (list op)) : list (list op) :=
  match gs with
  | [] => [[x]]
  | g :: gs' => (x :: g) :: gs'
  end.

(* [inside n ops]: a group is open and its last element so far is directly
   followed by ops.  Result: (remainder of the open group) :: later groups.
   - a change joins the open group;
   - the trailing Equal (nothing after it) closes the group with ctx_after;
   - an Equal of length <= 2n followed by more ops is kept whole;
   - an Equal of length > 2n followed by more ops closes the group with
     ctx_after and opens the next one with ctx_before. *)
Fixpoint inside (n : nat) (ops : list op) : list (list op) :=
  match ops with
  | [] => [[]]
  | Equal o nn l :: rest =>
      match rest with
      | [] => [[ctx_after n o nn l]]
      | _ :: _ =>
          if l <=? 2 * n then cons_head (Equal o nn l) (inside n rest)
          else [ctx_after n o nn l] :: cons_head (ctx_before n o nn l) (inside n rest)
      end
  | x :: rest => cons_head x (inside n rest)
  end.

(* the reference: no change => no group; a leading Equal contributes
   ctx_before to the first group; otherwise the first group starts at the
   first change *)
Definition group_ref (ops : list op) (n : nat) : list (list op) :=
  match ops with
  | [] => []
  | [Equal _ _ _] => []
  | Equal o nn l :: rest => cons_head (ctx_before n o nn l) (inside n rest)
  | _ => inside n ops
  end.

(* ------------------------------------------------------------------ *)
(* Relational form of the same specification (cluster decomposition).  *)

(* what may follow a change inside a cluster: changes, and Equals of length
   <= 2n each directly followed by a change *)
Inductive CoreTail (n : nat) : list op -> Prop :=
| CT_nil : CoreTail n []
| CT_chg c t : is_eq c = false -> CoreTail n t -> CoreTail n (c :: t)
| CT_eq o nn l c t :
    l <= 2 * n -> is_eq c = false -> CoreTail n t ->
    CoreTail n (Equal o nn l :: c :: t).

(* [GroupTail n ops gs]: ops directly follows a change of an open group;
   gs = (remainder of that group) :: later groups *)
Inductive GroupTail (n : nat) : list op -> list (list op) -> Prop :=
| GT_end t : CoreTail n t -> GroupTail n t [t]
| GT_trail t o nn l :
    CoreTail n t ->
    GroupTail n (t ++ [Equal o nn l]) [t ++ [ctx_after n o nn l]]
| GT_split t o nn l c rest g gs :
    CoreTail n t -> 2 * n < l -> is_eq c = false ->
    GroupTail n rest (g :: gs) ->
    GroupTail n (t ++ Equal o nn l :: c :: rest)
              ((t ++ [ctx_after n o nn l]) :: (ctx_before n o nn l :: c :: g) :: gs).

Inductive GroupSpec (n : nat) : list op -> list (list op) -> Prop :=
| GS_nil : GroupSpec n [] []
| GS_eq o nn l : GroupSpec n [Equal o nn l] []
| GS_lead o nn l c rest g gs :
    is_eq c = false -> GroupTail n rest (g :: gs) ->
    GroupSpec n (Equal o nn l :: c :: rest) ((ctx_before n o nn l :: c :: g) :: gs)
| GS_chg c rest g gs :
    is_eq c = false -> GroupTail n rest (g :: gs) ->
    GroupSpec n (c :: rest) ((c :: g) :: gs).

(* number of Equal ops of length > 2n that are followed by at least one op *)
Fixpoint long_seps (n : nat) (ops : list op) : nat :=
  match ops with
  | [] => 0
  | Equal _ _ l :: rest =>
      match rest with
      | [] => 0
      | _ :: _ => (if l <=? 2 * n then 0 else 1) + long_seps n rest
      end
  | _ :: rest => long_seps n rest
  end.

(* ... not counting a leading Equal: the Equal ops of length > 2n that lie
   between two changes *)
Definition interior_long (n : nat) (ops : list op) : nat :=
  match ops with
  | Equal _ _ _ :: rest => long_seps n rest
  | _ => long_seps n ops
  end.

(* the ops of a group that are neither its first nor its last element *)
Definition interior (g : list op) : list op := removelast (tl g).

(* ------------------------------------------------------------------ *)
(* Executable checker: decides gs = group_ref ops n.                    *)

Definition op_eqb (x y : op) : bool :=
  match x, y with
  | Equal a b c, Equal a' b' c' => (a =? a') && (b =? b') && (c =? c')
  | Delete a b c, Delete a' b' c' => (a =? a') && (b =? b') && (c =? c')
  | Insert a b c, Insert a' b' c' => (a =? a') && (b =? b') && (c =? c')
  | Replace a b c d, Replace a' b' c' d' => (a =? a') && (b =? b') && (c =? c') && (d =? d')
  | _, _ => false
  end.

Fixpoint list_eqb {A : Type} (eqb : A -> A -> bool) (l1 l2 : list A) : bool :=
  match l1, l2 with
  | [], [] => true
  | x :: r1, y :: r2 => eqb x y && list_eqb eqb r1 r2
  | _, _ => false
  end.

Definition check_groups (ops : list op) (n : nat) (gs : list (list op)) : bool :=
  list_eqb (list_eqb op_eqb) gs (group_ref ops n).
