(* Spec/SnakeSpec.v — what find_middle_snake must satisfy for conquer to be
   valid, terminating, panic-free and minimal.  Definitions only.
   Proofs/MyersSnake.v proves [SnakeSpec] for the model's find_middle_snake;
   Proofs/MyersConquer.v derives the conquer-level theorems from it. *)
From Similar Require Import Model.Base Model.Utils Model.Myers Spec.Script Spec.EditGraph.

(* cmp never panics on the box *)
Definition CmpTotal (cmp : cmpf) (os oe ns ne : nat) : Prop :=
  forall i j, os <= i < oe -> ns <= j < ne -> exists b, cmp i j = Ok b.

(* the box conquer hands to find_middle_snake: both sides non-empty, first
   items differ, last items differ *)
Definition Stripped (cmp : cmpf) (os oe ns ne : nat) : Prop :=
  os < oe /\ ns < ne /\ cmp os ns = Ok false /\ cmp (oe - 1) (ne - 1) = Ok false.

(* minimal number of deletions + insertions turning old[os..oe) into new[ns..ne) *)
Definition BoxCost (cmp : cmpf) (os oe ns ne : nat) (D : nat) : Prop :=
  MinCost (dg_of cmp os oe ns ne) (oe - os) (ne - ns) D.

(* V as allocated by diff_deadline for max_d = md: vec![0; 2*md], offset md *)
Definition VOk (md : nat) (v : V) : Prop := vlen v = 2 * md /\ voff v = Z.of_nat md.

(* w' is w after some deadline probes and comparison ticks (nothing emitted) *)
Inductive PT {W} (wd : world W) : W -> W -> Prop :=
| PT_refl w : PT wd w w
| PT_probe w w1 b w2 : PT wd w w1 -> probe wd w1 = (b, w2) -> PT wd w w2
| PT_tick w w1 k : PT wd w w1 -> PT wd w (tick wd k w1).

Definition SnakeSpec {W} (wd : world W) (cmp : cmpf) : Prop :=
  forall os oe ns ne md vf vb w,
    Stripped cmp os oe ns ne -> CmpTotal cmp os oe ns ne ->
    max_d (oe - os) (ne - ns) <= md -> VOk md vf -> VOk md vb ->
    exists r vf' vb' w',
      find_middle_snake wd cmp os oe ns ne vf vb w = Ok (r, vf', vb', w') /\
      VOk md vf' /\ VOk md vb' /\ PT wd w w' /\
      match r with
      | Some (x, y) =>
          os <= x <= oe /\ ns <= y <= ne /\
          (x, y) <> (os, ns) /\ (x, y) <> (oe, ne) /\
          (forall D D1 D2,
              BoxCost cmp os oe ns ne D -> BoxCost cmp os x ns y D1 -> BoxCost cmp x oe y ne D2 ->
              D = D1 + D2)
      | None =>
          (* only a deadline makes the search give up *)
          exists w1 w2, PT wd w w1 /\ probe wd w1 = (true, w2)
      end.
