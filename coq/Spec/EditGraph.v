(* Spec/EditGraph.v — the edit graph explored by the Myers middle-snake search.
   Definitions only (no proofs).

   One search works on a box of n x m items.  Nodes are all of N x N (the code
   never clamps x to n or y to m: it really explores the unbounded quadrant),
   horizontal and vertical edges cost 1 and exist everywhere, a diagonal edge
   (x,y) -> (x+1,y+1) costs 0 and exists only where [dg x y = true], which
   implies x < n, y < m.  The forward sweep uses dg x y := "a[x] == b[y]",
   the backward sweep the same graph on the reversed sequences:
   dg_rev x y := dg (n-1-x) (m-1-y). *)
From Similar Require Import Model.Base.

Section EditGraph.
  Variables n m : nat.
  Variable dg : nat -> nat -> bool.

  Definition DgBox : Prop := forall x y, dg x y = true -> x < n /\ y < m.

  (* Reach c x y: some path from (0,0) to (x,y) has exactly c non-diagonal edges *)
  Inductive Reach : nat -> nat -> nat -> Prop :=
  | R_start : Reach 0 0 0
  | R_diag c x y : Reach c x y -> dg x y = true -> Reach c (S x) (S y)
  | R_right c x y : Reach c x y -> Reach (S c) (S x) y
  | R_down c x y : Reach c x y -> Reach (S c) x (S y).

  (* (x,y) lies on diagonal k *)
  Definition OnDiag (k : Z) (x y : nat) : Prop := (Z.of_nat x - Z.of_nat y = k)%Z.

  (* x is the furthest reaching x of a d-path on diagonal k *)
  Definition FR (d : nat) (k : Z) (x : nat) : Prop :=
    (exists y, OnDiag k x y /\ Reach d x y) /\
    (forall x' y', OnDiag k x' y' -> Reach d x' y' -> x' <= x).

  (* number of consecutive diagonal edges starting at (x,y) *)
  Fixpoint slide (fuel x y : nat) : nat :=
    match fuel with
    | 0 => 0
    | S f => if dg x y then S (slide f (S x) (S y)) else 0
    end.

  (* the start point chosen by the sweep in round d on diagonal k, given the
     previous round's values prev(k-1), prev(k+1):
       if k == -d || (k != d && prev(k-1) < prev(k+1)) { prev(k+1) } else { prev(k-1) + 1 } *)
  Definition pick_spec (d : nat) (k : Z) (lo hi : nat) : nat :=
    if (k =? - Z.of_nat d)%Z then hi
    else if (k =? Z.of_nat d)%Z then S lo
    else if lo <? hi then hi else S lo.

  (* cost of a cheapest path to (x,y) is c *)
  Definition MinCost (x y c : nat) : Prop :=
    Reach c x y /\ forall c', Reach c' x y -> c <= c'.
End EditGraph.

(* the reversed graph *)
Definition dg_rev (n m : nat) (dg : nat -> nat -> bool) : nat -> nat -> bool :=
  fun x y => if (x <? n) && (y <? m) then dg (n - 1 - x) (m - 1 - y) else false.

(* the graph of a box os..oe x ns..ne under a comparison oracle *)
Definition dg_of (cmp : cmpf) (os oe ns ne : nat) : nat -> nat -> bool :=
  fun x y =>
    if (x <? oe - os) && (y <? ne - ns) then
      match cmp (os + x) (ns + y) with Ok true => true | _ => false end
    else false.
