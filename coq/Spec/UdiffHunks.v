(* Spec/UdiffHunks.v — what a rendered unified diff denotes (property C05).
   Definitions only.

   [model_hunks] builds, for an op list and a context radius, the hunk records
   (Spec/Patch.v) of the unified diff WITHOUT going through text: header
   numbers from the first and the last op of each group by the format's
   convention, body = the expansion of the group's ops into (tag, line) items
   (the specification [expand_all] of Proofs/Iter.v, which is independent of
   the iterator state machine).

   [print_udiff] is a printer of hunk records as unified-diff text, written
   independently of the renderer's model (Model/TextDiff.v); only the decimal
   printer [dec] and [tag_char] are shared.

   Property C05 then splits into
     render_udiff ... = Ok (print_udiff ... hunks)        (Proofs/Udiff.v)
     check_patch n hunks old new = true                    (Proofs/Udiff.v). *)
From Coq Require Import NArith.
From Similar Require Import Model.Base Model.Iter Model.Capture Model.Tokenize
     Model.TextDiff Spec.Patch Proofs.Iter.

(* the format's convention: an empty range shows the line BEFORE it (its
   0-based start), a non-empty range its 1-based first line *)
Definition shown_start (start len : nat) : nat :=
  if len =? 0 then start else start + 1.

Definition item_of_change (c : change (list N)) : ctag * list N := (ch_tag c, ch_val c).

Definition nonempty_group (g : list op) : bool :=
  match g with [] => false | _ :: _ => true end.

Section Hunks.
  Variables old new : list (list N).       (* the line tokens of both sides *)

  (* the body lines of a group of ops; None = some op reads out of bounds *)
  Definition group_body (g : list op) : option (list (ctag * list N)) :=
    option_map (map item_of_change) (expand_all (slice_lookup old) (slice_lookup new) g).

  (* Panic on an empty group (there is no first op) and on out-of-bounds ops *)
  Definition hunk_of_group (g : list op) : res hunk :=
    match g with
    | [] => Panic
    | first :: _ =>
        let lst := last g first in
        let olen := op_old_end lst - op_old_start first in
        let nlen := op_new_end lst - op_new_start first in
        do b <- of_option (group_body g);
        Ok {| h_oshown := shown_start (op_old_start first) olen; h_olen := olen;
              h_nshown := shown_start (op_new_start first) nlen; h_nlen := nlen;
              h_body := b |}
    end.

  Fixpoint hunks_of_groups (gs : list (list op)) : res (list hunk) :=
    match gs with
    | [] => Ok []
    | g :: r => do h <- hunk_of_group g; do hs <- hunks_of_groups r; Ok (h :: hs)
    end.

  Definition model_hunks (ops : list op) (radius : nat) : res (list hunk) :=
    hunks_of_groups (filter nonempty_group (group_diff_ops ops radius)).
End Hunks.

(* ------------------------------------------------------------------ printer *)
Definition txt_hunk_open : list N := [64; 64; 32; 45]%N.         (* "@@ -" *)
Definition txt_hunk_mid : list N := [32; 43]%N.                  (* " +" *)
Definition txt_hunk_close : list N := [32; 64; 64; 10]%N.        (* " @@\n" *)
Definition txt_old_file : list N := [45; 45; 45; 32]%N.          (* "--- " *)
Definition txt_new_file : list N := [43; 43; 43; 32]%N.          (* "+++ " *)
(* "\n\\ No newline at end of file\n" *)
Definition txt_no_newline_marker : list N :=
  [10; 92; 32; 78; 111; 32; 110; 101; 119; 108; 105; 110; 101; 32; 97; 116; 32;
   101; 110; 100; 32; 111; 102; 32; 102; 105; 108; 101; 10]%N.

(* what follows a body line that lacks a trailing newline *)
Definition missing_newline_text (hint : bool) : list N :=
  if hint then txt_no_newline_marker else [10%N].

(* "a,b", with the shorthand "a" for a count of 1 *)
Definition print_range (shown len : nat) : list N :=
  if len =? 1 then dec shown else dec shown ++ [44%N] ++ dec len.

Definition print_item (hint : bool) (it : ctag * list N) : list N :=
  tag_char (fst it) :: snd it ++
  (if ends_with_newline (snd it) then [] else missing_newline_text hint).

Definition print_body (hint : bool) (b : list (ctag * list N)) : list N :=
  flat_map (print_item hint) b.

(* A hunk without body lines prints nothing at all (the renderer writes the
   "@@" line together with the first body line).  Hunks of non-empty ops
   always have a body. *)
Definition print_hunk (hint : bool) (h : hunk) : list N :=
  match h_body h with
  | [] => []
  | _ :: _ =>
      txt_hunk_open ++ print_range (h_oshown h) (h_olen h) ++
      txt_hunk_mid ++ print_range (h_nshown h) (h_nlen h) ++ txt_hunk_close ++
      print_body hint (h_body h)
  end.

Definition print_hunks (hint : bool) (hs : list hunk) : list N :=
  flat_map (print_hunk hint) hs.

Definition file_header (a b : list N) : list N :=
  txt_old_file ++ a ++ [10%N] ++ txt_new_file ++ b ++ [10%N].

(* the file header comes first, and only when there is at least one hunk *)
Definition print_udiff (hint : bool) (header : option (list N * list N)) (hs : list hunk)
  : list N :=
  match hs, header with
  | _ :: _, Some (a, b) => file_header a b ++ print_hunks hint hs
  | _, _ => print_hunks hint hs
  end.
