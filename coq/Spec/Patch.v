(* Spec/Patch.v — a strict applier for parsed unified-diff hunks, written
   independently of the renderer's model (Model/TextDiff.v).  Definitions only.
   A line is its bytes including its terminator (if it has one). *)
From Coq Require Import NArith.
From Similar Require Import Model.Base Model.Iter Model.TextDiff.

Record hunk : Type := {
  h_oshown : nat; h_olen : nat;     (* "-a,b": shown start and count of old-side lines *)
  h_nshown : nat; h_nlen : nat;     (* "+c,d" *)
  h_body : list (ctag * list N)     (* ' ' / '-' / '+' lines, in order *)
}.

(* the format's convention: a count of 0 shows the line BEFORE the range *)
Definition true_start (shown len : nat) : option nat :=
  if len =? 0 then Some shown else if shown =? 0 then None else Some (shown - 1).

(* walk a hunk body: cur = next old line, returns (cur', produced new lines, #old-side, #new-side) *)
Fixpoint apply_body (old : list (list N)) (body : list (ctag * list N)) (cur : nat)
  : option (nat * list (list N) * nat * nat) :=
  match body with
  | [] => Some (cur, [], 0, 0)
  | (t, l) :: r =>
      match t with
      | ChEqual =>
          match nth_error old cur with
          | Some l' =>
              if bytes_eqb l l' then
                match apply_body old r (S cur) with
                | Some (c, out, a, b) => Some (c, l :: out, S a, S b)
                | None => None
                end
              else None
          | None => None
          end
      | ChDelete =>
          match nth_error old cur with
          | Some l' =>
              if bytes_eqb l l' then
                match apply_body old r (S cur) with
                | Some (c, out, a, b) => Some (c, out, S a, b)
                | None => None
                end
              else None
          | None => None
          end
      | ChInsert =>
          match apply_body old r cur with
          | Some (c, out, a, b) => Some (c, l :: out, a, S b)
          | None => None
          end
      end
  end.

(* pos = next unconsumed old line, out = new lines produced so far (in order) *)
Fixpoint apply_hunks (old : list (list N)) (hs : list hunk) (pos : nat) (out : list (list N))
  : option (list (list N)) :=
  match hs with
  | [] => Some (out ++ skipn pos old)
  | h :: r =>
      match true_start (h_oshown h) (h_olen h), true_start (h_nshown h) (h_nlen h) with
      | Some s, Some ns =>
          if (pos <=? s) && (s <=? length old) then
            let out1 := out ++ firstn (s - pos) (skipn pos old) in
            if length out1 =? ns then
              match apply_body old (h_body h) s with
              | Some (cur, produced, a, b) =>
                  if (a =? h_olen h) && (b =? h_nlen h) then apply_hunks old r cur (out1 ++ produced)
                  else None
              | None => None
              end
            else None
          else None
      | _, _ => None
      end
  end.

Definition apply_strict (hs : list hunk) (old : list (list N)) : option (list (list N)) :=
  apply_hunks old hs 0 [].

(* shape of a hunk body: contains a change, at most [radius] context lines
   before the first and after the last change, and inside a run of changes
   no deletion follows an insertion *)
Definition is_ctx (x : ctag * list N) : bool := match fst x with ChEqual => true | _ => false end.

Fixpoint leading_ctx (b : list (ctag * list N)) : nat :=
  match b with
  | x :: r => if is_ctx x then S (leading_ctx r) else 0
  | [] => 0
  end.

Fixpoint del_after_ins (b : list (ctag * list N)) (seen_ins : bool) : bool :=
  match b with
  | [] => false
  | (ChEqual, _) :: r => del_after_ins r false
  | (ChInsert, _) :: r => del_after_ins r true
  | (ChDelete, _) :: r => seen_ins || del_after_ins r seen_ins
  end.

Definition hunk_shape_ok (radius : nat) (h : hunk) : bool :=
  let b := h_body h in
  existsb (fun x => negb (is_ctx x)) b &&
  (leading_ctx b <=? radius) && (leading_ctx (rev b) <=? radius) &&
  negb (del_after_ins b false).

Definition lines_eqb (a b : list (list N)) : bool :=
  (length a =? length b) && forallb (fun p => bytes_eqb (fst p) (snd p)) (combine a b).

(* the whole C05 body check on parsed hunks *)
Definition check_patch (radius : nat) (hs : list hunk) (old new : list (list N)) : bool :=
  forallb (hunk_shape_ok radius) hs &&
  match apply_strict hs old with
  | Some out => lines_eqb out new
  | None => false
  end.
