(* Spec/UdiffParse.v — a strict parser for unified-diff text (property C05
   tooling).  Executable definitions only (structural recursion or fuel; only
   list / N / nat / bool / option), meant to be extracted and to replace the
   hand-written parser of ocaml/text_checks.ml.

   [parse_udiff hint header s] inverts [print_udiff hint header] of
   Spec/UdiffHunks.v (Proofs/UdiffParse.v):
     parse_udiff hint header s = Some hs -> print_udiff hint header hs = s
   for EVERY byte string s (soundness: what is accepted is exactly the
   printer's image of the returned hunk records, so [check_patch] on them is a
   statement about the real bytes), and
     parse_udiff true header (print_udiff true header hs) = Some hs
   for well-formed hunks (completeness).

   How the format's ambiguities are resolved:
   - body lines are not recognised by their first byte alone: the counts of
     the "@@ -a,b +c,d @@" line say how many old-side (' ' / '-') and
     new-side (' ' / '+') lines the body has, and exactly that many are read.
     So a body line whose content starts with "@@ -" or "--- " is read as a
     body line, and a hunk header can only appear where the counts are used up.
   - a body line extends to its terminator LF, CRLF or lone CR (the line rule
     of tokenize_lines); end of input inside a line is an error.
   - "\ No newline at end of file\n" directly after a body line that ends in
     LF is the marker: '\\' is no tag byte, so nothing else can stand there.
     The LF before it belongs to the marker, the line is what precedes it, and
     that must not end in CR or LF (the printer writes no marker after a
     terminated line).  A marker anywhere else is an error.
   - numbers are canonical decimals (no sign, no leading zero), and the count
     ",1" must be omitted while any other count must be present — as printed
     by UnifiedDiffHunkRange's Display.
   - a hunk with counts 0,0 (empty body) is an error: the printer never writes
     the "@@" line of a hunk without body lines.
   - the file header is expected iff [header] is given and the text is not
     empty, and must be the given names byte for byte. *)
From Coq Require Import NArith.
From Similar Require Import Model.Base Model.Iter Model.Tokenize Model.TextDiff
     Spec.Patch Spec.UdiffHunks.

(* [Some r] iff s = p ++ r *)
Fixpoint strip_prefix (p s : list N) : option (list N) :=
  match p with
  | [] => Some s
  | x :: p' =>
      match s with
      | y :: s' => if N.eqb x y then strip_prefix p' s' else None
      | [] => None
      end
  end.

(* ------------------------------------------------------------------ numbers *)
Definition is_digit (c : N) : bool := (48 <=? c)%N && (c <=? 57)%N.

(* the maximal run of digits, read left to right with accumulator [acc] *)
Fixpoint parse_digits (acc : N) (s : list N) : N * list N :=
  match s with
  | c :: r => if is_digit c then parse_digits (10 * acc + (c - 48))%N r else (acc, s)
  | [] => (acc, [])
  end.

(* a canonical decimal: at least one digit, no leading zero except "0" itself *)
Definition parse_nat (s : list N) : option (nat * list N) :=
  match s with
  | [] => None
  | c :: r =>
      if is_digit c then
        if N.eqb c 48 then
          match r with
          | c2 :: _ => if is_digit c2 then None else Some (0, r)
          | [] => Some (0, r)
          end
        else let '(v, rest) := parse_digits (c - 48)%N r in Some (N.to_nat v, rest)
      else None
  end.

(* "a" (count 1) or "a,b" with b <> 1 *)
Definition parse_range (s : list N) : option (nat * nat * list N) :=
  match parse_nat s with
  | None => None
  | Some (a, r) =>
      match r with
      | c :: r' =>
          if N.eqb c 44 then
            match parse_nat r' with
            | Some (b, r'') => if b =? 1 then None else Some (a, b, r'')
            | None => None
            end
          else Some (a, 1, r)
      | [] => Some (a, 1, r)
      end
  end.

(* ------------------------------------------------------------------ lines *)
(* the bytes up to and including the first terminator LF / CRLF / lone CR *)
Fixpoint read_line (s : list N) : option (list N * list N) :=
  match s with
  | [] => None
  | c :: r =>
      if N.eqb c 10 then Some ([10%N], r)
      else if N.eqb c 13 then
        match r with
        | c2 :: r2 => if N.eqb c2 10 then Some ([13; 10]%N, r2) else Some ([13%N], r)
        | [] => Some ([13%N], r)
        end
      else
        match read_line r with
        | Some (l, rest) => Some (c :: l, rest)
        | None => None
        end
  end.

(* [Some l0] iff l = l0 ++ "\n" *)
Definition strip_nl (l : list N) : option (list N) :=
  match rev l with
  | c :: r => if N.eqb c 10 then Some (rev r) else None
  | [] => None
  end.

(* "\\ No newline at end of file\n": the marker without its leading LF *)
Definition txt_marker_tail : list N :=
  [92; 32; 78; 111; 32; 110; 101; 119; 108; 105; 110; 101; 32; 97; 116; 32;
   101; 110; 100; 32; 111; 102; 32; 102; 105; 108; 101; 10]%N.

Definition tag_of_char (c : N) : option ctag :=
  if N.eqb c 32 then Some ChEqual
  else if N.eqb c 45 then Some ChDelete
  else if N.eqb c 43 then Some ChInsert
  else None.

(* one body line, with its marker if it has one *)
Definition parse_item (hint : bool) (s : list N) : option (ctag * list N * list N) :=
  match s with
  | [] => None
  | c :: r =>
      match tag_of_char c with
      | None => None
      | Some t =>
          match read_line r with
          | None => None
          | Some (l, rest) =>
              if hint then
                match strip_prefix txt_marker_tail rest with
                | Some rest' =>
                    match strip_nl l with
                    | Some l0 => if ends_with_newline l0 then None else Some (t, l0, rest')
                    | None => None
                    end
                | None => Some (t, l, rest)
                end
              else Some (t, l, rest)
          end
      end
  end.

(* the counts that remain after a line with tag t; None = the line is one too many *)
Definition count_down (t : ctag) (o n : nat) : option (nat * nat) :=
  match t, o, n with
  | ChEqual, S o', S n' => Some (o', n')
  | ChDelete, S o', _ => Some (o', n)
  | ChInsert, _, S n' => Some (o, n')
  | _, _, _ => None
  end.

(* body lines until o old-side and n new-side lines are read; fuel >= o + n *)
Fixpoint parse_body (hint : bool) (fuel o n : nat) (s : list N)
  : option (list (ctag * list N) * list N) :=
  if (o =? 0) && (n =? 0) then Some ([], s)
  else
    match fuel with
    | O => None
    | S fuel' =>
        match parse_item hint s with
        | None => None
        | Some (t, l, rest) =>
            match count_down t o n with
            | None => None
            | Some (o', n') =>
                match parse_body hint fuel' o' n' rest with
                | Some (b, rest') => Some ((t, l) :: b, rest')
                | None => None
                end
            end
        end
    end.

(* ------------------------------------------------------------------ hunks *)
Definition parse_hunk (hint : bool) (s : list N) : option (hunk * list N) :=
  match strip_prefix txt_hunk_open s with
  | None => None
  | Some s1 =>
      match parse_range s1 with
      | None => None
      | Some (a, b, s2) =>
          match strip_prefix txt_hunk_mid s2 with
          | None => None
          | Some s3 =>
              match parse_range s3 with
              | None => None
              | Some (c, d, s4) =>
                  match strip_prefix txt_hunk_close s4 with
                  | None => None
                  | Some s5 =>
                      match parse_body hint (b + d) b d s5 with
                      | None => None
                      | Some ([], _) => None
                      | Some (x :: body, rest) =>
                          Some ({| h_oshown := a; h_olen := b; h_nshown := c; h_nlen := d;
                                   h_body := x :: body |}, rest)
                      end
                  end
              end
          end
      end
  end.

(* hunks until the end of the text; fuel >= number of hunks *)
Fixpoint parse_hunks (hint : bool) (fuel : nat) (s : list N) : option (list hunk) :=
  match s with
  | [] => Some []
  | _ :: _ =>
      match fuel with
      | O => None
      | S fuel' =>
          match parse_hunk hint s with
          | None => None
          | Some (h, rest) =>
              match parse_hunks hint fuel' rest with
              | Some hs => Some (h :: hs)
              | None => None
              end
          end
      end
  end.

Definition parse_udiff (hint : bool) (header : option (list N * list N)) (s : list N)
  : option (list hunk) :=
  match s with
  | [] => Some []
  | _ :: _ =>
      match header with
      | None => parse_hunks hint (length s) s
      | Some (a, b) =>
          match strip_prefix (file_header a b) s with
          | None => None
          | Some s' =>
              match parse_hunks hint (length s') s' with
              | Some (h :: hs) => Some (h :: hs)
              | _ => None
              end
          end
      end
  end.

(* ------------------------------------------------------------------ *)
(* what the completeness theorem asks of the hunk records              *)

(* a line: CR/LF-free bytes followed by at most one terminator LF / CRLF / CR *)
Fixpoint line_okb (l : list N) : bool :=
  match l with
  | [] => true
  | c :: r =>
      if N.eqb c 10 then match r with [] => true | _ => false end
      else if N.eqb c 13 then
        match r with
        | [] => true
        | c2 :: r2 => N.eqb c2 10 && match r2 with [] => true | _ => false end
        end
      else line_okb r
  end.

Definition old_count (b : list (ctag * list N)) : nat :=
  length (filter (fun x => match fst x with ChInsert => false | _ => true end) b).
Definition new_count (b : list (ctag * list N)) : nat :=
  length (filter (fun x => match fst x with ChDelete => false | _ => true end) b).

Definition hunk_wfb (h : hunk) : bool :=
  match h_body h with [] => false | _ :: _ => true end &&
  (old_count (h_body h) =? h_olen h) && (new_count (h_body h) =? h_nlen h) &&
  forallb (fun x => line_okb (snd x)) (h_body h).

(* with the hint off a line without terminator and the same line with LF are
   printed alike; the parser returns the latter *)
Definition norm_line (l : list N) : list N :=
  if ends_with_newline l then l else l ++ [10%N].
Definition norm_hunk (h : hunk) : hunk :=
  {| h_oshown := h_oshown h; h_olen := h_olen h; h_nshown := h_nshown h; h_nlen := h_nlen h;
     h_body := map (fun x => (fst x, norm_line (snd x))) (h_body h) |}.
