(* Spec/Script.v — the mathematical objects the properties talk about:
   valid raw call sequences, valid op lists (loose / exact), normal form,
   cost, common subsequences, applying a script.  Independent of the model of
   the algorithms (only Model.Base's datatypes are used). *)
From Similar Require Import Model.Base.

Section Spec.
  Variable cmp : cmpf.   (* cmp i j = Ok true  <->  new[j] == old[i], both in bounds *)

  (* old[o..o+l) and new[n..n+l) are in bounds and element-wise equal *)
  Definition SegEq (o n l : nat) : Prop := forall t, t < l -> cmp (o + t) (n + t) = Ok true.

  (* ------------------------------------------------------------------ C01 *)
  (* cursor at the end of the maximal run of delete/insert calls at the head *)
  Fixpoint run_ends (i j : nat) (cs : list call) : nat * nat :=
    match cs with
    | CDel _ l _ :: r => run_ends (i + l) j r
    | CIns _ _ l :: r => run_ends i (j + l) r
    | _ => (i, j)
    end.

  (* The property's reading: the calls before finish walk a cursor (i,j) from the
     range starts to the range ends; (i0,j0) is the cursor at the start of the
     run of changes the current call belongs to and run_ends gives its end.
     A deletion's carried new index and an insertion's carried old index lie
     within their run; when a change stands alone its run is a point, so the
     carried index is exactly the current position. *)
  Inductive RawSpec (oe ne : nat) : nat -> nat -> nat -> nat -> list call -> Prop :=
  | RS_fin i0 j0 : RawSpec oe ne oe ne i0 j0 [CFin]
  | RS_eq i j i0 j0 l cs :
      0 < l -> SegEq i j l ->
      RawSpec oe ne (i + l) (j + l) (i + l) (j + l) cs ->
      RawSpec oe ne i j i0 j0 (CEq i j l :: cs)
  | RS_del i j i0 j0 l n cs :
      0 < l -> i + l <= oe ->
      j0 <= n -> n <= snd (run_ends i j (CDel i l n :: cs)) ->
      RawSpec oe ne (i + l) j i0 j0 cs ->
      RawSpec oe ne i j i0 j0 (CDel i l n :: cs)
  | RS_ins i j i0 j0 o l cs :
      0 < l -> j + l <= ne ->
      i0 <= o -> o <= fst (run_ends i j (CIns o j l :: cs)) ->
      RawSpec oe ne i (j + l) i0 j0 cs ->
      RawSpec oe ne i j i0 j0 (CIns o j l :: cs).

  Definition RawValid (os oe ns ne : nat) (cs : list call) : Prop :=
    RawSpec oe ne os ns os ns cs.

  (* What the three algorithms actually guarantee (stronger, and free of
     look-ahead): a deletion carries exactly the current new position; an
     insertion carries an old position between the start of its run and the
     current old position. *)
  Inductive RawWalk (oe ne : nat) : nat -> nat -> nat -> list call -> Prop :=
  | RW_nil i0 : RawWalk oe ne oe ne i0 []
  | RW_eq i j i0 l cs :
      0 < l -> SegEq i j l ->
      RawWalk oe ne (i + l) (j + l) (i + l) cs ->
      RawWalk oe ne i j i0 (CEq i j l :: cs)
  | RW_del i j i0 l cs :
      0 < l -> RawWalk oe ne (i + l) j i0 cs ->
      RawWalk oe ne i j i0 (CDel i l j :: cs)
  | RW_ins i j i0 o l cs :
      0 < l -> i0 <= o -> o <= i ->
      RawWalk oe ne i (j + l) i0 cs ->
      RawWalk oe ne i j i0 (CIns o j l :: cs).

  Definition RawStrong (os oe ns ne : nat) (cs : list call) : Prop :=
    exists body, cs = body ++ [CFin] /\ RawWalk oe ne os ns os body.

  (* finish exactly once, and last *)
  Definition FinishLast (cs : list call) : Prop :=
    exists body, cs = body ++ [CFin] /\ ~ In CFin body.

  (* ------------------------------------------------------------------ C02 / C11 *)
  (* exact = false: carried indices are ignored (C02);
     exact = true : every index of every op is the cursor (C11). *)
  Inductive OpsWalk (exact : bool) (oe ne : nat) : nat -> nat -> list op -> Prop :=
  | OW_nil : OpsWalk exact oe ne oe ne []
  | OW_eq i j l r :
      SegEq i j l -> OpsWalk exact oe ne (i + l) (j + l) r ->
      OpsWalk exact oe ne i j (Equal i j l :: r)
  | OW_del i j l n r :
      (exact = true -> n = j) -> i + l <= oe ->
      OpsWalk exact oe ne (i + l) j r ->
      OpsWalk exact oe ne i j (Delete i l n :: r)
  | OW_ins i j o l r :
      (exact = true -> o = i) -> j + l <= ne ->
      OpsWalk exact oe ne i (j + l) r ->
      OpsWalk exact oe ne i j (Insert o j l :: r)
  | OW_rep i j ol nl r :
      i + ol <= oe -> j + nl <= ne ->
      OpsWalk exact oe ne (i + ol) (j + nl) r ->
      OpsWalk exact oe ne i j (Replace i ol j nl :: r).

  Definition OpsLoose (os oe ns ne : nat) (ops : list op) : Prop := OpsWalk false oe ne os ns ops.
  Definition OpsExact (os oe ns ne : nat) (ops : list op) : Prop := OpsWalk true oe ne os ns ops.

  (* ------------------------------------------------------------------ C09 *)
  Definition NonEmptyOp (x : op) : Prop :=
    match x with
    | Equal _ _ l => 0 < l
    | Delete _ l _ => 0 < l
    | Insert _ _ l => 0 < l
    | Replace _ ol _ nl => 0 < ol /\ 0 < nl
    end.

  Definition IsEqualOp (x : op) : Prop := match x with Equal _ _ _ => True | _ => False end.

  (* Equal and non-Equal ops strictly alternate and no op is empty *)
  Inductive Alternating : list op -> Prop :=
  | Alt_nil : Alternating []
  | Alt_one x : NonEmptyOp x -> Alternating [x]
  | Alt_cons x y r :
      NonEmptyOp x -> (IsEqualOp x <-> ~ IsEqualOp y) -> Alternating (y :: r) ->
      Alternating (x :: y :: r).

  (* an Insert directly followed by an Equal: first inserted item differs from
     the first equal item *)
  Inductive InsertLatest : list op -> Prop :=
  | IL_nil : InsertLatest []
  | IL_one x : InsertLatest [x]
  | IL_cons x y r :
      (forall o n l eo en el, x = Insert o n l -> y = Equal eo en el -> cmp eo n = Ok false) ->
      InsertLatest (y :: r) ->
      InsertLatest (x :: y :: r).

  Definition NormalForm (ops : list op) : Prop := Alternating ops /\ InsertLatest ops.

  (* ------------------------------------------------------------------ cost / LCS *)
  Definition deleted (ops : list op) : nat :=
    fold_right (fun x a => match x with Equal _ _ _ => 0 | _ => op_old_len x end + a) 0 ops.
  Definition inserted (ops : list op) : nat :=
    fold_right (fun x a => match x with Equal _ _ _ => 0 | _ => op_new_len x end + a) 0 ops.
  Definition equal_total (ops : list op) : nat :=
    fold_right (fun x a => match x with Equal _ _ l => l | _ => 0 end + a) 0 ops.

  (* a common subsequence of old[os..oe) and new[ns..ne): strictly increasing
     matched index pairs *)
  Inductive CommonSub (oe ne : nat) : nat -> nat -> list (nat * nat) -> Prop :=
  | CSub_nil os ns : CommonSub oe ne os ns []
  | CSub_cons os ns i j m :
      os <= i -> i < oe -> ns <= j -> j < ne -> cmp i j = Ok true ->
      CommonSub oe ne (S i) (S j) m ->
      CommonSub oe ne os ns ((i, j) :: m).

  Definition IsLcsLen (os oe ns ne : nat) (L : nat) : Prop :=
    (exists m, CommonSub oe ne os ns m /\ length m = L) /\
    (forall m, CommonSub oe ne os ns m -> length m <= L).
End Spec.

(* ---------------------------------------------------------------------- apply *)
(* Applying an op list to the old sequence: Equal/Delete consume old items,
   Equal copies them, Insert/Replace copy new items.  Positions come from the
   ops' own ranges (this is what a consumer of the ops does). *)
Section Apply.
  Context {A : Type}.

  Definition seg (l : list A) (s len : nat) : list A := firstn len (skipn s l).

  Fixpoint apply_ops (old new : list A) (ops : list op) : list A :=
    match ops with
    | [] => []
    | Equal o _ l :: r => seg old o l ++ apply_ops old new r
    | Delete _ _ _ :: r => apply_ops old new r
    | Insert _ n l :: r => seg new n l ++ apply_ops old new r
    | Replace _ _ n nl :: r => seg new n nl ++ apply_ops old new r
    end.

  (* the inverse script: swaps the roles of old and new *)
  Definition invert_op (x : op) : op :=
    match x with
    | Equal o n l => Equal n o l
    | Delete o ol n => Insert n o ol
    | Insert o n nl => Delete n nl o
    | Replace o ol n nl => Replace n nl o ol
    end.
End Apply.
