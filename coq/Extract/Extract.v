(* Extraction of the executable model (and, later, the verified checkers) to
   OCaml.  Only ExtrOcamlBasic is used: bool, option, unit, list, prod, sumbool,
   sumor are mapped to the OCaml types; nat, N, Z, positive stay inductive. *)
Require Extraction.
Require Import ExtrOcamlBasic.
From Similar Require Import Model.Base Model.Utils Model.Myers Model.Lcs Model.Hooks
     Model.Patience Model.Compact Model.Capture Model.Iter Model.Utf8 Model.Tokenize Model.TextDiff Model.Inline Spec.Patch Spec.UdiffParse Spec.Script Spec.Group Check.Script Check.Tokens Proofs.Iter.


Extraction "../ocaml/model.ml"
  raw_trace capture_diff capture_world diff_deadline plain_world plain0 plain_calls
  replace_world default_replace no_finish compact_world emit_all rstate0
  cleanup_diff_ops group_diff_ops diff_ratio
  iter_changes iter_all_changes iter_slices
  identify_distinct unique common_prefix_len common_suffix_len
  clock_at cmp_of slice_lookup offset_lookup capture_calls op_to_call
  check_raw check_finish_last check_ops_loose check_ops_exact check_normal
  check_alternating check_insert_latest deleted inserted equal_total lcs_len check_minimal
  expand_op expand_all group_ref check_groups
  decode valid_utf8 is_whitespace lossy len_utf8 tokenize tok_bytes ends_with_newline
  textdiff_ops newline_flag bytes_eqb oracles_of_items render_udiff remap_indexes remap_ops
  inline_changes check_patch apply_strict hunk_shape_ok parse_udiff norm_line
  check_partition check_tokens.
