(* Props/C10.v — C10: Compact and Replace preserve meaning and cost of any
   valid script. *)
From Similar Require Import Model.Base Model.Utils Model.Myers Model.Hooks Model.Compact Model.Capture
  Spec.Script Proofs.Replace Proofs.Compact Proofs.ReplaceReuse.

(* Compact (the real code, repair = false, and the repaired variant): any
   loosely valid non-empty script stays valid, non-empty, with the same numbers
   of deleted, inserted and equal items *)
Theorem c10_compact_preserves :
  forall (cmp : cmpf) (repair : bool) (os oe ns ne : nat) (ops ops' : list op),
    OpsWalk cmp false oe ne os ns ops -> Forall NonEmptyOp ops ->
    Forall (fun x => op_tag x <> TReplace) ops ->
    cleanup_diff_ops cmp repair ops = Ok ops' ->
    OpsWalk cmp false oe ne os ns ops' /\ Forall NonEmptyOp ops' /\
    Forall (fun x => op_tag x <> TReplace) ops' /\
    deleted ops' = deleted ops /\ inserted ops' = inserted ops /\ equal_total ops' = equal_total ops.
Proof. exact compact_preserves_loose. Qed.
Print Assumptions c10_compact_preserves.

(* it terminates within the model's fuel and does not panic on exact input *)
Theorem c10_compact_terminates :
  forall (cmp : cmpf) (repair : bool) (os oe ns ne : nat) (ops : list op),
    (forall i j, cmp i j <> OutOfFuel) ->
    OpsWalk cmp false oe ne os ns ops -> Forall NonEmptyOp ops ->
    Forall (fun x => op_tag x <> TReplace) ops ->
    cleanup_diff_ops cmp repair ops <> OutOfFuel.
Proof. exact compact_terminates. Qed.
Print Assumptions c10_compact_terminates.

Theorem c10_compact_total :
  forall (cmp : cmpf) (os oe ns ne b : nat) (ops : list op),
    cmp_total cmp os oe ns ne -> OpsWalk cmp false oe ne os ns ops -> InsLow b ops ->
    Forall NonEmptyOp ops -> Forall (fun x => op_tag x <> TReplace) ops ->
    exists ops', cleanup_diff_ops cmp false ops = Ok ops'.
Proof. exact compact_total_norepair. Qed.
Print Assumptions c10_compact_total.

(* as a hook: nothing reaches the inner hook before finish; then the cleaned
   ops are replayed in order, followed by finish ("completed by the time finish
   returns") *)
Theorem c10_compact_hook :
  forall (W : Type) (wd : world W) (cmp : cmpf) (repair : bool) (body : list call) (w : W),
    Forall edit_call body ->
    emit_all (compact_world wd cmp repair) (body ++ [CFin]) ([], w) =
    match cleanup_diff_ops cmp repair (capture_calls body) with
    | Ok ops' => match emit_all wd (map op_to_call ops' ++ [CFin]) w with
                 | Ok w' => Ok (rev ops', w') | Panic => Panic | OutOfFuel => OutOfFuel end
    | Panic => Panic | OutOfFuel => OutOfFuel end.
Proof. intros W. exact (@compact_hook_spec W). Qed.
Print Assumptions c10_compact_hook.

(* the Delete "slide" arms, including the odd `len: old_range.len() - suffix_len`,
   are dead code *)
Theorem c10_delete_never_slides_up :
  forall (cmp : cmpf) (repair : bool) (po pn pl : nat) (bef : list op) (o l n : nat) (aft : list op),
    up_step cmp repair (Equal po pn pl :: bef, Delete o l n, aft) =
    (if op_is_empty (Equal po pn pl) then Ok (Continue (bef, Delete o l n, aft))
     else Ok (Break (Equal po pn pl :: bef, Delete o l n, aft))).
Proof. exact delete_never_slides_up. Qed.
Print Assumptions c10_delete_never_slides_up.

(* Replace alone: valid raw script in, index-exact alternating ops out, same
   counts, finish last, debug assertions unreachable *)
Theorem c10_replace_exact :
  forall (cmp : cmpf) (os oe ns ne : nat) (body : list call),
    RawWalk cmp oe ne os ns os body ->
    forall (dl : deadline) (dbg : bool) (w0 : plain),
    exists rs w1 out,
      emit_all (replace_world (plain_world dl) dbg) (body ++ [CFin]) (rstate0, w0) = Ok (rs, w1) /\
      plain_calls w1 = plain_calls w0 ++ out /\ p_ctr w1 = p_ctr w0 /\ out = replace_out body /\
      FinishLast out /\ OpsExact cmp os oe ns ne (capture_calls out) /\ Alternating (capture_calls out) /\
      deleted (capture_calls out) = deleted (capture_calls body) /\
      inserted (capture_calls out) = inserted (capture_calls body) /\
      equal_total (capture_calls out) = equal_total (capture_calls body) /\
      rs = rstate0 /\ r_del rs = None /\ r_ins rs = None /\ r_eq rs = None.
Proof. exact replace_plain. Qed.
Print Assumptions c10_replace_exact.

(* with the verification-only repair switch Compact keeps carried indices exact *)
Theorem c10_compact_exact_repaired :
  forall (cmp : cmpf) (os oe ns ne : nat) (ops ops' : list op),
    OpsWalk cmp true oe ne os ns ops -> Forall NonEmptyOp ops ->
    Forall (fun x => op_tag x <> TReplace) ops ->
    cleanup_diff_ops cmp true ops = Ok ops' -> OpsWalk cmp true oe ne os ns ops'.
Proof. exact compact_preserves_exact. Qed.
Print Assumptions c10_compact_exact_repaired.

(* a Replace adapter is as good as new after finish: whatever it was fed (any call list, from any state), a
   completed finish leaves it in its initial state, so one adapter object can serve any number of diffs; feeding
   it the same script twice makes the inner hook see the same calls twice *)
Theorem c10_replace_finish_resets :
  forall (W : Type) (wd : world W) (dbg : bool) (cs : list call) (s : rstate) (w : W) (s' : rstate) (w' : W),
    emit_all (replace_world wd dbg) (cs ++ [CFin]) (s, w) = Ok (s', w') -> s' = rstate0.
Proof. intros W. exact (@replace_world_finish_resets W). Qed.
Print Assumptions c10_replace_finish_resets.

Theorem c10_replace_twice_same :
  forall (dbg : bool) (cs out : list call) (s' : rstate),
    replace_trace dbg (cs ++ [CFin]) rstate0 = (out, Some s') ->
    replace_trace dbg ((cs ++ [CFin]) ++ (cs ++ [CFin])) rstate0 = (out ++ out, Some rstate0).
Proof. exact replace_twice_same. Qed.
Print Assumptions c10_replace_twice_same.

Example c10_instance :
  let old := [1; 2; 1] in let new := [2; 1; 1] in
  let cmp := cmp_of Nat.eqb (slice_lookup old) (slice_lookup new) in
  cleanup_diff_ops cmp false [Insert 0 0 1; Equal 0 1 1; Delete 1 1 2; Equal 2 2 1]
  = Ok [Insert 0 0 1; Equal 0 1 1; Delete 1 1 2; Equal 2 2 1].
Proof. vm_compute. reflexivity. Qed.
