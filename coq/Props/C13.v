(* Props/C13.v — C13: expanding ops into changes and slices is faithful. *)
From Similar Require Import Model.Base Model.Iter Proofs.Iter.

Theorem c13_iter_changes_spec :
  forall (A : Type) (old new : lookup A) (x : op),
    iter_changes old new x = of_option (expand_op old new x).
Proof. exact @iter_changes_spec. Qed.
Print Assumptions c13_iter_changes_spec.

Theorem c13_all_changes_concat :
  forall (A : Type) (old new : lookup A) (ops : list op),
    iter_all_changes old new ops = of_option (expand_all old new ops).
Proof. exact @all_changes_concat. Qed.
Print Assumptions c13_all_changes_concat.

Theorem c13_expand_op_shape :
  forall (A : Type) (old new : lookup A) (x : op) (cs : list (change A)),
    expand_op old new x = Some cs ->
    length cs = op_nchanges x /\
    (forall (k : nat) (c : change A),
        nth_error cs k = Some c -> change_shape old new x k c).
Proof. exact @expand_op_shape. Qed.
Print Assumptions c13_expand_op_shape.

Theorem c13_iter_slices_spec :
  forall (A : Type) (old new : list A) (x : op) (sl : list (ctag * list A)),
    iter_slices old new x = Ok sl ->
    exists (cs : list (change A)) (css : list (list (change A))),
      expand_op (slice_lookup old) (slice_lookup new) x = Some cs /\
      concat (map snd sl) = map ch_val cs /\
      cs = concat css /\
      Forall2 slice_matches sl css /\
      map fst sl = op_slice_tags x /\
      map (fun p : ctag * list A => length (snd p)) sl = op_slice_lens x.
Proof. exact @iter_slices_spec. Qed.
Print Assumptions c13_iter_slices_spec.

Theorem c13_iter_slices_total :
  forall (A : Type) (old new : list A) (x : op) (cs : list (change A)),
    expand_op (slice_lookup old) (slice_lookup new) x = Some cs ->
    op_old_start x <= length old ->
    op_new_start x <= length new ->
    exists sl : list (ctag * list A), iter_slices old new x = Ok sl.
Proof. exact @iter_slices_total. Qed.
Print Assumptions c13_iter_slices_total.

Theorem c13_apply_capture_id :
  forall ops : list op, capture_calls (map op_to_call ops) = ops.
Proof. exact apply_capture_id. Qed.
Print Assumptions c13_apply_capture_id.

Example c13_instance :
  let old := [10; 11; 12; 13] in
  let new := [20; 21; 22] in
  let del i v := {| ch_tag := ChDelete; ch_old := Some i; ch_new := None; ch_val := v |} in
  let ins j v := {| ch_tag := ChInsert; ch_old := None; ch_new := Some j; ch_val := v |} in
  let eq i j v := {| ch_tag := ChEqual; ch_old := Some i; ch_new := Some j; ch_val := v |} in
  let ops := [Equal 0 0 1; Replace 1 2 1 1; Equal 3 2 1] in
  expand_op (slice_lookup old) (slice_lookup new) (Replace 1 2 0 3)
    = Some [del 1 11; del 2 12; ins 0 20; ins 1 21; ins 2 22] /\
  iter_changes (slice_lookup old) (slice_lookup new) (Replace 1 2 0 3)
    = Ok [del 1 11; del 2 12; ins 0 20; ins 1 21; ins 2 22] /\
  iter_slices old new (Replace 1 2 0 3)
    = Ok [(ChDelete, [11; 12]); (ChInsert, [20; 21; 22])] /\
  iter_all_changes (slice_lookup old) (slice_lookup new) ops
    = Ok [eq 0 0 10; del 1 11; del 2 12; ins 1 21; eq 3 2 13] /\
  expand_all (slice_lookup old) (slice_lookup new) ops
    = Some [eq 0 0 10; del 1 11; del 2 12; ins 1 21; eq 3 2 13] /\
  (* out of bounds on the new side: spec None, iterator and slices Panic *)
  expand_op (slice_lookup old) (slice_lookup new) (Replace 1 2 2 2) = None /\
  iter_changes (slice_lookup old) (slice_lookup new) (Replace 1 2 2 2) = Panic /\
  iter_slices old new (Replace 1 2 2 2) = Panic /\
  capture_calls (map op_to_call ops) = ops.
Proof. vm_compute. repeat split; reflexivity. Qed.
