(* Props/C15.v — C15: Patience keeps a maximum in-order set of unique common items. *)
From Similar Require Import Model.Base Model.Utils Model.Myers Model.Hooks Model.Patience Model.Capture
  Spec.Script Spec.SnakeSpec Check.Script Proofs.LcsLen Proofs.Unique Proofs.Patience.

(* [unique] returns, ascending, exactly the indices of the range whose item
   occurs once in the range — independently of any hash order *)
Theorem c15_unique_spec :
  forall (A : Type) (eqb : A -> A -> bool) (lk : lookup A) (s e : nat) (l : list nat),
    (forall x, eqb x x = true) ->
    (forall i, s <= i < e -> exists x, lk i = Some x) ->
    unique (cmp_same eqb lk) s e = Ok l ->
    forall i, In i l <->
      s <= i < e /\
      (forall j x y, s <= j < e -> lk i = Some x -> lk j = Some y -> eqb x y = true -> j = i).
Proof. exact @unique_cmp_same. Qed.
Print Assumptions c15_unique_spec.

Theorem c15_unique_sorted :
  forall (same : cmpf) (s e : nat) (l : list nat),
    unique same s e = Ok l ->
    Sorted.StronglySorted lt l /\ (forall i, In i l -> s <= i < e) /\
    (forall i, In i l <-> s <= i < e /\ count_eq same i s (e - s) = Ok 1).
Proof. exact unique_spec. Qed.
Print Assumptions c15_unique_sorted.

(* Without a deadline: every anchor pair chosen by the diff of the two unique
   lists is reported inside an Equal call that pairs exactly those two
   positions (matched to its unique counterpart), and the number of anchor
   pairs is the LCS length of the unique lists (a maximum in-order set). *)
Theorem c15_patience_anchors :
  forall (dbg : bool) (cmp oo nn : cmpf) (os oe ns ne : nat) (w0 w1 : plain) (uo un : list nat),
    os <= oe -> ns <= ne -> CmpTotal cmp os oe ns ne ->
    unique oo os oe = Ok uo -> unique nn ns ne = Ok un ->
    patience_diff (plain_world None) dbg cmp oo nn os oe ns ne w0 = Ok w1 ->
    exists (wT : plain) (cs : list call),
      myers_diff (plain_world None) (unique_cmp cmp uo un) 0 (length uo) 0 (length un) plain0 = Ok wT /\
      plain_calls w1 = plain_calls w0 ++ cs /\
      RawStrong cmp os oe ns ne cs /\
      (forall a b, In (a, b) (anchors_of (plain_calls wT)) ->
         exists x y, nth_error uo a = Some x /\ nth_error un b = Some y /\ CoveredBy x y cs) /\
      (forall L, IsLcsLen (unique_cmp cmp uo un) 0 (length uo) 0 (length un) L ->
         length (anchors_of (plain_calls wT)) = L).
Proof. exact patience_anchors. Qed.
Print Assumptions c15_patience_anchors.

(* such an L exists and is what the checker computes *)
Theorem c15_lcs_len_correct :
  forall (cmp : cmpf) (os oe ns ne : nat), IsLcsLen cmp os oe ns ne (lcs_len cmp os oe ns ne).
Proof. exact lcs_len_correct. Qed.
Print Assumptions c15_lcs_len_correct.

Example c15_instance :
  let old := [11; 1; 2; 2; 3; 4; 4; 4; 5; 47; 19] in
  let new := [10; 1; 2; 2; 8; 9; 4; 4; 7; 47; 18] in
  let cmp := cmp_of Nat.eqb (slice_lookup old) (slice_lookup new) in
  unique (cmp_same Nat.eqb (slice_lookup old)) 0 11 = Ok [0; 1; 4; 8; 9; 10] /\
  unique (cmp_same Nat.eqb (slice_lookup new)) 0 11 = Ok [0; 1; 4; 5; 8; 9; 10] /\
  match patience_diff (plain_world None) true cmp (cmp_same Nat.eqb (slice_lookup old))
          (cmp_same Nat.eqb (slice_lookup new)) 0 11 0 11 plain0 with
  | Ok w => check_raw cmp 0 11 0 11 (plain_calls w) = true
  | _ => False
  end.
Proof. vm_compute. repeat split; reflexivity. Qed.
