(* Props/C19.v — C19: without a deadline, the number of element comparisons
   made by Myers is at most a fixed multiple of (N+M+1)*(D+1), D = size of the
   shortest edit script.

   Proved constants (Proofs/MyersWork.v):
     one middle-snake search on a stripped n x m box of optimal cost D:
         <= 2 * (D + 1) * min n m   <=  (n + m + 1) * (D + 1)
     (it returns in round rr = ceil(D/2) having made <= 2*(2*rr+1)*min n m);
     the whole recursion on an N x M box of optimal cost D:
         <= 6 * (N + M) * D + (N + M) + 2   <=  6 * (N + M + 1) * (D + 1).
   The counting argument: in one direction, on one diagonal, every cell of the
   box is compared at most once over ALL rounds (a scan of round d+2 starts
   strictly beyond the furthest point of round d on that diagonal, and the one
   failing comparison of a scan is at its furthest point); the recursion
   halves D (both halves <= ceil(D/2)) while the sizes of the two sub-boxes
   add up to at most the size of the box. *)
From Similar Require Import Model.Base Model.Utils Model.Myers Model.Hooks
  Spec.Script Spec.EditGraph Spec.SnakeSpec
  Proofs.MyersSweep Proofs.MyersConquer Proofs.MyersWork Proofs.Unique Proofs.PatienceWork.
From Similar Require Import Model.Capture.

(* ---- item 1: what "number of comparisons" means ---- *)
Theorem c19_count_world :
  forall dl : deadline, CountResp (plain_world dl) (fun w => cmps (p_ctr w)).
Proof. exact CountResp_plain. Qed.
Print Assumptions c19_count_world.

(* ---- item 2: one scan ---- *)
Theorem c19_prefix_scan_cost :
  forall (cmp : cmpf) (os oe ns ne p : nat),
    common_prefix_len cmp os oe ns ne = Ok p ->
    scan_cmps os oe ns ne p <= p + 1 /\
    scan_cmps os oe ns ne p <= Nat.min (oe - os) (ne - ns).
Proof. exact prefix_scan_cost. Qed.
Print Assumptions c19_prefix_scan_cost.

Theorem c19_suffix_scan_cost :
  forall (cmp : cmpf) (os oe ns ne s : nat),
    common_suffix_len cmp os oe ns ne = Ok s ->
    scan_cmps os oe ns ne s <= s + 1 /\
    scan_cmps os oe ns ne s <= Nat.min (oe - os) (ne - ns).
Proof. exact suffix_scan_cost. Qed.
Print Assumptions c19_suffix_scan_cost.

(* ---- item 3: one step of a sweep ---- *)
Theorem c19_fwd_step_cost :
  forall (W : Type) (wd : world W) (cnt : W -> nat), CountResp wd cnt ->
  forall (cmp : cmpf) (os oe ns ne md : nat), CmpTotal cmp os oe ns ne ->
  forall (d : nat) (k : Z) (vf vb : V) (w : W) (r : option (nat * nat)) (vf1 : V) (w1 : W),
    S d <= md -> Par d k -> VOk md vf -> VOk md vb ->
    PrevOk (dg_of cmp os oe ns ne) d vf ->
    PrevOk (dg_rev (oe - os) (ne - ns) (dg_of cmp os oe ns ne)) d vb ->
    fwd_step wd cmp os oe ns ne (Z.of_nat d) k vf vb w = Ok (r, vf1, w1) ->
    exists x_start x_new : nat,
      pick vf k (Z.of_nat d) = Ok x_start /\ v_get vf1 k = Ok x_new /\
      FR (dg_of cmp os oe ns ne) d k x_new /\ x_start <= x_new /\
      cnt w1 <= cnt w + (x_new - x_start) + 1.
Proof. exact @fwd_step_cost. Qed.
Print Assumptions c19_fwd_step_cost.

Theorem c19_bwd_step_cost :
  forall (W : Type) (wd : world W) (cnt : W -> nat), CountResp wd cnt ->
  forall (cmp : cmpf) (os oe ns ne md : nat), CmpTotal cmp os oe ns ne ->
  forall (d : nat) (k : Z) (vf vb : V) (w : W) (r : option (nat * nat)) (vb1 : V) (w1 : W),
    S d <= md -> Par d k -> VOk md vf -> VOk md vb ->
    PrevOk (dg_of cmp os oe ns ne) (S d) vf ->
    PrevOk (dg_rev (oe - os) (ne - ns) (dg_of cmp os oe ns ne)) d vb ->
    BwdBox cmp os oe ns ne d k ->
    bwd_step wd cmp os oe ns ne (Z.of_nat d) k vf vb w = Ok (r, vb1, w1) ->
    exists x_start x_new : nat,
      pick vb k (Z.of_nat d) = Ok x_start /\ v_get vb1 k = Ok x_new /\
      FR (dg_rev (oe - os) (ne - ns) (dg_of cmp os oe ns ne)) d k x_new /\
      x_start <= x_new /\
      cnt w1 <= cnt w + (x_new - x_start) + 1.
Proof. exact @bwd_step_cost. Qed.
Print Assumptions c19_bwd_step_cost.

(* ---- item 4: rounds 0..rr of one search ---- *)
(* the telescoping sum: the scans of rounds 0..j in one direction of the edit
   graph [dg] cost at most (2j+1)*B for any per-diagonal potential bounded by B *)
Theorem c19_rounds_telescope :
  forall (n m : nat) (c : Z -> nat -> nat) (B : nat),
    (forall (k : Z) (x x' : nat), x <= x' -> c k x <= c k x') ->
    (forall (k : Z) (x : nat), c k x <= B) ->
    forall (dg : nat -> nat -> bool) (j : nat), FS n m c dg (S j) <= (2 * j + 1) * B.
Proof. exact FS_bound. Qed.
Print Assumptions c19_rounds_telescope.

Theorem c19_snake_round_cost :
  forall (W : Type) (wd : world W) (cnt : W -> nat) (cmp : cmpf)
         (os oe ns ne md : nat) (vf vb : V) (w : W) (D : nat)
         (p : nat * nat) (vf' vb' : V) (w' : W),
    CountResp wd cnt ->
    Stripped cmp os oe ns ne -> CmpTotal cmp os oe ns ne ->
    max_d (oe - os) (ne - ns) <= md -> VOk md vf -> VOk md vb ->
    BoxCost cmp os oe ns ne D ->
    find_middle_snake wd cmp os oe ns ne vf vb w = Ok (Some p, vf', vb', w') ->
    exists rr, 2 * rr <= D + 1 /\ D <= 2 * rr /\
      cnt w' <= cnt w + 2 * (2 * rr + 1) * Nat.min (oe - os) (ne - ns).
Proof. exact @snake_round_cost. Qed.
Print Assumptions c19_snake_round_cost.

(* ---- item 5: one search, in terms of D (any deadline) ---- *)
Theorem c19_snake_cost :
  forall (W : Type) (wd : world W) (cnt : W -> nat) (cmp : cmpf)
         (os oe ns ne md : nat) (vf vb : V) (w : W) (D : nat)
         (r : option (nat * nat)) (vf' vb' : V) (w' : W),
    CountResp wd cnt ->
    Stripped cmp os oe ns ne -> CmpTotal cmp os oe ns ne ->
    max_d (oe - os) (ne - ns) <= md -> VOk md vf -> VOk md vb ->
    BoxCost cmp os oe ns ne D ->
    find_middle_snake wd cmp os oe ns ne vf vb w = Ok (r, vf', vb', w') ->
    cnt w' <= cnt w + 2 * (D + 1) * Nat.min (oe - os) (ne - ns) /\
    cnt w' <= cnt w + ((oe - os) + (ne - ns) + 1) * (D + 1).
Proof. exact @snake_cost_D. Qed.
Print Assumptions c19_snake_cost.

(* the search also halves the problem: both parts cost at most ceil(D/2) *)
Theorem c19_snake_halves :
  forall (W : Type) (wd : world W) (cnt : W -> nat), CountResp wd cnt ->
  forall (cmp : cmpf) (os oe ns ne md : nat) (vf vb : V) (w : W) (D : nat)
         (x y : nat) (vf' vb' : V) (w' : W),
    Stripped cmp os oe ns ne -> CmpTotal cmp os oe ns ne ->
    max_d (oe - os) (ne - ns) <= md -> VOk md vf -> VOk md vb ->
    BoxCost cmp os oe ns ne D ->
    find_middle_snake wd cmp os oe ns ne vf vb w = Ok (Some (x, y), vf', vb', w') ->
    os <= x <= oe /\ ns <= y <= ne /\
    exists D1 D2, BoxCost cmp os x ns y D1 /\ BoxCost cmp x oe y ne D2 /\
      D = D1 + D2 /\ 2 * D1 <= D + 1 /\ 2 * D2 <= D + 1.
Proof.
  intros W wd cnt HC cmp os oe ns ne md vf vb w D x y vf' vb' w' Hstr Htot Hmd Hvf Hvb HD H.
  destruct (snake_work wd cnt HC cmp os oe ns ne md vf vb w D _ _ _ _ Hstr Htot Hmd Hvf Hvb HD H)
    as [_ [Hs _]].
  exact Hs.
Qed.
Print Assumptions c19_snake_halves.

(* ---- item 6: the whole algorithm ---- *)
(* any hook / clock whose deadline never fires *)
Theorem c19_myers_work_any_world :
  forall (W : Type) (wd : world W) (cnt : W -> nat) (cmp : cmpf)
         (os oe ns ne : nat) (w w' : W) (D : nat),
    CountResp wd cnt -> NoDeadline wd ->
    os <= oe -> ns <= ne -> CmpTotal cmp os oe ns ne ->
    BoxCost cmp os oe ns ne D ->
    myers_diff wd cmp os oe ns ne w = Ok w' ->
    cnt w' <= cnt w + 6 * ((oe - os) + (ne - ns)) * D + ((oe - os) + (ne - ns)) + 2.
Proof. exact @myers_work. Qed.
Print Assumptions c19_myers_work_any_world.

Theorem c19_myers_work_bound :
  forall (cmp : cmpf) (os oe ns ne : nat) (w0 w1 : plain) (D : nat),
    os <= oe -> ns <= ne -> CmpTotal cmp os oe ns ne ->
    BoxCost cmp os oe ns ne D ->
    myers_diff (plain_world None) cmp os oe ns ne w0 = Ok w1 ->
    cmps (p_ctr w1) <= cmps (p_ctr w0) + 6 * ((oe - os) + (ne - ns) + 1) * (D + 1).
Proof. exact myers_work_bound. Qed.
Print Assumptions c19_myers_work_bound.

(* with D expressed through the LCS length the checker computes: D = N+M-2L *)
Theorem c19_myers_work_bound_lcs :
  forall (cmp : cmpf) (os oe ns ne : nat) (w0 w1 : plain) (L : nat),
    os <= oe -> ns <= ne -> CmpTotal cmp os oe ns ne ->
    IsLcsLen cmp os oe ns ne L ->
    myers_diff (plain_world None) cmp os oe ns ne w0 = Ok w1 ->
    cmps (p_ctr w1) <=
    cmps (p_ctr w0) + 6 * ((oe - os) + (ne - ns) + 1) * ((oe - os) + (ne - ns) - 2 * L + 1).
Proof. exact myers_work_bound_lcs. Qed.
Print Assumptions c19_myers_work_bound_lcs.

(* ---- a concrete pair: N = 7, M = 6, D = 5, 45 comparisons ---- *)
Example c19_instance :
  let old := [1; 2; 3; 1; 2; 2; 1] in
  let new := [3; 2; 1; 2; 1; 3] in
  let cmp := cmp_of Nat.eqb (slice_lookup old) (slice_lookup new) in
  match myers_diff (plain_world None) cmp 0 7 0 6 plain0 with
  | Ok w => cmps (p_ctr w) = 45 /\ 45 <= 6 * (7 + 6 + 1) * (5 + 1)
  | _ => False
  end.
Proof. vm_compute. split; [reflexivity|]. apply Nat.leb_le. reflexivity. Qed.

(* the first middle-snake search of that run: the whole box is already
   stripped, D = 5, min n m = 6: at most 2*(5+1)*6 = 72; the model makes 22 *)
Example c19_instance_snake :
  let old := [1; 2; 3; 1; 2; 2; 1] in
  let new := [3; 2; 1; 2; 1; 3] in
  let cmp := cmp_of Nat.eqb (slice_lookup old) (slice_lookup new) in
  let md := max_d 7 6 in
  match find_middle_snake (plain_world None) cmp 0 7 0 6 (v_new md) (v_new md) plain0 with
  | Ok (Some (x, y), _, _, w) => (x, y) = (4, 1) /\ cmps (p_ctr w) = 22
  | _ => False
  end.
Proof. vm_compute. split; reflexivity. Qed.

(* ---------------------------------------------------------------------- *)
(* Patience: <= 12 (N+M+1)(D+1) with D the size of the script it reports   *)
(* (Proofs/PatienceWork.v).  Patience pays twice: the outer Myers run over *)
(* the two lists of unique items compares items too, and each inner run on *)
(* a gap costs 6 (n+m+1)(d+1).  The oracles must behave like ONE equality  *)
(* on items ([Consistent]); with a Hash/Eq that disagree the bound fails   *)
(* for every constant (c19_patience_needs_consistent).                     *)
(* ---------------------------------------------------------------------- *)
Theorem c19_patience_work_bound :
  forall (dbg : bool) (orc : oracles) (os oe ns ne : nat) (calls : list call) (c : ctr),
    os <= oe -> ns <= ne ->
    CmpTotal (o_on orc) os oe ns ne ->
    Consistent orc os oe ns ne ->
    raw_trace Patience None dbg orc os oe ns ne = Ok (calls, c) ->
    cmps c <= 12 * (oe - os + (ne - ns) + 1) * (calls_cost calls + 1).
Proof. exact patience_work_bound. Qed.
Print Assumptions c19_patience_work_bound.

(* instance: items compared by any boolean equivalence *)
Theorem c19_patience_work_bound_items :
  forall (A : Type) (eqb : A -> A -> bool) (old new : lookup A) (dbg : bool) (os oe ns ne : nat)
         (calls : list call) (c : ctr),
    (forall x : A, eqb x x = true) ->
    (forall x y : A, eqb x y = true -> eqb y x = true) ->
    (forall x y z : A, eqb x y = true -> eqb y z = true -> eqb x z = true) ->
    os <= oe -> ns <= ne ->
    (forall i : nat, os <= i < oe -> exists x : A, old i = Some x) ->
    (forall j : nat, ns <= j < ne -> exists y : A, new j = Some y) ->
    raw_trace Patience None dbg
      {| o_on := cmp_of eqb old new; o_oo := cmp_same eqb old; o_nn := cmp_same eqb new |}
      os oe ns ne = Ok (calls, c) ->
    cmps c <= 12 * (oe - os + (ne - ns) + 1) * (calls_cost calls + 1).
Proof. exact @patience_work_bound_items. Qed.
Print Assumptions c19_patience_work_bound_items.

(* without consistency: identical sequences 0..199 (D = 0), o_oo calling the
   even and o_nn the odd positions unique: 10401 comparisons > 16 * 401 *)
Theorem c19_patience_needs_consistent :
  CmpTotal (o_on bad_orc) 0 200 0 200 /\
  SameTotal (o_oo bad_orc) 0 200 /\
  SameTotal (o_nn bad_orc) 0 200 /\
  exists (calls : list call) (c : ctr),
    raw_trace Patience None true bad_orc 0 200 0 200 = Ok (calls, c) /\
    calls_cost calls = 0 /\
    cmps c = 10401 /\
    (16 * (200 + 200 + 1) * (calls_cost calls + 1) <? cmps c) = true.
Proof. exact patience_work_inconsistent_oracles. Qed.
Print Assumptions c19_patience_needs_consistent.
