(* Props/C09.v — C09: captured diffs are in canonical normal form.
   Proved: Equal and non-Equal ops strictly alternate, no op is empty (a Replace
   has both sides non-empty), hence a deletion adjacent to an insertion is one
   Replace — for every clock, both build modes, Myers and LCS (Patience via
   Proofs/PatienceCapture.v), and for ANY valid script through Replace.
   The "insert sits at its latest position" clause is proved as well
   (Proofs/InsertLatest.v): for every captured op list (all algorithms, every
   clock) and for any valid non-empty script through Compact+Replace.  The
   extracted check_normal decides the same on the implementation's output. *)
From Similar Require Import Model.Base Model.Utils Model.Myers Model.Hooks Model.Compact Model.Capture
  Spec.Script Spec.SnakeSpec Check.Script Proofs.CheckScript Proofs.Replace Proofs.ReplaceLoose Proofs.Pipeline Proofs.InsertLatest.

Theorem c09_capture_alternating :
  forall (alg : algorithm) (dl : deadline) (dbg repair : bool) (orc : oracles) (os oe ns ne : nat),
    os <= oe -> ns <= ne -> CmpTotal (o_on orc) os oe ns ne ->
    forall (ops : list op) (c : ctr), alg <> Patience ->
    capture_diff alg dl dbg repair orc os oe ns ne = Ok (ops, c) ->
    OpsLoose (o_on orc) os oe ns ne ops /\ Alternating ops.
Proof. exact capture_valid. Qed.
Print Assumptions c09_capture_alternating.

(* Replace on any loosely valid non-empty script (e.g. Compact's output) *)
Theorem c09_replace_alternates :
  forall (cmp : cmpf) (os oe ns ne : nat) (ops : list op),
    OpsLoose cmp os oe ns ne ops -> Forall NonEmptyOp ops -> Forall NoRepOp ops ->
    (forall dbg, Replace.replace_trace dbg (map op_to_call ops ++ [CFin]) rstate0 = (replace_ops_out ops, Some rstate0)) /\
    FinishLast (replace_ops_out ops) /\
    OpsLoose cmp os oe ns ne (capture_calls (replace_ops_out ops)) /\
    Alternating (capture_calls (replace_ops_out ops)) /\
    deleted (capture_calls (replace_ops_out ops)) = deleted ops /\
    inserted (capture_calls (replace_ops_out ops)) = inserted ops /\
    equal_total (capture_calls (replace_ops_out ops)) = equal_total ops.
Proof. exact replace_loose. Qed.
Print Assumptions c09_replace_alternates.

Theorem c09_checker_reflects :
  forall (cmp : cmpf) (ops : list op), check_normal cmp ops = true <-> NormalForm cmp ops.
Proof. exact check_normal_spec. Qed.
Print Assumptions c09_checker_reflects.

Example c09_instance :
  let old := [1; 2; 1] in let new := [2; 1; 1] in
  let orc := {| o_on := cmp_of Nat.eqb (slice_lookup old) (slice_lookup new);
                o_oo := cmp_same Nat.eqb (slice_lookup old); o_nn := cmp_same Nat.eqb (slice_lookup new) |} in
  match capture_diff Myers None false false orc 0 3 0 3 with
  | Ok (ops, _) => check_normal (o_on orc) ops = true /\ ops <> []
  | _ => False
  end.
Proof. vm_compute. split; [reflexivity|discriminate]. Qed.

(* ---------------------------------------------------------------------- *)
(* full normal form, including: a pure insertion followed by equal items   *)
(* sits at its latest position                                             *)
(* ---------------------------------------------------------------------- *)
Theorem c09_capture_normal_form :
  forall (alg : algorithm) (dl : deadline) (dbg repair : bool) (orc : oracles) (os oe ns ne : nat)
         (ops : list op) (c : ctr),
    capture_diff alg dl dbg repair orc os oe ns ne = Ok (ops, c) ->
    os <= oe -> ns <= ne -> CmpTotal (o_on orc) os oe ns ne ->
    NormalForm (o_on orc) ops.
Proof. exact capture_normal_form. Qed.
Print Assumptions c09_capture_normal_form.

Theorem c09_capture_insert_latest :
  forall (alg : algorithm) (dl : deadline) (dbg repair : bool) (orc : oracles) (os oe ns ne : nat)
         (ops : list op) (c : ctr),
    capture_diff alg dl dbg repair orc os oe ns ne = Ok (ops, c) ->
    os <= oe -> ns <= ne -> CmpTotal (o_on orc) os oe ns ne ->
    InsertLatest (o_on orc) ops.
Proof. exact capture_insert_latest. Qed.
Print Assumptions c09_capture_insert_latest.

(* any loosely valid script without empty or Replace ops (what an algorithm
   may deliver) pushed through Compact and then Replace *)
Theorem c09_compact_replace_normal_form :
  forall (cmp : cmpf) (repair : bool) (os oe ns ne : nat) (ops ops' : list op),
    OpsLoose cmp os oe ns ne ops ->
    Forall NonEmptyOp ops ->
    Forall (fun x : op => op_tag x <> TReplace) ops ->
    cleanup_diff_ops cmp repair ops = Ok ops' ->
    OpsLoose cmp os oe ns ne (capture_calls (replace_ops_out ops')) /\
    NormalForm cmp (capture_calls (replace_ops_out ops')).
Proof. exact compact_replace_normal_form. Qed.
Print Assumptions c09_compact_replace_normal_form.

(* the non-emptiness premise is necessary: a zero-length Insert is left in
   front of an Equal it "matches" (outside the property's quantifier: no
   algorithm emits empty ops, C01) *)
Theorem c09_needs_nonempty :
  OpsLoose il_cx_cmp 0 1 0 1 [Insert 0 0 0; Equal 0 0 1] /\
  cleanup_diff_ops il_cx_cmp false [Insert 0 0 0; Equal 0 0 1] = Ok [Insert 0 0 0; Equal 0 0 1] /\
  ~ InsertLatest il_cx_cmp [Insert 0 0 0; Equal 0 0 1].
Proof. exact cleanup_insert_latest_needs_nonempty. Qed.
Print Assumptions c09_needs_nonempty.
