(* Props/C09.v — C09: captured diffs are in canonical normal form.
   Proved: Equal and non-Equal ops strictly alternate, no op is empty (a Replace
   has both sides non-empty), hence a deletion adjacent to an insertion is one
   Replace — for every clock, both build modes, Myers and LCS (Patience via
   Proofs/PatienceCapture.v), and for ANY valid script through Replace.
   The "insert sits at its latest position" clause is decided by the extracted
   check_insert_latest on the implementation's output (reflection proved here);
   it is not proved for the model (stated in DESIGN.md). *)
From Similar Require Import Model.Base Model.Utils Model.Myers Model.Hooks Model.Compact Model.Capture
  Spec.Script Spec.SnakeSpec Check.Script Proofs.CheckScript Proofs.Replace Proofs.ReplaceLoose Proofs.Pipeline.

Theorem c09_capture_alternating :
  forall (alg : algorithm) (dl : deadline) (dbg repair : bool) (orc : oracles) (os oe ns ne : nat),
    os <= oe -> ns <= ne -> CmpTotal (o_on orc) os oe ns ne ->
    forall (ops : list op) (c : ctr), alg <> Patience ->
    capture_diff alg dl dbg repair orc os oe ns ne = Ok (ops, c) ->
    OpsLoose (o_on orc) os oe ns ne ops /\ Alternating ops.
Proof. exact capture_valid. Qed.
Print Assumptions c09_capture_alternating.

(* Replace on any loosely valid non-empty script (e.g. Compact's output) *)
Theorem c09_replace_alternates :
  forall (cmp : cmpf) (os oe ns ne : nat) (ops : list op),
    OpsLoose cmp os oe ns ne ops -> Forall NonEmptyOp ops -> Forall NoRepOp ops ->
    (forall dbg, Replace.replace_trace dbg (map op_to_call ops ++ [CFin]) rstate0 = (replace_ops_out ops, Some rstate0)) /\
    FinishLast (replace_ops_out ops) /\
    OpsLoose cmp os oe ns ne (capture_calls (replace_ops_out ops)) /\
    Alternating (capture_calls (replace_ops_out ops)) /\
    deleted (capture_calls (replace_ops_out ops)) = deleted ops /\
    inserted (capture_calls (replace_ops_out ops)) = inserted ops /\
    equal_total (capture_calls (replace_ops_out ops)) = equal_total ops.
Proof. exact replace_loose. Qed.
Print Assumptions c09_replace_alternates.

Theorem c09_checker_reflects :
  forall (cmp : cmpf) (ops : list op), check_normal cmp ops = true <-> NormalForm cmp ops.
Proof. exact check_normal_spec. Qed.
Print Assumptions c09_checker_reflects.

Example c09_instance :
  let old := [1; 2; 1] in let new := [2; 1; 1] in
  let orc := {| o_on := cmp_of Nat.eqb (slice_lookup old) (slice_lookup new);
                o_oo := cmp_same Nat.eqb (slice_lookup old); o_nn := cmp_same Nat.eqb (slice_lookup new) |} in
  match capture_diff Myers None false false orc 0 3 0 3 with
  | Ok (ops, _) => check_normal (o_on orc) ops = true /\ ops <> []
  | _ => False
  end.
Proof. vm_compute. split; [reflexivity|discriminate]. Qed.
