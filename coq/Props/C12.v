(* Props/C12.v — property C12 (group_diff_ops): statements only. *)
From Similar Require Import Model.Base Model.Capture Spec.Script Spec.Group Proofs.Group.

(* the model equals the declarative reference on every alternating op list *)
Theorem c12_eq_ref : forall ops n,
  Alternating ops -> group_diff_ops ops n = group_ref ops n.
Proof. exact group_diff_ops_eq_ref. Qed.
Print Assumptions c12_eq_ref.

(* ... and already on every op list without two adjacent Equal ops *)
Theorem c12_eq_ref_sep : forall ops n,
  EqSep ops -> group_diff_ops ops n = group_ref ops n.
Proof. exact group_diff_ops_eq_ref_sep. Qed.
Print Assumptions c12_eq_ref_sep.

Theorem c12_alternating_sep : forall ops, Alternating ops -> EqSep ops.
Proof. exact Alternating_EqSep. Qed.
Print Assumptions c12_alternating_sep.

(* G0: no change => no group *)
Theorem c12_G0 : forall ops n,
  Alternating ops -> (forall x, In x ops -> IsEqualOp x) -> group_ref ops n = [].
Proof. exact group_ref_G0. Qed.
Print Assumptions c12_G0.

(* G1: every group contains a change *)
Theorem c12_G1 : forall ops n,
  Alternating ops ->
  forall g, In g (group_ref ops n) -> exists x, In x g /\ ~ IsEqualOp x.
Proof. exact group_ref_G1. Qed.
Print Assumptions c12_G1.

(* G2: the changes of the groups are the changes of ops: all of them, in
   order, each exactly once *)
Theorem c12_G2 : forall ops n,
  changes (concat (group_ref ops n)) = changes ops.
Proof. exact group_ref_G2. Qed.
Print Assumptions c12_G2.

(* G5: an Equal op strictly inside a group is an op of the input, unchanged,
   of length <= 2n *)
Theorem c12_G5 : forall ops n g a o nn l b,
  In g (group_ref ops n) -> g = a ++ Equal o nn l :: b -> a <> [] -> b <> [] ->
  In (Equal o nn l) ops /\ l <= 2 * n.
Proof. exact group_ref_G5. Qed.
Print Assumptions c12_G5.

(* G6: consecutive changes c1, c2 separated by Equal o nn l share a group iff
   l <= 2n; otherwise the group of c1 ends with the first n items of the
   Equal and the next group starts with its last n items *)
Theorem c12_G6 : forall n A c1 o nn l c2 B,
  is_eq c1 = false -> is_eq c2 = false ->
  (l <= 2 * n ->
   exists GA g1 g2 GB,
     changes (concat GA ++ g1) = changes A /\
     group_ref (A ++ c1 :: Equal o nn l :: c2 :: B) n =
     GA ++ (g1 ++ c1 :: Equal o nn l :: c2 :: g2) :: GB) /\
  (2 * n < l ->
   exists GA g1 g2 GB,
     changes (concat GA ++ g1) = changes A /\
     group_ref (A ++ c1 :: Equal o nn l :: c2 :: B) n =
     GA ++ (g1 ++ [c1; Equal o nn n])
        :: (Equal (o + (l - n)) (nn + (l - n)) n :: c2 :: g2) :: GB).
Proof. exact group_ref_G6. Qed.
Print Assumptions c12_G6.

Theorem c12_G6_count : forall ops n,
  changes ops <> [] -> length (group_ref ops n) = 1 + interior_long n ops.
Proof. exact group_ref_G6_count. Qed.
Print Assumptions c12_G6_count.

(* G4: cluster decomposition with context at both ends; it determines the
   result *)
Theorem c12_G4 : forall ops n, Alternating ops -> GroupSpec n ops (group_ref ops n).
Proof. exact group_ref_G4. Qed.
Print Assumptions c12_G4.

Theorem c12_G4_unique : forall n ops gs, GroupSpec n ops gs -> gs = group_ref ops n.
Proof. exact GroupSpec_unique. Qed.
Print Assumptions c12_G4_unique.

Theorem c12_G4_first_eq : forall n o nn l c rest,
  is_eq c = false ->
  exists g gs, group_ref (Equal o nn l :: c :: rest) n = (ctx_before n o nn l :: c :: g) :: gs.
Proof. exact group_ref_G4_first_eq. Qed.
Print Assumptions c12_G4_first_eq.

Theorem c12_G4_first_chg : forall n c rest,
  is_eq c = false -> exists g gs, group_ref (c :: rest) n = (c :: g) :: gs.
Proof. exact group_ref_G4_first_chg. Qed.
Print Assumptions c12_G4_first_chg.

Theorem c12_G4_last_eq : forall n A c o nn l,
  is_eq c = false ->
  exists GA g,
    changes (concat GA ++ g) = changes A /\
    group_ref (A ++ [c; Equal o nn l]) n = GA ++ [g ++ [c; ctx_after n o nn l]].
Proof. exact group_ref_G4_last_eq. Qed.
Print Assumptions c12_G4_last_eq.

Theorem c12_G4_last_chg : forall n A c,
  is_eq c = false ->
  exists GA g,
    changes (concat GA ++ g) = changes A /\
    group_ref (A ++ [c]) n = GA ++ [g ++ [c]].
Proof. exact group_ref_G4_last_chg. Qed.
Print Assumptions c12_G4_last_chg.

(* the executable checker decides gs = group_ref ops n *)
Theorem c12_check_groups : forall ops n gs,
  check_groups ops n gs = true <-> gs = group_ref ops n.
Proof. exact check_groups_iff. Qed.
Print Assumptions c12_check_groups.

(* the structure theorem and the checker, stated for the model function *)
Theorem c12_model_spec : forall ops n,
  Alternating ops -> GroupSpec n ops (group_diff_ops ops n).
Proof. exact group_diff_ops_spec. Qed.
Print Assumptions c12_model_spec.

Theorem c12_model_check : forall ops n,
  Alternating ops -> check_groups ops n (group_diff_ops ops n) = true.
Proof. exact group_diff_ops_check. Qed.
Print Assumptions c12_model_check.

(* non-vacuity: two groups, n = 1 *)
Example c12_example :
  let ops := [Equal 0 0 5; Delete 5 1 5; Equal 6 5 2; Insert 8 7 1; Equal 8 8 3;
              Replace 11 2 11 3; Equal 13 14 7] in
  group_diff_ops ops 1 =
    [[Equal 4 4 1; Delete 5 1 5; Equal 6 5 2; Insert 8 7 1; Equal 8 8 1];
     [Equal 10 10 1; Replace 11 2 11 3; Equal 13 14 1]]
  /\ group_ref ops 1 = group_diff_ops ops 1
  /\ check_groups ops 1 (group_diff_ops ops 1) = true.
Proof. vm_compute. repeat split. Qed.
Print Assumptions c12_example.
