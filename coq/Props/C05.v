(* Props/C05.v — C05: rendered unified diffs are well-formed and apply exactly. *)
From Coq Require Import NArith.
From Similar Require Import Model.Base Model.Iter Model.Capture Model.Utf8 Model.Tokenize
     Model.TextDiff Spec.Script Spec.Patch Spec.UdiffHunks Spec.UdiffParse Check.Script Proofs.Udiff Proofs.UdiffParse.

Theorem c05_bytes_eqb_iff :
  forall a b : list N, bytes_eqb a b = true <-> a = b.
Proof. exact bytes_eqb_iff. Qed.
Print Assumptions c05_bytes_eqb_iff.

(* the renderer's model = printer of the hunk records, for every op list
   (equal results, equal panics) *)
Theorem c05_udiff_render_eq_print_gen :
  forall (old new : list (list N)) (hint : bool) (ops : list op) (n : nat)
         (header : option (list N * list N)),
    render_udiff old new true hint false ops n header =
    (do hs <- model_hunks old new ops n; Ok (print_udiff hint header hs)).
Proof. exact udiff_render_eq_print_gen. Qed.
Print Assumptions c05_udiff_render_eq_print_gen.

(* ... and nothing panics for in-bounds op lists *)
Theorem c05_udiff_render_eq_print :
  forall (old new : list (list N)) (hint : bool) (ops : list op) (n : nat)
         (header : option (list N * list N)),
    OpsLoose (cmp_of bytes_eqb (slice_lookup old) (slice_lookup new)) 0
      (length old) 0 (length new) ops ->
    exists hs : list hunk,
      model_hunks old new ops n = Ok hs /\
      render_udiff old new true hint false ops n header = Ok (print_udiff hint header hs).
Proof. exact udiff_render_eq_print. Qed.
Print Assumptions c05_udiff_render_eq_print.

(* the hunk records have the documented shape and apply exactly *)
Theorem c05_udiff_applies :
  forall (old new : list (list N)) (ops : list op) (n : nat),
    OpsExact (cmp_of bytes_eqb (slice_lookup old) (slice_lookup new)) 0
      (length old) 0 (length new) ops ->
    Alternating ops ->
    exists hs : list hunk,
      model_hunks old new ops n = Ok hs /\ check_patch n hs old new = true.
Proof. exact udiff_applies. Qed.
Print Assumptions c05_udiff_applies.

Theorem c05_udiff_applies_strict :
  forall (old new : list (list N)) (ops : list op) (n : nat),
    OpsExact (cmp_of bytes_eqb (slice_lookup old) (slice_lookup new)) 0
      (length old) 0 (length new) ops ->
    Alternating ops ->
    exists hs : list hunk,
      model_hunks old new ops n = Ok hs /\
      apply_strict hs old = Some new /\
      Forall (fun h : hunk => hunk_shape_ok n h = true) hs.
Proof. exact udiff_applies_strict. Qed.
Print Assumptions c05_udiff_applies_strict.

Theorem c05_udiff_render_applies :
  forall (old new : list (list N)) (hint : bool) (ops : list op) (n : nat)
         (header : option (list N * list N)),
    OpsExact (cmp_of bytes_eqb (slice_lookup old) (slice_lookup new)) 0
      (length old) 0 (length new) ops ->
    Alternating ops ->
    exists hs : list hunk,
      render_udiff old new true hint false ops n header = Ok (print_udiff hint header hs) /\
      check_patch n hs old new = true.
Proof. exact udiff_render_applies. Qed.
Print Assumptions c05_udiff_render_applies.

(* empty output <-> no change op; then old = new *)
Theorem c05_udiff_empty_iff_no_change :
  forall (old new : list (list N)) (ops : list op) (n : nat) (hint : bool)
         (header : option (list N * list N)),
    OpsExact (cmp_of bytes_eqb (slice_lookup old) (slice_lookup new)) 0
      (length old) 0 (length new) ops ->
    Alternating ops ->
    render_udiff old new true hint false ops n header = Ok [] <->
    (forall x : op, In x ops -> IsEqualOp x).
Proof. exact udiff_empty_iff_no_change. Qed.
Print Assumptions c05_udiff_empty_iff_no_change.

Theorem c05_udiff_empty_equal :
  forall (old new : list (list N)) (ops : list op) (n : nat) (hint : bool)
         (header : option (list N * list N)),
    OpsExact (cmp_of bytes_eqb (slice_lookup old) (slice_lookup new)) 0
      (length old) 0 (length new) ops ->
    Alternating ops ->
    render_udiff old new true hint false ops n header = Ok [] -> old = new.
Proof. exact udiff_empty_equal. Qed.
Print Assumptions c05_udiff_empty_equal.

(* the "iff old = new" needs an LCS-optimal script (see the counterexample below) *)
Theorem c05_udiff_empty_iff_equal :
  forall (old new : list (list N)) (hint : bool) (ops : list op) (n : nat)
         (header : option (list N * list N)),
    OpsExact (cmp_of bytes_eqb (slice_lookup old) (slice_lookup new)) 0
      (length old) 0 (length new) ops ->
    Alternating ops ->
    IsLcsLen (cmp_of bytes_eqb (slice_lookup old) (slice_lookup new)) 0
      (length old) 0 (length new) (equal_total ops) ->
    render_udiff old new true hint false ops n header = Ok [] <-> old = new.
Proof. exact udiff_empty_iff_equal. Qed.
Print Assumptions c05_udiff_empty_iff_equal.

Theorem c05_udiff_header_once :
  forall (old new : list (list N)) (ops : list op) (n : nat) (hint : bool)
         (header : option (list N * list N)),
    OpsExact (cmp_of bytes_eqb (slice_lookup old) (slice_lookup new)) 0
      (length old) 0 (length new) ops ->
    Alternating ops ->
    exists hs : list hunk,
      model_hunks old new ops n = Ok hs /\
      (forall out : list N,
          render_udiff old new true hint false ops n header = Ok out ->
          (hs = [] -> out = []) /\
          (hs <> [] ->
           out = match header with
                 | Some (a, b) => file_header a b ++ print_hunks hint hs
                 | None => print_hunks hint hs
                 end) /\
          (hs <> [] -> exists rest : list N, print_hunks hint hs = 64%N :: rest) /\
          (hd_error out = Some 45%N <->
           (exists a b : list N, header = Some (a, b)) /\ hs <> [])).
Proof. exact udiff_header_once. Qed.
Print Assumptions c05_udiff_header_once.

Theorem c05_marker_exactly :
  forall (t : ctag) (l : list N),
    (print_item true (t, l) = tag_char t :: l ++ txt_no_newline_marker <->
     ends_with_newline l = false) /\
    (print_item true (t, l) = tag_char t :: l <-> ends_with_newline l = true) /\
    (print_item false (t, l) = tag_char t :: l ++ [10%N] <-> ends_with_newline l = false).
Proof. exact marker_exactly. Qed.
Print Assumptions c05_marker_exactly.

Theorem c05_marker_exactly_body :
  forall (hint : bool) (t : ctag) (l : list N) (b : list (ctag * list N)),
    print_body hint ((t, l) :: b) =
    tag_char t :: l ++
    (if ends_with_newline l then [] else missing_newline_text hint) ++ print_body hint b.
Proof. exact marker_exactly_body. Qed.
Print Assumptions c05_marker_exactly_body.

Theorem c05_ends_with_newline_spec :
  forall l : list N,
    ends_with_newline l = true <->
    (exists (l' : list N) (c : N), l = l' ++ [c] /\ (c = 13%N \/ c = 10%N)).
Proof. exact ends_with_newline_spec. Qed.
Print Assumptions c05_ends_with_newline_spec.

Theorem c05_writer_bytes :
  forall (old new : list (list N)) (hint : bool) (ops : list op) (n : nat)
         (header : option (list N * list N)),
    OpsLoose (cmp_of bytes_eqb (slice_lookup old) (slice_lookup new)) 0
      (length old) 0 (length new) ops ->
    exists (hs : list hunk) (out : list N),
      model_hunks old new ops n = Ok hs /\
      render_udiff old new true hint false ops n header = Ok out /\
      (forall (h : hunk) (t : ctag) (l : list N),
          In h hs -> In (t, l) (h_body h) ->
          In l match t with ChInsert => new | _ => old end /\
          (exists pre post : list N, out = pre ++ tag_char t :: l ++ post)).
Proof. exact writer_bytes. Qed.
Print Assumptions c05_writer_bytes.

Theorem c05_lossy_app_sep :
  forall b : list N, Sep b -> forall a : list N, lossy (a ++ b) = lossy a ++ lossy b.
Proof. exact lossy_app_sep. Qed.
Print Assumptions c05_lossy_app_sep.

Theorem c05_lossy_ascii :
  forall a : list N, Ascii a -> lossy a = a.
Proof. exact lossy_ascii. Qed.
Print Assumptions c05_lossy_ascii.

Theorem c05_display_eq_lossy_writer :
  forall (old new : list (list N)) (hint : bool) (ops : list op) (n : nat)
         (header : option (list N * list N)),
    match header with
    | Some (a, b) => lossy a = a /\ lossy b = b
    | None => True
    end ->
    render_udiff old new true hint true ops n header =
    (do out <- render_udiff old new true hint false ops n header; Ok (lossy out)).
Proof. exact display_eq_lossy_writer. Qed.
Print Assumptions c05_display_eq_lossy_writer.

(* ------------------------------------------------------------------ *)
(* A 7-line text, line 6 changed, no final newline, radius 1.           *)
(*   old = a b c d e f g   new = a b c d e F g   (g without newline)     *)
Example c05_instance :
  let old : list (list N) :=
    [[97; 10]; [98; 10]; [99; 10]; [100; 10]; [101; 10]; [102; 10]; [103]]%N in
  let new : list (list N) :=
    [[97; 10]; [98; 10]; [99; 10]; [100; 10]; [101; 10]; [70; 10]; [103]]%N in
  let cmp := cmp_of bytes_eqb (slice_lookup old) (slice_lookup new) in
  let ops := [Equal 0 0 5; Replace 5 1 5 1; Equal 6 6 1] in
  let hs := [ {| h_oshown := 5; h_olen := 3; h_nshown := 5; h_nlen := 3;
                 h_body := [(ChEqual, [101; 10]); (ChDelete, [102; 10]);
                            (ChInsert, [70; 10]); (ChEqual, [103])]%N |} ] in
  (* the ops are what the pipeline produces, and satisfy the premises *)
  textdiff_ops Myers None false false
    (oracles_of_items bytes_eqb (slice_lookup old) (slice_lookup new)) 7 7
    = Ok (ops, {| probes := 0; cmps := 10; expired := false; post_cmps := 0 |}) /\
  check_ops_exact cmp 0 7 0 7 ops = true /\
  check_alternating ops = true /\
  (* "--- a\n+++ b\n@@ -5,3 +5,3 @@\n e\n-f\n+F\n g\n\\ No newline at end of file\n" *)
  render_udiff old new true true false ops 1 (Some ([97], [98]))%N =
    Ok [45; 45; 45; 32; 97; 10; 43; 43; 43; 32; 98; 10;
        64; 64; 32; 45; 53; 44; 51; 32; 43; 53; 44; 51; 32; 64; 64; 10;
        32; 101; 10; 45; 102; 10; 43; 70; 10; 32; 103;
        10; 92; 32; 78; 111; 32; 110; 101; 119; 108; 105; 110; 101; 32; 97; 116; 32;
        101; 110; 100; 32; 111; 102; 32; 102; 105; 108; 101; 10]%N /\
  model_hunks old new ops 1 = Ok hs /\
  check_patch 1 hs old new = true /\
  apply_strict hs old = Some new.
Proof. vm_compute. repeat split; reflexivity. Qed.

(* The OpsExact premise is not decorative: a loosely valid op list whose
   Delete carries new index 1 while the cursor is at 0 (the recorded defect's
   shape) renders "@@ -1 +1,0 @@ / -b / @@ -2,0 +2 @@ / +a", whose first hunk
   claims new position 1: the strict applier rejects it. *)
Example c05_nonexact_rejected :
  let old : list (list N) := [[98; 10]; [97; 10]]%N in
  let new : list (list N) := [[97; 10]; [97; 10]]%N in
  let cmp := cmp_of bytes_eqb (slice_lookup old) (slice_lookup new) in
  let ops := [Delete 0 1 1; Equal 1 0 1; Insert 1 1 1] in
  let hs := [ {| h_oshown := 1; h_olen := 1; h_nshown := 1; h_nlen := 0;
                 h_body := [(ChDelete, [98; 10])]%N |};
              {| h_oshown := 2; h_olen := 0; h_nshown := 2; h_nlen := 1;
                 h_body := [(ChInsert, [97; 10])]%N |} ] in
  check_ops_loose cmp 0 2 0 2 ops = true /\
  check_ops_exact cmp 0 2 0 2 ops = false /\
  check_alternating ops = true /\
  model_hunks old new ops 0 = Ok hs /\
  check_patch 0 hs old new = false /\
  (* with the exact indices the same script passes *)
  (do hs' <- model_hunks old new [Delete 0 1 0; Equal 1 0 1; Insert 2 1 1] 0;
   Ok (check_patch 0 hs' old new)) = Ok true.
Proof. vm_compute. repeat split; reflexivity. Qed.

(* OpsExact + Alternating do not make the diff of equal texts empty: the
   script must also be LCS-optimal (c05_udiff_empty_iff_equal). *)
Example c05_equal_texts_nonempty_diff :
  let old : list (list N) := [[97]]%N in
  let cmp := cmp_of bytes_eqb (slice_lookup old) (slice_lookup old) in
  let ops := [Replace 0 1 0 1] in
  check_ops_exact cmp 0 1 0 1 ops = true /\
  check_alternating ops = true /\
  render_udiff old old true true false ops 3 None <> Ok [] /\
  (do hs <- model_hunks old old ops 3; Ok (check_patch 3 hs old old)) = Ok true.
Proof. vm_compute. repeat split; try reflexivity. discriminate. Qed.

(* an empty-bodied hunk (only possible with empty ops) prints nothing *)
Example c05_empty_op_group :
  render_udiff [] [] true true false [Delete 0 0 0] 3 None = Ok [] /\
  model_hunks [] [] [Delete 0 0 0] 3 =
    Ok [ {| h_oshown := 0; h_olen := 0; h_nshown := 0; h_nlen := 0; h_body := [] |} ].
Proof. vm_compute. split; reflexivity. Qed.

(* ---------------------------------------------------------------------- *)
(* the parser used by the run-time check on the real crate's output        *)
(* (Spec/UdiffParse.v, extracted): it accepts exactly the printer's image  *)
(* ---------------------------------------------------------------------- *)
Theorem c05_parse_sound :
  forall (hint : bool) (header : option (list N * list N)) (s : list N) (hs : list hunk),
    parse_udiff hint header s = Some hs -> print_udiff hint header hs = s.
Proof. exact parse_sound. Qed.
Print Assumptions c05_parse_sound.

(* what "parse, then check_patch" on the real bytes means *)
Theorem c05_parse_check_meaning :
  forall (hint : bool) (header : option (list N * list N)) (s : list N) (n : nat) (hs : list hunk)
         (old new : list (list N)),
    parse_udiff hint header s = Some hs ->
    check_patch n hs old new = true ->
    s = print_udiff hint header hs /\
    apply_strict hs old = Some new /\
    Forall (fun h : hunk => hunk_shape_ok n h = true) hs.
Proof. exact parse_check_meaning. Qed.
Print Assumptions c05_parse_check_meaning.

Theorem c05_parse_print :
  forall (header : option (list N * list N)) (hs : list hunk),
    Forall HunkWf hs ->
    parse_udiff true header (print_udiff true header hs) = Some hs.
Proof. exact parse_print. Qed.
Print Assumptions c05_parse_print.

Theorem c05_parse_print_nohint :
  forall (header : option (list N * list N)) (hs : list hunk),
    Forall HunkWf hs ->
    parse_udiff false header (print_udiff false header hs) = Some (map norm_hunk hs).
Proof. exact parse_print_nohint. Qed.
Print Assumptions c05_parse_print_nohint.

(* the model's rendering of the line tokens of ANY two byte texts parses back
   and applies strictly (no premise on the lines) *)
Theorem c05_text_render_parse_applies :
  forall (bm : bool) (o nw : list N) (ops : list op) (n : nat) (header : option (list N * list N)),
    let old := map (tok_bytes o) (tokenize bm TkLines o) in
    let new := map (tok_bytes nw) (tokenize bm TkLines nw) in
    OpsExact (cmp_of bytes_eqb (slice_lookup old) (slice_lookup new)) 0 (length old) 0 (length new) ops ->
    Alternating ops ->
    exists (s : list N) (hs : list hunk),
      render_udiff old new true true false ops n header = Ok s /\
      parse_udiff true header s = Some hs /\ check_patch n hs old new = true.
Proof. exact text_render_parse_applies. Qed.
Print Assumptions c05_text_render_parse_applies.

(* hint off: "a" and "a\n" print alike; the parser returns the normalised
   hunks and they apply to the normalised lines *)
Theorem c05_render_parse_applies_nohint :
  forall old new : list (list N),
    LinesOkL old -> LinesOkL new ->
    forall (ops : list op) (n : nat) (header : option (list N * list N)),
    OpsExact (cmp_of bytes_eqb (slice_lookup old) (slice_lookup new)) 0 (length old) 0 (length new) ops ->
    Alternating ops ->
    exists (s : list N) (hs : list hunk),
      render_udiff old new true false false ops n header = Ok s /\
      model_hunks old new ops n = Ok hs /\
      parse_udiff false header s = Some (map norm_hunk hs) /\
      check_patch n (map norm_hunk hs) (map norm_line old) (map norm_line new) = true.
Proof. exact render_parse_applies_nohint. Qed.
Print Assumptions c05_render_parse_applies_nohint.
