(* Props/C18.v — C18: get_close_matches equals exhaustive ranking by
   similarity ratio.

   For every word, candidate list, n and cutoff, the result is exactly the
   first n entries of the list of all candidates whose character-level
   similarity ratio to the word is at least the cutoff, ordered by decreasing
   heap key (the ratio scaled to u32) and, among equal keys,
   lexicographically.  The cheap pre-filters never discard a candidate that
   meets the cutoff.

   Modelling (Model/Close.v).  F is the float type with its order [leF];
   [rnd : Q -> F] is the rounding of an exact ratio, only assumed monotone;
   [key : F -> nat] is `(ratio * u32::MAX as f32) as u32`, only assumed
   monotone; [leC] is the order on candidate strings; [chars] is
   tokenize_chars; [eqb] decides equality of characters.

   NOTE on the wording "ordered by decreasing ratio".  The order of the
   result is decided by the u32 key, and the key is only weakly monotone in
   the f32 ratio: below 2^-9 neighbouring f32 values share a key.  So the
   property holds with "key" in place of "ratio" (c18_exhaustive_ranking),
   and with "ratio" under the premise that the key separates the ratios that
   occur (c18_ranking_by_ratio).  Without that premise it is false for the
   crate: word "a", candidates c1 = "a" ++ 131071 * "b", c2 = "aa" ++ 131071 * "b",
   cutoff 0.0: ratio c1 = 2/131073 > ratio c2 = 2/131074, both keys are
   65535, and the crate returns [c2, c1]. *)
From Coq Require Import QArith Sorted Permutation.
From Similar Require Import Model.Base Model.Capture Model.TextDiff Model.Close
     Check.Script Proofs.Close.
Local Close Scope Q_scope.

(* ---------------------------------------------------------------------- *)
(* the pre-filters never discard a candidate that meets the cutoff          *)
(* ---------------------------------------------------------------------- *)
Theorem c18_filters_sound :
  forall (A C F : Type) (eqb : A -> A -> bool),
    (forall x y : A, eqb x y = true <-> x = y) ->
    forall (chars : C -> list A) (rnd : Q -> F) (leF : F -> F -> bool),
      (forall a b c : F, leF a b = true -> leF b c = true -> leF a c = true) ->
      (forall q1 q2 : Q, (q1 <= q2)%Q -> leF (rnd q1) (rnd q2) = true) ->
      forall (cutoff : F) (word c : C),
        leF cutoff (rnd (ratio_q eqb (chars word) (chars c))) = true ->
        leF cutoff (rnd (upper_q (length (chars word)) (length (chars c)))) = true /\
        leF cutoff (rnd (quick_q eqb (chars word) (chars c))) = true.
Proof. exact @filters_sound. Qed.
Print Assumptions c18_filters_sound.

(* as exact rationals: ratio <= upper bound, ratio <= quick bound *)
Theorem c18_ratio_le_filters :
  forall (A : Type) (eqb : A -> A -> bool),
    (forall x y : A, eqb x y = true <-> x = y) ->
    forall s1 s2 : list A,
      (ratio_q eqb s1 s2 <= upper_q (length s1) (length s2))%Q /\
      (ratio_q eqb s1 s2 <= quick_q eqb s1 s2)%Q.
Proof.
  intros A eqb Hspec s1 s2. split.
  - exact (ratio_q_le_upper eqb Hspec s1 s2).
  - exact (ratio_q_le_quick eqb Hspec s1 s2).
Qed.
Print Assumptions c18_ratio_le_filters.

(* ---------------------------------------------------------------------- *)
(* the property                                                             *)
(* ---------------------------------------------------------------------- *)
(* Take ANY list [ranked] that (i) consists of exactly the candidates whose
   rounded ratio is >= cutoff, with multiplicity, and (ii) is ordered by
   decreasing key and, among equal keys, by [leC].  Then the result is
   [firstn n ranked]. *)
Theorem c18_exhaustive_ranking :
  forall (A C F : Type) (eqb : A -> A -> bool),
    (forall x y : A, eqb x y = true <-> x = y) ->
    forall (chars : C -> list A) (rnd : Q -> F) (leF : F -> F -> bool) (key : F -> nat)
           (leC : C -> C -> bool),
      (forall a b c : F, leF a b = true -> leF b c = true -> leF a c = true) ->
      (forall q1 q2 : Q, (q1 <= q2)%Q -> leF (rnd q1) (rnd q2) = true) ->
      (forall a b c : C, leC a b = true -> leC b c = true -> leC a c = true) ->
      (forall a b : C, leC a b = true \/ leC b a = true) ->
      (forall a b : C, leC a b = true -> leC b a = true -> a = b) ->
      forall (cutoff : F) (word : C) (cands : list C) (n : nat) (ranked : list C),
        let ratio := fun c : C => rnd (ratio_q eqb (chars word) (chars c)) in
        Permutation ranked (filter (fun c => leF cutoff (ratio c)) cands) ->
        StronglySorted
          (fun a b => key (ratio b) < key (ratio a) \/
                      (key (ratio a) = key (ratio b) /\ leC a b = true)) ranked ->
        close_matches eqb chars rnd leF key leC cutoff word cands n = firstn n ranked.
Proof. exact @close_matches_ranked. Qed.
Print Assumptions c18_exhaustive_ranking.

(* such a list always exists *)
Theorem c18_ranking_exists :
  forall (A C F : Type) (eqb : A -> A -> bool) (chars : C -> list A) (rnd : Q -> F)
         (leF : F -> F -> bool) (key : F -> nat) (leC : C -> C -> bool),
    (forall a b c : C, leC a b = true -> leC b c = true -> leC a c = true) ->
    (forall a b : C, leC a b = true \/ leC b a = true) ->
    forall (cutoff : F) (word : C) (cands : list C),
      let ratio := fun c : C => rnd (ratio_q eqb (chars word) (chars c)) in
      exists ranked : list C,
        Permutation ranked (filter (fun c => leF cutoff (ratio c)) cands) /\
        StronglySorted
          (fun a b => key (ratio b) < key (ratio a) \/
                      (key (ratio a) = key (ratio b) /\ leC a b = true)) ranked.
Proof. exact @close_matches_ranking_exists. Qed.
Print Assumptions c18_ranking_exists.

(* executable form: filter by the cutoff, attach keys, insertion-sort
   descending by (key, Reverse candidate), take n, drop the keys *)
Theorem c18_sorted_spec :
  forall (A C F : Type) (eqb : A -> A -> bool),
    (forall x y : A, eqb x y = true <-> x = y) ->
    forall (chars : C -> list A) (rnd : Q -> F) (leF : F -> F -> bool) (key : F -> nat)
           (leC : C -> C -> bool),
      (forall a b c : F, leF a b = true -> leF b c = true -> leF a c = true) ->
      (forall q1 q2 : Q, (q1 <= q2)%Q -> leF (rnd q1) (rnd q2) = true) ->
      (forall a b c : C, leC a b = true -> leC b c = true -> leC a c = true) ->
      (forall a b : C, leC a b = true \/ leC b a = true) ->
      (forall a b : C, leC a b = true -> leC b a = true -> a = b) ->
      forall (cutoff : F) (word : C) (cands : list C) (n : nat),
        let ratio := fun c : C => rnd (ratio_q eqb (chars word) (chars c)) in
        close_matches eqb chars rnd leF key leC cutoff word cands n =
        map snd
          (firstn n
             (sort_desc (entry_le leC)
                (map (fun c => (key (ratio c), c))
                   (filter (fun c => leF cutoff (ratio c)) cands)))).
Proof. exact @close_matches_spec. Qed.
Print Assumptions c18_sorted_spec.

(* The BinaryHeap enters only through "pop returns a maximum": whatever the
   arrangement of the pushed entries and whichever maximum each pop picks,
   the popped candidate strings are the model's result. *)
Theorem c18_any_heap :
  forall (A C F : Type) (eqb : A -> A -> bool),
    (forall x y : A, eqb x y = true <-> x = y) ->
    forall (chars : C -> list A) (rnd : Q -> F) (leF : F -> F -> bool) (key : F -> nat)
           (leC : C -> C -> bool),
      (forall a b c : F, leF a b = true -> leF b c = true -> leF a c = true) ->
      (forall q1 q2 : Q, (q1 <= q2)%Q -> leF (rnd q1) (rnd q2) = true) ->
      (forall a b c : C, leC a b = true -> leC b c = true -> leC a c = true) ->
      (forall a b : C, leC a b = true \/ leC b a = true) ->
      (forall a b : C, leC a b = true -> leC b a = true -> a = b) ->
      forall (cutoff : F) (word : C) (cands : list C) (n : nat) (heap out : list (nat * C)),
        let ratio := fun c : C => rnd (ratio_q eqb (chars word) (chars c)) in
        Permutation heap
          (map (fun c => (key (ratio c), c)) (filter (fun c => leF cutoff (ratio c)) cands)) ->
        Pops (entry_le leC) n heap out ->
        map snd out = close_matches eqb chars rnd leF key leC cutoff word cands n.
Proof. exact @close_matches_any_heap_q. Qed.
Print Assumptions c18_any_heap.

(* the key remark: when the key separates the ratios that occur, the order
   is "ratio descending, then candidate ascending" *)
Theorem c18_ranking_by_ratio :
  forall (A C F : Type) (eqb : A -> A -> bool),
    (forall x y : A, eqb x y = true <-> x = y) ->
    forall (chars : C -> list A) (rnd : Q -> F) (leF : F -> F -> bool) (key : F -> nat)
           (leC : C -> C -> bool),
      (forall a b c : F, leF a b = true -> leF b c = true -> leF a c = true) ->
      (forall q1 q2 : Q, (q1 <= q2)%Q -> leF (rnd q1) (rnd q2) = true) ->
      (forall a b : F, leF a b = true -> key a <= key b) ->
      (forall a b c : C, leC a b = true -> leC b c = true -> leC a c = true) ->
      (forall a b : C, leC a b = true \/ leC b a = true) ->
      (forall a b : C, leC a b = true -> leC b a = true -> a = b) ->
      forall (cutoff : F) (word : C) (cands : list C) (n : nat) (ranked : list C),
        let ratio := fun c : C => rnd (ratio_q eqb (chars word) (chars c)) in
        (* the key is strictly monotone on the ratios that occur *)
        (forall a b : C,
            In a cands -> In b cands ->
            leF cutoff (ratio a) = true -> leF cutoff (ratio b) = true ->
            key (ratio a) <= key (ratio b) -> leF (ratio a) (ratio b) = true) ->
        Permutation ranked (filter (fun c => leF cutoff (ratio c)) cands) ->
        StronglySorted
          (fun a b => leF (ratio a) (ratio b) = false \/
                      (leF (ratio a) (ratio b) = true /\ leF (ratio b) (ratio a) = true /\
                       leC a b = true)) ranked ->
        close_matches eqb chars rnd leF key leC cutoff word cands n = firstn n ranked.
Proof. exact @close_matches_ranked_ratio. Qed.
Print Assumptions c18_ranking_by_ratio.

(* ---------------------------------------------------------------------- *)
(* the same for an arbitrary evaluation of `2.0 * k as f32 / n as f32`      *)
(* ---------------------------------------------------------------------- *)
(* [ev] maps a ratio as written ([None] = 1.0, [Some (k, n)] = 2k/n) to F and
   is only assumed monotone in k and antitone in n; this covers the three
   roundings of the f32 expression for operands of any size. *)
Theorem c18_filters_sound_gen :
  forall (A C F : Type) (eqb : A -> A -> bool),
    (forall x y : A, eqb x y = true <-> x = y) ->
    forall (chars : C -> list A) (ev : frac -> F) (leF : F -> F -> bool),
      (forall a b c : F, leF a b = true -> leF b c = true -> leF a c = true) ->
      (forall x y : frac, frac_le x y -> leF (ev x) (ev y) = true) ->
      forall (cutoff : F) (word c : C),
        leF cutoff (ev (ratio_nd eqb (chars word) (chars c))) = true ->
        leF cutoff (ev (upper_nd (length (chars word)) (length (chars c)))) = true /\
        leF cutoff (ev (quick_nd eqb (chars word) (chars c))) = true.
Proof. exact @filters_sound_gen. Qed.
Print Assumptions c18_filters_sound_gen.

Theorem c18_exhaustive_ranking_gen :
  forall (A C F : Type) (eqb : A -> A -> bool),
    (forall x y : A, eqb x y = true <-> x = y) ->
    forall (chars : C -> list A) (ev : frac -> F) (leF : F -> F -> bool) (key : F -> nat)
           (leC : C -> C -> bool),
      (forall a b c : F, leF a b = true -> leF b c = true -> leF a c = true) ->
      (forall x y : frac, frac_le x y -> leF (ev x) (ev y) = true) ->
      (forall a b c : C, leC a b = true -> leC b c = true -> leC a c = true) ->
      (forall a b : C, leC a b = true \/ leC b a = true) ->
      (forall a b : C, leC a b = true -> leC b a = true -> a = b) ->
      forall (cutoff : F) (word : C) (cands : list C) (n : nat) (ranked : list C),
        let ratio := fun c : C => ev (ratio_nd eqb (chars word) (chars c)) in
        Permutation ranked (filter (fun c => leF cutoff (ratio c)) cands) ->
        StronglySorted
          (fun a b => key (ratio b) < key (ratio a) \/
                      (key (ratio a) = key (ratio b) /\ leC a b = true)) ranked ->
        close_matches_gen eqb chars ev leF key leC cutoff word cands n = firstn n ranked.
Proof. exact @close_matches_ranked_gen. Qed.
Print Assumptions c18_exhaustive_ranking_gen.

(* ---------------------------------------------------------------------- *)
(* the three ratios are what the code computes                              *)
(* ---------------------------------------------------------------------- *)
(* the character-level ratio is the ratio of the model's text diff
   (TextDiff::from_slices(seq1, seq2).ratio(): Myers, no deadline, both
   branches of the 100-token switch); via Proofs.Pipeline.capture_minimal *)
Theorem c18_textdiff_ratio :
  forall (A : Type) (eqb : A -> A -> bool),
    (forall x y : A, eqb x y = true <-> x = y) ->
    forall (s1 s2 : list A) (dbg repair : bool),
    exists (ops : list op) (c : ctr),
      textdiff_ops Myers None dbg repair
        (oracles_of_items eqb (slice_lookup s1) (slice_lookup s2)) (length s1) (length s2)
        = Ok (ops, c) /\
      diff_ratio ops (length s1) (length s2) =
        (if length s1 + length s2 =? 0 then (1, 1)
         else (2 * lcs_len (cmp_of eqb (slice_lookup s1) (slice_lookup s2))
                       0 (length s1) 0 (length s2),
               length s1 + length s2)).
Proof.
  intros A eqb Hspec s1 s2 dbg repair.
  destruct (textdiff_ratio eqb Hspec s1 s2 dbg repair) as (ops & c & Hrun & Hratio).
  exists ops, c. split; [exact Hrun|]. rewrite Hratio. unfold ratio_nd, mk_frac.
  destruct (length s1 + length s2 =? 0); reflexivity.
Qed.
Print Assumptions c18_textdiff_ratio.

(* the exact values in the usual notation *)
Theorem c18_ratio_values :
  forall (A : Type) (eqb : A -> A -> bool),
    (forall x y : A, eqb x y = true <-> x = y) ->
    forall s1 s2 : list A,
      (ratio_q eqb s1 s2 ==
         if length s1 + length s2 =? 0 then 1
         else inject_Z (Z.of_nat (2 * lcs_len (cmp_of eqb (slice_lookup s1) (slice_lookup s2))
                                          0 (length s1) 0 (length s2)))
              / inject_Z (Z.of_nat (length s1 + length s2)))%Q /\
      (upper_q (length s1) (length s2) ==
         if length s1 + length s2 =? 0 then 1
         else inject_Z (Z.of_nat (2 * Nat.min (length s1) (length s2)))
              / inject_Z (Z.of_nat (length s1 + length s2)))%Q /\
      (* quick ratio: multiset-intersection count over
         (number of DISTINCT items of s1) + |s2| *)
      (quick_q eqb s1 s2 ==
         let d := (length (keys (quick_new eqb s1)) + length s2)%nat in
         if d =? 0 then 1
         else inject_Z (Z.of_nat (2 * qm eqb (fun x => Z.of_nat (count eqb x s1)) s2))
              / inject_Z (Z.of_nat d))%Q /\
      NoDup (keys (quick_new eqb s1)) /\
      (forall x, In x (keys (quick_new eqb s1)) <-> In x s1).
Proof.
  intros A eqb Hspec s1 s2.
  split; [exact (ratio_q_eq eqb s1 s2)|].
  split; [exact (upper_q_eq (length s1) (length s2))|].
  split; [exact (quick_q_eq eqb Hspec s1 s2)|].
  destruct (quick_new_distinct eqb Hspec s1) as (H1 & H2 & _). split; assumption.
Qed.
Print Assumptions c18_ratio_values.

(* ---------------------------------------------------------------------- *)
(* an instance: F = Q, no rounding, key = floor (ratio * 10^6),             *)
(* candidates = lists of code points in lexicographic order                 *)
(* ---------------------------------------------------------------------- *)
Fixpoint lex (a b : list nat) : bool :=
  match a, b with
  | [], _ => true
  | _ :: _, [] => false
  | x :: a', y :: b' => (x <? y) || ((x =? y) && lex a' b')
  end.

(* (the scale is kept small because [nat] is unary) *)
Definition keyq (q : Q) : nat := Z.to_nat ((Qnum q * 1000000) / Zpos (Qden q))%Z.

Definition close_q (cutoff : Q) (word : list nat) (cands : list (list nat)) (n : nat) :=
  close_matches Nat.eqb (fun s : list nat => s) (fun q : Q => q) Qle_bool keyq lex
                cutoff word cands n.

(* the crate's own tests (src/text/mod.rs, test_get_close_matches) *)
Example c18_test_appel :
  let appel := [97; 112; 112; 101; 108] in
  let ape := [97; 112; 101] in
  let apple := [97; 112; 112; 108; 101] in
  let peach := [112; 101; 97; 99; 104] in
  let puppy := [112; 117; 112; 112; 121] in
  close_q (6 # 10) appel [ape; apple; peach; puppy] 3 = [apple; ape].
Proof. vm_compute. reflexivity. Qed.

Example c18_test_hulo :
  let hulo := [104; 117; 108; 111] in
  let hi := [104; 105] in
  let hulu := [104; 117; 108; 117] in
  let hali := [104; 97; 108; 105] in
  let hoho := [104; 111; 104; 111] in
  let amaz := [97; 109; 97; 122] in
  let zulo := [122; 117; 108; 111] in
  let blah := [98; 108; 97; 104] in
  let hopp := [104; 111; 112; 112] in
  let uulo := [117; 117; 108; 111] in
  let aulo := [97; 117; 108; 111] in
  close_q (7 # 10) hulo [hi; hulu; hali; hoho; amaz; zulo; blah; hopp; uulo; aulo] 5
  = [aulo; hulu; uulo; zulo].
Proof. vm_compute. reflexivity. Qed.

(* the quick ratio as written can exceed 1.0: "appel" vs "apple" has 5
   multiset matches over 4 distinct + 5 items *)
Example c18_quick_exceeds_one :
  quick_q Nat.eqb [97; 112; 112; 101; 108] [97; 112; 112; 108; 101] = (10 # 9)%Q.
Proof. vm_compute. reflexivity. Qed.

(* the hypotheses of the theorems hold in this instance *)
Lemma lex_total : forall a b, lex a b = true \/ lex b a = true.
Proof.
  induction a as [|x a IH]; intros b.
  - left. reflexivity.
  - destruct b as [|y b]; [right; reflexivity|]. cbn [lex].
    destruct (Nat.ltb_spec x y), (Nat.ltb_spec y x), (Nat.eqb_spec x y), (Nat.eqb_spec y x);
      cbn [orb andb]; try lia; try tauto. apply IH.
Qed.

Lemma lex_trans : forall a b c, lex a b = true -> lex b c = true -> lex a c = true.
Proof.
  induction a as [|x a IH]; intros b c Hab Hbc.
  - reflexivity.
  - destruct b as [|y b]; [discriminate|]. destruct c as [|z c]; [discriminate|].
    cbn [lex] in *.
    destruct (Nat.ltb_spec x y), (Nat.ltb_spec y z), (Nat.ltb_spec x z),
      (Nat.eqb_spec x y), (Nat.eqb_spec y z), (Nat.eqb_spec x z);
      cbn [orb andb] in *; try lia; try discriminate; try reflexivity.
    eapply IH; eassumption.
Qed.

Lemma lex_antisym : forall a b, lex a b = true -> lex b a = true -> a = b.
Proof.
  induction a as [|x a IH]; intros b Hab Hba.
  - destruct b; [reflexivity|discriminate].
  - destruct b as [|y b]; [discriminate|]. cbn [lex] in *.
    destruct (Nat.ltb_spec x y), (Nat.ltb_spec y x), (Nat.eqb_spec x y), (Nat.eqb_spec y x);
      cbn [orb andb] in *; try lia; try discriminate.
    subst y. f_equal. apply IH; assumption.
Qed.

Lemma Qle_bool_trans : forall a b c : Q, Qle_bool a b = true -> Qle_bool b c = true -> Qle_bool a c = true.
Proof. intros a b c. rewrite !Qle_bool_iff. apply Qle_trans. Qed.

Lemma keyq_mono : forall a b : Q, Qle_bool a b = true -> keyq a <= keyq b.
Proof.
  intros [a1 a2] [b1 b2] H. apply Qle_bool_iff in H. unfold Qle in H. cbn [Qnum Qden] in H.
  unfold keyq. cbn [Qnum Qden].
  assert (Hle : (a1 * 1000000 / Zpos a2 <= b1 * 1000000 / Zpos b2)%Z).
  { apply Z.div_le_lower_bound; [lia|].
    pose proof (Z.mul_div_le (a1 * 1000000) (Zpos a2) ltac:(lia)) as Hd.
    nia. }
  lia.
Qed.

Theorem c18_instance_Q :
  forall (cutoff : Q) (word : list nat) (cands : list (list nat)) (n : nat) (ranked : list (list nat)),
    let ratio := fun c : list nat => ratio_q Nat.eqb word c in
    Permutation ranked (filter (fun c => Qle_bool cutoff (ratio c)) cands) ->
    StronglySorted
      (fun a b => keyq (ratio b) < keyq (ratio a) \/
                  (keyq (ratio a) = keyq (ratio b) /\ lex a b = true)) ranked ->
    close_q cutoff word cands n = firstn n ranked.
Proof.
  intros cutoff word cands n ranked.
  apply (c18_exhaustive_ranking nat (list nat) Q Nat.eqb Nat.eqb_eq (fun s => s) (fun q => q)
           Qle_bool keyq lex Qle_bool_trans).
  - intros q1 q2 H. apply Qle_bool_iff, H.
  - exact lex_trans.
  - exact lex_total.
  - exact lex_antisym.
Qed.
Print Assumptions c18_instance_Q.
Print Assumptions keyq_mono.

(* ---------------------------------------------------------------------- *)
(* binary32 instance (Flocq; Proofs/CloseFlocq.v, Proofs/CloseFlocq2.v).   *)
(* ev32 is the expression as the crate writes it, with every rounding:     *)
(*   rd (rd (2 * rd (INR matches)) / rd (INR len)),  rd = round to nearest *)
(* even in FLT(-149, 24); key32 is `(ratio * u32::MAX as f32) as u32`.     *)
(* These theorems rest on the standard library's real-number axioms (see   *)
(* Print Assumptions), which Flocq needs; no other theorem of this file    *)
(* does.                                                                   *)
(* ---------------------------------------------------------------------- *)
From Coq Require Import Reals.
From Flocq Require Import Raux.
From Similar Require Import Proofs.CloseFlocq Proofs.CloseFlocq2.

(* the two facts the generic theorems need of the float layer *)
Theorem c18_ev32_mono :
  forall x y : frac, frac_le x y -> Rle_bool (ev32 x) (ev32 y) = true.
Proof. exact ev32_mono. Qed.
Print Assumptions c18_ev32_mono.

Theorem c18_key32_mono :
  forall a b : R, Rle_bool a b = true -> (key32 a <= key32 b)%nat.
Proof. exact key32_mono. Qed.
Print Assumptions c18_key32_mono.

Theorem c18_filters_sound_binary32 :
  forall (A C : Type) (eqb : A -> A -> bool),
    (forall x y : A, eqb x y = true <-> x = y) ->
    forall (chars : C -> list A) (cutoff : R) (word c : C),
    Rle_bool cutoff (ev32 (ratio_nd eqb (chars word) (chars c))) = true ->
    Rle_bool cutoff (ev32 (upper_nd (length (chars word)) (length (chars c)))) = true /\
    Rle_bool cutoff (ev32 (quick_nd eqb (chars word) (chars c))) = true.
Proof. exact @filters_sound_ev32. Qed.
Print Assumptions c18_filters_sound_binary32.

Theorem c18_close_matches_binary32 :
  forall (A C : Type) (eqb : A -> A -> bool),
    (forall x y : A, eqb x y = true <-> x = y) ->
    forall (chars : C -> list A) (leC : C -> C -> bool),
    (forall a b c : C, leC a b = true -> leC b c = true -> leC a c = true) ->
    (forall a b : C, leC a b = true \/ leC b a = true) ->
    (forall a b : C, leC a b = true -> leC b a = true -> a = b) ->
    forall (cutoff : R) (word : C) (cands : list C) (n : nat) (ranked : list C),
    let ratio := fun c : C => ev32 (ratio_nd eqb (chars word) (chars c)) in
    Permutation ranked (filter (fun c : C => Rle_bool cutoff (ratio c)) cands) ->
    StronglySorted
      (fun a b : C =>
         (key32 (ratio b) < key32 (ratio a))%nat \/
         (key32 (ratio a) = key32 (ratio b) /\ leC a b = true)) ranked ->
    close_matches_gen eqb chars ev32 Rle_bool key32 leC cutoff word cands n = firstn n ranked.
Proof. exact @close_matches_ev32. Qed.
Print Assumptions c18_close_matches_binary32.

(* the run-time checker recomputes a ratio as binary32(binary64(2m) / binary64(len))
   (OCaml has no single-precision arithmetic): for len < 2^24 this is exactly ev32 *)
Theorem c18_driver_ratio_eq :
  forall m len : nat,
    (0 < len)%nat -> (len < 2 ^ 24)%nat -> (m <= len)%nat ->
    driver_ratio m len = ev32 (Some (m, len)).
Proof. exact driver_ratio_eq_nat. Qed.
Print Assumptions c18_driver_ratio_eq.

Theorem c18_double_rounding_div :
  forall a b : Z,
    (0 <= a <= 2 ^ 24)%Z -> (0 < b <= 2 ^ 24)%Z ->
    rd (rd64 (IZR a / IZR b)%R) = rd (IZR a / IZR b)%R.
Proof. exact double_rounding_div. Qed.
Print Assumptions c18_double_rounding_div.
