(* Props/C17.v — C17: TextDiffRemapper maps token-level ops back to
   substrings of the original texts; the slices reconstruct both texts. *)
From Coq Require Import NArith.
From Similar Require Import Model.Base Model.Iter Model.Tokenize Model.Capture Model.TextDiff
     Spec.Script Check.Tokens Proofs.Iter Proofs.Remap.

Theorem c17_bytes_eqb_spec : forall a b : list N, bytes_eqb a b = true <-> a = b.
Proof. exact bytes_eqb_spec. Qed.
Print Assumptions c17_bytes_eqb_spec.

(* A1: SliceRemapper::new computes exactly the token boundaries *)
Theorem c17_remap_indexes_eq :
  forall (src : list N) (toks : list token),
    check_partition toks 0 (length src) = true ->
    remap_indexes (map (@length N) (map (tok_bytes src) toks)) 0 = toks.
Proof. exact remap_indexes_eq. Qed.
Print Assumptions c17_remap_indexes_eq.

(* A2: a non-empty in-bounds token range maps to the concatenation of its
   tokens = the substring from the start of the first to the end of the last *)
Theorem c17_remap_slice_spec :
  forall (src : list N) (toks : list token),
    check_partition toks 0 (length src) = true ->
    forall a b : nat, a < b -> b <= length toks ->
    let items := map (tok_bytes src) toks in
    let idx := remap_indexes (map (@length N) items) 0 in
    remap_slice src idx a b = Ok (concat (firstn (b - a) (skipn a items))) /\
    exists ta tb : token,
      nth_error toks a = Some ta /\ nth_error toks (b - 1) = Some tb /\
      fst ta < snd tb /\ snd tb <= length src /\
      concat (firstn (b - a) (skipn a items)) = seg src (fst ta) (snd tb - fst ta).
Proof. exact remap_slice_spec. Qed.
Print Assumptions c17_remap_slice_spec.

(* A2': on any non-empty range (in bounds or not) the remapper = slice the
   item list, then concatenate *)
Theorem c17_remap_slice_iter :
  forall (src : list N) (toks : list token),
    check_partition toks 0 (length src) = true ->
    forall a b : nat, a < b ->
    let items := map (tok_bytes src) toks in
    let idx := remap_indexes (map (@length N) items) 0 in
    remap_slice src idx a b = (do s <- slice_range items a b; Ok (concat s)).
Proof. exact remap_slice_iter. Qed.
Print Assumptions c17_remap_slice_iter.

(* A3: an empty range panics exactly at the two ends of the token list; inside
   it yields the empty string (the tokens being consecutive, [start_a,
   end_(a-1)) is empty, not inverted) *)
Theorem c17_remap_slice_empty_panics :
  forall (src : list N) (toks : list token),
    check_partition toks 0 (length src) = true ->
    forall a : nat,
    let idx := remap_indexes (map (@length N) (map (tok_bytes src) toks)) 0 in
    remap_slice src idx a a = Panic <-> a = 0 \/ length toks <= a.
Proof. exact remap_slice_empty_panics. Qed.
Print Assumptions c17_remap_slice_empty_panics.

Theorem c17_remap_slice_empty_inside :
  forall (src : list N) (toks : list token),
    check_partition toks 0 (length src) = true ->
    forall a : nat, 0 < a -> a < length toks ->
    let idx := remap_indexes (map (@length N) (map (tok_bytes src) toks)) 0 in
    remap_slice src idx a a = Ok [].
Proof. exact remap_slice_empty_inside. Qed.
Print Assumptions c17_remap_slice_empty_inside.

(* A4: the slices of a loosely valid op list without empty ops *)
Theorem c17_remap_ops_reconstruct :
  forall (osrc nsrc : list N) (otoks ntoks : list token),
    check_partition otoks 0 (length osrc) = true ->
    check_partition ntoks 0 (length nsrc) = true ->
    let oitems := map (tok_bytes osrc) otoks in
    let nitems := map (tok_bytes nsrc) ntoks in
    let oidx := remap_indexes (map (@length N) oitems) 0 in
    let nidx := remap_indexes (map (@length N) nitems) 0 in
    forall ops : list op,
    OpsLoose (cmp_of bytes_eqb (slice_lookup oitems) (slice_lookup nitems))
             0 (length otoks) 0 (length ntoks) ops ->
    Forall NonEmptyOp ops ->
    let sl := flat_map (op_remap_spec oitems nitems) ops in
    remap_ops osrc nsrc oidx nidx ops = Ok sl /\
    map fst sl = flat_map op_slice_tags ops /\
    old_side sl = osrc /\
    new_side sl = nsrc /\
    Forall (fun p : ctag * list N => snd p <> []) sl.
Proof. exact remap_ops_reconstruct. Qed.
Print Assumptions c17_remap_ops_reconstruct.

(* A5: same tags and content as DiffOp::iter_slices over the item lists *)
Theorem c17_remap_op_iter_slices :
  forall (osrc nsrc : list N) (otoks ntoks : list token),
    check_partition otoks 0 (length osrc) = true ->
    check_partition ntoks 0 (length nsrc) = true ->
    let oitems := map (tok_bytes osrc) otoks in
    let nitems := map (tok_bytes nsrc) ntoks in
    let oidx := remap_indexes (map (@length N) oitems) 0 in
    let nidx := remap_indexes (map (@length N) nitems) 0 in
    forall x : op, NonEmptyOp x ->
    remap_op osrc nsrc oidx nidx x =
    (do sl <- iter_slices oitems nitems x;
     Ok (map (fun p : ctag * list (list N) => (fst p, concat (snd p))) sl)).
Proof. exact remap_op_iter_slices. Qed.
Print Assumptions c17_remap_op_iter_slices.

(* "foo bar baz" / "foo bor baz", word tokens *)
Example c17_instance :
  let o := [102; 111; 111; 32; 98; 97; 114; 32; 98; 97; 122]%N in
  let n := [102; 111; 111; 32; 98; 111; 114; 32; 98; 97; 122]%N in
  let ot := tokenize true TkWords o in
  let nt := tokenize true TkWords n in
  let oidx := remap_indexes (map (@length N) (map (tok_bytes o) ot)) 0 in
  let nidx := remap_indexes (map (@length N) (map (tok_bytes n) nt)) 0 in
  ot = [(0, 3); (3, 4); (4, 7); (7, 8); (8, 11)] /\
  oidx = ot /\
  remap_slice o oidx 0 3 = Ok [102; 111; 111; 32; 98; 97; 114]%N /\
  remap_slice o oidx 1 3 = Ok [32; 98; 97; 114]%N /\
  remap_slice o oidx 0 5 = Ok o /\
  remap_slice o oidx 0 6 = Panic /\
  remap_slice o oidx 0 0 = Panic /\
  remap_slice o oidx 2 2 = Ok [] /\
  remap_slice o oidx 5 5 = Panic /\
  remap_ops o n oidx nidx [Equal 0 0 2; Replace 2 1 2 1; Equal 3 3 2] =
    Ok [(ChEqual, [102; 111; 111; 32]); (ChDelete, [98; 97; 114]);
        (ChInsert, [98; 111; 114]); (ChEqual, [32; 98; 97; 122])]%N.
Proof. vm_compute. repeat split; reflexivity. Qed.
