(* Props/C02.v — C02: captured ops form a valid edit script old -> new.
   The first block is stated for Myers and LCS (alg <> Patience); the second
   block (c02_*_all) covers all three algorithms (Proofs/PatienceCapture.v,
   Proofs/PatienceIdentical.v). *)
From Similar Require Import Model.Base Model.Utils Model.Myers Model.Hooks Model.Compact Model.Capture
  Spec.Script Spec.SnakeSpec Check.Script Proofs.CheckScript Proofs.Pipeline.
From Similar Require Import Model.TextDiff Proofs.Unique Proofs.PatienceCapture Proofs.PatienceIdentical.

(* for EVERY clock, both build modes and both settings of the repair switch *)
Theorem c02_capture_valid :
  forall (alg : algorithm) (dl : deadline) (dbg repair : bool) (orc : oracles) (os oe ns ne : nat),
    os <= oe -> ns <= ne -> CmpTotal (o_on orc) os oe ns ne ->
    forall (ops : list op) (c : ctr), alg <> Patience ->
    capture_diff alg dl dbg repair orc os oe ns ne = Ok (ops, c) ->
    OpsLoose (o_on orc) os oe ns ne ops /\ Alternating ops.
Proof. exact capture_valid. Qed.
Print Assumptions c02_capture_valid.

Theorem c02_capture_no_panic :
  forall (alg : algorithm) (dl : deadline) (dbg repair : bool) (orc : oracles) (os oe ns ne : nat),
    alg <> Patience -> os <= oe -> ns <= ne -> CmpTotal (o_on orc) os oe ns ne ->
    exists ops c, capture_diff alg dl dbg repair orc os oe ns ne = Ok (ops, c).
Proof. exact capture_no_panic. Qed.
Print Assumptions c02_capture_no_panic.

(* applying the ops to old yields new, and the inverted ops turn new into old
   (any algorithm whose raw output is valid: CaptureRaw) *)
Theorem c02_capture_apply :
  forall (A : Type) (eqb : A -> A -> bool), (forall x y, eqb x y = true <-> x = y) ->
  forall (old new : list A) (alg : algorithm) (dl : deadline) (dbg repair : bool) (orc : oracles)
         (os oe ns ne : nat) (ops : list op) (c : ctr),
    CaptureRaw alg ->
    o_on orc = cmp_of eqb (slice_lookup old) (slice_lookup new) ->
    os <= oe -> ns <= ne -> oe <= length old -> ne <= length new ->
    capture_diff alg dl dbg repair orc os oe ns ne = Ok (ops, c) ->
    apply_ops old new ops = seg new ns (ne - ns) /\
    apply_ops new old (map invert_op ops) = seg old os (oe - os).
Proof. exact @capture_apply. Qed.
Print Assumptions c02_capture_apply.

(* identical inputs give only Equal ops (none for two empty inputs) *)
Theorem c02_identical_only_equal :
  forall (alg : algorithm) (dl : deadline) (dbg repair : bool) (orc : oracles) (os oe ns ne : nat),
    alg <> Patience -> os <= oe -> ns <= ne -> CmpTotal (o_on orc) os oe ns ne ->
    SegEq (o_on orc) os ns (oe - os) -> oe - os = ne - ns ->
    exists c, capture_diff alg dl dbg repair orc os oe ns ne =
              Ok (if oe =? os then [] else [Equal os ns (oe - os)], c).
Proof. exact identical_only_equal. Qed.
Print Assumptions c02_identical_only_equal.

(* the similarity ratio 2*matches/(N+M) lies in [0,1] and is 1 exactly when
   the inputs are equal (exact fraction; the f32 rounding is monotone) *)
Theorem c02_ratio :
  forall (alg : algorithm) (dl : deadline) (dbg repair : bool) (orc : oracles) (os oe ns ne : nat)
         (ops : list op) (c : ctr),
    alg <> Patience -> os <= oe -> ns <= ne -> CmpTotal (o_on orc) os oe ns ne ->
    capture_diff alg dl dbg repair orc os oe ns ne = Ok (ops, c) ->
    matches ops = equal_total ops /\
    equal_total ops <= Nat.min (oe - os) (ne - ns) /\
    2 * matches ops <= (oe - os) + (ne - ns) /\
    (2 * matches ops = (oe - os) + (ne - ns) <-> SegEq (o_on orc) os ns (oe - os) /\ oe - os = ne - ns).
Proof. exact capture_ratio. Qed.
Print Assumptions c02_ratio.

Theorem c02_checker_reflects :
  forall (cmp : cmpf) (os oe ns ne : nat) (ops : list op),
    check_ops_loose cmp os oe ns ne ops = true <-> OpsLoose cmp os oe ns ne ops.
Proof. exact check_ops_loose_spec. Qed.
Print Assumptions c02_checker_reflects.

Example c02_instance :
  let old := [2; 1] in let new := [1; 1] in
  let orc := {| o_on := cmp_of Nat.eqb (slice_lookup old) (slice_lookup new);
                o_oo := cmp_same Nat.eqb (slice_lookup old); o_nn := cmp_same Nat.eqb (slice_lookup new) |} in
  match capture_diff Myers None false false orc 0 2 0 2 with
  | Ok (ops, _) => ops = [Delete 0 1 1; Equal 1 0 1; Insert 1 1 1] /\ check_ops_loose (o_on orc) 0 2 0 2 ops = true
  | _ => False
  end.
Proof. vm_compute. split; reflexivity. Qed.

(* ---------------------------------------------------------------------- *)
(* all three algorithms (Proofs/PatienceIdentical.v).  For Patience the two *)
(* uniqueness oracles must agree on the identical ranges (SameShift): with *)
(* Hash/Eq implementations that contradict each other the claim fails      *)
(* (incoherent_counterexample there) - outside the library's contract.     *)
(* ---------------------------------------------------------------------- *)
Theorem c02_identical_only_equal_all :
  forall (alg : algorithm) (dl : deadline) (dbg repair : bool) (orc : oracles) (os oe ns ne : nat),
    os <= oe -> ns <= ne -> CmpTotal (o_on orc) os oe ns ne ->
    SegEq (o_on orc) os ns (oe - os) -> oe - os = ne - ns ->
    (alg = Patience ->
       SameTotal (o_oo orc) os oe /\ SameShift (o_oo orc) (o_nn orc) os ns (oe - os)) ->
    exists c, capture_diff alg dl dbg repair orc os oe ns ne =
              Ok (if oe =? os then [] else [Equal os ns (oe - os)], c).
Proof. exact identical_only_equal_all. Qed.
Print Assumptions c02_identical_only_equal_all.

(* items compared by a reflexive eqb: no premise on oracles at all *)
Theorem c02_patience_identical_items :
  forall (A : Type) (eqb : A -> A -> bool) (old new : list A) (dl : deadline) (dbg repair : bool)
         (os oe ns ne : nat),
    (forall x : A, eqb x x = true) ->
    os <= oe -> ns <= ne -> oe <= length old -> ne <= length new -> oe - os = ne - ns ->
    (forall t : nat, t < oe - os -> nth_error new (ns + t) = nth_error old (os + t)) ->
    exists c, capture_diff Patience dl dbg repair
                (oracles_of_items eqb (slice_lookup old) (slice_lookup new)) os oe ns ne =
              Ok (if oe =? os then [] else [Equal os ns (oe - os)], c).
Proof. exact @patience_identical_items. Qed.
Print Assumptions c02_patience_identical_items.

(* the debug assertions of the crate (dbg = debug build) never change a result *)
Theorem c02_capture_dbg_independent_all :
  forall (alg : algorithm) (dl : deadline) (repair : bool) (orc : oracles) (os oe ns ne : nat),
    os <= oe -> ns <= ne -> CmpTotal (o_on orc) os oe ns ne ->
    capture_diff alg dl true repair orc os oe ns ne = capture_diff alg dl false repair orc os oe ns ne.
Proof. exact capture_dbg_independent_all. Qed.
Print Assumptions c02_capture_dbg_independent_all.

(* ---------------------------------------------------------------------- *)
(* validity, completion, application for ALL algorithms, every clock       *)
(* ---------------------------------------------------------------------- *)
Theorem c02_capture_valid_all :
  forall (alg : algorithm) (dl : deadline) (dbg repair : bool) (orc : oracles) (os oe ns ne : nat)
         (ops : list op) (c : ctr),
    os <= oe -> ns <= ne -> CmpTotal (o_on orc) os oe ns ne ->
    capture_diff alg dl dbg repair orc os oe ns ne = Ok (ops, c) ->
    OpsLoose (o_on orc) os oe ns ne ops /\ Alternating ops.
Proof. exact capture_valid_all. Qed.
Print Assumptions c02_capture_valid_all.

(* Patience additionally needs its two uniqueness oracles to be total *)
Theorem c02_capture_no_panic_all :
  forall (alg : algorithm) (dl : deadline) (dbg repair : bool) (orc : oracles) (os oe ns ne : nat),
    os <= oe -> ns <= ne -> CmpTotal (o_on orc) os oe ns ne ->
    (alg = Patience -> SameTotal (o_oo orc) os oe /\ SameTotal (o_nn orc) ns ne) ->
    exists ops c, capture_diff alg dl dbg repair orc os oe ns ne = Ok (ops, c).
Proof. exact capture_no_panic_all. Qed.
Print Assumptions c02_capture_no_panic_all.

Theorem c02_capture_apply_all :
  forall (A : Type) (eqb : A -> A -> bool), (forall x y, eqb x y = true <-> x = y) ->
  forall (old new : list A) (alg : algorithm) (dl : deadline) (dbg repair : bool) (orc : oracles)
         (os oe ns ne : nat) (ops : list op) (c : ctr),
    o_on orc = cmp_of eqb (slice_lookup old) (slice_lookup new) ->
    os <= oe -> ns <= ne -> oe <= length old -> ne <= length new ->
    capture_diff alg dl dbg repair orc os oe ns ne = Ok (ops, c) ->
    apply_ops old new ops = seg new ns (ne - ns) /\
    apply_ops new old (map invert_op ops) = seg old os (oe - os).
Proof. exact @capture_apply_all. Qed.
Print Assumptions c02_capture_apply_all.

Theorem c02_ratio_patience :
  forall (dl : deadline) (dbg repair : bool) (orc : oracles) (os oe ns ne : nat) (ops : list op) (c : ctr),
    os <= oe -> ns <= ne -> CmpTotal (o_on orc) os oe ns ne ->
    capture_diff Patience dl dbg repair orc os oe ns ne = Ok (ops, c) ->
    matches ops = equal_total ops /\
    equal_total ops <= Nat.min (oe - os) (ne - ns) /\
    2 * matches ops <= oe - os + (ne - ns) /\
    (2 * matches ops = oe - os + (ne - ns) ->
     SegEq (o_on orc) os ns (oe - os) /\ oe - os = ne - ns).
Proof. exact capture_ratio_patience'. Qed.
Print Assumptions c02_ratio_patience.
