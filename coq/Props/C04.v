(* Props/C04.v — C04: the changes of a text diff reconstruct both inputs.
   iter_all_changes over the token lists never panics; the values of the
   non-Insert changes concatenate to the old text, those of the non-Delete
   changes to the new text; Equal changes carry both indices, Delete only the
   old one, Insert only the new one, every value is the token at the reported
   index, and the indices enumerate 0,1,2,.. on each side.
   Also: the capture-pipeline theorems for Patience without premise (they are
   what makes the end-to-end statement hold for every algorithm). *)
From Coq Require Import NArith String.
From Coq.Strings Require Import Byte.
From Similar Require Import Model.Base Model.Myers Model.Hooks Model.Patience Model.Iter Model.Utf8
     Model.Tokenize Model.Capture
     Model.TextDiff Spec.Script Spec.SnakeSpec Check.Tokens Proofs.Unique Proofs.Pipeline
     Proofs.PatienceCapture Proofs.TextReconstruct.

(* B1: any loosely valid op list over the tokens of two texts *)
Theorem c04_text_reconstruct :
  forall (osrc nsrc : list N) (otoks ntoks : list token),
    check_partition otoks 0 (length osrc) = true ->
    check_partition ntoks 0 (length nsrc) = true ->
    let olds := map (tok_bytes osrc) otoks in
    let news := map (tok_bytes nsrc) ntoks in
    forall ops : list op,
    OpsLoose (cmp_of bytes_eqb (slice_lookup olds) (slice_lookup news))
             0 (length olds) 0 (length news) ops ->
    exists cs : list (change (list N)),
      iter_all_changes (slice_lookup olds) (slice_lookup news) ops = Ok cs /\
      concat (map ch_val
                (filter (fun c => match ch_tag c with ChInsert => false | _ => true end) cs)) = osrc /\
      concat (map ch_val
                (filter (fun c => match ch_tag c with ChDelete => false | _ => true end) cs)) = nsrc.
Proof. exact text_reconstruct. Qed.
Print Assumptions c04_text_reconstruct.

(* B2: indices (holds for any token lists; the partition premise is not needed) *)
Theorem c04_change_index_shape :
  forall (osrc nsrc : list N) (otoks ntoks : list token),
    let olds := map (tok_bytes osrc) otoks in
    let news := map (tok_bytes nsrc) ntoks in
    forall (ops : list op) (cs : list (change (list N))),
    OpsLoose (cmp_of bytes_eqb (slice_lookup olds) (slice_lookup news))
             0 (length olds) 0 (length news) ops ->
    iter_all_changes (slice_lookup olds) (slice_lookup news) ops = Ok cs ->
    Forall (fun c =>
              match ch_tag c with
              | ChEqual => exists i j, ch_old c = Some i /\ ch_new c = Some j /\
                                       nth_error olds i = Some (ch_val c) /\
                                       nth_error news j = Some (ch_val c)
              | ChDelete => exists i, ch_old c = Some i /\ ch_new c = None /\
                                      nth_error olds i = Some (ch_val c)
              | ChInsert => exists j, ch_old c = None /\ ch_new c = Some j /\
                                      nth_error news j = Some (ch_val c)
              end) cs /\
    map ch_old (filter (fun c => match ch_tag c with ChInsert => false | _ => true end) cs)
      = map Some (seq 0 (length olds)) /\
    map ch_new (filter (fun c => match ch_tag c with ChDelete => false | _ => true end) cs)
      = map Some (seq 0 (length news)).
Proof. exact change_index_shape. Qed.
Print Assumptions c04_change_index_shape.

(* B1 + B2 over arbitrary item lists (any item type with a sound equality) *)
Theorem c04_items_reconstruct :
  forall (A : Type) (eqb : A -> A -> bool),
    (forall x y, eqb x y = true -> x = y) ->
    forall (olds news : list A) (ops : list op),
    OpsLoose (cmp_of eqb (slice_lookup olds) (slice_lookup news))
             0 (length olds) 0 (length news) ops ->
    exists cs : list (change A),
      iter_all_changes (slice_lookup olds) (slice_lookup news) ops = Ok cs /\
      map ch_val (filter old_side_ch cs) = olds /\
      map ch_val (filter new_side_ch cs) = news /\
      map ch_old (filter old_side_ch cs) = map Some (seq 0 (length olds)) /\
      map ch_new (filter new_side_ch cs) = map Some (seq 0 (length news)) /\
      Forall (change_ok olds news) cs.
Proof. exact @items_reconstruct. Qed.
Print Assumptions c04_items_reconstruct.

(* B3: the ops of TextDiffConfig::diff, any partition into tokens (all that
   is assumed of the unicode-words / graphemes tokenizers), every algorithm,
   clock, build mode, repair switch.
   Depends on functional_extensionality_dep (via textdiff_eq_tokens_diff). *)
Theorem c04_textdiff_reconstruct_partition :
  forall (osrc nsrc : list N) (otoks ntoks : list token)
         (alg : algorithm) (dl : deadline) (dbg repair : bool) (ops : list op) (c : ctr),
    check_partition otoks 0 (length osrc) = true ->
    check_partition ntoks 0 (length nsrc) = true ->
    let olds := map (tok_bytes osrc) otoks in
    let news := map (tok_bytes nsrc) ntoks in
    textdiff_ops alg dl dbg repair
      (oracles_of_items bytes_eqb (slice_lookup olds) (slice_lookup news))
      (length olds) (length news) = Ok (ops, c) ->
    (OpsLoose (cmp_of bytes_eqb (slice_lookup olds) (slice_lookup news))
              0 (length olds) 0 (length news) ops /\ Alternating ops) /\
    exists cs : list (change (list N)),
      iter_all_changes (slice_lookup olds) (slice_lookup news) ops = Ok cs /\
      concat (map ch_val (filter old_side_ch cs)) = osrc /\
      concat (map ch_val (filter new_side_ch cs)) = nsrc /\
      Forall (change_ok olds news) cs /\
      map ch_old (filter old_side_ch cs) = map Some (seq 0 (length olds)) /\
      map ch_new (filter new_side_ch cs) = map Some (seq 0 (length news)).
Proof. exact textdiff_reconstruct_partition. Qed.
Print Assumptions c04_textdiff_reconstruct_partition.

(* B3 for the modelled tokenizers: bytes on any input, str on valid UTF-8.
   Depends on functional_extensionality_dep. *)
Theorem c04_textdiff_reconstruct :
  forall (bytes_mode : bool) (k : tokenizer) (osrc nsrc : list N)
         (alg : algorithm) (dl : deadline) (dbg repair : bool) (ops : list op) (c : ctr),
    (bytes_mode = false -> valid_utf8 osrc = true /\ valid_utf8 nsrc = true) ->
    let otoks := tokenize bytes_mode k osrc in
    let ntoks := tokenize bytes_mode k nsrc in
    let olds := map (tok_bytes osrc) otoks in
    let news := map (tok_bytes nsrc) ntoks in
    textdiff_ops alg dl dbg repair
      (oracles_of_items bytes_eqb (slice_lookup olds) (slice_lookup news))
      (length olds) (length news) = Ok (ops, c) ->
    (OpsLoose (cmp_of bytes_eqb (slice_lookup olds) (slice_lookup news))
              0 (length olds) 0 (length news) ops /\ Alternating ops) /\
    exists cs : list (change (list N)),
      iter_all_changes (slice_lookup olds) (slice_lookup news) ops = Ok cs /\
      concat (map ch_val (filter old_side_ch cs)) = osrc /\
      concat (map ch_val (filter new_side_ch cs)) = nsrc /\
      Forall (change_ok olds news) cs /\
      map ch_old (filter old_side_ch cs) = map Some (seq 0 (length olds)) /\
      map ch_new (filter new_side_ch cs) = map Some (seq 0 (length news)).
Proof. exact textdiff_reconstruct. Qed.
Print Assumptions c04_textdiff_reconstruct.

(* ---- the capture pipeline for Patience, premise-free ---- *)
Theorem c04_capture_valid_patience :
  forall dl dbg repair orc os oe ns ne ops c,
    os <= oe -> ns <= ne -> CmpTotal (o_on orc) os oe ns ne ->
    capture_diff Patience dl dbg repair orc os oe ns ne = Ok (ops, c) ->
    OpsLoose (o_on orc) os oe ns ne ops /\ Alternating ops.
Proof. exact capture_valid_patience'. Qed.
Print Assumptions c04_capture_valid_patience.

Theorem c04_capture_valid_all :
  forall alg dl dbg repair orc os oe ns ne ops c,
    os <= oe -> ns <= ne -> CmpTotal (o_on orc) os oe ns ne ->
    capture_diff alg dl dbg repair orc os oe ns ne = Ok (ops, c) ->
    OpsLoose (o_on orc) os oe ns ne ops /\ Alternating ops.
Proof. exact capture_valid_all. Qed.
Print Assumptions c04_capture_valid_all.

Theorem c04_capture_exact_repaired_patience :
  forall dl dbg orc os oe ns ne ops c,
    os <= oe -> ns <= ne -> CmpTotal (o_on orc) os oe ns ne ->
    capture_diff Patience dl dbg true orc os oe ns ne = Ok (ops, c) ->
    OpsExact (o_on orc) os oe ns ne ops.
Proof. exact capture_exact_repaired_patience'. Qed.
Print Assumptions c04_capture_exact_repaired_patience.

Theorem c04_capture_no_panic_patience :
  forall dl dbg repair orc os oe ns ne,
    os <= oe -> ns <= ne -> CmpTotal (o_on orc) os oe ns ne ->
    SameTotal (o_oo orc) os oe -> SameTotal (o_nn orc) ns ne ->
    exists ops c, capture_diff Patience dl dbg repair orc os oe ns ne = Ok (ops, c).
Proof. exact capture_no_panic_patience. Qed.
Print Assumptions c04_capture_no_panic_patience.

Theorem c04_capture_diff_eq_patience :
  forall dl dbg repair orc os oe ns ne,
    os <= oe -> ns <= ne -> CmpTotal (o_on orc) os oe ns ne ->
    (exists s, patience_diff (capture_world dl dbg repair orc) dbg (o_on orc) (o_oo orc) (o_nn orc)
                 os oe ns ne ([], (rstate0, plain0)) = Ok s) \/
    (exists w1, patience_diff (plain_world dl) dbg (o_on orc) (o_oo orc) (o_nn orc)
                  os oe ns ne plain0 = Ok w1) ->
    exists body c,
      raw_trace Patience dl dbg orc os oe ns ne = Ok (body ++ [CFin], c) /\
      RawWalk (o_on orc) oe ne os ns os body /\
      capture_diff Patience dl dbg repair orc os oe ns ne =
        (do ops <- pipeline_ops (o_on orc) repair body; Ok (ops, c)).
Proof. exact capture_diff_eq_patience. Qed.
Print Assumptions c04_capture_diff_eq_patience.

(* the premise of Proofs/Pipeline.v's Patience theorems, on any recording world *)
Theorem c04_patience_raw :
  forall (W : Type) (wd : world W) (calls : W -> list call) (P : W -> Prop)
         dbg orc os oe ns ne w w',
    Recording wd calls P ->
    os <= oe -> ns <= ne -> CmpTotal (o_on orc) os oe ns ne ->
    P w ->
    patience_diff wd dbg (o_on orc) (o_oo orc) (o_nn orc) os oe ns ne w = Ok w' ->
    exists w'' body,
      P w'' /\ calls w'' = calls w ++ body /\
      RawWalk (o_on orc) oe ne os ns os body /\
      emit wd CFin w'' = Ok w'.
Proof. exact PatienceRaw_proved. Qed.
Print Assumptions c04_patience_raw.

(* ---- example: byte-mode word diff of "foo bar  baz" vs "foo  bar baz qux" ---- *)
Example c04_words_example :
  let b (s : string) : list N := map Byte.to_N (list_byte_of_string s) in
  let osrc := b "foo bar  baz"%string in
  let nsrc := b "foo  bar baz qux"%string in
  let olds := map (tok_bytes osrc) (tokenize true TkWords osrc) in
  let news := map (tok_bytes nsrc) (tokenize true TkWords nsrc) in
  olds = map b ["foo"; " "; "bar"; "  "; "baz"]%string /\
  news = map b ["foo"; "  "; "bar"; " "; "baz"; " "; "qux"]%string /\
  forall alg, alg = Myers \/ alg = Patience ->
  exists c cs,
    textdiff_ops alg None false false
      (oracles_of_items bytes_eqb (slice_lookup olds) (slice_lookup news))
      (length olds) (length news)
    = Ok ([Equal 0 0 1; Replace 1 1 1 1; Equal 2 2 1; Replace 3 1 3 1; Equal 4 4 1; Insert 5 5 2], c) /\
    iter_all_changes (slice_lookup olds) (slice_lookup news)
      [Equal 0 0 1; Replace 1 1 1 1; Equal 2 2 1; Replace 3 1 3 1; Equal 4 4 1; Insert 5 5 2] = Ok cs /\
    map (fun x => (ch_tag x, ch_old x, ch_new x, ch_val x)) cs =
      [(ChEqual, Some 0, Some 0, b "foo"); (ChDelete, Some 1, None, b " ");
       (ChInsert, None, Some 1, b "  "); (ChEqual, Some 2, Some 2, b "bar");
       (ChDelete, Some 3, None, b "  "); (ChInsert, None, Some 3, b " ");
       (ChEqual, Some 4, Some 4, b "baz"); (ChInsert, None, Some 5, b " ");
       (ChInsert, None, Some 6, b "qux")]%string /\
    concat (map ch_val (filter old_side_ch cs)) = osrc /\
    concat (map ch_val (filter new_side_ch cs)) = nsrc.
Proof.
  cbv zeta. split; [vm_compute; reflexivity|]. split; [vm_compute; reflexivity|].
  intros alg [-> | ->]; eexists; eexists; (split; [vm_compute; reflexivity|]);
    (split; [vm_compute; reflexivity|]); vm_compute; repeat split.
Qed.
Print Assumptions c04_words_example.
