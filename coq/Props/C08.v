(* Props/C08.v — C08: hook protocol.  The model has no error channel: a hook
   call is [emit c w : res W]; "the hook returned Err" is observed on the real
   code by fault injection at every call index (tools/check.py C08).  What is
   proved here is the structure that makes that observation sufficient: every
   algorithm and adapter acts on the hook beneath it ONLY by emitting a
   sequence of calls in order (so aborting at the first failing call is the
   only way an error can propagate), finish is emitted once and last, the
   finish-suppressing wrapper forwards everything but finish, and a hook
   without its own replace receives delete then insert. *)
From Similar Require Import Model.Base Model.Utils Model.Myers Model.Lcs Model.Hooks Model.Compact Model.Capture
  Spec.Script Spec.SnakeSpec Proofs.Replace Proofs.Compact Proofs.CompactEvents Proofs.Main.

Theorem c08_myers_finish_last :
  forall (cmp : cmpf) (dl : deadline) (os oe ns ne : nat) (w0 w1 : plain),
    os <= oe -> ns <= ne -> CmpTotal cmp os oe ns ne ->
    myers_diff (plain_world dl) cmp os oe ns ne w0 = Ok w1 ->
    exists cs, plain_calls w1 = plain_calls w0 ++ cs /\ FinishLast cs.
Proof. exact myers_finish_last. Qed.
Print Assumptions c08_myers_finish_last.

Theorem c08_lcs_finish_last :
  forall (cmp : cmpf) (dl : deadline) (os oe ns ne : nat) (w0 w1 : plain),
    os <= oe -> ns <= ne ->
    lcs_diff (plain_world dl) cmp os oe ns ne w0 = Ok w1 ->
    exists cs, plain_calls w1 = plain_calls w0 ++ cs /\ FinishLast cs.
Proof. exact lcs_finish_last. Qed.
Print Assumptions c08_lcs_finish_last.

(* Replace over ANY inner hook is a pure transducer of call lists: what reaches
   the inner hook is exactly [replace_trace], emitted in order *)
Theorem c08_replace_acts_by_emitting :
  forall (W : Type) (wd : world W) (dbg : bool) (cs : list call) (s : rstate) (w : W) (s' : rstate) (w' : W),
    emit_all (replace_world wd dbg) cs (s, w) = Ok (s', w') ->
    exists out, replace_trace dbg cs s = (out, Some s') /\ emit_all wd out w = Ok w'.
Proof. intros W. exact (@replace_acts_by_emitting W). Qed.
Print Assumptions c08_replace_acts_by_emitting.

(* a failing inner call makes the whole run fail *)
Theorem c08_replace_inner_failure :
  forall (W : Type) (wd : world W) (dbg : bool) (cs : list call) (s : rstate) (w : W),
    (emit_all wd (fst (replace_trace dbg cs s)) w = Panic -> emit_all (replace_world wd dbg) cs (s, w) = Panic) /\
    (emit_all wd (fst (replace_trace dbg cs s)) w = OutOfFuel -> emit_all (replace_world wd dbg) cs (s, w) = OutOfFuel) /\
    (forall w', emit_all wd (fst (replace_trace dbg cs s)) w = Ok w' -> snd (replace_trace dbg cs s) = None ->
                emit_all (replace_world wd dbg) cs (s, w) = Panic).
Proof. intros W. exact (@replace_inner_failure W). Qed.
Print Assumptions c08_replace_inner_failure.

(* Compact: nothing reaches the inner hook before finish, then ops and finish *)
Theorem c08_compact_hook :
  forall (W : Type) (wd : world W) (cmp : cmpf) (repair : bool) (body : list call) (w : W),
    Forall edit_call body ->
    emit_all (compact_world wd cmp repair) (body ++ [CFin]) ([], w) =
    match cleanup_diff_ops cmp repair (capture_calls body) with
    | Ok ops' => match emit_all wd (map op_to_call ops' ++ [CFin]) w with
                 | Ok w' => Ok (rev ops', w') | Panic => Panic | OutOfFuel => OutOfFuel end
    | Panic => Panic | OutOfFuel => OutOfFuel end.
Proof. intros W. exact (@compact_hook_spec W). Qed.
Print Assumptions c08_compact_hook.

(* the same for ANY body of events without a finish, replace events included (they reach a Compact when the
   adapters are nested the other way round or when Replace ops are replayed into it): a replace event counts as
   delete + insert, the inner hook still sees nothing before finish and exactly one finish, last *)
Theorem c08_compact_hook_events :
  forall (W : Type) (wd : world W) (cmp : cmpf) (repair : bool) (body : list call) (w : W),
    ~ In CFin body ->
    emit_all (compact_world wd cmp repair) (body ++ [CFin]) ([], w) =
    match cleanup_diff_ops cmp repair (capture_calls (expand_rep body)) with
    | Ok ops' => match emit_all wd (map op_to_call ops' ++ [CFin]) w with
                 | Ok w' => Ok (rev ops', w') | Panic => Panic | OutOfFuel => OutOfFuel end
    | Panic => Panic | OutOfFuel => OutOfFuel end.
Proof. intros W. exact (@compact_hook_events W). Qed.
Print Assumptions c08_compact_hook_events.

(* Replace on the outside of Compact: Compact receives exactly the trace of the Replace transducer *)
Theorem c08_replace_over_compact :
  forall (W : Type) (wd : world W) (cmp : cmpf) (repair dbg : bool) (cs : list call)
         (s : rstate) (buf : list op) (w : W) (s' : rstate) (buf' : list op) (w' : W),
    emit_all (replace_world (compact_world wd cmp repair) dbg) cs (s, (buf, w)) = Ok (s', (buf', w')) ->
    exists out, replace_trace dbg cs s = (out, Some s')
                /\ emit_all (compact_world wd cmp repair) out (buf, w) = Ok (buf', w').
Proof. intros W. exact (@replace_over_compact W). Qed.
Print Assumptions c08_replace_over_compact.

(* NoFinishHook forwards everything except finish *)
Theorem c08_no_finish_forwards :
  forall (W : Type) (wd : world W) (c : call) (w : W),
    emit (no_finish wd) c w = match c with CFin => Ok w | _ => emit wd c w end.
Proof. intros W. exact (@no_finish_spec W). Qed.
Print Assumptions c08_no_finish_forwards.

Theorem c08_no_finish_body :
  forall (cmp : cmpf) (dl : deadline) (os oe ns ne : nat) (w0 w1 : plain),
    os <= oe -> ns <= ne -> CmpTotal cmp os oe ns ne ->
    myers_diff (no_finish (plain_world dl)) cmp os oe ns ne w0 = Ok w1 ->
    exists body, plain_calls w1 = plain_calls w0 ++ body /\ RawWalk cmp oe ne os ns os body /\ ~ In CFin body.
Proof. exact myers_no_finish_body. Qed.
Print Assumptions c08_no_finish_body.

(* a hook that does not override replace receives delete followed by insert *)
Theorem c08_default_replace :
  forall (W : Type) (wd : world W) (c : call) (w : W),
    emit (default_replace wd) c w =
    match c with
    | CRep o ol n nl => do w1 <- emit wd (CDel o ol n) w; emit wd (CIns o n nl) w1
    | _ => emit wd c w
    end.
Proof. intros W. exact (@default_replace_spec W). Qed.
Print Assumptions c08_default_replace.

Theorem c08_default_replace_trace :
  forall (W : Type) (wd : world W) (cs : list call) (w : W),
    emit_all (default_replace wd) cs w = emit_all wd (expand_rep cs) w.
Proof. intros W. exact (@default_replace_emit_all W). Qed.
Print Assumptions c08_default_replace_trace.

Example c08_instance :
  replace_trace true [CDel 0 1 0; CIns 1 0 2; CEq 1 2 1; CFin] rstate0
  = ([CRep 0 1 0 2; CEq 1 2 1; CFin], Some rstate0).
Proof. vm_compute. reflexivity. Qed.
