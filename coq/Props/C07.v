(* Props/C07.v — C07: deadline expiry at any point still yields a valid diff.
   A deadline is modelled as a clock [dl : option (nat -> bool)] answering the
   i-th probe; the theorems quantify over EVERY clock, i.e. over expiry at any
   probe, before the start, or never. *)
From Similar Require Import Model.Base Model.Utils Model.Myers Model.Lcs Model.Hooks Model.Capture
  Spec.Script Spec.SnakeSpec Proofs.Lcs Proofs.Main Proofs.WorldInv Proofs.MyersSnake.

Theorem c07_myers_valid_any_clock :
  forall (cmp : cmpf) (clk : nat -> bool) (os oe ns ne : nat) (w0 w1 : plain),
    os <= oe -> ns <= ne -> CmpTotal cmp os oe ns ne ->
    myers_diff (plain_world (Some clk)) cmp os oe ns ne w0 = Ok w1 ->
    exists cs, plain_calls w1 = plain_calls w0 ++ cs /\
               RawStrong cmp os oe ns ne cs /\ RawValid cmp os oe ns ne cs /\ FinishLast cs.
Proof. intros cmp clk. exact (myers_raw_valid cmp (Some clk)). Qed.
Print Assumptions c07_myers_valid_any_clock.

Theorem c07_myers_completes_any_clock :
  forall (cmp : cmpf) (clk : nat -> bool) (os oe ns ne : nat) (w0 : plain),
    os <= oe -> ns <= ne -> CmpTotal cmp os oe ns ne ->
    exists w1, myers_diff (plain_world (Some clk)) cmp os oe ns ne w0 = Ok w1.
Proof. intros cmp clk. exact (myers_raw_no_panic cmp (Some clk)). Qed.
Print Assumptions c07_myers_completes_any_clock.

Theorem c07_lcs_valid_any_clock :
  forall (cmp : cmpf) (clk : nat -> bool) (os oe ns ne : nat) (w0 w1 : plain),
    os <= oe -> ns <= ne ->
    lcs_diff (plain_world (Some clk)) cmp os oe ns ne w0 = Ok w1 ->
    exists cs, plain_calls w1 = plain_calls w0 ++ cs /\
               RawStrong cmp os oe ns ne cs /\ RawValid cmp os oe ns ne cs /\ FinishLast cs.
Proof. intros cmp clk. exact (lcs_raw_valid cmp (Some clk)). Qed.
Print Assumptions c07_lcs_valid_any_clock.

Theorem c07_lcs_completes_any_clock :
  forall (cmp : cmpf) (clk : nat -> bool) (os oe ns ne : nat) (w0 : plain),
    os <= oe -> ns <= ne ->
    (forall i j, os <= i < oe -> ns <= j < ne -> exists b, cmp i j = Ok b) ->
    exists w1, lcs_diff (plain_world (Some clk)) cmp os oe ns ne w0 = Ok w1.
Proof. intros cmp clk. exact (lcs_no_panic cmp (Some clk)). Qed.
Print Assumptions c07_lcs_completes_any_clock.

(* the search gives up only because of the deadline: with a clock that never
   fires the middle-snake search always finds a split point (SnakeSpec's None
   clause), so the fallback path is taken only after a probe answered true *)
Theorem c07_snake_none_only_by_deadline :
  forall (W : Type) (wd : world W) (cmp : cmpf), SnakeSpec wd cmp.
Proof. exact snake_spec. Qed.
Print Assumptions c07_snake_none_only_by_deadline.

(* non-vacuity: the clock expiring at probe 2 on a concrete pair *)
Example c07_instance :
  let old := [1; 2; 3; 1; 2; 2; 1] in
  let new := [3; 2; 1; 2; 1; 3] in
  let cmp := cmp_of Nat.eqb (slice_lookup old) (slice_lookup new) in
  match myers_diff (plain_world (Some (clock_at 2))) cmp 0 7 0 6 plain0 with
  | Ok w => plain_calls w = [CDel 0 7 0; CIns 0 0 6; CFin] /\ probes (p_ctr w) = 3
  | _ => False
  end.
Proof. vm_compute. split; reflexivity. Qed.
