(* Props/C07.v — C07: deadline expiry at any point still yields a valid diff.
   A deadline is modelled as a clock [dl : option (nat -> bool)] answering the
   i-th probe; the theorems quantify over EVERY clock, i.e. over expiry at any
   probe, before the start, or never. *)
From Similar Require Import Model.Base Model.Utils Model.Myers Model.Lcs Model.Hooks Model.Capture
  Spec.Script Spec.SnakeSpec Proofs.Lcs Proofs.Main Proofs.WorldInv Proofs.MyersSnake Proofs.NeverExpire Proofs.PostExpiry.
From Similar Require Import Model.TextDiff.

Theorem c07_myers_valid_any_clock :
  forall (cmp : cmpf) (clk : nat -> bool) (os oe ns ne : nat) (w0 w1 : plain),
    os <= oe -> ns <= ne -> CmpTotal cmp os oe ns ne ->
    myers_diff (plain_world (Some clk)) cmp os oe ns ne w0 = Ok w1 ->
    exists cs, plain_calls w1 = plain_calls w0 ++ cs /\
               RawStrong cmp os oe ns ne cs /\ RawValid cmp os oe ns ne cs /\ FinishLast cs.
Proof. intros cmp clk. exact (myers_raw_valid cmp (Some clk)). Qed.
Print Assumptions c07_myers_valid_any_clock.

Theorem c07_myers_completes_any_clock :
  forall (cmp : cmpf) (clk : nat -> bool) (os oe ns ne : nat) (w0 : plain),
    os <= oe -> ns <= ne -> CmpTotal cmp os oe ns ne ->
    exists w1, myers_diff (plain_world (Some clk)) cmp os oe ns ne w0 = Ok w1.
Proof. intros cmp clk. exact (myers_raw_no_panic cmp (Some clk)). Qed.
Print Assumptions c07_myers_completes_any_clock.

Theorem c07_lcs_valid_any_clock :
  forall (cmp : cmpf) (clk : nat -> bool) (os oe ns ne : nat) (w0 w1 : plain),
    os <= oe -> ns <= ne ->
    lcs_diff (plain_world (Some clk)) cmp os oe ns ne w0 = Ok w1 ->
    exists cs, plain_calls w1 = plain_calls w0 ++ cs /\
               RawStrong cmp os oe ns ne cs /\ RawValid cmp os oe ns ne cs /\ FinishLast cs.
Proof. intros cmp clk. exact (lcs_raw_valid cmp (Some clk)). Qed.
Print Assumptions c07_lcs_valid_any_clock.

Theorem c07_lcs_completes_any_clock :
  forall (cmp : cmpf) (clk : nat -> bool) (os oe ns ne : nat) (w0 : plain),
    os <= oe -> ns <= ne ->
    (forall i j, os <= i < oe -> ns <= j < ne -> exists b, cmp i j = Ok b) ->
    exists w1, lcs_diff (plain_world (Some clk)) cmp os oe ns ne w0 = Ok w1.
Proof. intros cmp clk. exact (lcs_no_panic cmp (Some clk)). Qed.
Print Assumptions c07_lcs_completes_any_clock.

(* the search gives up only because of the deadline: with a clock that never
   fires the middle-snake search always finds a split point (SnakeSpec's None
   clause), so the fallback path is taken only after a probe answered true *)
Theorem c07_snake_none_only_by_deadline :
  forall (W : Type) (wd : world W) (cmp : cmpf), SnakeSpec wd cmp.
Proof. exact snake_spec. Qed.
Print Assumptions c07_snake_none_only_by_deadline.

(* non-vacuity: the clock expiring at probe 2 on a concrete pair *)
Example c07_instance :
  let old := [1; 2; 3; 1; 2; 2; 1] in
  let new := [3; 2; 1; 2; 1; 3] in
  let cmp := cmp_of Nat.eqb (slice_lookup old) (slice_lookup new) in
  match myers_diff (plain_world (Some (clock_at 2))) cmp 0 7 0 6 plain0 with
  | Ok w => plain_calls w = [CDel 0 7 0; CIns 0 0 6; CFin] /\ probes (p_ctr w) = 3
  | _ => False
  end.
Proof. vm_compute. split; reflexivity. Qed.

(* ---------------------------------------------------------------------- *)
(* a deadline that never expires gives exactly the result of no deadline   *)
(* ---------------------------------------------------------------------- *)
(* generic: two hook/clock worlds that answer alike make every algorithm run
   alike (equal Ok / Panic / OutOfFuel outcomes, related final states) *)
Theorem c07_alg_parametric :
  forall (W1 W2 : Type) (R : W1 -> W2 -> Prop) (wd1 : world W1) (wd2 : world W2)
         (alg : algorithm) (dbg : bool) (orc : oracles) (os oe ns ne : nat) (w1 : W1) (w2 : W2),
    WSim R wd1 wd2 -> R w1 w2 ->
    rrel R (diff_deadline alg wd1 dbg orc os oe ns ne w1) (diff_deadline alg wd2 dbg orc os oe ns ne w2).
Proof. exact @alg_parametric. Qed.
Print Assumptions c07_alg_parametric.

(* all three algorithms, any ranges (no premise), a clock that never answers
   true: same calls, same counters except the number of probes *)
Theorem c07_never_expire_raw :
  forall (alg : algorithm) (clk : nat -> bool) (dbg : bool) (orc : oracles) (os oe ns ne : nat),
    (forall i : nat, clk i = false) ->
    exists k : nat,
      raw_trace alg (Some clk) dbg orc os oe ns ne =
      (do '(calls, c) <- raw_trace alg None dbg orc os oe ns ne; Ok (calls, set_probes k c)).
Proof. exact never_expire_raw. Qed.
Print Assumptions c07_never_expire_raw.

Theorem c07_never_expire_capture :
  forall (alg : algorithm) (clk : nat -> bool) (dbg repair : bool) (orc : oracles) (os oe ns ne : nat),
    (forall i : nat, clk i = false) ->
    exists k : nat,
      capture_diff alg (Some clk) dbg repair orc os oe ns ne =
      (do '(ops, c) <- capture_diff alg None dbg repair orc os oe ns ne; Ok (ops, set_probes k c)).
Proof. exact never_expire_capture. Qed.
Print Assumptions c07_never_expire_capture.

Theorem c07_never_expire_textdiff :
  forall (alg : algorithm) (clk : nat -> bool) (dbg repair : bool) (orc : oracles) (olen nlen : nat),
    (forall i : nat, clk i = false) ->
    exists k : nat,
      textdiff_ops alg (Some clk) dbg repair orc olen nlen =
      (do '(ops, c) <- textdiff_ops alg None dbg repair orc olen nlen; Ok (ops, set_probes k c)).
Proof. exact never_expire_textdiff. Qed.
Print Assumptions c07_never_expire_textdiff.

(* a never-expiring run never sets the expired flag; no deadline = no probe *)
Theorem c07_never_expire_ctr :
  forall (alg : algorithm) (dl : deadline) (dbg : bool) (orc : oracles) (os oe ns ne : nat)
         (calls : list call) (c : ctr),
    dl_never dl -> raw_trace alg dl dbg orc os oe ns ne = Ok (calls, c) ->
    expired c = false /\ post_cmps c = 0.
Proof. exact never_expire_raw_ctr. Qed.
Print Assumptions c07_never_expire_ctr.

Theorem c07_none_no_probe :
  forall (alg : algorithm) (dbg : bool) (orc : oracles) (os oe ns ne : nat) (calls : list call) (c : ctr),
    raw_trace alg None dbg orc os oe ns ne = Ok (calls, c) -> probes c = 0.
Proof. exact raw_none_no_probe. Qed.
Print Assumptions c07_none_no_probe.

(* ---------------------------------------------------------------------- *)
(* after expiry only a small constant multiple of N+M further element      *)
(* comparisons are made (Proofs/PostExpiry.v).  post_cmps counts the       *)
(* comparisons made after the first probe that answered true.  The clock   *)
(* must be monotone (time does not go back); the harness clock is.         *)
(* ---------------------------------------------------------------------- *)
Theorem c07_post_expiry_bound :
  forall (alg : algorithm) (dl : deadline) (dbg : bool) (orc : oracles) (os oe ns ne : nat)
         (calls : list call) (c : ctr),
    DlMono dl -> os <= oe -> ns <= ne -> CmpTotal (o_on orc) os oe ns ne ->
    raw_trace alg dl dbg orc os oe ns ne = Ok (calls, c) ->
    post_cmps c <= post_bound alg (oe - os) (ne - ns).
Proof. exact post_expiry_bound_dl. Qed.
Print Assumptions c07_post_expiry_bound.

(* the bounds: Myers N+M, LCS 0, Patience 2(N+M)+1 *)
Theorem c07_post_bound_values :
  forall n m : nat,
    post_bound Myers n m = n + m /\ post_bound Lcs n m = 0 /\ post_bound Patience n m = 2 * (n + m) + 1.
Proof. intros n m. repeat split. Qed.
Print Assumptions c07_post_bound_values.

Theorem c07_post_expiry_bound_any_alg :
  forall (alg : algorithm) (clk : nat -> bool) (dbg : bool) (orc : oracles) (os oe ns ne : nat)
         (calls : list call) (c : ctr),
    (forall i j : nat, i <= j -> clk i = true -> clk j = true) ->
    os <= oe -> ns <= ne -> CmpTotal (o_on orc) os oe ns ne ->
    raw_trace alg (Some clk) dbg orc os oe ns ne = Ok (calls, c) ->
    post_cmps c <= 2 * (oe - os + (ne - ns)) + 1.
Proof. exact post_expiry_bound. Qed.
Print Assumptions c07_post_expiry_bound_any_alg.

(* the virtual clock of the harness (expires at probe k and stays expired) is monotone *)
Theorem c07_clock_at_mono :
  forall k i j : nat, i <= j -> clock_at k i = true -> clock_at k j = true.
Proof. exact clock_at_mono. Qed.
Print Assumptions c07_clock_at_mono.
