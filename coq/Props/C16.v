(* Props/C16.v — C16: iter_inline_changes.  The inline changes of an op have
   the shape of its plain expansion, their values concatenate to the lines,
   only Replace ops produce emphasis and no emphasised value contains a
   newline. *)
From Coq Require Import NArith Sorted.
From Similar Require Import Model.Base Model.Capture Model.Iter Model.Tokenize Model.TextDiff
     Model.Inline Spec.Script Check.Tokens Proofs.Iter Proofs.Remap Proofs.Inline Proofs.InlineMain.

(* B1: Equal / Delete / Insert ops give the plain expansion, nothing emphasised *)
Theorem c16_inline_not_replace :
  forall (words : list N -> list token) (bytes_mode : bool) (dl : deadline) (dbg repair : bool)
         (old new : list (list N)) (x : op),
    op_tag x <> TReplace ->
    inline_changes words bytes_mode dl dbg repair old new x =
    (do cs <- iter_changes (slice_lookup old) (slice_lookup new) x; Ok (map plain_ichange cs)).
Proof. exact inline_not_replace. Qed.
Print Assumptions c16_inline_not_replace.

Theorem c16_inline_not_replace_no_emph :
  forall (words : list N -> list token) (bytes_mode : bool) (dl : deadline) (dbg repair : bool)
         (old new : list (list N)) (x : op) (ics : list ichange),
    op_tag x <> TReplace ->
    inline_changes words bytes_mode dl dbg repair old new x = Ok ics ->
    exists cs : list (change (list N)),
      expand_op (slice_lookup old) (slice_lookup new) x = Some cs /\
      ics = map plain_ichange cs /\
      Forall (fun ic => Forall (fun p : bool * list N => fst p = false) (ic_vals ic)) ics.
Proof. exact inline_not_replace_no_emph. Qed.
Print Assumptions c16_inline_not_replace_no_emph.

(* B2: MultiLookup::new *)
Theorem c16_multi_seqs_spec :
  forall words : list N -> list token,
    (forall s : list N, check_partition (words s) 0 (length s) = true) ->
    forall ss : list (list N),
    multi_seqs words ss 0 =
      flat_map (fun p : nat * list N => entries_of words (fst p) (snd p))
               (combine (seq 0 (length ss)) ss) /\
    (forall (k : nat) (s : list N), nth_error ss k = Some s ->
       concat (map e_word (entries_of words k s)) = s /\
       (entries_of words k s = [] <-> s = []) /\
       (forall e : seq_entry, In e (entries_of words k s) ->
          e_sidx e = k /\ e_word e <> [] /\
          e_off e + length (e_word e) <= length s /\
          e_word e = seg s (e_off e) (length (e_word e)))) /\
    WF ss (multi_seqs words ss 0).
Proof. exact multi_seqs_spec. Qed.
Print Assumptions c16_multi_seqs_spec.

(* B3: get_original_slices never panics in range and returns the merged runs *)
Theorem c16_orig_slices_spec :
  forall words : list N -> list token,
    (forall s : list N, check_partition (words s) 0 (length s) = true) ->
    forall (ss : list (list N)) (i len : nat),
    i + len <= length (multi_seqs words ss 0) ->
    get_original_slices ss (multi_seqs words ss 0) i len =
    Ok (group_entries (seg (multi_seqs words ss 0) i len)).
Proof. exact orig_slices_spec. Qed.
Print Assumptions c16_orig_slices_spec.

Theorem c16_orig_slices_descr :
  forall words : list N -> list token,
    (forall s : list N, check_partition (words s) 0 (length s) = true) ->
    forall (ss : list (list N)) (i len : nat),
    i + len <= length (multi_seqs words ss 0) ->
    let es := seg (multi_seqs words ss 0) i len in
    exists g : list (nat * list N),
      get_original_slices ss (multi_seqs words ss 0) i len = Ok g /\
      StronglySorted lt (map fst g) /\
      Forall (fun p : nat * list N =>
                snd p = concat (map e_word (filter (fun e => e_sidx e =? fst p) es)) /\
                exists e : seq_entry, In e es /\ e_sidx e = fst p) g /\
      (forall e : seq_entry, In e es -> In (e_sidx e) (map fst g)).
Proof. exact orig_slices_descr. Qed.
Print Assumptions c16_orig_slices_descr.

(* tokenize_lines_and_newlines: a segment not ending with a newline has none *)
Theorem c16_lnl_token_clean :
  forall (s : list N) (toks : list token),
    check_tokens TkLinesNewlines s toks = true ->
    forall t : token, In t toks ->
    ends_with_newline (tok_bytes s t) = false ->
    Forall (fun b : N => b <> 10%N /\ b <> 13%N) (tok_bytes s t).
Proof. exact lnl_token_clean. Qed.
Print Assumptions c16_lnl_token_clean.

(* B4: a Replace op.  [good] = the strings on which
   tokenize_lines_and_newlines is known to be correct; the second-level diff
   over the words is assumed loosely valid. *)
Theorem c16_inline_replace_spec :
  forall words : list N -> list token,
    (forall s : list N, check_partition (words s) 0 (length s) = true) ->
    forall (bytes_mode : bool) (good : list N -> Prop),
    (forall a b : list N, good a -> good b -> good (a ++ b)) ->
    (forall s : list N, good s ->
       check_tokens TkLinesNewlines s (tokenize bytes_mode TkLinesNewlines s) = true) ->
    forall (dl : deadline) (dbg repair : bool) (old new : list (list N)) (o ol n nl : nat),
    o + ol <= length old -> n + nl <= length new ->
    let olds := seg old o ol in
    let news := seg new n nl in
    Forall (fun l : list N => l <> []) olds ->
    Forall (fun l : list N => l <> []) news ->
    Forall (fun l => Forall (fun t => good (tok_bytes l t)) (words l)) olds ->
    Forall (fun l => Forall (fun t => good (tok_bytes l t)) (words l)) news ->
    (forall (ops2 : list op) (c : ctr),
       capture_diff Patience dl dbg repair (inline_orc words olds news)
         0 (length (word_items words olds)) 0 (length (word_items words news)) = Ok (ops2, c) ->
       OpsLoose (o_on (inline_orc words olds news))
         0 (length (word_items words olds)) 0 (length (word_items words news)) ops2) ->
    forall ics : list ichange,
    inline_changes words bytes_mode dl dbg repair old new (Replace o ol n nl) = Ok ics ->
    let cs := number_plain ChDelete olds o ++ number_plain ChInsert news n in
    (* cs is the plain expansion: ol Deletes at o.., then nl Inserts at n.. *)
    expand_op (slice_lookup old) (slice_lookup new) (Replace o ol n nl) = Some cs /\
    (* same tags / indices, and the values of each change concatenate to its line *)
    map (fun ic => (ic_tag ic, ic_old ic, ic_new ic, concat (map snd (ic_vals ic)))) ics =
      map (fun c => (ch_tag c, ch_old c, ch_new c, ch_val c)) cs /\
    map (fun ic => (ic_tag ic, ic_old ic, ic_new ic)) ics =
      map (fun c => (ch_tag c, ch_old c, ch_new c)) cs /\
    (* no emphasised value contains CR or LF *)
    Forall (fun ic =>
      Forall (fun p : bool * list N =>
                fst p = true -> Forall (fun b : N => b <> 10%N /\ b <> 13%N) (snd p))
             (ic_vals ic)) ics.
Proof. exact inline_replace_spec. Qed.
Print Assumptions c16_inline_replace_spec.

Theorem c16_inline_post_pointwise :
  forall (old new : list (list N)) (o ol n nl : nat) (ics : list ichange),
    inline_post old new o ol n nl ics ->
    length ics = ol + nl /\
    (forall (k : nat) (ic : ichange), nth_error ics k = Some ic ->
       let line := concat (map snd (ic_vals ic)) in
       if k <? ol
       then ic_tag ic = ChDelete /\ ic_old ic = Some (o + k) /\ ic_new ic = None /\
            nth_error old (o + k) = Some line
       else ic_tag ic = ChInsert /\ ic_old ic = None /\ ic_new ic = Some (n + (k - ol)) /\
            nth_error new (n + (k - ol)) = Some line).
Proof. exact inline_post_pointwise. Qed.
Print Assumptions c16_inline_post_pointwise.

(* [u8] instance: tokenize_lines_and_newlines correct on every input *)
Theorem c16_inline_replace_spec_all :
  forall words : list N -> list token,
    (forall s : list N, check_partition (words s) 0 (length s) = true) ->
    forall bytes_mode : bool,
    (forall s : list N,
       check_tokens TkLinesNewlines s (tokenize bytes_mode TkLinesNewlines s) = true) ->
    forall (dl : deadline) (dbg repair : bool) (old new : list (list N)) (o ol n nl : nat),
    o + ol <= length old -> n + nl <= length new ->
    Forall (fun l : list N => l <> []) old ->
    Forall (fun l : list N => l <> []) new ->
    (forall (ops2 : list op) (c : ctr),
       capture_diff Patience dl dbg repair (inline_orc words (seg old o ol) (seg new n nl))
         0 (length (word_items words (seg old o ol))) 0 (length (word_items words (seg new n nl)))
         = Ok (ops2, c) ->
       OpsLoose (o_on (inline_orc words (seg old o ol) (seg new n nl)))
         0 (length (word_items words (seg old o ol))) 0 (length (word_items words (seg new n nl)))
         ops2) ->
    forall ics : list ichange,
    inline_changes words bytes_mode dl dbg repair old new (Replace o ol n nl) = Ok ics ->
    inline_post old new o ol n nl ics.
Proof. exact inline_replace_spec_all. Qed.
Print Assumptions c16_inline_replace_spec_all.

(* byte instance, no premise about the second-level diff or the newline
   tokenizer: both discharged (pipeline theorem for Patience under every
   clock; byte tokenizers correct on arbitrary bytes) *)
Theorem c16_inline_replace_bytes :
  forall (words : list N -> list token),
    (forall s, check_partition (words s) 0 (length s) = true) ->
  forall (dl : deadline) (dbg repair : bool) (old new : list (list N)) (o ol n nl : nat),
    o + ol <= length old -> n + nl <= length new ->
    Forall (fun l => l <> []) old -> Forall (fun l => l <> []) new ->
  forall ics, inline_changes words true dl dbg repair old new (Replace o ol n nl) = Ok ics ->
    inline_post old new o ol n nl ics.
Proof. exact inline_replace_bytes. Qed.
Print Assumptions c16_inline_replace_bytes.

(* past the second-level diff, nothing in iter_inline_changes can panic *)
Theorem c16_inline_replace_total :
  forall words : list N -> list token,
    (forall s : list N, check_partition (words s) 0 (length s) = true) ->
    forall (bytes_mode : bool) (good : list N -> Prop),
    (forall a b : list N, good a -> good b -> good (a ++ b)) ->
    (forall s : list N, good s ->
       check_tokens TkLinesNewlines s (tokenize bytes_mode TkLinesNewlines s) = true) ->
    forall (dl : deadline) (dbg repair : bool) (old new : list (list N)) (o ol n nl : nat),
    o + ol <= length old -> n + nl <= length new ->
    let olds := seg old o ol in
    let news := seg new n nl in
    Forall (fun l : list N => l <> []) olds ->
    Forall (fun l : list N => l <> []) news ->
    Forall (words_good words good) olds ->
    Forall (words_good words good) news ->
    (forall (ops2 : list op) (c : ctr),
       capture_diff Patience dl dbg repair (inline_orc words olds news)
         0 (length (word_items words olds)) 0 (length (word_items words news)) = Ok (ops2, c) ->
       OpsLoose (o_on (inline_orc words olds news))
         0 (length (word_items words olds)) 0 (length (word_items words news)) ops2) ->
    forall (ops2 : list op) (c : ctr),
    capture_diff Patience dl dbg repair (inline_orc words olds news)
      0 (length (word_items words olds)) 0 (length (word_items words news)) = Ok (ops2, c) ->
    exists ics : list ichange,
      inline_changes words bytes_mode dl dbg repair old new (Replace o ol n nl) = Ok ics.
Proof. exact inline_replace_total. Qed.
Print Assumptions c16_inline_replace_total.

(* "hello world\nfoo bar\n" / "hello world\nfoo baz\n"; words = the model's
   own whitespace tokenizer *)
Example c16_instance :
  let l1 := [104; 101; 108; 108; 111; 32; 119; 111; 114; 108; 100; 10]%N in
  let l2 := [102; 111; 111; 32; 98; 97; 114; 10]%N in
  let l3 := [102; 111; 111; 32; 98; 97; 122; 10]%N in
  let words := tokenize true TkWords in
  let run := inline_changes words true None false false [l1; l2] [l1; l3] in
  forallb (fun s => check_partition (words s) 0 (length s)) [l1; l2; l3] = true /\
  run (Replace 0 2 0 2) =
    Ok [{| ic_tag := ChDelete; ic_old := Some 0; ic_new := None; ic_vals := [(false, l1)] |};
        {| ic_tag := ChDelete; ic_old := Some 1; ic_new := None;
           ic_vals := [(false, [102; 111; 111; 32]); (true, [98; 97; 114]); (false, [10])]%N |};
        {| ic_tag := ChInsert; ic_old := None; ic_new := Some 0; ic_vals := [(false, l1)] |};
        {| ic_tag := ChInsert; ic_old := None; ic_new := Some 1;
           ic_vals := [(false, [102; 111; 111; 32]); (true, [98; 97; 122]); (false, [10])]%N |}] /\
  run (Equal 0 0 1) =
    Ok [{| ic_tag := ChEqual; ic_old := Some 0; ic_new := Some 0; ic_vals := [(false, l1)] |}] /\
  (* "a b\n" -> "a c": the deleted run "b\n" is re-split, its newline un-emphasised *)
  inline_changes words true None false false [[97; 32; 98; 10]%N] [[97; 32; 99]%N] (Replace 0 1 0 1) =
    Ok [{| ic_tag := ChDelete; ic_old := Some 0; ic_new := None;
           ic_vals := [(false, [97; 32]); (true, [98]); (false, [10])]%N |};
        {| ic_tag := ChInsert; ic_old := None; ic_new := Some 0;
           ic_vals := [(false, [97; 32]); (true, [99])]%N |}].
Proof. vm_compute. repeat split; reflexivity. Qed.
