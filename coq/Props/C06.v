(* Props/C06.v — C06: the tokenizers are lossless partitions with the
   documented token shape; the str and byte implementations agree on valid
   UTF-8; the UTF-8 decoder underneath is a partition into chars. *)
From Coq Require Import NArith.
From Similar Require Import Model.Base Model.Utf8 Model.Tokenize Check.Tokens.
From Similar Require Import Proofs.Utf8 Proofs.Tokenize.

(* ---- the decoder ---- *)

(* [Chars pos cs total]: the chars cs are consecutive starting at pos, each
   non-empty and at most 4 bytes long, and the last one ends at total *)
Theorem c06_Chars_unfold :
  forall pos cs total,
    Chars pos cs total =
    match cs with
    | [] => pos = total
    | c :: r => dc_start c = pos /\ pos < dc_end c /\ dc_end c <= pos + 4 /\
                Chars (dc_end c) r total
    end.
Proof. exact Chars_unfold. Qed.
Print Assumptions c06_Chars_unfold.

Theorem c06_decode_partition :
  forall bs : list N, Chars 0 (decode bs) (length bs).
Proof. exact decode_partition. Qed.
Print Assumptions c06_decode_partition.

Theorem c06_decode_valid_len :
  forall (bs : list N) (c : dchar),
    In c (decode bs) -> dc_valid c = true ->
    dc_end c - dc_start c = len_utf8 (dc_cp c).
Proof. exact decode_valid_len. Qed.
Print Assumptions c06_decode_valid_len.

(* a char LF / CR is a valid one-byte char whose input byte is 10 / 13 ... *)
Theorem c06_decode_newline_char :
  forall (bs : list N) (c : dchar),
    In c (decode bs) -> (dc_cp c = 10 \/ dc_cp c = 13)%N ->
    dc_valid c = true /\ dc_end c = dc_start c + 1 /\
    nth_error bs (dc_start c) = Some (dc_cp c).
Proof. exact decode_newline_char. Qed.
Print Assumptions c06_decode_newline_char.

(* ... and an input byte 10 / 13 is always such a char of its own *)
Theorem c06_decode_newline_byte :
  forall (bs : list N) (i : nat) (b : N),
    nth_error bs i = Some b -> (b = 10 \/ b = 13)%N ->
    exists c, In c (decode bs) /\ dc_start c = i /\ dc_end c = i + 1 /\
              dc_cp c = b /\ dc_valid c = true.
Proof. exact decode_newline_byte. Qed.
Print Assumptions c06_decode_newline_byte.

(* ---- the tokenizers ---- *)

(* byte mode, arbitrary bytes (including invalid UTF-8) *)
Theorem c06_tok_bytes_ok :
  forall (k : tokenizer) (bs : list N),
    check_tokens k bs (tokenize true k bs) = true.
Proof. exact tok_bytes_ok. Qed.
Print Assumptions c06_tok_bytes_ok.

(* str mode, valid UTF-8 *)
Theorem c06_tok_str_ok :
  forall (k : tokenizer) (bs : list N),
    valid_utf8 bs = true -> check_tokens k bs (tokenize false k bs) = true.
Proof. exact tok_str_ok. Qed.
Print Assumptions c06_tok_str_ok.

Theorem c06_tok_str_bytes_agree :
  forall (k : tokenizer) (bs : list N),
    valid_utf8 bs = true -> tokenize false k bs = tokenize true k bs.
Proof. exact tok_str_bytes_agree. Qed.
Print Assumptions c06_tok_str_bytes_agree.

(* the line tokenizers even agree on every input *)
Theorem c06_tokenize_lines_str_bytes :
  forall bs : list N, tokenize_lines_str bs = tokenize_lines_bytes bs.
Proof. exact tokenize_lines_str_bytes. Qed.
Print Assumptions c06_tokenize_lines_str_bytes.

(* ---- what the checker means ---- *)

Theorem c06_check_partition_lossless :
  forall (bs : list N) (toks : list token),
    check_partition toks 0 (length bs) = true ->
    concat (map (tok_bytes bs) toks) = bs /\
    Forall (fun t => tok_bytes bs t <> []) toks.
Proof. exact check_partition_lossless. Qed.
Print Assumptions c06_check_partition_lossless.

Theorem c06_tokenize_bytes_lossless :
  forall (k : tokenizer) (bs : list N),
    concat (map (tok_bytes bs) (tokenize true k bs)) = bs /\
    Forall (fun t => tok_bytes bs t <> []) (tokenize true k bs).
Proof. exact tokenize_bytes_lossless. Qed.
Print Assumptions c06_tokenize_bytes_lossless.

Theorem c06_tokenize_str_lossless :
  forall (k : tokenizer) (bs : list N),
    valid_utf8 bs = true ->
    concat (map (tok_bytes bs) (tokenize false k bs)) = bs /\
    Forall (fun t => tok_bytes bs t <> []) (tokenize false k bs).
Proof. exact tokenize_str_lossless. Qed.
Print Assumptions c06_tokenize_str_lossless.

Theorem c06_line_shape_sound :
  forall (t : list N) (next_is_lf is_last : bool),
    line_shape t next_is_lf is_last = true ->
    exists pre, forallb not_nl pre = true /\
      (t = pre ++ [10]%N \/ t = pre ++ [13; 10]%N \/
       (t = pre ++ [13]%N /\ next_is_lf = false) \/
       (t = pre /\ pre <> [] /\ is_last = true)).
Proof. exact line_shape_sound. Qed.
Print Assumptions c06_line_shape_sound.

Theorem c06_check_chars_shape_iff :
  forall (cs : list dchar) (toks : list token),
    check_chars_shape_from cs toks = true <->
    toks = map (fun c => (dc_start c, dc_end c)) cs.
Proof. exact check_chars_shape_iff. Qed.
Print Assumptions c06_check_chars_shape_iff.

(* ---- instances: "a b\r\nc\rd<NBSP>e<U+1F600>\nx" (valid UTF-8), and a byte
   string with an invalid byte 255 and a truncated 4-byte sequence ---- *)
Example c06_instance :
  let txt := [97;32;98;13;10;99;13;100;194;160;101;240;159;152;128;10;120]%N in
  let btxt := [97;255;13;10;13;98;194;160;240;159;152;128;240;159;10;32;99]%N in
  valid_utf8 txt = true /\ valid_utf8 btxt = false /\
  tokenize false TkLines txt = [(0, 5); (5, 7); (7, 16); (16, 17)] /\
  tokenize false TkLinesNewlines txt =
    [(0, 3); (3, 5); (5, 6); (6, 7); (7, 15); (15, 16); (16, 17)] /\
  tokenize false TkWords txt =
    [(0, 1); (1, 2); (2, 3); (3, 5); (5, 6); (6, 7); (7, 8); (8, 10); (10, 15);
     (15, 16); (16, 17)] /\
  tokenize false TkChars txt =
    [(0, 1); (1, 2); (2, 3); (3, 4); (4, 5); (5, 6); (6, 7); (7, 8); (8, 10);
     (10, 11); (11, 15); (15, 16); (16, 17)] /\
  (forall k, tokenize true k txt = tokenize false k txt) /\
  (forall k, check_tokens k txt (tokenize false k txt) = true) /\
  map (tok_bytes btxt) (tokenize true TkLines btxt) =
    [[97; 255; 13; 10]; [13]; [98; 194; 160; 240; 159; 152; 128; 240; 159; 10]; [32; 99]]%N /\
  map (tok_bytes btxt) (tokenize true TkWords btxt) =
    [[97; 255]; [13; 10; 13]; [98]; [194; 160]; [240; 159; 152; 128; 240; 159];
     [10; 32]; [99]]%N /\
  tokenize true TkChars btxt =
    [(0, 1); (1, 2); (2, 3); (3, 4); (4, 5); (5, 6); (6, 8); (8, 12); (12, 14);
     (14, 15); (15, 16); (16, 17)] /\
  (forall k, check_tokens k btxt (tokenize true k btxt) = true) /\
  (* the checker rejects wrong tokenizations *)
  check_tokens TkLines txt [(0, 4); (4, 7); (7, 16); (16, 17)] = false /\
  check_tokens TkLines txt [(0, 5); (5, 7); (7, 17)] = false /\
  check_tokens TkWords txt [(0, 1); (1, 2); (2, 3); (3, 5); (5, 6); (6, 7); (7, 10);
                            (10, 15); (15, 16); (16, 17)] = false /\
  check_tokens TkChars btxt (tokenize true TkChars txt) = false.
Proof.
  cbv zeta.
  repeat match goal with |- _ /\ _ => split end;
    try (intros k; destruct k); vm_compute; reflexivity.
Qed.
Print Assumptions c06_instance.
