(* Props/C20.v — property C20 (logic part): results depend only on the
   equality pattern of the items.  Statements only.
   "Order preserving" is not needed: the model never uses an order. *)
From Coq Require Import NArith.
From Similar Require Import Model.Base Model.Utils Model.Capture Model.TextDiff Proofs.Identify.

(* identify_distinct looks at the oracles only on the two ranges *)
Theorem c20_identify_distinct_ext :
  forall (oo nn on oo' nn' on' : cmpf) (os oe ns ne : nat),
    (forall i i', os <= i < oe -> os <= i' < oe -> oo i i' = oo' i i') ->
    (forall j j', ns <= j < ne -> ns <= j' < ne -> nn j j' = nn' j j') ->
    (forall i j, os <= i < oe -> ns <= j < ne -> on i j = on' i j) ->
    identify_distinct oo nn on os oe ns ne = identify_distinct oo' nn' on' os oe ns ne.
Proof. exact identify_distinct_ext. Qed.
Print Assumptions c20_identify_distinct_ext.

(* same pattern of equalities on the ranges => same ids *)
Theorem c20_identify_pattern :
  forall (A A' : Type) (eqb : A -> A -> bool) (eqb' : A' -> A' -> bool)
         (old new : lookup A) (old' new' : lookup A') (os oe ns ne : nat),
    (forall i, os <= i < oe -> exists x, old i = Some x) ->
    (forall j, ns <= j < ne -> exists y, new j = Some y) ->
    (forall i, os <= i < oe -> exists x, old' i = Some x) ->
    (forall j, ns <= j < ne -> exists y, new' j = Some y) ->
    (forall i i' x x' y y', os <= i < oe -> os <= i' < oe ->
       old i = Some x -> old i' = Some x' -> old' i = Some y -> old' i' = Some y' ->
       eqb x x' = eqb' y y') ->
    (forall j j' x x' y y', ns <= j < ne -> ns <= j' < ne ->
       new j = Some x -> new j' = Some x' -> new' j = Some y -> new' j' = Some y' ->
       eqb x x' = eqb' y y') ->
    (forall i j x x' y y', os <= i < oe -> ns <= j < ne ->
       new j = Some x -> old i = Some x' -> new' j = Some y -> old' i = Some y' ->
       eqb x x' = eqb' y y') ->
    identify_distinct (cmp_same eqb old) (cmp_same eqb new) (cmp_of eqb old new) os oe ns ne =
    identify_distinct (cmp_same eqb' old') (cmp_same eqb' new') (cmp_of eqb' old' new') os oe ns ne.
Proof. exact identify_pattern. Qed.
Print Assumptions c20_identify_pattern.

(* the numbering is the first-seen numbering over old range then new range:
   the id sequence is a restricted growth string ... *)
Theorem c20_identify_first_seen :
  forall (A : Type) (eqb : A -> A -> bool),
    (forall x y : A, eqb x y = true <-> x = y) ->
    forall (old new : lookup A) (os oe ns ne : nat),
      (forall i, os <= i < oe -> exists x, old i = Some x) ->
      (forall j, ns <= j < ne -> exists y, new j = Some y) ->
      forall oids nids : list nat,
        identify_distinct (cmp_same eqb old) (cmp_same eqb new) (cmp_of eqb old new) os oe ns ne
          = Ok (oids, nids) ->
        rgs 0 (oids ++ nids).
Proof. exact identify_first_seen. Qed.
Print Assumptions c20_identify_first_seen.

(* ... which means: a first occurrence gets the next unused number, *)
Theorem c20_rgs_fresh : forall (l1 : list nat) (x : nat) (l2 : list nat),
  rgs 0 (l1 ++ x :: l2) -> ~ In x l1 -> x = rgs_next 0 l1.
Proof. exact rgs_fresh. Qed.
Print Assumptions c20_rgs_fresh.

(* the numbers used before it are exactly 0 .. rgs_next-1, *)
Theorem c20_rgs_covers : forall (l : list nat) (n : nat),
  rgs n l -> forall v, n <= v < rgs_next n l -> In v l.
Proof. exact rgs_covers. Qed.
Print Assumptions c20_rgs_covers.

Theorem c20_rgs_next_bound : forall (l : list nat) (n x : nat), In x l -> x < rgs_next n l.
Proof. exact rgs_next_bound. Qed.
Print Assumptions c20_rgs_next_bound.

(* relabelling by an injective map: same oracles on all index pairs (axiom free) *)
Theorem c20_relabel_oracles_pointwise :
  forall (A B : Type) (eqbA : A -> A -> bool) (eqbB : B -> B -> bool),
    (forall x y : A, eqbA x y = true <-> x = y) ->
    (forall x y : B, eqbB x y = true <-> x = y) ->
    forall f : A -> B,
      (forall x y : A, f x = f y -> x = y) ->
      forall old new : list A,
        let orcB := oracles_of_items eqbB (slice_lookup (map f old)) (slice_lookup (map f new)) in
        let orcA := oracles_of_items eqbA (slice_lookup old) (slice_lookup new) in
        (forall i j, o_on orcB i j = o_on orcA i j) /\
        (forall i i', o_oo orcB i i' = o_oo orcA i i') /\
        (forall j j', o_nn orcB j j' = o_nn orcA j j').
Proof. exact relabel_oracles_pointwise. Qed.
Print Assumptions c20_relabel_oracles_pointwise.

(* same ids (axiom free) *)
Theorem c20_relabel_identify :
  forall (A B : Type) (eqbA : A -> A -> bool) (eqbB : B -> B -> bool),
    (forall x y : A, eqbA x y = true <-> x = y) ->
    (forall x y : B, eqbB x y = true <-> x = y) ->
    forall f : A -> B,
      (forall x y : A, f x = f y -> x = y) ->
      forall (old new : list A) (os oe ns ne : nat),
        let orcB := oracles_of_items eqbB (slice_lookup (map f old)) (slice_lookup (map f new)) in
        let orcA := oracles_of_items eqbA (slice_lookup old) (slice_lookup new) in
        identify_distinct (o_oo orcB) (o_nn orcB) (o_on orcB) os oe ns ne =
        identify_distinct (o_oo orcA) (o_nn orcA) (o_on orcA) os oe ns ne.
Proof. exact relabel_identify. Qed.
Print Assumptions c20_relabel_identify.

(* same ops and counters (functional extensionality) *)
Theorem c20_relabel_capture_diff :
  forall (A B : Type) (eqbA : A -> A -> bool) (eqbB : B -> B -> bool),
    (forall x y : A, eqbA x y = true <-> x = y) ->
    (forall x y : B, eqbB x y = true <-> x = y) ->
    forall f : A -> B,
      (forall x y : A, f x = f y -> x = y) ->
      forall (old new : list A) (alg : algorithm) (dl : deadline) (dbg repair : bool)
             (os oe ns ne : nat),
        capture_diff alg dl dbg repair
          (oracles_of_items eqbB (slice_lookup (map f old)) (slice_lookup (map f new))) os oe ns ne =
        capture_diff alg dl dbg repair
          (oracles_of_items eqbA (slice_lookup old) (slice_lookup new)) os oe ns ne.
Proof. exact relabel_capture_diff. Qed.
Print Assumptions c20_relabel_capture_diff.

(* same raw hook trace (functional extensionality) *)
Theorem c20_relabel_raw_trace :
  forall (A B : Type) (eqbA : A -> A -> bool) (eqbB : B -> B -> bool),
    (forall x y : A, eqbA x y = true <-> x = y) ->
    (forall x y : B, eqbB x y = true <-> x = y) ->
    forall f : A -> B,
      (forall x y : A, f x = f y -> x = y) ->
      forall (old new : list A) (alg : algorithm) (dl : deadline) (dbg : bool) (os oe ns ne : nat),
        raw_trace alg dl dbg
          (oracles_of_items eqbB (slice_lookup (map f old)) (slice_lookup (map f new))) os oe ns ne =
        raw_trace alg dl dbg
          (oracles_of_items eqbA (slice_lookup old) (slice_lookup new)) os oe ns ne.
Proof. exact relabel_raw_trace. Qed.
Print Assumptions c20_relabel_raw_trace.

(* same text diff, including the 100-token switch (functional extensionality) *)
Theorem c20_relabel_textdiff_ops :
  forall (A B : Type) (eqbA : A -> A -> bool) (eqbB : B -> B -> bool),
    (forall x y : A, eqbA x y = true <-> x = y) ->
    (forall x y : B, eqbB x y = true <-> x = y) ->
    forall f : A -> B,
      (forall x y : A, f x = f y -> x = y) ->
      forall (old new : list A) (alg : algorithm) (dl : deadline) (dbg repair : bool),
        textdiff_ops alg dl dbg repair
          (oracles_of_items eqbB (slice_lookup (map f old)) (slice_lookup (map f new)))
          (length (map f old)) (length (map f new)) =
        textdiff_ops alg dl dbg repair
          (oracles_of_items eqbA (slice_lookup old) (slice_lookup new)) (length old) (length new).
Proof. exact relabel_textdiff_ops. Qed.
Print Assumptions c20_relabel_textdiff_ops.

(* str vs bytes: equal item lists give equal diffs (the agreement of the two
   tokenizers on valid UTF-8 is proved elsewhere) *)
Theorem c20_str_bytes_same_ops :
  forall (A : Type) (eqb : A -> A -> bool) (olds news olds' news' : list A)
         (alg : algorithm) (dl : deadline) (dbg repair : bool),
    olds = olds' -> news = news' ->
    textdiff_ops alg dl dbg repair
      (oracles_of_items eqb (slice_lookup olds) (slice_lookup news)) (length olds) (length news) =
    textdiff_ops alg dl dbg repair
      (oracles_of_items eqb (slice_lookup olds') (slice_lookup news')) (length olds') (length news').
Proof. exact str_bytes_same_ops. Qed.
Print Assumptions c20_str_bytes_same_ops.

(* relabelling by f x = 3*x+7 (injective, not the identity), Patience *)
Example c20_relabel_instance :
  let f := fun x : nat => 3 * x + 7 in
  let old := [1; 2; 3; 4; 5; 2; 6] in
  let new := [1; 3; 2; 4; 7; 5; 6; 6] in
  let orcA := oracles_of_items Nat.eqb (slice_lookup old) (slice_lookup new) in
  let orcB := oracles_of_items Nat.eqb (slice_lookup (map f old)) (slice_lookup (map f new)) in
  let ops := [Equal 0 0 1; Delete 1 1 1; Equal 2 1 1; Insert 3 2 1; Equal 3 3 1; Insert 4 4 1;
              Equal 4 5 1; Delete 5 1 7; Equal 6 6 1; Insert 6 7 1] in
  let c := {| probes := 0; cmps := 32; expired := false; post_cmps := 0 |} in
  capture_diff Patience None false false orcB 0 7 0 8 = Ok (ops, c) /\
  capture_diff Patience None false false orcA 0 7 0 8 = Ok (ops, c) /\
  raw_trace Patience None false orcB 0 7 0 8 = raw_trace Patience None false orcA 0 7 0 8 /\
  identify_distinct (o_oo orcB) (o_nn orcB) (o_on orcB) 0 7 0 8
    = Ok ([0; 1; 2; 3; 4; 1; 5], [0; 2; 1; 3; 6; 4; 5; 5]) /\
  identify_distinct (o_oo orcA) (o_nn orcA) (o_on orcA) 0 7 0 8
    = Ok ([0; 1; 2; 3; 4; 1; 5], [0; 2; 1; 3; 6; 4; 5; 5]).
Proof. vm_compute. repeat split. Qed.
