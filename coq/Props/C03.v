(* Props/C03.v — C03: Myers and LCS report a shortest edit script. *)
From Similar Require Import Model.Base Model.Utils Model.Myers Model.Lcs Model.Hooks Model.Capture
  Spec.Script Spec.SnakeSpec Check.Script Proofs.LcsLen Proofs.Main.

Theorem c03_myers_minimal :
  forall (cmp : cmpf) (os oe ns ne : nat) (w0 w1 : plain) (cs : list call) (L : nat),
    os <= oe -> ns <= ne -> CmpTotal cmp os oe ns ne ->
    myers_diff (plain_world None) cmp os oe ns ne w0 = Ok w1 ->
    plain_calls w1 = plain_calls w0 ++ cs ->
    IsLcsLen cmp os oe ns ne L ->
    deleted (capture_calls cs) + inserted (capture_calls cs) + 2 * L = (oe - os) + (ne - ns).
Proof. exact myers_raw_minimal. Qed.
Print Assumptions c03_myers_minimal.

Theorem c03_lcs_minimal :
  forall (cmp : cmpf) (os oe ns ne : nat) (w0 w1 : plain) (cs : list call) (L : nat),
    os <= oe -> ns <= ne ->
    lcs_diff (plain_world None) cmp os oe ns ne w0 = Ok w1 ->
    plain_calls w1 = plain_calls w0 ++ cs ->
    IsLcsLen cmp os oe ns ne L ->
    deleted (capture_calls cs) + inserted (capture_calls cs) + 2 * L = (oe - os) + (ne - ns).
Proof. exact lcs_raw_minimal. Qed.
Print Assumptions c03_lcs_minimal.

(* no valid script is cheaper *)
Theorem c03_cost_lower_bound :
  forall (cmp : cmpf) (os oe ns ne : nat) (cs : list call) (L : nat),
    RawStrong cmp os oe ns ne cs -> IsLcsLen cmp os oe ns ne L ->
    (oe - os) + (ne - ns) <= deleted (capture_calls cs) + inserted (capture_calls cs) + 2 * L.
Proof. exact raw_cost_lower. Qed.
Print Assumptions c03_cost_lower_bound.

(* the optimum the checker compares with is the LCS length *)
Theorem c03_lcs_len_correct :
  forall (cmp : cmpf) (os oe ns ne : nat), IsLcsLen cmp os oe ns ne (lcs_len cmp os oe ns ne).
Proof. exact lcs_len_correct. Qed.
Print Assumptions c03_lcs_len_correct.

Example c03_instance :
  let old := [1; 2; 3; 1; 2; 2; 1] in
  let new := [3; 2; 1; 2; 1; 3] in
  let cmp := cmp_of Nat.eqb (slice_lookup old) (slice_lookup new) in
  lcs_len cmp 0 7 0 6 = 4 /\
  match myers_diff (plain_world None) cmp 0 7 0 6 plain0 with
  | Ok w => deleted (capture_calls (plain_calls w)) + inserted (capture_calls (plain_calls w)) = 5
  | _ => False
  end.
Proof. vm_compute. split; reflexivity. Qed.
