(* Props/C11.v — C11: every captured op carries exact positions.
   The pinned pipeline VIOLATES this (finding F5: after Compact swaps a Delete
   with an adjacent Insert the carried indices are stale); the witness is
   c11_refuted.  With the verification-only swap-repair switch the pipeline is
   exact for every input, clock and build mode (c11_exact_repaired), which is
   what the check uses to attribute a failing case to F5: a case is the known
   finding iff it passes with the switch on. *)
From Similar Require Import Model.Base Model.Utils Model.Myers Model.Hooks Model.Compact Model.Capture
  Spec.Script Spec.SnakeSpec Check.Script Proofs.CheckScript Proofs.Replace Proofs.Compact Proofs.Pipeline.

Theorem c11_exact_repaired :
  forall (alg : algorithm) (dl : deadline) (dbg : bool) (orc : oracles) (os oe ns ne : nat) (ops : list op) (c : ctr),
    alg <> Patience -> os <= oe -> ns <= ne -> CmpTotal (o_on orc) os oe ns ne ->
    capture_diff alg dl dbg true orc os oe ns ne = Ok (ops, c) ->
    OpsExact (o_on orc) os oe ns ne ops.
Proof. exact capture_exact_repaired. Qed.
Print Assumptions c11_exact_repaired.

(* outside the known class: whenever the pinned pipeline and the repaired one
   agree, the pinned output is exact *)
Theorem c11_exact_outside_known_class :
  forall (alg : algorithm) (dl : deadline) (dbg : bool) (orc : oracles) (os oe ns ne : nat) (ops : list op) (c : ctr),
    alg <> Patience -> os <= oe -> ns <= ne -> CmpTotal (o_on orc) os oe ns ne ->
    capture_diff alg dl dbg false orc os oe ns ne = Ok (ops, c) ->
    capture_diff alg dl dbg true orc os oe ns ne = capture_diff alg dl dbg false orc os oe ns ne ->
    OpsExact (o_on orc) os oe ns ne ops.
Proof.
  intros alg dl dbg orc os oe ns ne ops c Ha Ho Hn Ht Hf He. rewrite <- He in Hf.
  exact (capture_exact_repaired alg dl dbg orc os oe ns ne ops c Ha Ho Hn Ht Hf).
Qed.
Print Assumptions c11_exact_outside_known_class.

(* Replace alone keeps exact indices exact; Compact with the switch too *)
Theorem c11_replace_exact :
  forall (cmp : cmpf) (os oe ns ne : nat) (body : list call),
    RawWalk cmp oe ne os ns os body ->
    OpsExact cmp os oe ns ne (capture_calls (replace_out body)).
Proof. intros cmp os oe ns ne body H. exact (proj1 (proj2 (replace_out_spec cmp os oe ns ne body H))). Qed.
Print Assumptions c11_replace_exact.

Theorem c11_compact_exact_repaired :
  forall (cmp : cmpf) (os oe ns ne : nat) (ops ops' : list op),
    OpsWalk cmp true oe ne os ns ops -> Forall NonEmptyOp ops ->
    Forall (fun x => op_tag x <> TReplace) ops ->
    cleanup_diff_ops cmp true ops = Ok ops' -> OpsWalk cmp true oe ne os ns ops'.
Proof. exact compact_preserves_exact. Qed.
Print Assumptions c11_compact_exact_repaired.

Theorem c11_checker_reflects :
  forall (cmp : cmpf) (os oe ns ne : nat) (ops : list op),
    check_ops_exact cmp os oe ns ne ops = true <-> OpsExact cmp os oe ns ne ops.
Proof. exact check_ops_exact_spec. Qed.
Print Assumptions c11_checker_reflects.

(* the finding: the pinned pipeline is not exact on old = [b;a], new = [a;a] *)
Theorem c11_refuted :
  exists (old new : list nat),
    let orc := {| o_on := cmp_of Nat.eqb (slice_lookup old) (slice_lookup new);
                  o_oo := cmp_same Nat.eqb (slice_lookup old); o_nn := cmp_same Nat.eqb (slice_lookup new) |} in
    exists ops c, capture_diff Myers None false false orc 0 (length old) 0 (length new) = Ok (ops, c) /\
                  ~ OpsExact (o_on orc) 0 (length old) 0 (length new) ops.
Proof.
  exists [2; 1], [1; 1]. cbn zeta.
  eexists. eexists. split; [vm_compute; reflexivity|].
  intros H. apply check_ops_exact_spec in H. vm_compute in H. discriminate.
Qed.
Print Assumptions c11_refuted.
