(* Props/C14.v — property C14: a text diff is the sequence diff of its tokens;
   the integer mapping IdentifyDistinct.  Statements only.
   ("algorithm reported" is not a model-level fact: the harness checks it.) *)
From Coq Require Import NArith.
From Similar Require Import Model.Base Model.Utils Model.Capture Model.TextDiff Proofs.Identify.

(* IdentifyDistinct::new never panics in bounds and returns one id per item *)
Theorem c14_identify_ok :
  forall (A : Type) (eqb : A -> A -> bool),
    (forall x y : A, eqb x y = true <-> x = y) ->
    forall (old new : lookup A) (os oe ns ne : nat),
      (forall i, os <= i < oe -> exists x, old i = Some x) ->
      (forall j, ns <= j < ne -> exists y, new j = Some y) ->
      exists oids nids : list nat,
        identify_distinct (cmp_same eqb old) (cmp_same eqb new) (cmp_of eqb old new) os oe ns ne
          = Ok (oids, nids) /\
        length oids = oe - os /\ length nids = ne - ns.
Proof. exact identify_ok. Qed.
Print Assumptions c14_identify_ok.

(* equal ids <-> equal items, within and across the two sides *)
Theorem c14_identify_iff_eq :
  forall (A : Type) (eqb : A -> A -> bool),
    (forall x y : A, eqb x y = true <-> x = y) ->
    forall (old new : lookup A) (os oe ns ne : nat),
      (forall i, os <= i < oe -> exists x, old i = Some x) ->
      (forall j, ns <= j < ne -> exists y, new j = Some y) ->
      forall oids nids : list nat,
        identify_distinct (cmp_same eqb old) (cmp_same eqb new) (cmp_of eqb old new) os oe ns ne
          = Ok (oids, nids) ->
        (forall a a', a < oe - os -> a' < oe - os ->
           (nth a oids 0 = nth a' oids 0 <-> old (os + a) = old (os + a'))) /\
        (forall b b', b < ne - ns -> b' < ne - ns ->
           (nth b nids 0 = nth b' nids 0 <-> new (ns + b) = new (ns + b'))) /\
        (forall a b, a < oe - os -> b < ne - ns ->
           (nth a oids 0 = nth b nids 0 <-> old (os + a) = new (ns + b))).
Proof. exact identify_iff_eq. Qed.
Print Assumptions c14_identify_iff_eq.

(* old_range()/new_range() and the domain of the OffsetLookups *)
Theorem c14_identify_ranges :
  forall (A : Type) (eqb : A -> A -> bool),
    (forall x y : A, eqb x y = true <-> x = y) ->
    forall (old new : lookup A) (os oe ns ne : nat),
      (forall i, os <= i < oe -> exists x, old i = Some x) ->
      (forall j, ns <= j < ne -> exists y, new j = Some y) ->
      forall oids nids : list nat,
        identify_distinct (cmp_same eqb old) (cmp_same eqb new) (cmp_of eqb old new) os oe ns ne
          = Ok (oids, nids) ->
        os + length oids = Nat.max os oe /\
        ns + length nids = Nat.max ns ne /\
        (os <= oe -> os + length oids = oe) /\
        (ns <= ne -> ns + length nids = ne) /\
        (forall i, (exists v, offset_lookup os oids i = Some v) <-> os <= i < oe) /\
        (forall j, (exists v, offset_lookup ns nids j = Some v) <-> ns <= j < ne).
Proof. exact identify_ranges. Qed.
Print Assumptions c14_identify_ranges.

Theorem c14_offset_lookup_some :
  forall (A : Type) (off : nat) (l : list A) (i : nat),
    (exists x, offset_lookup off l i = Some x) <-> off <= i < off + length l.
Proof. exact offset_lookup_some. Qed.
Print Assumptions c14_offset_lookup_some.

(* comparing ids = comparing items, any offsets, in range *)
Theorem c14_identify_oracles_in_range :
  forall (A : Type) (eqb : A -> A -> bool),
    (forall x y : A, eqb x y = true <-> x = y) ->
    forall (old new : lookup A) (os oe ns ne : nat),
      (forall i, os <= i < oe -> exists x, old i = Some x) ->
      (forall j, ns <= j < ne -> exists y, new j = Some y) ->
      forall oids nids : list nat,
        identify_distinct (cmp_same eqb old) (cmp_same eqb new) (cmp_of eqb old new) os oe ns ne
          = Ok (oids, nids) ->
        (forall i j, os <= i < oe -> ns <= j < ne ->
           cmp_of Nat.eqb (offset_lookup os oids) (offset_lookup ns nids) i j = cmp_of eqb old new i j) /\
        (forall i i', os <= i < oe -> os <= i' < oe ->
           cmp_same Nat.eqb (offset_lookup os oids) i i' = cmp_same eqb old i i') /\
        (forall j j', ns <= j < ne -> ns <= j' < ne ->
           cmp_same Nat.eqb (offset_lookup ns nids) j j' = cmp_same eqb new j j').
Proof. exact identify_oracles_in_range. Qed.
Print Assumptions c14_identify_oracles_in_range.

(* whole slices from 0: the oracles agree on ALL index pairs (axiom free) *)
Theorem c14_identify_oracles_pointwise :
  forall (A : Type) (eqb : A -> A -> bool),
    (forall x y : A, eqb x y = true <-> x = y) ->
    forall (olds news : list A) (oids nids : list nat),
      let orc := oracles_of_items eqb (slice_lookup olds) (slice_lookup news) in
      identify_distinct (o_oo orc) (o_nn orc) (o_on orc) 0 (length olds) 0 (length news)
        = Ok (oids, nids) ->
      let orc' := oracles_of_items Nat.eqb (offset_lookup 0 oids) (offset_lookup 0 nids) in
      (forall i j, o_on orc' i j = o_on orc i j) /\
      (forall i i', o_oo orc' i i' = o_oo orc i i') /\
      (forall j j', o_nn orc' j j' = o_nn orc j j').
Proof. exact identify_oracles_pointwise. Qed.
Print Assumptions c14_identify_oracles_pointwise.

Theorem c14_bytes_eqb_spec : forall a b : list N, bytes_eqb a b = true <-> a = b.
Proof. exact bytes_eqb_spec. Qed.
Print Assumptions c14_bytes_eqb_spec.

(* the text diff equals the token diff, both branches of the 100-token switch
   (uses functional extensionality to equate the oracle functions) *)
Theorem c14_textdiff_eq_tokens_diff :
  forall (olds news : list (list N)) (alg : algorithm) (dl : deadline) (dbg repair : bool),
    let orc := oracles_of_items bytes_eqb (slice_lookup olds) (slice_lookup news) in
    textdiff_ops alg dl dbg repair orc (length olds) (length news) =
    capture_diff alg dl dbg repair orc 0 (length olds) 0 (length news).
Proof. exact textdiff_eq_tokens_diff. Qed.
Print Assumptions c14_textdiff_eq_tokens_diff.

Theorem c14_textdiff_eq_tokens_diff_gen :
  forall (A : Type) (eqb : A -> A -> bool),
    (forall x y : A, eqb x y = true <-> x = y) ->
    forall (olds news : list A) (alg : algorithm) (dl : deadline) (dbg repair : bool),
      textdiff_ops alg dl dbg repair
        (oracles_of_items eqb (slice_lookup olds) (slice_lookup news)) (length olds) (length news) =
      capture_diff alg dl dbg repair
        (oracles_of_items eqb (slice_lookup olds) (slice_lookup news)) 0 (length olds) 0 (length news).
Proof. exact textdiff_eq_tokens_diff_gen. Qed.
Print Assumptions c14_textdiff_eq_tokens_diff_gen.

(* at most 100 tokens on both sides: by definition, any oracles, no axiom *)
Theorem c14_textdiff_small_branch :
  forall (alg : algorithm) (dl : deadline) (dbg repair : bool) (orc : oracles) (olen nlen : nat),
    olen <= 100 -> nlen <= 100 ->
    textdiff_ops alg dl dbg repair orc olen nlen = capture_diff alg dl dbg repair orc 0 olen 0 nlen.
Proof. exact textdiff_small_branch. Qed.
Print Assumptions c14_textdiff_small_branch.

Theorem c14_newline_flag_spec : forall (ov : option bool) (is_lines : bool),
  newline_flag ov is_lines = match ov with Some b => b | None => is_lines end.
Proof. exact newline_flag_spec. Qed.
Print Assumptions c14_newline_flag_spec.

(* the crate's own test vector (utils.rs, test_int_hasher):
   old = ["", "foo", "bar", "baz"] 1..4, new = ["", "foo", "blah", "baz"] 1..4 *)
Example c14_test_int_hasher :
  let olds : list (list N) := [[]; [102; 111; 111]; [98; 97; 114]; [98; 97; 122]]%N in
  let news : list (list N) := [[]; [102; 111; 111]; [98; 108; 97; 104]; [98; 97; 122]]%N in
  let orc := oracles_of_items bytes_eqb (slice_lookup olds) (slice_lookup news) in
  identify_distinct (o_oo orc) (o_nn orc) (o_on orc) 1 4 1 4 = Ok ([0; 1; 2], [0; 3; 2]) /\
  offset_lookup 1 [0; 1; 2] 0 = None /\
  map (offset_lookup 1 [0; 1; 2]) [1; 2; 3; 4] = [Some 0; Some 1; Some 2; None] /\
  map (offset_lookup 1 [0; 3; 2]) [1; 2; 3; 4] = [Some 0; Some 3; Some 2; None].
Proof. vm_compute. repeat split. Qed.

(* the large branch on a concrete input: 103 vs 102 tokens *)
Example c14_large_branch_instance :
  let tok (k : nat) : list N := [N.of_nat (k mod 7); N.of_nat (k mod 5)] in
  let olds := map tok (seq 0 103) in
  let news := map tok (seq 0 40 ++ seq 43 30 ++ [3; 3] ++ seq 73 30) in
  let orc := oracles_of_items bytes_eqb (slice_lookup olds) (slice_lookup news) in
  (length olds, length news) = (103, 102) /\
  forall alg, In alg [Myers; Patience; Lcs] ->
    textdiff_ops alg None false false orc 103 102 = capture_diff alg None false false orc 0 103 0 102.
Proof.
  cbv zeta. split; [vm_compute; reflexivity|].
  intros alg [<- | [<- | [<- | []]]]; vm_compute; reflexivity.
Qed.
