(* Props/C01.v — C01: every algorithm emits a sound, gap-free, index-exact edit
   script; no panic.  Only pinned statements, each closed by [exact]. *)
From Similar Require Import Model.Base Model.Utils Model.Myers Model.Lcs Model.Hooks Model.Patience Model.Capture
  Spec.Script Spec.SnakeSpec Check.Script Proofs.CheckScript Proofs.MyersSnake Proofs.Lcs Proofs.Main
  Proofs.Unique Proofs.Patience.
From Similar Require Import Model.TextDiff Proofs.Shift.

(* Myers: for EVERY clock (deadline expiring at any probe or never), on any
   in-bounds ranges, the calls seen by a recording hook are a strong raw walk,
   hence satisfy the property's run-relative reading, and finish is last. *)
Theorem c01_myers_valid :
  forall (cmp : cmpf) (dl : deadline) (os oe ns ne : nat) (w0 w1 : plain),
    os <= oe -> ns <= ne -> CmpTotal cmp os oe ns ne ->
    myers_diff (plain_world dl) cmp os oe ns ne w0 = Ok w1 ->
    exists cs, plain_calls w1 = plain_calls w0 ++ cs /\
               RawStrong cmp os oe ns ne cs /\ RawValid cmp os oe ns ne cs /\ FinishLast cs.
Proof. exact myers_raw_valid. Qed.
Print Assumptions c01_myers_valid.

(* Myers never panics and terminates within the model's fuel *)
Theorem c01_myers_no_panic :
  forall (cmp : cmpf) (dl : deadline) (os oe ns ne : nat) (w0 : plain),
    os <= oe -> ns <= ne -> CmpTotal cmp os oe ns ne ->
    exists w1, myers_diff (plain_world dl) cmp os oe ns ne w0 = Ok w1.
Proof. exact myers_raw_no_panic. Qed.
Print Assumptions c01_myers_no_panic.

(* the middle-snake search itself: never panics on a stripped box, returns a
   point inside the box that is neither corner and splits the optimal cost *)
Theorem c01_snake_spec : forall (W : Type) (wd : world W) (cmp : cmpf), SnakeSpec wd cmp.
Proof. exact snake_spec. Qed.
Print Assumptions c01_snake_spec.

Theorem c01_lcs_valid :
  forall (cmp : cmpf) (dl : deadline) (os oe ns ne : nat) (w0 w1 : plain),
    os <= oe -> ns <= ne ->
    lcs_diff (plain_world dl) cmp os oe ns ne w0 = Ok w1 ->
    exists cs, plain_calls w1 = plain_calls w0 ++ cs /\
               RawStrong cmp os oe ns ne cs /\ RawValid cmp os oe ns ne cs /\ FinishLast cs.
Proof. exact lcs_raw_valid. Qed.
Print Assumptions c01_lcs_valid.

Theorem c01_lcs_no_panic :
  forall (cmp : cmpf) (dl : deadline) (os oe ns ne : nat) (w0 : plain),
    os <= oe -> ns <= ne ->
    (forall i j, os <= i < oe -> ns <= j < ne -> exists b, cmp i j = Ok b) ->
    exists w1, lcs_diff (plain_world dl) cmp os oe ns ne w0 = Ok w1.
Proof. exact lcs_no_panic. Qed.
Print Assumptions c01_lcs_no_panic.

(* Patience, for every clock, both build modes (debug assertions of the inner
   Replace adapter included) and with NO assumption relating the uniqueness
   oracles to the comparison oracle *)
Theorem c01_patience_valid :
  forall (dl : deadline) (dbg : bool) (cmp oo nn : cmpf) (os oe ns ne : nat) (w0 w1 : plain),
    os <= oe -> ns <= ne -> CmpTotal cmp os oe ns ne ->
    patience_diff (plain_world dl) dbg cmp oo nn os oe ns ne w0 = Ok w1 ->
    exists cs, plain_calls w1 = plain_calls w0 ++ cs /\ RawStrong cmp os oe ns ne cs.
Proof. exact patience_valid. Qed.
Print Assumptions c01_patience_valid.

Theorem c01_patience_no_panic :
  forall (dl : deadline) (dbg : bool) (cmp oo nn : cmpf) (os oe ns ne : nat) (w0 : plain),
    os <= oe -> ns <= ne -> CmpTotal cmp os oe ns ne ->
    SameTotal oo os oe -> SameTotal nn ns ne ->
    exists w1, patience_diff (plain_world dl) dbg cmp oo nn os oe ns ne w0 = Ok w1.
Proof. exact patience_no_panic. Qed.
Print Assumptions c01_patience_no_panic.

(* the strong walk the algorithms guarantee implies the property's reading *)
Theorem c01_strong_implies_spec :
  forall (cmp : cmpf) (os oe ns ne : nat) (cs : list call),
    RawStrong cmp os oe ns ne cs -> RawValid cmp os oe ns ne cs.
Proof. exact RawStrong_valid. Qed.
Print Assumptions c01_strong_implies_spec.

(* replaying the callbacks on the old range reproduces the new range *)
Theorem c01_raw_replay :
  forall (A : Type) (eqb : A -> A -> bool), (forall x y, eqb x y = true -> x = y) ->
  forall (old new : list A) (os oe ns ne : nat) (cs : list call),
    ns <= ne ->
    RawStrong (cmp_of eqb (slice_lookup old) (slice_lookup new)) os oe ns ne cs ->
    apply_ops old new (capture_calls cs) = seg new ns (ne - ns).
Proof. exact @raw_replay. Qed.
Print Assumptions c01_raw_replay.

(* the extracted checker run on the implementation's call logs decides RawValid *)
Theorem c01_checker_reflects :
  forall (cmp : cmpf) (os oe ns ne : nat) (cs : list call),
    check_raw cmp os oe ns ne cs = true <-> RawValid cmp os oe ns ne cs.
Proof. exact check_raw_spec. Qed.
Print Assumptions c01_checker_reflects.

(* non-vacuity: a concrete diff evaluated inside Coq *)
Example c01_instance :
  let old := [1; 2; 3; 1; 2; 2; 1] in
  let new := [3; 2; 1; 2; 1; 3] in
  let cmp := cmp_of Nat.eqb (slice_lookup old) (slice_lookup new) in
  match myers_diff (plain_world None) cmp 0 7 0 6 plain0 with
  | Ok w => check_raw cmp 0 7 0 6 (plain_calls w) = true /\ length (plain_calls w) = 8
  | _ => False
  end.
Proof. vm_compute. split; reflexivity. Qed.

(* ---------------------------------------------------------------------- *)
(* diffing a sub-range equals diffing the extracted slices shifted by the  *)
(* range starts (Proofs/Shift.v): all algorithms, every clock, both build *)
(* modes; equal Ok / Panic / OutOfFuel outcomes and equal counters.        *)
(* shift_orc looks every index up at +os / +ns; shift_call / shift_op add  *)
(* os to old indices and ns to new indices.                                *)
(* ---------------------------------------------------------------------- *)
Theorem c01_raw_shift :
  forall (alg : algorithm) (dl : deadline) (dbg : bool) (orc : oracles) (os oe ns ne : nat),
    os <= oe -> ns <= ne ->
    raw_trace alg dl dbg orc os oe ns ne =
    (do '(calls, c) <- raw_trace alg dl dbg (shift_orc orc os ns) 0 (oe - os) 0 (ne - ns);
     Ok (map (shift_call os ns) calls, c)).
Proof. exact raw_shift. Qed.
Print Assumptions c01_raw_shift.

(* on item lists: the oracles of the lists cut at the range starts *)
Theorem c01_raw_shift_slices :
  forall (A : Type) (eqb : A -> A -> bool) (old new : list A) (alg : algorithm) (dl : deadline)
         (dbg : bool) (os oe ns ne : nat),
    os <= oe -> ns <= ne ->
    raw_trace alg dl dbg (oracles_of_items eqb (slice_lookup old) (slice_lookup new)) os oe ns ne =
    (do '(calls, c) <- raw_trace alg dl dbg
                         (oracles_of_items eqb (slice_lookup (skipn os old)) (slice_lookup (skipn ns new)))
                         0 (oe - os) 0 (ne - ns);
     Ok (map (shift_call os ns) calls, c)).
Proof. exact @raw_shift_slices. Qed.
Print Assumptions c01_raw_shift_slices.

(* ... and through the capture pipeline (Compact + Replace) *)
Theorem c01_capture_shift :
  forall (alg : algorithm) (dl : deadline) (dbg repair : bool) (orc : oracles) (os oe ns ne : nat),
    os <= oe -> ns <= ne ->
    capture_diff alg dl dbg repair orc os oe ns ne =
    (do '(ops, c) <- capture_diff alg dl dbg repair (shift_orc orc os ns) 0 (oe - os) 0 (ne - ns);
     Ok (map (shift_op os ns) ops, c)).
Proof. exact capture_shift. Qed.
Print Assumptions c01_capture_shift.
