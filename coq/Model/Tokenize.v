(* Model/Tokenize.v — src/text/abstraction.rs: the str and [u8] implementations
   of tokenize_lines, tokenize_lines_and_newlines, tokenize_words,
   tokenize_chars, ends_with_newline.  A token is a pair (start, end) of byte
   offsets into the input.  Executable definitions only. *)
From Coq Require Import NArith.
From Similar Require Import Model.Base Model.Utf8.

Definition token : Type := (nat * nat)%type.

(* ------------------------------------------------------------ [u8] (bstr) *)
(* while let Some((_, end, c)) = iter.next() { ... peek ... } *)
Fixpoint lines_bytes (cs : list dchar) (last_pos : nat) (total : nat) : list token :=
  match cs with
  | [] => if last_pos <? total then [(last_pos, total)] else []
  | c :: r =>
      if N.eqb (dc_cp c) 13 then
        match r with
        | c2 :: r2 =>
            if N.eqb (dc_cp c2) 10 then
              (* lines.push(&self[last_pos..end + 1]); iter.next(); last_pos = end + 1 *)
              (last_pos, dc_end c + 1) :: lines_bytes r2 (dc_end c + 1) total
            else (last_pos, dc_end c) :: lines_bytes r (dc_end c) total
        | [] => (last_pos, dc_end c) :: lines_bytes r (dc_end c) total
        end
      else if N.eqb (dc_cp c) 10 then (last_pos, dc_end c) :: lines_bytes r (dc_end c) total
      else lines_bytes r last_pos total
  end.

Definition tokenize_lines_bytes (bs : list N) : list token :=
  lines_bytes (decode bs) 0 (length bs).

(* runs of chars with the same class; the run starts at `start`, currently ends at `e` *)
Fixpoint run_bytes (cls : N -> bool) (k : bool) (cs : list dchar) (e : nat) : nat * list dchar :=
  match cs with
  | [] => (e, [])
  | c :: r => if Bool.eqb (cls (dc_cp c)) k then run_bytes cls k r (dc_end c) else (e, cs)
  end.

Fixpoint runs_bytes (fuel : nat) (cls : N -> bool) (cs : list dchar) : list token :=
  match fuel with
  | O => []
  | S fuel' =>
      match cs with
      | [] => []
      | c :: r =>
          let '(e, rest) := run_bytes cls (cls (dc_cp c)) r (dc_end c) in
          (dc_start c, e) :: runs_bytes fuel' cls rest
      end
  end.

Definition tokenize_lines_and_newlines_bytes (bs : list N) : list token :=
  let cs := decode bs in runs_bytes (length cs) is_newline_cp cs.
Definition tokenize_words_bytes (bs : list N) : list token :=
  let cs := decode bs in runs_bytes (length cs) is_whitespace cs.
Definition tokenize_chars_bytes (bs : list N) : list token :=
  map (fun c => (dc_start c, dc_end c)) (decode bs).

(* ------------------------------------------------------------ str *)
(* str::char_indices yields (idx, c); ends are computed as idx + c.len_utf8().
   Only meaningful on valid UTF-8 (a &str). *)
Fixpoint lines_str (cs : list dchar) (last_pos : nat) (total : nat) : list token :=
  match cs with
  | [] => if last_pos <? total then [(last_pos, total)] else []
  | c :: r =>
      if N.eqb (dc_cp c) 13 then
        match r with
        | c2 :: r2 =>
            if N.eqb (dc_cp c2) 10 then
              (* &self[last_pos..=idx + 1]; iter.next(); last_pos = idx + 2 *)
              (last_pos, dc_start c + 2) :: lines_str r2 (dc_start c + 2) total
            else (last_pos, dc_start c + 1) :: lines_str r (dc_start c + 1) total
        | [] => (last_pos, dc_start c + 1) :: lines_str r (dc_start c + 1) total
        end
      else if N.eqb (dc_cp c) 10 then (last_pos, dc_start c + 1) :: lines_str r (dc_start c + 1) total
      else lines_str r last_pos total
  end.

Definition tokenize_lines_str (bs : list N) : list token :=
  lines_str (decode bs) 0 (length bs).

Fixpoint run_str (cls : N -> bool) (k : bool) (cs : list dchar) (e : nat) : nat * list dchar :=
  match cs with
  | [] => (e, [])
  | c :: r => if Bool.eqb (cls (dc_cp c)) k then run_str cls k r (e + len_utf8 (dc_cp c)) else (e, cs)
  end.

Fixpoint runs_str (fuel : nat) (cls : N -> bool) (cs : list dchar) : list token :=
  match fuel with
  | O => []
  | S fuel' =>
      match cs with
      | [] => []
      | c :: r =>
          let '(e, rest) := run_str cls (cls (dc_cp c)) r (dc_start c + len_utf8 (dc_cp c)) in
          (dc_start c, e) :: runs_str fuel' cls rest
      end
  end.

Definition tokenize_lines_and_newlines_str (bs : list N) : list token :=
  let cs := decode bs in runs_str (length cs) is_newline_cp cs.
Definition tokenize_words_str (bs : list N) : list token :=
  let cs := decode bs in runs_str (length cs) is_whitespace cs.
Definition tokenize_chars_str (bs : list N) : list token :=
  map (fun c => (dc_start c, dc_start c + len_utf8 (dc_cp c))) (decode bs).

(* ------------------------------------------------------------ common *)
Definition tok_bytes (bs : list N) (t : token) : list N :=
  firstn (snd t - fst t) (skipn (fst t) bs).

(* ends_with_newline: last byte is \r or \n (same for str and [u8]) *)
Definition ends_with_newline (bs : list N) : bool :=
  match rev bs with
  | b :: _ => N.eqb b 13 || N.eqb b 10
  | [] => false
  end.

Inductive tokenizer : Type := TkLines | TkLinesNewlines | TkWords | TkChars.

Definition tokenize (bytes_mode : bool) (k : tokenizer) (bs : list N) : list token :=
  match k, bytes_mode with
  | TkLines, true => tokenize_lines_bytes bs
  | TkLines, false => tokenize_lines_str bs
  | TkLinesNewlines, true => tokenize_lines_and_newlines_bytes bs
  | TkLinesNewlines, false => tokenize_lines_and_newlines_str bs
  | TkWords, true => tokenize_words_bytes bs
  | TkWords, false => tokenize_words_str bs
  | TkChars, true => tokenize_chars_bytes bs
  | TkChars, false => tokenize_chars_str bs
  end.
