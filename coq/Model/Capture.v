(* Model/Capture.v — src/common.rs (capture_diff*, get_diff_ratio,
   group_diff_ops), src/algorithms/mod.rs (diff_deadline dispatch).
   Executable definitions only. *)
From Similar Require Import Model.Base Model.Utils Model.Myers Model.Lcs Model.Hooks
     Model.Patience Model.Compact.

Inductive algorithm : Type := Myers | Patience | Lcs.

(* the three comparison oracles an algorithm may use *)
Record oracles : Type := {
  o_on : cmpf;   (* new[j] == old[i] *)
  o_oo : cmpf;   (* old[i] == old[i'] *)
  o_nn : cmpf    (* new[j] == new[j'] *)
}.

(* algorithms::diff_deadline *)
Definition diff_deadline {W} (alg : algorithm) (wd : world W) (dbg : bool) (orc : oracles)
           (os oe ns ne : nat) (w : W) : res W :=
  match alg with
  | Myers => myers_diff wd (o_on orc) os oe ns ne w
  | Patience => patience_diff wd dbg (o_on orc) (o_oo orc) (o_nn orc) os oe ns ne w
  | Lcs => lcs_diff wd (o_on orc) os oe ns ne w
  end.

(* raw call sequence seen by a recording hook *)
Definition raw_trace (alg : algorithm) (dl : deadline) (dbg : bool) (orc : oracles)
           (os oe ns ne : nat) : res (list call * ctr) :=
  do w <- diff_deadline alg (plain_world dl) dbg orc os oe ns ne plain0;
  Ok (plain_calls w, p_ctr w).

(* capture_diff_deadline: Compact::new(Replace::new(Capture::new()), old, new) *)
Definition capture_world (dl : deadline) (dbg repair : bool) (orc : oracles)
  : world (list op * (rstate * plain)) :=
  compact_world (replace_world (plain_world dl) dbg) (o_on orc) repair.

Definition capture_diff (alg : algorithm) (dl : deadline) (dbg repair : bool) (orc : oracles)
           (os oe ns ne : nat) : res (list op * ctr) :=
  do '(_, (_, w)) <- diff_deadline alg (capture_world dl dbg repair orc) dbg orc os oe ns ne
                       ([], (rstate0, plain0));
  Ok (capture_calls (plain_calls w), p_ctr w).

(* get_diff_ratio as an exact fraction (numerator, denominator);
   (1, 1) stands for the "len == 0 => 1.0" branch *)
Definition equal_len (x : op) : nat := match x with Equal _ _ l => l | _ => 0 end.
Definition matches (ops : list op) : nat := fold_right (fun x a => equal_len x + a) 0 ops.
Definition diff_ratio (ops : list op) (old_len new_len : nat) : nat * nat :=
  let len := old_len + new_len in
  if len =? 0 then (1, 1) else (2 * matches ops, len).

(* group_diff_ops *)
Definition trim_first (ops : list op) (n : nat) : list op :=
  match ops with
  | Equal o nn l :: rest =>
      let offset := l - n in Equal (o + offset) (nn + offset) (l - offset) :: rest
  | _ => ops
  end.

Fixpoint trim_last (ops : list op) (n : nat) : list op :=
  match ops with
  | [] => []
  | [Equal o nn l] => [Equal o nn (l - (l - n))]
  | x :: rest => x :: trim_last rest n
  end.

(* pending and rv are kept reversed *)
Fixpoint group_loop (ops : list op) (n : nat) (pending : list op) (rv : list (list op))
  : list (list op) :=
  match ops with
  | [] =>
      match pending with
      | [] => rev rv
      | [Equal _ _ _] => rev rv
      | _ => rev (rev pending :: rv)
      end
  | x :: rest =>
      match x with
      | Equal o nn l =>
          if n * 2 <? l then
            let offset := l - n in
            group_loop rest n [Equal (o + offset) (nn + offset) (l - offset)]
                       (rev (Equal o nn n :: pending) :: rv)
          else group_loop rest n (x :: pending) rv
      | _ => group_loop rest n (x :: pending) rv
      end
  end.

Definition group_diff_ops (ops : list op) (n : nat) : list (list op) :=
  match ops with
  | [] => []
  | _ => group_loop (trim_last (trim_first ops n) n) n [] []
  end.
