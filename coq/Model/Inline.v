(* Model/Inline.v — src/text/inline.rs: MultiLookup, get_original_slices,
   push_values, iter_inline_changes; src/text/utils.rs upper_seq_ratio (as an
   exact comparison with MIN_RATIO = 0.5).  The word tokenizer is a parameter
   (with the `unicode` feature it is tokenize_unicode_words, an external
   segmentation replayed from the implementation).  Executable only. *)
From Coq Require Import NArith.
From Similar Require Import Model.Base Model.Utils Model.Myers Model.Hooks Model.Compact
     Model.Capture Model.Iter Model.Utf8 Model.Tokenize Model.TextDiff.

Record ichange : Type := {
  ic_tag : ctag; ic_old : option nat; ic_new : option nat;
  ic_vals : list (bool * list N)
}.

(* From<Change> for InlineChange *)
Definition plain_ichange (c : change (list N)) : ichange :=
  {| ic_tag := ch_tag c; ic_old := ch_old c; ic_new := ch_new c; ic_vals := [(false, ch_val c)] |}.

(* 2.0 * min(n, m) / (n + m) < 0.5, n + m = 0 giving 1.0.  Exact for sizes below 2^24. *)
Definition upper_ratio_below_half (n m : nat) : bool :=
  if n + m =? 0 then false else 4 * Nat.min n m <? n + m.
(* get_diff_ratio(ops, n, m) < 0.5 *)
Definition diff_ratio_below_half (ops : list op) (n m : nat) : bool :=
  if n + m =? 0 then false else 4 * matches ops <? n + m.

Section Inline.
  Variable words : list N -> list token.        (* the word tokenizer of MultiLookup::new *)
  Variable bytes_mode : bool.                   (* [u8] or str: selects tokenize_lines_and_newlines *)

  (* MultiLookup::new: (word, string_idx, offset) *)
  Definition seq_entry : Type := (list N * nat * nat)%type.

  Fixpoint words_of (s : list N) (toks : list token) (sidx offset : nat) : list seq_entry :=
    match toks with
    | [] => []
    | t :: r => let w := tok_bytes s t in (w, sidx, offset) :: words_of s r sidx (offset + length w)
    end.

  Fixpoint multi_seqs (strings : list (list N)) (sidx : nat) : list seq_entry :=
    match strings with
    | [] => []
    | s :: r => words_of s (words s) sidx 0 ++ multi_seqs r (S sidx)
    end.

  (* get_original_slices(idx, len) *)
  Fixpoint orig_slices (strings : list (list N)) (seqs : list seq_entry) (idx len : nat)
           (last : option (nat * nat * nat)) (rv : list (nat * list N))
    : res (list (nat * list N)) :=
    match len with
    | O =>
        match last with
        | Some (sidx, start, l) =>
            do s <- of_option (nth_error strings sidx);
            do sl <- slice_range s start (start + l);
            Ok (rev ((sidx, sl) :: rv))
        | None => Ok (rev rv)
        end
    | S len' =>
        do '(w, sidx, cidx) <- of_option (nth_error seqs idx);
        match last with
        | None => orig_slices strings seqs (S idx) len' (Some (sidx, cidx, length w)) rv
        | Some (lsidx, start, ll) =>
            if lsidx =? sidx then
              orig_slices strings seqs (S idx) len' (Some (sidx, start, ll + length w)) rv
            else
              do s <- of_option (nth_error strings lsidx);
              do sl <- slice_range s start (start + ll);
              orig_slices strings seqs (S idx) len' (Some (sidx, cidx, length w)) ((lsidx, sl) :: rv)
        end
    end.

  Definition get_original_slices strings seqs idx len := orig_slices strings seqs idx len None [].

  (* push_values: v is the Vec<Vec<(bool, &T)>>, kept as a list of lists *)
  Fixpoint resize_to (v : list (list (bool * list N))) (n : nat) : list (list (bool * list N)) :=
    match n with
    | O => v
    | S n' => match v with
              | [] => [] :: resize_to [] n'
              | x :: r => x :: resize_to r n'
              end
    end.

  Fixpoint push_at (v : list (list (bool * list N))) (idx : nat) (xs : list (bool * list N))
    : list (list (bool * list N)) :=
    match v, idx with
    | x :: r, O => (x ++ xs) :: r
    | x :: r, S i => x :: push_at r i xs
    | [], _ => []
    end.

  Definition push_values (v : list (list (bool * list N))) (idx : nat) (emph : bool) (s : list N)
    : list (list (bool * list N)) :=
    let v := resize_to v (S idx) in
    if emph then
      push_at v idx (map (fun t => let seg := tok_bytes s t in (negb (ends_with_newline seg), seg))
                         (tokenize bytes_mode TkLinesNewlines s))
    else push_at v idx [(false, s)].

  Definition push_slices (v : list (list (bool * list N))) (emph : bool) (sl : list (nat * list N)) :=
    fold_left (fun acc p => push_values acc (fst p) emph (snd p)) sl v.

  Fixpoint number_changes (t : ctag) (vals : list (list (bool * list N))) (idx : nat) : list ichange :=
    match vals with
    | [] => []
    | v :: r =>
        {| ic_tag := t;
           ic_old := match t with ChInsert => None | _ => Some idx end;
           ic_new := match t with ChInsert => Some idx | _ => None end;
           ic_vals := v |} :: number_changes t r (S idx)
    end.

  (* iter_inline_changes(diff, op, deadline) *)
  Definition inline_changes (dl : deadline) (dbg repair : bool) (old new : list (list N)) (x : op)
    : res (list ichange) :=
    let plain := do cs <- iter_changes (slice_lookup old) (slice_lookup new) x; Ok (map plain_ichange cs) in
    match x with
    | Replace o ol n nl =>
        do olds <- slice_range old o (o + ol);
        do news <- slice_range new n (n + nl);
        if upper_ratio_below_half (length olds) (length news) then plain
        else
          let oseq := multi_seqs olds 0 in
          let nseq := multi_seqs news 0 in
          let ow := map (fun e => fst (fst e)) oseq in
          let nw := map (fun e => fst (fst e)) nseq in
          let orc := oracles_of_items bytes_eqb (slice_lookup ow) (slice_lookup nw) in
          do '(ops, _) <- capture_diff Patience dl dbg repair orc 0 (length ow) 0 (length nw);
          if diff_ratio_below_half ops (length ow) (length nw) then plain
          else
            let step (acc : res (list (list (bool * list N)) * list (list (bool * list N)))) (y : op) :=
              do '(ov, nv) <- acc;
              match y with
              | Equal oi ni l =>
                  do so <- get_original_slices olds oseq oi l;
                  do sn <- get_original_slices news nseq ni l;
                  Ok (push_slices ov false so, push_slices nv false sn)
              | Delete oi l _ =>
                  do so <- get_original_slices olds oseq oi l;
                  Ok (push_slices ov true so, nv)
              | Insert _ ni l =>
                  do sn <- get_original_slices news nseq ni l;
                  Ok (ov, push_slices nv true sn)
              | Replace oi l1 ni l2 =>
                  do so <- get_original_slices olds oseq oi l1;
                  do sn <- get_original_slices news nseq ni l2;
                  Ok (push_slices ov true so, push_slices nv true sn)
              end in
            do '(ov, nv) <- fold_left step ops (Ok ([], []));
            Ok (number_changes ChDelete ov o ++ number_changes ChInsert nv n)
    | _ => plain
    end.
End Inline.
