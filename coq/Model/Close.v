(* Model/Close.v — src/text/mod.rs (get_close_matches), src/text/utils.rs
   (upper_seq_ratio, QuickSeqRatio::new / calc).  Executable definitions only.

   Floating point.  Every ratio in this code is either the literal 1.0 or
   `2.0 * k as f32 / n as f32` for naturals k and n > 0.  A ratio is therefore
   modelled as a [frac]: [None] is the literal 1.0 (the `n == 0` branch),
   [Some (k, n)] is the expression `2.0 * k as f32 / n as f32`.  How a [frac]
   becomes a float is left abstract: [close_matches_gen] takes an evaluation
   [ev : frac -> F]; [close_matches] is the instance "exact rational followed
   by one rounding" [ev x = rnd (frac_q x)], which is what f32 does while
   k, n < 2^24 (both casts and the doubling are then exact and the division
   is correctly rounded). *)
From Coq Require Import QArith.
From Similar Require Import Model.Base Check.Script.
Local Close Scope Q_scope.

Definition frac : Type := option (nat * nat).

(* if n == 0 { 1.0 } else { 2.0 * k as f32 / n as f32 } *)
Definition mk_frac (k n : nat) : frac := if n =? 0 then None else Some (k, n).

(* exact value *)
Definition frac_q (x : frac) : Q :=
  match x with
  | None => 1%Q
  | Some (k, n) => (Z.of_nat (2 * k) # Pos.of_nat n)%Q
  end.

(* the (numerator, denominator) convention of Model.Capture.diff_ratio *)
Definition frac_pair (x : frac) : nat * nat :=
  match x with
  | None => (1, 1)
  | Some (k, n) => (2 * k, n)
  end.

(* upper_seq_ratio, on the two lengths *)
Definition upper_nd (n m : nat) : frac := mk_frac (Nat.min n m) (n + m).
Definition upper_q (n m : nat) : Q := frac_q (upper_nd n m).

Section Quick.
  Context {A : Type}.
  Variable eqb : A -> A -> bool.          (* Hash + Eq on the items *)

  (* HashMap<&T, i32> as an association list; the code only uses get, insert
     and len.  i32 is modelled by Z (no wrap-around below 2^31 items). *)
  Definition hmap : Type := list (A * Z).

  Fixpoint hm_get (m : hmap) (x : A) : option Z :=
    match m with
    | [] => None
    | (y, v) :: r => if eqb y x then Some v else hm_get r x
    end.

  Fixpoint hm_insert (m : hmap) (x : A) (v : Z) : hmap :=
    match m with
    | [] => [(x, v)]
    | (y, w) :: r => if eqb y x then (y, v) :: r else (y, w) :: hm_insert r x v
    end.

  Definition hm_get_or (m : hmap) (x : A) (d : Z) : Z :=
    match hm_get m x with Some v => v | None => d end.

  (* QuickSeqRatio::new: *counts.entry(word).or_insert(0) += 1 *)
  Definition quick_new (seq : list A) : hmap :=
    fold_left (fun m w => hm_insert m w (hm_get_or m w 0 + 1)%Z) seq [].

  (* the loop of QuickSeqRatio::calc *)
  Fixpoint quick_loop (counts available : hmap) (seq : list A) (matches : nat) : nat :=
    match seq with
    | [] => matches
    | w :: r =>
        let x := match hm_get available w with
                 | Some c => c
                 | None => hm_get_or counts w 0
                 end in
        quick_loop counts (hm_insert available w (x - 1)%Z) r
                   (if (0 <? x)%Z then S matches else matches)
    end.

  (* QuickSeqRatio::calc.  The denominator is self.0.len() + seq.len(): the
     number of DISTINCT items of the first sequence plus the length of the
     second (as written in the code). *)
  Definition quick_calc (counts : hmap) (seq : list A) : frac :=
    mk_frac (quick_loop counts [] seq 0) (length counts + length seq).

  Definition quick_nd (s1 s2 : list A) : frac := quick_calc (quick_new s1) s2.
  Definition quick_q (s1 s2 : list A) : Q := frac_q (quick_nd s1 s2).

  (* TextDiff::from_slices(seq1, seq2).ratio() with the default configuration
     (Myers, no deadline): 2 L / (N + M) with L the LCS length, 1.0 when
     N + M = 0.  Stated through the executable [lcs_len]; that this is the
     ratio of the model's text diff is Proofs.Close.textdiff_ratio. *)
  Definition char_cmp (s1 s2 : list A) : cmpf := cmp_of eqb (slice_lookup s1) (slice_lookup s2).
  Definition ratio_nd (s1 s2 : list A) : frac :=
    mk_frac (lcs_len (char_cmp s1 s2) 0 (length s1) 0 (length s2)) (length s1 + length s2).
  Definition ratio_q (s1 s2 : list A) : Q := frac_q (ratio_nd s1 s2).
End Quick.

(* BinaryHeap: only "pop returns a maximum" matters.  The heap is a list;
   [pop_max] removes one maximal element (Proofs.Close shows that the choice
   among several maxima, and the arrangement inside the heap, cannot be
   observed). *)
Section Heap.
  Context {E : Type}.
  Variable le : E -> E -> bool.

  Fixpoint pop_max (l : list E) : option (E * list E) :=
    match l with
    | [] => None
    | x :: r =>
        match pop_max r with
        | None => Some (x, [])
        | Some (y, r') => if le y x then Some (x, r) else Some (y, x :: r')
        end
    end.

  (* for _ in 0..n { if let Some(e) = heap.pop() { rv.push(e) } else { break } } *)
  Fixpoint pop_n (n : nat) (l : list E) : list E :=
    match n with
    | 0 => []
    | S n' => match pop_max l with
              | None => []
              | Some (x, r) => x :: pop_n n' r
              end
    end.
End Heap.

Section CloseMatches.
  Context {A C F : Type}.
  Variable eqb : A -> A -> bool.
  Variable chars : C -> list A.            (* tokenize_chars *)
  Variable ev : frac -> F.                 (* evaluation of a ratio in f32 *)
  Variable leF : F -> F -> bool.           (* <= on f32 (no NaN) *)
  Variable key : F -> nat.                 (* (ratio * u32::MAX as f32) as u32 *)
  Variable leC : C -> C -> bool.           (* Ord on &T *)

  (* x < y *)
  Definition ltF (x y : F) : bool := negb (leF y x).

  (* (u32, Reverse<&T>) with the derived lexicographic Ord *)
  Definition entry : Type := (nat * C)%type.
  Definition entry_le (a b : entry) : bool :=
    (fst a <? fst b) || ((fst a =? fst b) && leC (snd b) (snd a)).

  Fixpoint close_loop (cutoff : F) (seq1 : list A) (counts : hmap) (cands : list C)
           (heap : list entry) : list entry :=
    match cands with
    | [] => heap
    | p :: rest =>
        let seq2 := chars p in
        if ltF (ev (upper_nd (length seq1) (length seq2))) cutoff
           || ltF (ev (quick_calc eqb counts seq2)) cutoff
        then close_loop cutoff seq1 counts rest heap
        else
          let ratio := ev (ratio_nd eqb seq1 seq2) in
          if leF cutoff ratio
          then close_loop cutoff seq1 counts rest ((key ratio, p) :: heap)
          else close_loop cutoff seq1 counts rest heap
    end.

  Definition close_matches_gen (cutoff : F) (word : C) (cands : list C) (n : nat) : list C :=
    let seq1 := chars word in
    let quick_ratio := quick_new eqb seq1 in
    let heap := close_loop cutoff seq1 quick_ratio cands [] in
    map snd (pop_n entry_le n heap).
End CloseMatches.

(* the instance: exact rational, then one rounding *)
Definition close_matches {A C F : Type} (eqb : A -> A -> bool) (chars : C -> list A)
           (rnd : Q -> F) (leF : F -> F -> bool) (key : F -> nat) (leC : C -> C -> bool)
           (cutoff : F) (word : C) (cands : list C) (n : nat) : list C :=
  close_matches_gen eqb chars (fun x => rnd (frac_q x)) leF key leC cutoff word cands n.
