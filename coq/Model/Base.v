(* Model/Base.v — executable definitions only (no proofs).
   Result monad, calls, ops, comparison oracles, counters, checked arithmetic. *)
From Coq Require Export List Arith ZArith Lia Bool.
Export ListNotations.

(* Result of running model code.  [Panic] = the Rust code panics (index out of
   bounds, usize underflow in a position the code relies on, unreachable!,
   failed assert!).  [OutOfFuel] = the model's explicit recursion fuel ran out;
   it is never a normal-looking value. *)
Inductive res (A : Type) : Type :=
| Ok (a : A)
| Panic
| OutOfFuel.
Arguments Ok {A} a.
Arguments Panic {A}.
Arguments OutOfFuel {A}.

Definition bind {A B} (m : res A) (f : A -> res B) : res B :=
  match m with
  | Ok a => f a
  | Panic => Panic
  | OutOfFuel => OutOfFuel
  end.

Notation "'do' x <- m ; f" := (bind m (fun x => f))
  (at level 200, x name, m at level 100, f at level 200).
Notation "'do' ' pat <- m ; f" := (bind m (fun x => match x with pat => f end))
  (at level 200, pat pattern, m at level 100, f at level 200).

Definition of_option {A} (o : option A) : res A :=
  match o with Some a => Ok a | None => Panic end.

(* usize subtraction at a site where the code relies on an invariant for it
   not to underflow (panics in debug, wraps in release). *)
Definition sub_chk (a b : nat) : res nat :=
  if b <=? a then Ok (a - b) else Panic.

(* DiffHook calls.  Argument order follows the Rust signatures:
   equal(old_index,new_index,len) delete(old_index,old_len,new_index)
   insert(old_index,new_index,new_len) replace(old_index,old_len,new_index,new_len) *)
Inductive call : Type :=
| CEq (o n l : nat)
| CDel (o l n : nat)
| CIns (o n l : nat)
| CRep (o ol n nl : nat)
| CFin.

(* DiffOp, same field order as the Rust enum *)
Inductive op : Type :=
| Equal (o n l : nat)
| Delete (o ol n : nat)
| Insert (o n nl : nat)
| Replace (o ol n nl : nat).

Inductive tag : Type := TEqual | TDelete | TInsert | TReplace.

Definition op_tag (x : op) : tag :=
  match x with
  | Equal _ _ _ => TEqual
  | Delete _ _ _ => TDelete
  | Insert _ _ _ => TInsert
  | Replace _ _ _ _ => TReplace
  end.

(* as_tag_tuple: (old start, old end, new start, new end) *)
Definition op_old_start (x : op) : nat :=
  match x with Equal o _ _ | Delete o _ _ | Insert o _ _ | Replace o _ _ _ => o end.
Definition op_new_start (x : op) : nat :=
  match x with Equal _ n _ | Delete _ _ n | Insert _ n _ | Replace _ _ n _ => n end.
Definition op_old_len (x : op) : nat :=
  match x with Equal _ _ l => l | Delete _ l _ => l | Insert _ _ _ => 0 | Replace _ l _ _ => l end.
Definition op_new_len (x : op) : nat :=
  match x with Equal _ _ l => l | Delete _ _ _ => 0 | Insert _ _ l => l | Replace _ _ _ l => l end.
Definition op_old_end (x : op) : nat := op_old_start x + op_old_len x.
Definition op_new_end (x : op) : nat := op_new_start x + op_new_len x.

(* DiffOp::is_empty: both ranges empty *)
Definition op_is_empty (x : op) : bool :=
  (op_old_len x =? 0) && (op_new_len x =? 0).

(* DiffOp::apply_to_hook *)
Definition op_to_call (x : op) : call :=
  match x with
  | Equal o n l => CEq o n l
  | Delete o l n => CDel o l n
  | Insert o n l => CIns o n l
  | Replace o ol n nl => CRep o ol n nl
  end.

(* Capture hook: call -> op (finish pushes nothing) *)
Definition call_to_op (c : call) : option op :=
  match c with
  | CEq o n l => Some (Equal o n l)
  | CDel o l n => Some (Delete o l n)
  | CIns o n l => Some (Insert o n l)
  | CRep o ol n nl => Some (Replace o ol n nl)
  | CFin => None
  end.

Fixpoint capture_calls (cs : list call) : list op :=
  match cs with
  | [] => []
  | c :: cs' => match call_to_op c with
                | Some x => x :: capture_calls cs'
                | None => capture_calls cs'
                end
  end.

(* The only way the algorithms look at items: "new[j] == old[i]".
   First argument = old index, second = new index.  Panic = out of bounds. *)
Definition cmpf := nat -> nat -> res bool.

(* Index implementations *)
Definition lookup (A : Type) := nat -> option A.
Definition slice_lookup {A} (l : list A) : lookup A := fun i => nth_error l i.
(* utils::OffsetLookup: vec[index - offset], the subtraction underflows below offset *)
Definition offset_lookup {A} (off : nat) (l : list A) : lookup A :=
  fun i => if i <? off then None else nth_error l (i - off).

Definition cmp_of {A} (eqb : A -> A -> bool) (old new : lookup A) : cmpf :=
  fun i j => match new j, old i with
             | Some y, Some x => Ok (eqb y x)
             | _, _ => Panic
             end.

(* Within-one-side equality (Hash + Eq on items), used by [unique] and
   IdentifyDistinct.  Out of bounds = Panic. *)
Definition cmp_same {A} (eqb : A -> A -> bool) (s : lookup A) : cmpf :=
  fun i j => match s i, s j with
             | Some x, Some y => Ok (eqb x y)
             | _, _ => Panic
             end.

(* Counters threaded through the algorithms: number of deadline probes made so
   far and number of element comparisons made so far. *)
Record ctr : Type := {
  probes : nat;      (* deadline probes made so far *)
  cmps : nat;        (* element comparisons new[j]==old[i] made so far *)
  expired : bool;    (* some probe has already answered true *)
  post_cmps : nat    (* comparisons made after the first true probe *)
}.
Definition ctr0 : ctr := {| probes := 0; cmps := 0; expired := false; post_cmps := 0 |}.
Definition add_cmps (c : ctr) (k : nat) : ctr :=
  {| probes := probes c; cmps := cmps c + k; expired := expired c;
     post_cmps := if expired c then post_cmps c + k else post_cmps c |}.

(* A deadline: None = no deadline (deadline_exceeded returns false without
   consulting the clock); Some clk = the i-th probe (0-based) answers clk i. *)
Definition deadline := option (nat -> bool).

Definition deadline_exceeded (dl : deadline) (c : ctr) : bool * ctr :=
  match dl with
  | None => (false, c)
  | Some clk =>
      let b := clk (probes c) in
      (b, {| probes := S (probes c); cmps := cmps c;
             expired := expired c || b; post_cmps := post_cmps c |})
  end.

(* the clock used by the harness hook: expires at probe k *)
Definition clock_at (k : nat) : nat -> bool := fun i => k <=? i.

(* is_empty_range *)
Definition empty_range (s e : nat) : bool := e <=? s.
(* Range<usize>::len() *)
Definition range_len (s e : nat) : nat := e - s.
