(* Model/Myers.v — src/algorithms/myers.rs.  Executable definitions only.
   V, max_d, find_middle_snake (forward/backward sweeps, V reused across
   recursive calls exactly as the code does), conquer, diff_deadline. *)
From Coq Require Import FMapPositive.
From Similar Require Import Model.Base Model.Utils.

(* struct V { offset: isize, v: Vec<usize> }  — vec![0; 2*max_d] *)
Record V : Type := { voff : Z; vlen : nat; vcells : PositiveMap.t nat }.

Definition v_new (max_d : nat) : V :=
  {| voff := Z.of_nat max_d; vlen := 2 * max_d; vcells := PositiveMap.empty nat |}.

Definition v_key (i : Z) : positive := Z.to_pos (i + 1).

(* self.v[(index + self.offset) as usize]: a negative sum wraps to a huge
   usize, so both directions are an out-of-bounds panic *)
Definition v_get (v : V) (k : Z) : res nat :=
  let i := (k + voff v)%Z in
  if ((0 <=? i) && (i <? Z.of_nat (vlen v)))%Z then
    Ok (match PositiveMap.find (v_key i) (vcells v) with Some x => x | None => 0 end)
  else Panic.

Definition v_set (v : V) (k : Z) (x : nat) : res V :=
  let i := (k + voff v)%Z in
  if ((0 <=? i) && (i <? Z.of_nat (vlen v)))%Z then
    Ok {| voff := voff v; vlen := vlen v; vcells := PositiveMap.add (v_key i) x (vcells v) |}
  else Panic.

Definition max_d (len1 len2 : nat) : nat := (len1 + len2 + 1) / 2 + 1.

(* (x as isize - k) as usize.  A negative value wraps in Rust (no panic at the
   cast itself); the model treats it as Panic and MyersTheory shows it does not
   happen. *)
Definition z_to_usize (z : Z) : res nat :=
  if (z <? 0)%Z then Panic else Ok (Z.to_nat z).

(* let mut x = if k == -d || (k != d && v[k-1] < v[k+1]) { v[k+1] } else { v[k-1] + 1 } *)
Definition pick (v : V) (k d : Z) : res nat :=
  if (k =? - d)%Z then v_get v (k + 1)%Z
  else if (k =? d)%Z then (do a <- v_get v (k - 1)%Z; Ok (S a))
  else
    do a <- v_get v (k - 1)%Z;
    do b <- v_get v (k + 1)%Z;
    if a <? b then Ok b else Ok (S a).

(* The algorithms are generic in the hook [D] and share the deadline clock with
   whatever the hook does (Patience's hook runs further Myers diffs that probe
   the same clock).  The model is therefore generic in a world state [W]:
   [emit c w]  = one DiffHook call (Ok w' = the call returned Ok(()));
   [probe w]   = deadline_exceeded(deadline) (for deadline = None it answers
                 false and leaves w unchanged);
   [tick k w]  = k element comparisons were made (bookkeeping only). *)
Record world (W : Type) : Type := {
  emit : call -> W -> res W;
  probe : W -> bool * W;
  tick : nat -> W -> W
}.
Arguments emit {W}.
Arguments probe {W}.
Arguments tick {W}.

Section Snake.
  Context {W : Type}.
  Variable wd : world W.
  Variable cmp : cmpf.
  Variables os oe ns ne : nat.
  Let n := oe - os.
  Let m := ne - ns.
  Let delta : Z := (Z.of_nat n - Z.of_nat m)%Z.
  Let odd : bool := Z.odd delta.

  (* one iteration of the forward inner loop at diagonal k in round d.
     Returns (Some point) when the overlap test passes. *)
  Definition fwd_step (d k : Z) (vf vb : V) (w : W)
    : res (option (nat * nat) * V * W) :=
    do x <- pick vf k d;
    do y <- z_to_usize (Z.of_nat x - k)%Z;
    do '(x1, w1) <-
       (if (x <? n) && (y <? m) then
          do adv <- common_prefix_len cmp (os + x) oe (ns + y) ne;
          Ok (x + adv, tick wd (scan_cmps (os + x) oe (ns + y) ne adv) w)
        else Ok (x, w));
    do vf1 <- v_set vf k x1;
    if odd && (Z.abs (k - delta) <=? d - 1)%Z then
      do a <- v_get vf1 k;
      do b <- v_get vb (- (k - delta))%Z;
      if n <=? a + b then Ok (Some (x + os, y + ns), vf1, w1)
      else Ok (None, vf1, w1)
    else Ok (None, vf1, w1).

  (* for k in (-d..=d).rev().step_by(2): cnt iterations starting at k *)
  Fixpoint fwd_loop (cnt : nat) (d k : Z) (vf vb : V) (w : W)
    : res (option (nat * nat) * V * W) :=
    match cnt with
    | 0 => Ok (None, vf, w)
    | S cnt' =>
        do '(r, vf1, w1) <- fwd_step d k vf vb w;
        match r with
        | Some p => Ok (Some p, vf1, w1)
        | None => fwd_loop cnt' d (k - 2)%Z vf1 vb w1
        end
    end.

  Definition bwd_step (d k : Z) (vf vb : V) (w : W)
    : res (option (nat * nat) * V * W) :=
    do x <- pick vb k d;
    do y <- z_to_usize (Z.of_nat x - k)%Z;
    do '(x1, y1, w1) <-
       (if (x <? n) && (y <? m) then
          do adv <- common_suffix_len cmp os (os + n - x) ns (ns + m - y);
          Ok (x + adv, y + adv, tick wd (scan_cmps os (os + n - x) ns (ns + m - y) adv) w)
        else Ok (x, y, w));
    do vb1 <- v_set vb k x1;
    if negb odd && (Z.abs (k - delta) <=? d)%Z then
      do a <- v_get vb1 k;
      do b <- v_get vf (- (k - delta))%Z;
      if n <=? a + b then
        do xr <- sub_chk n x1;
        do yr <- sub_chk m y1;
        Ok (Some (xr + os, yr + ns), vb1, w1)
      else Ok (None, vb1, w1)
    else Ok (None, vb1, w1).

  Fixpoint bwd_loop (cnt : nat) (d k : Z) (vf vb : V) (w : W)
    : res (option (nat * nat) * V * W) :=
    match cnt with
    | 0 => Ok (None, vb, w)
    | S cnt' =>
        do '(r, vb1, w1) <- bwd_step d k vf vb w;
        match r with
        | Some p => Ok (Some p, vb1, w1)
        | None => bwd_loop cnt' d (k - 2)%Z vf vb1 w1
        end
    end.

  (* for d in 0..d_max : [rounds] = d_max - d rounds left *)
  Fixpoint round_loop (rounds : nat) (d : nat) (vf vb : V) (w : W)
    : res (option (nat * nat) * V * V * W) :=
    match rounds with
    | 0 => Ok (None, vf, vb, w)
    | S rounds' =>
        let '(ex, w0) := probe wd w in
        if ex then Ok (None, vf, vb, w0)
        else
          let dz := Z.of_nat d in
          do '(r, vf1, w1) <- fwd_loop (S d) dz dz vf vb w0;
          match r with
          | Some p => Ok (Some p, vf1, vb, w1)
          | None =>
              do '(r2, vb1, w2) <- bwd_loop (S d) dz dz vf1 vb w1;
              match r2 with
              | Some p => Ok (Some p, vf1, vb1, w2)
              | None => round_loop rounds' (S d) vf1 vb1 w2
              end
          end
    end.

  Definition find_middle_snake (vf vb : V) (w : W)
    : res (option (nat * nat) * V * V * W) :=
    do vf0 <- v_set vf 1%Z 0;
    do vb0 <- v_set vb 1%Z 0;
    let d_max := max_d n m in
    (* assert!(vf.len() >= d_max); assert!(vb.len() >= d_max); *)
    if (vlen vf0 <? d_max) || (vlen vb0 <? d_max) then Panic
    else round_loop d_max 0 vf0 vb0 w.
End Snake.

(* emit a list of calls in order *)
Fixpoint emit_all {W} (wd : world W) (cs : list call) (w : W) : res W :=
  match cs with
  | [] => Ok w
  | c :: cs' => do w1 <- emit wd c w; emit_all wd cs' w1
  end.

Section Conquer.
  Context {W : Type}.
  Variable wd : world W.
  Variable cmp : cmpf.

  Fixpoint conquer (fuel : nat) (os oe ns ne : nat) (vf vb : V) (w : W)
    : res (V * V * W) :=
    match fuel with
    | 0 => OutOfFuel
    | S fuel' =>
        do p <- common_prefix_len cmp os oe ns ne;
        let w := tick wd (scan_cmps os oe ns ne p) w in
        do w <- (if 0 <? p then emit wd (CEq os ns p) w else Ok w);
        let os := os + p in
        let ns := ns + p in
        do s <- common_suffix_len cmp os oe ns ne;
        let w := tick wd (scan_cmps os oe ns ne s) w in
        do oe' <- sub_chk oe s;
        do ne' <- sub_chk ne s;
        do '(vf, vb, w) <-
           (if empty_range os oe' && empty_range ns ne' then Ok (vf, vb, w)
            else if empty_range ns ne' then
              do w <- emit wd (CDel os (oe' - os) ns) w; Ok (vf, vb, w)
            else if empty_range os oe' then
              do w <- emit wd (CIns os ns (ne' - ns)) w; Ok (vf, vb, w)
            else
              do '(r, vf, vb, w) <- find_middle_snake wd cmp os oe' ns ne' vf vb w;
              match r with
              | Some (x, y) =>
                  do '(vf, vb, w) <- conquer fuel' os x ns y vf vb w;
                  conquer fuel' x oe' y ne' vf vb w
              | None =>
                  do w <- emit wd (CDel os (oe' - os) ns) w;
                  do w <- emit wd (CIns os ns (ne' - ns)) w;
                  Ok (vf, vb, w)
              end);
        do w <- (if 0 <? s then emit wd (CEq oe' ne' s) w else Ok w);
        Ok (vf, vb, w)
    end.

  Definition myers_fuel (os oe ns ne : nat) : nat := (oe - os) + (ne - ns) + 2.

  (* myers::diff_deadline *)
  Definition myers_diff (os oe ns ne : nat) (w : W) : res W :=
    let md := max_d (oe - os) (ne - ns) in
    do '(_, _, w) <- conquer (myers_fuel os oe ns ne) os oe ns ne (v_new md) (v_new md) w;
    emit wd CFin w.
End Conquer.
