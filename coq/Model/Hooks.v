(* Model/Hooks.v — hooks as world transformers: src/algorithms/hook.rs
   (default replace, &mut D, NoFinishHook), replace.rs (Replace), capture.rs
   (Capture), plus the logging world used to observe raw call sequences. *)
From Similar Require Import Model.Base Model.Utils Model.Myers.

(* ---- the plain world: counters + log of calls (most recent first) ---- *)
Record plain : Type := { p_ctr : ctr; p_log : list call }.

Definition plain_world (dl : deadline) : world plain := {|
  emit := fun c w => Ok {| p_ctr := p_ctr w; p_log := c :: p_log w |};
  probe := fun w => let '(b, c) := deadline_exceeded dl (p_ctr w) in
                    (b, {| p_ctr := c; p_log := p_log w |});
  tick := fun k w => {| p_ctr := add_cmps (p_ctr w) k; p_log := p_log w |}
|}.
Definition plain0 : plain := {| p_ctr := ctr0; p_log := [] |}.
Definition plain_calls (w : plain) : list call := rev (p_log w).

(* ---- lifting a world under extra hook state ---- *)
Definition lift_probe {S W} (wd : world W) : S * W -> bool * (S * W) :=
  fun sw => let '(b, w) := probe wd (snd sw) in (b, (fst sw, w)).
Definition lift_tick {S W} (wd : world W) : nat -> S * W -> S * W :=
  fun k sw => (fst sw, tick wd k (snd sw)).

(* ---- DiffHook::replace default: delete then insert (for hooks that do not
   override replace) ---- *)
Definition default_replace {W} (wd : world W) : world W := {|
  emit := fun c w =>
            match c with
            | CRep o ol n nl => do w <- emit wd (CDel o ol n) w; emit wd (CIns o n nl) w
            | _ => emit wd c w
            end;
  probe := probe wd;
  tick := tick wd
|}.

(* ---- NoFinishHook ---- *)
Definition no_finish {W} (wd : world W) : world W := {|
  emit := fun c w => match c with CFin => Ok w | _ => emit wd c w end;
  probe := probe wd;
  tick := tick wd
|}.

(* ---- Replace ---- *)
Record rstate : Type := {
  r_del : option (nat * nat * nat);   (* (old_index, old_len, new_index) *)
  r_ins : option (nat * nat * nat);   (* (old_index, new_index, new_len) *)
  r_eq  : option (nat * nat * nat)    (* (old_index, new_index, len) *)
}.
Definition rstate0 : rstate := {| r_del := None; r_ins := None; r_eq := None |}.

Section Replace.
  Context {W : Type}.
  Variable wd : world W.

  Definition flush_eq (sw : rstate * W) : res (rstate * W) :=
    let '(s, w) := sw in
    match r_eq s with
    | Some (o, n, l) =>
        do w <- emit wd (CEq o n l) w;
        Ok ({| r_del := r_del s; r_ins := r_ins s; r_eq := None |}, w)
    | None => Ok (s, w)
    end.

  Definition flush_del_ins (sw : rstate * W) : res (rstate * W) :=
    let '(s, w) := sw in
    match r_del s with
    | Some (dO, dl, dn) =>
        match r_ins s with
        | Some (_, inn, il) =>
            do w <- emit wd (CRep dO dl inn il) w;
            Ok ({| r_del := None; r_ins := None; r_eq := r_eq s |}, w)
        | None =>
            do w <- emit wd (CDel dO dl dn) w;
            Ok ({| r_del := None; r_ins := None; r_eq := r_eq s |}, w)
        end
    | None =>
        match r_ins s with
        | Some (io, inn, il) =>
            do w <- emit wd (CIns io inn il) w;
            Ok ({| r_del := None; r_ins := None; r_eq := r_eq s |}, w)
        | None => Ok (s, w)
        end
    end.

  (* [dbg] = debug_assertions: the debug_assert_eq! in delete/insert *)
  Definition replace_emit (dbg : bool) (c : call) (sw : rstate * W) : res (rstate * W) :=
    match c with
    | CEq o n l =>
        do '(s, w) <- flush_del_ins sw;
        Ok ({| r_del := r_del s; r_ins := r_ins s;
               r_eq := match r_eq s with
                       | Some (eo, en, el) => Some (eo, en, el + l)
                       | None => Some (o, n, l)
                       end |}, w)
    | CDel o l n =>
        do '(s, w) <- flush_eq sw;
        match r_del s with
        | Some (dO, dl, dn) =>
            if dbg && negb (o =? dO + dl) then Panic
            else Ok ({| r_del := Some (dO, dl + l, dn); r_ins := r_ins s; r_eq := r_eq s |}, w)
        | None => Ok ({| r_del := Some (o, l, n); r_ins := r_ins s; r_eq := r_eq s |}, w)
        end
    | CIns o n l =>
        do '(s, w) <- flush_eq sw;
        match r_ins s with
        | Some (io, inn, il) =>
            if dbg && negb (inn + il =? n) then Panic
            else Ok ({| r_del := r_del s; r_ins := Some (io, inn, l + il); r_eq := r_eq s |}, w)
        | None => Ok ({| r_del := r_del s; r_ins := Some (o, n, l); r_eq := r_eq s |}, w)
        end
    | CRep o ol n nl =>
        do '(s, w) <- flush_eq sw;
        do w <- emit wd (CRep o ol n nl) w;
        Ok (s, w)
    | CFin =>
        do sw <- flush_eq sw;
        do '(s, w) <- flush_del_ins sw;
        do w <- emit wd CFin w;
        Ok (s, w)
    end.

  Definition replace_world (dbg : bool) : world (rstate * W) := {|
    emit := replace_emit dbg;
    probe := lift_probe wd;
    tick := lift_tick wd
  |}.
End Replace.
