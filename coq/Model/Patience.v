(* Model/Patience.v — src/algorithms/patience.rs.  Executable definitions only. *)
From Similar Require Import Model.Base Model.Utils Model.Myers Model.Hooks.

Record pstate : Type := { old_current : nat; new_current : nat }.

Section Patience.
  Context {W : Type}.
  Variable wd : world W.          (* the caller's hook d *)
  Variable cmp : cmpf.            (* new[j] == old[i] *)
  Variables uo un : list nat.     (* old_indexes / new_indexes: original indices *)
  Variables old_end new_end : nat.

  (* while old_current < oi && new_current < ni && new[new_current] == old[old_current] *)
  Fixpoint advance (fuel : nat) (oi ni : nat) (oc nc : nat) (w : W) : res (nat * nat * W) :=
    match fuel with
    | 0 => Ok (oc, nc, w)   (* fuel = oi - oc: the guard oc < oi is false *)
    | S fuel' =>
        if (oc <? oi) && (nc <? ni) then
          do b <- cmp oc nc;
          let w := tick wd 1 w in
          if b then advance fuel' oi ni (S oc) (S nc) w else Ok (oc, nc, w)
        else Ok (oc, nc, w)
    end.

  (* body of the for loop in Patience::equal for one pair (old, new) of
     positions in the unique lists *)
  Definition anchor_step (o n : nat) (sw : pstate * W) : res (pstate * W) :=
    let '(s, w) := sw in
    let a0 := old_current s in
    let b0 := new_current s in
    do oi <- of_option (nth_error uo o);
    do ni <- of_option (nth_error un n);
    do '(oc, nc, w) <- advance (oi - a0) oi ni a0 b0 w;
    do w <- (if a0 <? oc then emit wd (CEq a0 b0 (oc - a0)) w else Ok w);
    do w <- myers_diff (no_finish wd) cmp oc oi nc ni w;
    Ok ({| old_current := oi; new_current := ni |}, w).

  Fixpoint anchor_loop (len : nat) (o n : nat) (sw : pstate * W) : res (pstate * W) :=
    match len with
    | 0 => Ok sw
    | S len' =>
        do sw <- anchor_step o n sw;
        anchor_loop len' (S o) (S n) sw
    end.

  (* the Patience struct as a hook: only equal and finish are overridden *)
  Definition patience_emit (c : call) (sw : pstate * W) : res (pstate * W) :=
    match c with
    | CEq o n len => anchor_loop len o n sw
    | CDel _ _ _ | CIns _ _ _ => Ok sw
    | CRep _ _ _ _ => Ok sw       (* default replace -> delete; insert: both no-ops *)
    | CFin =>
        let '(s, w) := sw in
        do w <- myers_diff wd cmp (old_current s) old_end (new_current s) new_end w;
        Ok (s, w)
    end.

  Definition patience_world : world (pstate * W) := {|
    emit := patience_emit;
    probe := lift_probe wd;
    tick := lift_tick wd
  |}.
End Patience.

(* comparison between unique items: new_indexes[j] == old_indexes[i] compares
   the values at the original indices *)
Definition unique_cmp (cmp : cmpf) (uo un : list nat) : cmpf :=
  fun i j =>
    match nth_error uo i, nth_error un j with
    | Some oi, Some nj => cmp oi nj
    | _, _ => Panic
    end.

(* patience::diff_deadline.  [oo]/[nn] = equality within old / within new
   (Hash + Eq), used only by [unique]. [dbg] = debug_assertions (Replace). *)
Definition patience_diff {W} (wd : world W) (dbg : bool) (cmp oo nn : cmpf)
           (os oe ns ne : nat) (w : W) : res W :=
  do uo <- unique oo os oe;
  do un <- unique nn ns ne;
  let pw := patience_world wd cmp uo un oe ne in
  let rw := replace_world pw dbg in
  do '(_, (_, w)) <-
     myers_diff rw (unique_cmp cmp uo un) 0 (length uo) 0 (length un)
       (rstate0, ({| old_current := os; new_current := ns |}, w));
  Ok w.
