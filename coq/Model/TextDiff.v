(* Model/TextDiff.v — src/text/mod.rs: TextDiffConfig::diff (the 100-token
   threshold and the IdentifyDistinct<u32> path), flags, ratio; src/udiff.rs
   (hunk header, range display rule, body lines, missing-newline hint, file
   header once); src/utils.rs (SliceRemapper, TextDiffRemapper::iter_slices).
   Executable definitions only. *)
From Coq Require Import NArith.
From Similar Require Import Model.Base Model.Utils Model.Myers Model.Hooks Model.Compact
     Model.Capture Model.Iter Model.Utf8 Model.Tokenize.

(* equality of two items (byte strings) *)
Fixpoint bytes_eqb (a b : list N) : bool :=
  match a, b with
  | [], [] => true
  | x :: a', y :: b' => N.eqb x y && bytes_eqb a' b'
  | _, _ => false
  end.

Definition oracles_of_items {A} (eqb : A -> A -> bool) (old new : lookup A) : oracles :=
  {| o_on := cmp_of eqb old new; o_oo := cmp_same eqb old; o_nn := cmp_same eqb new |}.

(* TextDiffConfig::diff: ops of a text diff over token sequences.
   [orc] are the comparison oracles of the token slices (0-based).
   Above 100 tokens on either side the tokens are first numbered by
   IdentifyDistinct::<u32> and the numbers are diffed (offset lookups, same
   ranges). *)
Definition textdiff_ops (alg : algorithm) (dl : deadline) (dbg repair : bool)
           (orc : oracles) (olen nlen : nat) : res (list op * ctr) :=
  if (100 <? olen) || (100 <? nlen) then
    do '(oids, nids) <- identify_distinct (o_oo orc) (o_nn orc) (o_on orc) 0 olen 0 nlen;
    let orc' := oracles_of_items Nat.eqb (offset_lookup 0 oids) (offset_lookup 0 nids) in
    capture_diff alg dl dbg repair orc' 0 (0 + length oids) 0 (0 + length nids)
  else capture_diff alg dl dbg repair orc 0 olen 0 nlen.

(* newline_terminated: self.newline_terminated.unwrap_or(newline_terminated) *)
Definition newline_flag (override : option bool) (is_lines : bool) : bool :=
  match override with Some b => b | None => is_lines end.

(* ------------------------------------------------------------------ udiff *)
Fixpoint dec_digits (fuel n : nat) (acc : list N) : list N :=
  match fuel with
  | O => acc
  | S fuel' =>
      let d := (N.of_nat (n mod 10) + 48)%N in
      if n <? 10 then d :: acc else dec_digits fuel' (n / 10) (d :: acc)
  end.
Definition dec (n : nat) : list N := dec_digits (S n) n [].

Definition str_hunk_open : list N := [64; 64; 32; 45]%N.        (* "@@ -" *)
Definition str_hunk_mid : list N := [32; 43]%N.                 (* " +" *)
Definition str_hunk_close : list N := [32; 64; 64]%N.           (* " @@" *)
Definition nl : list N := [10]%N.
Definition str_no_newline : list N :=                           (* "\n\\ No newline at end of file" *)
  [10; 92; 32; 78; 111; 32; 110; 101; 119; 108; 105; 110; 101; 32; 97; 116; 32;
   101; 110; 100; 32; 111; 102; 32; 102; 105; 108; 101]%N.

(* impl Display for UnifiedDiffHunkRange *)
Definition render_range (s e : nat) : list N :=
  let beginning := s + 1 in
  let len := e - s in
  if len =? 1 then dec beginning
  else dec (if len =? 0 then beginning - 1 else beginning) ++ [44%N] ++ dec len.

(* UnifiedHunkHeader::new(ops) + Display; ops[0] panics on an empty group *)
Definition render_hunk_header (ops : list op) : res (list N) :=
  match ops with
  | [] => Panic
  | first :: _ =>
      let lst := last ops first in
      Ok (str_hunk_open ++ render_range (op_old_start first) (op_old_end lst) ++
          str_hunk_mid ++ render_range (op_new_start first) (op_new_end lst) ++ str_hunk_close)
  end.

Definition tag_char (t : ctag) : N :=
  match t with ChEqual => 32 | ChDelete => 45 | ChInsert => 43 end%N.

Section Udiff.
  Variables old new : list (list N).       (* the line tokens of both sides *)
  Variable nt : bool.                       (* diff.newline_terminated() *)
  Variable hint : bool.                     (* missing_newline_hint *)
  Variable lossy_values : bool.             (* Display on [u8]: values go through to_string_lossy *)

  Definition render_change (c : change (list N)) : list N :=
    let v := ch_val c in
    [tag_char (ch_tag c)] ++ (if lossy_values then lossy v else v) ++
    (if negb nt then nl else []) ++
    (if nt && negb (ends_with_newline v) then (if hint then str_no_newline else []) ++ nl else []).

  (* Display / to_writer of one hunk *)
  Definition render_hunk (ops : list op) : res (list N) :=
    do cs <- iter_all_changes (slice_lookup old) (slice_lookup new) ops;
    match cs with
    | [] => Ok []
    | _ => do h <- render_hunk_header ops; Ok (h ++ nl ++ flat_map render_change cs)
    end.

  Fixpoint render_hunks (groups : list (list op)) : res (list N) :=
    match groups with
    | [] => Ok []
    | g :: r => do a <- render_hunk g; do b <- render_hunks r; Ok (a ++ b)
    end.

  (* Display / to_writer of the whole unified diff.  The file header is
     written once, before the first hunk (so not at all when there is none). *)
  Definition render_udiff (ops : list op) (radius : nat) (header : option (list N * list N)) : res (list N) :=
    let groups := filter (fun g => match g with [] => false | _ => true end) (group_diff_ops ops radius) in
    do body <- render_hunks groups;
    match groups, header with
    | _ :: _, Some (a, b) =>
        Ok ([45; 45; 45; 32]%N ++ a ++ nl ++ [43; 43; 43; 32]%N ++ b ++ nl ++ body)
    | _, _ => Ok body
    end.
End Udiff.

(* ------------------------------------------------------------------ remapper *)
(* SliceRemapper::new: cumulative byte ranges of the tokens *)
Fixpoint remap_indexes (lens : list nat) (start : nat) : list (nat * nat) :=
  match lens with
  | [] => []
  | l :: r => (start, start + l) :: remap_indexes r (start + l)
  end.

(* SliceRemapper::slice(range): range.end - 1 underflows on an empty range at 0;
   get(..)? gives None, which iter_slices turns into a panic ("expect") *)
Definition remap_slice (source : list N) (idx : list (nat * nat)) (a b : nat) : res (list N) :=
  do s <- of_option (nth_error idx a);
  do b1 <- sub_chk b 1;
  do e <- of_option (nth_error idx b1);
  slice_range source (fst s) (snd e).

(* TextDiffRemapper::iter_slices *)
Definition remap_op (osrc nsrc : list N) (oidx nidx : list (nat * nat)) (x : op)
  : res (list (ctag * list N)) :=
  match x with
  | Equal o _ l => do s <- remap_slice osrc oidx o (o + l); Ok [(ChEqual, s)]
  | Insert _ n nl => do s <- remap_slice nsrc nidx n (n + nl); Ok [(ChInsert, s)]
  | Delete o ol _ => do s <- remap_slice osrc oidx o (o + ol); Ok [(ChDelete, s)]
  | Replace o ol n nl =>
      do s1 <- remap_slice osrc oidx o (o + ol);
      do s2 <- remap_slice nsrc nidx n (n + nl);
      Ok [(ChDelete, s1); (ChInsert, s2)]
  end.

Fixpoint remap_ops (osrc nsrc : list N) (oidx nidx : list (nat * nat)) (ops : list op)
  : res (list (ctag * list N)) :=
  match ops with
  | [] => Ok []
  | x :: r => do a <- remap_op osrc nsrc oidx nidx x; do b <- remap_ops osrc nsrc oidx nidx r; Ok (a ++ b)
  end.
