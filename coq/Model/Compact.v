(* Model/Compact.v — src/algorithms/compact.rs and the DiffOp::adjust family of
   src/types.rs.  Executable definitions only.
   The Vec<DiffOp> + pointer is a zipper (bef, this, aft):
   bef = ops[..pointer] reversed, this = ops[pointer], aft = ops[pointer+1..]. *)
From Similar Require Import Model.Base Model.Utils Model.Myers Model.Hooks.

(* ---- DiffOp::adjust family.  "*val -= adj" underflows -> Panic ---- *)
Definition shift_left (x : op) (a : nat) : res op :=
  match x with
  | Equal o n l => do o' <- sub_chk o a; do n' <- sub_chk n a; Ok (Equal o' n' l)
  | Delete o ol n => do o' <- sub_chk o a; do n' <- sub_chk n a; Ok (Delete o' ol n')
  | Insert o n nl => do o' <- sub_chk o a; do n' <- sub_chk n a; Ok (Insert o' n' nl)
  | Replace o ol n nl => do o' <- sub_chk o a; do n' <- sub_chk n a; Ok (Replace o' ol n' nl)
  end.

Definition shift_right (x : op) (a : nat) : op :=
  match x with
  | Equal o n l => Equal (o + a) (n + a) l
  | Delete o ol n => Delete (o + a) ol (n + a)
  | Insert o n nl => Insert (o + a) (n + a) nl
  | Replace o ol n nl => Replace (o + a) ol (n + a) nl
  end.

Definition grow_left (x : op) (a : nat) : res op :=
  match x with
  | Equal o n l => do o' <- sub_chk o a; do n' <- sub_chk n a; Ok (Equal o' n' (l + a))
  | Delete o ol n => do o' <- sub_chk o a; do n' <- sub_chk n a; Ok (Delete o' (ol + a) n')
  | Insert o n nl => do o' <- sub_chk o a; do n' <- sub_chk n a; Ok (Insert o' n' (nl + a))
  | Replace o ol n nl => do o' <- sub_chk o a; do n' <- sub_chk n a; Ok (Replace o' (ol + a) n' (nl + a))
  end.

Definition grow_right (x : op) (a : nat) : op :=
  match x with
  | Equal o n l => Equal o n (l + a)
  | Delete o ol n => Delete o (ol + a) n
  | Insert o n nl => Insert o n (nl + a)
  | Replace o ol n nl => Replace o (ol + a) n (nl + a)
  end.

Definition shrink_left (x : op) (a : nat) : res op :=
  match x with
  | Equal o n l => do l' <- sub_chk l a; Ok (Equal o n l')
  | Delete o ol n => do l' <- sub_chk ol a; Ok (Delete o l' n)
  | Insert o n nl => do l' <- sub_chk nl a; Ok (Insert o n l')
  | Replace o ol n nl => do l1 <- sub_chk ol a; do l2 <- sub_chk nl a; Ok (Replace o l1 n l2)
  end.

Definition shrink_right (x : op) (a : nat) : res op :=
  match x with
  | Equal o n l => do l' <- sub_chk l a; Ok (Equal (o + a) (n + a) l')
  | Delete o ol n => do l' <- sub_chk ol a; Ok (Delete (o + a) l' (n + a))
  | Insert o n nl => do l' <- sub_chk nl a; Ok (Insert (o + a) (n + a) l')
  | Replace o ol n nl => do l1 <- sub_chk ol a; do l2 <- sub_chk nl a; Ok (Replace (o + a) l1 (n + a) l2)
  end.

Definition is_equal_op (x : op) : bool :=
  match x with Equal _ _ _ => true | _ => false end.

(* cfg(similar_verif) swap-repair switch: given the two ops in their order
   AFTER the swap, recompute the carried indices. *)
Definition repair_pair (a b : op) : op * op :=
  match a, b with
  | Insert _ inn il, Delete dO dl _ => (Insert dO inn il, Delete dO dl (inn + il))
  | Delete dO dl _, Insert _ inn il => (Delete dO dl inn, Insert (dO + dl) inn il)
  | _, _ => (a, b)
  end.

Definition zipper : Type := (list op * op * list op)%type.

Inductive step_result : Type :=
| Continue (z : zipper)
| Break (z : zipper).

Section Compact.
  Variable cmp : cmpf.
  Variable repair : bool.

  (* one iteration of the while loop in shift_diff_ops_up *)
  Definition up_step (z : zipper) : res step_result :=
    let '(bef, this, aft) := z in
    match bef with
    | [] => Ok (Break z)
    | prev :: bef' =>
        match op_tag this, op_tag prev with
        | TInsert, TEqual =>
            do s <- common_suffix_len cmp (op_old_start prev) (op_old_end prev)
                                      (op_new_start this) (op_new_end this);
            if 0 <? s then
              do aft1 <-
                 match aft with
                 | nx :: aft' =>
                     if is_equal_op nx then (do nx' <- grow_left nx s; Ok (nx' :: aft'))
                     else
                       do eo <- sub_chk (op_old_end prev) s;
                       do en <- sub_chk (op_new_end this) s;
                       Ok (Equal eo en s :: aft)
                 | [] =>
                     do eo <- sub_chk (op_old_end prev) s;
                     do en <- sub_chk (op_new_end this) s;
                     Ok [Equal eo en s]
                 end;
              do this1 <- shift_left this s;
              do prev1 <- shrink_left prev s;
              if op_is_empty prev1 then Ok (Continue (bef', this1, aft1))
              else Ok (Continue (prev1 :: bef', this1, aft1))
            else if op_is_empty prev then Ok (Continue (bef', this, aft))
            else Ok (Break z)
        | TDelete, TEqual =>
            do s <- common_suffix_len cmp (op_old_start prev) (op_old_end prev)
                                      (op_new_start this) (op_new_end this);
            if negb (s =? 0) then
              do aft1 <-
                 match aft with
                 | nx :: aft' =>
                     if is_equal_op nx then (do nx' <- grow_left nx s; Ok (nx' :: aft'))
                     else
                       do eo <- sub_chk (op_old_end prev) s;
                       do en <- sub_chk (op_new_end this) s;
                       do el <- sub_chk (op_old_len prev) s;
                       Ok (Equal eo en el :: aft)
                 | [] =>
                     do eo <- sub_chk (op_old_end prev) s;
                     do en <- sub_chk (op_new_end this) s;
                     do el <- sub_chk (op_old_len prev) s;
                     Ok [Equal eo en el]
                 end;
              do this1 <- shift_left this s;
              do prev1 <- shrink_left prev s;
              if op_is_empty prev1 then Ok (Continue (bef', this1, aft1))
              else Ok (Continue (prev1 :: bef', this1, aft1))
            else if op_is_empty prev then Ok (Continue (bef', this, aft))
            else Ok (Break z)
        | TInsert, TDelete | TDelete, TInsert =>
            (* ops.swap(pointer - 1, pointer); pointer -= 1 *)
            let '(this1, prev1) := if repair then repair_pair this prev else (this, prev) in
            Ok (Continue (bef', this1, prev1 :: aft))
        | TInsert, TInsert =>
            Ok (Continue (bef', grow_right prev (op_new_len this), aft))
        | TDelete, TDelete =>
            Ok (Continue (bef', grow_right prev (op_old_len this), aft))
        | _, _ => Panic
        end
    end.

  (* one iteration of the while loop in shift_diff_ops_down *)
  Definition down_step (z : zipper) : res step_result :=
    let '(bef, this, aft) := z in
    match aft with
    | [] => Ok (Break z)
    | next :: aft' =>
        match op_tag this, op_tag next with
        | TInsert, TEqual | TDelete, TEqual =>
            do p <- common_prefix_len cmp (op_old_start next) (op_old_end next)
                                      (op_new_start this) (op_new_end this);
            if 0 <? p then
              let bef1 :=
                match bef with
                | pv :: bef' =>
                    if is_equal_op pv then grow_right pv p :: bef'
                    else Equal (op_old_start next) (op_new_start this) p :: bef
                | [] => [Equal (op_old_start next) (op_new_start this) p]
                end in
              let this1 := shift_right this p in
              do next1 <- shrink_right next p;
              if op_is_empty next1 then Ok (Continue (bef1, this1, aft'))
              else Ok (Continue (bef1, this1, next1 :: aft'))
            else if op_is_empty next then Ok (Continue (bef, this, aft'))
            else Ok (Break z)
        | TInsert, TDelete | TDelete, TInsert =>
            (* ops.swap(pointer, pointer + 1); pointer += 1 *)
            let '(next1, this1) := if repair then repair_pair next this else (next, this) in
            Ok (Continue (next1 :: bef, this1, aft'))
        | TInsert, TInsert =>
            Ok (Continue (bef, grow_right this (op_new_len next), aft'))
        | TDelete, TDelete =>
            Ok (Continue (bef, grow_right this (op_old_len next), aft'))
        | _, _ => Panic
        end
    end.

  Fixpoint run_steps (step : zipper -> res step_result) (fuel : nat) (z : zipper) : res zipper :=
    match fuel with
    | 0 => OutOfFuel
    | S fuel' =>
        do r <- step z;
        match r with
        | Break z' => Ok z'
        | Continue z' => run_steps step fuel' z'
        end
    end.

  Definition ops_weight (l : list op) : nat :=
    fold_right (fun x a => S (op_old_len x + op_new_len x) + a) 0 l.

  Definition zipper_weight (z : zipper) : nat :=
    let '(bef, this, aft) := z in ops_weight bef + ops_weight [this] + ops_weight aft.

  Definition inner_fuel (z : zipper) : nat := 2 * zipper_weight z + 2.

  Definition shift_up (z : zipper) : res zipper := run_steps up_step (inner_fuel z) z.
  Definition shift_down (z : zipper) : res zipper := run_steps down_step (inner_fuel z) z.

  (* one pass of cleanup_diff_ops for ops of tag [t]; the zipper holds
     ops[pointer] in the middle.  Returns the final Vec. *)
  Fixpoint pass (t : tag) (fuel : nat) (z : zipper) : res (list op) :=
    match fuel with
    | 0 => OutOfFuel
    | S fuel' =>
        do z1 <-
           (let '(_, this, _) := z in
            if match t, op_tag this with
               | TDelete, TDelete | TInsert, TInsert => true
               | _, _ => false
               end
            then (do zu <- shift_up z; shift_down zu)
            else Ok z);
        let '(bef, this, aft) := z1 in
        match aft with
        | [] => Ok (rev (this :: bef))
        | nx :: aft' => pass t fuel' (this :: bef, nx, aft')
        end
    end.

  Definition outer_fuel (l : list op) : nat := let t := S (ops_weight l) in 2 * t * t + 2.

  Definition run_pass (t : tag) (l : list op) : res (list op) :=
    match l with
    | [] => Ok []
    | x :: l' => pass t (outer_fuel l) ([], x, l')
    end.

  Definition cleanup_diff_ops (l : list op) : res (list op) :=
    do l1 <- run_pass TDelete l;
    run_pass TInsert l1.
End Compact.

(* ---- Compact as a hook: buffers equal/delete/insert, does not override
   replace (default: delete; insert), cleans up and replays on finish ---- *)
Section CompactHook.
  Context {W : Type}.
  Variable wd : world W.
  Variable cmp : cmpf.
  Variable repair : bool.

  Definition compact_emit (c : call) (sw : list op * W) : res (list op * W) :=
    let '(buf, w) := sw in   (* buf is the Vec, most recent op first *)
    match c with
    | CEq o n l => Ok (Equal o n l :: buf, w)
    | CDel o l n => Ok (Delete o l n :: buf, w)
    | CIns o n l => Ok (Insert o n l :: buf, w)
    | CRep o ol n nl => Ok (Insert o n nl :: Delete o ol n :: buf, w)
    | CFin =>
        do ops <- cleanup_diff_ops cmp repair (rev buf);
        do w <- emit_all wd (map op_to_call ops) w;
        do w <- emit wd CFin w;
        Ok (rev ops, w)
    end.

  Definition compact_world : world (list op * W) := {|
    emit := compact_emit;
    probe := lift_probe wd;
    tick := lift_tick wd
  |}.
End CompactHook.
