(* Model/Utils.v — src/algorithms/utils.rs: common_prefix_len, common_suffix_len,
   unique, IdentifyDistinct.  Executable definitions only. *)
From Similar Require Import Model.Base.

(* zip(new_range, old_range).take_while(new[x.0] == old[x.1]).count()
   [k] = min of the two range lengths = number of pairs the zip can yield. *)
Fixpoint prefix_from (cmp : cmpf) (i j k : nat) {struct k} : res nat :=
  match k with
  | 0 => Ok 0
  | S k' =>
      do b <- cmp i j;
      if b then (do n <- prefix_from cmp (S i) (S j) k'; Ok (S n)) else Ok 0
  end.

Definition common_prefix_len (cmp : cmpf) (os oe ns ne : nat) : res nat :=
  if empty_range os oe || empty_range ns ne then Ok 0
  else prefix_from cmp os ns (Nat.min (oe - os) (ne - ns)).

(* rev ranges: compares new[ne-1-t] with old[oe-1-t] *)
Fixpoint suffix_from (cmp : cmpf) (oe ne k : nat) {struct k} : res nat :=
  match k with
  | 0 => Ok 0
  | S k' =>
      do b <- cmp (oe - 1) (ne - 1);
      if b then (do n <- suffix_from cmp (oe - 1) (ne - 1) k'; Ok (S n)) else Ok 0
  end.

Definition common_suffix_len (cmp : cmpf) (os oe ns ne : nat) : res nat :=
  if empty_range os oe || empty_range ns ne then Ok 0
  else suffix_from cmp oe ne (Nat.min (oe - os) (ne - ns)).

(* number of element comparisons a prefix/suffix scan performs when it returns
   [len] over ranges whose shorter side has [k] items: one per matched pair plus
   the failing one if it stopped early *)
Definition scan_cmps (os oe ns ne len : nat) : nat :=
  if empty_range os oe || empty_range ns ne then 0
  else if len <? Nat.min (oe - os) (ne - ns) then S len else len.

(* unique(lookup, range): indices in [s,e) whose item occurs exactly once in
   [s,e), ascending.  [same i j] = "lookup[i] == lookup[j]" (Hash+Eq).
   The HashMap is not modelled: the result is specified order-free. *)
Fixpoint count_eq (same : cmpf) (i : nat) (s len : nat) : res nat :=
  match len with
  | 0 => Ok 0
  | S len' =>
      do b <- same i s;
      do n <- count_eq same i (S s) len';
      Ok (if b then S n else n)
  end.

Fixpoint unique_from (same : cmpf) (s e : nat) (i len : nat) : res (list nat) :=
  match len with
  | 0 => Ok []
  | S len' =>
      do c <- count_eq same i s (e - s);
      do rest <- unique_from same s e (S i) len';
      Ok (if c =? 1 then i :: rest else rest)
  end.

Definition unique (same : cmpf) (s e : nat) : res (list nat) :=
  unique_from same s e s (e - s).

(* IdentifyDistinct::new: number items in first-seen order over old range then
   new range.  [oo i i'] = old[i]==old[i'], [nn j j'] = new[j]==new[j'],
   [on i j] = new[j]==old[i].  The map is an association list from a
   representative (side, index) to its id. *)
Inductive side := SOld | SNew.

Definition key_eq (oo nn on : cmpf) (a b : side * nat) : res bool :=
  match a, b with
  | (SOld, i), (SOld, i') => oo i i'
  | (SNew, j), (SNew, j') => nn j j'
  | (SOld, i), (SNew, j) => on i j
  | (SNew, j), (SOld, i) => on i j
  end.

Fixpoint assoc_find (oo nn on : cmpf) (k : side * nat) (m : list ((side * nat) * nat)) : res (option nat) :=
  match m with
  | [] => Ok None
  | (k', id) :: m' =>
      do b <- key_eq oo nn on k k';
      if b then Ok (Some id) else assoc_find oo nn on k m'
  end.

(* state: (map, next_id, ids so far reversed) *)
Fixpoint identify_scan (oo nn on : cmpf) (sd : side) (i len : nat)
         (m : list ((side * nat) * nat)) (next : nat) (acc : list nat)
  : res (list ((side * nat) * nat) * nat * list nat) :=
  match len with
  | 0 => Ok (m, next, rev acc)
  | S len' =>
      do r <- assoc_find oo nn on (sd, i) m;
      match r with
      | Some id => identify_scan oo nn on sd (S i) len' m next (id :: acc)
      | None => identify_scan oo nn on sd (S i) len' (m ++ [((sd, i), next)]) (S next) (next :: acc)
      end
  end.

(* returns (old ids, new ids); the lookups are offset_lookup os / ns over them
   and the ranges are os..os+len, ns..ns+len *)
Definition identify_distinct (oo nn on : cmpf) (os oe ns ne : nat) : res (list nat * list nat) :=
  do '(m, next, oids) <- identify_scan oo nn on SOld os (oe - os) [] 0 [];
  do '(_, _, nids) <- identify_scan oo nn on SNew ns (ne - ns) m next [];
  Ok (oids, nids).
