(* Model/Lcs.v — src/algorithms/lcs.rs (with the fix: commits applied, see
   KNOWN_FINDINGS.txt).  Executable definitions only. *)
From Similar Require Import Model.Base Model.Utils Model.Myers.

Section Lcs.
  Context {W : Type}.
  Variable wd : world W.
  Variable cmp : cmpf.

  (* make_table.  The BTreeMap with "insert only if > 0" and
     get(..).unwrap_or(&0) is a total function with default 0; it is
     represented as the list of rows i = 0..new_len-1, each row the list of
     T(i, j) for j = 0..old_len (the last entry is the implicit 0). *)

  (* row i, columns j..j+len (len cells then the trailing 0), given the row
     below it (nxt = T(i+1, j..)) *)
  Fixpoint table_row (ob nb i : nat) (j len : nat) (nxt : list nat) : res (list nat) :=
    match len with
    | 0 => Ok [0]
    | S len' =>
        do r <- table_row ob nb i (S j) len' (tl nxt);
        do b <- cmp (ob + j) (nb + i);
        let v := if b then S (hd 0 (tl nxt)) else Nat.max (hd 0 nxt) (hd 0 r) in
        Ok (v :: r)
    end.

  (* rows i..i+cnt-1; the deadline is probed once per row, bottom row first *)
  Fixpoint table_rows (ob nb old_len : nat) (i cnt : nat) (w : W)
    : res (option (list (list nat)) * W) :=
    match cnt with
    | 0 => Ok (Some [], w)
    | S cnt' =>
        do '(r, w) <- table_rows ob nb old_len (S i) cnt' w;
        match r with
        | None => Ok (None, w)
        | Some rest =>
            let '(ex, w) := probe wd w in
            if ex then Ok (None, w)
            else
              do rw <- table_row ob nb i 0 old_len (hd [] rest);
              Ok (Some (rw :: rest), tick wd old_len w)
        end
    end.

  (* make_table(old, os..oe, new, ns..ne, deadline) *)
  Definition make_table (os oe ns ne : nat) (w : W) : res (option (list (list nat)) * W) :=
    table_rows os ns (oe - os) 0 (ne - ns) w.

  Definition tget (t : list (list nat)) (i j : nat) : nat := nth j (nth i t []) 0.

  (* while new_idx < new_len && old_idx < old_len *)
  Fixpoint walk (fuel : nat) (t : list (list nat)) (ob nb old_len new_len : nat)
           (old_idx new_idx : nat) (w : W) : res (nat * nat * W) :=
    match fuel with
    | 0 => OutOfFuel
    | S fuel' =>
        if (new_idx <? new_len) && (old_idx <? old_len) then
          let oi := ob + old_idx in
          let ni := nb + new_idx in
          do b <- cmp oi ni;
          let w := tick wd 1 w in
          if b then
            do w <- emit wd (CEq oi ni 1) w;
            walk fuel' t ob nb old_len new_len (S old_idx) (S new_idx) w
          else if tget t (S new_idx) old_idx <=? tget t new_idx (S old_idx) then
            do w <- emit wd (CDel oi 1 ni) w;
            walk fuel' t ob nb old_len new_len (S old_idx) new_idx w
          else
            do w <- emit wd (CIns oi ni 1) w;
            walk fuel' t ob nb old_len new_len old_idx (S new_idx) w
        else Ok (old_idx, new_idx, w)
    end.

  Definition lcs_diff (os oe ns ne : nat) (w : W) : res W :=
    if empty_range ns ne then
      do w <- (if empty_range os oe then Ok w else emit wd (CDel os (oe - os) ns) w);
      emit wd CFin w
    else if empty_range os oe then
      do w <- emit wd (CIns os ns (ne - ns)) w;
      emit wd CFin w
    else
      do p <- common_prefix_len cmp os oe ns ne;
      let w := tick wd (scan_cmps os oe ns ne p) w in
      do s <- common_suffix_len cmp (os + p) oe (ns + p) ne;
      let w := tick wd (scan_cmps (os + p) oe (ns + p) ne s) w in
      if (p =? oe - os) && (oe - os =? ne - ns) then
        do w <- emit wd (CEq os ns (oe - os)) w;
        emit wd CFin w
      else
        do oe' <- sub_chk oe s;
        do ne' <- sub_chk ne s;
        do '(mt, w) <- make_table (os + p) oe' (ns + p) ne' w;
        do nl0 <- sub_chk (ne - ns) p;
        do new_len <- sub_chk nl0 s;
        do ol0 <- sub_chk (oe - os) p;
        do old_len <- sub_chk ol0 s;
        do w <- (if 0 <? p then emit wd (CEq os ns p) w else Ok w);
        do '(old_idx, new_idx, w) <-
           match mt with
           | Some t => walk (old_len + new_len + 1) t (os + p) (ns + p) old_len new_len 0 0 w
           | None => Ok (0, 0, w)
           end;
        do '(old_idx, w) <-
           (if old_idx <? old_len then
              do w <- emit wd (CDel (os + p + old_idx) (old_len - old_idx) (ns + p + new_idx)) w;
              Ok (old_idx + (old_len - old_idx), w)
            else Ok (old_idx, w));
        do w <-
           (if new_idx <? new_len then
              emit wd (CIns (os + p + old_idx) (ns + p + new_idx) (new_len - new_idx)) w
            else Ok w);
        do w <- (if 0 <? s then emit wd (CEq (os + old_len + p) (ns + new_len + p) s) w else Ok w);
        emit wd CFin w.
End Lcs.
