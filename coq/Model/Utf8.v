(* Model/Utf8.v — UTF-8 decoding as used by str::char_indices (valid input)
   and bstr's ByteSlice::char_indices (arbitrary bytes, invalid sequences
   replaced by U+FFFD using "substitution of maximal subparts"),
   char::len_utf8, char::is_whitespace, String::from_utf8_lossy.
   Executable definitions only.  Bytes and code points are N. *)
From Coq Require Import NArith.
From Similar Require Import Model.Base.
Local Open Scope N_scope.

Definition byte := N.
Definition in_rng (b lo hi : N) : bool := (lo <=? b) && (b <=? hi).
Definition is_cont (b : N) : bool := in_rng b 128 191.       (* 80..BF *)
Definition replacement : N := 65533.                          (* U+FFFD *)

(* One decoding step on a non-empty input: (Some cp | None = invalid, bytes consumed).
   Table 3-7 of the Unicode standard; an ill-formed sequence consumes its
   maximal well-formed prefix (at least one byte). *)
Definition decode_step (bs : list N) : option N * nat :=
  match bs with
  | [] => (None, 0%nat)
  | b0 :: r =>
      if b0 <? 128 then (Some b0, 1%nat)
      else if in_rng b0 194 223 then          (* C2..DF *)
        match r with
        | b1 :: _ => if is_cont b1 then (Some ((b0 - 192) * 64 + (b1 - 128)), 2%nat) else (None, 1%nat)
        | [] => (None, 1%nat)
        end
      else if in_rng b0 224 239 then          (* E0..EF *)
        let lo := if b0 =? 224 then 160 else 128 in
        let hi := if b0 =? 237 then 159 else 191 in
        match r with
        | b1 :: r1 =>
            if in_rng b1 lo hi then
              match r1 with
              | b2 :: _ =>
                  if is_cont b2 then
                    (Some ((b0 - 224) * 4096 + (b1 - 128) * 64 + (b2 - 128)), 3%nat)
                  else (None, 2%nat)
              | [] => (None, 2%nat)
              end
            else (None, 1%nat)
        | [] => (None, 1%nat)
        end
      else if in_rng b0 240 244 then          (* F0..F4 *)
        let lo := if b0 =? 240 then 144 else 128 in
        let hi := if b0 =? 244 then 143 else 191 in
        match r with
        | b1 :: r1 =>
            if in_rng b1 lo hi then
              match r1 with
              | b2 :: r2 =>
                  if is_cont b2 then
                    match r2 with
                    | b3 :: _ =>
                        if is_cont b3 then
                          (Some ((b0 - 240) * 262144 + (b1 - 128) * 4096 + (b2 - 128) * 64 + (b3 - 128)), 4%nat)
                        else (None, 3%nat)
                    | [] => (None, 3%nat)
                    end
                  else (None, 2%nat)
              | [] => (None, 2%nat)
              end
            else (None, 1%nat)
        | [] => (None, 1%nat)
        end
      else (None, 1%nat)                       (* 80..C1, F5..FF *)
  end.

(* a decoded char: start offset, end offset, code point, valid? *)
Record dchar : Type := { dc_start : nat; dc_end : nat; dc_cp : N; dc_valid : bool }.

(* bstr char_indices: (start, end, char) with U+FFFD for invalid subparts *)
Fixpoint decode_from (fuel : nat) (pos : nat) (bs : list N) : list dchar :=
  match fuel with
  | O => []
  | S fuel' =>
      match bs with
      | [] => []
      | _ =>
          let '(r, k) := decode_step bs in
          let k := match k with O => 1%nat | _ => k end in
          {| dc_start := pos; dc_end := (pos + k)%nat;
             dc_cp := match r with Some cp => cp | None => replacement end;
             dc_valid := match r with Some _ => true | None => false end |}
          :: decode_from fuel' (pos + k)%nat (skipn k bs)
      end
  end.

Definition decode (bs : list N) : list dchar := decode_from (length bs) 0%nat bs.

Definition valid_utf8 (bs : list N) : bool := forallb dc_valid (decode bs).

(* char::len_utf8 *)
Definition len_utf8 (cp : N) : nat :=
  if cp <? 128 then 1%nat else if cp <? 2048 then 2%nat else if cp <? 65536 then 3%nat else 4%nat.

(* char::is_whitespace: the Unicode White_Space property *)
Definition is_whitespace (cp : N) : bool :=
  in_rng cp 9 13 || (cp =? 32) || (cp =? 133) || (cp =? 160) || (cp =? 5760) ||
  in_rng cp 8192 8202 || (cp =? 8232) || (cp =? 8233) || (cp =? 8239) || (cp =? 8287) || (cp =? 12288).

Definition is_newline_cp (cp : N) : bool := (cp =? 13) || (cp =? 10).

(* String::from_utf8_lossy: each maximal invalid subpart becomes EF BF BD *)
Definition lossy (bs : list N) : list N :=
  flat_map (fun c => if dc_valid c then firstn (dc_end c - dc_start c) (skipn (dc_start c) bs)
                     else [239; 191; 189]) (decode bs).
