(* Model/Iter.v — src/iter.rs (ChangesIter, AllChangesIter) and
   DiffOp::iter_slices / apply_to_hook of src/types.rs.  Executable only. *)
From Similar Require Import Model.Base.

Inductive ctag : Type := ChEqual | ChDelete | ChInsert.

Record change (A : Type) : Type := {
  ch_tag : ctag;
  ch_old : option nat;
  ch_new : option nat;
  ch_val : A
}.
Arguments ch_tag {A}. Arguments ch_old {A}. Arguments ch_new {A}. Arguments ch_val {A}.

Record iter_state : Type := {
  it_old_end : nat; it_new_end : nat;     (* old_range.end / new_range.end *)
  it_old_index : nat; it_new_index : nat;
  it_old_i : nat; it_new_i : nat;
  it_tag : tag
}.

(* ChangesIter::new *)
Definition iter_new (x : op) : iter_state := {|
  it_old_end := op_old_end x; it_new_end := op_new_end x;
  it_old_index := op_old_start x; it_new_index := op_new_start x;
  it_old_i := op_old_start x; it_new_i := op_new_start x;
  it_tag := op_tag x
|}.

Section Iter.
  Context {A : Type}.
  Variables old new : lookup A.

  Definition step_old (s : iter_state) (t : ctag) (with_new : bool)
    : res (option (change A * iter_state)) :=
    do v <- of_option (old (it_old_i s));
    let s' := {| it_old_end := it_old_end s; it_new_end := it_new_end s;
                 it_old_index := S (it_old_index s);
                 it_new_index := if with_new then S (it_new_index s) else it_new_index s;
                 it_old_i := S (it_old_i s); it_new_i := it_new_i s;
                 it_tag := it_tag s |} in
    Ok (Some ({| ch_tag := t;
                 ch_old := Some (it_old_index s' - 1);
                 ch_new := if with_new then Some (it_new_index s' - 1) else None;
                 ch_val := v |}, s')).

  Definition step_new (s : iter_state) : res (option (change A * iter_state)) :=
    do v <- of_option (new (it_new_i s));
    let s' := {| it_old_end := it_old_end s; it_new_end := it_new_end s;
                 it_old_index := it_old_index s;
                 it_new_index := S (it_new_index s);
                 it_old_i := it_old_i s; it_new_i := S (it_new_i s);
                 it_tag := it_tag s |} in
    Ok (Some ({| ch_tag := ChInsert; ch_old := None;
                 ch_new := Some (it_new_index s' - 1); ch_val := v |}, s')).

  (* Iterator::next *)
  Definition iter_next (s : iter_state) : res (option (change A * iter_state)) :=
    match it_tag s with
    | TEqual =>
        if it_old_i s <? it_old_end s then step_old s ChEqual true else Ok None
    | TDelete =>
        if it_old_i s <? it_old_end s then step_old s ChDelete false else Ok None
    | TInsert =>
        if it_new_i s <? it_new_end s then step_new s else Ok None
    | TReplace =>
        if it_old_i s <? it_old_end s then step_old s ChDelete false
        else if it_new_i s <? it_new_end s then step_new s
        else Ok None
    end.

  Fixpoint iter_run (fuel : nat) (s : iter_state) : res (list (change A)) :=
    match fuel with
    | 0 => OutOfFuel
    | S fuel' =>
        do r <- iter_next s;
        match r with
        | None => Ok []
        | Some (c, s') => do rest <- iter_run fuel' s'; Ok (c :: rest)
        end
    end.

  (* op.iter_changes(old, new).collect() *)
  Definition iter_changes (x : op) : res (list (change A)) :=
    iter_run (op_old_len x + op_new_len x + 1) (iter_new x).

  (* AllChangesIter: state = (remaining ops, current iterator) *)
  Fixpoint all_changes_run (fuel : nat) (ops : list op) (cur : option iter_state)
    : res (list (change A)) :=
    match fuel with
    | 0 => OutOfFuel
    | S fuel' =>
        match cur with
        | Some s =>
            do r <- iter_next s;
            match r with
            | Some (c, s') => do rest <- all_changes_run fuel' ops (Some s'); Ok (c :: rest)
            | None => all_changes_run fuel' ops None
            end
        | None =>
            match ops with
            | x :: rest => all_changes_run fuel' rest (Some (iter_new x))
            | [] => Ok []
            end
        end
    end.

  Definition ops_total (ops : list op) : nat :=
    fold_right (fun x a => op_old_len x + op_new_len x + 2 + a) 1 ops.

  Definition iter_all_changes (ops : list op) : res (list (change A)) :=
    all_changes_run (ops_total ops) ops None.
End Iter.

(* DiffOp::iter_slices over slices: &old[a..b] panics unless a <= b <= len *)
Definition slice_range {A} (l : list A) (a b : nat) : res (list A) :=
  if (a <=? b) && (b <=? length l) then Ok (firstn (b - a) (skipn a l)) else Panic.

Definition iter_slices {A} (old new : list A) (x : op) : res (list (ctag * list A)) :=
  match x with
  | Equal o _ l => do s <- slice_range old o (o + l); Ok [(ChEqual, s)]
  | Insert _ n nl => do s <- slice_range new n (n + nl); Ok [(ChInsert, s)]
  | Delete o ol _ => do s <- slice_range old o (o + ol); Ok [(ChDelete, s)]
  | Replace o ol n nl =>
      do s1 <- slice_range old o (o + ol);
      do s2 <- slice_range new n (n + nl);
      Ok [(ChDelete, s1); (ChInsert, s2)]
  end.
