// Text-layer components: tok, utf8, ws, textdiff, udiff, remap, inline, close,
// identify, repeat.  Texts travel as hex.
use crate::{fmt_calls, fmt_opt, fmt_tag, install_clock, ops_to_calls, same_ops, parse_alg, parse_list, parse_opt, parse_range, Kv};
use similar::{ChangeTag, DiffableStr, TextDiff};

pub fn unhex(s: &str) -> Vec<u8> {
    if s == "-" {
        return vec![];
    }
    (0..s.len() / 2)
        .map(|i| u8::from_str_radix(&s[2 * i..2 * i + 2], 16).unwrap())
        .collect()
}

pub fn hex(b: &[u8]) -> String {
    if b.is_empty() {
        return "-".into();
    }
    b.iter().map(|x| format!("{:02x}", x)).collect()
}

fn join(v: Vec<String>, sep: &str) -> String {
    if v.is_empty() {
        "-".into()
    } else {
        v.join(sep)
    }
}

// token boundaries of a tokenization of `src` (tokens must be consecutive
// sub-slices for the boundaries to be meaningful; "lossy" tokenizers that
// return substituted bytes are reported by their content instead)
fn bounds_of<T: DiffableStr + ?Sized>(src: &T, toks: &[&T]) -> String {
    let base = src.as_bytes().as_ptr() as usize;
    let len = src.as_bytes().len();
    let mut out = vec![];
    for t in toks {
        let p = t.as_bytes().as_ptr() as usize;
        let l = t.as_bytes().len();
        if p >= base && p + l <= base + len {
            out.push(format!("{}:{}", p - base, p - base + l));
        } else {
            // not a sub-slice of the input
            out.push(format!("X{}", hex(t.as_bytes())));
        }
    }
    join(out, ",")
}

fn tokenize<'a, T: DiffableStr + ?Sized>(kind: &str, s: &'a T) -> Vec<&'a T> {
    match kind {
        "lines" => s.tokenize_lines(),
        "lnl" => s.tokenize_lines_and_newlines(),
        "words" => s.tokenize_words(),
        "chars" => s.tokenize_chars(),
        "uwords" => s.tokenize_unicode_words(),
        "graphemes" => s.tokenize_graphemes(),
        _ => panic!("bad tokenizer"),
    }
}

fn case_tok(kv: &Kv) -> String {
    let kind = kv["kind"];
    let text = unhex(kv["text"]);
    if kv["mode"] == "str" {
        let s = std::str::from_utf8(&text).expect("str mode needs valid utf-8");
        let toks = tokenize(kind, s);
        format!("toks={}", bounds_of(s, &toks))
    } else {
        let s = &text[..];
        let toks = tokenize(kind, s);
        format!("toks={}", bounds_of(s, &toks))
    }
}

fn case_utf8(kv: &Kv) -> String {
    use bstr::ByteSlice;
    let text = unhex(kv["text"]);
    let chars: Vec<String> = text
        .char_indices()
        .map(|(s, e, c)| format!("{}:{}:{}", s, e, c as u32))
        .collect();
    let lossy = String::from_utf8_lossy(&text).into_owned();
    let valid = std::str::from_utf8(&text).is_ok();
    let strchars = if valid {
        let s = std::str::from_utf8(&text).unwrap();
        join(
            s.char_indices()
                .map(|(i, c)| format!("{}:{}:{}", i, i + c.len_utf8(), c as u32))
                .collect(),
            ",",
        )
    } else {
        "invalid".into()
    };
    format!(
        "chars={} lossy={} valid={} strchars={}",
        join(chars, ","),
        hex(lossy.as_bytes()),
        if valid { 1 } else { 0 },
        strchars
    )
}

fn case_ws(kv: &Kv) -> String {
    let (lo, hi) = parse_range(kv["range"]);
    let mut v = vec![];
    for cp in lo..hi {
        if let Some(c) = char::from_u32(cp as u32) {
            if c.is_whitespace() {
                v.push(cp.to_string());
            }
        }
    }
    format!("ws={}", join(v, ","))
}

fn cfg(kv: &Kv) -> (similar::TextDiffConfig, Option<u64>) {
    let mut c = TextDiff::configure();
    c.algorithm(parse_alg(kv["alg"]));
    if let Some(v) = kv.get("nlo") {
        match *v {
            "0" => {
                c.newline_terminated(false);
            }
            "1" => {
                c.newline_terminated(true);
            }
            _ => {}
        }
    }
    let dl = kv.get("dl").and_then(|x| parse_opt(x));
    (c, dl)
}

fn set_deadline(c: &mut similar::TextDiffConfig, dl: Option<u64>, via: &str) {
    if dl.is_some() {
        install_clock(dl);
        match via {
            "timeout" => {
                c.timeout(std::time::Duration::from_secs(3600));
            }
            "timeout_max" => {
                // a timeout too large for an Instant: duration_to_deadline gives None = no deadline
                c.timeout(std::time::Duration::MAX);
            }
            _ => {
                c.deadline(std::time::Instant::now() + std::time::Duration::from_secs(3600));
            }
        }
    }
}

fn diff_with<'a, T: DiffableStr + ?Sized>(
    c: &similar::TextDiffConfig,
    kind: &str,
    old: &'a T,
    new: &'a T,
) -> TextDiff<'a, 'a, 'a, T> {
    match kind {
        "lines" => c.diff_lines(old, new),
        "words" => c.diff_words(old, new),
        "chars" => c.diff_chars(old, new),
        "uwords" => c.diff_unicode_words(old, new),
        "graphemes" => c.diff_graphemes(old, new),
        _ => panic!("bad tokenizer"),
    }
}

fn alg_letter(a: similar::Algorithm) -> &'static str {
    match a {
        similar::Algorithm::Myers => "M",
        similar::Algorithm::Patience => "P",
        similar::Algorithm::Lcs => "L",
    }
}

fn textdiff_report<'a, T: DiffableStr + ?Sized>(d: &'a TextDiff<'a, 'a, 'a, T>, old: &'a T, new: &'a T, probes: u64) -> String {
    let changes: Vec<String> = d
        .iter_all_changes()
        .map(|c| {
            format!(
                "{}:{}:{}:{}",
                fmt_tag(c.tag()),
                fmt_opt(c.old_index()),
                fmt_opt(c.new_index()),
                hex(c.value().as_bytes())
            )
        })
        .collect();
    // per-op expansion must agree with whole-diff iteration
    let per_op: Vec<String> = d
        .ops()
        .iter()
        .flat_map(|op| d.iter_changes(op))
        .map(|c| {
            format!(
                "{}:{}:{}:{}",
                fmt_tag(c.tag()),
                fmt_opt(c.old_index()),
                fmt_opt(c.new_index()),
                hex(c.value().as_bytes())
            )
        })
        .collect();
    // the same iterators advanced by next() a few times and then finished by internal iteration (for_each / fold /
    // count / last go through Iterator::fold, which an iterator may override) must yield the rest of the list
    let fmt1 = |c: similar::Change<&'a T>| {
        format!("{}:{}:{}:{}", fmt_tag(c.tag()), fmt_opt(c.old_index()), fmt_opt(c.new_index()), hex(c.value().as_bytes()))
    };
    let mut internal_ok = true;
    let nchg = changes.len();
    for k in [0usize, 1, 2, nchg / 2, nchg.saturating_sub(1)] {
        if k > nchg {
            continue;
        }
        let mut it = d.iter_all_changes();
        for _ in 0..k {
            it.next();
        }
        let mut rest: Vec<String> = Vec::new();
        it.for_each(|c| rest.push(fmt1(c)));
        internal_ok &= rest[..] == changes[k..];
        internal_ok &= d.iter_all_changes().skip(k).count() == nchg - k;
        let mut it = d.iter_all_changes();
        for _ in 0..k {
            it.next();
        }
        internal_ok &= it.last().map(fmt1) == if k < nchg { changes.last().cloned() } else { None };
        let mut it = d.iter_all_changes();
        for _ in 0..k {
            it.next();
        }
        internal_ok &= it.fold(0usize, |a, c| a + c.value().as_bytes().len() + 1)
            == changes[k..].iter().map(|s| (s.len() - s.rfind(':').unwrap() - 1) / 2 + 1).sum::<usize>();
    }
    for op in d.ops() {
        let all: Vec<String> = d.iter_changes(op).map(fmt1).collect();
        for k in [1usize, all.len() / 2] {
            if k > all.len() {
                continue;
            }
            let mut it = d.iter_changes(op);
            for _ in 0..k {
                it.next();
            }
            let mut rest: Vec<String> = Vec::new();
            it.for_each(|c| rest.push(fmt1(c)));
            internal_ok &= rest[..] == all[k..];
            internal_ok &= d.iter_changes(op).skip(k).count() == all.len() - k;
        }
    }
    let direct = similar::capture_diff_slices(d.algorithm(), d.old_slices(), d.new_slices());
    format!(
        "ops={} direct={} nt={} alg={} probes={} ratio={} otoks={} ntoks={} changes={} perop_same={}",
        fmt_calls(&ops_to_calls(d.ops())),
        fmt_calls(&ops_to_calls(&direct)),
        if d.newline_terminated() { 1 } else { 0 },
        alg_letter(d.algorithm()),
        probes,
        d.ratio().to_bits(),
        bounds_of(old, d.old_slices()),
        bounds_of(new, d.new_slices()),
        join(changes.clone(), ","),
        if changes == per_op && internal_ok { 1 } else { 0 }
    )
}

// other content of the same length and line structure: ASCII letters and digits are rotated, everything else
// (terminators, multi-byte sequences, invalid bytes) stays
fn scramble(b: &mut [u8]) {
    for (i, x) in b.iter_mut().enumerate() {
        if x.is_ascii_lowercase() {
            *x = b'a' + (*x - b'a' + 1 + (i % 3) as u8) % 26;
        } else if x.is_ascii_digit() {
            *x = b'0' + (*x - b'0' + 1) % 10;
        } else if x.is_ascii_uppercase() {
            *x = b'A' + (*x - b'A' + 1) % 26;
        }
    }
}

fn case_textdiff(kv: &Kv) -> String {
    let kind = kv["tok"];
    let o = unhex(kv["old"]);
    let n = unhex(kv["new"]);
    let (mut c, dl) = cfg(kv);
    let via = kv.get("via").copied().unwrap_or("deadline");
    if via == "timeout_max" {
        c.timeout(std::time::Duration::MAX);
    } else {
        set_deadline(&mut c, dl, via);
    }
    similar::verif::set_repair_swap(kv.get("repair").copied().unwrap_or("0") == "1");
    // the TextDiff::from_* constructors = default configuration (Myers, no deadline, default newline flag)
    fn ctor<'a, T: DiffableStr + ?Sized>(kind: &str, old: &'a T, new: &'a T) -> TextDiff<'a, 'a, 'a, T> {
        match kind {
            "lines" => TextDiff::from_lines(old, new),
            "words" => TextDiff::from_words(old, new),
            "chars" => TextDiff::from_chars(old, new),
            "uwords" => TextDiff::from_unicode_words(old, new),
            "graphemes" => TextDiff::from_graphemes(old, new),
            _ => panic!("bad tokenizer"),
        }
    }
    fn same_diff<'a, 'b, T: DiffableStr + ?Sized>(a: &TextDiff<'a, 'a, 'a, T>, b: &TextDiff<'b, 'b, 'b, T>) -> bool {
        same_ops(a.ops(), b.ops())
            && a.algorithm() == b.algorithm()
            && a.newline_terminated() == b.newline_terminated()
            && a.old_slices().len() == b.old_slices().len()
            && a.new_slices().len() == b.new_slices().len()
            && a.old_slices().iter().zip(b.old_slices()).all(|(x, y)| x.as_bytes() == y.as_bytes())
            && a.new_slices().iter().zip(b.new_slices()).all(|(x, y)| x.as_bytes() == y.as_bytes())
    }
    // the same diff through the other DiffableStrRef instances (String, Cow<str>, Vec<u8>, Cow<[u8]>)
    fn diff_ref<'a, R: similar::DiffableStrRef + ?Sized>(
        c: &similar::TextDiffConfig,
        kind: &str,
        old: &'a R,
        new: &'a R,
    ) -> TextDiff<'a, 'a, 'a, R::Output> {
        match kind {
            "lines" => c.diff_lines(old, new),
            "words" => c.diff_words(old, new),
            "chars" => c.diff_chars(old, new),
            "uwords" => c.diff_unicode_words(old, new),
            "graphemes" => c.diff_graphemes(old, new),
            _ => panic!("bad tokenizer"),
        }
    }
    let defaults = kv["alg"] == "M" && dl.is_none() && via != "timeout_max" && kv.get("nlo").copied().unwrap_or("-") == "-";
    let r = if kv["mode"] == "str" {
        let os = std::str::from_utf8(&o).unwrap();
        let ns = std::str::from_utf8(&n).unwrap();
        // the builder has been used before: on other data of the same shape (old and new swapped), and on the very
        // same buffers holding other content of the same length (refilled in place afterwards)
        let mut ob = o.clone();
        let mut nb = n.clone();
        if dl.is_none() && o.len() + n.len() < 200_000 {
            let _ = diff_with(&c, kind, ns, os).ops().len();
            scramble(&mut ob);
            scramble(&mut nb);
            let _ = diff_with(&c, kind, std::str::from_utf8(&ob).unwrap(), std::str::from_utf8(&nb).unwrap()).ops().len();
            ob.copy_from_slice(&o);
            nb.copy_from_slice(&n);
        }
        let os = std::str::from_utf8(&ob).unwrap();
        let ns = std::str::from_utf8(&nb).unwrap();
        let d = diff_with(&c, kind, os, ns);
        let probes = if dl.is_some() { similar::verif::clock_remove() } else { 0 };
        let mut cs = !defaults || same_diff(&d, &ctor(kind, os, ns));
        if dl.is_none() {
            let (so, sn) = (os.to_string(), ns.to_string());
            let (co, cn): (std::borrow::Cow<str>, std::borrow::Cow<str>) = (std::borrow::Cow::Borrowed(os), std::borrow::Cow::Owned(ns.to_string()));
            cs = cs && same_diff(&d, &diff_ref(&c, kind, &so, &sn)) && same_diff(&d, &diff_ref(&c, kind, &co, &cn));
        }
        format!("{} ctor_same={}", textdiff_report(&d, os, ns, probes), if cs { 1 } else { 0 })
    } else {
        let mut ob = o.clone();
        let mut nb = n.clone();
        if dl.is_none() && o.len() + n.len() < 200_000 {
            let _ = diff_with(&c, kind, &n[..], &o[..]).ops().len();
            scramble(&mut ob);
            scramble(&mut nb);
            let _ = diff_with(&c, kind, &ob[..], &nb[..]).ops().len();
            ob.copy_from_slice(&o);
            nb.copy_from_slice(&n);
        }
        let (o, n) = (ob, nb);
        let d = diff_with(&c, kind, &o[..], &n[..]);
        let probes = if dl.is_some() { similar::verif::clock_remove() } else { 0 };
        let mut cs = !defaults || same_diff(&d, &ctor(kind, &o[..], &n[..]));
        if dl.is_none() {
            let (co, cn): (std::borrow::Cow<[u8]>, std::borrow::Cow<[u8]>) = (std::borrow::Cow::Owned(o.clone()), std::borrow::Cow::Borrowed(&n[..]));
            cs = cs && same_diff(&d, &diff_ref(&c, kind, &o, &n)) && same_diff(&d, &diff_ref(&c, kind, &co, &cn));
        }
        format!("{} ctor_same={}", textdiff_report(&d, &o[..], &n[..], probes), if cs { 1 } else { 0 })
    };
    similar::verif::set_repair_swap(false);
    r
}

fn case_udiff(kv: &Kv) -> String {
    let o = unhex(kv["old"]);
    let n = unhex(kv["new"]);
    let (c, _) = cfg(kv);
    let radius: usize = kv["radius"].parse().unwrap();
    let header = kv["header"] == "1";
    let hint = kv["hint"] == "1";
    let via = kv["via"];
    let repair = kv.get("repair").copied().unwrap_or("0") == "1";
    similar::verif::set_repair_swap(repair);
    fn render<'a, T: DiffableStr + ?Sized>(
        d: &'a TextDiff<'a, 'a, 'a, T>,
        radius: usize,
        header: bool,
        hint: bool,
        via: &str,
    ) -> Vec<u8> {
        let mut u = d.unified_diff();
        // the same VALUE used before with other settings: render and iterate it once with another radius, the
        // opposite hint and another header, then configure it as asked (setters called last decide)
        u.context_radius(radius + 2).missing_newline_hint(!hint).header("x", "y");
        let _ = u.to_string();
        let _ = u.iter_hunks().count();
        let mut sink = vec![];
        let _ = u.to_writer(&mut sink);
        let mut fresh = d.unified_diff();
        u.context_radius(radius).missing_newline_hint(hint);
        fresh.context_radius(radius).missing_newline_hint(hint);
        if header {
            u.header("a", "b");
            fresh.header("a", "b");
        }
        // a header cannot be unset; without one compare with a fresh value, otherwise use the reused one
        let u = if header { u } else { fresh };
        match via {
            "display" => {
                // formatter flags do not change what is written
                let plain = u.to_string();
                if format!("{:4}", u) != plain || format!("{:>9}", u) != plain || format!("{:*^5}", u) != plain || format!("{:.0}", u) != plain {
                    panic!("Display depends on formatter flags");
                }
                for h in u.iter_hunks() {
                    let hp = h.to_string();
                    if format!("{:6}", h) != hp || format!("{:.0}", h) != hp {
                        panic!("hunk Display depends on formatter flags");
                    }
                }
                plain.into_bytes()
            }
            "writer" => {
                let mut out = vec![];
                u.to_writer(&mut out).unwrap();
                out
            }
            "writer1" => {
                // a conforming io::Write that accepts at most one byte per write() call
                struct OneByte(Vec<u8>);
                impl std::io::Write for OneByte {
                    fn write(&mut self, buf: &[u8]) -> std::io::Result<usize> {
                        if buf.is_empty() {
                            return Ok(0);
                        }
                        self.0.push(buf[0]);
                        Ok(1)
                    }
                    fn flush(&mut self) -> std::io::Result<()> {
                        Ok(())
                    }
                }
                let mut out = OneByte(vec![]);
                u.to_writer(&mut out).unwrap();
                out.0
            }
            "hunks" => {
                // per-hunk writer, file header written by hand
                let mut out = vec![];
                let mut first = true;
                for h in u.iter_hunks() {
                    if first && header {
                        out.extend_from_slice(b"--- a\n+++ b\n");
                    }
                    first = false;
                    h.to_writer(&mut out).unwrap();
                }
                out
            }
            _ => panic!("bad via"),
        }
    }
    let out = if via == "fn" {
        // udiff::unified_diff (str only)
        let os = std::str::from_utf8(&o).unwrap();
        let ns = std::str::from_utf8(&n).unwrap();
        similar::udiff::unified_diff(
            parse_alg(kv["alg"]),
            os,
            ns,
            radius,
            if header { Some(("a", "b")) } else { None },
        )
        .into_bytes()
    } else if kv["mode"] == "str" {
        let os = std::str::from_utf8(&o).unwrap();
        let ns = std::str::from_utf8(&n).unwrap();
        let d = c.diff_lines(os, ns);
        render(&d, radius, header, hint, via)
    } else {
        let d = c.diff_lines(&o[..], &n[..]);
        render(&d, radius, header, hint, via)
    };
    // Display vs to_writer on the same diff: identical on str; Display = lossy(writer) on bytes
    let rel = if via == "display" {
        let w = if kv["mode"] == "str" {
            let os = std::str::from_utf8(&o).unwrap();
            let ns = std::str::from_utf8(&n).unwrap();
            let d = c.diff_lines(os, ns);
            render(&d, radius, header, hint, "writer")
        } else {
            let d = c.diff_lines(&o[..], &n[..]);
            render(&d, radius, header, hint, "writer")
        };
        let lossy = String::from_utf8_lossy(&w).into_owned().into_bytes();
        format!(
            " writer_same={} lossy_writer_same={}",
            if w == out { 1 } else { 0 },
            if lossy == out { 1 } else { 0 }
        )
    } else {
        String::new()
    };
    similar::verif::set_repair_swap(false);
    format!("out={}{}", hex(&out), rel)
}

fn fmt_slices<T: DiffableStr + ?Sized>(v: &[(ChangeTag, &T)]) -> String {
    join(
        v.iter()
            .map(|(t, s)| format!("{}:{}", fmt_tag(*t), hex(s.as_bytes())))
            .collect(),
        ",",
    )
}

// byte offsets of every returned slice inside its source text (old for Equal/Delete, new for Insert)
fn fmt_bounds<T: DiffableStr + ?Sized>(v: &[(ChangeTag, &T)], old: &T, new: &T) -> String {
    join(
        v.iter()
            .map(|(t, s)| {
                let src = if *t == ChangeTag::Insert { new } else { old };
                let base = src.as_bytes().as_ptr() as usize;
                let p = s.as_bytes().as_ptr() as usize;
                let l = s.as_bytes().len();
                if p >= base && p + l <= base + src.as_bytes().len() {
                    format!("{}:{}:{}", fmt_tag(*t), p - base, p - base + l)
                } else {
                    format!("{}:X:X", fmt_tag(*t))
                }
            })
            .collect(),
        ",",
    )
}

fn case_remap(kv: &Kv) -> String {
    let kind = kv["tok"];
    let alg = parse_alg(kv["alg"]);
    let o = unhex(kv["old"]);
    let n = unhex(kv["new"]);
    fn helper<'x, T: similar::DiffableStrRef + ?Sized>(
        kind: &str,
        alg: similar::Algorithm,
        old: &'x T,
        new: &'x T,
    ) -> Vec<(ChangeTag, &'x T::Output)> {
        match kind {
            "chars" => similar::utils::diff_chars(alg, old, new),
            "words" => similar::utils::diff_words(alg, old, new),
            "uwords" => similar::utils::diff_unicode_words(alg, old, new),
            "graphemes" => similar::utils::diff_graphemes(alg, old, new),
            "lines" => similar::utils::diff_lines(alg, old, new),
            _ => panic!("bad tokenizer"),
        }
    }
    if kv["mode"] == "str" {
        let os = std::str::from_utf8(&o).unwrap();
        let ns = std::str::from_utf8(&n).unwrap();
        let v = helper(kind, alg, os, ns);
        // the explicit remapper over the same diff must give the same slices
        let mut c = TextDiff::configure();
        c.algorithm(alg);
        let d = diff_with(&c, kind, os, ns);
        let rm = similar::utils::TextDiffRemapper::from_text_diff(&d, os, ns);
        let v2: Vec<(ChangeTag, &str)> = d.ops().iter().flat_map(|op| rm.iter_slices(op)).collect();
        // the other constructor and the two direct slicers must agree with iter_slices
        // a remapper over separate, equal copies of the texts must give equal slices
        let (os_copy, ns_copy) = (os.to_string(), ns.to_string());
        let copy_same = {
            let rmc = similar::utils::TextDiffRemapper::from_text_diff(&d, &os_copy[..], &ns_copy[..]);
            let vc: Vec<(ChangeTag, &str)> = d.ops().iter().flat_map(|op| rmc.iter_slices(op)).collect();
            vc == v2
        };
        let rm2 = similar::utils::TextDiffRemapper::new(d.old_slices(), d.new_slices(), os, ns);
        let v3: Vec<(ChangeTag, &str)> = d.ops().iter().flat_map(|op| rm2.iter_slices(op)).collect();
        let mut v4: Vec<(ChangeTag, &str)> = vec![];
        for op in d.ops() {
            let (tag, orr, nrr) = op.as_tag_tuple();
            match tag {
                similar::DiffTag::Equal => v4.push((ChangeTag::Equal, rm.slice_old(orr).unwrap())),
                similar::DiffTag::Delete => v4.push((ChangeTag::Delete, rm.slice_old(orr).unwrap())),
                similar::DiffTag::Insert => v4.push((ChangeTag::Insert, rm.slice_new(nrr).unwrap())),
                similar::DiffTag::Replace => {
                    v4.push((ChangeTag::Delete, rm.slice_old(orr).unwrap()));
                    v4.push((ChangeTag::Insert, rm.slice_new(nrr).unwrap()));
                }
            }
        }
        let same = (if kind == "lines" { true } else { v == v2 }) && v2 == v3 && v2 == v4 && copy_same;
        format!(
            "slices={} remapper_same={} ops={} otoks={} ntoks={} bounds={}",
            fmt_slices(&v),
            if same { 1 } else { 0 },
            fmt_calls(&ops_to_calls(d.ops())),
            bounds_of(os, d.old_slices()),
            bounds_of(ns, d.new_slices()),
            fmt_bounds(&v, os, ns)
        )
    } else {
        let v = helper(kind, alg, &o[..], &n[..]);
        let mut c = TextDiff::configure();
        c.algorithm(alg);
        let d = diff_with(&c, kind, &o[..], &n[..]);
        let rm = similar::utils::TextDiffRemapper::from_text_diff(&d, &o[..], &n[..]);
        let v2: Vec<(ChangeTag, &[u8])> = d.ops().iter().flat_map(|op| rm.iter_slices(op)).collect();
        // the other constructor and the two direct slicers must agree with iter_slices
        let (o_copy, n_copy) = (o.clone(), n.clone());
        let copy_same = {
            let rmc = similar::utils::TextDiffRemapper::from_text_diff(&d, &o_copy[..], &n_copy[..]);
            let vc: Vec<(ChangeTag, &[u8])> = d.ops().iter().flat_map(|op| rmc.iter_slices(op)).collect();
            vc == v2
        };
        let rm2 = similar::utils::TextDiffRemapper::new(d.old_slices(), d.new_slices(), &o[..], &n[..]);
        let v3: Vec<(ChangeTag, &[u8])> = d.ops().iter().flat_map(|op| rm2.iter_slices(op)).collect();
        let mut v4: Vec<(ChangeTag, &[u8])> = vec![];
        for op in d.ops() {
            let (tag, orr, nrr) = op.as_tag_tuple();
            match tag {
                similar::DiffTag::Equal => v4.push((ChangeTag::Equal, rm.slice_old(orr).unwrap())),
                similar::DiffTag::Delete => v4.push((ChangeTag::Delete, rm.slice_old(orr).unwrap())),
                similar::DiffTag::Insert => v4.push((ChangeTag::Insert, rm.slice_new(nrr).unwrap())),
                similar::DiffTag::Replace => {
                    v4.push((ChangeTag::Delete, rm.slice_old(orr).unwrap()));
                    v4.push((ChangeTag::Insert, rm.slice_new(nrr).unwrap()));
                }
            }
        }
        let same = (if kind == "lines" { true } else { v == v2 }) && v2 == v3 && v2 == v4 && copy_same;
        format!(
            "slices={} remapper_same={} ops={} otoks={} ntoks={} bounds={}",
            fmt_slices(&v),
            if same { 1 } else { 0 },
            fmt_calls(&ops_to_calls(d.ops())),
            bounds_of(&o[..], d.old_slices()),
            bounds_of(&n[..], d.new_slices()),
            fmt_bounds(&v, &o[..], &n[..])
        )
    }
}

fn case_slices(kv: &Kv) -> String {
    // utils::diff_slices over integer items
    let alg = parse_alg(kv["alg"]);
    let old = parse_list(kv["old"]);
    let new = parse_list(kv["new"]);
    let v = similar::utils::diff_slices(alg, &old[..], &new[..]);
    format!(
        "slices={}",
        join(
            v.iter()
                .map(|(t, s)| format!(
                    "{}:{}",
                    fmt_tag(*t),
                    s.iter().map(|x| x.to_string()).collect::<Vec<_>>().join(".")
                ))
                .collect(),
            ","
        )
    )
}

fn case_inline(kv: &Kv) -> String {
    let o = unhex(kv["old"]);
    let n = unhex(kv["new"]);
    let (c, _) = cfg(kv);
    let dl = kv.get("idl").and_then(|x| parse_opt(x));
    fn fmt_ch<'s, T: DiffableStr + ?Sized>(ch: similar::InlineChange<'s, T>) -> String {
        let vals: Vec<String> = ch
            .values()
            .iter()
            .map(|(e, v)| format!("{}.{}", if *e { 1 } else { 0 }, hex(v.as_bytes())))
            .collect();
        // the lossy accessors agree with values(): same segments, same emphasis, lossy text of the same bytes
        let lossy: Vec<(bool, String)> = ch.iter_strings_lossy().map(|(e, t)| (e, t.into_owned())).collect();
        let want: Vec<(bool, String)> = ch
            .values()
            .iter()
            .map(|(e, v)| (*e, String::from_utf8_lossy(v.as_bytes()).into_owned()))
            .collect();
        let cat = |v: &Vec<(bool, String)>| v.iter().map(|x| x.1.clone()).collect::<String>();
        if cat(&lossy) != cat(&want) || (lossy.len() == want.len() && lossy != want) {
            panic!("iter_strings_lossy disagrees with values()");
        }
        format!(
            "{}:{}:{}:{}:{}",
            fmt_tag(ch.tag()),
            fmt_opt(ch.old_index()),
            fmt_opt(ch.new_index()),
            if ch.missing_newline() { 1 } else { 0 },
            join(vals, ";")
        )
    }
    fn report<'a, T: DiffableStr + ?Sized>(d: &'a TextDiff<'a, 'a, 'a, T>, dl: Option<u64>) -> String {
        let mut per_op = vec![];
        let mut probes_total = 0;
        let mut default_ok = true;
        for op in d.ops() {
            let deadline = install_clock(dl);
            let chs: Vec<String> = d.iter_inline_changes_deadline(op, deadline).map(fmt_ch).collect();
            if dl.is_some() {
                probes_total += similar::verif::clock_remove();
            }
            if dl.is_none() {
                // iter_inline_changes(op) = the same with a 500 ms timeout counted from the call: under a clock that
                // never expires the result is that of no deadline, and the value reaching the algorithm is call
                // time + 500 ms
                use std::time::{Duration, Instant};
                similar::verif::clock_install(None);
                similar::verif::reset_last_deadline();
                let t0 = Instant::now();
                let chs2: Vec<String> = d.iter_inline_changes(op).map(fmt_ch).collect();
                let t1 = Instant::now();
                similar::verif::clock_remove();
                let half = Duration::from_millis(500);
                let dl_ok = match similar::verif::last_deadline() {
                    None => true,
                    Some(x) => x >= t0 + half && x <= t1 + half,
                };
                if chs2 != chs || !dl_ok {
                    default_ok = false;
                }
            }
            per_op.push(join(chs, ","));
        }
        let _ = probes_total;
        format!(
            "ops={} inline={} default_ok={}",
            fmt_calls(&ops_to_calls(d.ops())),
            join(per_op, "|"),
            if default_ok { 1 } else { 0 }
        )
    }
    if kv["mode"] == "str" {
        let os = std::str::from_utf8(&o).unwrap();
        let ns = std::str::from_utf8(&n).unwrap();
        let d = c.diff_lines(os, ns);
        report(&d, dl)
    } else {
        let d = c.diff_lines(&o[..], &n[..]);
        report(&d, dl)
    }
}

fn case_close(kv: &Kv) -> String {
    let word = unhex(kv["word"]);
    let cands: Vec<Vec<u8>> = if kv["cands"] == "-" {
        vec![]
    } else {
        kv["cands"]
            .split('|')
            .map(|x| if x == "e" { vec![] } else { unhex(x) })
            .collect()
    };
    let n: usize = kv["n"].parse().unwrap();
    let cutoff = f32::from_bits(kv["cutoff"].parse::<u32>().unwrap());
    // word and candidates share buffers where they can: a candidate that is a prefix of the word is a sub-slice of
    // the word's own buffer, and if the word is a proper prefix of some candidate, the word is a sub-slice of that
    // candidate's buffer (aliasing must not matter)
    let host: Option<&Vec<u8>> = cands.iter().find(|c| c.len() > word.len() && c.starts_with(&word));
    let wbuf: &[u8] = match host {
        Some(h) => &h[..word.len()],
        None => &word[..],
    };
    let w = std::str::from_utf8(wbuf).unwrap();
    let cs: Vec<&str> = cands
        .iter()
        .map(|c| {
            if c.len() <= wbuf.len() && wbuf.starts_with(c) {
                std::str::from_utf8(&wbuf[..c.len()]).unwrap()
            } else {
                std::str::from_utf8(c).unwrap()
            }
        })
        .collect();
    similar::verif::reset_last_deadline();
    let r = similar::get_close_matches(w, &cs, n, cutoff);
    if similar::verif::last_deadline().is_some() {
        panic!("get_close_matches ran its diffs under a deadline");
    }
    // the [u8] instance of the same call (valid UTF-8: same characters, same ratios, same byte-wise order)
    {
        let cb: Vec<&[u8]> = cs.iter().map(|c| c.as_bytes()).collect();
        let rb = similar::get_close_matches(w.as_bytes(), &cb, n, cutoff);
        let ra: Vec<&[u8]> = r.iter().map(|x| x.as_bytes()).collect();
        if ra != rb {
            panic!("get_close_matches on [u8] differs from str");
        }
    }
    // also report each candidate's ratio bits so the oracle can be checked independently
    let ratios: Vec<String> = cs
        .iter()
        .map(|c| {
            let d = TextDiff::from_chars(w, *c);
            d.ratio().to_bits().to_string()
        })
        .collect();
    format!(
        "res={} ratios={}",
        join(
            r.iter()
                .map(|x| if x.is_empty() { "e".to_string() } else { hex(x.as_bytes()) })
                .collect(),
            "|"
        ),
        join(ratios, ",")
    )
}

fn case_identify(kv: &Kv) -> String {
    use similar::algorithms::IdentifyDistinct;
    let old = parse_list(kv["old"]);
    let new = parse_list(kv["new"]);
    let (os, oe) = parse_range(kv["or"]);
    let (ns, ne) = parse_range(kv["nr"]);
    macro_rules! go {
        ($t:ty) => {{
            let ih = IdentifyDistinct::<$t>::new(&old[..], os..oe, &new[..], ns..ne);
            let orr = ih.old_range();
            let nrr = ih.new_range();
            let oids: Vec<String> = orr.clone().map(|i| (ih.old_lookup()[i] as u64).to_string()).collect();
            let nids: Vec<String> = nrr.clone().map(|i| (ih.new_lookup()[i] as u64).to_string()).collect();
            format!(
                "oids={} nids={} or={}:{} nr={}:{}",
                join(oids, ","),
                join(nids, ","),
                orr.start,
                orr.end,
                nrr.start,
                nrr.end
            )
        }};
    }
    match kv["w"] {
        "u8" => go!(u8),
        "u16" => go!(u16),
        "u32" => go!(u32),
        "u64" => go!(u64),
        _ => panic!("bad width"),
    }
}

// C20: the same capture repeated in several threads (fresh RandomState per
// HashMap) and under relabellings must always give the same ops
fn case_repeat(kv: &Kv) -> String {
    let alg = parse_alg(kv["alg"]);
    let old = parse_list(kv["old"]);
    let new = parse_list(kv["new"]);
    let (os, oe) = parse_range(kv["or"]);
    let (ns, ne) = parse_range(kv["nr"]);
    let reps: usize = kv["reps"].parse().unwrap();
    let base = similar::capture_diff(alg, &old[..], os..oe, &new[..], ns..ne);
    let mut all_same = true;
    // item types whose (legal) Hash collides: equality pattern unchanged, hashes coarse / constant
    #[derive(PartialEq, Eq, PartialOrd, Ord, Clone, Copy)]
    struct Coarse(u64);
    impl std::hash::Hash for Coarse {
        fn hash<H: std::hash::Hasher>(&self, state: &mut H) {
            (self.0 % 4).hash(state)
        }
    }
    #[derive(PartialEq, Eq, PartialOrd, Ord, Clone, Copy)]
    struct Constant(u64);
    impl std::hash::Hash for Constant {
        fn hash<H: std::hash::Hasher>(&self, _state: &mut H) {}
    }
    {
        let o2: Vec<Coarse> = old.iter().map(|x| Coarse(*x)).collect();
        let n2: Vec<Coarse> = new.iter().map(|x| Coarse(*x)).collect();
        if !same_ops(&similar::capture_diff(alg, &o2[..], os..oe, &n2[..], ns..ne), &base) {
            all_same = false;
        }
        let o3: Vec<Constant> = old.iter().map(|x| Constant(*x)).collect();
        let n3: Vec<Constant> = new.iter().map(|x| Constant(*x)).collect();
        if !same_ops(&similar::capture_diff(alg, &o3[..], os..oe, &n3[..], ns..ne), &base) {
            all_same = false;
        }
        // equal contents: the very same object passed as old and as new (aliasing must not matter), through the
        // capture function and through the raw algorithm with a recording hook
        if old == new {
            if !same_ops(&similar::capture_diff(alg, &old[..], os..oe, &old[..], ns..ne), &base) {
                all_same = false;
            }
            let mut h = similar::algorithms::Capture::new();
            similar::algorithms::diff(alg, &mut h, &old[..], os..oe, &old[..], ns..ne).unwrap();
            let mut h2 = similar::algorithms::Capture::new();
            similar::algorithms::diff(alg, &mut h2, &old[..], os..oe, &new[..], ns..ne).unwrap();
            if !same_ops(h.ops(), h2.ops()) {
                all_same = false;
            }
        }
        // items that are not equal to themselves (floats with NaN): only PartialEq is needed by the per-algorithm
        // module functions; the same object passed twice must give what two separate copies give, and every
        // segment reported equal must be element-wise equal
        if old == new && alg != similar::Algorithm::Patience {
            let f: Vec<f64> = old.iter().map(|x| if *x % 3 == 0 { f64::NAN } else { *x as f64 }).collect();
            let g = f.clone();
            let run = |a: &[f64], b: &[f64]| -> Vec<similar::DiffOp> {
                let mut h = similar::algorithms::Capture::new();
                match alg {
                    similar::Algorithm::Lcs => similar::algorithms::lcs::diff(&mut h, a, os..oe, b, ns..ne).unwrap(),
                    _ => similar::algorithms::myers::diff(&mut h, a, os..oe, b, ns..ne).unwrap(),
                }
                h.into_ops()
            };
            let same_obj = run(&f[..], &f[..]);
            let copies = run(&f[..], &g[..]);
            if !same_ops(&same_obj, &copies) {
                all_same = false;
            }
            for op in &same_obj {
                if let (similar::DiffTag::Equal, o, n) = op.as_tag_tuple() {
                    if o.clone().zip(n.clone()).any(|(i, j)| f[j] != f[i]) {
                        all_same = false;
                    }
                }
            }
        }
        // old and new of DIFFERENT item types that compare equal across types while hashing differently
        #[derive(PartialEq, Eq, PartialOrd, Ord, Clone, Copy)]
        struct Wide(u64);
        impl std::hash::Hash for Wide {
            fn hash<H: std::hash::Hasher>(&self, state: &mut H) {
                (self.0 ^ 0x5555_5555_5555_5555u64).rotate_left(17).hash(state)
            }
        }
        impl PartialEq<u64> for Wide {
            fn eq(&self, other: &u64) -> bool {
                self.0 == *other
            }
        }
        let nw: Vec<Wide> = new.iter().map(|x| Wide(*x)).collect();
        if !same_ops(&similar::capture_diff(alg, &old[..], os..oe, &nw[..], ns..ne), &base) {
            all_same = false;
        }
        // the slice entry points (capture_diff_slices, utils::diff_slices) on the same colliding-hash items
        if os == 0 && ns == 0 && oe == old.len() && ne == new.len() {
            if !same_ops(&similar::capture_diff_slices(alg, &o2[..], &n2[..]), &base)
                || !same_ops(&similar::capture_diff_slices(alg, &o3[..], &n3[..]), &base)
            {
                all_same = false;
            }
            let want: Vec<(similar::ChangeTag, Vec<u64>)> = base
                .iter()
                .flat_map(|op| op.iter_slices(&old[..], &new[..]))
                .map(|(t, s)| (t, s.to_vec()))
                .collect();
            let got2: Vec<(similar::ChangeTag, Vec<u64>)> = similar::utils::diff_slices(alg, &o2[..], &n2[..])
                .into_iter()
                .map(|(t, s)| (t, s.iter().map(|x| x.0).collect()))
                .collect();
            let got3: Vec<(similar::ChangeTag, Vec<u64>)> = similar::utils::diff_slices(alg, &o3[..], &n3[..])
                .into_iter()
                .map(|(t, s)| (t, s.iter().map(|x| x.0).collect()))
                .collect();
            let got1: Vec<(similar::ChangeTag, Vec<u64>)> = similar::utils::diff_slices(alg, &old[..], &new[..])
                .into_iter()
                .map(|(t, s)| (t, s.to_vec()))
                .collect();
            if got1 != want || got2 != want || got3 != want {
                all_same = false;
            }
            let mut hs = similar::algorithms::Capture::new();
            similar::algorithms::diff_slices(alg, &mut hs, &old[..], &new[..]).unwrap();
            let mut hd = similar::algorithms::Capture::new();
            similar::algorithms::diff(alg, &mut hd, &old[..], 0..old.len(), &new[..], 0..new.len()).unwrap();
            if !same_ops(hs.ops(), hd.ops()) {
                all_same = false;
            }
        }
    }
    // relabellings: order preserving (x -> 3x+7), order reversing (x -> M - x), hash scrambling
    let maps: Vec<Box<dyn Fn(u64) -> u64 + Send + Sync>> = vec![
        Box::new(|x| x),
        Box::new(|x| 3 * x + 7),
        Box::new(|x| 1_000_000_007 - x),
        Box::new(|x| x.wrapping_mul(0x9E3779B97F4A7C15) ^ 0xD1B54A32D192ED03),
        // values that all collide when truncated to 32 bits, values with the top bit set, the extremes
        Box::new(|x| x << 32),
        Box::new(|x| (x << 33) | (1u64 << 63) | 1),
        Box::new(|x| u64::MAX - x),
    ];
    let maps = std::sync::Arc::new(maps);
    let mut handles = vec![];
    for t in 0..4usize {
        let old = old.clone();
        let new = new.clone();
        let base = base.clone();
        let maps = maps.clone();
        handles.push(std::thread::spawn(move || {
            let mut ok = true;
            for r in 0..reps {
                let f = &maps[(t + r) % maps.len()];
                let o2: Vec<u64> = old.iter().map(|x| f(*x)).collect();
                let n2: Vec<u64> = new.iter().map(|x| f(*x)).collect();
                let ops = similar::capture_diff(alg, &o2[..], os..oe, &n2[..], ns..ne);
                if !same_ops(&ops, &base) {
                    ok = false;
                }
            }
            ok
        }));
    }
    for h in handles {
        if !h.join().unwrap() {
            all_same = false;
        }
    }
    format!("ops={} all_same={}", fmt_calls(&ops_to_calls(&base)), if all_same { 1 } else { 0 })
}

// The deadline VALUE that reaches the algorithm (recorded by the similar_verif hook):
// timeouts must be measured from the start of the diff, absolute deadlines must arrive unchanged.
fn case_plumb(kv: &Kv) -> String {
    use std::time::{Duration, Instant};
    let entry = kv["entry"];
    let alg = parse_alg(kv["alg"]);
    let gap = Duration::from_millis(kv.get("gap").map(|x| x.parse().unwrap()).unwrap_or(15));
    let o = unhex(kv["old"]);
    let n = unhex(kv["new"]);
    let d = Duration::from_millis(kv.get("d").map(|x| x.parse().unwrap()).unwrap_or(5));
    let fmt = |seen: bool, exact: Option<bool>, lo: Option<bool>, hi: Option<bool>| {
        let f = |x: Option<bool>| match x {
            None => "-",
            Some(true) => "1",
            Some(false) => "0",
        };
        format!("seen={} exact={} lo={} hi={}", if seen { 1 } else { 0 }, f(exact), f(lo), f(hi))
    };
    // the virtual clock (never expiring) answers the probes; the recorded value is what we look at
    let window = |run: &mut dyn FnMut()| -> (Option<Instant>, Instant, Instant) {
        similar::verif::clock_install(None);
        similar::verif::reset_last_deadline();
        let t0 = Instant::now();
        run();
        let t1 = Instant::now();
        similar::verif::clock_remove();
        (similar::verif::last_deadline(), t0, t1)
    };
    // every probe of one diff must see the SAME deadline value (an inner run given another value shows as "mixed")
    let rel = |seen: Option<Instant>, t0: Instant, t1: Instant| match seen {
        None => fmt(false, None, None, None),
        Some(x) => fmt(true, None, Some(x >= t0 + d && !similar::verif::deadline_values_mixed()), Some(x <= t1 + d)),
    };
    let abs = |seen: Option<Instant>, want: Instant| match seen {
        None => fmt(false, None, None, None),
        Some(x) => fmt(true, Some(x == want && !similar::verif::deadline_values_mixed()), None, None),
    };
    let oi: Vec<u32> = o.iter().map(|x| *x as u32).collect();
    let ni: Vec<u32> = n.iter().map(|x| *x as u32).collect();
    match entry {
        // builder configured, time passes, then the diff runs
        "timeout" | "timeout_reuse" | "timeout_clone" => {
            let mut c = TextDiff::configure();
            c.algorithm(alg);
            c.timeout(d);
            std::thread::sleep(gap);
            if entry == "timeout_reuse" {
                // an earlier diff with the same builder
                let _ = c.diff_chars(&o[..], &n[..]);
                std::thread::sleep(gap);
            }
            let c2 = if entry == "timeout_clone" { c.clone() } else { c };
            let (seen, t0, t1) = window(&mut || {
                let _ = c2.diff_chars(&o[..], &n[..]);
            });
            rel(seen, t0, t1)
        }
        // the wall-clock comparison itself (no virtual clock installed): a deadline already in the past behaves like
        // a clock that is expired at every probe, one far in the future like a clock that never expires
        "real_past_then_future" => {
            // an expired deadline must leave nothing behind on this thread: the next diff, with a deadline far
            // away, behaves like no deadline
            let t = Instant::now();
            std::thread::sleep(Duration::from_millis(3));
            for _ in 0..3 {
                let _ = similar::capture_diff_slices_deadline(alg, &oi[..], &ni[..], Some(t));
            }
            let far = Instant::now() + Duration::from_secs(3600);
            let got = similar::capture_diff_slices_deadline(alg, &oi[..], &ni[..], Some(far));
            let want = similar::capture_diff_slices(alg, &oi[..], &ni[..]);
            let td = {
                let mut c = TextDiff::configure();
                c.algorithm(alg);
                c.deadline(far);
                c.diff_chars(&o[..], &n[..]).ops().to_vec()
            };
            let want_td = {
                let mut c = TextDiff::configure();
                c.algorithm(alg);
                c.diff_chars(&o[..], &n[..]).ops().to_vec()
            };
            fmt(true, Some(same_ops(&got, &want) && same_ops(&td, &want_td)), None, None)
        }
        "real_past" | "real_future" => {
            let past = entry == "real_past";
            let dlv = if past {
                let t = Instant::now();
                std::thread::sleep(Duration::from_millis(3));
                t
            } else {
                Instant::now() + Duration::from_secs(3600)
            };
            let got = similar::capture_diff_slices_deadline(alg, &oi[..], &ni[..], Some(dlv));
            let td = {
                let mut c = TextDiff::configure();
                c.algorithm(alg);
                c.deadline(dlv);
                c.diff_chars(&o[..], &n[..]).ops().to_vec()
            };
            similar::verif::clock_install(if past { Some(0) } else { None });
            let far = Instant::now() + Duration::from_secs(7200);
            let want = similar::capture_diff_slices_deadline(alg, &oi[..], &ni[..], Some(far));
            let want_td = {
                let mut c = TextDiff::configure();
                c.algorithm(alg);
                c.deadline(far);
                c.diff_chars(&o[..], &n[..]).ops().to_vec()
            };
            similar::verif::clock_remove();
            fmt(true, Some(got == want && td == want_td), None, None)
        }
        // both setters on one builder: the one called LAST decides
        "deadline_then_timeout" => {
            let mut c = TextDiff::configure();
            c.algorithm(alg);
            c.deadline(Instant::now() + Duration::from_secs(1900));
            c.timeout(d);
            std::thread::sleep(gap);
            let (seen, t0, t1) = window(&mut || {
                let _ = c.diff_chars(&o[..], &n[..]);
            });
            rel(seen, t0, t1)
        }
        "timeout_then_deadline" => {
            let want = Instant::now() + Duration::from_secs(2000);
            let mut c = TextDiff::configure();
            c.algorithm(alg);
            c.timeout(d);
            c.deadline(want);
            std::thread::sleep(gap);
            let (seen, _, _) = window(&mut || {
                let _ = c.diff_chars(&o[..], &n[..]);
            });
            abs(seen, want)
        }
        "deadline" => {
            let want = Instant::now() + Duration::from_secs(1800);
            let mut c = TextDiff::configure();
            c.algorithm(alg);
            c.deadline(want);
            std::thread::sleep(gap);
            let (seen, _, _) = window(&mut || {
                let _ = c.diff_chars(&o[..], &n[..]);
            });
            abs(seen, want)
        }
        "capture" => {
            let want = Instant::now() + Duration::from_secs(1700);
            let (seen, _, _) = window(&mut || {
                let _ = similar::capture_diff_deadline(alg, &oi[..], 0..oi.len(), &ni[..], 0..ni.len(), Some(want));
            });
            abs(seen, want)
        }
        "capture_slices" => {
            let want = Instant::now() + Duration::from_secs(1600);
            let (seen, _, _) = window(&mut || {
                let _ = similar::capture_diff_slices_deadline(alg, &oi[..], &ni[..], Some(want));
            });
            abs(seen, want)
        }
        "algo" => {
            let want = Instant::now() + Duration::from_secs(1500);
            let (seen, _, _) = window(&mut || {
                let mut h = similar::algorithms::Capture::new();
                let _ = similar::algorithms::diff_deadline(alg, &mut h, &oi[..], 0..oi.len(), &ni[..], 0..ni.len(), Some(want));
            });
            abs(seen, want)
        }
        "algo_slices" => {
            let want = Instant::now() + Duration::from_secs(1400);
            let (seen, _, _) = window(&mut || {
                let mut h = similar::algorithms::Capture::new();
                let _ = similar::algorithms::diff_slices_deadline(alg, &mut h, &oi[..], &ni[..], Some(want));
            });
            abs(seen, want)
        }
        "inline" => {
            // the second-level diff of iter_inline_changes_deadline gets the deadline it is given
            let want = Instant::now() + Duration::from_secs(1300);
            let mut c = TextDiff::configure();
            c.algorithm(alg);
            let td = c.diff_lines(&o[..], &n[..]);
            let (seen, _, _) = window(&mut || {
                for op in td.ops() {
                    for ch in td.iter_inline_changes_deadline(op, Some(want)) {
                        let _ = ch.tag();
                    }
                }
            });
            abs(seen, want)
        }
        _ => panic!("bad entry"),
    }
}

pub fn run(comp: &str, kv: &Kv) -> String {
    match comp {
        "tok" => case_tok(kv),
        "utf8" => case_utf8(kv),
        "ws" => case_ws(kv),
        "textdiff" => case_textdiff(kv),
        "udiff" => case_udiff(kv),
        "remap" => case_remap(kv),
        "slices" => case_slices(kv),
        "inline" => case_inline(kv),
        "close" => case_close(kv),
        "identify" => case_identify(kv),
        "repeat" => case_repeat(kv),
        "plumb" => case_plumb(kv),
        _ => format!("UNKNOWN-COMPONENT {}", comp),
    }
}
