// Text-layer components (tok, textdiff, udiff, remap, inline, close, identify).
use crate::Kv;

pub fn run(comp: &str, _kv: &Kv) -> String {
    format!("UNKNOWN-COMPONENT {}", comp)
}
