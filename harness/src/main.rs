// Harness: runs the real `similar` crate (path dependency on /repo, rebuilt
// from its working tree) on case lines and prints one canonical result line per
// case.  Contains no property logic.
use std::collections::HashMap;
use std::io::{BufRead, Write};
use std::sync::atomic::{AtomicUsize, Ordering};
use std::sync::{Arc, Mutex};
use std::time::{Duration, Instant};

mod text_cases;

pub type Kv<'a> = HashMap<&'a str, &'a str>;

pub fn parse_kv(line: &str) -> (String, Kv<'_>) {
    let mut it = line.split(' ').filter(|x| !x.is_empty());
    let comp = it.next().unwrap_or("").to_string();
    let mut kv = HashMap::new();
    for tok in it {
        if let Some(p) = tok.find('=') {
            kv.insert(&tok[..p], &tok[p + 1..]);
        }
    }
    (comp, kv)
}

pub fn parse_list(s: &str) -> Vec<u64> {
    if s == "-" || s.is_empty() {
        return vec![];
    }
    s.split(',').map(|x| x.parse().unwrap()).collect()
}

pub fn parse_range(s: &str) -> (usize, usize) {
    let mut it = s.split(':');
    let a = it.next().unwrap().parse().unwrap();
    let b = it.next().unwrap().parse().unwrap();
    (a, b)
}

pub fn parse_opt(s: &str) -> Option<u64> {
    if s == "-" {
        None
    } else {
        Some(s.parse().unwrap())
    }
}

thread_local! {
    static CMPS: std::cell::Cell<u64> = std::cell::Cell::new(0);
    // comparisons made after the virtual clock first answered "exceeded"
    static POST: std::cell::Cell<u64> = std::cell::Cell::new(0);
}

// same-side comparisons (old == old, new == new: what a hash table of items does) are counted too
thread_local! {
    pub static SCMPS: std::cell::Cell<u64> = std::cell::Cell::new(0);
}
#[derive(Debug, Clone, Copy, Hash, Eq, PartialOrd, Ord)]
pub struct OldItem(pub u64);
#[derive(Debug, Clone, Copy, Hash, Eq, PartialOrd, Ord)]
pub struct NewItem(pub u64);
impl PartialEq for OldItem {
    fn eq(&self, other: &OldItem) -> bool {
        SCMPS.with(|c| c.set(c.get() + 1));
        self.0 == other.0
    }
}
impl PartialEq for NewItem {
    fn eq(&self, other: &NewItem) -> bool {
        SCMPS.with(|c| c.set(c.get() + 1));
        self.0 == other.0
    }
}

impl PartialEq<OldItem> for NewItem {
    fn eq(&self, other: &OldItem) -> bool {
        CMPS.with(|c| c.set(c.get() + 1));
        if similar::verif::clock_expired() {
            POST.with(|c| c.set(c.get() + 1));
        }
        self.0 == other.0
    }
}

// utils::OffsetLookup-like Index implementation: vec[index - offset]
pub struct Off<T> {
    off: usize,
    v: Vec<T>,
}
impl<T> std::ops::Index<usize> for Off<T> {
    type Output = T;
    fn index(&self, index: usize) -> &T {
        &self.v[index - self.off]
    }
}

#[derive(Clone, Copy, PartialEq, Eq, Debug)]
pub enum Call {
    Eq(usize, usize, usize),
    Del(usize, usize, usize),
    Ins(usize, usize, usize),
    Rep(usize, usize, usize, usize),
    Fin,
}

// comparison of op lists by their fields (does not rely on the crate's own PartialEq for DiffOp)
pub fn same_ops(a: &[similar::DiffOp], b: &[similar::DiffOp]) -> bool {
    ops_to_calls(a) == ops_to_calls(b)
}

pub fn fmt_calls(cs: &[Call]) -> String {
    if cs.is_empty() {
        return "-".into();
    }
    cs.iter()
        .map(|c| match *c {
            Call::Eq(a, b, c) => format!("E:{}:{}:{}", a, b, c),
            Call::Del(a, b, c) => format!("D:{}:{}:{}", a, b, c),
            Call::Ins(a, b, c) => format!("I:{}:{}:{}", a, b, c),
            Call::Rep(a, b, c, d) => format!("R:{}:{}:{}:{}", a, b, c, d),
            Call::Fin => "F".into(),
        })
        .collect::<Vec<_>>()
        .join(",")
}

pub fn parse_calls(s: &str) -> Vec<Call> {
    if s == "-" || s.is_empty() {
        return vec![];
    }
    s.split(',')
        .map(|t| {
            let p: Vec<&str> = t.split(':').collect();
            let n = |i: usize| p[i].parse::<usize>().unwrap();
            match p[0] {
                "E" => Call::Eq(n(1), n(2), n(3)),
                "D" => Call::Del(n(1), n(2), n(3)),
                "I" => Call::Ins(n(1), n(2), n(3)),
                "R" => Call::Rep(n(1), n(2), n(3), n(4)),
                "F" => Call::Fin,
                _ => panic!("bad call"),
            }
        })
        .collect()
}

pub fn ops_to_calls(ops: &[similar::DiffOp]) -> Vec<Call> {
    ops.iter()
        .map(|op| match *op {
            similar::DiffOp::Equal {
                old_index,
                new_index,
                len,
            } => Call::Eq(old_index, new_index, len),
            similar::DiffOp::Delete {
                old_index,
                old_len,
                new_index,
            } => Call::Del(old_index, old_len, new_index),
            similar::DiffOp::Insert {
                old_index,
                new_index,
                new_len,
            } => Call::Ins(old_index, new_index, new_len),
            similar::DiffOp::Replace {
                old_index,
                old_len,
                new_index,
                new_len,
            } => Call::Rep(old_index, old_len, new_index, new_len),
        })
        .collect()
}

pub fn calls_to_ops(cs: &[Call]) -> Vec<similar::DiffOp> {
    cs.iter()
        .filter_map(|c| match *c {
            Call::Eq(a, b, c) => Some(similar::DiffOp::Equal {
                old_index: a,
                new_index: b,
                len: c,
            }),
            Call::Del(a, b, c) => Some(similar::DiffOp::Delete {
                old_index: a,
                old_len: b,
                new_index: c,
            }),
            Call::Ins(a, b, c) => Some(similar::DiffOp::Insert {
                old_index: a,
                new_index: b,
                new_len: c,
            }),
            Call::Rep(a, b, c, d) => Some(similar::DiffOp::Replace {
                old_index: a,
                old_len: b,
                new_index: c,
                new_len: d,
            }),
            Call::Fin => None,
        })
        .collect()
}

// Recording hook.  R = true: overrides replace; R = false: uses the trait's
// default replace (delete then insert).
pub struct Rec<const R: bool> {
    pub log: Vec<Call>,
    pub fail_at: Option<usize>,
}

impl<const R: bool> Rec<R> {
    fn new(fail_at: Option<usize>) -> Self {
        Rec {
            log: vec![],
            fail_at,
        }
    }
    fn push(&mut self, c: Call) -> Result<(), u32> {
        self.log.push(c);
        if Some(self.log.len() - 1) == self.fail_at {
            Err(4242)
        } else {
            Ok(())
        }
    }
}

impl similar::algorithms::DiffHook for Rec<true> {
    type Error = u32;
    fn equal(&mut self, a: usize, b: usize, c: usize) -> Result<(), u32> {
        self.push(Call::Eq(a, b, c))
    }
    fn delete(&mut self, a: usize, b: usize, c: usize) -> Result<(), u32> {
        self.push(Call::Del(a, b, c))
    }
    fn insert(&mut self, a: usize, b: usize, c: usize) -> Result<(), u32> {
        self.push(Call::Ins(a, b, c))
    }
    fn replace(&mut self, a: usize, b: usize, c: usize, d: usize) -> Result<(), u32> {
        self.push(Call::Rep(a, b, c, d))
    }
    fn finish(&mut self) -> Result<(), u32> {
        self.push(Call::Fin)
    }
}

impl similar::algorithms::DiffHook for Rec<false> {
    type Error = u32;
    fn equal(&mut self, a: usize, b: usize, c: usize) -> Result<(), u32> {
        self.push(Call::Eq(a, b, c))
    }
    fn delete(&mut self, a: usize, b: usize, c: usize) -> Result<(), u32> {
        self.push(Call::Del(a, b, c))
    }
    fn insert(&mut self, a: usize, b: usize, c: usize) -> Result<(), u32> {
        self.push(Call::Ins(a, b, c))
    }
    fn finish(&mut self) -> Result<(), u32> {
        self.push(Call::Fin)
    }
}

pub fn parse_alg(s: &str) -> similar::Algorithm {
    match s {
        "M" => similar::Algorithm::Myers,
        "P" => similar::Algorithm::Patience,
        "L" => similar::Algorithm::Lcs,
        _ => panic!("bad alg"),
    }
}

// 0 = Ok, 1 = exactly the injected error, 2 = some other error
fn err_code(r: &Result<(), u32>) -> u32 {
    match r {
        Ok(()) => 0,
        Err(4242) => 1,
        Err(_) => 2,
    }
}

pub fn far_deadline() -> Option<Instant> {
    Some(Instant::now() + Duration::from_secs(3600))
}

// Runs `body` with `$d` bound to `&mut <hook>` for the requested adapter stack
// over a recording hook.
// the public entry point that runs the algorithm (see gen.raw_line)
macro_rules! call_entry {
    ($via:expr, $alg:expr, $d:expr, $old:expr, $or:expr, $new:expr, $nr:expr, $dl:expr) => {{
        use similar::algorithms::{lcs, myers, patience};
        use similar::Algorithm as A;
        match ($via, $alg) {
            ("module", A::Myers) => myers::diff_deadline($d, $old, $or, $new, $nr, $dl),
            ("module", A::Patience) => patience::diff_deadline($d, $old, $or, $new, $nr, $dl),
            ("module", A::Lcs) => lcs::diff_deadline($d, $old, $or, $new, $nr, $dl),
            ("module_nodl", A::Myers) => myers::diff($d, $old, $or, $new, $nr),
            ("module_nodl", A::Patience) => patience::diff($d, $old, $or, $new, $nr),
            ("module_nodl", A::Lcs) => lcs::diff($d, $old, $or, $new, $nr),
            ("dispatch_nodl", _) => similar::algorithms::diff($alg, $d, $old, $or, $new, $nr),
            _ => similar::algorithms::diff_deadline($alg, $d, $old, $or, $new, $nr, $dl),
        }
    }};
}

macro_rules! with_stack {
    ($stack:expr, $fail:expr, $old:expr, $new:expr, |$d:ident| $body:expr) => {{
        use similar::algorithms::{Compact, NoFinishHook, Replace};
        match $stack {
            "none" => {
                let mut rec = Rec::<true>::new($fail);
                let r = {
                    let $d = &mut rec;
                    $body
                };
                (rec.log, r)
            }
            "mutref" => {
                let mut rec = Rec::<true>::new($fail);
                let r = {
                    let mut inner = &mut rec;
                    let $d = &mut inner;
                    $body
                };
                (rec.log, r)
            }
            "nofinish" => {
                let mut rec = Rec::<true>::new($fail);
                let r = {
                    let mut h = NoFinishHook::new(&mut rec);
                    let $d = &mut h;
                    $body
                };
                (rec.log, r)
            }
            "replace" => {
                let mut rec = Rec::<true>::new($fail);
                let r = {
                    let mut h = Replace::new(&mut rec);
                    let $d = &mut h;
                    $body
                };
                (rec.log, r)
            }
            "replace_nofinish" => {
                let mut rec = Rec::<true>::new($fail);
                let r = {
                    let mut h = Replace::new(NoFinishHook::new(&mut rec));
                    let $d = &mut h;
                    $body
                };
                (rec.log, r)
            }
            "replace_norep" => {
                let mut rec = Rec::<false>::new($fail);
                let r = {
                    let mut h = Replace::new(&mut rec);
                    let $d = &mut h;
                    $body
                };
                (rec.log, r)
            }
            "compact" => {
                let mut rec = Rec::<true>::new($fail);
                let r = {
                    let mut h = Compact::new(&mut rec, $old, $new);
                    let $d = &mut h;
                    $body
                };
                (rec.log, r)
            }
            "compact_replace" => {
                let mut rec = Rec::<true>::new($fail);
                let r = {
                    let mut h = Compact::new(Replace::new(&mut rec), $old, $new);
                    let $d = &mut h;
                    $body
                };
                (rec.log, r)
            }
            "norep" => {
                // a hook without its own replace, called directly: replace events go through the trait's default body
                let mut rec = Rec::<false>::new($fail);
                let r = {
                    let $d = &mut rec;
                    $body
                };
                (rec.log, r)
            }
            "replace_twice" => {
                // one long-lived Replace adapter fed the same diff twice: after finish it must be as good as new
                let mut rec = Rec::<true>::new($fail);
                let r = {
                    let mut h = Replace::new(&mut rec);
                    let r1 = {
                        let $d = &mut h;
                        $body
                    };
                    match r1 {
                        Ok(_) => {
                            let $d = &mut h;
                            $body
                        }
                        e => e,
                    }
                };
                (rec.log, r)
            }
            "replace_compact" => {
                let mut rec = Rec::<true>::new($fail);
                let r = {
                    let mut h = Replace::new(Compact::new(&mut rec, $old, $new));
                    let $d = &mut h;
                    $body
                };
                (rec.log, r)
            }
            other => panic!("bad stack {}", other),
        }
    }};
}

fn feed<D: similar::algorithms::DiffHook>(d: &mut D, script: &[Call]) -> Result<(), D::Error> {
    for c in script {
        match *c {
            Call::Eq(a, b, c) => d.equal(a, b, c)?,
            Call::Del(a, b, c) => d.delete(a, b, c)?,
            Call::Ins(a, b, c) => d.insert(a, b, c)?,
            Call::Rep(a, b, c, e) => d.replace(a, b, c, e)?,
            Call::Fin => d.finish()?,
        }
    }
    Ok(())
}

struct Seqs {
    old: Vec<OldItem>,
    new: Vec<NewItem>,
    // (old offset, new offset) when idx=O
    off: Option<(usize, usize)>,
}

fn parse_seqs(kv: &Kv) -> Seqs {
    let old = parse_list(kv["old"]).into_iter().map(OldItem).collect();
    let new = parse_list(kv["new"]).into_iter().map(NewItem).collect();
    let idx = kv.get("idx").copied().unwrap_or("S");
    let off = idx.strip_prefix('O').map(parse_range);
    Seqs { old, new, off }
}

pub fn install_clock(dl: Option<u64>) -> Option<Instant> {
    match dl {
        None => None,
        Some(k) => {
            similar::verif::clock_install(Some(k));
            far_deadline()
        }
    }
}

fn case_raw(kv: &Kv) -> String {
    let alg = parse_alg(kv["alg"]);
    let s = parse_seqs(kv);
    let (os, oe) = parse_range(kv["or"]);
    let (ns, ne) = parse_range(kv["nr"]);
    let dl = parse_opt(kv["dl"]);
    let fail = parse_opt(kv["fail"]).map(|x| x as usize);
    let stack = kv["stack"];
    let via = kv.get("via").copied().unwrap_or("dispatch");
    assert!(dl.is_none() || !via.ends_with("_nodl"));
    // index spaces far from zero: the same diff through lookups whose offsets are 2^32 - 3, 2^40 and 2^63 - 2 larger must
    // report the same calls shifted (positions beyond u32, straddling 2^32)
    let mut bigoff_same: Option<bool> = None;
    if let Some((ko, kn)) = s.off {
        if fail.is_none() && dl.is_none() && stack == "none" {
            let mut same = true;
            // the last one puts the end of the longer range exactly at usize::MAX
            for big in [(1usize << 32) - 3, 1usize << 40, (1usize << 63) - 2, usize::MAX - oe.max(ne)] {
                let old = &Off { off: ko + big, v: s.old.clone() };
                let new = &Off { off: kn + big, v: s.new.clone() };
                let (log2, r2) = with_stack!(stack, fail, old, new, |d| call_entry!(
                    via,
                    alg,
                    d,
                    old,
                    os + big..oe + big,
                    new,
                    ns + big..ne + big,
                    None
                ));
                let old0 = &Off { off: ko, v: s.old.clone() };
                let new0 = &Off { off: kn, v: s.new.clone() };
                let (log1, r1) = with_stack!(stack, fail, old0, new0, |d| call_entry!(via, alg, d, old0, os..oe, new0, ns..ne, None));
                let shifted: Vec<Call> = log1
                    .iter()
                    .map(|c| match *c {
                        Call::Eq(a, b, l) => Call::Eq(a + big, b + big, l),
                        Call::Del(a, l, b) => Call::Del(a + big, l, b + big),
                        Call::Ins(a, b, l) => Call::Ins(a + big, b + big, l),
                        Call::Rep(a, al, b, bl) => Call::Rep(a + big, al, b + big, bl),
                        Call::Fin => Call::Fin,
                    })
                    .collect();
                if shifted != log2 || err_code(&r1) != err_code(&r2) {
                    same = false;
                }
            }
            bigoff_same = Some(same);
        }
    }
    CMPS.with(|c| c.set(0));
    POST.with(|c| c.set(0));
    SCMPS.with(|c| c.set(0));
    let deadline = install_clock(dl);
    let (log, r) = match s.off {
        None => {
            let old = &s.old[..];
            let new = &s.new[..];
            with_stack!(stack, fail, old, new, |d| call_entry!(via, alg, d, old, os..oe, new, ns..ne, deadline))
        }
        Some((ko, kn)) => {
            let old = &Off {
                off: ko,
                v: s.old.clone(),
            };
            let new = &Off {
                off: kn,
                v: s.new.clone(),
            };
            with_stack!(stack, fail, old, new, |d| call_entry!(via, alg, d, old, os..oe, new, ns..ne, deadline))
        }
    };
    let probes = if dl.is_some() {
        similar::verif::clock_remove()
    } else {
        0
    };
    let cmps = CMPS.with(|c| c.get());
    let post = POST.with(|c| c.get());
    let counters = if fail.is_none() && stack == "none" {
        // comparisons among the items of one side (hash table look-ups): each occurrence of an item costs about one,
        // plus rare tag collisions; far more means the table degenerated
        let sc = SCMPS.with(|c| c.get());
        let side_ok = sc <= 2 * ((oe - os) as u64 + (ne - ns) as u64) + 64;
        format!("probes={} cmps={} post={} ss={}", probes, cmps, post, if side_ok { 1 } else { 0 })
    } else if fail.is_none() {
        format!("probes={} cmps=-", probes)
    } else {
        "probes=- cmps=-".to_string()
    };
    let tail = match bigoff_same {
        Some(b) => format!(" bigoff_same={}", if b { 1 } else { 0 }),
        None => String::new(),
    };
    format!(
        "calls={} err={} {}{}",
        fmt_calls(&log),
        err_code(&r),
        counters,
        tail
    )
}

fn case_capture(kv: &Kv) -> String {
    let alg = parse_alg(kv["alg"]);
    let s = parse_seqs(kv);
    let (os, oe) = parse_range(kv["or"]);
    let (ns, ne) = parse_range(kv["nr"]);
    let dl = parse_opt(kv["dl"]);
    let repair = kv.get("repair").copied().unwrap_or("0") == "1";
    similar::verif::set_repair_swap(repair);
    let deadline = install_clock(dl);
    let ops = match s.off {
        None => {
            similar::capture_diff_deadline(alg, &s.old[..], os..oe, &s.new[..], ns..ne, deadline)
        }
        Some((ko, kn)) => {
            let old = Off {
                off: ko,
                v: s.old.clone(),
            };
            let new = Off {
                off: kn,
                v: s.new.clone(),
            };
            similar::capture_diff_deadline(alg, &old, os..oe, &new, ns..ne, deadline)
        }
    };
    similar::verif::set_repair_swap(false);
    let probes = if dl.is_some() {
        similar::verif::clock_remove()
    } else {
        0
    };
    let ratio = similar::get_diff_ratio(&ops, oe.saturating_sub(os), ne.saturating_sub(ns));
    format!(
        "ops={} probes={} ratio={}",
        fmt_calls(&ops_to_calls(&ops)),
        probes,
        ratio.to_bits()
    )
}

fn case_adapter(kv: &Kv) -> String {
    let s = parse_seqs(kv);
    let fail = parse_opt(kv["fail"]).map(|x| x as usize);
    let stack = kv["stack"];
    let repair = kv.get("repair").copied().unwrap_or("0") == "1";
    let script = parse_calls(kv["script"]);
    similar::verif::set_repair_swap(repair);
    let old = &s.old[..];
    let new = &s.new[..];
    let (log, r) = with_stack!(stack, fail, old, new, |d| feed(d, &script));
    similar::verif::set_repair_swap(false);
    format!(
        "calls={} err={}",
        fmt_calls(&log),
        err_code(&r)
    )
}

// edit cost of the raw scripts of Myers and of the crate's LCS algorithm on the same input (both must be minimal)
fn case_costs(kv: &Kv) -> String {
    let old: Vec<u64> = parse_list(kv["old"]);
    let new: Vec<u64> = parse_list(kv["new"]);
    let cost = |alg: similar::Algorithm| -> usize {
        let mut h = similar::algorithms::Capture::new();
        similar::algorithms::diff(alg, &mut h, &old[..], 0..old.len(), &new[..], 0..new.len()).unwrap();
        h.ops()
            .iter()
            .map(|op| match op.as_tag_tuple() {
                (similar::DiffTag::Equal, _, _) => 0,
                (_, o, n) => o.len() + n.len(),
            })
            .sum()
    };
    format!("M={} L={}", cost(similar::Algorithm::Myers), cost(similar::Algorithm::Lcs))
}

fn case_group(kv: &Kv) -> String {
    let n: usize = kv["n"].parse().unwrap();
    let via = kv.get("via").copied().unwrap_or("fn");
    if via == "textdiff" {
        // TextDiff::grouped_ops and the hunks of its unified diff, on the diff's own ops
        let alg = parse_alg(kv["alg"]);
        let old: Vec<String> = parse_list(kv["old"]).iter().map(|x| x.to_string()).collect();
        let new: Vec<String> = parse_list(kv["new"]).iter().map(|x| x.to_string()).collect();
        let oref: Vec<&str> = old.iter().map(|x| x.as_str()).collect();
        let nref: Vec<&str> = new.iter().map(|x| x.as_str()).collect();
        let td = similar::TextDiff::configure().algorithm(alg).diff_slices(&oref, &nref);
        let f = |gs: Vec<Vec<similar::DiffOp>>| {
            if gs.is_empty() {
                "-".to_string()
            } else {
                gs.iter().map(|g| fmt_calls(&ops_to_calls(g))).collect::<Vec<_>>().join("|")
            }
        };
        let mut ud = td.unified_diff();
        ud.context_radius(n);
        let hunks: Vec<Vec<similar::DiffOp>> = ud.iter_hunks().map(|h| h.ops().to_vec()).collect();
        return format!(
            "ops={} groups={} hunks={}",
            fmt_calls(&ops_to_calls(td.ops())),
            f(td.grouped_ops(n)),
            f(hunks)
        );
    }
    let ops = calls_to_ops(&parse_calls(kv["ops"]));
    let groups = match via {
        "fn" => similar::group_diff_ops(ops, n),
        "capture" => {
            let mut c = similar::algorithms::Capture::new();
            for op in &ops {
                op.apply_to_hook(&mut c).unwrap();
            }
            c.into_grouped_ops(n)
        }
        _ => panic!("bad via"),
    };
    if groups.is_empty() {
        return "groups=-".into();
    }
    format!(
        "groups={}",
        groups
            .iter()
            .map(|g| fmt_calls(&ops_to_calls(g)))
            .collect::<Vec<_>>()
            .join("|")
    )
}

pub fn fmt_opt(x: Option<usize>) -> String {
    match x {
        Some(v) => v.to_string(),
        None => "-".into(),
    }
}

pub fn fmt_tag(t: similar::ChangeTag) -> &'static str {
    match t {
        similar::ChangeTag::Equal => "E",
        similar::ChangeTag::Delete => "D",
        similar::ChangeTag::Insert => "I",
    }
}

fn case_iter(kv: &Kv) -> String {
    let ops = calls_to_ops(&parse_calls(kv["ops"]));
    let old: Vec<u64> = parse_list(kv["old"]);
    let new: Vec<u64> = parse_list(kv["new"]);
    let mut ch = vec![];
    for op in &ops {
        for c in op.iter_changes(&old[..], &new[..]) {
            ch.push(format!(
                "{}:{}:{}:{}",
                fmt_tag(c.tag()),
                fmt_opt(c.old_index()),
                fmt_opt(c.new_index()),
                c.value()
            ));
        }
    }
    let mut sl = vec![];
    for op in &ops {
        for (t, s) in op.iter_slices(&old[..], &new[..]) {
            sl.push(format!(
                "{}:{}",
                fmt_tag(t),
                s.iter()
                    .map(|x| x.to_string())
                    .collect::<Vec<_>>()
                    .join(".")
            ));
        }
    }
    let mut cap = similar::algorithms::Capture::new();
    for op in &ops {
        op.apply_to_hook(&mut cap).unwrap();
    }
    // the same through a borrowed hook (D = &mut Capture: the forwarding impl of DiffHook for &mut D)
    let mut cap2 = similar::algorithms::Capture::new();
    {
        let mut r = &mut cap2;
        for op in &ops {
            op.apply_to_hook(&mut r).unwrap();
        }
    }
    let mut ref_same = same_ops(cap.ops(), cap2.ops());
    // Capture::into_ops gives what ops() showed
    {
        let shown = ops_to_calls(cap2.ops());
        if ops_to_calls(&cap2.into_ops()) != shown {
            ref_same = false;
        }
    }
    // other ways through the same iterators: nth / skip / step_by after some items were consumed, size_hint bounds
    for op in &ops {
        let full: Vec<_> = op.iter_changes(&old[..], &new[..]).map(|c| (c.tag(), c.old_index(), c.new_index(), c.value())).collect();
        for consumed in 0..full.len().min(3) {
            for skip in 0..3usize {
                let mut it = op.iter_changes(&old[..], &new[..]);
                for _ in 0..consumed {
                    it.next();
                }
                let (lo, hi) = it.size_hint();
                let rest = full.len() - consumed;
                if lo > rest || hi.map_or(false, |h| h < rest) {
                    ref_same = false;
                }
                let got = it.nth(skip).map(|c| (c.tag(), c.old_index(), c.new_index(), c.value()));
                if got != full.get(consumed + skip).cloned() {
                    ref_same = false;
                }
                let after: Vec<_> = it.map(|c| (c.tag(), c.old_index(), c.new_index(), c.value())).collect();
                let want: Vec<_> = full.iter().skip(consumed + skip + 1).cloned().collect();
                if after != want {
                    ref_same = false;
                }
            }
        }
        let stepped: Vec<_> = op.iter_changes(&old[..], &new[..]).step_by(2).map(|c| (c.tag(), c.old_index(), c.new_index(), c.value())).collect();
        let want: Vec<_> = full.iter().step_by(2).cloned().collect();
        if stepped != want {
            ref_same = false;
        }
    }
    // accessors agree with each other: as_tag_tuple = (tag, old_range, new_range)
    for op in &ops {
        let (t, o, n) = op.as_tag_tuple();
        if t != op.tag() || o != op.old_range() || n != op.new_range() {
            ref_same = false;
        }
    }
    // whole-list iteration (AllChangesIter) over the same ops, reached through the public
    // UnifiedDiffHunk::new(ops, diff, ..).iter_changes() on a TextDiff of the items as strings
    let olds: Vec<String> = old.iter().map(|x| x.to_string()).collect();
    let news: Vec<String> = new.iter().map(|x| x.to_string()).collect();
    let oref: Vec<&str> = olds.iter().map(|x| x.as_str()).collect();
    let nref: Vec<&str> = news.iter().map(|x| x.as_str()).collect();
    let td = similar::TextDiff::from_slices(&oref, &nref);
    let hunk = similar::udiff::UnifiedDiffHunk::new(ops.clone(), &td, true);
    let all: Vec<String> = hunk
        .iter_changes()
        .map(|c| {
            format!(
                "{}:{}:{}:{}",
                fmt_tag(c.tag()),
                fmt_opt(c.old_index()),
                fmt_opt(c.new_index()),
                c.value()
            )
        })
        .collect();
    let mut all_same = all == ch;
    // a diff of SLICES whose tokens may be empty (the value 0 becomes ""), remapped onto the joined texts
    {
        let ot: Vec<String> = old.iter().map(|x| if *x % 7 == 0 { String::new() } else { x.to_string() }).collect();
        let nt: Vec<String> = new.iter().map(|x| if *x % 7 == 0 { String::new() } else { x.to_string() }).collect();
        let otr: Vec<&str> = ot.iter().map(|x| x.as_str()).collect();
        let ntr: Vec<&str> = nt.iter().map(|x| x.as_str()).collect();
        let (oj, nj) = (ot.concat(), nt.concat());
        let tds = similar::TextDiff::from_slices(&otr, &ntr);
        let rm = similar::utils::TextDiffRemapper::from_text_diff(&tds, &oj[..], &nj[..]);
        let mut ro = String::new();
        let mut rn = String::new();
        for op in tds.ops() {
            for (tag, sl) in rm.iter_slices(op) {
                let want: String = match tag {
                    similar::ChangeTag::Insert => ntr[op.new_range()].concat(),
                    _ => otr[op.old_range()].concat(),
                };
                if sl != want {
                    all_same = false;
                }
                if tag != similar::ChangeTag::Insert {
                    ro.push_str(sl);
                }
                if tag != similar::ChangeTag::Delete {
                    rn.push_str(sl);
                }
            }
        }
        if ro != oj || rn != nj {
            all_same = false;
        }
    }
    let j = |v: Vec<String>| {
        if v.is_empty() {
            "-".to_string()
        } else {
            v.join(",")
        }
    };
    format!(
        "changes={} slices={} recap={} all_same={} ref_same={}",
        j(ch),
        j(sl),
        fmt_calls(&ops_to_calls(cap.ops())),
        if all_same { 1 } else { 0 },
        if ref_same { 1 } else { 0 }
    )
}

fn run_case(line: &str) -> String {
    let (comp, kv) = parse_kv(line);
    match comp.as_str() {
        "costs" => case_costs(&kv),
        "raw" => case_raw(&kv),
        "capture" => case_capture(&kv),
        "adapter" => case_adapter(&kv),
        "group" => case_group(&kv),
        "iter" => case_iter(&kv),
        _ => text_cases::run(&comp, &kv),
    }
}

fn main() {
    let args: Vec<String> = std::env::args().collect();
    let path = &args[1];
    let cap_secs: u64 = args.get(2).map(|x| x.parse().unwrap()).unwrap_or(20);
    let nthreads: usize = std::env::var("HARNESS_THREADS")
        .ok()
        .and_then(|x| x.parse().ok())
        .unwrap_or(16);
    std::panic::set_hook(Box::new(|_| {}));
    let f = std::fs::File::open(path).expect("open case file");
    let lines: Arc<Vec<String>> = Arc::new(
        std::io::BufReader::new(f)
            .lines()
            .map(|l| l.unwrap())
            .collect(),
    );
    let n = lines.len();
    // Isolation mode (used after a batch made the whole process abort, e.g. on an allocation failure, which
    // catch_unwind cannot stop): every case runs in a child process of its own; a child that dies is an "ABORT".
    if std::env::var("HARNESS_ISOLATE").ok().as_deref() == Some("1") {
        let exe = std::env::current_exe().unwrap();
        let results: Arc<Mutex<Vec<String>>> = Arc::new(Mutex::new(vec![String::new(); n]));
        let next = Arc::new(AtomicUsize::new(0));
        let mut hs = vec![];
        for t in 0..nthreads {
            let lines = lines.clone();
            let results = results.clone();
            let next = next.clone();
            let exe = exe.clone();
            let cap = cap_secs;
            hs.push(std::thread::spawn(move || loop {
                let i = next.fetch_add(1, Ordering::SeqCst);
                if i >= lines.len() {
                    break;
                }
                let tmp = std::env::temp_dir().join(format!("svh-iso-{}-{}-{}.case", std::process::id(), t, i));
                std::fs::write(&tmp, format!("{}\n", lines[i])).unwrap();
                let out = std::process::Command::new(&exe)
                    .arg(&tmp)
                    .arg(cap.to_string())
                    .env_remove("HARNESS_ISOLATE")
                    .env("HARNESS_THREADS", "1")
                    .output();
                let _ = std::fs::remove_file(&tmp);
                let r = match out {
                    Ok(o) if o.status.success() => {
                        let s = String::from_utf8_lossy(&o.stdout).to_string();
                        let l = s.lines().next().unwrap_or("").to_string();
                        if l.is_empty() {
                            "ABORT".to_string()
                        } else {
                            l
                        }
                    }
                    _ => "ABORT".to_string(),
                };
                results.lock().unwrap()[i] = r;
            }));
        }
        for h in hs {
            h.join().unwrap();
        }
        let res = results.lock().unwrap();
        let mut out = String::new();
        for r in res.iter() {
            out.push_str(r);
            out.push('\n');
        }
        print!("{}", out);
        return;
    }
    let results: Arc<Mutex<Vec<Option<String>>>> = Arc::new(Mutex::new(vec![None; n]));
    let next = Arc::new(AtomicUsize::new(0));
    // per worker slot: (case index, start) of the case in progress
    let slots: Arc<Mutex<Vec<Option<(usize, Instant)>>>> = Arc::new(Mutex::new(vec![]));
    let done = Arc::new(AtomicUsize::new(0));

    let spawn_worker = {
        let lines = lines.clone();
        let results = results.clone();
        let next = next.clone();
        let slots = slots.clone();
        let done = done.clone();
        move || {
            let lines = lines.clone();
            let results = results.clone();
            let next = next.clone();
            let slots = slots.clone();
            let done = done.clone();
            let slot_id = {
                let mut s = slots.lock().unwrap();
                s.push(None);
                s.len() - 1
            };
            std::thread::Builder::new()
                .stack_size(256 * 1024 * 1024)
                .spawn(move || loop {
                    let i = next.fetch_add(1, Ordering::SeqCst);
                    if i >= lines.len() {
                        slots.lock().unwrap()[slot_id] = None;
                        break;
                    }
                    slots.lock().unwrap()[slot_id] = Some((i, Instant::now()));
                    let line = lines[i].clone();
                    let r = std::panic::catch_unwind(move || run_case(&line));
                    let out = match r {
                        Ok(s) => s,
                        Err(_) => {
                            // make sure hooks are reset after a panic
                            similar::verif::clock_remove();
                            similar::verif::set_repair_swap(false);
                            "PANIC".to_string()
                        }
                    };
                    let abandoned = {
                        let mut res = results.lock().unwrap();
                        if res[i].is_none() {
                            res[i] = Some(out);
                            done.fetch_add(1, Ordering::SeqCst);
                            false
                        } else {
                            true
                        }
                    };
                    if abandoned {
                        // the monitor already replaced this worker
                        break;
                    }
                })
                .unwrap();
        }
    };
    for _ in 0..nthreads {
        spawn_worker();
    }
    // monitor
    let mut timeouts = 0usize;
    loop {
        if done.load(Ordering::SeqCst) >= n {
            break;
        }
        if timeouts >= 40 {
            // so many cases ran into the time limit that the abandoned workers starve everything else: give up on
            // the rest of the batch (reported as SKIPPED, which no clause judges) instead of running for hours
            let mut res = results.lock().unwrap();
            for r in res.iter_mut() {
                if r.is_none() {
                    *r = Some("SKIPPED".to_string());
                }
            }
            break;
        }
        std::thread::sleep(Duration::from_millis(5));
        let mut stuck = vec![];
        {
            let mut s = slots.lock().unwrap();
            for slot in s.iter_mut() {
                if let Some((i, t0)) = *slot {
                    if t0.elapsed() > Duration::from_secs(cap_secs) {
                        stuck.push(i);
                        *slot = None;
                    }
                }
            }
        }
        for i in stuck {
            let mut res = results.lock().unwrap();
            if res[i].is_none() {
                res[i] = Some("TIMEOUT".to_string());
                timeouts += 1;
                done.fetch_add(1, Ordering::SeqCst);
                drop(res);
                spawn_worker();
            }
        }
    }
    let out = std::io::stdout();
    let mut w = std::io::BufWriter::new(out.lock());
    let res = results.lock().unwrap();
    for r in res.iter() {
        writeln!(w, "{}", r.as_deref().unwrap_or("MISSING")).unwrap();
    }
    w.flush().unwrap();
    std::process::exit(0);
}
