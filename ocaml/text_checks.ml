(* Verified-checker clauses for the text-layer components, evaluated on the
   IMPLEMENTATION's outputs.  The deciding functions (check_tokens,
   check_partition, check_ops_loose, check_patch, expand_all ...) are extracted
   from Coq; parsing of the implementation's text output is glue. *)
open Model
open Common
open Text_cases

let parse_impl (line : string) : (string, string) Hashtbl.t =
  let h = Hashtbl.create 8 in
  List.iter
    (fun t ->
      match String.index_opt t '=' with
      | Some p -> Hashtbl.replace h (String.sub t 0 p) (String.sub t (p + 1) (String.length t - p - 1))
      | None -> Hashtbl.replace h t "")
    (List.filter (fun x -> x <> "") (String.split_on_char ' ' line));
  h

let dead impl = impl = "PANIC" || impl = "TIMEOUT" || impl = "ABORT"

(* token list from the implementation; None if some token is not a sub-slice *)
let impl_toks (s : string) : (nat * nat) list option =
  if s = "-" then Some []
  else if String.contains s 'X' then None
  else Some (parse_toks s)

let clauses_tok h impl =
  if dead impl then [ ("no_panic", false) ]
  else
    let ih = parse_impl impl in
    let text = unhex (get h "text") in
    match impl_toks (get ih "toks") with
    | None -> [ ("no_panic", true); ("tok_lossless", false) ]
    | Some toks -> (
        let lossless = check_partition toks O (Model.length text) in
        match tk_of (get h "kind") with
        | Some k -> [ ("no_panic", true); ("tok_lossless", lossless); ("tok_shape", check_tokens k text toks) ]
        | None -> [ ("no_panic", true); ("tok_lossless", lossless) ])

let concat_bytes (l : n list list) : n list = List.concat l

let parse_changes (s : string) : (string * string * string * n list) list =
  if s = "-" then []
  else
    List.map
      (fun t ->
        match String.split_on_char ':' t with
        | [ tg; o; n; v ] -> (tg, o, n, unhex v)
        | _ -> failwith "bad change")
      (String.split_on_char ',' s)

let clauses_textdiff h impl =
  if dead impl then [ ("no_panic", false) ]
  else
    let ih = parse_impl impl in
    let o = unhex (get h "old") and n = unhex (get h "new") in
    let kind = get h "tok" in
    let ops = calls_to_ops (parse_calls (get ih "ops")) in
    let chs = parse_changes (get ih "changes") in
    let not_tag t = List.filter (fun (tg, _, _, _) -> tg <> t) chs in
    let vals l = concat_bytes (List.map (fun (_, _, _, v) -> v) l) in
    (* indices: Equal both, Delete only old, Insert only new; consecutive from 0 on each side *)
    let rec idx_ok l oi ni =
      match l with
      | [] -> true
      | (tg, a, b, _) :: r -> (
          match tg with
          | "E" -> a = string_of_int oi && b = string_of_int ni && idx_ok r (oi + 1) (ni + 1)
          | "D" -> a = string_of_int oi && b = "-" && idx_ok r (oi + 1) ni
          | "I" -> a = "-" && b = string_of_int ni && idx_ok r oi (ni + 1)
          | _ -> false)
    in
    (* very large texts: the unary-number checkers are quadratic; only the linear clauses are evaluated *)
    let huge = String.length (get h "old") + String.length (get h "new") > 400_000 in
    let otoks = if huge then Some [] else impl_toks (get ih "otoks") and ntoks = if huge then Some [] else impl_toks (get ih "ntoks") in
    let lossless =
      huge ||
      match (otoks, ntoks) with
      | Some a, Some b -> check_partition a O (Model.length o) && check_partition b O (Model.length n)
      | _ -> false
    in
    let loose =
      huge ||
      match (otoks, ntoks) with
      | Some a, Some b ->
          let oa = Array.of_list (List.map (fun t -> str_of (tok_bytes o t)) a)
          and na = Array.of_list (List.map (fun t -> str_of (tok_bytes n t)) b) in
          check_ops_loose (item_oracles oa na).o_on O (ni (Array.length oa)) O (ni (Array.length na)) ops
      | _ -> false
    in
    let exact =
      huge ||
      match (otoks, ntoks) with
      | Some a, Some b ->
          let oa = Array.of_list (List.map (fun t -> str_of (tok_bytes o t)) a)
          and na = Array.of_list (List.map (fun t -> str_of (tok_bytes n t)) b) in
          check_ops_exact (item_oracles oa na).o_on O (ni (Array.length oa)) O (ni (Array.length na)) ops
      | _ -> false
    in
    let normal =
      huge ||
      match (otoks, ntoks) with
      | Some a, Some b ->
          let oa = Array.of_list (List.map (fun t -> str_of (tok_bytes o t)) a)
          and na = Array.of_list (List.map (fun t -> str_of (tok_bytes n t)) b) in
          check_normal (item_oracles oa na).o_on ops
      | _ -> false
    in
    let dl = match Hashtbl.find_opt h "dl" with Some s -> parse_opt s | None -> None in
    let nlo = get_def h "nlo" "-" in
    (* identical texts: only Equal ops (none for two empty texts); ratio in [0,1] and 1.0 exactly for equal texts *)
    let only_equal = List.for_all (fun op -> match op with Equal _ -> true | _ -> false) ops in
    let ident_ok = (o <> n) || (only_equal && (o <> [] || ops = [])) in
    let ratio_ok =
      match Hashtbl.find_opt ih "ratio" with
      | None -> true
      | Some r ->
          let f = Int32.float_of_bits (Int32.of_string r) in
          f >= 0.0 && f <= 1.0 && ((f = 1.0) = (o = n))
    in
    [ ("no_panic", true);
      ("identical_only_equal", ident_ok);
      ("ratio_range", ratio_ok);
      ("normal", normal);
      ("ops_exact", exact);
      ("tokens_lossless", lossless);
      ("reconstruct_old", vals (not_tag "I") = o);
      ("reconstruct_new", vals (not_tag "D") = n);
      ("change_index_shape", idx_ok chs 0 0);
      ("perop_same", get ih "perop_same" = "1");
      (* TextDiff::from_lines/from_words/from_chars/from_unicode_words/from_graphemes = the default configuration *)
      ("ctor_same", get_def ih "ctor_same" "1" = "1");
      ("ops_loose", loose);
      ("alg_reported", get ih "alg" = get h "alg");
      ("newline_flag", get ih "nt" = (match nlo with "0" -> "0" | "1" -> "1" | _ -> if kind = "lines" then "1" else "0")) ]
    @ if dl = None then [ ("ops_eq_tokens_diff", get ih "ops" = get ih "direct") ] else []

(* ---------- unified diff parsing: the extracted, verified parse_udiff (Spec/UdiffParse.v;
   c05_parse_sound: whatever it accepts prints back to exactly the text) ---------- *)
let bytes_of_string (s : string) : n list = List.init (String.length s) (fun k -> n_of_int (Char.code s.[k]))

let clauses_udiff h impl =
  if dead impl then [ ("no_panic", false) ]
  else
    let ih = parse_impl impl in
    let o = unhex (get h "old") and n = unhex (get h "new") in
    let out = unhex (get ih "out") in
    let via = get h "via" in
    let header = get h "header" = "1" in
    let hint = if via = "fn" then true else get h "hint" = "1" in
    let radius = ni (int_of_string (get h "radius")) in
    let bm = bytes_mode h in
    let base =
      [ ("no_panic", true);
        (* equal inputs render as the empty string; different inputs never do *)
        ("udiff_empty_iff_equal", (out = []) = (o = n)) ]
    in
    let rel =
      if via = "display" then
        if bm then [ ("display_eq_lossy_writer", get ih "lossy_writer_same" = "1") ]
        else [ ("display_eq_writer", get ih "writer_same" = "1") ]
      else []
    in
    (* parse + strict application; for Display on bytes the text is lossy, so the
       application is checked against the lossy lines *)
    let applies =
      let lossy_display = via = "display" && bm in
      let lines t = List.map (fun tk -> let b = tok_bytes t tk in if lossy_display then lossy b else b) (tokenize bm TkLines t) in
      let hdr = if header then Some (bytes_of_string "a", bytes_of_string "b") else None in
      match parse_udiff hint hdr out with
      | None -> [ ("udiff_wellformed", false) ]
      | Some hunks ->
          (* hint off: a line without terminator and the same line with "\n" print alike; the parser returns
             the normalised hunks, which must apply to the normalised lines (c05_render_parse_applies_nohint) *)
          let nl l = if hint then l else List.map norm_line l in
          [ ("udiff_wellformed", true);
            ("udiff_applies", check_patch radius hunks (nl (lines o)) (nl (lines n))) ]
    in
    base @ rel @ applies

let parse_slices (s : string) : (string * n list) list =
  if s = "-" then []
  else
    List.map
      (fun t ->
        match String.split_on_char ':' t with
        | [ tg; v ] -> (tg, unhex v)
        | _ -> failwith "bad slice")
      (String.split_on_char ',' s)

let clauses_remap h impl =
  if dead impl then [ ("no_panic", false) ]
  else
    let ih = parse_impl impl in
    let o = unhex (get h "old") and n = unhex (get h "new") in
    let kind = get h "tok" in
    let sl = parse_slices (get ih "slices") in
    let cat f = concat_bytes (List.filter_map (fun (t, v) -> if f t then Some v else None) sl) in
    let ops = calls_to_ops (parse_calls (get ih "ops")) in
    let otoks = impl_toks (get ih "otoks") and ntoks = impl_toks (get ih "ntoks") in
    (* expected bounds: the substring covering exactly the op's tokens *)
    let exp_bounds =
      match (otoks, ntoks) with
      | Some a, Some b when kind <> "lines" -> (
          let oa = Array.of_list a and na = Array.of_list b in
          try
            Some
              (join ","
                 (List.concat_map
                    (fun op ->
                      let ob x l = Printf.sprintf "%d:%d" (i (fst oa.(i x))) (i (snd oa.(i x + i l - 1))) in
                      let nb x l = Printf.sprintf "%d:%d" (i (fst na.(i x))) (i (snd na.(i x + i l - 1))) in
                      match op with
                      | Equal (x, _, l) -> [ "E:" ^ ob x l ]
                      | Delete (x, l, _) -> [ "D:" ^ ob x l ]
                      | Insert (_, y, l) -> [ "I:" ^ nb y l ]
                      | Replace (x, l1, y, l2) -> [ "D:" ^ ob x l1; "I:" ^ nb y l2 ])
                    ops))
          with Invalid_argument _ -> None)
      | _ -> None
    in
    [ ("no_panic", true);
      ("remap_reconstruct_old", cat (fun t -> t <> "I") = o);
      ("remap_reconstruct_new", cat (fun t -> t <> "D") = n);
      ("remap_nonempty", List.for_all (fun (_, v) -> v <> []) sl);
      ("remapper_same", get ih "remapper_same" = "1") ]
    @ if kind <> "lines" then [ ("remap_exact_substrings", exp_bounds = Some (get ih "bounds")) ] else []

let clauses_slices h impl =
  if dead impl then [ ("no_panic", false) ]
  else
    let ih = parse_impl impl in
    let old = parse_list (get h "old") and nw = parse_list (get h "new") in
    let sl =
      match get ih "slices" with
      | "-" -> []
      | s ->
          List.map
            (fun t ->
              match String.split_on_char ':' t with
              | [ tg; v ] -> (tg, if v = "" then [] else List.map int_of_string (String.split_on_char '.' v))
              | _ -> failwith "bad slice")
            (String.split_on_char ',' s)
    in
    let cat f = List.concat (List.filter_map (fun (t, v) -> if f t then Some v else None) sl) in
    [ ("no_panic", true);
      ("remap_reconstruct_old", cat (fun t -> t <> "I") = old);
      ("remap_reconstruct_new", cat (fun t -> t <> "D") = nw);
      ("remap_nonempty", List.for_all (fun (_, v) -> v <> []) sl) ]

let clauses_inline h impl =
  if dead impl then [ ("no_panic", false) ]
  else
    let ih = parse_impl impl in
    let o = unhex (get h "old") and n = unhex (get h "new") in
    let bm = bytes_mode h in
    let olines = Array.of_list (List.map (tok_bytes o) (tokenize bm TkLines o))
    and nlines = Array.of_list (List.map (tok_bytes n) (tokenize bm TkLines n)) in
    let ops = calls_to_ops (parse_calls (get ih "ops")) in
    let per_op = if get ih "inline" = "-" then [] else String.split_on_char '|' (get ih "inline") in
    let ok_shape = ref true and ok_concat = ref true and ok_emph = ref true and ok_nl = ref true and ok_missing = ref true in
    if List.length per_op <> List.length ops then ok_shape := false
    else
      List.iter2
        (fun op s ->
          let chs = if s = "-" then [] else String.split_on_char ',' s in
          (* expected tags / indices = those of the plain expansion *)
          let exp =
            match op with
            | Equal (a, b, l) -> List.init (i l) (fun t -> ("E", Some (i a + t), Some (i b + t)))
            | Delete (a, l, _) -> List.init (i l) (fun t -> ("D", Some (i a + t), None))
            | Insert (_, b, l) -> List.init (i l) (fun t -> ("I", None, Some (i b + t)))
            | Replace (a, l1, b, l2) ->
                List.init (i l1) (fun t -> ("D", Some (i a + t), None)) @ List.init (i l2) (fun t -> ("I", None, Some (i b + t)))
          in
          if List.length chs <> List.length exp then ok_shape := false
          else
            List.iter2
              (fun ch (etag, eo, en) ->
                match String.split_on_char ':' ch with
                | [ tg; oi; nidx; missing; vals ] ->
                    let fo = function Some x -> string_of_int x | None -> "-" in
                    if tg <> etag || oi <> fo eo || nidx <> fo en then ok_shape := false;
                    let vs =
                      if vals = "-" then []
                      else
                        List.map
                          (fun v ->
                            match String.split_on_char '.' v with
                            | [ e; hx ] -> (e = "1", unhex hx)
                            | _ -> failwith "bad inline value")
                          (String.split_on_char ';' vals)
                    in
                    let line =
                      match (eo, en) with
                      | Some x, _ when tg <> "I" -> if x < Array.length olines then Some olines.(x) else None
                      | _, Some y -> if y < Array.length nlines then Some nlines.(y) else None
                      | _ -> None
                    in
                    (match line with
                     | Some l ->
                         if concat_bytes (List.map snd vs) <> l then ok_concat := false;
                         if (missing = "1") <> not (ends_with_newline l) then ok_missing := false
                     | None -> ok_concat := false);
                    let is_rep = match op with Replace _ -> true | _ -> false in
                    List.iter
                      (fun (e, v) ->
                        if e && ((not is_rep) || tg = "E") then ok_emph := false;
                        if e && List.exists (fun b -> int_of_n b = 10 || int_of_n b = 13) v then ok_nl := false)
                      vs
                | _ -> ok_shape := false)
              chs exp)
        ops per_op;
    [ ("no_panic", true);
      ("inline_same_shape", !ok_shape);
      (* iter_inline_changes(op) = iter_inline_changes_deadline(op, call time + 500 ms) *)
      ("inline_default_entry", get_def ih "default_ok" "1" = "1");
      ("inline_concat_line", !ok_concat);
      ("inline_emph_only_replace", !ok_emph);
      ("inline_no_newline_emph", !ok_nl);
      ("inline_missing_newline", !ok_missing) ]

let clauses_identify h impl =
  if dead impl then [ ("no_panic", false) ]
  else
    let ih = parse_impl impl in
    let old = Array.of_list (parse_list (get h "old")) and nw = Array.of_list (parse_list (get h "new")) in
    let os, oe = parse_range (get h "or") and ns, ne = parse_range (get h "nr") in
    let oids = Array.of_list (parse_list (get ih "oids")) and nids = Array.of_list (parse_list (get ih "nids")) in
    let ranges = get ih "or" = Printf.sprintf "%d:%d" os oe && get ih "nr" = Printf.sprintf "%d:%d" ns ne in
    let ok = ref (Array.length oids = oe - os && Array.length nids = ne - ns) in
    if !ok then (
      for a = 0 to oe - os - 1 do
        for b = 0 to oe - os - 1 do
          if (oids.(a) = oids.(b)) <> (old.(os + a) = old.(os + b)) then ok := false
        done;
        for b = 0 to ne - ns - 1 do
          if (oids.(a) = nids.(b)) <> (old.(os + a) = nw.(ns + b)) then ok := false
        done
      done;
      for a = 0 to ne - ns - 1 do
        for b = 0 to ne - ns - 1 do
          if (nids.(a) = nids.(b)) <> (nw.(ns + a) = nw.(ns + b)) then ok := false
        done
      done);
    [ ("no_panic", true); ("identify_iff_eq", !ok); ("identify_ranges", ranges) ]

(* C18: exhaustive ranking from the implementation's own per-candidate ratios *)
let clauses_close h impl =
  if dead impl then [ ("no_panic", false) ]
  else
    let ih = parse_impl impl in
    let word = unhex (get h "word") in
    let un x = if x = "e" then [] else unhex x in
    let cands = if get h "cands" = "-" then [] else List.map un (String.split_on_char '|' (get h "cands")) in
    (* n may be as large as usize::MAX: anything beyond OCaml's int range means "all" *)
    let nres = match int_of_string_opt (get h "n") with Some k -> k | None -> max_int in
    let cutoff = Int32.float_of_bits (Int32.of_string (get h "cutoff")) in
    let ratios = if get ih "ratios" = "-" then [] else List.map (fun x -> Int32.of_string x) (String.split_on_char ',' (get ih "ratios")) in
    let res = if get ih "res" = "-" then [] else List.map un (String.split_on_char '|' (get ih "res")) in
    (* each ratio is the character-level 2L/(N+M) *)
    let chars t = List.map (fun c -> int_of_n c.dc_cp) (decode t) in
    let wa = Array.of_list (chars word) in
    let ratio_ok =
      List.length ratios = List.length cands
      && List.for_all2
           (fun c bits ->
             (* the quadratic unary-number optimum is only evaluated for short strings *)
             List.length c > 4000 ||
             let ca = Array.of_list (chars c) in
             let cmp a b =
               let a = i a and b = i b in
               if a < Array.length wa && b < Array.length ca then Ok (wa.(a) = ca.(b)) else Panic
             in
             let l = i (lcs_len cmp O (ni (Array.length wa)) O (ni (Array.length ca))) in
             let tot = Array.length wa + Array.length ca in
             if tot = 0 then Int32.float_of_bits bits = 1.0 else bits = Core_cases.f32_bits_of_ratio (2 * l) tot)
           cands ratios
    in
    let key bits =
      let r = Int32.float_of_bits bits in
      let k = Int64.of_float (r *. 4294967296.0) in
      if Int64.compare k 4294967295L > 0 then 4294967295L else k
    in
    let ranking by_key =
      if List.length ratios <> List.length cands then None
      else
        let keep = List.filter (fun (_, bits) -> Int32.float_of_bits bits >= cutoff) (List.combine cands ratios) in
        let sorted =
          List.stable_sort
            (fun (c1, b1) (c2, b2) ->
              let k =
                if by_key then Int64.compare (key b2) (key b1)
                else compare (Int32.float_of_bits b2) (Int32.float_of_bits b1)
              in
              if k <> 0 then k else compare (str_of c1) (str_of c2))
            keep
        in
        let rec take k l = if k <= 0 then [] else match l with [] -> [] | x :: r -> x :: take (k - 1) r in
        Some (List.map fst (take nres sorted))
    in
    (* the property: decreasing RATIO, ties lexicographic.  The code orders by the u32 key
       trunc(ratio * 2^32), which cannot separate some distinct ratios below 2^-9 (known finding F9):
       a result that is right by key but not by ratio is reported under a separate clause name *)
    let by_ratio = ranking false and by_keyorder = ranking true in
    let spec_ok = by_ratio = Some res in
    let keytie = (not spec_ok) && by_keyorder = Some res in
    [ ("no_panic", true); ("close_ratio_is_2L", ratio_ok);
      ("close_matches_spec", spec_ok || keytie); ("close_matches_spec@keytie", not keytie) ]

let clauses_repeat _h impl =
  if dead impl then [ ("no_panic", false) ]
  else
    let ih = parse_impl impl in
    [ ("no_panic", true); ("deterministic", get ih "all_same" = "1") ]

(* the deadline value seen by the algorithm: absolute deadlines unchanged, timeouts counted from the
   start of the diff (flags computed by the harness from the similar_verif hook) *)
let clauses_plumb _h impl =
  if dead impl then [ ("no_panic", false) ]
  else
    let ih = parse_impl impl in
    let ok k = let v = get ih k in v = "1" || v = "-" in
    [ ("no_panic", true); ("deadline_plumbed", get ih "seen" = "1");
      ("deadline_value", get ih "seen" = "1" && ok "exact" && ok "lo" && ok "hi") ]

let clauses (comp : string) (h : (string, string) Hashtbl.t) (impl : string) : (string * bool) list =
  match comp with
  | "tok" -> clauses_tok h impl
  | "textdiff" -> clauses_textdiff h impl
  | "udiff" -> clauses_udiff h impl
  | "remap" -> clauses_remap h impl
  | "slices" -> clauses_slices h impl
  | "inline" -> clauses_inline h impl
  | "identify" -> clauses_identify h impl
  | "repeat" -> clauses_repeat h impl
  | "plumb" -> clauses_plumb h impl
  | "close" -> clauses_close h impl
  | "utf8" | "ws" -> if dead impl then [ ("no_panic", false) ] else [ ("no_panic", true) ]
  | _ -> []
