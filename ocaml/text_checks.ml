(* Checkers for the text-layer components (filled in as the text model grows). *)
let clauses (_comp : string) (_h : (string, string) Hashtbl.t) (_impl : string) : (string * bool) list = []
