(* Shared helpers of the driver: parsing, number conversion, printing,
   comparison oracles, adapter stacks.  Trusted glue, no property logic. *)
open Model

let nat_of_int (n : int) : nat =
  let rec go acc n = if n <= 0 then acc else go (S acc) (n - 1) in
  go O n

let int_of_nat (n : nat) : int =
  let rec go acc = function O -> acc | S m -> go (acc + 1) m in
  go 0 n

let ( %> ) f g x = g (f x)

(* ---------- parsing ---------- *)
let split_on c s = if s = "" then [] else String.split_on_char c s

let parse_kv (line : string) : string * (string, string) Hashtbl.t =
  let toks = List.filter (fun x -> x <> "") (String.split_on_char ' ' line) in
  let h = Hashtbl.create 16 in
  match toks with
  | [] -> ("", h)
  | comp :: rest ->
      List.iter
        (fun t ->
          match String.index_opt t '=' with
          | Some p -> Hashtbl.replace h (String.sub t 0 p) (String.sub t (p + 1) (String.length t - p - 1))
          | None -> ())
        rest;
      (comp, h)

let get h k = try Hashtbl.find h k with Not_found -> failwith ("missing key " ^ k)
let get_def h k d = try Hashtbl.find h k with Not_found -> d

let parse_list s : int list =
  if s = "-" || s = "" then [] else List.map int_of_string (String.split_on_char ',' s)

let parse_range s =
  match String.split_on_char ':' s with
  | [ a; b ] -> (int_of_string a, int_of_string b)
  | _ -> failwith "range"

let parse_opt s = if s = "-" then None else Some (int_of_string s)

let parse_calls s : call list =
  if s = "-" || s = "" then []
  else
    List.map
      (fun t ->
        let n i p = nat_of_int (int_of_string (List.nth p i)) in
        let p = String.split_on_char ':' t in
        match List.hd p with
        | "E" -> CEq (n 1 p, n 2 p, n 3 p)
        | "D" -> CDel (n 1 p, n 2 p, n 3 p)
        | "I" -> CIns (n 1 p, n 2 p, n 3 p)
        | "R" -> CRep (n 1 p, n 2 p, n 3 p, n 4 p)
        | "F" -> CFin
        | _ -> failwith "call")
      (String.split_on_char ',' s)

let i = int_of_nat

let fmt_call = function
  | CEq (a, b, c) -> Printf.sprintf "E:%d:%d:%d" (i a) (i b) (i c)
  | CDel (a, b, c) -> Printf.sprintf "D:%d:%d:%d" (i a) (i b) (i c)
  | CIns (a, b, c) -> Printf.sprintf "I:%d:%d:%d" (i a) (i b) (i c)
  | CRep (a, b, c, d) -> Printf.sprintf "R:%d:%d:%d:%d" (i a) (i b) (i c) (i d)
  | CFin -> "F"

let fmt_calls cs = if cs = [] then "-" else String.concat "," (List.map fmt_call cs)
let fmt_ops ops = fmt_calls (List.map op_to_call ops)

let rec calls_to_ops = function
  | [] -> []
  | CEq (a, b, c) :: r -> Equal (a, b, c) :: calls_to_ops r
  | CDel (a, b, c) :: r -> Delete (a, b, c) :: calls_to_ops r
  | CIns (a, b, c) :: r -> Insert (a, b, c) :: calls_to_ops r
  | CRep (a, b, c, d) :: r -> Replace (a, b, c, d) :: calls_to_ops r
  | CFin :: r -> calls_to_ops r

(* ---------- sequences and oracles ---------- *)
type seqs = { olda : int array; newa : int array; ko : int; kn : int }

let parse_seqs h =
  let olda = Array.of_list (parse_list (get h "old")) in
  let newa = Array.of_list (parse_list (get h "new")) in
  let idx = get_def h "idx" "S" in
  let ko, kn =
    if String.length idx > 0 && idx.[0] = 'O' then parse_range (String.sub idx 1 (String.length idx - 1))
    else (0, 0)
  in
  { olda; newa; ko; kn }

let at (a : int array) (k : int) (n : nat) : int option =
  let x = int_of_nat n in
  if x < k || x - k >= Array.length a then None else Some a.(x - k)

let oracles_of (s : seqs) : oracles =
  let on i j =
    match (at s.newa s.kn j, at s.olda s.ko i) with
    | Some y, Some x -> Ok (y = x)
    | _ -> Panic
  in
  let same a k i j = match (at a k i, at a k j) with Some x, Some y -> Ok (x = y) | _ -> Panic in
  { o_on = on; o_oo = same s.olda s.ko; o_nn = same s.newa s.kn }

let parse_alg = function "M" -> Myers | "P" -> Patience | "L" -> Lcs | _ -> failwith "alg"

let deadline_of (o : int option) : deadline =
  match o with
  | None -> None
  | Some k when k >= 100_000_000 -> Some (fun _ -> false) (* the never-expiring clock *)
  | Some k -> Some (clock_at (nat_of_int k))

let dbg = ref false

let rec firstn n l = if n <= 0 then [] else match l with [] -> [] | x :: r -> x :: firstn (n - 1) r

type runner = { run : 'w. 'w world -> 'w -> 'w res }

let with_stack (stack : string) (dl : deadline) (orc : oracles) (repair : bool) (r : runner)
    : (call list * ctr) res =
  let pw = plain_world dl in
  let fin (w : plain) = Ok (plain_calls w, w.p_ctr) in
  match stack with
  | "none" | "mutref" -> ( match r.run pw plain0 with Ok w -> fin w | Panic -> Panic | OutOfFuel -> OutOfFuel)
  | "nofinish" -> (
      match r.run (no_finish pw) plain0 with Ok w -> fin w | Panic -> Panic | OutOfFuel -> OutOfFuel)
  | "replace" -> (
      match r.run (replace_world pw !dbg) (rstate0, plain0) with
      | Ok (_, w) -> fin w
      | Panic -> Panic
      | OutOfFuel -> OutOfFuel)
  | "replace_nofinish" -> (
      match r.run (replace_world (no_finish pw) !dbg) (rstate0, plain0) with
      | Ok (_, w) -> fin w
      | Panic -> Panic
      | OutOfFuel -> OutOfFuel)
  | "replace_norep" -> (
      match r.run (replace_world (default_replace pw) !dbg) (rstate0, plain0) with
      | Ok (_, w) -> fin w
      | Panic -> Panic
      | OutOfFuel -> OutOfFuel)
  | "compact" -> (
      match r.run (compact_world pw orc.o_on repair) ([], plain0) with
      | Ok (_, w) -> fin w
      | Panic -> Panic
      | OutOfFuel -> OutOfFuel)
  | "compact_replace" -> (
      match r.run (compact_world (replace_world pw !dbg) orc.o_on repair) ([], (rstate0, plain0)) with
      | Ok (_, (_, w)) -> fin w
      | Panic -> Panic
      | OutOfFuel -> OutOfFuel)
  | "norep" -> (
      match r.run (default_replace pw) plain0 with Ok w -> fin w | Panic -> Panic | OutOfFuel -> OutOfFuel)
  | "replace_twice" -> (
      (* the same Replace adapter (its state carried over) runs the diff twice *)
      match r.run (replace_world pw !dbg) (rstate0, plain0) with
      | Ok st -> (
          match r.run (replace_world pw !dbg) st with
          | Ok (_, w) -> fin w
          | Panic -> Panic
          | OutOfFuel -> OutOfFuel)
      | Panic -> Panic
      | OutOfFuel -> OutOfFuel)
  | "replace_compact" -> (
      (* the adapters nested the other way round: Replace hands replace events to Compact *)
      match r.run (replace_world (compact_world pw orc.o_on repair) !dbg) (rstate0, ([], plain0)) with
      | Ok (_, (_, w)) -> fin w
      | Panic -> Panic
      | OutOfFuel -> OutOfFuel)
  | s -> failwith ("bad stack " ^ s)

